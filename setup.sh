#!/bin/sh
# Offline build of the framework: regenerate tables from /repo, build Lean library + driver.
cd "$(dirname "$0")" || exit 2
/venv/bin/python tools/regen.py || exit 2
cd lean && lake build 2>&1 | tail -5
