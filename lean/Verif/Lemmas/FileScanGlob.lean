/-
  Helper lemmas for C19: `os.path.split` and `glob.glob` on normalised patterns;
  the fuel of `iglobF` never runs out.
-/
import Verif.Model.FileScan
import Verif.Model.FileScanSpec
import Verif.Lemmas.FileScanPath
import Verif.Lemmas.FileScanWalk
import Verif.Lemmas.FileScanNorm
namespace Verif.Lemmas.FileScan
open Verif.Model.FileScan

/-! ### os.path.split -/

theorem psplit_noSlash {p : Str} (h : '/' ∉ p) : psplit p = ([], p) := by
  have hall : ∀ a ∈ p.reverse, (fun x : Char => decide (x ≠ '/')) a = true := by
    intro a ha
    have : a ∈ p := by simpa using ha
    simp; intro e; subst e; exact h this
  have h1 : p.reverse.takeWhile (fun x => decide (x ≠ '/')) = p.reverse := by
    have := List.takeWhile_append_of_pos (l₂ := []) hall
    simpa using this
  have h2 : p.reverse.dropWhile (fun x => decide (x ≠ '/')) = [] := by
    have := List.dropWhile_append_of_pos (l₂ := []) hall
    simpa using this
  simp only [psplit, h1, h2]
  simp

theorem psplit_slash {h tl : Str} (htl : '/' ∉ tl) :
    psplit (h ++ '/' :: tl) =
      (if h ++ ['/'] ≠ [] ∧ !((h ++ ['/']).all (· = '/')) then rstripSlash (h ++ ['/']) else h ++ ['/'], tl) := by
  have hall : ∀ a ∈ tl.reverse, (fun x : Char => decide (x ≠ '/')) a = true := by
    intro a ha
    have : a ∈ tl := by simpa using ha
    simp; intro e; subst e; exact htl this
  have hrev : (h ++ '/' :: tl).reverse = tl.reverse ++ '/' :: h.reverse := by simp
  have h1 : (h ++ '/' :: tl).reverse.takeWhile (fun x => decide (x ≠ '/')) = tl.reverse := by
    rw [hrev, List.takeWhile_append_of_pos hall]; simp
  have h2 : (h ++ '/' :: tl).reverse.dropWhile (fun x => decide (x ≠ '/')) = '/' :: h.reverse := by
    rw [hrev, List.dropWhile_append_of_pos hall]; simp
  simp only [psplit, h1, h2]
  simp

theorem rstripSlash_concat_of_last {h : Str} {x : Char} (hl : h.getLast? = some x) (hx : x ≠ '/') :
    rstripSlash (h ++ ['/']) = h := by
  have hh := eq_dropLast_append_of_getLast? hl
  rw [hh]
  simp [rstripSlash, hx]

theorem joinSlash_ne_nil_of {init : List Str} (hne : init ≠ []) (hc : ∀ c ∈ init, c ≠ []) :
    joinSlash init ≠ [] := by
  cases init with
  | nil => exact absurd rfl hne
  | cons a rest =>
    cases rest with
    | nil => simpa [joinSlash] using hc a (by simp)
    | cons b rest' =>
      simp only [joinSlash]
      intro e
      have := congrArg List.length e
      simp at this

theorem splitOn_joinSlash : ∀ {init : List Str}, init ≠ [] → (∀ c ∈ init, '/' ∉ c) →
    splitOn '/' (joinSlash init) = init
  | [], h, _ => absurd rfl h
  | [a], _, hc => by simpa [joinSlash] using splitOn_noSep '/' (hc a (by simp))
  | a :: b :: rest, _, hc => by
    simp only [joinSlash]
    rw [splitOn_append_sep, splitOn_noSep '/' (hc a (by simp)),
      splitOn_joinSlash (init := b :: rest) (by simp) (fun c h => hc c (List.mem_cons_of_mem _ h))]
    simp

/-- `os.path.split` of a normalised path: everything before the last component, and it. -/
theorem psplit_normalised {p : Str} (hn : Normalised p) {init : List Str} {c : Str}
    (hs : splitOn '/' p = init ++ [c]) :
    psplit p = (joinSlash init, c) ∧ (init ≠ [] → Normalised (joinSlash init) ∧ joinSlash init ≠ p) := by
  have hj := joinSlash_splitOn p
  have hcno : '/' ∉ c := splitOn_noSep_mem (s := p) (by rw [hs]; simp)
  cases init with
  | nil =>
    simp only [List.nil_append] at hs
    rw [hs] at hj
    simp only [joinSlash] at hj
    subst hj
    exact ⟨by simpa [joinSlash] using psplit_noSlash hcno, fun h => absurd rfl h⟩
  | cons a as =>
    have hinit : ∀ x ∈ a :: as, '/' ∉ x := fun x hx =>
      splitOn_noSep_mem (s := p) (by rw [hs]; exact List.mem_append_left _ hx)
    have hsplit := splitOn_joinSlash (init := a :: as) (by simp) hinit
    have hnorm : Normalised (joinSlash (a :: as)) := by
      intro x hx
      rw [hsplit] at hx
      exact hn x (by rw [hs]; exact List.mem_append_left _ hx)
    rw [hs, joinSlash_concat c (by simp)] at hj
    have hne : joinSlash (a :: as) ≠ [] := (normalised_rel hnorm).1
    obtain ⟨x, hx⟩ : ∃ x, (joinSlash (a :: as)).getLast? = some x := by
      cases h : (joinSlash (a :: as)).getLast? with
      | none => exact absurd (by simpa using h) hne
      | some x => exact ⟨x, rfl⟩
    have hxs : x ≠ '/' := by
      intro e; subst e; exact normalised_last hnorm hx
    have hps := psplit_slash (h := joinSlash (a :: as)) hcno
    rw [hj] at hps
    have hnotall : ((joinSlash (a :: as) ++ ['/']).all (· = '/')) = false := by
      rw [eq_dropLast_append_of_getLast? hx]
      simp [hxs]
    refine ⟨?_, fun _ => ⟨hnorm, ?_⟩⟩
    · rw [hps]
      simp [hnotall, rstripSlash_concat_of_last hx hxs]
    · intro e
      have := congrArg List.length hj
      rw [e] at this
      simp at this

/-! ### names listed by glob -/

theorem mem_listDir_valid {t : Tree} (wf : WF t) {P : Path} {d : Bool} {n : Str}
    (h : n ∈ listDir t P d) : ValidName n := by
  simp only [listDir, List.mem_filterMap] at h
  obtain ⟨⟨q, k⟩, hmem, hq⟩ := h
  simp only at hq
  split at hq
  · rename_i n' hsp
    split at hq
    · simp at hq; subst hq
      have := stripPrefix_eq_some.mp hsp
      exact validName_of_mem wf hmem (by rw [this]; simp)
    · cases hq
  · cases hq

theorem mem_glob1_valid {t : Tree} (wf : WF t) {dir pat : Str} {d : Bool} {n : Str}
    (h : n ∈ glob1 t dir pat d) : ValidName n := by
  simp only [glob1] at h
  split at h
  · simp at h
  · have h' := (List.mem_filter.mp h).1
    split at h'
    · exact mem_listDir_valid wf h'
    · exact mem_listDir_valid wf (List.mem_filter.mp h').1

theorem mem_glob0 {t : Tree} {dir base n : Str} (h : n ∈ glob0 t dir base) : n = base := by
  simp only [glob0] at h
  split at h <;> split at h <;> simp at h <;> exact h

/-! ### glob on normalised patterns -/

theorem iglobF_normalised {t : Tree} (wf : WF t) : ∀ (n : Nat) {pat : Str} {d : Bool} {g : Str},
    Normalised pat → g ∈ iglobF t n pat d → Normalised g
  | 0, _, _, _, _, h => by simp [iglobF] at h
  | n + 1, pat, d, g, hn, h => by
    obtain ⟨init, c, hs⟩ : ∃ init c, splitOn '/' pat = init ++ [c] := by
      have hne := splitOn_ne_nil '/' pat
      exact ⟨(splitOn '/' pat).dropLast, (splitOn '/' pat).getLast hne,
        (List.dropLast_concat_getLast hne).symm⟩
    obtain ⟨hps, hinit⟩ := psplit_normalised hn hs
    have hc : ValidName c := validName_of_nameComp (s := pat) (by rw [hs]; simp) (hn c (by rw [hs]; simp))
    simp only [iglobF, hps] at h
    split at h
    · -- no magic: the pattern itself
      split at h <;> split at h <;> simp at h <;> (subst h; exact hn)
    · split at h
      · exact normalised_of_validName (mem_glob1_valid wf h)
      · rename_i hdn
        have hne : init ≠ [] := by
          intro e; subst e; exact hdn rfl
        obtain ⟨hnd, _⟩ := hinit hne
        obtain ⟨dd, hdd, hg⟩ := List.mem_flatMap.mp h
        have hddn : Normalised dd := by
          split at hdd
          · exact iglobF_normalised wf n hnd hdd
          · simp at hdd; subst hdd; exact hnd
        obtain ⟨name, hname, rfl⟩ := List.mem_map.mp hg
        have hv : ValidName name := by
          split at hname
          · exact mem_glob1_valid wf hname
          · rw [mem_glob0 hname]; exact hc
        exact (pjoin_normalised hddn hv).2.2

theorem glob_normalised {t : Tree} (wf : WF t) {pat g : Str} (hn : Normalised pat)
    (h : g ∈ glob t pat) : Normalised g := iglobF_normalised wf _ hn h

end Verif.Lemmas.FileScan

namespace Verif.Lemmas.FileScan
open Verif.Model.FileScan

/-! ### the fuel of `iglobF` is never exhausted -/

theorem rstripSlash_prefix (s : Str) : rstripSlash s <+: s := by
  have := List.dropWhile_suffix (l := s.reverse) (fun x => decide (x = '/'))
  have h := List.reverse_prefix.mpr this
  simpa [rstripSlash] using h

theorem psplit_fst_prefix (p : Str) : (psplit p).1 <+: p := by
  have h1 : (p.reverse.dropWhile (fun x => decide (x ≠ '/'))).reverse <+: p := by
    have := List.dropWhile_suffix (l := p.reverse) (fun x => decide (x ≠ '/'))
    simpa using List.reverse_prefix.mpr this
  simp only [psplit]
  split
  · exact (rstripSlash_prefix _).trans h1
  · exact h1

theorem psplit_fst_length {p : Str} (h : (psplit p).1 ≠ p) : (psplit p).1.length < p.length := by
  obtain ⟨r, hr⟩ := psplit_fst_prefix p
  have hne : r ≠ [] := by
    intro e; subst e; simp at hr; exact h hr
  have := congrArg List.length hr
  have hpos : 0 < r.length := List.length_pos_iff.mpr hne
  simp at this; omega

theorem iglobF_fuel (t : Tree) : ∀ (n m : Nat) (p : Str) (d : Bool), p.length < n → p.length < m →
    iglobF t n p d = iglobF t m p d
  | 0, _, _, _, h, _ => by omega
  | _ + 1, 0, _, _, _, h => by omega
  | n + 1, m + 1, p, d, hn, hm => by
    simp only [iglobF]
    by_cases hc : ((psplit p).1 ≠ p && hasMagic (psplit p).1) = true
    · have hne : (psplit p).1 ≠ p := by
        simp only [Bool.and_eq_true, decide_eq_true_eq] at hc; exact hc.1
      have hlen := psplit_fst_length hne
      rw [iglobF_fuel t n m (psplit p).1 true (by omega) (by omega)]
    · simp only [hc, Bool.false_eq_true, if_false]

end Verif.Lemmas.FileScan
