/-
  Spec equivalence, part 5: code spans.  The faithful closing-run search (`str.find` of the opening run, then a check that
  the run found is not longer) finds exactly the run LeanMark's `findTicks` finds (spec 6.1: "a backtick string of equal
  length").
-/
import Verif.Lemmas.InlineRecogSpecHtml
namespace Verif.Model.InlineRecog
open Verif.Model.Recognisers
open Verif.Model

def T : Char := '`'

/-! ## `findTicks` -/

/-- the index argument only shifts the answer -/
theorem findTicks_shift (n : Nat) : ∀ (l : List Char) (run idx d : Nat), run ≤ idx →
    LeanMark.findTicks n l run (idx + d) = (LeanMark.findTicks n l run idx).map (· + d)
  | [], run, idx, d, h => by
    rw [LeanMark.findTicks, LeanMark.findTicks]
    by_cases hr : (run == n) = true
    · simp only [hr, if_true, Option.map_some]
      have : run = n := by simpa using hr
      congr 1; omega
    · simp only [hr, Bool.false_eq_true, if_false, Option.map_none]
  | c :: r, run, idx, d, h => by
    rw [LeanMark.findTicks, LeanMark.findTicks]
    by_cases hc : (c == '`') = true
    · simp only [hc, if_true]
      rw [show idx + d + 1 = (idx + 1) + d by omega]
      exact findTicks_shift n r (run + 1) (idx + 1) d (by omega)
    · simp only [hc, Bool.false_eq_true, if_false]
      by_cases hr : (run == n) = true
      · simp only [hr, if_true, Option.map_some]
        have : run = n := by simpa using hr
        congr 1; omega
      · simp only [hr, Bool.false_eq_true, if_false]
        rw [show idx + d + 1 = (idx + 1) + d by omega]
        exact findTicks_shift n r 0 (idx + 1) d (by omega)

/-- over a run of `b` backticks -/
theorem findTicks_run (n : Nat) (l : List Char) : ∀ (b run idx : Nat),
    LeanMark.findTicks n (List.replicate b T ++ l) run idx = LeanMark.findTicks n l (run + b) (idx + b)
  | 0, run, idx => by simp
  | b + 1, run, idx => by
    rw [List.replicate_succ, List.cons_append, LeanMark.findTicks]
    have : (T == '`') = true := rfl
    simp only [this, if_true]
    rw [findTicks_run n l b (run + 1) (idx + 1)]
    congr 1 <;> omega

/-- at the start of a maximal run of `b ≥ 1` backticks: the run closes the span iff `b = n`, otherwise the search goes on after it -/
theorem findTicks_at_run (n b : Nat) (l : List Char) (hn : 1 ≤ n) (hl : ∀ c r, l = c :: r → c ≠ T) :
    LeanMark.findTicks n (List.replicate b T ++ l) 0 0 =
      if b = n then some 0 else (LeanMark.findTicks n l 0 0).map (· + b) := by
  rw [findTicks_run n l b 0 0]
  simp only [Nat.zero_add]
  cases l with
  | nil =>
    rw [LeanMark.findTicks, LeanMark.findTicks]
    by_cases hb : b = n
    · subst hb; simp
    · have h1 : (b == n) = false := by simpa using hb
      have h2 : ((0 : Nat) == n) = false := by simp; omega
      simp [hb, h1, h2]
  | cons c r =>
    have hc : (c == '`') = false := by
      simp only [beq_eq_false_iff_ne, ne_eq]; exact hl c r rfl
    rw [LeanMark.findTicks]
    simp only [hc, Bool.false_eq_true, if_false]
    by_cases hb : b = n
    · subst hb; simp
    · have h1 : (b == n) = false := by simpa using hb
      simp only [h1, Bool.false_eq_true, if_false, hb]
      rw [LeanMark.findTicks]
      have h2 : ((0 : Nat) == n) = false := by simp; omega
      simp only [hc, Bool.false_eq_true, if_false, h2]
      rw [show b + 1 = 1 + b by omega]
      exact findTicks_shift n r 0 1 b (by omega)

/-- at a character that is not a backtick -/
theorem findTicks_skip (n : Nat) (c : Char) (r : List Char) (hn : 1 ≤ n) (hc : c ≠ T) :
    LeanMark.findTicks n (c :: r) 0 0 = (LeanMark.findTicks n r 0 0).map (· + 1) := by
  rw [LeanMark.findTicks]
  have h1 : (c == '`') = false := by simp only [beq_eq_false_iff_ne, ne_eq]; exact hc
  have h2 : ((0 : Nat) == n) = false := by simp; omega
  simp only [h1, Bool.false_eq_true, if_false, h2]
  exact findTicks_shift n r 0 0 1 (by omega)

/-! ## `str.find` of a run of backticks -/

theorem replicate_prefix_run (n b : Nat) (l : List Char) (hl : ∀ c r, l = c :: r → c ≠ T) :
    (List.replicate n T).isPrefixOf (List.replicate b T ++ l) = decide (n ≤ b) := by
  induction n generalizing b with
  | zero => simp
  | succ n ih =>
    cases b with
    | zero =>
      simp only [List.replicate_zero, List.nil_append]
      cases l with
      | nil => simp [List.replicate_succ, List.isPrefixOf]
      | cons c r =>
        have hc : c ≠ T := hl c r rfl
        have : (T == c) = false := by simp only [beq_eq_false_iff_ne, ne_eq]; exact fun e => hc e.symm
        simp [List.replicate_succ, List.isPrefixOf, this]
    | succ b =>
      rw [List.replicate_succ, List.replicate_succ, List.cons_append, List.isPrefixOf]
      simp only [beq_self_eq_true, Bool.true_and]
      rw [ih b]
      simp

/-- a maximal run that is too short is skipped by `find`; one that is long enough is found -/
theorem findSub_at_run (n b : Nat) (l : List Char) (hn : 1 ≤ n) (hl : ∀ c r, l = c :: r → c ≠ T) :
    findSub (List.replicate n T) (List.replicate b T ++ l) =
      if n ≤ b then some 0 else (findSub (List.replicate n T) l).map (· + b) := by
  induction b with
  | zero =>
    have : ¬ n ≤ 0 := by omega
    simp [this]
  | succ b ih =>
    rw [List.replicate_succ, List.cons_append, findSub]
    have hp := replicate_prefix_run n (b + 1) l hl
    rw [List.replicate_succ, List.cons_append] at hp
    rw [hp]
    by_cases hnb : n ≤ b + 1
    · simp [hnb]
    · simp only [hnb, decide_false, Bool.false_eq_true, if_false]
      rw [ih]
      have : ¬ n ≤ b := by omega
      simp only [this, if_false]
      cases findSub (List.replicate n T) l with
      | none => rfl
      | some p => simp only [Option.map_some]; congr 1

theorem findSub_skip (n : Nat) (c : Char) (r : List Char) (hn : 1 ≤ n) (hc : c ≠ T) :
    findSub (List.replicate n T) (c :: r) = (findSub (List.replicate n T) r).map (· + 1) := by
  rw [findSub]
  have : (List.replicate n T).isPrefixOf (c :: r) = false := by
    cases n with
    | zero => omega
    | succ m =>
      rw [List.replicate_succ, List.isPrefixOf]
      have : (T == c) = false := by simp only [beq_eq_false_iff_ne, ne_eq]; exact fun e => hc e.symm
      simp [this]
  rw [this]
  rfl

/-! ## the closing-run loop = `findTicks` -/

theorem takeWhile_eq_replicate : ∀ (l : List Char), l.takeWhile (· == T) = List.replicate (l.takeWhile (· == T)).length T
  | [] => rfl
  | c :: r => by
    by_cases hc : (c == T) = true
    · have : c = T := by simpa using hc
      subst this
      simp only [List.takeWhile_cons, beq_self_eq_true, if_true, List.length_cons, List.replicate_succ]
      rw [← takeWhile_eq_replicate r]
    · simp only [List.takeWhile_cons, hc]; rfl

theorem run_decomp (l : List Char) :
    l = List.replicate (l.takeWhile (· == T)).length T ++ l.dropWhile (· == T) := by
  rw [← takeWhile_eq_replicate]; exact (List.takeWhile_append_dropWhile).symm

theorem dropWhile_head_ne (l : List Char) : ∀ c r, l.dropWhile (· == T) = c :: r → c ≠ T := by
  intro c r h
  have := dropWhile_head_not (· == T) l c r h
  simpa using this
where
  dropWhile_head_not (p : Char → Bool) : ∀ (l : List Char) (c : Char) (r : List Char), l.dropWhile p = c :: r → p c = false
    | [], _, _, h => by simp at h
    | x :: xs, c, r, h => by
      by_cases hx : p x = true
      · simp only [List.dropWhile_cons, hx, if_true] at h
        exact dropWhile_head_not p xs c r h
      · simp only [List.dropWhile_cons, hx] at h
        injection h with h1 _
        rw [← h1]; simpa using hx

theorem tick_contains (c : Char) : ['`'].contains c = (c == T) := by
  rw [List.contains_cons, List.contains_nil, Bool.or_false]; rfl

theorem slice_length_scan_eq (src : Str) (p b : Nat) (h : p + b ≤ src.length) : (slice src p (p + b)).length = b := by
  unfold slice; rw [List.length_drop, List.length_take]; omega

/-- **the closing run**: for every position `p` of the text, the faithful search started at `p` finds the run that
`findTicks` finds in the text from `p` on -/
theorem tickCloseLoop_spec (src : Str) (n : Nat) (hn : 1 ≤ n) : ∀ (m p : Nat), src.length - p ≤ m → p ≤ src.length →
    ∀ fuel, src.length - p < fuel →
    tickCloseLoop src (List.replicate n T) fuel (pyFind src (List.replicate n T) p) =
      .ok ((LeanMark.findTicks n (src.drop p) 0 0).map (· + p))
  | m, p, hm, hp, fuel, hf => by
    have hfind : pyFind src (List.replicate n T) p = (findSub (List.replicate n T) (src.drop p)).map (· + p) := by
      unfold pyFind; rw [if_pos hp]
    rw [hfind]
    cases hl : src.drop p with
    | nil =>
      have hfn : findSub (List.replicate n T) [] = none := by
        rw [findSub]
        cases n with
        | zero => omega
        | succ k => rfl
      rw [hfn]
      have h0 : LeanMark.findTicks n [] 0 0 = none := by
        rw [LeanMark.findTicks]
        have : ((0 : Nat) == n) = false := by simp; omega
        simp [this]
      rw [h0]
      cases fuel <;> rfl
    | cons c r =>
      have hpl : p < src.length := by
        by_cases hh : p < src.length
        · exact hh
        · rw [List.drop_eq_nil_of_le (by omega)] at hl; cases hl
      have hr : src.drop (p + 1) = r := by
        rw [← List.drop_drop, hl]; rfl
      match m, hm with
      | 0, hm => omega
      | m + 1, hm =>
        by_cases hc : c = T
        · -- a run of backticks starts here
          subst hc
          have hdec := run_decomp (T :: r)
          generalize hb : ((T :: r).takeWhile (· == T)).length = b at hdec
          have hb1 : 1 ≤ b := by rw [← hb]; simp [List.takeWhile_cons, T]
          have hl'' := dropWhile_head_ne (T :: r)
          generalize hl2 : (T :: r).dropWhile (· == T) = l2 at hdec hl''
          have hble : p + b ≤ src.length := by
            have := congrArg List.length hl
            rw [List.length_drop, hdec, List.length_append, List.length_replicate] at this
            omega
          have hdropb : src.drop (p + b) = l2 := by
            rw [← List.drop_drop, hl, hdec, List.drop_left' (List.length_replicate ..)]
          have hscan : scanTo src ['`'].contains p = p + b := by
            rw [scanTo_congr tick_contains]; unfold scanTo; rw [hl, hb]
          rw [hdec, findSub_at_run n b l2 hn hl'', findTicks_at_run n b l2 hn hl'']
          have hih := tickCloseLoop_spec src n hn m (p + b) (by omega) hble
          by_cases hnb : n ≤ b
          · rw [if_pos hnb]
            simp only [Option.map_some, Nat.zero_add]
            match fuel, hf with
            | fuel + 1, hf =>
              rw [tickCloseLoop, collectWhileOneOfVerified_eq _ _ _ hp]
              simp only
              rw [hscan, slice_length_scan_eq src p b hble, List.length_replicate]
              by_cases hbn : b = n
              · subst hbn
                simp
              · have : (b == n) = false := by simpa using hbn
                simp only [this, Bool.false_eq_true, if_false, hbn]
                rw [hih fuel (by omega), hdropb]
                congr 1
                cases LeanMark.findTicks n l2 0 0 with
                | none => rfl
                | some k => simp only [Option.map_some]; congr 1; omega
          · rw [if_neg hnb]
            have hbn : ¬ b = n := by omega
            simp only [hbn, if_false]
            have : ((findSub (List.replicate n T) l2).map (· + b)).map (· + p) =
                pyFind src (List.replicate n T) (p + b) := by
              unfold pyFind; rw [if_pos hble, hdropb]
              cases findSub (List.replicate n T) l2 with
              | none => rfl
              | some k => simp only [Option.map_some]; congr 1; omega
            rw [this, hih fuel (by omega), hdropb]
            congr 1
            cases LeanMark.findTicks n l2 0 0 with
            | none => rfl
            | some k => simp only [Option.map_some]; congr 1; omega
        · -- not a backtick: both go on
          rw [findSub_skip n c r hn hc, findTicks_skip n c r hn hc]
          have : ((findSub (List.replicate n T) r).map (· + 1)).map (· + p) = pyFind src (List.replicate n T) (p + 1) := by
            unfold pyFind; rw [if_pos (by omega), hr]
            cases findSub (List.replicate n T) r with
            | none => rfl
            | some k => simp only [Option.map_some]; congr 1; omega
          rw [this, tickCloseLoop_spec src n hn m (p + 1) (by omega) (by omega) fuel (by omega), hr]
          congr 1
          cases LeanMark.findTicks n r 0 0 with
          | none => rfl
          | some k => simp only [Option.map_some]; congr 1; omega

/-! ## `handle_inline_backtick` against `handleTick` -/

theorem countWhile_eq (p : Char → Bool) : ∀ (l : List Char), LeanMark.countWhile p l = (l.takeWhile p).length
  | [] => rfl
  | c :: r => by
    rw [LeanMark.countWhile, List.takeWhile_cons]
    split
    · rw [countWhile_eq p r, List.length_cons]; omega
    · rfl

/-- **code spans**: at a backtick (no U+0007 in the text) the faithful handler finds a closing run exactly when the specification
(LeanMark `handleTick` / `findTicks`) does, at the same place; it consumes the same number of characters; the text between the
runs it splits into `tickParts` -/
theorem codespan_spec (src : Str) (next : Nat) (hl : next < src.length) (hc : src[next] = '`') (hal : Codec.AL ∉ src) :
    ∃ res, handleInlineBacktick src next = .ok res ∧
      (match LeanMark.findTicks (1 + LeanMark.countWhile (· == '`') (src.drop (next + 1)))
          ((src.drop (next + 1)).drop (1 + LeanMark.countWhile (· == '`') (src.drop (next + 1)) - 1)) 0 0 with
       | none =>
         res.span = none ∧ res.newString = List.replicate (1 + LeanMark.countWhile (· == '`') (src.drop (next + 1))) '`' ∧
         res.newIndex = next + (1 + LeanMark.countWhile (· == '`') (src.drop (next + 1)))
       | some k =>
         let n := 1 + LeanMark.countWhile (· == '`') (src.drop (next + 1))
         let between := ((src.drop (next + 1)).drop (n - 1)).take k
         res.newIndex = next + n + k + n ∧ res.newString = [] ∧
         res.span = some (appendTextEscape (replaceNewlines (Codec.escapeSpecial (tickParts between).2.1)),
           List.replicate n '`', replaceNewlines (tickParts between).1, replaceNewlines (tickParts between).2.2)) := by
  -- the opening run
  have hdrop : src.drop next = T :: src.drop (next + 1) := by rw [drop_cons hl, hc]; rfl
  generalize hr : src.drop (next + 1) = r at hdrop
  rw [countWhile_eq]
  generalize hcw : (r.takeWhile (· == '`')).length = cw
  have hni : scanTo src ['`'].contains next = next + (1 + cw) := by
    rw [scanTo_congr tick_contains]; unfold scanTo
    rw [hdrop]
    have : (T == T) = true := rfl
    simp only [List.takeWhile_cons, this, if_true, List.length_cons]
    rw [show (fun x => x == T) = (fun x => x == '`') from rfl, hcw]; omega
  have hnle : next + (1 + cw) ≤ src.length := by
    have := takeWhile_length_le (· == '`') r
    rw [hcw, ← hr, List.length_drop] at this; omega
  have hticks : slice src next (next + (1 + cw)) = List.replicate (1 + cw) T := by
    rw [← slice_drop_take, hdrop]
    have h1 := takeWhile_eq_replicate (T :: r)
    have h2 : ((T :: r).takeWhile (· == T)).length = 1 + cw := by
      have : (T == T) = true := rfl
      simp only [List.takeWhile_cons, this, if_true, List.length_cons]
      rw [show (fun x => x == T) = (fun x => x == '`') from rfl, hcw]; omega
    rw [h2] at h1
    rw [← h1, ← h2, take_takeWhile_length]
  have hafter : r.drop (1 + cw - 1) = src.drop (next + (1 + cw)) := by
    rw [← hr, List.drop_drop]; congr 1; omega
  simp only [hafter]
  unfold handleInlineBacktick
  rw [collectWhileOneOfVerified_eq _ _ _ (by omega), liftR_ok]
  simp only
  rw [hni, hticks]
  rw [tickCloseLoop_spec src (1 + cw) (by omega) (src.length - (next + (1 + cw))) (next + (1 + cw)) (Nat.le_refl _) hnle
    (src.length + 1) (by omega), liftR_ok]
  cases hft : LeanMark.findTicks (1 + cw) (src.drop (next + (1 + cw))) 0 0 with
  | none =>
    simp only [Option.map_none]
    exact ⟨_, rfl, rfl, rfl, rfl⟩
  | some k =>
    simp only [Option.map_some]
    unfold backtickBetween
    simp only
    have hbetween : slice src (next + (1 + cw)) (k + (next + (1 + cw))) = (src.drop (next + (1 + cw))).take k := by
      rw [Nat.add_comm k, slice_drop_take]
    rw [hbetween]
    generalize hb : (src.drop (next + (1 + cw))).take k = between
    have hbmem : ∀ c ∈ between, c ∈ src := by
      intro c hc'; rw [← hb] at hc'
      exact List.mem_of_mem_drop (List.mem_of_mem_take hc')
    have hbody : Codec.AL ∉ (tickParts between).2.1 := fun hm => hal (hbmem _ (tickParts_mem.2.1 hm))
    rw [adjustForInjectedNoops_noAL _ (escapeSpecial_noAL _ hbody)]
    simp only [List.length_replicate]
    by_cases hnl : between.contains '\n' = true
    · rw [if_pos hnl]
      have hnal : Codec.AL ∉ between ++ List.replicate (1 + cw) T := by
        intro hm
        rcases List.mem_append.mp hm with hm | hm
        · exact hal (hbmem _ hm)
        · rw [List.mem_replicate] at hm; exact absurd hm.2 (by decide)
      obtain ⟨d, hd⟩ := calculateDeltas_ok _ hnal
      rw [hd]
      refine ⟨_, rfl, ?_, rfl, rfl⟩
      simp only; omega
    · rw [if_neg hnl]
      refine ⟨_, rfl, ?_, rfl, rfl⟩
      simp only; omega

/-! ## the content of a code span -/

/-- line endings become spaces -/
def nlSp (c : Char) : Char := if c == '\n' then ' ' else c

theorem nlSp_space (c : Char) : (nlSp c == ' ') = (c == ' ' || c == '\n') := by
  unfold nlSp
  by_cases h : c = '\n'
  · subst h; decide
  · have h' : (c == '\n') = false := by simpa using h
    simp [h']

theorem dropWhile_nil_all (p : Char → Bool) : ∀ (l : Str), l.dropWhile p = [] → ∀ x ∈ l, p x = true
  | [], _, x, hx => by cases hx
  | c :: r, h, x, hx => by
    by_cases hc : p c = true
    · simp only [List.dropWhile_cons, hc, if_true] at h
      rcases List.mem_cons.mp hx with e | e
      · rw [e]; exact hc
      · exact dropWhile_nil_all p r h x e
    · simp only [List.dropWhile_cons, hc] at h; simp at h

theorem stripSpaces_nonempty (l : Str) : ((stripSpaces l).length != 0) = l.any (· != ' ') := by
  unfold stripSpaces
  rw [List.length_reverse]
  cases hd : l.dropWhile (· == ' ') with
  | nil =>
    have hall := dropWhile_nil_all _ _ hd
    have : l.any (· != ' ') = false := by
      rw [List.any_eq_false]; intro x hx
      have := hall x hx; simp only [beq_iff_eq] at this; simp [this]
    rw [this]; rfl
  | cons x r =>
    have hx : (x == ' ') = false := by
      cases hh : (x == ' ') with
      | false => rfl
      | true =>
        have := dropWhile_head_ne.dropWhile_head_not (· == ' ') l x r hd
        rw [hh] at this; cases this
    have hmem : x ∈ l := (List.dropWhile_sublist _).subset (by rw [hd]; exact List.mem_cons_self)
    have hany : l.any (· != ' ') = true := by
      rw [List.any_eq_true]; exact ⟨x, hmem, by simp [bne, hx]⟩
    rw [hany]
    have hne : ((x :: r).reverse.dropWhile (· == ' ')) ≠ [] := by
      intro hnil
      have := dropWhile_nil_all _ _ hnil x (by simp)
      rw [hx] at this; cases this
    cases hh : (x :: r).reverse.dropWhile (· == ' ') with
    | nil => exact absurd hh hne
    | cons _ _ => simp

/-- **the content**: the text the faithful handler keeps as the body of the span, line endings turned into spaces, is the
specification's content — provided the text between the runs has a character that is neither a space nor a line ending, or has
no line ending at all -/
theorem code_content (b : Str) (h : (∃ c ∈ b, c ≠ ' ' ∧ c ≠ '\n') ∨ '\n' ∉ b) :
    (tickParts b).2.1.map nlSp = LeanMark.codeContent b := by
  unfold LeanMark.codeContent tickParts
  have hmap : (b.map fun c => if c == '\n' then ' ' else c) = b.map nlSp := rfl
  simp only [hmap]
  -- the two tests agree
  have htest : tickStrip b = ((b.map nlSp).head? == some ' ' && (b.map nlSp).getLast? == some ' ' && (b.map nlSp).any (· != ' ')) := by
    unfold tickStrip
    match b, h with
    | [], _ => rfl
    | [x], _ =>
      simp only [List.length_singleton, List.map_cons, List.map_nil, List.head?_cons, List.getLast?_singleton, List.any_cons,
        List.any_nil, Bool.or_false]
      have : decide (1 > 2) = false := by decide
      rw [this]
      simp only [Bool.false_and]
      cases hx : (nlSp x == ' ') <;> simp [hx, bne]
    | [x, y], _ =>
      simp only [List.length_cons, List.length_nil, List.map_cons, List.map_nil, List.head?_cons, List.any_cons, List.any_nil,
        Bool.or_false]
      have : decide (0 + 1 + 1 > 2) = false := by decide
      rw [this]
      simp only [Bool.false_and]
      have hl : [nlSp x, nlSp y].getLast? = some (nlSp y) := rfl
      rw [hl]
      cases hx : (nlSp x == ' ') <;> cases hy : (nlSp y == ' ') <;> simp [hx, hy, bne]
    | x :: y :: z :: t, h =>
      have hne : (y :: z :: t) ≠ [] := by simp
      have hsplit := (List.dropLast_concat_getLast hne).symm
      generalize hmid : (y :: z :: t).dropLast = mid at hsplit
      generalize hlastc : (y :: z :: t).getLast hne = w at hsplit
      have hb : x :: y :: z :: t = x :: (mid ++ [w]) := by rw [hsplit]
      rw [hb] at h ⊢
      have hlen : decide ((x :: (mid ++ [w])).length > 2) = true := by
        have : mid ≠ [] := by rw [← hmid]; simp [List.dropLast]
        cases mid with
        | nil => exact absurd rfl this
        | cons _ _ => simp
      have hinner : ((x :: (mid ++ [w])).drop 1).dropLast = mid := by
        simp [List.dropLast_concat]
      have hlast1 : (x :: (mid ++ [w])).getLast? = some w := by
        rw [← List.cons_append, List.getLast?_concat]
      have hlast2 : ((x :: (mid ++ [w])).map nlSp).getLast? = some (nlSp w) := by
        rw [List.map_cons, List.map_append, ← List.cons_append]; exact List.getLast?_concat
      rw [hlen, hinner, hlast1, hlast2, stripSpaces_nonempty]
      simp only [List.head?_cons, List.map_cons, Bool.true_and, isSpNl]
      have e1 : (some x == some ' ' || some x == some '\n') = (nlSp x == ' ') := by rw [nlSp_space]; simp
      have e2 : (some w == some ' ' || some w == some '\n') = (nlSp w == ' ') := by rw [nlSp_space]; simp
      have e3 : (some (nlSp x) == some ' ') = (nlSp x == ' ') := by simp
      have e4 : (some (nlSp w) == some ' ') = (nlSp w == ' ') := by simp
      rw [e1, e2, e3, e4]
      cases hx : (nlSp x == ' ')
      · simp
      · cases hw : (nlSp w == ' ')
        · simp
        · simp only [Bool.true_and, List.any_cons, List.map_append, List.any_append, List.map_cons, List.map_nil,
            List.any_nil, Bool.or_false]
          have hx' : (nlSp x != ' ') = false := by simp [bne, hx]
          have hw' : (nlSp w != ' ') = false := by simp [bne, hw]
          rw [hx', hw', Bool.false_or, Bool.or_false, List.any_map]
          -- inside: under the hypothesis the two `any` agree
          have hxs : x = ' ' ∨ x = '\n' := by rw [nlSp_space] at hx; simpa using hx
          have hws : w = ' ' ∨ w = '\n' := by rw [nlSp_space] at hw; simpa using hw
          rcases h with ⟨c, hc, hc1, hc2⟩ | hno
          · have hcm : c ∈ mid := by
              rcases List.mem_cons.mp hc with e | e
              · rcases hxs with e' | e' <;> (rw [e] at hc1 hc2; first | exact absurd e' hc1 | exact absurd e' hc2)
              · rcases List.mem_append.mp e with e | e
                · exact e
                · simp only [List.mem_singleton] at e
                  rcases hws with e' | e' <;> (rw [e] at hc1 hc2; first | exact absurd e' hc1 | exact absurd e' hc2)
            have h1 : mid.any (· != ' ') = true := by
              rw [List.any_eq_true]; exact ⟨c, hcm, by simpa [bne] using hc1⟩
            have h2 : mid.any ((· != ' ') ∘ nlSp) = true := by
              rw [List.any_eq_true]
              refine ⟨c, hcm, ?_⟩
              simp only [Function.comp, bne, nlSp_space]
              simp [hc1, hc2]
            rw [h1, h2]
          · apply all_any_congr
            intro c hc
            have : c ≠ '\n' := by
              intro e; apply hno; rw [← e]
              exact List.mem_cons_of_mem _ (List.mem_append_left _ hc)
            simp only [Function.comp, nlSp]
            have : (c == '\n') = false := by simpa using this
            rw [this]; rfl
  rw [htest]
  split
  · rw [List.map_dropLast, List.map_drop]
  · rfl
where
  all_any_congr {p q : Char → Bool} {l : Str} (h : ∀ c ∈ l, p c = q c) : l.any p = l.any q := by
    induction l with
    | nil => rfl
    | cons x r ih =>
      rw [List.any_cons, List.any_cons, h x List.mem_cons_self, ih (fun c hc => h c (List.mem_cons_of_mem _ hc))]

/-- the excluded point is real: a text of spaces / line endings with a line ending inside (` \n `) — the code strips a space on
either side, the specification does not (three spaces); it cannot arise from a document: the leading white space of a continuation
line is removed before the inline phase -/
theorem code_content_excluded :
    (tickParts [' ', '\n', ' ']).2.1.map nlSp = [' '] ∧ LeanMark.codeContent [' ', '\n', ' '] = [' ', ' ', ' '] := by decide

/-! ## the span text as a list of codec pieces -/

/-- the piece (`Verif.Model.Codec.Piece`) that one character of the body becomes in `span_text` -/
def spanPiece (c : Char) : Codec.Piece :=
  if c == '\n' then .replaced ['\n'] [' ']
  else if c == '<' then .replaced ['<'] ['&', 'l', 't', ';']
  else if c == '>' then .replaced ['>'] ['&', 'g', 't', ';']
  else if c == '&' then .replaced ['&'] ['&', 'a', 'm', 'p', ';']
  else if c == '"' then .replaced ['"'] ['&', 'q', 'u', 'o', 't', ';']
  else .lit c

theorem appendTextEscape_append (a b : Str) : appendTextEscape (a ++ b) = appendTextEscape a ++ appendTextEscape b := by
  unfold appendTextEscape; rw [List.flatMap_append]

theorem replaceNewlines_append (a b : Str) : replaceNewlines (a ++ b) = replaceNewlines a ++ replaceNewlines b := by
  unfold replaceNewlines; rw [List.flatMap_append]

theorem pass_plain (c : Char) (n1 : c ≠ '\n') (n2 : c ≠ '<') (n3 : c ≠ '>') (n4 : c ≠ '&') (n5 : c ≠ '"') :
    appendTextEscape (replaceNewlines [c]) = [c] := by
  simp [appendTextEscape, replaceNewlines, n1, n2, n3, n4, n5]

theorem special_not_five {c : Char} (hs : Codec.isSpecial c = true) : c ≠ '\n' ∧ c ≠ '<' ∧ c ≠ '>' ∧ c ≠ '&' ∧ c ≠ '"' := by
  refine ⟨?_, ?_, ?_, ?_, ?_⟩ <;> (intro e; subst e; revert hs; decide)

/-- `span_text` of a code span is the codec encoding of its body, piece by piece — for EVERY body -/
theorem spanText_encode : ∀ (body : Str),
    appendTextEscape (replaceNewlines (Codec.escapeSpecial body)) = Codec.encode (body.map spanPiece)
  | [] => rfl
  | c :: r => by
    have ih := spanText_encode r
    rw [List.map_cons, Codec.encode, ← ih, Codec.escapeSpecial]
    by_cases hs : Codec.isSpecial c = true
    · -- a marker character of the document: escaped, untouched by the two later passes
      rw [if_pos hs]
      obtain ⟨n1, n2, n3, n4, n5⟩ := special_not_five hs
      have hc : spanPiece c = .lit c := by
        unfold spanPiece
        simp [n1, n2, n3, n4, n5]
      rw [hc]
      have e : Codec.ESC :: c :: Codec.escapeSpecial r = [Codec.ESC] ++ ([c] ++ Codec.escapeSpecial r) := rfl
      rw [e, replaceNewlines_append, replaceNewlines_append, appendTextEscape_append, appendTextEscape_append,
        pass_plain c n1 n2 n3 n4 n5, pass_plain Codec.ESC (by decide) (by decide) (by decide) (by decide) (by decide)]
      simp only [Codec.Piece.encode, Codec.escapeSpecial, hs, if_true]
      rfl
    · rw [if_neg hs]
      have hs' : Codec.isSpecial c = false := by simpa using hs
      have e : c :: Codec.escapeSpecial r = [c] ++ Codec.escapeSpecial r := rfl
      rw [e, replaceNewlines_append, appendTextEscape_append]
      congr 1
      by_cases h1 : c = '\n'
      · subst h1; rfl
      · by_cases h2 : c = '<'
        · subst h2; rfl
        · by_cases h3 : c = '>'
          · subst h3; rfl
          · by_cases h4 : c = '&'
            · subst h4; rfl
            · by_cases h5 : c = '"'
              · subst h5; rfl
              · rw [pass_plain c h1 h2 h3 h4 h5]
                unfold spanPiece
                simp [h1, h2, h3, h4, h5, Codec.Piece.encode, Codec.escapeSpecial, hs']

theorem spanPiece_source : ∀ (body : Str), Codec.sourceOf (body.map spanPiece) = body
  | [] => rfl
  | c :: r => by
    rw [List.map_cons, Codec.sourceOf, spanPiece_source r]
    congr 1
    unfold spanPiece
    by_cases h1 : c = '\n'
    · subst h1; rfl
    · by_cases h2 : c = '<'
      · subst h2; rfl
      · by_cases h3 : c = '>'
        · subst h3; rfl
        · by_cases h4 : c = '&'
          · subst h4; rfl
          · by_cases h5 : c = '"'
            · subst h5; rfl
            · simp [h1, h2, h3, h4, h5, Codec.Piece.source]

end Verif.Model.InlineRecog
