/-
  List looseness, part F (nested lists): what the loop has behind it after a complete forest of list children;
  the steps at stack count 0 for a list whose children may be lists.
-/
import Verif.Lemmas.GfmLooseE
namespace Verif.Lemmas.GfmLoose
open Verif.Model.GfmRender Verif.Model.GfmSpec Verif.Lemmas.GfmBasic
open Verif.Model.WellFormed (Cls)

/-- the value of `__is_token_loose` from what the loop has behind it -/
def V (pk : PK) (nb : Nat) : Bool := decide (1 ≤ nb) && !(nb == 1 && pk != .block)

/-! ### `Back` after one more child -/

theorem back_after {ts : List Tok} {j : Nat} {q : Tok} {pk : PK} (hq : ts[j]? = some q) (h1 : q.isBlank = false)
    (h2 : q.isLrd = false) (h3 : QK ts q pk) : Back ts (j + 1) pk 0 :=
  ⟨by omega, fun m a b => by omega, q, by simpa using hq, h1, h2, h3⟩

theorem back_blank {ts : List Tok} {j : Nat} {b : Tok} {pk : PK} {nb : Nat} (h : Back ts j pk nb)
    (hb : ts[j]? = some b) (hbb : b.isBlank = true) : Back ts (j + 1) pk (nb + 1) := by
  obtain ⟨b1, b2, q, b3, b4, b5, b6⟩ := h
  refine ⟨by omega, ?_, q, ?_, b4, b5, b6⟩
  · intro m hm1 hm2
    by_cases hmj : m = j
    · subst hmj; exact ⟨b, hb, hbb⟩
    · exact b2 m (by omega) (by omega)
  · have : j + 1 - 1 - (nb + 1) = j - 1 - nb := by omega
    rw [this]; exact b3

/-- the state after the children `ns`, from the state before them -/
def stepB (st : PK × Nat) (n : Node) : PK × Nat :=
  if n.tok.isLi then (.li, 0) else if n.tok.isBlank then (st.1, st.2 + 1) else (.block, 0)

def backState (ns : List Node) (st : PK × Nat) : PK × Nat := ns.foldl stepB st

theorem list_start_kind {s : Tok} {k : Kind} (hk : s.kind? = some k) (hs : s.isListStart = true) :
    k = .ulist ∨ k = .olist := by
  rw [(tests_of_kind hk).1] at hs
  simpa using hs

theorem startOK_block {k k' : Kind} (hk : k = .ulist ∨ k = .olist) (ha : startOK (some k) k' = true)
    (hs : Kind.isStart k' = true) :
    (k' == .bquote || (k' == .ulist || k' == .olist) || k' == .tbreak || k' == .atx || k' == .setext
      || k' == .icode || k' == .fcode || k' == .htmlBlock || k' == .para) = true ∧ (k' == .lrd) = false ∧
      (k' == .li) = false ∧ (k' == .blank) = false := by
  rcases hk with rfl | rfl <;> cases k' <;>
    simp_all [startOK, Kind.isStart, Kind.cls, Kind.requiresEnd, blockCtx, inlineCtx]

/-- `Back` after a complete forest of children of a list -/
theorem back_forest {ts : List Tok} {k : Kind} (hk : k = .ulist ∨ k = .olist)
    (hFM : ∀ m t, ts[m]? = some t → t.isKind .frontMatter = true → m = 0) :
    ∀ {par : Option Kind} {j : Nat} {seg : List Tok} {ns : List Node}, GTree par j seg ns → par = some k →
      ∀ (tail : List Tok) (pk : PK) (nb : Nat), (∀ t ∈ seg, t.isLrd = false) → ts.drop j = seg ++ tail → 1 ≤ j →
        Back ts j pk nb →
        Back ts (j + seg.length) (backState ns (pk, nb)).1 (backState ns (pk, nb)).2 := by
  intro par j seg ns h
  induction h with
  | nil => intro _ tail pk nb _ _ _ hb; simpa [backState] using hb
  | @atom par j t k' rest0 ns hk' hst ha _ ih =>
    intro hpar tail pk nb hlrd hdrop hj hback
    subst hpar
    obtain ⟨htj, hdrop'⟩ := drop_cons_step (by simpa using hdrop)
    obtain ⟨t1, t2, t3, t4, t5, t6, t7, t8, t9⟩ := tests_of_kind hk'
    have hl0 : t.isLrd = false := hlrd t (by simp)
    have hlr : ∀ u ∈ rest0, u.isLrd = false := fun u hu => hlrd u (by simp [hu])
    have e : j + (t :: rest0).length = j + 1 + rest0.length := by simp only [List.length_cons]; omega
    rw [e]
    simp only [backState, List.foldl_cons]
    rcases atom_kinds hk ha hst with rfl | rfl | rfl | rfl | rfl
    · have hli : t.isLi = true := by rw [t5]; rfl
      have hbl : t.isBlank = false := by rw [t6]; rfl
      have : stepB (pk, nb) (.leaf j t) = (.li, 0) := by simp [stepB, Node.tok, hli]
      rw [this]
      exact ih rfl tail _ _ hlr hdrop' (by omega) (back_after htj hbl hl0 hli)
    · have hli : t.isLi = false := by rw [t5]; rfl
      have hbl : t.isBlank = true := by rw [t6]; rfl
      have : stepB (pk, nb) (.leaf j t) = (pk, nb + 1) := by simp [stepB, Node.tok, hli, hbl]
      rw [this]
      exact ih rfl tail _ _ hlr hdrop' (by omega) (back_blank hback htj hbl)
    · have hli : t.isLi = false := by rw [t5]; rfl
      have hbl : t.isBlank = false := by rw [t6]; rfl
      have hbk : t.isBlock = true := by rw [t9]; rfl
      have het : t.isEndToken = false := by rw [t8]; rfl
      have hls : t.isListStart = false := by rw [t1]; rfl
      have : stepB (pk, nb) (.leaf j t) = (.block, 0) := by simp [stepB, Node.tok, hli, hbl]
      rw [this]
      exact ih rfl tail _ _ hlr hdrop' (by omega) (back_after htj hbl hl0 ⟨hli, hls, Or.inl ⟨het, hbk⟩⟩)
    · rw [t7] at hl0; cases hl0
    · have := hFM j t htj (by rw [isKind_of_kind hk']; rfl)
      omega
  | @node par j s0 k0 body0 e0 f0 rest0 ks ns hk0 hst ho hb he0 _ _ ih =>
    intro hpar tail pk nb hlrd hdrop hj hback
    subst hpar
    have hdrop0 : ts.drop j = s0 :: (body0 ++ (e0 :: (rest0 ++ tail))) := by simpa using hdrop
    obtain ⟨htj, hdrop1⟩ := drop_cons_step hdrop0
    have hdrop2 := drop_append_step _ _ hdrop1
    obtain ⟨hte, hdrop3⟩ := drop_cons_step hdrop2
    obtain ⟨t1, t2, t3, t4, t5, t6, t7, t8, t9⟩ := tests_of_kind hk0
    obtain ⟨u1, u2, u3, u4, u5, u6, u7, u8, u9⟩ := tests_of_end he0
    obtain ⟨g1, g2, g3, g4⟩ := startOK_block hk ho hst
    have hl0 : s0.isLrd = false := hlrd s0 (by simp)
    have hlr : ∀ u ∈ rest0, u.isLrd = false := fun u hu => hlrd u (by simp [hu])
    have hfin : j + (s0 :: (body0 ++ e0 :: rest0)).length = j + 1 + body0.length + 1 + rest0.length := by
      simp only [List.length_cons, List.length_append]; omega
    rw [hfin]
    simp only [backState, List.foldl_cons]
    have : stepB (pk, nb) (.node j s0 ks e0) = (.block, 0) := by
      simp [stepB, Node.tok, t5, t6, g3, g4]
    rw [this]
    refine ih rfl tail _ _ hlr hdrop3 (by omega) (back_after hte u6 u7 ⟨u5, u1, Or.inr ⟨k0, j, f0, s0, he0, htj, ?_, hl0⟩⟩)
    rw [t9]; exact g1

/-! ### `__is_token_loose` and the steps at stack count 0 -/

theorem isTokenLoose_back' {ts : List Tok} {j : Nat} {pk : PK} {nb : Nat}
    (hrl : reallyLooseLoop ts j 0 = .ok true) (h : Back ts j pk nb) :
    isTokenLoose ts (j : Int) false = .ok (V pk nb) := by
  obtain ⟨t, ht, htl, htb⟩ := back_prev h
  obtain ⟨h1, h2, q, hq, hqb, hql, hqk⟩ := h
  have e1 : (j : Int) - 1 = ((j - 1 : Nat) : Int) := by omega
  have hscan : scanDown ts (fun t => !t.isLrd) ((j : Int) - 1) = .ok ((j - 1 : Nat) : Int) := by
    rw [e1]
    exact scanDown_stop (Nat.le_refl _) ⟨t, ht, by simp [htl]⟩ (fun m a b => by omega)
  unfold isTokenLoose V
  simp only [hscan, bind, Except.bind, pyGet_nat ht]
  by_cases hn : nb = 0
  · subst hn
    simp only [show (1 ≤ 0) = False by simp, decide_false] at htb
    simp [htb, pure, Except.pure]
  · have htb' : t.isBlank = true := by rw [htb]; simp; omega
    have hreal : isReallyLoose ts ((j - 1 : Nat) : Int) = .ok true := by
      unfold isReallyLoose
      simp only [Int.toNat_natCast]
      obtain ⟨_, c1, c2, c3⟩ := blank_tests htb'
      have hq' : quiet t = true := by
        obtain ⟨l, bd⟩ := t
        cases bd <;> simp_all [quiet, Tok.isBlank, Tok.isListStart, Tok.isBqStart, Tok.isBqEnd, Tok.isListEnd,
          Tok.isKind, Tok.isEndOf, Tok.kind?, Body.kind?]
      have := rl_quiet ht hq' 0
      have e : j - 1 + 1 = j := by omega
      rw [e, hrl] at this
      exact this.symm
    have e2 : ((j - 1 : Nat) : Int) - 1 = ((j - 2 : Nat) : Int) := by omega
    simp only [htb', if_true, e2]
    by_cases hn1 : nb = 1
    · subst hn1
      have hq' : ts[j - 2]? = some q := by
        have : j - 1 - 1 = j - 2 := by omega
        rw [← this]; exact hq
      simp only [pyGet_nat hq']
      cases pk with
      | start =>
        simp only [QK] at hqk
        simp [hqk, pure, Except.pure]
      | li =>
        simp only [QK] at hqk
        simp [hqk, pure, Except.pure]
      | block =>
        obtain ⟨ha, hb, _⟩ := hqk
        simp [ha, hb, hreal]
    · obtain ⟨b, hb, hbb⟩ := h2 (j - 2) (by omega) (by omega)
      obtain ⟨_, c1, c2, _⟩ := blank_tests hbb
      simp only [pyGet_nat hb]
      simp [c1, c2, hreal, hn1]
      omega

/-- the step at a child boundary: `li`, BLANK, thematic break, start of a leaf block -/
theorem calcLoop_step' {ts : List Tok} {j : Nat} {pk : PK} {nb : Nat}
    (hrl : reallyLooseLoop ts j 0 = .ok true) (h : Back ts j pk nb)
    (cur : Tok) (rest' : List Tok) (hq : quiet cur = true) :
    calcLoop ts (cur :: rest') j 0 false =
      if ((cur.isLi || (decide (1 ≤ nb) && cur.isBlock && !cur.isLrd && pk != .li)) && V pk nb) = true then .ok true
      else calcLoop ts rest' (j + 1) 0 false := by
  have hitl := isTokenLoose_back' hrl h
  generalize V pk nb = W at hitl ⊢
  simp only [quiet, Bool.and_eq_true, Bool.not_eq_true'] at hq
  obtain ⟨⟨⟨c1, c2⟩, c3⟩, c4⟩ := hq
  by_cases hli : cur.isLi = true
  · simp only [calcLoop, forContainers, c1, hli, Bool.false_eq_true, if_false, if_true, pure, Except.pure,
      beq_self_eq_true, hitl, Bool.true_or, Bool.true_and]
    cases W <;> simp
  · simp only [Bool.not_eq_true] at hli
    obtain ⟨t, ht, _, htb⟩ := back_prev h
    have hj := h.1
    have e1 : (j : Int) - 1 = ((j - 1 : Nat) : Int) := by omega
    cases nb with
    | zero =>
      simp only [show (1 ≤ 0) = False by simp, decide_false] at htb
      simp only [calcLoop, forContainers, c1, c2, c3, c4, hli, Bool.false_eq_true, if_false, e1, pyGet_nat ht, htb,
        bind, Except.bind, pure, Except.pure]
      simp
    | succ n =>
      have htb' : t.isBlank = true := by rw [htb]; simp
      have hbl := handleBlankLine_back h cur
      simp only [calcLoop, forContainers, c1, c2, c3, c4, hli, Bool.false_eq_true, if_false, e1, pyGet_nat ht, htb',
        if_true, hbl, bind, Except.bind, pure, Except.pure, hitl]
      have : decide (1 ≤ n + 1) = true := by simp
      simp only [this, Bool.true_and, Bool.false_or]
      generalize (cur.isBlock && !cur.isLrd && pk != PK.li) = C
      cases C <;> cases W <;> simp

/-- the step at the start token of a child that is a list -/
theorem calcLoop_listStart {ts : List Tok} {j : Nat} {pk : PK} {nb : Nat}
    (hrl : reallyLooseLoop ts j 0 = .ok true) (h : Back ts j pk nb)
    (cur : Tok) (rest' : List Tok) (hl : cur.isListStart = true) :
    calcLoop ts (cur :: rest') j 0 false =
      if V pk nb = true then .ok true else calcLoop ts rest' (j + 1) 1 false := by
  have hitl := isTokenLoose_back' hrl h
  generalize V pk nb = W at hitl ⊢
  simp only [calcLoop, forContainers, hl, if_true, pure, Except.pure, beq_self_eq_true, hitl]
  cases W <;> simp

/-- the step at the end token of a child that is a list -/
theorem calcLoop_listEnd {ts : List Tok} {j : Nat} {pk : PK} {nb : Nat}
    (hrl : reallyLooseLoop ts j 0 = .ok true) (h : Back ts j pk nb)
    (cur nx : Tok) (rest' : List Tok) (hl : cur.isListEnd = true) (hnx : ts[j + 1]? = some nx) :
    calcLoop ts (cur :: nx :: rest') j 1 false =
      if (!nx.isListEnd && V pk nb) = true then .ok true else calcLoop ts (nx :: rest') (j + 1) 0 false := by
  have hitl := isTokenLoose_back' hrl h
  generalize V pk nb = W at hitl ⊢
  obtain ⟨c1, c2, c3, c4⟩ := listEnd_tests hl
  have hlt : j + 1 < ts.length := (List.getElem?_eq_some_iff.mp hnx).1
  rw [calcLoop]
  simp only [forContainers, handleListEnd, c1, c2, c3, c4, hl, if_true, pure, Except.pure,
    Bool.false_eq_true, if_false, bind, Except.bind, hlt, hnx]
  by_cases hn : nx.isListEnd = true
  · simp [hn]
  · simp only [Bool.not_eq_true] at hn
    simp only [hn, hitl]
    cases W <;> simp

end Verif.Lemmas.GfmLoose
