/-
  Paragraph tightness of the HTML generator (partial): on a well-formed stream in which no list or block quote starts
  directly inside a block quote that itself lies inside a list (`QuoteInListFlat`), the generator's `is_in_loose_list`
  is, at EVERY position, the `is_loose` flag stored on the list whose item directly contains the position (True when
  the innermost open container is a block quote or there is none) — so `<p>` is suppressed exactly for paragraphs that
  are direct children of items of lists whose computed flag is false.

  The hypothesis cannot be dropped (`wQuoteInList`): `reset_list_looseness` looks THROUGH block quotes for the enclosing
  list, so after a nested container closes inside a block quote inside a list, the block quote's own paragraphs lose
  their `<p>`.

  Proof: token-by-token induction over the prefix length.  The invariant `TInv` carries the stack `anc` of open start
  tokens with the description `GCloses` of what follows (GfmTightStruct), from which `reset_value` computes the value
  `reset_list_looseness` returns; `stepTok_fields` (GfmTightStep) gives what one token does to the three fields.
-/
import Verif.Lemmas.GfmTightStep
import Verif.Lemmas.GfmOut
namespace Verif.Lemmas.GfmTight
open Verif.Model.GfmRender Verif.Model.GfmSpec Verif.Lemmas.GfmBasic Verif.Lemmas.GfmScan Verif.Lemmas.GfmOut
open Verif.Lemmas.GfmCalcTotal Verif.Lemmas.GfmReset

/-! ### containers -/

def isCont (t : Tok) : Bool := t.isBqStart || t.isListStart

/-- the container entries of the stack of open start tokens -/
def conts (anc : List (Nat × Tok)) : List (Nat × Tok) := anc.filter fun p => isCont p.2

/-- `expectedLoose` on a given container stack -/
def flagOf (cs : List (Nat × Tok)) (flags : Nat → Bool) : Bool :=
  match cs with
  | (j, c) :: _ => if c.isListStart then flags j else true
  | [] => true

/-- `quoteInListFlatAt` on a given container stack -/
def flatOK (cs : List (Nat × Tok)) : Bool :=
  match cs with
  | (_, c) :: rest => !c.isBqStart || rest.all fun x => !x.2.isListStart
  | [] => true

theorem expectedLoose_eq (ts : List Tok) (f : Nat → Bool) (k : Nat) : expectedLoose ts f k = flagOf (containersAt ts k) f := rfl

theorem quoteInListFlatAt_eq (ts : List Tok) (k : Nat) : quoteInListFlatAt ts k = flatOK (containersAt ts k) := rfl

theorem openContainers_append : ∀ (a b : List Tok) (i : Nat) (st : List (Nat × Tok)),
    openContainers (a ++ b) i st = openContainers b (i + a.length) (openContainers a i st)
  | [], b, i, st => by simp [openContainers]
  | t :: a, b, i, st => by
    have e : i + (t :: a).length = (i + 1) + a.length := by simp; omega
    simp only [List.cons_append, openContainers]
    split
    · rw [openContainers_append a b, e]
    · split
      · rw [openContainers_append a b, e]
      · rw [openContainers_append a b, e]

/-- the container stack one token later -/
theorem containersAt_succ {ts : List Tok} {n : Nat} {t : Tok} (h : ts[n]? = some t) :
    containersAt ts (n + 1) =
      if t.isBqStart || t.isListStart then (n, t) :: containersAt ts n
      else if t.isBqEnd || t.isListEnd then (containersAt ts n).tail
      else containersAt ts n := by
  have hn : n < ts.length := by
    rcases Nat.lt_or_ge n ts.length with h' | h'
    · exact h'
    · rw [List.getElem?_eq_none h'] at h; cases h
  unfold containersAt
  rw [List.take_add_one, h, Option.toList_some, openContainers_append]
  have hl : (List.take n ts).length = n := by rw [List.length_take]; omega
  simp only [hl, Nat.zero_add, openContainers]

/-! ### token predicates from kinds -/

theorem start_isBq {s : Tok} {k : Kind} (hk : s.kind? = some k) :
    s.isBqStart = (k == .bquote) ∧ s.isBqEnd = false := by
  obtain ⟨l, b⟩ := s
  cases b <;> simp [Tok.kind?, Body.kind?] at hk <;> subst hk <;>
    simp [Tok.isBqStart, Tok.isBqEnd, Tok.isKind, Tok.isEndOf, Tok.kind?, Body.kind?]

theorem end_isBq {e : Tok} {k : Kind} {p : Nat} {f : Bool} (he : e.body = .end_ k p f) :
    e.isBqEnd = (k == .bquote) ∧ e.isBqStart = false := by
  obtain ⟨l, b⟩ := e
  simp only at he; subst he
  simp [Tok.isBqStart, Tok.isBqEnd, Tok.isKind, Tok.isEndOf, Tok.kind?, Body.kind?]

theorem atom_notCont {k : Kind} (h : Kind.isStart k = false) : (k == .bquote) = false ∧ (k == .ulist || k == .olist) = false := by
  cases k <;> simp_all [Kind.isStart, Kind.requiresEnd]

/-! ### `QuoteInListFlat`, pointwise -/

theorem quoteFlat_at {ts : List Tok} (hq : QuoteInListFlat ts) {j : Nat} {s : Tok} (hs : ts[j]? = some s)
    (hc : isCont s = true) : flatOK (containersAt ts j) = true := by
  unfold QuoteInListFlat quoteInListFlat at hq
  rw [List.all_eq_true] at hq
  have := hq (s, j) (List.mem_zipIdx_iff_getElem?.mpr hs)
  simp only [Bool.or_eq_true, Bool.not_eq_true'] at this
  rcases this with h | h
  · unfold isCont at hc
    simp only [Bool.or_eq_false_iff] at h
    rw [h.1, h.2] at hc; cases hc
  · rw [← quoteInListFlatAt_eq]; exact h

/-- where `QuoteInListFlat` is used: the container stack's own flag and the flag `reset_list_looseness` finds by
looking through block quotes agree -/
theorem flag_reset (st : St) : ∀ (anc : List (Nat × Tok)), flatOK (conts anc) = true →
    flagOf (conts anc) st.isLooseAt = resetFlag anc st
  | [], _ => rfl
  | p :: anc, h => by
    obtain ⟨j, s⟩ := p
    by_cases hl : s.isListStart = true
    · have hc : isCont s = true := by simp [isCont, hl]
      simp only [conts, List.filter_cons, hc, if_true, flagOf, hl, resetFlag, firstList, List.find?_cons]
    · have hl' : s.isListStart = false := by simpa using hl
      by_cases hb : s.isBqStart = true
      · have hc : isCont s = true := by simp [isCont, hb]
        simp only [conts, List.filter_cons, hc, if_true, flatOK, hb, Bool.not_true, Bool.false_or] at h
        have hnone : firstList anc = none := by
          unfold firstList
          rw [List.find?_eq_none]
          intro x hx hxl
          rw [List.all_eq_true] at h
          have := h x (List.mem_filter.mpr ⟨hx, by simp [isCont, hxl]⟩)
          rw [hxl] at this; cases this
        simp only [conts, List.filter_cons, hc, if_true, flagOf, hl', Bool.false_eq_true, if_false, resetFlag, firstList,
          List.find?_cons]
        unfold firstList at hnone
        rw [hnone]
      · have hc : isCont s = false := by simp [isCont, hb, hl']
        have e1 : conts ((j, s) :: anc) = conts anc := by simp [conts, hc]
        rw [e1] at h ⊢
        rw [flag_reset st anc h]
        simp only [resetFlag, firstList, List.find?_cons, hl']

/-! ### the invariant -/

/-- every open start token stands at its index, and the containers open just before it are the containers below it -/
def Chain (ts : List Tok) : List (Nat × Tok) → Prop
  | [] => True
  | (j, s) :: anc => ts[j]? = some s ∧ containersAt ts j = conts anc ∧ Chain ts anc

/-- the state of the generator just before index `n` -/
structure TInv (ts : List Tok) (n : Nat) (anc : List (Nat × Tok)) (st : St) : Prop where
  idx : st.idx = n
  lt : ∀ p ∈ anc, p.1 < n
  closes : GCloses anc n (ts.drop n)
  cts : containersAt ts n = conts anc
  chain : Chain ts anc
  loose : QuoteInListFlat ts → st.inLoose = expectedLoose ts st.isLooseAt n
  calcd : ∀ p ∈ anc, p.2.isListStart = true → calculateListLooseness ts p.1 = .ok (st.isLooseAt p.1)

theorem isLooseAt_congr {st st' : St} (h : st'.loose = st.loose) : st'.isLooseAt = st.isLooseAt := by
  funext i; unfold St.isLooseAt; rw [h]

theorem isLooseAt_cons {st st' : St} {n : Nat} {l : Bool} (h : st'.loose = (n, l) :: st.loose) :
    st'.isLooseAt n = l ∧ ∀ j, j < n → st'.isLooseAt j = st.isLooseAt j := by
  constructor
  · unfold St.isLooseAt; rw [h, List.lookup_cons_self]; rfl
  · intro j hj
    unfold St.isLooseAt
    rw [h, List.lookup_cons]
    have : (j == n) = false := by simp; omega
    rw [this]

theorem tinv_init (ts : List Tok) (hG : GForest none 0 ts) : TInv ts 0 [] {} where
  idx := rfl
  lt := fun p hp => by simp at hp
  closes := by simpa [GCloses] using hG
  cts := rfl
  chain := trivial
  loose := fun _ => rfl
  calcd := fun p hp => by simp at hp

/-- one token -/
theorem tinv_step {ts : List Tok} (hG : GForest none 0 ts) {n : Nat} {anc : List (Nat × Tok)} {st : St} {o : Out}
    (hI : TInv ts n anc st) {t : Tok} (ht : ts[n]? = some t) {st2 : St} {o2 : Out}
    (hs : stepTok ts (st, o) t = .ok (st2, o2)) : ∃ anc2, TInv ts (n + 1) anc2 st2 := by
  obtain ⟨hidx2, heff⟩ := stepTok_fields hs
  have hdrop : ts.drop n = t :: ts.drop (n + 1) := by
    have hn : n < ts.length := by
      rcases Nat.lt_or_ge n ts.length with h' | h'
      · exact h'
      · rw [List.getElem?_eq_none h'] at ht; cases ht
    rw [List.drop_eq_getElem_cons hn]
    rw [List.getElem?_eq_getElem hn] at ht
    cases ht; rfl
  have hcl := hI.closes
  rw [hdrop] at hcl
  have hcs := containersAt_succ ht
  have hidx0 := hI.idx
  unfold LooseEffect at heff
  rw [hI.idx] at heff
  rcases gcloses_step hcl with ⟨k, hk, hst, hcl2⟩ | ⟨k, hk, hst, hcl2⟩ | ⟨j, s, anc', k, f, hanc, hk, hb, hcl2⟩
  · -- a point token: nothing changes
    obtain ⟨hl1, hl2⟩ := start_isList hk
    obtain ⟨hb1, hb2⟩ := start_isBq hk
    obtain ⟨ha1, ha2⟩ := atom_notCont hst
    rw [ha2] at hl1; rw [ha1] at hb1
    simp only [hb1, hl1, hb2, hl2, Bool.or_self, Bool.false_eq_true, if_false] at hcs
    simp only [hb1, hl1, hb2, hl2, Bool.or_self, Bool.false_eq_true, if_false] at heff
    obtain ⟨he1, he2⟩ := heff
    have hfl := isLooseAt_congr he1
    refine ⟨anc, ⟨by omega, fun p hp => Nat.lt_succ_of_lt (hI.lt p hp), hcl2, by rw [hcs, hI.cts], hI.chain, ?_, ?_⟩⟩
    · intro hq
      rw [he2, hI.loose hq, hfl, expectedLoose_eq, expectedLoose_eq, hcs]
    · intro p hp hpl; rw [hfl]; exact hI.calcd p hp hpl
  · -- a start token: pushed
    obtain ⟨hl1, hl2⟩ := start_isList hk
    obtain ⟨hb1, hb2⟩ := start_isBq hk
    have hlt2 : ∀ p ∈ (n, t) :: anc, p.1 < n + 1 := by
      intro p hp
      simp only [List.mem_cons] at hp
      rcases hp with rfl | hp
      · exact Nat.lt_succ_self _
      · exact Nat.lt_succ_of_lt (hI.lt p hp)
    have hch2 : Chain ts ((n, t) :: anc) := ⟨ht, hI.cts, hI.chain⟩
    by_cases hlist : t.isListStart = true
    · -- list start
      simp only [hlist, Bool.or_true, if_true] at hcs
      simp only [hlist, if_true] at heff
      obtain ⟨l, hcalc, he1, he2⟩ := heff
      obtain ⟨hf1, hf2⟩ := isLooseAt_cons he2
      have hct : isCont t = true := by simp [isCont, hlist]
      have hconts : conts ((n, t) :: anc) = (n, t) :: conts anc := by simp [conts, hct]
      refine ⟨(n, t) :: anc, ⟨by omega, hlt2, hcl2, by rw [hcs, hI.cts, hconts], hch2, ?_, ?_⟩⟩
      · intro _
        rw [expectedLoose_eq, hcs]
        simp only [flagOf, hlist, if_true]
        rw [he1, hf1]
      · intro p hp hpl
        simp only [List.mem_cons] at hp
        rcases hp with rfl | hp
        · simp only; rw [hf1]; exact hcalc
        · rw [hf2 p.1 (hI.lt p hp)]; exact hI.calcd p hp hpl
    · have hlist' : t.isListStart = false := by simpa using hlist
      simp only [hlist', hb2, hl2, Bool.or_self, Bool.false_eq_true, if_false] at heff
      obtain ⟨he1, he2⟩ := heff
      have hfl := isLooseAt_congr he1
      have hcalc2 : ∀ p ∈ (n, t) :: anc, p.2.isListStart = true →
          calculateListLooseness ts p.1 = .ok (st2.isLooseAt p.1) := by
        intro p hp hpl
        simp only [List.mem_cons] at hp
        rcases hp with rfl | hp
        · simp only at hpl; rw [hlist'] at hpl; cases hpl
        · rw [hfl]; exact hI.calcd p hp hpl
      by_cases hbq : t.isBqStart = true
      · -- block-quote start
        simp only [hbq, Bool.true_or, if_true] at hcs
        simp only [hbq, if_true] at he2
        have hct : isCont t = true := by simp [isCont, hbq]
        have hconts : conts ((n, t) :: anc) = (n, t) :: conts anc := by simp [conts, hct]
        refine ⟨(n, t) :: anc, ⟨by omega, hlt2, hcl2, by rw [hcs, hI.cts, hconts], hch2, ?_, hcalc2⟩⟩
        intro _
        rw [expectedLoose_eq, hcs]
        simp only [flagOf, hlist', Bool.false_eq_true, if_false]
        exact he2
      · -- a leaf block or an inline scope
        have hbq' : t.isBqStart = false := by simpa using hbq
        simp only [hbq', hlist', hb2, hl2, Bool.or_self, Bool.false_eq_true, if_false] at hcs
        simp only [hbq', Bool.false_eq_true, if_false] at he2
        have hct : isCont t = false := by simp [isCont, hbq', hlist']
        have hconts : conts ((n, t) :: anc) = conts anc := by simp [conts, hct]
        refine ⟨(n, t) :: anc, ⟨by omega, hlt2, hcl2, by rw [hcs, hI.cts, hconts], hch2, ?_, hcalc2⟩⟩
        intro hq
        rw [he2, hI.loose hq, hfl, expectedLoose_eq, expectedLoose_eq, hcs]
  · -- the end token of the innermost open scope: popped
    subst hanc
    obtain ⟨hl1, hl2⟩ := end_isList hb
    obtain ⟨hb1, hb2⟩ := end_isBq hb
    obtain ⟨hsl, _⟩ := start_isList hk
    obtain ⟨hsb, _⟩ := start_isBq hk
    obtain ⟨hsj, hcj, hch'⟩ := hI.chain
    simp only [hl2, hb2, Bool.false_eq_true, if_false] at heff
    obtain ⟨he1, he2⟩ := heff
    have hfl := isLooseAt_congr he1
    have hlt2 : ∀ p ∈ anc', p.1 < n + 1 := fun p hp => Nat.lt_succ_of_lt (hI.lt p (List.mem_cons_of_mem _ hp))
    have hcalc2 : ∀ p ∈ anc', p.2.isListStart = true → calculateListLooseness ts p.1 = .ok (st2.isLooseAt p.1) := by
      intro p hp hpl; rw [hfl]; exact hI.calcd p (List.mem_cons_of_mem _ hp) hpl
    simp only [hb2, hl2, Bool.or_self, Bool.false_eq_true, if_false] at hcs
    by_cases hc : ((k == .ulist || k == .olist) || (k == .bquote)) = true
    · -- a container closes: `reset_list_looseness`
      have hct : isCont s = true := by
        unfold isCont; rw [hsl, hsb]; simpa [Bool.or_comm] using hc
      have hte : (t.isListEnd || t.isBqEnd) = true := by rw [hl1, hb1]; exact hc
      have hte' : (t.isBqEnd || t.isListEnd) = true := by rw [Bool.or_comm]; exact hte
      simp only [hte, if_true] at he2
      simp only [hte', if_true] at hcs
      rw [reset_value hG anc' n hcl2 st] at he2
      have hconts : conts ((j, s) :: anc') = (j, s) :: conts anc' := by simp [conts, hct]
      have hcts2 : containersAt ts (n + 1) = conts anc' := by rw [hcs, hI.cts, hconts]; rfl
      refine ⟨anc', ⟨by omega, hlt2, hcl2, hcts2, hch', ?_, hcalc2⟩⟩
      intro hq
      have hflat := quoteFlat_at hq hsj hct
      rw [hcj] at hflat
      rw [expectedLoose_eq, hcts2, hfl, flag_reset st anc' hflat]
      exact (Except.ok.inj he2).symm
    · -- a leaf block or an inline scope closes
      have hc' : ((k == .ulist || k == .olist) || (k == .bquote)) = false := by simpa using hc
      simp only [Bool.or_eq_false_iff] at hc'
      have hct : isCont s = false := by
        unfold isCont; rw [hsl, hsb]; simp [hc'.1, hc'.2]
      have hte : (t.isListEnd || t.isBqEnd) = false := by rw [hl1, hb1]; simp [hc'.1, hc'.2]
      have hte' : (t.isBqEnd || t.isListEnd) = false := by rw [Bool.or_comm]; exact hte
      simp only [hte, Bool.false_eq_true, if_false] at he2
      simp only [hte', Bool.false_eq_true, if_false] at hcs
      have hconts : conts ((j, s) :: anc') = conts anc' := by simp [conts, hct]
      have hcts2 : containersAt ts (n + 1) = conts anc' := by rw [hcs, hI.cts, hconts]
      refine ⟨anc', ⟨by omega, hlt2, hcl2, hcts2, hch', ?_, hcalc2⟩⟩
      intro hq
      rw [he2, hI.loose hq, hfl, expectedLoose_eq, expectedLoose_eq, hcs]

/-- the invariant holds before every index the run reaches -/
theorem run_inv {ts : List Tok} (hG : GForest none 0 ts) : ∀ (n : Nat), n ≤ ts.length → ∀ (st : St) (o : Out),
    stateBefore ts n = .ok (st, o) → ∃ anc, TInv ts n anc st
  | 0, _, st, o, h => by
    simp only [stateBefore, List.take_zero, runToks, pure, Except.pure, Except.ok.injEq, Prod.mk.injEq] at h
    obtain ⟨rfl, rfl⟩ := h
    exact ⟨[], tinv_init ts hG⟩
  | n + 1, hn, st, o, h => by
    obtain ⟨t, ht⟩ := getElem?_of_lt ts n (by omega)
    unfold stateBefore at h
    rw [List.take_add_one, ht, Option.toList_some, runToks_append] at h
    cases h0 : runToks ts (List.take n ts) ({}, []) with
    | error e => rw [h0] at h; cases h
    | ok acc =>
      obtain ⟨st0, o0⟩ := acc
      rw [h0] at h
      obtain ⟨anc0, hI⟩ := run_inv hG n (by omega) st0 o0 h0
      simp only [runToks] at h
      cases hs : stepTok ts (st0, o0) t with
      | error e => rw [hs] at h; cases h
      | ok acc2 =>
        obtain ⟨st2, o2⟩ := acc2
        rw [hs] at h
        simp only [pure, Except.pure, Except.ok.injEq, Prod.mk.injEq] at h
        obtain ⟨rfl, rfl⟩ := h
        exact tinv_step hG hI ht hs

/-! ## The theorems -/

/-- positions behind the end of the stream are the end of the stream -/
theorem clamp_pos (ts : List Tok) (k : Nat) :
    ∃ k', k' ≤ ts.length ∧ stateBefore ts k = stateBefore ts k' ∧ containersAt ts k = containersAt ts k' := by
  rcases Nat.le_total k ts.length with h | h
  · exact ⟨k, h, rfl, rfl⟩
  · refine ⟨ts.length, Nat.le_refl _, ?_, ?_⟩
    · unfold stateBefore; rw [List.take_of_length_le h, List.take_of_length_le (Nat.le_refl _)]
    · unfold containersAt; rw [List.take_of_length_le h, List.take_of_length_le (Nat.le_refl _)]

/-- `is_in_loose_list` just before EVERY index `k` of the stream (any token, not only paragraph starts; `k` may also be
the length of the stream: the final state). -/
theorem tightness_before_token (ts : List Tok) (hw : WellFormed ts) (hq : QuoteInListFlat ts) (k : Nat)
    (st : St) (o : Out) (hrun : stateBefore ts k = .ok (st, o)) :
    st.inLoose = expectedLoose ts st.isLooseAt k := by
  obtain ⟨k', hk', e1, e2⟩ := clamp_pos ts k
  rw [e1] at hrun
  obtain ⟨anc, hI⟩ := run_inv (gforest_of_wellFormed hw) k' hk' st o hrun
  rw [expectedLoose_eq, e2, ← expectedLoose_eq]
  exact hI.loose hq

/-- **Paragraph tightness (partial).**  Just before a paragraph start token the generator's `is_in_loose_list` is the
`is_loose` flag it stored for the list whose item directly contains the paragraph, or True if the innermost open
container is a block quote or there is none.  (`hk`, `hb` are not used: `tightness_before_token` is the same statement
for every token.) -/
theorem paragraph_tightness_partial (ts : List Tok) (hw : WellFormed ts) (hq : QuoteInListFlat ts)
    (k : Nat) (t : Tok) (_hk : ts[k]? = some t) (_hb : t.isKind .para = true)
    (st : St) (o : Out) (hrun : stateBefore ts k = .ok (st, o)) :
    st.inLoose = expectedLoose ts st.isLooseAt k :=
  tightness_before_token ts hw hq k st o hrun

/-- the stored flag of an open list is the value `calculate_list_looseness` returned for it (no `QuoteInListFlat`) -/
theorem flag_is_calculated (ts : List Tok) (hw : WellFormed ts) (k : Nat) (st : St) (o : Out)
    (hrun : stateBefore ts k = .ok (st, o)) (j : Nat) (c : Tok) (hmem : (j, c) ∈ containersAt ts k)
    (hc : c.isListStart = true) : calculateListLooseness ts j = .ok (st.isLooseAt j) := by
  obtain ⟨k', hk', e1, e2⟩ := clamp_pos ts k
  rw [e1] at hrun
  obtain ⟨anc, hI⟩ := run_inv (gforest_of_wellFormed hw) k' hk' st o hrun
  rw [e2, hI.cts] at hmem
  exact hI.calcd (j, c) (List.mem_filter.mp hmem).1 hc

/-- the paragraph start handler never fails, changes nothing in the state, and writes `<p>` iff `is_in_loose_list` -/
theorem para_emits_p (st : St) (o : Out) :
    ∃ o', hParaStart st o = .ok (st, o') ∧
      o' = o ++ optNL (needsNL o) ++ (if st.inLoose then [Chunk.opn .p []] else []) ∧
      (Chunk.opn .p [] ∈ o' ↔ (Chunk.opn .p [] ∈ o ∨ st.inLoose = true)) := by
  refine ⟨_, rfl, rfl, ?_⟩
  cases hl : st.inLoose <;> cases hn : needsNL o <;> simp [optNL]

/-- the two together: the paragraph start handler, run in the state the generator has reached just before a paragraph
start token, writes `<p>` iff the CommonMark rule (on the generator's own list flags) prescribes it -/
theorem paragraph_p_expected (ts : List Tok) (hw : WellFormed ts) (hq : QuoteInListFlat ts)
    (k : Nat) (t : Tok) (hk : ts[k]? = some t) (hb : t.isKind .para = true)
    (st : St) (o : Out) (hrun : stateBefore ts k = .ok (st, o)) :
    hParaStart st o = .ok (st, o ++ optNL (needsNL o) ++
      (if expectedLoose ts st.isLooseAt k then [Chunk.opn .p []] else [])) := by
  rw [← paragraph_tightness_partial ts hw hq k t hk hb st o hrun]
  rfl

/-! ## Witnesses -/

/-- what the theorem talks about, as a computable value: (`is_in_loose_list` just before index `k`, `expectedLoose`) -/
def probe (ts : List Tok) (k : Nat) : Option (Bool × Bool) :=
  match stateBefore ts k with
  | .ok (st, _) => some (st.inLoose, expectedLoose ts st.isLooseAt k)
  | .error _ => none

theorem probe_some {ts : List Tok} {k : Nat} {a b : Bool} (h : probe ts k = some (a, b)) :
    ∃ st o, stateBefore ts k = .ok (st, o) ∧ st.inLoose = a ∧ expectedLoose ts st.isLooseAt k = b := by
  unfold probe at h
  cases hs : stateBefore ts k with
  | error e => rw [hs] at h; cases h
  | ok r =>
    obtain ⟨st, o⟩ := r
    rw [hs] at h
    simp only [Option.some.injEq, Prod.mk.injEq] at h
    exact ⟨st, o, rfl, h.1, h.2⟩

/-- `EndMarkdownToken(kind, start_markdown_token = tokens[p], was_forced = True)` -/
def endTok (k : Kind) (p : Nat) : Tok := ⟨0, .end_ k p true⟩

/-- the real token stream of the document `- > - a\n  >\n  > x\n` -/
def wQuoteInList : List Tok :=
  [⟨1, .ulist⟩, ⟨1, .bquote "  > \n  >\n  > \n".toList⟩, ⟨1, .ulist⟩, ⟨1, .para⟩, ⟨1, .text ['a'] [] (some [])⟩,
   endTok .para 3, ⟨2, .blank⟩, endTok .ulist 2, ⟨3, .para⟩, ⟨3, .text ['x'] [] (some [])⟩, endTok .para 8,
   endTok .bquote 1, ⟨4, .blank⟩, endTok .ulist 0, ⟨5, .eos⟩]

theorem wQuoteInList_wellFormed : WellFormed wQuoteInList := by decide +kernel

theorem wQuoteInList_not_flat : ¬ QuoteInListFlat wQuoteInList := by decide +kernel

theorem wQuoteInList_probe : probe wQuoteInList 8 = some (false, true) := by decide +kernel

/-- **`QuoteInListFlat` cannot be dropped**: a well-formed stream (the real parser's), a paragraph start (index 8, the
paragraph `x` directly inside the block quote) before which `is_in_loose_list` is False although the innermost open
container is a block quote. -/
theorem wQuoteInList_counterexample :
    WellFormed wQuoteInList ∧ ¬ QuoteInListFlat wQuoteInList ∧
    ∃ t st o, wQuoteInList[8]? = some t ∧ t.isKind .para = true ∧ stateBefore wQuoteInList 8 = .ok (st, o) ∧
      st.inLoose = false ∧ expectedLoose wQuoteInList st.isLooseAt 8 = true := by
  obtain ⟨st, o, h1, h2, h3⟩ := probe_some wQuoteInList_probe
  exact ⟨wQuoteInList_wellFormed, wQuoteInList_not_flat, _, st, o, rfl, rfl, h1, h2, h3⟩

/-- … and the HTML: `x` without `<p>` (CommonMark: `<p>x</p>`); real pymarkdown renders exactly this -/
theorem wQuoteInList_html :
    transform wQuoteInList =
      .ok "<ul>\n<li>\n<blockquote>\n<ul>\n<li>a</li>\n</ul>\nx\n</blockquote>\n</li>\n</ul>".toList := by
  decide +kernel

/-! ### non-vacuity of the main theorem -/

/-- the real token stream of `- a\n\n  b\n- c\n` (a loose list) -/
def wLoose : List Tok :=
  [⟨1, .ulist⟩, ⟨1, .para⟩, ⟨1, .text ['a'] [] (some [])⟩, endTok .para 1, ⟨2, .blank⟩, ⟨3, .para⟩,
   ⟨3, .text ['b'] [] (some [])⟩, endTok .para 5, ⟨4, .li⟩, ⟨4, .para⟩, ⟨4, .text ['c'] [] (some [])⟩, endTok .para 9,
   ⟨5, .blank⟩, endTok .ulist 0, ⟨6, .eos⟩]

/-- the real token stream of `- a\n- b\n` (a tight list) -/
def wTight : List Tok :=
  [⟨1, .ulist⟩, ⟨1, .para⟩, ⟨1, .text ['a'] [] (some [])⟩, endTok .para 1, ⟨2, .li⟩, ⟨2, .para⟩,
   ⟨2, .text ['b'] [] (some [])⟩, endTok .para 5, ⟨3, .blank⟩, endTok .ulist 0, ⟨4, .eos⟩]

/-- all hypotheses of `paragraph_tightness_partial` hold for the three paragraphs of the loose list; the common value is
True (`<p>` written), the stored flag of the list is `calculate_list_looseness`'s value True -/
example : ∀ k ∈ [1, 5, 9], ∃ t st o, wLoose[k]? = some t ∧ t.isKind .para = true ∧
    stateBefore wLoose k = .ok (st, o) ∧ st.inLoose = expectedLoose wLoose st.isLooseAt k ∧ st.inLoose = true ∧
    calculateListLooseness wLoose 0 = .ok (st.isLooseAt 0) ∧ st.isLooseAt 0 = true := by
  have hw : WellFormed wLoose := by decide +kernel
  have hq : QuoteInListFlat wLoose := by decide +kernel
  have hp : ∀ k ∈ [1, 5, 9], probe wLoose k = some (true, true) ∧ (∃ t, wLoose[k]? = some t ∧ t.isKind .para = true) ∧
      (0, (⟨1, .ulist⟩ : Tok)) ∈ containersAt wLoose k ∧ k ≤ wLoose.length := by decide +kernel
  intro k hk
  obtain ⟨hpr, ⟨t, ht, htp⟩, hmem, hle⟩ := hp k hk
  obtain ⟨st, o, h1, h2, h3⟩ := probe_some hpr
  have hmain := paragraph_tightness_partial wLoose hw hq k t ht htp st o h1
  have hflag := flag_is_calculated wLoose hw k st o h1 0 _ hmem rfl
  refine ⟨t, st, o, ht, htp, h1, hmain, h2, hflag, ?_⟩
  have hc : calculateListLooseness wLoose 0 = .ok true := by decide +kernel
  rw [hc] at hflag
  exact (Except.ok.inj hflag).symm

/-- … and for the two paragraphs of the tight list: the common value is False (no `<p>`) -/
example : ∀ k ∈ [1, 5], ∃ t st o, wTight[k]? = some t ∧ t.isKind .para = true ∧
    stateBefore wTight k = .ok (st, o) ∧ st.inLoose = expectedLoose wTight st.isLooseAt k ∧ st.inLoose = false ∧
    calculateListLooseness wTight 0 = .ok (st.isLooseAt 0) ∧ st.isLooseAt 0 = false := by
  have hw : WellFormed wTight := by decide +kernel
  have hq : QuoteInListFlat wTight := by decide +kernel
  have hp : ∀ k ∈ [1, 5], probe wTight k = some (false, false) ∧ (∃ t, wTight[k]? = some t ∧ t.isKind .para = true) ∧
      (0, (⟨1, .ulist⟩ : Tok)) ∈ containersAt wTight k ∧ k ≤ wTight.length := by decide +kernel
  intro k hk
  obtain ⟨hpr, ⟨t, ht, htp⟩, hmem, hle⟩ := hp k hk
  obtain ⟨st, o, h1, h2, h3⟩ := probe_some hpr
  have hmain := paragraph_tightness_partial wTight hw hq k t ht htp st o h1
  have hflag := flag_is_calculated wTight hw k st o h1 0 _ hmem rfl
  refine ⟨t, st, o, ht, htp, h1, hmain, h2, hflag, ?_⟩
  have hc : calculateListLooseness wTight 0 = .ok false := by decide +kernel
  rw [hc] at hflag
  exact (Except.ok.inj hflag).symm

theorem wLoose_html :
    transform wLoose = .ok "<ul>\n<li>\n<p>a</p>\n<p>b</p>\n</li>\n<li>\n<p>c</p>\n</li>\n</ul>".toList := by
  decide +kernel

theorem wTight_html : transform wTight = .ok "<ul>\n<li>a</li>\n<li>b</li>\n</ul>".toList := by decide +kernel

end Verif.Lemmas.GfmTight

#print axioms Verif.Lemmas.GfmTight.tightness_before_token
#print axioms Verif.Lemmas.GfmTight.paragraph_tightness_partial
#print axioms Verif.Lemmas.GfmTight.paragraph_p_expected
#print axioms Verif.Lemmas.GfmTight.flag_is_calculated
#print axioms Verif.Lemmas.GfmTight.para_emits_p
#print axioms Verif.Lemmas.GfmTight.wQuoteInList_counterexample
#print axioms Verif.Lemmas.GfmTight.wQuoteInList_html
#print axioms Verif.Lemmas.GfmTight.wLoose_html
#print axioms Verif.Lemmas.GfmTight.wTight_html
