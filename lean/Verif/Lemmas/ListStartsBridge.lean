/-
  From the index tests of the code to the text after the index: the marker tests of `is_ulist_start` / `is_olist_start` are the
  specification's `parseMarker` on `line.drop start`; `at_end_of_line` is `Blank`; `is_not_one` is "the digits are not the text 1".
-/
import Verif.Lemmas.ListStartsEval
import Verif.Lemmas.ListStartsSpec
namespace Verif.Model.ListStarts
open Verif.Model.Recognisers (Str charAt slice isCharAtOneOf isWsAt extractSpacesVerified calcLength lenLe isStartUlist isStartOlist
  SP TAB scanTo digits thematicBodyB)
open Verif.Model.ListStartsSpec (Marker MarkerAt parseMarker followOkB isSpTab isDigit isDelim isBulletChar Blank blankB)

theorem drop_succ_of {line : Str} {i : Nat} {c : Char} {r : Str} (h : line.drop i = c :: r) : line.drop (i + 1) = r := by
  have : line.drop (i + 1) = (line.drop i).drop 1 := by rw [List.drop_drop]
  rw [this, h]; rfl

theorem lt_of_drop_cons {line : Str} {i : Nat} {c : Char} {r : Str} (h : line.drop i = c :: r) : i < line.length := by
  by_cases hl : i < line.length
  · exact hl
  · rw [List.drop_eq_nil_of_le (by omega)] at h; cases h

theorem wsContains_isSpTab (x : Char) : [SP, TAB].contains x = isSpTab x := by
  simp only [isSpTab, SP, TAB, List.contains_cons, List.contains_nil, Bool.or_false]

/-- the "followed by a space, a tab or the end of the line" test of `__is_start_phase_one`, on the text -/
theorem follow_view (line : Str) (j : Nat) (hj : j ≤ line.length) :
    (isWsAt line j || j == line.length) = followOkB (line.drop j) := by
  unfold isWsAt
  rw [Recognisers.isCharAtOneOf_head]
  cases hd : line.drop j with
  | nil =>
    have : line.length ≤ j := by
      by_cases hl : j < line.length
      · rw [List.drop_eq_getElem_cons hl] at hd; cases hd
      · omega
    have : j = line.length := by omega
    simp [followOkB, this]
  | cons x r =>
    have hl := lt_of_drop_cons hd
    have : (j == line.length) = false := by
      rw [beq_eq_false_iff_ne]; omega
    rw [this, Bool.or_false]
    simp only [List.head?_cons, followOkB]
    exact wsContains_isSpTab x

theorem bullets_isBulletChar (x : Char) : ['-', '+', '*'].contains x = isBulletChar x := by
  simp only [isBulletChar, List.contains_cons, List.contains_nil, Bool.or_false, Bool.or_assoc]

theorem digits_isDigit : digits.contains = isDigit := rfl

def isBulletMarker : Option (Marker × Str) → Bool
  | some (.bullet _, _) => true
  | _ => false

def isOrderedMarker : Option (Marker × Str) → Bool
  | some (.ordered _ _, _) => true
  | _ => false

/-- the bullet test of `is_ulist_start` (`__is_start_ulist` without the thematic-break exception, and the follow test of phase one) -/
theorem bullet_view (line : Str) (start : Nat) :
    (isCharAtOneOf line start ['-', '+', '*'] && (isWsAt line (start + 1) || start + 1 == line.length)) =
      isBulletMarker (parseMarker (line.drop start)) := by
  rw [Recognisers.isCharAtOneOf_head]
  cases hd : line.drop start with
  | nil => simp [parseMarker, isBulletMarker]
  | cons c r =>
    have hl := lt_of_drop_cons hd
    rw [follow_view line (start + 1) (by omega), drop_succ_of hd]
    simp only [List.head?_cons, bullets_isBulletChar, parseMarker]
    by_cases hb : isBulletChar c = true
    · simp only [hb, ↓reduceIte, Bool.true_and]
      cases hf : followOkB r <;> simp [isBulletMarker]
    · simp only [Bool.not_eq_true] at hb
      rw [hb]
      simp only [Bool.false_and, Bool.false_eq_true, ↓reduceIte]
      -- the other branch of `parseMarker` can only give an ordered marker
      split
      · split
        · split <;> simp [isBulletMarker]
        · simp [isBulletMarker]
      · simp [isBulletMarker]

theorem takeWhile_length_pos_iff {p : Char → Bool} (c : Char) (r : Str) : 1 ≤ ((c :: r).takeWhile p).length ↔ p c = true := by
  rw [List.takeWhile_cons]
  split <;> simp_all

/-- the marker test of `is_olist_start` (`__is_start_olist`, and the follow test of phase one at the delimiter) -/
theorem ordered_view (line : Str) (start : Nat) :
    (olistMarkerB line start &&
        (isWsAt line (digitsEnd line start + 1) || digitsEnd line start + 1 == line.length)) =
      isOrderedMarker (parseMarker (line.drop start)) := by
  unfold olistMarkerB
  rw [Recognisers.isCharAtOneOf_head, Recognisers.isCharAtOneOf_head]
  have hde : line.drop (digitsEnd line start) = (line.drop start).dropWhile isDigit := by
    unfold digitsEnd; rw [Recognisers.drop_scanTo]; rfl
  have hlen : digitsEnd line start - start = ((line.drop start).takeWhile isDigit).length := by
    unfold digitsEnd scanTo; rw [digits_isDigit]; omega
  rw [hde, hlen]
  cases hd : line.drop start with
  | nil => simp [parseMarker, isOrderedMarker]
  | cons c r =>
    have hdc : digits.contains c = isDigit c := rfl
    simp only [List.head?_cons, hdc, parseMarker]
    by_cases hb : isBulletChar c = true
    · have : isDigit c = false := ListStartsSpec.bullet_not_digit hb
      rw [this, if_pos hb]
      simp only [Bool.false_and]
      split <;> simp [isOrderedMarker]
    · rw [if_neg hb]
      by_cases hdg : isDigit c = true
      · rw [hdg]
        have hpos : 1 ≤ ((c :: r).takeWhile isDigit).length := (takeWhile_length_pos_iff c r).mpr hdg
        simp only [Bool.true_and, decide_eq_true hpos]
        by_cases h9 : ((c :: r).takeWhile isDigit).length ≤ 9
        · simp only [decide_eq_true h9, Bool.true_and, ↓reduceIte]
          cases hdw : (c :: r).dropWhile isDigit with
          | nil => simp [isOrderedMarker]
          | cons dl r2 =>
            have hdw' : line.drop (digitsEnd line start) = dl :: r2 := by rw [hde, hd, hdw]
            have hl := lt_of_drop_cons hdw'
            rw [follow_view line _ (by omega), drop_succ_of hdw']
            simp only [List.head?_cons]
            have : ['.', ')'].contains dl = isDelim dl := by
              simp only [isDelim, List.contains_cons, List.contains_nil, Bool.or_false]
            rw [this]
            cases isDelim dl <;> cases followOkB r2 <;> simp [isOrderedMarker]
        · simp [decide_eq_false h9, isOrderedMarker]
      · simp only [Bool.not_eq_true] at hdg
        rw [hdg]
        have : ((c :: r).takeWhile isDigit).length = 0 := by
          rw [List.takeWhile_cons]; simp [hdg]
        simp [this, isOrderedMarker]

/-- `at_end_of_line`: nothing but spaces and tabs follows position `j` -/
theorem atEol_view (line : Str) (j : Nat) (hj : j ≤ line.length) :
    (afterWs line j == line.length) = blankB (line.drop j) := by
  unfold afterWs
  rw [Recognisers.scanTo_eq_len _ _ _ hj]
  unfold blankB
  generalize line.drop j = l
  have hp : [SP, TAB].contains = isSpTab := funext wsContains_isSpTab
  rw [hp]
  induction l with
  | nil => rfl
  | cons x l ih =>
    rw [List.takeWhile_cons, List.all_cons]
    cases hx : isSpTab x
    · simp
    · simp only [↓reduceIte, List.length_cons, Bool.true_and]
      rw [← ih]
      rw [Bool.eq_iff_iff]; simp

end Verif.Model.ListStarts
