import Verif.Model.BqCount
import Verif.Lemmas.RecogSpec
/-
  Lemmas about the block-quote counting model (Verif/Model/BqCount.lean).
-/
namespace Verif.Lemmas.BqCount
open Verif.Model.Recognisers Verif.Model.BqCount

/-! ## fuel -/

/-- more fuel never changes an answer that is not "out of fuel" -/
theorem loop_fuel_succ (c : Cfg) (line : Str) (osi fuel : Nat) (s : St) (r : Except Err St)
    (h : loop c line osi fuel s = r) (hr : r ≠ .error .fuel) : loop c line osi (fuel + 1) s = r := by
  induction fuel generalizing s with
  | zero => simp only [loop] at h; exact absurd h.symm hr
  | succ f ih =>
    rw [loop] at h
    rw [loop]
    cases hi : iter c line osi s with
    | error e => rw [hi] at h; exact h
    | ok p =>
      obtain ⟨b, s1⟩ := p
      rw [hi] at h
      cases b with
      | false => exact h
      | true => exact ih _ h

theorem loop_fuel_mono (c : Cfg) (line : Str) (osi f g : Nat) (s : St) (r : Except Err St)
    (h : loop c line osi f s = r) (hr : r ≠ .error .fuel) (hfg : f ≤ g) : loop c line osi g s = r := by
  induction g with
  | zero => have : f = 0 := by omega
            subst this; exact h
  | succ g ih =>
    rcases Nat.lt_or_ge g f with hlt | hge
    · have : f = g + 1 := by omega
      subst this; exact h
    · exact loop_fuel_succ c line osi g s r (ih hge) hr

/-! ## `line.find(">", start)` -/

theorem idxGt_spec (s : Str) (j : Nat) (h : idxGt s = some j) :
    j < s.length ∧ s[j]? = some '>' ∧ ∀ i, i < j → s[i]? ≠ some '>' := by
  induction s generalizing j with
  | nil => simp [idxGt] at h
  | cons c r ih =>
    simp only [idxGt] at h
    split at h
    · next hc =>
      cases h
      simp only [beq_iff_eq] at hc
      exact ⟨by simp, by simp [hc], by intro i hi; omega⟩
    · next hc =>
      cases hr : idxGt r with
      | none => rw [hr] at h; cases h
      | some j' =>
        rw [hr] at h
        simp only [Option.map_some, Option.some.injEq] at h
        subst h
        obtain ⟨h1, h2, h3⟩ := ih j' hr
        refine ⟨by simp; omega, by simpa using h2, ?_⟩
        intro i hi
        cases i with
        | zero => simp only [List.getElem?_cons_zero, ne_eq, Option.some.injEq]; simpa using hc
        | succ i => simpa using h3 i (by omega)

theorem idxGt_none (s : Str) (h : idxGt s = none) : '>' ∉ s := by
  induction s with
  | nil => simp
  | cons c r ih =>
    simp only [idxGt] at h
    split at h
    · cases h
    · next hc =>
      cases hr : idxGt r with
      | some j => rw [hr] at h; cases h
      | none =>
        intro hm
        rcases List.mem_cons.mp hm with e | hm
        · exact hc (by rw [← e]; simp)
        · exact ih hr hm

theorem findGt_spec (line : Str) (start nb : Nat) (h : findGt line start = some nb) :
    start ≤ nb ∧ nb < line.length ∧ line[nb]? = some '>' ∧ ∀ i, start ≤ i → i < nb → line[i]? ≠ some '>' := by
  unfold findGt at h
  cases hg : idxGt (line.drop start) with
  | none => rw [hg] at h; cases h
  | some j =>
    rw [hg] at h
    simp only [Option.map_some, Option.some.injEq] at h
    subst h
    obtain ⟨h1, h2, h3⟩ := idxGt_spec _ _ hg
    simp only [List.length_drop] at h1
    refine ⟨by omega, by omega, ?_, ?_⟩
    · rw [List.getElem?_drop] at h2; exact h2
    · intro i hi1 hi2
      have := h3 (i - start) (by omega)
      rw [List.getElem?_drop] at this
      have e : start + (i - start) = i := by omega
      rw [e] at this; exact this

/-! ## structure of one iteration -/

/-- `specialDouble` unfolded along its successful path -/
theorem specialDouble_cases (c : Cfg) (line : Str) (start cur : Nat) (r : Bool × Nat × Option Nat)
    (h : specialDouble c line start cur = .ok r) :
    (r.1 = false ∧ r.2.1 = start) ∨
    (r = (true, r.2.1, none) ∧ cur < c.stackCount ∧ findGt line start = some r.2.1 ∧ r.2.1 - start ≤ 3 ∧
      ∃ w, collectWhileSpaces line start = .ok (some (r.2.1, w))) := by
  unfold specialDouble at h
  by_cases hlt : cur < c.stackCount
  · rw [if_pos hlt] at h
    cases hfd : findDoubleIndex c.stack cur with
    | error e => rw [hfd] at h; cases h
    | ok fi =>
      rw [hfd] at h
      simp only at h
      cases hnx : c.stack[fi + 1]? with
      | none => rw [hnx] at h; cases h
      | some nxt =>
        rw [hnx] at h
        simp only at h
        by_cases hb : nxt.isBq = true
        · rw [if_pos hb] at h
          cases hg : findGt line start with
          | none => rw [hg] at h; cases h; exact Or.inl ⟨rfl, rfl⟩
          | some nb =>
            rw [hg] at h
            simp only at h
            by_cases hd : nb - start ≤ 3
            · rw [if_pos hd] at h
              cases hcw : collectWhileSpaces line start with
              | error e => rw [hcw] at h; cases h
              | ok o =>
                rw [hcw] at h
                cases o with
                | none => cases h; exact Or.inl ⟨rfl, rfl⟩
                | some p =>
                  obtain ⟨fin, w⟩ := p
                  simp only at h
                  by_cases he : fin = nb
                  · rw [if_pos he] at h
                    cases h
                    subst he
                    exact Or.inr ⟨rfl, hlt, rfl, hd, w, rfl⟩
                  · rw [if_neg he] at h; cases h; exact Or.inl ⟨rfl, rfl⟩
            · rw [if_neg hd] at h; cases h; exact Or.inl ⟨rfl, rfl⟩
        · rw [if_neg hb] at h; cases h; exact Or.inl ⟨rfl, rfl⟩
  · rw [if_neg hlt] at h; cases h; exact Or.inl ⟨rfl, rfl⟩

/-- `__xx` asks for another round only through the double-block case, and then changes nothing but the start index -/
theorem xx_true (c : Cfg) (line : Str) (start cur : Nat) (last : Int) (cur' start' : Nat) (last' : Int) (k : Option Nat)
    (h : xx c line start cur last = .ok (true, cur', start', last', k)) :
    cur' = cur ∧ last' = last ∧ k = none ∧ cur < c.stackCount ∧ findGt line start = some start' ∧ start' - start ≤ 3 ∧
      ∃ w, collectWhileSpaces line start = .ok (some (start', w)) := by
  unfold xx at h
  cases hsd : specialDouble c line start cur with
  | error e => rw [hsd] at h; cases h
  | ok r =>
    obtain ⟨cont, start1, k1⟩ := r
    rw [hsd] at h
    simp only at h
    rcases specialDouble_cases c line start cur _ hsd with ⟨hf, _⟩ | ⟨he, hlt, hg, hd, w, hw⟩
    · simp only at hf
      subst hf
      -- `cont = false`: the result's first component is `false`
      split at h
      · split at h
        · cases h
        · split at h
          · split at h
            · cases h
            · simp at h
          · simp at h
      · simp at h
    · simp only [Prod.mk.injEq] at he
      obtain ⟨e1, _, e3⟩ := he
      subst e1 e3
      simp only [Bool.not_true, Bool.false_and, Bool.false_eq_true, ↓reduceIte, Except.ok.injEq, Prod.mk.injEq, true_and] at h
      obtain ⟨h1, h2, h3, h4⟩ := h
      subst h1 h2 h3 h4
      exact ⟨rfl, rfl, rfl, hlt, hg, hd, w, hw⟩

theorem wsStep_bounds (line : Str) (start : Nat) (h : start ≤ line.length) :
    start ≤ wsStep line start ∧ wsStep line start ≤ line.length := by
  unfold wsStep
  split
  · next hws => have := isWsAt_true_lt hws; omega
  · omega

/-- an iteration that asks for another round: what it changed and where it stands -/
theorem iter_true (c : Cfg) (line : Str) (osi : Nat) (s s1 : St) (h : iter c line osi s = .ok (true, s1)) :
    s1.cur = s.cur ∧ s1.last = s.last ∧ s1.avoid = s.avoid ∧ s1.k7 = s.k7 ∧
    wsStep line s.start ≠ line.length ∧
    ((isCharAtNot line (wsStep line s.start) '>' = false ∧ s1.start = wsStep line s.start) ∨
     (isCharAtNot line (wsStep line s.start) '>' = true ∧ s.cur < c.stackCount ∧
        findGt line (wsStep line s.start) = some s1.start ∧ s1.start - wsStep line s.start ≤ 3 ∧
        ∃ w, collectWhileSpaces line (wsStep line s.start) = .ok (some (s1.start, w)))) := by
  unfold iter at h
  simp only at h
  cases hh : htmlClause c line osi { s with start := wsStep line s.start } with
  | some s' => rw [hh] at h; simp at h
  | none =>
    rw [hh] at h
    simp only at h
    split at h
    · simp at h
    · split at h
      · simp at h
      · next hne =>
        have hne' : wsStep line s.start ≠ line.length := by simpa using hne
        split at h
        · next hnot =>
          cases hx : xx c line (wsStep line s.start) s.cur s.last with
          | error e => rw [hx] at h; cases h
          | ok r =>
            obtain ⟨cont, cur', start', last', k⟩ := r
            rw [hx] at h
            simp only [Except.ok.injEq, Prod.mk.injEq] at h
            obtain ⟨hc, hs1⟩ := h
            subst hc hs1
            obtain ⟨e1, e2, e3, hlt, hg, hd, w, hw⟩ := xx_true c line _ _ _ _ _ _ _ hx
            subst e1 e2 e3
            exact ⟨rfl, rfl, rfl, rfl, hne', Or.inr ⟨hnot, hlt, hg, hd, w, hw⟩⟩
        · next hnot =>
          simp only [Except.ok.injEq, Prod.mk.injEq, true_and] at h
          subst h
          exact ⟨rfl, rfl, rfl, rfl, hne', Or.inl ⟨by simpa using hnot, rfl⟩⟩

theorem iter_true_bounds (c : Cfg) (line : Str) (osi : Nat) (s s1 : St) (hs : s.start ≤ line.length)
    (h : iter c line osi s = .ok (true, s1)) : s.start ≤ s1.start ∧ s1.start < line.length := by
  obtain ⟨_, _, _, _, hne, hc⟩ := iter_true c line osi s s1 h
  have hw := wsStep_bounds line s.start hs
  rcases hc with ⟨_, e⟩ | ⟨_, _, hg, _, _⟩
  · rw [e]; omega
  · have := findGt_spec _ _ _ hg
    omega

/-! ## the model's errors are stack look-ups, never "out of fuel" -/

theorem findDoubleIndex_err (stack : List STok) (cur : Nat) (e : Err) (h : findDoubleIndex stack cur = .error e) : e = .index ∨ e = .assertion := by
  unfold findDoubleIndex at h
  repeat' split at h
  all_goals first | (cases h; decide) | cases h

theorem collectWhileSpaces_ne_err (line : Str) (start : Nat) (e : Err) : collectWhileSpaces line start ≠ .error e := by
  obtain ⟨r, hr⟩ := collectWhileSpaces_total line start
  rw [hr]; intro h; cases h

theorem specialDouble_err (c : Cfg) (line : Str) (start cur : Nat) (e : Err)
    (h : specialDouble c line start cur = .error e) : e = .index ∨ e = .assertion := by
  unfold specialDouble at h
  repeat' split at h
  all_goals first | (cases h; decide) | (cases h; done) | skip
  · next he => cases h; exact findDoubleIndex_err _ _ _ he
  · next he => exact absurd he (collectWhileSpaces_ne_err _ _ _)

theorem partOne_err (c : Cfg) (start cur : Nat) (e : Err) (h : partOne c start cur = .error e) : e = .index ∨ e = .assertion := by
  unfold partOne at h
  simp only at h
  repeat' split at h
  all_goals first | (cases h; decide) | cases h

theorem skipLists_err (stack : List STok) (i : Nat) (e : Err) (h : skipLists stack i = .error e) : e = .index ∨ e = .assertion := by
  induction stack generalizing i with
  | nil => simp only [skipLists] at h; cases h; decide
  | cons t r ih =>
    simp only [skipLists] at h
    split at h
    · exact ih _ h
    · cases h

theorem charAt_err (s : Str) (i : Nat) (e : Err) (h : charAt s i = .error e) : e = .index ∨ e = .assertion := by
  unfold charAt at h
  split at h
  · cases h
  · cases h; decide

theorem partTwo_err (c : Cfg) (si start cur : Nat) (last : Int) (e : Err)
    (h : partTwo c si start cur last = .error e) : e = .index ∨ e = .assertion := by
  unfold partTwo at h
  repeat' split at h
  all_goals first | (cases h; decide) | (cases h; done) | skip
  · next he => cases h; exact skipLists_err _ _ _ he
  · next he => cases h; exact charAt_err _ _ _ he
  · simp only at h
    repeat' split at h
    all_goals cases h

theorem xx_err (c : Cfg) (line : Str) (start cur : Nat) (last : Int) (e : Err)
    (h : xx c line start cur last = .error e) : e = .index ∨ e = .assertion := by
  unfold xx at h
  repeat' split at h
  all_goals first | (cases h; done) | skip
  · next he => cases h; exact specialDouble_err _ _ _ _ _ he
  · next he => cases h; exact partOne_err _ _ _ _ he
  · next he => cases h; exact partTwo_err _ _ _ _ _ _ he

theorem iter_err_not_fuel (c : Cfg) (line : Str) (osi : Nat) (s : St) (e : Err)
    (h : iter c line osi s = .error e) : e = .index ∨ e = .assertion := by
  unfold iter at h
  simp only at h
  repeat' split at h
  all_goals first | (cases h; done) | skip
  · next he => cases h; exact xx_err _ _ _ _ _ _ he

/-- fuel `len(line) + 2 - start` is enough -/
theorem loop_no_fuel (c : Cfg) (line : Str) (osi fuel : Nat) (s : St) (hs : s.start ≤ line.length)
    (hf : line.length + 2 ≤ fuel + s.start) : loop c line osi fuel s ≠ .error .fuel := by
  induction fuel generalizing s with
  | zero => omega
  | succ f ih =>
    rw [loop]
    cases hi : iter c line osi s with
    | error e =>
      simp only
      intro he
      -- `iter` itself never reports fuel: its errors come from the stack look-ups
      have := iter_err_not_fuel c line osi s e hi
      cases he
      rcases this with h | h <;> cases h
    | ok p =>
      obtain ⟨b, s1⟩ := p
      cases b with
      | false => simp
      | true =>
        simp only
        have hb := iter_true_bounds c line osi s s1 hs hi
        exact ih _ (by simp only; omega) (by simp only; omega)

/-! ## outside the line the loop does not end -/

theorem iter_outside (c : Cfg) (line : Str) (osi : Nat) (s : St) (hh : c.html = false) (hf : c.fenced = false)
    (hs : line.length < s.start) : iter c line osi s = .ok (true, s) := by
  have hws : isWsAt line s.start = false := isWsAt_ge (by omega)
  have hnot : isCharAtNot line s.start '>' = false := by
    unfold isCharAtNot; rw [List.getElem?_eq_none (by omega)]
  have hne : (s.start == line.length) = false := by simp; omega
  unfold iter
  simp only [wsStep, hws, Bool.false_eq_true, ↓reduceIte, htmlClause, hh, hf, Bool.false_and, hne, hnot]

theorem loop_outside (c : Cfg) (line : Str) (osi fuel : Nat) (s : St) (hh : c.html = false) (hf : c.fenced = false)
    (hs : line.length < s.start) : loop c line osi fuel s = .error .fuel := by
  induction fuel generalizing s with
  | zero => rfl
  | succ f ih =>
    rw [loop, iter_outside c line osi s hh hf hs]
    exact ih _ (by simp only; omega)

/-! ## list-free stacks -/

/-- a stack without lists whose block quotes are exactly the `stack_count` counted ones, and `original_line_to_parse` = the line -/
structure ListFree (c : Cfg) (line : Str) : Prop where
  stack : ∃ top, c.stack = .doc :: (List.replicate c.stackCount .bq ++ top) ∧ ∀ t ∈ top, t.isBq = false
  orig : c.orig = line

theorem nthBq_replicate (k n i : Nat) (top : List STok) (hn1 : 1 ≤ n) (hnk : n ≤ k) :
    nthBq (List.replicate k .bq ++ top) n i = some (i + n - 1) := by
  induction k generalizing n i with
  | zero => omega
  | succ k ih =>
    simp only [List.replicate_succ, List.cons_append, nthBq, STok.isBq, ↓reduceIte]
    by_cases h1 : n = 1
    · simp [h1]
    · rw [if_neg h1, ih (n - 1) (i + 1) (by omega) (by omega)]
      congr 1; omega

theorem nthBq_listfree (c : Cfg) (line : Str) (hl : ListFree c line) (n : Nat) (hn1 : 1 ≤ n) (hnk : n ≤ c.stackCount) :
    nthBq c.stack n 0 = some n ∧ (n < c.stackCount → c.stack[n + 1]? = some .bq) := by
  obtain ⟨top, hst, _⟩ := hl.stack
  rw [hst]
  refine ⟨?_, ?_⟩
  · simp only [nthBq, STok.isBq, Bool.false_eq_true, ↓reduceIte]
    rw [nthBq_replicate _ _ _ _ hn1 hnk]
    congr 1; omega
  · intro hlt
    simp only [List.getElem?_cons_succ]
    rw [List.getElem?_append_left (by simpa using hlt)]
    simp [hlt]

theorem countGt_pos (s : Str) (i : Nat) (h : s[i]? = some '>') : 1 ≤ countGt s := by
  unfold countGt
  have : '>' ∈ s := List.mem_of_getElem? h
  exact List.count_pos_iff.mpr this

/-- on a list-free stack `__xx` never raises and never touches the count or `last_block_quote_index` -/
theorem xx_listfree (c : Cfg) (line : Str) (hl : ListFree c line) (start cur : Nat) (last : Int) (hc : 1 ≤ cur)
    (hg : ∃ i, i < start ∧ line[i]? = some '>') :
    ∃ cont s1 k, xx c line start cur last = .ok (cont, cur, s1, last, k) ∧ (cont = false → s1 = start) ∧
      specialDouble c line start cur = .ok (cont, s1, k) := by
  unfold xx
  -- the double-block case
  have hsd : ∃ r, specialDouble c line start cur = .ok r := by
    unfold specialDouble
    by_cases hlt : cur < c.stackCount
    · have h1 := nthBq_listfree c line hl cur hc (by omega)
      have hfd : findDoubleIndex c.stack cur = .ok cur := by
        unfold findDoubleIndex
        rw [if_neg (by omega), h1.1]
      rw [if_pos hlt, hfd]
      simp only [h1.2 hlt, STok.isBq, ↓reduceIte]
      cases findGt line start with
      | none => exact ⟨_, rfl⟩
      | some nb =>
        simp only
        split
        · obtain ⟨r, hr⟩ := collectWhileSpaces_total line start
          rw [hr]
          cases r with
          | none => exact ⟨_, rfl⟩
          | some p => simp only; split <;> exact ⟨_, rfl⟩
        · exact ⟨_, rfl⟩
    · rw [if_neg hlt]; exact ⟨_, rfl⟩
  obtain ⟨⟨cont, s1, k⟩, hr⟩ := hsd
  have hfalse : cont = false → s1 = start := by
    intro hc0
    rcases specialDouble_cases c line start cur _ hr with ⟨_, h2⟩ | ⟨h1, _⟩
    · exact h2
    · simp only [Prod.mk.injEq] at h1; rw [hc0] at h1; cases h1.1
  rw [hr]
  simp only
  split
  · next hcond =>
    simp only [Bool.and_eq_true, Bool.not_eq_eq_eq_not, Bool.not_true, decide_eq_true_eq] at hcond
    -- `__xx_part_one` answers `False`
    have hs1 : s1 = start := by
      have := specialDouble_cases c line start cur _ hr
      rcases this with ⟨_, h2⟩ | ⟨h1, _⟩
      · exact h2
      · simp only [Prod.mk.injEq] at h1; rw [hcond.1] at h1; cases h1.1
    subst hs1
    have hp : partOne c s1 cur = .ok (false, 0) ∨ ∃ fi, partOne c s1 cur = .ok (false, fi) := by
      unfold partOne
      obtain ⟨top, hst, htop⟩ := hl.stack
      have hne : c.stack.getLast? ≠ none := by rw [hst]; simp
      cases hgl : c.stack.getLast? with
      | none => exact absurd hgl hne
      | some t =>
        simp only
        split
        · exact Or.inl rfl
        · split
          · exact Or.inl rfl
          · next hn =>
            obtain ⟨i, hi1, hi2⟩ := hg
            have hpos : 1 ≤ countGt (c.orig.take s1) := by
              rw [hl.orig]
              exact countGt_pos _ i (by rw [List.getElem?_take_of_lt hi1]; exact hi2)
            have h1 := nthBq_listfree c line hl (countGt (c.orig.take s1)) hpos (by omega)
            rw [h1.1]
            simp only [h1.2 (by omega), STok.isBq, Bool.not_true]
            exact Or.inr ⟨_, rfl⟩
    rcases hp with hp | ⟨fi, hp⟩ <;> (rw [hp]; simp only [Bool.false_eq_true, ↓reduceIte]; exact ⟨_, _, _, rfl, hfalse, rfl⟩)
  · exact ⟨_, _, _, rfl, hfalse, rfl⟩

/-- the loop invariant on a list-free stack: at least one marker counted, and a `>` lies before the start index -/
def Inv (line : Str) (s : St) : Prop := 1 ≤ s.cur ∧ ∃ i, i < s.start ∧ line[i]? = some '>'

theorem wsStep_ge (line : Str) (start : Nat) : start ≤ wsStep line start := by
  unfold wsStep; split <;> omega

/-- on a list-free stack an iteration never raises; when it stops without the html clause it only moved over white space -/
theorem iter_listfree (c : Cfg) (line : Str) (hl : ListFree c line) (osi : Nat) (s : St) (hi : Inv line s) :
    ∃ b s1, iter c line osi s = .ok (b, s1) ∧
      (b = false → c.html = false → s1.cur = s.cur ∧ s1.last = s.last ∧ s1.start = wsStep line s.start ∧ s1.avoid = s.avoid) := by
  unfold iter
  simp only
  cases hh : htmlClause c line osi { s with start := wsStep line s.start } with
  | some s' =>
    refine ⟨false, s', rfl, ?_⟩
    intro _ hhtml
    unfold htmlClause at hh
    simp [hhtml] at hh
  | none =>
    simp only
    split
    · exact ⟨_, _, rfl, fun _ _ => ⟨rfl, rfl, rfl, rfl⟩⟩
    · split
      · exact ⟨_, _, rfl, fun _ _ => ⟨rfl, rfl, rfl, rfl⟩⟩
      · split
        · obtain ⟨i, hi1, hi2⟩ := hi.2
          obtain ⟨cont, s1, k, hx, hf, _⟩ := xx_listfree c line hl (wsStep line s.start) s.cur s.last hi.1
            ⟨i, by have := wsStep_ge line s.start; omega, hi2⟩
          rw [hx]
          refine ⟨_, _, rfl, ?_⟩
          intro hb _
          exact ⟨rfl, rfl, hf hb, rfl⟩
        · exact ⟨_, _, rfl, fun hb => by cases hb⟩

theorem loop_listfree_ok (c : Cfg) (line : Str) (hl : ListFree c line) (osi fuel : Nat) (s : St) (hi : Inv line s)
    (hs : s.start ≤ line.length) (hf : line.length + 2 ≤ fuel + s.start) : ∃ r, loop c line osi fuel s = .ok r := by
  induction fuel generalizing s with
  | zero => omega
  | succ f ih =>
    obtain ⟨b, s1, hit, _⟩ := iter_listfree c line hl osi s hi
    rw [loop, hit]
    cases b with
    | false => exact ⟨_, rfl⟩
    | true =>
      simp only
      have hb := iter_true_bounds c line osi s s1 hs hit
      obtain ⟨hc1, _, _, _, _, _⟩ := iter_true c line osi s s1 hit
      obtain ⟨i, hi1, hi2⟩ := hi.2
      exact ih _ ⟨by simp only; omega, i, by simp only; omega, hi2⟩ (by simp only; omega) (by simp only; omega)

/-- bounds kept by the loop when no html block is open -/
def Bnd (line : Str) (osi : Nat) (s : St) : Prop :=
  osi + 1 ≤ s.start ∧ s.start ≤ line.length ∧ ((osi + 1 : Nat) : Int) ≤ s.last ∧ s.last ≤ (s.start : Int) ∧ 1 ≤ s.cur

theorem loop_listfree_bounds (c : Cfg) (line : Str) (hl : ListFree c line) (hh : c.html = false) (osi fuel : Nat) (s r : St)
    (hi : Inv line s) (hb : Bnd line osi s) (h : loop c line osi fuel s = .ok r) : Bnd line osi r ∧ s.cur ≤ r.cur := by
  induction fuel generalizing s with
  | zero => simp [loop] at h
  | succ f ih =>
    obtain ⟨b, s1, hit, hfalse⟩ := iter_listfree c line hl osi s hi
    rw [loop, hit] at h
    obtain ⟨b1, b2, b3, b4, b5⟩ := hb
    have hw := wsStep_bounds line s.start b2
    cases b with
    | false =>
      simp only [Except.ok.injEq] at h
      subst h
      obtain ⟨e1, e2, e3, _⟩ := hfalse rfl hh
      refine ⟨⟨by omega, by omega, by rw [e2]; exact b3, by rw [e2, e3]; omega, by omega⟩, by omega⟩
    | true =>
      simp only at h
      have hbd := iter_true_bounds c line osi s s1 b2 hit
      obtain ⟨hc1, _, _, _, _, _⟩ := iter_true c line osi s s1 hit
      obtain ⟨i, hi1, hi2⟩ := hi.2
      have := ih _ ⟨by simp only; omega, i, by simp only; omega, hi2⟩
        ⟨by simp only; omega, by simp only; omega, by simp only; omega, by simp only; omega, by simp only; omega⟩ h
      exact ⟨this.1, by have := this.2; simp only at this; omega⟩

/-! ## the specification -/

/-- the index of the next marker character when at most three white-space characters, and nothing else, lie before it -/
def sdNext (line : Str) (start : Nat) : Option Nat :=
  match findGt line start with
  | none => none
  | some nb =>
    if nb - start ≤ 3 then
      match collectWhileSpaces line start with
      | .ok (some (fin, _)) => if fin = nb then some nb else none
      | _ => none
    else none

/-- the double-block case on a list-free stack, evaluated -/
theorem specialDouble_listfree (c : Cfg) (line : Str) (hl : ListFree c line) (start cur : Nat) (hc : 1 ≤ cur)
    (cont : Bool) (s1 : Nat) (k : Option Nat) (h : specialDouble c line start cur = .ok (cont, s1, k)) :
    (cont = true ↔ (cur < c.stackCount ∧ (sdNext line start).isSome = true)) ∧ (cont = true → sdNext line start = some s1) := by
  unfold specialDouble at h
  unfold sdNext
  by_cases hlt : cur < c.stackCount
  · have h1 := nthBq_listfree c line hl cur hc (by omega)
    have hfd : findDoubleIndex c.stack cur = .ok cur := by
      unfold findDoubleIndex
      rw [if_neg (by omega), h1.1]
    rw [if_pos hlt, hfd] at h
    simp only [h1.2 hlt, STok.isBq, ↓reduceIte] at h
    cases hg : findGt line start with
    | none => rw [hg] at h; cases h; simp
    | some nb =>
      rw [hg] at h
      simp only at h ⊢
      by_cases hd : nb - start ≤ 3
      · rw [if_pos hd] at h ⊢
        cases hcw : collectWhileSpaces line start with
        | error e => rw [hcw] at h; cases h
        | ok o =>
          rw [hcw] at h
          cases o with
          | none => cases h; simp
          | some p =>
            obtain ⟨fin, w⟩ := p
            simp only at h ⊢
            by_cases he : fin = nb
            · rw [if_pos he] at h ⊢; cases h; simp [hlt]
            · rw [if_neg he] at h ⊢; cases h; simp
      · rw [if_neg hd] at h ⊢; cases h; simp
  · rw [if_neg hlt] at h; cases h; simp [hlt]

theorem idxGt_append (w rest : Str) (hw : '>' ∉ w) : idxGt (w ++ '>' :: rest) = some w.length := by
  induction w with
  | nil => simp [idxGt]
  | cons x w ih =>
    have hx : (x == '>') = false := by
      cases hh : x == '>' with
      | false => rfl
      | true => rw [beq_iff_eq] at hh; subst hh; exact absurd List.mem_cons_self hw
    simp only [List.cons_append, idxGt, hx, Bool.false_eq_true, ↓reduceIte, ih (fun h => hw (List.mem_cons_of_mem _ h)),
      Option.map_some, List.length_cons]

theorem ws_ne_gt (x : Char) (h : isWsChar x = true) : x ≠ '>' := by
  intro e; subst e; simp [isWsChar, SP, TAB] at h

theorem collectWhileSpaces_eval (line : Str) (start : Nat) (h : start ≤ line.length) :
    ∃ w, collectWhileSpaces line start = .ok (some (start + ((line.drop start).takeWhile isWsChar).length, w)) := by
  unfold collectWhileSpaces
  rw [collectWhileOneOf_eq, if_pos h, wsContains_eq]
  exact ⟨_, rfl⟩

/-- `sdNext` in terms of the rest of the line: white space (at most three), then `>` -/
theorem sdNext_iff (line : Str) (start : Nat) (hs : start ≤ line.length) (nb : Nat) :
    sdNext line start = some nb ↔
      ∃ rest, (line.drop start).dropWhile isWsChar = '>' :: rest ∧ ((line.drop start).takeWhile isWsChar).length ≤ 3 ∧
        nb = start + ((line.drop start).takeWhile isWsChar).length := by
  obtain ⟨w0, hcw⟩ := collectWhileSpaces_eval line start hs
  have hd : line.drop start = (line.drop start).takeWhile isWsChar ++ (line.drop start).dropWhile isWsChar :=
    List.takeWhile_append_dropWhile.symm
  have hwgt : '>' ∉ (line.drop start).takeWhile isWsChar := fun hm => ws_ne_gt _ (takeWhile_all _ _ _ hm) rfl
  unfold sdNext
  rw [hcw]
  constructor
  · intro h
    cases hg : findGt line start with
    | none => rw [hg] at h; cases h
    | some nb' =>
      rw [hg] at h
      simp only at h
      split at h
      · next hle =>
        split at h
        · next he =>
          cases h
          -- the scan stopped at the first `>`
          obtain ⟨_, h2, h3, _⟩ := findGt_spec _ _ _ hg
          have hk : (line.drop start)[((line.drop start).takeWhile isWsChar).length]? = some '>' := by
            rw [List.getElem?_drop, he]; exact h3
          rw [← List.head?_drop, drop_takeWhile_length] at hk
          cases hdw : (line.drop start).dropWhile isWsChar with
          | nil => rw [hdw] at hk; cases hk
          | cons a r =>
            rw [hdw] at hk
            simp only [List.head?_cons, Option.some.injEq] at hk
            subst hk
            exact ⟨r, rfl, by omega, he.symm⟩
        · cases h
      · cases h
  · intro ⟨rest, hr, hle, hnb⟩
    have hidx : idxGt (line.drop start) = some ((line.drop start).takeWhile isWsChar).length := by
      conv => lhs; rw [hd, hr]
      exact idxGt_append _ _ hwgt
    have hg : findGt line start = some nb := by
      unfold findGt; rw [hidx, hnb]; rfl
    rw [hg]
    simp only
    rw [if_pos (by omega), if_pos hnb.symm]

/-- the first white-space character behind a marker is the optional space -/
theorem specGo_wsStep (stack : Nat) (line : Str) (start cur : Nat) :
    specGo stack (line.drop start) false 0 cur = specGo stack (line.drop (wsStep line start)) true 0 cur := by
  unfold wsStep
  cases hd : line.drop start with
  | nil =>
    have hge : line.length ≤ start := drop_nil_of hd
    rw [isWsAt_ge hge]
    simp only [Bool.false_eq_true, ↓reduceIte, hd]
    rfl
  | cons a r =>
    have hlt : start < line.length := by
      rcases Nat.lt_or_ge start line.length with h | h
      · exact h
      · rw [List.drop_eq_nil_of_le h] at hd; cases hd
    have ha : line[start] = a := by
      have := List.drop_eq_getElem_cons hlt
      rw [this] at hd; injection hd
    rw [isWsAt_lt hlt, ha]
    cases hw : isWsChar a with
    | true =>
      simp only [↓reduceIte]
      have hr : line.drop (start + 1) = r := by
        have := List.drop_eq_getElem_cons hlt
        rw [this] at hd; injection hd
      rw [hr]
      have hne : (a == '>') = false := by simpa using ws_ne_gt a hw
      simp only [specGo, hne, Bool.false_eq_true, ↓reduceIte, hw, Bool.not_false]
    | false =>
      simp only [Bool.false_eq_true, ↓reduceIte, hd]
      simp only [specGo, hw, Bool.false_eq_true, ↓reduceIte]

/-- what the specification counts at the end of a white-space run of total width `n` (`emp` = the run is empty) -/
def runVal (stack cur n : Nat) (emp : Bool) : Str → Nat
  | [] => 0
  | a :: rest =>
    if a == '>' then (if n ≤ 3 ∧ (emp = true ∨ cur < stack) then 1 + specGo stack rest false 0 (cur + 1) else 0)
    else 0

/-- `specGo` across a run of white space -/
theorem specGo_run (stack cur : Nat) (w tail : Str) (k : Nat) (hk3 : k ≤ 3) (hw : ∀ x ∈ w, isWsChar x = true)
    (ht : ∀ a r, tail = a :: r → isWsChar a = false) :
    specGo stack (w ++ tail) true k cur = runVal stack cur (w.length + k) w.isEmpty tail := by
  induction w generalizing k with
  | nil =>
    cases tail with
    | nil => rfl
    | cons a rest =>
      have hwa := ht a rest rfl
      simp only [List.nil_append, specGo, runVal, hwa, Bool.false_eq_true, ↓reduceIte, List.length_nil, Nat.zero_add,
        List.isEmpty_nil, true_or, and_true, hk3]
  | cons x w ih =>
    have hx := hw x List.mem_cons_self
    have hne : (x == '>') = false := by simpa using ws_ne_gt x hx
    have hw' : ∀ y ∈ w, isWsChar y = true := fun y hy => hw y (List.mem_cons_of_mem _ hy)
    simp only [List.cons_append, specGo, hne, Bool.false_eq_true, ↓reduceIte, hx, Bool.not_true]
    by_cases hk : k < 3 ∧ cur < stack
    · simp only [hk.1, hk.2, decide_true, Bool.and_self, ↓reduceIte]
      rw [ih (k + 1) (by omega) hw']
      cases tail with
      | nil => rfl
      | cons a rest =>
        have e2 : w.length + (k + 1) = w.length + 1 + k := by omega
        simp only [runVal, List.length_cons, List.isEmpty_cons, Bool.false_eq_true, hk.2, or_true, and_true, e2]
    · have : (decide (k < 3) && decide (cur < stack)) = false := by
        simp only [Bool.and_eq_false_imp, decide_eq_true_eq, decide_eq_false_iff_not]
        intro h1 h2; exact hk ⟨h1, h2⟩
      simp only [this, Bool.false_eq_true, ↓reduceIte]
      cases tail with
      | nil => rfl
      | cons a rest =>
        simp only [runVal, List.length_cons, List.isEmpty_cons, Bool.false_eq_true, false_or]
        split
        · rw [if_neg]
          intro ⟨a1, a2⟩
          exact hk ⟨by omega, a2⟩
        · rfl

/-- `iter` with nothing special open -/
theorem iter_plain (c : Cfg) (line : Str) (osi : Nat) (s : St) (hh : c.html = false) (hf : c.fenced = false) :
    iter c line osi s =
      if (wsStep line s.start == line.length) = true then .ok (false, { s with start := wsStep line s.start })
      else if isCharAtNot line (wsStep line s.start) '>' = true then
        match xx c line (wsStep line s.start) s.cur s.last with
        | .error e => .error e
        | .ok (cont, cur, start, last, k) =>
          .ok (cont, { s with cur := cur, start := start, last := last, k7 := match k with | some i => s.k7 ++ [i] | none => s.k7 })
      else .ok (true, { s with start := wsStep line s.start }) := by
  unfold iter
  simp only [htmlClause, hh, hf, Bool.false_and, Bool.false_eq_true, ↓reduceIte]
  rfl

/-- the condition under which the specification counts another marker behind the (optional) space -/
def Marker (stack cur : Nat) (d : Str) : Prop :=
  ∃ rest, d.dropWhile isWsChar = '>' :: rest ∧ (d.takeWhile isWsChar).length ≤ 3 ∧ (d.takeWhile isWsChar = [] ∨ cur < stack)

theorem drop_head (line : Str) (i : Nat) (a : Char) (r : Str) (h : line.drop i = a :: r) :
    i < line.length ∧ line[i]? = some a ∧ line.drop (i + 1) = r := by
  have hlt : i < line.length := by
    rcases Nat.lt_or_ge i line.length with h' | h'
    · exact h'
    · rw [List.drop_eq_nil_of_le h'] at h; cases h
  have := List.drop_eq_getElem_cons hlt
  rw [this] at h
  injection h with h1 h2
  exact ⟨hlt, by rw [List.getElem?_eq_getElem hlt, h1], h2⟩

/-- one iteration against the specification (plain configuration, list-free stack) -/
theorem iter_spec (c : Cfg) (line : Str) (hl : ListFree c line) (hh : c.html = false) (hf : c.fenced = false)
    (osi : Nat) (s : St) (hi : Inv line s) (hs : s.start ≤ line.length) :
    ∃ b s1, iter c line osi s = .ok (b, s1) ∧ s1.cur = s.cur ∧
      (b = true → ∃ rest, (line.drop (wsStep line s.start)).dropWhile isWsChar = '>' :: rest ∧
          ((line.drop (wsStep line s.start)).takeWhile isWsChar).length ≤ 3 ∧
          ((line.drop (wsStep line s.start)).takeWhile isWsChar = [] ∨ s.cur < c.stackCount) ∧
          line.drop (s1.start + 1) = rest) ∧
      (b = false → ¬ Marker c.stackCount s.cur (line.drop (wsStep line s.start))) := by
  obtain ⟨b, s1, hit, hfalse⟩ := iter_listfree c line hl osi s hi
  have hst := wsStep_bounds line s.start hs
  refine ⟨b, s1, hit, ?_, ?_, ?_⟩
  · cases b with
    | true => exact (iter_true c line osi s s1 hit).1
    | false => exact (hfalse rfl hh).1
  · intro hb
    subst hb
    obtain ⟨_, _, _, _, hne, hc⟩ := iter_true c line osi s s1 hit
    rcases hc with ⟨hnot, e⟩ | ⟨hnot, hlt, hg, hd, w', hw'⟩
    · -- the character at the start index is `>`
      have hlt : wsStep line s.start < line.length := by omega
      have hch : line[wsStep line s.start] = '>' := by
        unfold isCharAtNot at hnot
        rw [List.getElem?_eq_getElem hlt] at hnot
        simpa using hnot
      have hd : line.drop (wsStep line s.start) = '>' :: line.drop (wsStep line s.start + 1) := by
        rw [List.drop_eq_getElem_cons hlt, hch]
      refine ⟨line.drop (wsStep line s.start + 1), ?_, ?_, ?_, by rw [e]⟩
      · rw [hd]; simp [isWsChar, SP, TAB]
      · rw [hd]; simp [isWsChar, SP, TAB]
      · left; rw [hd]; simp [isWsChar, SP, TAB]
    · have hsd : sdNext line (wsStep line s.start) = some s1.start := by
        unfold sdNext; rw [hg]; simp only [hd, ↓reduceIte, hw']
      obtain ⟨rest, hr, hle, hnb⟩ := (sdNext_iff line _ hst.2 _).mp hsd
      refine ⟨rest, hr, hle, Or.inr hlt, ?_⟩
      rw [hnb]
      have : line.drop (wsStep line s.start + ((line.drop (wsStep line s.start)).takeWhile isWsChar).length + 1) =
          ((line.drop (wsStep line s.start)).drop ((line.drop (wsStep line s.start)).takeWhile isWsChar).length).drop 1 := by
        rw [List.drop_drop, List.drop_drop, Nat.add_assoc]
      rw [this, drop_takeWhile_length, hr]; rfl
  · intro hb hm
    subst hb
    obtain ⟨rest, hr, hle, hor⟩ := hm
    have hdec : line.drop (wsStep line s.start) =
        (line.drop (wsStep line s.start)).takeWhile isWsChar ++ '>' :: rest := by
      rw [← hr]; exact List.takeWhile_append_dropWhile.symm
    rw [iter_plain c line osi s hh hf] at hit
    -- the line has not run out
    have hlt : wsStep line s.start < line.length := by
      rcases Nat.lt_or_ge (wsStep line s.start) line.length with h | h
      · exact h
      · rw [List.drop_eq_nil_of_le h] at hdec
        cases hw : (List.takeWhile isWsChar ([] : Str)) <;> simp at hdec
    rw [if_neg (by simp; omega)] at hit
    cases hw : (line.drop (wsStep line s.start)).takeWhile isWsChar with
    | nil =>
      rw [hw] at hdec
      obtain ⟨_, hc, _⟩ := drop_head _ _ _ _ hdec
      have : isCharAtNot line (wsStep line s.start) '>' = false := by unfold isCharAtNot; rw [hc]; simp
      rw [if_neg (by simp [this])] at hit
      cases hit
    | cons a w =>
      rw [hw] at hdec hle hor
      obtain ⟨_, hc, _⟩ := drop_head _ _ _ _ hdec
      have ha : isWsChar a = true := by
        have := takeWhile_all isWsChar (line.drop (wsStep line s.start)) a (by rw [hw]; simp)
        exact this
      have hne := ws_ne_gt a ha
      have hnot : isCharAtNot line (wsStep line s.start) '>' = true := by
        unfold isCharAtNot; rw [hc]; simpa using hne
      rw [if_pos hnot] at hit
      have hcur : s.cur < c.stackCount := by
        rcases hor with h | h
        · cases h
        · exact h
      obtain ⟨i, hi1, hi2⟩ := hi.2
      obtain ⟨cont, s1x, k, hx, _, hsd⟩ := xx_listfree c line hl (wsStep line s.start) s.cur s.last hi.1
        ⟨i, by omega, hi2⟩
      rw [hx] at hit
      simp only [Except.ok.injEq, Prod.mk.injEq] at hit
      have hsome : sdNext line (wsStep line s.start) =
          some (wsStep line s.start + ((line.drop (wsStep line s.start)).takeWhile isWsChar).length) :=
        (sdNext_iff line _ hst.2 _).mpr ⟨rest, hr, by rw [hw]; exact hle, rfl⟩
      have := (specialDouble_listfree c line hl _ _ hi.1 _ _ _ hsd).1.mpr ⟨hcur, by rw [hsome]; rfl⟩
      rw [this] at hit
      cases hit.1

/-- the loop counts what the specification counts -/
theorem loop_spec (c : Cfg) (line : Str) (hl : ListFree c line) (hh : c.html = false) (hf : c.fenced = false)
    (osi fuel : Nat) (s r : St) (hi : Inv line s) (hs : s.start ≤ line.length)
    (h : loop c line osi fuel s = .ok r) :
    r.cur = s.cur + specGo c.stackCount (line.drop s.start) false 0 s.cur := by
  induction fuel generalizing s with
  | zero => simp [loop] at h
  | succ f ih =>
    obtain ⟨b, s1, hit, hcur, htrue, hfalse⟩ := iter_spec c line hl hh hf osi s hi hs
    rw [loop, hit] at h
    rw [specGo_wsStep]
    have hdec : line.drop (wsStep line s.start) =
        (line.drop (wsStep line s.start)).takeWhile isWsChar ++ (line.drop (wsStep line s.start)).dropWhile isWsChar :=
      List.takeWhile_append_dropWhile.symm
    have hrun := specGo_run c.stackCount s.cur ((line.drop (wsStep line s.start)).takeWhile isWsChar)
      ((line.drop (wsStep line s.start)).dropWhile isWsChar) 0 (by omega) (takeWhile_all _ _)
      (fun a r e => head_dropWhile_not e)
    rw [← hdec] at hrun
    rw [hrun]
    cases b with
    | true =>
      obtain ⟨rest, hr, hle, hor, hdrop⟩ := htrue rfl
      simp only at h
      have hbd := iter_true_bounds c line osi s s1 hs hit
      obtain ⟨i, hi1, hi2⟩ := hi.2
      have := ih _ ⟨by simp only; omega, i, by simp only; omega, hi2⟩ (by simp only; omega) h
      simp only at this
      rw [this, hr, hdrop, hcur]
      have hcond : ((line.drop (wsStep line s.start)).takeWhile isWsChar).length + 0 ≤ 3 ∧
          (((line.drop (wsStep line s.start)).takeWhile isWsChar).isEmpty = true ∨ s.cur < c.stackCount) := by
        refine ⟨by omega, ?_⟩
        rcases hor with h1 | h1
        · left; rw [h1]; rfl
        · right; exact h1
      simp only [runVal, beq_self_eq_true, ↓reduceIte, hcond, and_self]
      omega
    | false =>
      simp only [Except.ok.injEq] at h
      subst h
      have hnm := hfalse rfl
      rw [hcur]
      cases hdw : (line.drop (wsStep line s.start)).dropWhile isWsChar with
      | nil => simp [runVal]
      | cons a rest =>
        simp only [runVal]
        split
        · next ha =>
          rw [if_neg]
          · rfl
          · intro ⟨h1, h2⟩
            simp only [beq_iff_eq] at ha
            subst ha
            refine hnm ⟨rest, hdw, by omega, ?_⟩
            rcases h2 with h2 | h2
            · left; exact List.isEmpty_iff.mp h2
            · right; exact h2
        · rfl

theorem isCharAt_get {s : Str} {i : Nat} {c : Char} (h : isCharAt s i c = true) : s[i]? = some c := by
  unfold isCharAt at h
  split at h
  · next d hd => rw [hd]; simp only [beq_iff_eq] at h; rw [h]
  · cases h

/-- an error of the loop is a stack look-up (`IndexError` / `AssertionError`) or "out of fuel" -/
theorem loop_err (c : Cfg) (line : Str) (osi fuel : Nat) (s : St) (e : Err) (h : loop c line osi fuel s = .error e) :
    e = .index ∨ e = .assertion ∨ e = .fuel := by
  induction fuel generalizing s with
  | zero => simp only [loop] at h; cases h; exact Or.inr (Or.inr rfl)
  | succ f ih =>
    rw [loop] at h
    cases hi : iter c line osi s with
    | error e' =>
      rw [hi] at h; cases h
      rcases iter_err_not_fuel c line osi s e hi with h1 | h1
      · exact Or.inl h1
      · exact Or.inr (Or.inl h1)
    | ok p =>
      obtain ⟨b, s1⟩ := p
      rw [hi] at h
      cases b with
      | false => cases h
      | true => exact ih _ h

theorem loop_err_not_diverges (c : Cfg) (line : Str) (osi fuel : Nat) (s : St) :
    loop c line osi fuel s ≠ .error .diverges := by
  intro h
  rcases loop_err c line osi fuel s _ h with h1 | h1 | h1 <;> cases h1

/-- the limit of `specGo` does not matter while it exceeds what the rest of the line can add -/
theorem specGo_stack_irrelevant (stack stack' : Nat) (d : Str) (opt : Bool) (k cur : Nat)
    (h1 : cur + d.length ≤ stack) (h2 : cur + d.length ≤ stack') :
    specGo stack d opt k cur = specGo stack' d opt k cur := by
  induction d generalizing opt k cur with
  | nil => rfl
  | cons a r ih =>
    simp only [List.length_cons] at h1 h2
    simp only [specGo]
    split
    · rw [ih false 0 (cur + 1) (by omega) (by omega)]
    · split
      · split
        · exact ih true 0 cur (by omega) (by omega)
        · have e1 : decide (cur < stack) = true := by simp; omega
          have e2 : decide (cur < stack') = true := by simp; omega
          rw [e1, e2]
          split
          · exact ih true (k + 1) cur (by omega) (by omega)
          · rfl
      · rfl

end Verif.Lemmas.BqCount
