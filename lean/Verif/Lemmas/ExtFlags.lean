/-
  Generic lemmas about the handler-table model (independent of the generated table).
-/
import Verif.Model.ExtFlags
namespace Verif.Model.ExtFlags

theorem mem_handlerChars {regs : List Reg} {f : Flags} {c : Char} :
    c ∈ handlerChars regs f ↔ ∃ r ∈ regs, ownerOn f r.owner = true ∧ c ∈ r.chars := by
  simp only [handlerChars, activeRegs, List.mem_flatMap, List.mem_filter]
  constructor
  · rintro ⟨r, ⟨hr, ho⟩, hc⟩; exact ⟨r, hr, ho, hc⟩
  · rintro ⟨r, hr, ho, hc⟩; exact ⟨r, ⟨hr, ho⟩, hc⟩

theorem mem_extChars {regs : List Reg} {e : Ext} {c : Char} :
    c ∈ extChars regs e ↔ ∃ r ∈ regs, r.owner = some e ∧ c ∈ r.chars := by
  simp only [extChars, List.mem_flatMap, List.mem_filter, beq_iff_eq]
  constructor
  · rintro ⟨r, ⟨hr, ho⟩, hc⟩; exact ⟨r, hr, ho, hc⟩
  · rintro ⟨r, hr, ho, hc⟩; exact ⟨r, ⟨hr, ho⟩, hc⟩

theorem mem_emphChars {emph : List Emph} {f : Flags} {c : Char} :
    c ∈ emphChars emph f ↔ ∃ r ∈ emph, ownerOn f r.owner = true ∧ c ∈ r.chars := by
  simp only [emphChars, List.mem_flatMap, List.mem_filter]
  constructor
  · rintro ⟨r, ⟨hr, ho⟩, hc⟩; exact ⟨r, hr, ho, hc⟩
  · rintro ⟨r, hr, ho, hc⟩; exact ⟨r, ⟨hr, ho⟩, hc⟩

/-- Table condition: a character introduced by an extension-owned registration is registered by
nobody else (neither the base parser nor another extension). -/
def CharsOwned (regs : List Reg) : Bool :=
  regs.all fun r' => match r'.owner with
    | none => true
    | some e => r'.chars.all fun c => regs.all fun r => !(r.chars.contains c) || r.owner == some e

/-- If the table has `CharsOwned`, switching an extension off removes its characters from the
inline handler table. -/
theorem handlers_off_of_owned {regs : List Reg} (hown : CharsOwned regs = true)
    (f : Flags) (e : Ext) (hoff : f.get e = false) (c : Char) (hc : c ∈ extChars regs e) :
    c ∉ handlerChars regs f := by
  intro hin
  obtain ⟨r', hr', ho', hc'⟩ := mem_extChars.mp hc
  obtain ⟨r, hr, hon, hcr⟩ := mem_handlerChars.mp hin
  simp only [CharsOwned, List.all_eq_true] at hown
  have h1 := hown r' hr'
  rw [ho'] at h1
  simp only [List.all_eq_true] at h1
  have h2 := h1 c hc' r hr
  simp only [Bool.or_eq_true, Bool.not_eq_true', beq_iff_eq] at h2
  rcases h2 with h2 | h2
  · have : r.chars.contains c = true := by simpa using hcr
    rw [this] at h2; exact absurd h2 (by simp)
  · rw [h2] at hon; simp only [ownerOn] at hon; rw [hoff] at hon; exact absurd hon (by simp)

end Verif.Model.ExtFlags
