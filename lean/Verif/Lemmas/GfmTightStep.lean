/-
  What one token does to the three fields of `TransformState` that the looseness logic uses (`is_in_loose_list`,
  the token index, the `is_loose` flags stored on list tokens) — for EVERY token, conditioned on the handler succeeding.
-/
import Verif.Lemmas.GfmTightStruct
namespace Verif.Lemmas.GfmTight
open Verif.Model.GfmRender Verif.Model.GfmSpec Verif.Lemmas.GfmBasic

/-- the effect of token `t` on (`inLoose`, `loose`): the only writers are list start, block-quote start, list end and
block-quote end -/
def LooseEffect (ts : List Tok) (st : St) (t : Tok) (st1 : St) : Prop :=
  if t.isListStart then
    ∃ l, calculateListLooseness ts st.idx = .ok l ∧ st1.inLoose = l ∧ st1.loose = (st.idx, l) :: st.loose
  else
    st1.loose = st.loose ∧
      (if t.isBqStart then st1.inLoose = true
       else if t.isListEnd || t.isBqEnd then resetListLooseness ts st st.idx = .ok st1.inLoose
       else st1.inLoose = st.inLoose)

theorem reset_congr (ts : List Tok) (st st' : St) (i : Nat) (h : st.loose = st'.loose) :
    resetListLooseness ts st i = resetListLooseness ts st' i := by
  unfold resetListLooseness St.isLooseAt
  rw [h]

macro "fin_h" : tactic =>
  `(tactic| (cases ‹_ = Except.ok _›; refine ⟨rfl, ?_⟩
             simp [LooseEffect, Tok.isListStart, Tok.isBqStart, Tok.isListEnd, Tok.isBqEnd, Tok.isKind, Tok.isEndOf,
               Tok.kind?, Body.kind?]))

theorem apply_fields {ts : List Tok} {st : St} {o : Out} {t : Tok} {st1 : St} {o1 : Out}
    (h : applyTransformation ts st o t = .ok (st1, o1)) : st1.idx = st.idx ∧ LooseEffect ts st t st1 := by
  obtain ⟨ln, b⟩ := t
  cases b
  case end_ k p f =>
    cases k <;> simp only [applyTransformation, hParaEnd, hAtxEnd, hSetextEnd, hFencedEnd, hIcodeEnd, hHtmlEnd,
      hEmphEnd, hLinkEnd, hBqEnd, hListEnd, bind, Except.bind, pure, Except.pure, throw, throwThe,
      MonadExceptOf.throw] at h
    all_goals (repeat' split at h)
    all_goals (try (cases h; done))
    all_goals (try fin_h)
    all_goals exact (reset_congr ts _ _ _ rfl).trans ‹_›
  all_goals simp only [applyTransformation, hParaStart, hBlank, hTbreak, hNoOutput, hHtmlStart, hIcodeStart,
    hHardBreak, hListStart, hLi, hAtxStart, hSetextStart, hFencedStart, hText, hCodeSpan, hUriAutolink,
    hEmailAutolink, hRawHtml, hEmphStart, hLinkStart, hImage, hBqStart, hTaskList, bind, Except.bind, pure,
    Except.pure] at h
  all_goals (repeat' split at h)
  all_goals (try (cases h; done))
  all_goals (try fin_h)
  all_goals assumption

theorem LooseEffect.congr {ts : List Tok} {st : St} {t : Tok} {st1 st2 : St} (h : LooseEffect ts st t st1)
    (h1 : st2.inLoose = st1.inLoose) (h2 : st2.loose = st1.loose) : LooseEffect ts st t st2 := by
  unfold LooseEffect at h ⊢
  rw [h1, h2]; exact h

/-- one iteration of the main loop: the index advances by one, the trailing / leading text steps touch none of the
three fields -/
theorem stepTok_fields {ts : List Tok} {st : St} {o : Out} {t : Tok} {st2 : St} {o2 : Out}
    (h : stepTok ts (st, o) t = .ok (st2, o2)) : st2.idx = st.idx + 1 ∧ LooseEffect ts st t st2 := by
  unfold stepTok at h
  cases ha : applyTransformation ts st o t with
  | error e => simp [ha, bind, Except.bind] at h
  | ok r =>
    obtain ⟨st1, o1⟩ := r
    obtain ⟨hi, hl⟩ := apply_fields ha
    cases htr : st1.trailing <;> cases hld : st1.leading <;> cases hst : st1.stack <;>
      simp only [ha, htr, hld, hst, applyTrailing, applyLeading, bind, Except.bind, pure, Except.pure, throw, throwThe,
        MonadExceptOf.throw, Except.ok.injEq, Prod.mk.injEq, reduceCtorEq] at h <;>
      (try (obtain ⟨rfl, rfl⟩ := h; exact ⟨by simp [hi], hl.congr rfl rfl⟩))

end Verif.Lemmas.GfmTight
