/-
  List looseness, part D (nested lists): tokens of a subtree, end-token pointers, the blank-line scan never fails
  inside a list, the loop below stack count 0, the backward container scan over complete forests.
-/
import Verif.Lemmas.GfmLooseSpec
namespace Verif.Lemmas.GfmLoose
open Verif.Model.GfmRender Verif.Model.GfmSpec Verif.Lemmas.GfmBasic
open Verif.Model.WellFormed (Cls)

/-! ### every token of a subtree -/

mutual
  /-- `p` holds of every token of the subtree (start tokens, leaves, end tokens, at any depth) -/
  def allToks (p : Tok → Bool) : Node → Bool
    | .leaf _ t => p t
    | .node _ s ks e => p s && allToksL p ks && p e
  def allToksL (p : Tok → Bool) : List Node → Bool
    | [] => true
    | n :: ns => allToks p n && allToksL p ns
end

theorem allToksL_gtree {p : Tok → Bool} {par : Option Kind} {j : Nat} {seg : List Tok} {ns : List Node}
    (h : GTree par j seg ns) : allToksL p ns = true → ∀ t ∈ seg, p t = true := by
  induction h with
  | nil => intro _ t ht; simp at ht
  | atom _ _ _ _ ih =>
    intro ha u hu
    simp only [allToksL, allToks, Bool.and_eq_true] at ha
    rcases List.mem_cons.mp hu with rfl | hu
    · exact ha.1
    · exact ih ha.2 u hu
  | node _ _ _ _ _ _ ihb ihr =>
    intro ha u hu
    simp only [allToksL, allToks, Bool.and_eq_true] at ha
    rcases List.mem_cons.mp hu with rfl | hu
    · exact ha.1.1.1
    · rcases List.mem_append.mp hu with hu | hu
      · exact ihb ha.1.1.2 u hu
      · rcases List.mem_cons.mp hu with rfl | hu
        · exact ha.1.2
        · exact ihr ha.2 u hu

/-! ### end tokens point into their own segment -/

theorem gtree_ptr {par : Option Kind} {j : Nat} {seg : List Tok} {ns : List Node} (h : GTree par j seg ns) :
    par.isSome = true → ∀ t ∈ seg, t.isEndToken = true →
      ∃ k p f, t.body = .end_ k p f ∧ j ≤ p ∧ p < j + seg.length := by
  induction h with
  | nil => intro _ t ht; simp at ht
  | @atom par j t k rest0 ns hk hs ha _ ih =>
    intro hp u hu hue
    rcases List.mem_cons.mp hu with rfl | hu
    · rw [isEndToken_of_kind hk] at hue
      have : k = .eos := by simpa using hue
      subst this
      cases par <;> simp_all [atomOK, Kind.cls]
    · obtain ⟨k', p, f, h1, h2, h3⟩ := ih hp u hu hue
      exact ⟨k', p, f, h1, by omega, by simp only [List.length_cons]; omega⟩
  | @node par j s0 k0 body0 e0 f0 rest0 ks ns hk hs ho hb he _ ihb ihr =>
    intro hp u hu hue
    simp only [List.length_cons, List.length_append]
    rcases List.mem_cons.mp hu with rfl | hu
    · rw [isEndToken_of_kind hk] at hue
      have : k0 = .eos := by simpa using hue
      subst this
      simp [Kind.isStart, Kind.requiresEnd] at hs
    · rcases List.mem_append.mp hu with hu | hu
      · obtain ⟨k', p, f, h1, h2, h3⟩ := ihb rfl u hu hue
        exact ⟨k', p, f, h1, by omega, by omega⟩
      · rcases List.mem_cons.mp hu with rfl | hu
        · exact ⟨k0, j, f0, he, by omega, by omega⟩
        · obtain ⟨k', p, f, h1, h2, h3⟩ := ihr hp u hu hue
          exact ⟨k', p, f, h1, by omega, by omega⟩

theorem gtree_cons_head {par : Option Kind} {j : Nat} {t : Tok} {r : List Tok} {ns : List Node}
    (h : GTree par j (t :: r) ns) : t.isListEnd = false ∧ ∃ n ns', ns = n :: ns' := by
  generalize hseg : t :: r = seg at h
  cases h with
  | nil => cases hseg
  | atom hk _ _ _ =>
    simp only [List.cons.injEq] at hseg
    obtain ⟨rfl, _⟩ := hseg
    exact ⟨(tests_of_kind hk).2.2.2.1, _, _, rfl⟩
  | node hk _ _ _ _ _ =>
    simp only [List.cons.injEq] at hseg
    obtain ⟨rfl, _⟩ := hseg
    exact ⟨(tests_of_kind hk).2.2.2.1, _, _, rfl⟩

theorem gtree_nil {par : Option Kind} {j : Nat} {ns : List Node} (h : GTree par j [] ns) : ns = [] := by
  generalize hseg : ([] : List Tok) = seg at h
  cases h with
  | nil => rfl
  | atom => cases hseg
  | node => cases hseg

/-! ### lengths -/

theorem length_of_drop {α : Type} {l : List α} {j : Nat} {seg : List α} (h : l.drop j = seg) (hne : seg ≠ []) :
    l.length = j + seg.length := by
  have := congrArg List.length h
  simp only [List.length_drop] at this
  have : seg.length ≠ 0 := by
    intro e; exact hne (List.eq_nil_of_length_eq_zero e)
  omega

theorem exists_getElem? {α : Type} {l : List α} {m : Nat} (h : m < l.length) : ∃ x, l[m]? = some x :=
  ⟨l[m], by simp [h]⟩

theorem mem_of_drop {α : Type} {l : List α} {j : Nat} {seg tail : List α} (h : l.drop j = seg ++ tail)
    {m : Nat} {x : α} (h1 : j ≤ m) (h2 : m < j + seg.length) (hx : l[m]? = some x) : x ∈ seg := by
  have := getElem?_of_drop h (m - j)
  have e : j + (m - j) = m := by omega
  rw [e, hx, List.getElem?_append_left (by omega)] at this
  exact List.mem_of_getElem? this.symm

/-! ### the range of a list: `__handle_blank_line` never fails inside it -/

/-- what `__handle_blank_line` needs of the token its scan stops on -/
def PPok (ts : List Tok) (t : Tok) : Prop :=
  t.isEndToken = true → ∃ k p f s', t.body = .end_ k p f ∧ ts[p]? = some s'

/-- the tokens `i … E` of the stream: a token that is no blank line at `i`, resolvable end tokens -/
structure Rng (ts : List Tok) (i E : Nat) : Prop where
  hE : E < ts.length
  hs : ∃ s, ts[i]? = some s ∧ s.isBlank = false
  hpp : ∀ m t, i ≤ m → m ≤ E → ts[m]? = some t → PPok ts t

theorem scanDownF_exists {α : Type} {l : List α} {p : α → Bool} :
    ∀ (b fuel a : Nat) (x : α), b < fuel → b < l.length → a ≤ b → l[a]? = some x → p x = true →
      ∃ a' x', a ≤ a' ∧ a' ≤ b ∧ l[a']? = some x' ∧ p x' = true ∧ scanDownF l p fuel (b : Int) = .ok (a' : Int) := by
  intro b
  induction b with
  | zero =>
    intro fuel a x hf _ hab hx hp
    obtain ⟨f, rfl⟩ : ∃ f, fuel = f + 1 := ⟨fuel - 1, by omega⟩
    have : a = 0 := by omega
    subst this
    refine ⟨0, x, by omega, by omega, hx, hp, ?_⟩
    simp only [scanDownF, pyGet_nat hx, hp, if_true]
  | succ b ih =>
    intro fuel a x hf hbl hab hx hp
    obtain ⟨f, rfl⟩ : ∃ f, fuel = f + 1 := ⟨fuel - 1, by omega⟩
    obtain ⟨y, hy⟩ := exists_getElem? hbl
    by_cases hpy : p y = true
    · refine ⟨b + 1, y, hab, by omega, hy, hpy, ?_⟩
      simp only [scanDownF, pyGet_nat hy, hpy, if_true]
    · have hne : a ≠ b + 1 := by
        intro e; subst e; rw [hx] at hy; simp only [Option.some.injEq] at hy; subst hy; exact hpy hp
      obtain ⟨a', x', h1, h2, h3, h4, h5⟩ := ih f a x (by omega) (by omega) (by omega) hx hp
      refine ⟨a', x', h1, by omega, h3, h4, ?_⟩
      have e : (((b + 1 : Nat) : Int) - 1) = ((b : Nat) : Int) := by omega
      simp only [Bool.not_eq_true] at hpy
      simp only [scanDownF, pyGet_nat hy, hpy, Bool.false_eq_true, if_false, e]
      exact h5

theorem scanDown_exists {α : Type} {l : List α} {p : α → Bool} {a b : Nat} {x : α} (hbl : b < l.length)
    (hab : a ≤ b) (hx : l[a]? = some x) (hp : p x = true) :
    ∃ a' x', a ≤ a' ∧ a' ≤ b ∧ l[a']? = some x' ∧ p x' = true ∧ scanDown l p (b : Int) = .ok (a' : Int) := by
  unfold scanDown
  exact scanDownF_exists b _ a x (by omega) hbl hab hx hp

theorem handleBlankLine_ok {ts : List Tok} {i E idx : Nat} (hR : Rng ts i E) (h1 : i + 2 ≤ idx) (h2 : idx ≤ E + 1)
    (cur : Tok) (sc : Int) :
    ∃ c, handleBlankLine ts cur sc idx = .ok c ∧ (sc ≠ 0 → c = false) := by
  obtain ⟨s, hs, hsb⟩ := hR.hs
  have e : (idx : Int) - 2 = ((idx - 2 : Nat) : Int) := by omega
  obtain ⟨a', q, g1, g2, g3, g4, g5⟩ :=
    scanDown_exists (p := fun t : Tok => !t.isBlank) (b := idx - 2) (by have := hR.hE; omega)
      (show i ≤ idx - 2 by omega) hs (by simp [hsb])
  have hpp := hR.hpp a' q g1 (by omega) g3
  unfold handleBlankLine
  rw [e, g5]
  simp only [bind, Except.bind, pyGet_nat g3]
  by_cases hq : q.isEndToken = true
  · obtain ⟨k, p, f, s', hb, hs'⟩ := hpp hq
    simp only [hq, if_true, hb, hs', pure, Except.pure]
    refine ⟨_, rfl, ?_⟩
    intro hsc
    have : (sc == 0) = false := by simpa using hsc
    simp [this]
  · simp only [hq, Bool.false_eq_true, if_false, pure, Except.pure]
    refine ⟨_, rfl, ?_⟩
    intro hsc
    have : (sc == 0) = false := by simpa using hsc
    simp [this]

end Verif.Lemmas.GfmLoose
