/-
  Helper lemmas for C19: well-formed trees, splitting of path strings, resolution of the
  strings the directory walk builds.
-/
import Verif.Model.FileScan
import Verif.Lemmas.FileScanBasic
namespace Verif.Lemmas.FileScan
open Verif.Model.FileScan

/-- A directory-entry name. -/
def ValidName (n : Str) : Prop := n ≠ [] ∧ '/' ∉ n ∧ n ≠ ['.'] ∧ n ≠ ['.', '.']

instance (n : Str) : Decidable (ValidName n) := by unfold ValidName; infer_instance

/-- The list of entries describes a file system: entry names are names, every proper
ancestor of an entry is an entry of kind directory, no path has two kinds. -/
def WF (t : Tree) : Prop :=
  (∀ e ∈ t, e.1 ≠ [] ∧ ∀ n ∈ e.1, ValidName n) ∧
  (∀ e ∈ t, ∀ k < e.1.length, 0 < k → (e.1.take k, Kind.dir) ∈ t) ∧
  (∀ e ∈ t, ∀ e' ∈ t, e.1 = e'.1 → e.2 = e'.2)

instance (t : Tree) : Decidable (WF t) := by unfold WF; infer_instance

theorem eq_dropLast_append_of_getLast? {α : Type} {l : List α} {a : α} (h : l.getLast? = some a) :
    l = l.dropLast ++ [a] := by
  obtain ⟨ys, rfl⟩ := List.getLast?_eq_some_iff.mp h
  simp

/-! ### kindAt -/

theorem lookupKind_mem : ∀ {t : Tree} {p : Path} {k : Kind}, lookupKind t p = some k → (p, k) ∈ t
  | [], _, _, h => by simp [lookupKind] at h
  | (q, k') :: t, p, k, h => by
    simp only [lookupKind] at h
    split at h
    · rename_i e; subst e; simp at h; subst h; simp
    · exact List.mem_cons_of_mem _ (lookupKind_mem h)

theorem lookupKind_of_mem : ∀ {t : Tree} {p : Path} {k : Kind}, (p, k) ∈ t →
    ∃ k', lookupKind t p = some k' ∧ (p, k') ∈ t
  | [], _, _, h => by simp at h
  | (q, k') :: t, p, k, h => by
    simp only [lookupKind]
    by_cases e : q = p
    · subst e; exact ⟨k', by simp, by simp⟩
    · simp only [e, if_false]
      rcases List.mem_cons.mp h with h' | h'
      · simp at h'; exact absurd h'.1.symm e
      · rcases lookupKind_of_mem h' with ⟨k'', h₁, h₂⟩
        exact ⟨k'', h₁, List.mem_cons_of_mem _ h₂⟩

theorem kindAt_mem {t : Tree} {p : Path} {k : Kind} (hp : p ≠ []) (h : kindAt t p = some k) :
    (p, k) ∈ t := by
  cases p with
  | nil => exact absurd rfl hp
  | cons c cs => exact lookupKind_mem (by simpa [kindAt] using h)

theorem kindAt_of_mem {t : Tree} (wf : WF t) {p : Path} {k : Kind} (h : (p, k) ∈ t) :
    kindAt t p = some k := by
  have hp : p ≠ [] := (wf.1 _ h).1
  cases p with
  | nil => exact absurd rfl hp
  | cons c cs =>
    rcases lookupKind_of_mem h with ⟨k', h₁, h₂⟩
    have : k' = k := wf.2.2 _ h₂ _ h rfl
    subst this
    simpa [kindAt] using h₁

/-- Ancestors of an entry are directories. -/
theorem kindAt_prefix_dir {t : Tree} (wf : WF t) {P rel : Path} {k : Kind}
    (h : (P ++ rel, k) ∈ t) (hrel : rel ≠ []) : kindAt t P = some .dir := by
  cases hP : P with
  | nil => rfl
  | cons c cs =>
    rw [← hP]
    have hlen : P.length < (P ++ rel).length := by
      have : 0 < rel.length := List.length_pos_iff.mpr hrel
      simp; omega
    have := wf.2.1 _ h P.length hlen (by simp [hP])
    simp at this
    exact kindAt_of_mem wf this

theorem validName_of_mem {t : Tree} (wf : WF t) {p : Path} {k : Kind} (h : (p, k) ∈ t) {n : Str}
    (hn : n ∈ p) : ValidName n := (wf.1 _ h).2 n hn

/-! ### splitOn -/

theorem splitFirst_append_sep (sep : Char) (b : Str) : ∀ a : Str,
    splitFirst sep (a ++ sep :: b) = ((splitFirst sep a).1, (splitFirst sep a).2 ++ splitOn sep b)
  | [] => by simp [splitFirst, splitOn]
  | c :: cs => by
    simp only [List.cons_append, splitFirst, splitFirst_append_sep sep b cs]
    split <;> simp

theorem splitOn_append_sep (sep : Char) (a b : Str) :
    splitOn sep (a ++ sep :: b) = splitOn sep a ++ splitOn sep b := by
  simp [splitOn, splitFirst_append_sep]

theorem splitFirst_noSep (sep : Char) : ∀ {n : Str}, sep ∉ n → splitFirst sep n = (n, [])
  | [], _ => rfl
  | c :: cs, h => by
    have hc : c ≠ sep := fun e => h (by simp [e])
    have hcs : sep ∉ cs := fun m => h (List.mem_cons_of_mem _ m)
    simp [splitFirst, hc, splitFirst_noSep sep hcs]

theorem splitOn_noSep (sep : Char) {n : Str} (h : sep ∉ n) : splitOn sep n = [n] := by
  simp [splitOn, splitFirst_noSep sep h]

/-! ### resolution -/

/-- Resolution of a component list from a starting point. -/
def resC (t : Tree) (comps : List Str) (start : Option Path) : Option Path :=
  comps.foldl (resStep t) start

/-- Resolution of a string without the guards for the empty and absolute path. -/
def resS (t : Tree) (s : Str) : Option Path := resC t (splitOn '/' s) (some [])

/-- A non-empty relative path string. -/
def Rel (s : Str) : Prop := s ≠ [] ∧ s.head? ≠ some '/'

theorem resolve_eq_resS {t : Tree} {s : Str} (h : Rel s) : resolve t s = resS t s := by
  cases s with
  | nil => exact absurd rfl h.1
  | cons c cs =>
    have hc : c ≠ '/' := by simpa using h.2
    simp only [resolve, resS, resC]
    split
    · rename_i heq; cases heq
    · rename_i heq; cases heq; exact absurd rfl hc
    · rfl

theorem rel_of_resolve {t : Tree} {s : Str} {P : Path} (h : resolve t s = some P) : Rel s := by
  cases s with
  | nil => simp [resolve] at h
  | cons c cs =>
    refine ⟨by simp, ?_⟩
    intro e
    simp at e; subst e
    simp [resolve] at h

theorem resStep_name {t : Tree} {p : Path} {c : Str} (hv : ValidName c)
    (hd : kindAt t p = some .dir) (he : (kindAt t (p ++ [c])).isSome = true) :
    resStep t (some p) c = some (p ++ [c]) := by
  obtain ⟨h1, _, h3, h4⟩ := hv
  simp [resStep, hd, h1, h3, h4, he]

theorem resStep_empty_some {t : Tree} {cur : Option Path} {P : Path}
    (h : resStep t cur [] = some P) : cur = some P := by
  cases cur with
  | none => simp [resStep] at h
  | some p =>
    simp only [resStep] at h
    split at h
    · cases h
    · simpa using h

theorem resS_append_sep (t : Tree) (a b : Str) :
    resS t (a ++ '/' :: b) = resC t (splitOn '/' b) (resS t a) := by
  simp [resS, resC, splitOn_append_sep, List.foldl_append]

/-- `os.path.join(top, d)` for a name `d` resolves one step below `top`. -/
theorem resS_pjoin {t : Tree} {top d : Str} {P : Path} (hr : Rel top) (hres : resS t top = some P)
    (hv : ValidName d) (hd : kindAt t P = some .dir) (he : (kindAt t (P ++ [d])).isSome = true) :
    Rel (pjoin top d) ∧ resS t (pjoin top d) = some (P ++ [d]) := by
  have hdh : d.head? ≠ some '/' := by
    intro e
    cases d with
    | nil => simp at e
    | cons c cs => simp at e; subst e; exact hv.2.1 (by simp)
  have htop : top ≠ [] := hr.1
  simp only [pjoin, hdh, if_false, htop, false_or]
  by_cases hl : top.getLast? = some '/'
  · simp only [hl, if_true]
    -- top = top' ++ "/"
    have htop' : top = top.dropLast ++ ['/'] := eq_dropLast_append_of_getLast? hl
    have hres' : resS t top.dropLast = some P := by
      rw [htop', resS_append_sep] at hres
      simp only [splitOn, splitFirst, resC, List.foldl_cons, List.foldl_nil] at hres
      exact resStep_empty_some hres
    refine ⟨⟨by simp [htop], ?_⟩, ?_⟩
    · cases top with
      | nil => exact absurd rfl htop
      | cons c cs => simpa using hr.2
    · have : top ++ d = top.dropLast ++ '/' :: d := by
        conv => lhs; rw [htop']
        simp
      rw [this, resS_append_sep, hres', splitOn_noSep '/' hv.2.1]
      simp [resC, resStep_name hv hd he]
  · simp only [hl, if_false]
    refine ⟨⟨by simp [htop], ?_⟩, ?_⟩
    · cases top with
      | nil => exact absurd rfl htop
      | cons c cs => simpa using hr.2
    · rw [resS_append_sep, hres, splitOn_noSep '/' hv.2.1]
      simp [resC, resStep_name hv hd he]

/-- The string `os.walk` builds for the chain of names `ns` below `top`. -/
theorem resS_walkRoot {t : Tree} : ∀ (ns : List Str) {top : Str} {P : Path}, Rel top →
    resS t top = some P → (∀ n ∈ ns, ValidName n) →
    (∀ k < ns.length, kindAt t (P ++ ns.take k) = some .dir) →
    (kindAt t (P ++ ns)).isSome = true →
    Rel (walkRoot top ns) ∧ resS t (walkRoot top ns) = some (P ++ ns)
  | [], top, P, hr, hres, _, _, _ => by simpa [walkRoot] using ⟨hr, hres⟩
  | d :: ds, top, P, hr, hres, hv, hdirs, hlast => by
    have hP : kindAt t P = some .dir := by simpa using hdirs 0 (by simp)
    have hPd : (kindAt t (P ++ [d])).isSome = true := by
      cases ds with
      | nil => simpa using hlast
      | cons d' ds' =>
        have := hdirs 1 (by simp)
        simp at this
        simp [this]
    obtain ⟨hr', hres'⟩ := resS_pjoin hr hres (hv d (by simp)) hP hPd
    have := resS_walkRoot ds (top := pjoin top d) (P := P ++ [d]) hr' hres'
      (fun n hn => hv n (List.mem_cons_of_mem _ hn))
      (fun k hk => by
        have := hdirs (k + 1) (by simpa using hk)
        simpa using this)
      (by simpa using hlast)
    simpa [walkRoot] using this

theorem stripOneSep_slash_eq_pjoin {r f : Str} (hr : r ≠ []) (hf : f.head? ≠ some '/') :
    stripOneSep r ++ '/' :: f = pjoin r f := by
  simp only [stripOneSep, pjoin, hf, if_false, hr, false_or]
  by_cases hl : r.getLast? = some '/'
  · simp only [hl, if_true]
    have := eq_dropLast_append_of_getLast? hl
    conv => rhs; rw [this]
    simp
  · simp [hl]

theorem validName_head {n : Str} (hv : ValidName n) : n.head? ≠ some '/' := by
  intro e
  cases n with
  | nil => simp at e
  | cons c cs => simp at e; subst e; exact hv.2.1 (by simp)

/-- **The string the directory walk reports for a file resolves to that file.** -/
theorem resolve_walk {t : Tree} (wf : WF t) {top : Str} {P dirs : Path} {f : Str}
    (hres : resolve t top = some P) (hmem : (P ++ dirs ++ [f], Kind.file) ∈ t) :
    resolve t (stripOneSep (walkRoot top dirs) ++ '/' :: f) = some (P ++ dirs ++ [f]) := by
  have hr := rel_of_resolve hres
  have hres' : resS t top = some P := by rw [← resolve_eq_resS hr]; exact hres
  have hvalid : ∀ n ∈ dirs ++ [f], ValidName n := fun n hn =>
    validName_of_mem wf hmem (by
      rw [List.append_assoc]; exact List.mem_append_right _ hn)
  have hchain : ∀ k < (dirs ++ [f]).length, kindAt t (P ++ (dirs ++ [f]).take k) = some .dir := by
    intro k hk
    have hsplit : P ++ dirs ++ [f] = (P ++ (dirs ++ [f]).take k) ++ (dirs ++ [f]).drop k := by
      rw [List.append_assoc, List.append_assoc, List.take_append_drop]
    rw [hsplit] at hmem
    refine kindAt_prefix_dir wf hmem ?_
    intro e
    have := congrArg List.length e
    simp at this hk
    omega
  have hlast : (kindAt t (P ++ (dirs ++ [f]))).isSome = true := by
    rw [← List.append_assoc, kindAt_of_mem wf hmem]; rfl
  obtain ⟨hrel, hfin⟩ := resS_walkRoot (dirs ++ [f]) hr hres' hvalid hchain hlast
  have hroot : walkRoot top dirs ≠ [] := by
    have hchain' : ∀ k < dirs.length, kindAt t (P ++ dirs.take k) = some .dir := by
      intro k hk
      have := hchain k (by simp; omega)
      rwa [List.take_append_of_le_length (by omega)] at this
    have hl' : (kindAt t (P ++ dirs)).isSome = true := by
      have := hchain dirs.length (by simp)
      simp at this
      simp [this]
    exact (resS_walkRoot dirs hr hres' (fun n hn => hvalid n (List.mem_append_left _ hn)) hchain' hl').1.1
  have hf : ValidName f := hvalid f (by simp)
  rw [stripOneSep_slash_eq_pjoin hroot (validName_head hf)]
  have : pjoin (walkRoot top dirs) f = walkRoot top (dirs ++ [f]) := by
    simp [walkRoot, List.foldl_append]
  rw [this, resolve_eq_resS hrel, hfin, List.append_assoc]

end Verif.Lemmas.FileScan
