import Verif.Model.Coalesce
import Verif.Lemmas.Recognisers
/-
  Lemmas about the coalesce model (Verif/Model/Coalesce.lean).  Property statements are in Verif/Props/Coalesce.lean.
-/
namespace Verif.Lemmas.Coalesce
open Verif.Model.Coalesce
open Verif.Model.Recognisers (Str cbwLoop charAt asciiWs collectBackwardsOneOf slice charAt_lt cbwLoop_ok)

/-! ## the backward white-space scan -/

theorem cbwVerified_eq (s : Str) :
    ∃ j, j ≤ s.length ∧ cbwLoop s asciiWs s.length = .ok j ∧ cbwVerified s = .ok (s.length - j, j) := by
  obtain ⟨j, hj, hle⟩ := cbwLoop_ok s asciiWs s.length (Nat.le_refl _)
  refine ⟨j, hle, hj, ?_⟩
  unfold cbwVerified collectBackwardsOneOf
  have h1 : ((-1 : Int) ≤ -1 ∧ (-1 : Int) ≤ (s.length : Int)) := by omega
  simp only [h1, and_self, ↓reduceIte, hj]

/-- the index the scan stops at -/
def tidx (s : Str) : Nat :=
  match cbwLoop s asciiWs s.length with
  | .ok j => j
  | .error _ => s.length

theorem tidx_le (s : Str) : tidx s ≤ s.length := by
  obtain ⟨j, hle, hj, _⟩ := cbwVerified_eq s
  unfold tidx; rw [hj]; exact hle

theorem cbwVerified_tidx (s : Str) : cbwVerified s = .ok (s.length - tidx s, tidx s) := by
  obtain ⟨j, _, hj, hv⟩ := cbwVerified_eq s
  unfold tidx; rw [hj]; exact hv

theorem rstrip_eq (s : Str) : rstrip s = s.take (tidx s) := by
  unfold rstrip; rw [cbwVerified_tidx]

theorem cbwLoop_take (s cs : Str) (e j : Nat) (he : e ≤ s.length) (h : cbwLoop s cs e = .ok j) :
    cbwLoop (s.take j) cs j = .ok j := by
  induction e with
  | zero =>
    unfold cbwLoop at h
    cases h
    rfl
  | succ e ih =>
    unfold cbwLoop at h
    rw [charAt_lt (by omega)] at h
    simp only at h
    split at h
    · exact ih (by omega) h
    · next hc =>
      cases h
      unfold cbwLoop
      have hl : e < (s.take (e + 1)).length := by simp; omega
      rw [charAt_lt hl]
      simp only [List.getElem_take, hc]
      rfl

theorem tidx_take (s : Str) : tidx (s.take (tidx s)) = tidx s := by
  obtain ⟨j, hle, hj, _⟩ := cbwVerified_eq s
  have ht : tidx s = j := by unfold tidx; rw [hj]
  have := cbwLoop_take s asciiWs s.length j (Nat.le_refl _) hj
  rw [ht]
  unfold tidx
  have hl : (s.take j).length = j := by simp; omega
  rw [hl, this]

theorem rstrip_idem (s : Str) : rstrip (rstrip s) = rstrip s := by
  rw [rstrip_eq, rstrip_eq, tidx_take, List.take_take, Nat.min_self]

/-- everything from the stop index on is white space -/
theorem cbwLoop_all (s cs : Str) (e j : Nat) (he : e ≤ s.length) (h : cbwLoop s cs e = .ok j) :
    ∀ i, j ≤ i → (hi : i < e) → cs.contains (s[i]'(by omega)) = true := by
  induction e with
  | zero => intro i _ hi; omega
  | succ e ih =>
    unfold cbwLoop at h
    rw [charAt_lt (by omega)] at h
    simp only at h
    split at h
    · next hc =>
      intro i hji hi
      by_cases hie : i = e
      · subst hie; exact hc
      · exact ih (by omega) h i hji (by omega)
    · cases h
      intro i hji hi; omega

def allWs (s : Str) : Bool := s.all asciiWs.contains

theorem tidx_zero_allWs (s : Str) (h : tidx s = 0) : allWs s = true := by
  obtain ⟨j, hle, hj, _⟩ := cbwVerified_eq s
  have ht : tidx s = j := by unfold tidx; rw [hj]
  rw [ht] at h; subst h
  have := cbwLoop_all s asciiWs s.length 0 (Nat.le_refl _) hj
  unfold allWs
  rw [List.all_eq_true]
  intro c hc
  obtain ⟨i, hi, rfl⟩ := List.getElem_of_mem hc
  exact this i (Nat.zero_le _) hi

theorem allWs_append (a b : Str) : allWs (a ++ b) = (allWs a && allWs b) := by
  unfold allWs; exact List.all_append

theorem slice_tail (s : Str) (j : Nat) (h : j ≤ s.length) : slice s j (j + (s.length - j)) = s.drop j := by
  unfold slice
  have : j + (s.length - j) = s.length := by omega
  rw [this, List.take_length]

/-! ## totality -/

/-- "returns normally" -/
def Returns {α : Type} (x : Except Err α) : Prop := ∃ r, x = .ok r

theorem removeFinalWs_total (x : Text) : Returns (removeFinalWs x) := by
  unfold removeFinalWs
  rw [cbwVerified_tidx]
  simp only
  split
  · split
    · rw [cbwVerified_tidx]; exact ⟨_, rfl⟩
    · exact ⟨_, rfl⟩
  · exact ⟨_, rfl⟩

theorem calcFinal_total (l : List Tok) : Returns (calcFinal l) := by
  fun_induction calcFinal l with
  | case1 => exact ⟨_, rfl⟩
  | case2 p x rest hp e he => obtain ⟨r, hr⟩ := removeFinalWs_total x; rw [hr] at he; cases he
  | case3 p x rest hp x' removed hx e he ih => obtain ⟨r, hr⟩ := ih; rw [hr] at he; cases he
  | case4 => exact ⟨_, rfl⟩
  | case5 p x rest hp e he ih => obtain ⟨r, hr⟩ := ih; rw [hr] at he; cases he
  | case6 => exact ⟨_, rfl⟩
  | case7 p rest hn e he ih => obtain ⟨r, hr⟩ := ih; rw [hr] at he; cases he
  | case8 => exact ⟨_, rfl⟩

/-! ## the merge loop never fails once `coalesced_list` has two elements or starts with a non-text token -/

/-- neither a text token nor a blank line -/
def hard (t : Tok) : Bool := !t.isText && !t.isBlank

/-- the one shape on which `coalesced_list[-2]` does not exist: a text token first, a text / blank-line token second -/
def headOK : List Tok → Bool
  | .text _ :: t :: _ => hard t
  | _ => true

def Safe (acc : List Tok) : Prop := 2 ≤ acc.length ∨ ∃ q, acc = [q] ∧ q.isText = false

theorem combine_ok (x : Text) (t : Tok) (rls : Int) (h : t.isText = true ∨ t.isBlank = true) :
    ∃ r, combine x t rls = .ok r := by
  cases t <;> simp [Tok.isText, Tok.isBlank] at h <;> exact ⟨_, rfl⟩

theorem step_false_ok (acc : List Tok) (t : Tok) (h : Safe acc) :
    ∃ acc', step false acc t = .ok acc' ∧ 2 ≤ acc'.length := by
  rcases acc with _ | ⟨last, below⟩
  · rcases h with h | ⟨q, h, _⟩ <;> simp at h
  · cases last with
    | text x =>
      rcases below with _ | ⟨hd, rest⟩
      · rcases h with h | ⟨q, h, hq⟩
        · simp at h
        · simp at h; subst h; simp [Tok.isText] at hq
      · unfold step
        simp only
        split
        · exact ⟨_, rfl, by simp⟩
        · split
          · exact ⟨_, rfl, by simp⟩
          · next h1 h2 =>
            have ht : t.isText = true ∨ t.isBlank = true := by
              cases ht : t.isText <;> cases hb : t.isBlank <;> simp [ht, hb] at h1 ⊢
            obtain ⟨r, hr⟩ := combine_ok x t (rlsOf hd) ht
            simp only [Bool.false_eq_true, ↓reduceIte, hr]
            exact ⟨_, rfl, by simp⟩
    | blank _ _ _ | para _ _ | setext _ _ | icode _ _ _ | fcode _ | other _ =>
      unfold step
      simp only [Bool.not_false, ↓reduceIte]
      split
      · split
        · exact ⟨_, rfl, by simp⟩
        · exact ⟨_, rfl, by simp⟩
      · exact ⟨_, rfl, by simp⟩

theorem loop_false_ok (acc rest : List Tok) (h : Safe acc) : ∃ out, loop false acc rest = .ok out := by
  induction rest generalizing acc with
  | nil => exact ⟨_, rfl⟩
  | cons t rest ih =>
    obtain ⟨acc', hs, hl⟩ := step_false_ok acc t h
    unfold loop
    rw [hs]
    exact ih acc' (Or.inl hl)

theorem merge_false_ok (ts : List Tok) (hne : ts ≠ []) (hh : headOK ts = true) : ∃ out, merge false ts = .ok out := by
  rcases ts with _ | ⟨t0, rest⟩
  · exact absurd rfl hne
  · unfold merge
    simp only
    suffices h : ∃ out, loop false [t0] rest = .ok out by
      obtain ⟨out, ho⟩ := h; rw [ho]; exact ⟨_, rfl⟩
    cases ht : t0.isText with
    | false => exact loop_false_ok _ _ (Or.inr ⟨t0, rfl, ht⟩)
    | true =>
      cases t0 <;> simp [Tok.isText] at ht
      rename_i x
      rcases rest with _ | ⟨t1, rest⟩
      · exact ⟨_, rfl⟩
      · simp only [headOK, hard, Bool.and_eq_true, Bool.not_eq_eq_eq_not, Bool.not_true] at hh
        unfold loop step
        simp only [hh.1, hh.2, Bool.not_false, Bool.and_self, ↓reduceIte]
        exact loop_false_ok _ _ (Or.inl (by simp))

theorem merge_false_err (ts : List Tok) (h : ts = [] ∨ headOK ts = false) : merge false ts = .error .index := by
  rcases h with h | h
  · subst h; rfl
  · rcases ts with _ | ⟨t0, rest⟩
    · rfl
    · cases t0 with
      | text x =>
        rcases rest with _ | ⟨t1, rest⟩
        · simp [headOK] at h
        · simp only [headOK, hard] at h
          unfold merge loop step
          cases ht : t1.isText <;> cases hb : t1.isBlank <;> simp [ht, hb] at h ⊢
      | _ => simp [headOK] at h

theorem coalesce_false_ok (ts : List Tok) (hne : ts ≠ []) (hh : headOK ts = true) : ∃ out, coalesce false ts = .ok out := by
  obtain ⟨l, hl⟩ := merge_false_ok ts hne hh
  obtain ⟨r, hr⟩ := calcFinal_total l
  exact ⟨r, by unfold coalesce; rw [hl]; simpa using hr⟩

theorem coalesce_false_err (ts : List Tok) (h : ts = [] ∨ headOK ts = false) : coalesce false ts = .error .index := by
  unfold coalesce; rw [merge_false_err ts h]

/-! ## normal form: what the merge loop leaves behind -/

/-- may `t` stand on top of the reversed list `below` without the loop touching it? -/
def okTop (only : Bool) (t : Tok) (below : List Tok) : Bool :=
  match below with
  | [] => true
  | last :: rest =>
    if last.isText then
      match rest with
      | [] => hard t
      | h :: _ => !t.isText && !(t.isBlank && h.isCode)
    else only || !(t.isBlank && last.isCode)

def normR (only : Bool) : List Tok → Bool
  | [] => true
  | t :: below => okTop only t below && normR only below

@[simp] theorem isText_text (x : Text) : (Tok.text x).isText = true := rfl
@[simp] theorem isBlank_text (x : Text) : (Tok.text x).isBlank = false := rfl
@[simp] theorem isCode_text (x : Text) : (Tok.text x).isCode = false := rfl
@[simp] theorem hard_text (x : Text) : hard (Tok.text x) = false := rfl
@[simp] theorem isText_blankAsText (ew : Str) (l c : Nat) : (blankAsText ew l c).isText = true := rfl
@[simp] theorem isBlank_blankAsText (ew : Str) (l c : Nat) : (blankAsText ew l c).isBlank = false := rfl
@[simp] theorem isBlank_blank (ew : Str) (l c : Nat) : (Tok.blank ew l c).isBlank = true := rfl
@[simp] theorem isText_blank (ew : Str) (l c : Nat) : (Tok.blank ew l c).isText = false := rfl

theorem normR_suffix (only : Bool) (p q : List Tok) (h : normR only (p ++ q) = true) : normR only q = true := by
  induction p with
  | nil => exact h
  | cons a p ih =>
    simp only [List.cons_append, normR, Bool.and_eq_true] at h
    exact ih h.2

theorem addIndented_isText (h : Tok) (r : Str) : (addIndented h r).isText = h.isText := by cases h <;> rfl
theorem addIndented_isCode (h : Tok) (r : Str) : (addIndented h r).isCode = h.isCode := by cases h <;> rfl
theorem addIndented_isBlank (h : Tok) (r : Str) : (addIndented h r).isBlank = h.isBlank := by cases h <;> rfl

theorem okTop_hd_congr (only : Bool) (t t' : Tok) (l : List Tok) (h1 : t'.isText = t.isText) (h2 : t'.isBlank = t.isBlank) :
    okTop only t' l = okTop only t l := by
  unfold okTop hard
  rw [h1, h2]

theorem step_nonempty (only : Bool) (acc acc' : List Tok) (t : Tok) (h : step only acc t = .ok acc') : acc' ≠ [] := by
  unfold step at h
  repeat' split at h
  all_goals first | (cases h; done) | (cases h; simp)

/-- `step` when `coalesced_list[-1]` is not a text token -/
def stepNT (only : Bool) (last : Tok) (below : List Tok) (t : Tok) : Except Err (List Tok) :=
  if !only then
    match t with
    | .blank ew l c => if last.isCode then .ok (blankAsText ew l c :: last :: below) else .ok (t :: last :: below)
    | _ => .ok (t :: last :: below)
  else .ok (t :: last :: below)

theorem step_nontext (only : Bool) (last : Tok) (below : List Tok) (t : Tok) (hl : last.isText = false) :
    step only (last :: below) t = stepNT only last below t := by
  cases last with
  | text x => simp at hl
  | _ => rfl

theorem step_norm (only : Bool) (acc acc' : List Tok) (t : Tok) (hn : normR only acc = true)
    (h : step only acc t = .ok acc') : normR only acc' = true := by
  rcases acc with _ | ⟨last, below⟩
  · simp [step] at h
  · cases hl : last.isText with
    | true =>
      cases last <;> simp [Tok.isText] at hl
      rename_i x
      unfold step at h
      simp only at h
      split at h
      · next h1 =>
        cases h
        simp only [Bool.and_eq_true, Bool.not_eq_eq_eq_not, Bool.not_true] at h1
        rw [normR, Bool.and_eq_true]
        refine ⟨?_, hn⟩
        unfold okTop hard
        cases below <;> simp [h1.1, h1.2]
      · rcases below with _ | ⟨hd, rest⟩
        · simp at h
        · simp only at h
          split at h
          · next h1 h2 =>
            cases h
            simp only [Bool.and_eq_true, Bool.not_eq_eq_eq_not, Bool.not_true] at h2
            rw [normR, Bool.and_eq_true]
            refine ⟨?_, hn⟩
            unfold okTop
            simp [h2.1, h2.2]
          · split at h
            · cases h
            · next x' removed _ =>
              cases h
              simp only [normR, Bool.and_eq_true] at hn ⊢
              obtain ⟨h1, h2, h3⟩ := hn
              have e1 : (if hd.isIcode = true then addIndented hd removed else hd).isText = hd.isText := by
                split
                · exact addIndented_isText _ _
                · rfl
              have e2 : (if hd.isIcode = true then addIndented hd removed else hd).isBlank = hd.isBlank := by
                split
                · exact addIndented_isBlank _ _
                · rfl
              have e3 : (if hd.isIcode = true then addIndented hd removed else hd).isCode = hd.isCode := by
                split
                · exact addIndented_isCode _ _
                · rfl
              refine ⟨?_, ?_, h3⟩
              · unfold okTop at h1 ⊢
                simp only [e1, e3] at h1 ⊢
                simpa using h1
              · rw [okTop_hd_congr only hd _ rest e1 e2]; exact h2
    | false =>
      have hs := step_nontext only last below t hl
      unfold stepNT at hs
      rw [hs] at h
      cases only with
      | true =>
        simp only [Bool.not_true, Bool.false_eq_true, ↓reduceIte, Except.ok.injEq] at h
        subst h
        rw [normR, Bool.and_eq_true]
        exact ⟨by unfold okTop; simp [hl], hn⟩
      | false =>
        simp only [Bool.not_false, ↓reduceIte] at h
        split at h
        · split at h
          · next hc =>
            cases h
            rw [normR, Bool.and_eq_true]
            exact ⟨by unfold okTop; simp [hl], hn⟩
          · next hc =>
            cases h
            rw [normR, Bool.and_eq_true]
            exact ⟨by unfold okTop; simp [hl, hc], hn⟩
        · next hnb =>
          cases h
          rw [normR, Bool.and_eq_true]
          refine ⟨?_, hn⟩
          unfold okTop
          simp only [hl, Bool.false_eq_true, ↓reduceIte, Bool.false_or, Bool.not_eq_eq_eq_not, Bool.not_true, Bool.and_eq_false_imp]
          intro hb
          cases t <;> simp [Tok.isBlank] at hb
          exact absurd rfl (hnb _ _ _)

theorem loop_norm (only : Bool) (acc rest out : List Tok) (hn : normR only acc = true) (hne : acc ≠ [])
    (h : loop only acc rest = .ok out) : normR only out = true ∧ out ≠ [] := by
  induction rest generalizing acc with
  | nil => unfold loop at h; cases h; exact ⟨hn, hne⟩
  | cons t rest ih =>
    unfold loop at h
    split at h
    · cases h
    · next acc' hs => exact ih acc' (step_norm only acc acc' t hn hs) (step_nonempty only acc acc' t hs) h

theorem merge_norm (only : Bool) (ts out : List Tok) (h : merge only ts = .ok out) :
    normR only out.reverse = true ∧ out ≠ [] := by
  unfold merge at h
  split at h
  · cases h
  · next t0 rest =>
    split at h
    · cases h
    · next acc hl =>
      cases h
      have := loop_norm only [t0] rest acc (by simp [normR, okTop]) (by simp) hl
      simpa using this

/-- a token the loop appends unchanged -/
theorem okTop_step (only : Bool) (acc : List Tok) (t : Tok) (hne : acc ≠ []) (h : okTop only t acc = true) :
    step only acc t = .ok (t :: acc) := by
  rcases acc with _ | ⟨last, below⟩
  · exact absurd rfl hne
  · cases hl : last.isText with
    | true =>
      cases last <;> simp [Tok.isText] at hl
      rename_i x
      unfold okTop at h
      simp only [isText_text, ↓reduceIte] at h
      rcases below with _ | ⟨hd, rest⟩
      · simp only [hard, Bool.and_eq_true, Bool.not_eq_eq_eq_not, Bool.not_true] at h
        unfold step
        simp [h.1, h.2]
      · simp only [Bool.and_eq_true, Bool.not_eq_eq_eq_not, Bool.not_true, Bool.and_eq_false_imp] at h
        unfold step
        simp only [h.1, Bool.not_false, Bool.true_and]
        cases hb : t.isBlank with
        | false => simp
        | true => simp [h.2 hb]
    | false =>
      unfold okTop at h
      simp only [hl, Bool.false_eq_true, ↓reduceIte, Bool.or_eq_true, Bool.not_eq_eq_eq_not, Bool.not_true,
        Bool.and_eq_false_imp] at h
      have hs := step_nontext only last below t hl
      unfold stepNT at hs
      rw [hs]
      cases only with
      | true => rfl
      | false =>
        simp only [Bool.not_false, ↓reduceIte]
        split
        · next ew l c =>
          have := h.resolve_left (by simp) (by simp [Tok.isBlank])
          simp [this]
        · rfl

theorem loop_id (only : Bool) (acc rest : List Tok) (hne : acc ≠ []) (hn : normR only (rest.reverse ++ acc) = true) :
    loop only acc rest = .ok (rest.reverse ++ acc) := by
  induction rest generalizing acc with
  | nil => rfl
  | cons t rest ih =>
    have hn' : normR only (rest.reverse ++ t :: acc) = true := by simpa using hn
    have h1 := normR_suffix only _ _ hn'
    simp only [normR, Bool.and_eq_true] at h1
    unfold loop
    rw [okTop_step only acc t hne h1.1]
    simp only
    rw [ih (t :: acc) (by simp) hn']
    simp

/-- on a list in normal form the merge loop is the identity -/
theorem merge_id (only : Bool) (l : List Tok) (hne : l ≠ []) (hn : normR only l.reverse = true) : merge only l = .ok l := by
  rcases l with _ | ⟨t0, rest⟩
  · exact absurd rfl hne
  · unfold merge
    simp only
    rw [loop_id only [t0] rest (by simp) (by simpa using hn)]
    simp

theorem merge_idem (only : Bool) (ts l : List Tok) (h : merge only ts = .ok l) : merge only l = .ok l := by
  obtain ⟨hn, hne⟩ := merge_norm only ts l h
  exact merge_id only l hne hn

/-! ## the flattening is invariant under the merge loop -/

/-- `flat` with the finished segments and the open state made explicit -/
def frun (p : List Seg) (s : FSt) : List Tok → List Seg × FSt
  | [] => (p, s)
  | t :: rest => if isLine s.hdr t then frun p (extend s t) rest else frun (p ++ [close s]) (openSeg t) rest

theorem flat_frun (p : List Seg) (s : FSt) (l : List Tok) :
    p ++ flat s l = (frun p s l).1 ++ [close (frun p s l).2] := by
  induction l generalizing p s with
  | nil => rfl
  | cons t rest ih =>
    unfold flat frun
    split
    · exact ih p (extend s t)
    · rw [← ih (p ++ [close s]) (openSeg t)]; simp

theorem frun_append (p : List Seg) (s : FSt) (a b : List Tok) :
    frun p s (a ++ b) = frun (frun p s a).1 (frun p s a).2 b := by
  induction a generalizing p s with
  | nil => rfl
  | cons t rest ih =>
    simp only [List.cons_append, frun]
    split
    · exact ih p (extend s t)
    · exact ih _ _

/-- the state after the (reversed) list `acc` -/
def R (acc : List Tok) : List Seg × FSt := frun [] FSt.init acc.reverse

def fstep (r : List Seg × FSt) (t : Tok) : List Seg × FSt :=
  if isLine r.2.hdr t then (r.1, extend r.2 t) else (r.1 ++ [close r.2], openSeg t)

theorem R_cons (t : Tok) (acc : List Tok) : R (t :: acc) = fstep (R acc) t := by
  unfold R fstep
  rw [List.reverse_cons, frun_append]
  simp only [frun]

theorem flatten_R (acc rest : List Tok) : flatten (acc.reverse ++ rest) = (R acc).1 ++ flat (R acc).2 rest := by
  unfold flatten R
  have h1 := flat_frun [] FSt.init (acc.reverse ++ rest)
  have h2 := flat_frun (frun [] FSt.init acc.reverse).1 (frun [] FSt.init acc.reverse).2 rest
  rw [frun_append] at h1
  rw [List.nil_append] at h1
  rw [h1, h2]

theorem extend_hdr (s : FSt) (t : Tok) : (extend s t).hdr = s.hdr := by
  unfold extend
  split
  · rfl
  · simp only; split <;> rfl

theorem erase_isCode (h : Tok) : (erase h).isCode = h.isCode := by cases h <;> rfl
theorem erase_isIcode (h : Tok) : (erase h).isIcode = h.isIcode := by cases h <;> rfl
theorem erase_isPara (h : Tok) : (erase h).isPara = h.isPara := by cases h <;> rfl
theorem erase_rls (h : Tok) : rlsOf (erase h) = rlsOf h := by cases h <;> rfl

/-- the open state is determined by the top of a list in normal form -/
def topState : List Tok → FSt
  | [] => FSt.init
  | last :: below =>
    if last.isText then
      match below with
      | [] => extend FSt.init last
      | h :: _ => extend (openSeg h) last
    else openSeg last

theorem topState_notLine (t : Tok) (below : List Tok) (hn : okTop false t below = true) (ht : t.isText = false) :
    isLine (topState below).hdr t = false := by
  unfold isLine
  simp only [ht, Bool.false_or, Bool.and_eq_false_imp]
  intro hb
  unfold okTop at hn
  rcases below with _ | ⟨last, rest⟩
  · rfl
  · simp only [topState]
    cases hl : last.isText with
    | true =>
      simp only [hl, ↓reduceIte] at hn ⊢
      rcases rest with _ | ⟨h, rest'⟩
      · simp only [extend_hdr]; rfl
      · simp only [extend_hdr, openSeg, hdrIsCode, erase_isCode]
        simpa [ht, hb] using hn
    | false =>
      simp only [hl, Bool.false_eq_true, ↓reduceIte, Bool.false_or] at hn ⊢
      simp only [openSeg, hdrIsCode, erase_isCode]
      simpa [hb] using hn

theorem R_topState (acc : List Tok) (hn : normR false acc = true) : (R acc).2 = topState acc := by
  induction acc with
  | nil => rfl
  | cons t below ih =>
    rw [normR, Bool.and_eq_true] at hn
    have ih := ih hn.2
    rw [R_cons]
    unfold fstep
    cases ht : t.isText with
    | true =>
      have hl : isLine (R below).2.hdr t = true := by unfold isLine; simp [ht]
      rw [if_pos hl]
      show extend (R below).2 t = topState (t :: below)
      rw [ih]
      rcases below with _ | ⟨h, rest⟩
      · simp [topState, ht]
      · have h1 := hn.1
        unfold okTop at h1
        have hh : h.isText = false := by
          cases hh : h.isText with
          | false => rfl
          | true => simp only [hh, ↓reduceIte] at h1; rcases rest with _ | _ <;> simp [hard, ht] at h1
        simp [topState, ht, hh]
    | false =>
      rw [ih, topState_notLine t below hn.1 ht]
      simp [topState, ht]

theorem orElse_some_ne (s d : Str) (h : s ≠ []) : orElse (some s) d = s := by
  cases s with
  | nil => exact absurd rfl h
  | cons c cs => rfl

theorem orElse_falsy (o : Option Str) (d : Str) (h : truthy o = false) : orElse o d = d := by
  rcases o with _ | (_ | ⟨c, cs⟩)
  · rfl
  · rfl
  · simp [truthy] at h

theorem pri_combine (xtab tabTo : Option Str) (xtt m textTo : Str) :
    orElse (if truthy xtab || truthy tabTo then some (orElse xtab xtt ++ NL :: (m ++ orElse tabTo textTo)) else xtab)
        (xtt ++ NL :: (m ++ textTo)) =
      orElse xtab xtt ++ NL :: (m ++ orElse tabTo textTo) := by
  cases h : (truthy xtab || truthy tabTo) with
  | true =>
    simp only [↓reduceIte]
    exact orElse_some_ne _ _ (List.append_ne_nil_of_right_ne_nil _ (List.cons_ne_nil _ _))
  | false =>
    simp only [Bool.or_eq_false_iff] at h
    simp only [Bool.false_eq_true, ↓reduceIte, orElse_falsy _ _ h.1, orElse_falsy _ _ h.2]

theorem handleWs_nat (ew ws : Str) (n : Nat) : combineHandleWs ew (n : Int) ws = (ws.take n, ws.drop n, ew) := by
  unfold combineHandleWs
  by_cases h0 : n = 0
  · subst h0; simp
  · have h1 : ((n : Int) = 0) = False := eq_false (by omega)
    have h2 : ((n : Int) = -1) = False := eq_false (by omega)
    simp only [h1, h2, ↓reduceIte, Int.toNat_natCast]
    split
    · next hlt =>
      have : ws.length ≤ n := by omega
      rw [List.take_of_length_le this, List.drop_of_length_le this]
    · rfl

theorem handleWs_neg1 (ew ws : Str) : combineHandleWs ew (-1) ws = ([], [], ew ++ NL :: ws) := by
  unfold combineHandleWs; simp

/-- `remove_leading_spaces` as a natural number, for a header that is not a paragraph / setext heading -/
def rlsNat : Tok → Nat
  | .icode ew _ _ => if ew.contains Verif.Model.Recognisers.TAB then Verif.Model.Recognisers.calcLength ew 0 else ew.length
  | _ => 0

theorem rlsOf_nat (h : Tok) (hp : h.isPara = false) : rlsOf h = (rlsNat h : Int) := by
  cases h with
  | para _ _ => simp [Tok.isPara] at hp
  | setext _ _ => simp [Tok.isPara] at hp
  | icode ew _ _ => simp only [rlsOf, rlsNat]; split <;> rfl
  | _ => rfl

theorem rlsOf_para (h : Tok) (hp : h.isPara = true) : rlsOf h = -1 := by
  cases h with
  | para _ _ => rfl
  | setext _ _ => rfl
  | _ => simp [Tok.isPara] at hp

/-- adding a line to a run that is already open -/
def extend2 (s : FSt) (r : Run) (p : Pieces) : FSt :=
  if hdrRls s.hdr = -1 then
    let r' : Run := { r with ew := r.ew ++ NL :: p.ws, tt := r.tt ++ NL :: (p.mark ++ p.txt), pri := r.pri ++ NL :: (p.mark ++ p.pri) }
    { s with run := some r' }
  else
    let n := (hdrRls s.hdr).toNat
    let r' : Run := { r with tt := r.tt ++ NL :: (p.mark ++ p.ws.drop n ++ p.txt), pri := r.pri ++ NL :: (p.mark ++ p.ws.drop n ++ p.pri) }
    { s with ind := (if hdrIsIcode s.hdr then s.ind ++ NL :: p.ws.take n else s.ind), run := some r' }

theorem extend_second (s : FSt) (r : Run) (t : Tok) (hr : s.run = some r) : extend s t = extend2 s r (linePieces t) := by
  unfold extend extend2
  simp only [hr]

theorem extend_first (s : FSt) (t : Tok) (hr : s.run = none) :
    extend s t = { s with run := some { line := (linePieces t).line, col := (linePieces t).col, ew := (linePieces t).ws,
                                        tt := (linePieces t).txt, pri := (linePieces t).pri, endWs := (linePieces t).endWs } } := by
  unfold extend
  simp only [hr]

/-- Lemma M: merging `t` into the text token `x` under the header `h` is adding the line `t` to the open segment. -/
theorem combine_extend (h : Tok) (x x' : Text) (t : Tok) (removed : Str)
    (hc : combine x t (rlsOf h) = .ok (x', removed)) :
    extend (openSeg (if h.isIcode then addIndented h removed else h)) (.text x') =
      extend (extend (openSeg h) (.text x)) t := by
  have hopen : ∀ g : Tok, (openSeg g).run = none := fun _ => rfl
  rw [extend_first _ _ (hopen _), extend_first (openSeg h) _ (hopen _)]
  rw [extend_second _ _ t rfl]
  simp only [extend2, openSeg, hdrRls, erase_rls, hdrIsIcode, erase_isIcode]
  -- the pieces of `t` and what `combine` did with them
  cases hp : h.isPara with
  | true =>
    have hrls := rlsOf_para h hp
    have hic : h.isIcode = false := by cases h <;> simp [Tok.isPara] at hp <;> rfl
    rw [hrls] at hc ⊢
    simp only [hic, Bool.false_eq_true, ↓reduceIte]
    cases t with
    | text y =>
      simp only [combine, combineCore, handleWs_neg1, Except.ok.injEq, Prod.mk.injEq] at hc
      obtain ⟨hx, _⟩ := hc
      subst hx
      have := pri_combine x.tab y.tab x.tt [] y.tt
      simp only [List.nil_append] at this
      simp only [linePieces, List.nil_append, List.append_nil, this]
    | blank ew l c =>
      simp only [combine, combineCore, handleWs_neg1, Except.ok.injEq, Prod.mk.injEq] at hc
      obtain ⟨hx, _⟩ := hc
      subst hx
      have := pri_combine x.tab (some []) x.tt [NOOP] []
      simp only [List.append_nil] at this
      simp only [linePieces, List.append_nil, this]
      rfl
    | _ => simp [combine] at hc
  | false =>
    have hrls := rlsOf_nat h hp
    rw [hrls] at hc ⊢
    have hne : ((rlsNat h : Int) = -1) = False := eq_false (by omega)
    simp only [hne, ↓reduceIte, Int.toNat_natCast]
    cases t with
    | text y =>
      simp only [combine, combineCore, handleWs_nat, Except.ok.injEq, Prod.mk.injEq] at hc
      obtain ⟨hx, hrem⟩ := hc
      subst hx hrem
      simp only [linePieces, List.nil_append, pri_combine]
      cases hic : h.isIcode with
      | false => simp [erase]
      | true =>
        cases h <;> simp [Tok.isIcode] at hic
        simp [addIndented, erase, indOf, finOf]
    | blank ew l c =>
      simp only [combine, combineCore, handleWs_nat, Except.ok.injEq, Prod.mk.injEq] at hc
      obtain ⟨hx, hrem⟩ := hc
      subst hx hrem
      have := pri_combine x.tab (some []) x.tt ([NOOP] ++ List.drop (rlsNat h) ew) []
      simp only [List.append_nil] at this
      simp only [linePieces, List.append_nil, this]
      cases hic : h.isIcode with
      | false => simp [erase, orElse]
      | true =>
        cases h <;> simp [Tok.isIcode] at hic
        simp [addIndented, erase, indOf, finOf, orElse]
    | _ => simp [combine] at hc

theorem fstep_line (r : List Seg × FSt) (t : Tok) (h : isLine r.2.hdr t = true) : fstep r t = (r.1, extend r.2 t) := by
  unfold fstep; rw [if_pos h]

theorem fstep_notLine (r : List Seg × FSt) (t : Tok) (h : isLine r.2.hdr t = false) :
    fstep r t = (r.1 ++ [close r.2], openSeg t) := by
  unfold fstep; rw [if_neg (by simp [h])]

theorem R_nontext (h : Tok) (rest : List Tok) (hn : normR false (h :: rest) = true) (ht : h.isText = false) :
    R (h :: rest) = ((R rest).1 ++ [close (R rest).2], openSeg h) := by
  rw [normR, Bool.and_eq_true] at hn
  rw [R_cons, fstep_notLine]
  rw [R_topState rest hn.2]
  exact topState_notLine h rest hn.1 ht

/-- one iteration of the loop is one token of the flattening -/
theorem step_flat (acc acc' : List Tok) (t : Tok) (hn : normR false acc = true) (h : step false acc t = .ok acc') :
    R acc' = fstep (R acc) t := by
  rcases acc with _ | ⟨last, below⟩
  · simp [step] at h
  · cases hl : last.isText with
    | true =>
      cases last <;> simp [Tok.isText] at hl
      rename_i x
      unfold step at h
      simp only at h
      split at h
      · cases h; exact R_cons _ _
      · next hnh =>
        rcases below with _ | ⟨hd, rest⟩
        · simp at h
        · simp only at h
          split at h
          · cases h; exact R_cons _ _
          · next hnc =>
            split at h
            · cases h
            · next x' removed hc =>
              cases h
              simp only [Bool.false_eq_true, ↓reduceIte] at hc
              -- what the normal form says about `hd`
              have hn0 := hn
              simp only [normR, Bool.and_eq_true] at hn
              obtain ⟨h1, h2, h3⟩ := hn
              have hdt : hd.isText = false := by
                cases hh : hd.isText with
                | false => rfl
                | true => unfold okTop at h1; simp [hh] at h1; cases rest <;> simp at h1
              have e1 : (if hd.isIcode = true then addIndented hd removed else hd).isText = hd.isText := by
                split
                · exact addIndented_isText _ _
                · rfl
              have e2 : (if hd.isIcode = true then addIndented hd removed else hd).isBlank = hd.isBlank := by
                split
                · exact addIndented_isBlank _ _
                · rfl
              have hn' : normR false ((if hd.isIcode = true then addIndented hd removed else hd) :: rest) = true := by
                rw [normR, Bool.and_eq_true]
                exact ⟨by rw [okTop_hd_congr false hd _ rest e1 e2]; exact h2, h3⟩
              have hn1 : normR false (hd :: rest) = true := by
                rw [normR, Bool.and_eq_true]; exact ⟨h2, h3⟩
              have hline : isLine (some (erase hd)) t = true := by
                unfold isLine hdrIsCode
                simp only [erase_isCode]
                cases ht : t.isText with
                | true => rfl
                | false =>
                  simp only [ht, Bool.not_false, Bool.true_and, Bool.not_eq_eq_eq_not, Bool.not_true] at hnh hnc
                  simp only [Bool.not_eq_false] at hnh hnc
                  simp [hnh, hnc]
              rw [R_cons, R_nontext _ rest hn' (by rw [e1]; exact hdt), fstep_line _ _ (by simp [isLine])]
              have hA : fstep ((R rest).1 ++ [close (R rest).2], openSeg hd) (Tok.text x) =
                  ((R rest).1 ++ [close (R rest).2], extend (openSeg hd) (Tok.text x)) :=
                fstep_line _ _ (by simp [isLine])
              rw [R_cons (Tok.text x) (hd :: rest), R_nontext _ rest hn1 hdt, hA,
                fstep_line _ _ (by simpa [extend_hdr, openSeg] using hline)]
              simp only [combine_extend hd x x' t removed hc]
    | false =>
      have hs := step_nontext false last below t hl
      unfold stepNT at hs
      rw [hs] at h
      simp only [Bool.not_false, ↓reduceIte] at h
      split at h
      · split at h
        · next ew l c hc =>
          cases h
          rw [R_cons _ (last :: below)]
          have hts : (R (last :: below)).2 = openSeg last := by
            rw [R_topState _ hn]; simp [topState, hl]
          have hl1 : isLine (R (last :: below)).2.hdr (blankAsText ew l c) = true := by simp [isLine]
          have hl2 : isLine (R (last :: below)).2.hdr (Tok.blank ew l c) = true := by
            rw [hts]; simp [isLine, openSeg, hdrIsCode, erase_isCode, hc]
          rw [fstep_line _ _ hl1, fstep_line _ _ hl2, hts]
          rfl
        · cases h; exact R_cons _ _
      · cases h; exact R_cons _ _

theorem flat_fstep (r : List Seg × FSt) (t : Tok) (rest : List Tok) :
    r.1 ++ flat r.2 (t :: rest) = (fstep r t).1 ++ flat (fstep r t).2 rest := by
  unfold fstep
  rw [flat]
  split <;> simp

theorem loop_flatten (acc rest out : List Tok) (hn : normR false acc = true) (h : loop false acc rest = .ok out) :
    flatten out.reverse = flatten (acc.reverse ++ rest) := by
  induction rest generalizing acc with
  | nil => unfold loop at h; cases h; simp
  | cons t rest ih =>
    unfold loop at h
    split at h
    · cases h
    · next acc' hs =>
      rw [ih acc' (step_norm false acc acc' t hn hs) h, flatten_R, flatten_R, step_flat acc acc' t hn hs, flat_fstep]

/-- the merge loop leaves the flattening unchanged -/
theorem merge_flatten (ts out : List Tok) (h : merge false ts = .ok out) : flatten out = flatten ts := by
  unfold merge at h
  split at h
  · cases h
  · next t0 rest =>
    split at h
    · cases h
    · next acc hl =>
      cases h
      have := loop_flatten [t0] rest acc (by simp [normR, okTop]) hl
      simpa using this

/-! ## the final white-space pass -/

/-- a non-empty `tabified_text` is not all white space -/
def tabOK (x : Text) : Bool := !truthy x.tab || !allWs (x.tab.getD [])

/-- hypotheses of content preservation, per token: `final_whitespace` still empty, tabified text not blank -/
def clean : Tok → Bool
  | .text x => tabOK x
  | .para f _ => f.isEmpty
  | .setext f _ => f.isEmpty
  | _ => true

def Clean (l : List Tok) : Prop := ∀ t ∈ l, clean t = true

theorem orElse_truthy (o : Option Str) (d : Str) (h : truthy o = true) : orElse o d = o.getD [] := by
  rcases o with _ | (_ | ⟨c, cs⟩)
  · simp [truthy] at h
  · simp [truthy] at h
  · rfl

theorem tabOK_combineCore (x : Text) (textTo : Str) (tabTo : Option Str) (ws bls : Str) (rls : Int)
    (hx : tabOK x = true) (hy : (!truthy tabTo || !allWs (tabTo.getD [])) = true) :
    tabOK (combineCore x textTo tabTo ws bls rls).1 = true := by
  unfold combineCore tabOK
  simp only
  cases h1 : truthy x.tab with
  | true =>
    simp only [Bool.true_or, ↓reduceIte, truthy, Option.getD_some]
    unfold tabOK at hx
    simp only [h1, Bool.not_true, Bool.false_or, Bool.not_eq_eq_eq_not] at hx
    rw [orElse_truthy _ _ h1, allWs_append, hx]
    cases hh : (x.tab.getD [] ++ NL :: (bls ++ (combineHandleWs x.ew rls ws).2.1 ++ orElse tabTo textTo)) <;> simp
  | false =>
    cases h2 : truthy tabTo with
    | true =>
      simp only [Bool.or_true, ↓reduceIte, Option.getD_some]
      simp only [h2, Bool.not_true, Bool.false_or, Bool.not_eq_eq_eq_not] at hy
      rw [orElse_truthy tabTo _ h2]
      have : allWs (orElse x.tab x.tt ++ NL :: (bls ++ (combineHandleWs x.ew rls ws).2.1 ++ tabTo.getD [])) = false := by
        have e : orElse x.tab x.tt ++ NL :: (bls ++ (combineHandleWs x.ew rls ws).2.1 ++ tabTo.getD []) =
            (orElse x.tab x.tt ++ NL :: (bls ++ (combineHandleWs x.ew rls ws).2.1)) ++ tabTo.getD [] := by simp
        rw [e, allWs_append, hy]; simp
      rw [this]; simp
    | false => simp [h1]

theorem clean_step (only : Bool) (acc acc' : List Tok) (t : Tok) (ha : Clean acc) (ht : clean t = true)
    (h : step false acc t = .ok acc') (_ : only = false) : Clean acc' := by
  have hcons : ∀ (a : Tok) (l : List Tok), clean a = true → Clean l → Clean (a :: l) := by
    intro a l h1 h2 u hu
    rcases List.mem_cons.mp hu with rfl | hu
    · exact h1
    · exact h2 u hu
  rcases acc with _ | ⟨last, below⟩
  · simp [step] at h
  · cases hl : last.isText with
    | true =>
      cases last <;> simp [Tok.isText] at hl
      rename_i x
      unfold step at h
      simp only at h
      split at h
      · cases h; exact hcons _ _ ht ha
      · rcases below with _ | ⟨hd, rest⟩
        · simp at h
        · simp only at h
          split at h
          · cases h; exact hcons _ _ ht ha
          · split at h
            · cases h
            · next x' removed hc =>
              cases h
              simp only [Bool.false_eq_true, ↓reduceIte] at hc
              have hx : tabOK x = true := ha (.text x) (by simp)
              have hhd : clean hd = true := ha hd (by simp)
              have hrest : Clean rest := fun u hu => ha u (by simp [hu])
              have hx' : tabOK x' = true := by
                cases t with
                | text y =>
                  simp only [combine, Except.ok.injEq] at hc
                  have := tabOK_combineCore x y.tt y.tab y.ew [] (rlsOf hd) hx (by simpa [clean, tabOK] using ht)
                  rw [hc] at this; exact this
                | blank ew l c =>
                  simp only [combine, Except.ok.injEq] at hc
                  have := tabOK_combineCore x [] (some []) ew [NOOP] (rlsOf hd) hx (by simp [truthy])
                  rw [hc] at this; exact this
                | _ => simp [combine] at hc
              refine hcons _ _ (by simpa [clean] using hx') (hcons _ _ ?_ hrest)
              split
              · cases hd <;> simp_all [addIndented, clean]
              · exact hhd
    | false =>
      have hs := step_nontext false last below t hl
      unfold stepNT at hs
      rw [hs] at h
      simp only [Bool.not_false, ↓reduceIte] at h
      split at h
      · split at h
        · cases h; exact hcons _ _ (by simp [blankAsText, clean, tabOK, truthy]) ha
        · cases h; exact hcons _ _ ht ha
      · cases h; exact hcons _ _ ht ha

theorem clean_loop (acc rest out : List Tok) (ha : Clean acc) (hr : Clean rest) (h : loop false acc rest = .ok out) :
    Clean out := by
  induction rest generalizing acc with
  | nil => unfold loop at h; cases h; exact ha
  | cons t rest ih =>
    unfold loop at h
    split at h
    · cases h
    · next acc' hs =>
      exact ih acc' (clean_step false acc acc' t ha (hr t (by simp)) hs rfl) (fun u hu => hr u (by simp [hu])) h

theorem clean_merge (ts out : List Tok) (hc : Clean ts) (h : merge false ts = .ok out) : Clean out := by
  unfold merge at h
  split at h
  · cases h
  · next t0 rest =>
    split at h
    · cases h
    · next acc hl =>
      cases h
      have := clean_loop [t0] rest acc (fun u hu => hc u (by simp at hu; simp [hu])) (fun u hu => hc u (by simp [hu])) hl
      intro u hu
      exact this u (by simpa using hu)

/-- what the kinds-only predicates see of a token -/
def sig (t : Tok) : Bool × Bool × Bool := (t.isText, t.isBlank, t.isCode)

theorem setFinal_sig (p : Tok) (r : Str) : sig (setFinal p r) = sig p := by cases p <;> rfl

theorem calcFinal_sig (l l' : List Tok) (h : calcFinal l = .ok l') : l'.map sig = l.map sig := by
  fun_induction calcFinal l generalizing l' with
  | case1 => cases h; rfl
  | case2 p x rest hp e he => cases h
  | case3 p x rest hp x' removed hx e he ih => cases h
  | case4 p x rest hp x' removed hx rest' hr ih =>
    cases h
    simp only [List.map_cons, ih rest' hr, setFinal_sig]
    rfl
  | case5 p x rest hp e he ih => cases h
  | case6 p x rest hp rest' hr ih =>
    cases h
    simp only [List.map_cons, ih rest' hr]
  | case7 p rest hn e he ih => cases h
  | case8 p rest hn rest' hr ih =>
    cases h
    simp only [List.map_cons, ih rest' hr]

/-- no two adjacent text tokens -/
def NoTT (l : List Tok) : Prop := ∀ pre a b post, l = pre ++ a :: b :: post → ¬(a.isText = true ∧ b.isText = true)

theorem NoTT_tail (a : Tok) (l : List Tok) (h : NoTT (a :: l)) : NoTT l := by
  intro pre x y post e
  exact h (a :: pre) x y post (by simp [e])

theorem removeFinalWs_eq (x : Text) :
    removeFinalWs x = .ok
      (if x.tt.length - tidx x.tt ≠ 0 then
        (if truthy x.tab then
          ({ x with tt := x.tt.take (tidx x.tt), tab := some ((x.tab.getD []).take (tidx (x.tab.getD []))) },
            (x.tab.getD []).drop (tidx (x.tab.getD [])))
        else ({ x with tt := x.tt.take (tidx x.tt) }, x.tt.drop (tidx x.tt)))
      else (x, [])) := by
  unfold removeFinalWs
  rw [cbwVerified_tidx]
  simp only
  split
  · split
    · rw [cbwVerified_tidx]
      simp only [slice_tail _ _ (tidx_le _)]
    · simp only [slice_tail _ _ (tidx_le _)]
  · rfl

/-- Lemma F: the final white-space pass moves the trailing white space of the tab-preserving text into the header. -/
theorem final_close (p : Tok) (x x' : Text) (removed : Str) (hp : p.isPara = true) (hf : finOf p = [])
    (hx : tabOK x = true) (h : removeFinalWs x = .ok (x', removed)) :
    close (extend (openSeg (setFinal p removed)) (.text x')) = close (extend (openSeg p) (.text x)) := by
  rw [removeFinalWs_eq] at h
  have he : erase (setFinal p removed) = erase p := by cases p <;> rfl
  have hi : indOf (setFinal p removed) = indOf p := by cases p <;> rfl
  have hfs : finOf (setFinal p removed) = removed := by cases p <;> simp [Tok.isPara] at hp <;> rfl
  have hp' : (setFinal p removed).isPara = true := by cases p <;> simp [Tok.isPara] at hp <;> rfl
  rw [extend_first _ _ rfl, extend_first _ _ rfl]
  unfold close
  simp only [openSeg, hdrIsPara, erase_isPara, he, hi, hf, hfs, hp, ↓reduceIte, linePieces, List.append_nil]
  split at h
  · next hn =>
    split at h
    · next htab =>
      simp only [Except.ok.injEq, Prod.mk.injEq] at h
      obtain ⟨h1, h2⟩ := h
      subst h1 h2
      simp only
      have hnw : allWs (x.tab.getD []) = false := by
        unfold tabOK at hx
        simpa [htab] using hx
      have hid : tidx (x.tab.getD []) ≠ 0 := by
        intro h0
        rw [tidx_zero_allWs _ h0] at hnw; cases hnw
      have hne : (x.tab.getD []).take (tidx (x.tab.getD [])) ≠ [] := by
        intro h0
        have := congrArg List.length h0
        simp only [List.length_take, List.length_nil] at this
        have := tidx_le (x.tab.getD [])
        omega
      rw [orElse_some_ne _ _ hne, List.take_append_drop, orElse_truthy _ _ htab]
      have : rstrip (x.tt.take (tidx x.tt)) = rstrip x.tt := by
        rw [← rstrip_eq, rstrip_idem]
      rw [this]
    · next htab =>
      simp only [Except.ok.injEq, Prod.mk.injEq] at h
      obtain ⟨h1, h2⟩ := h
      subst h1 h2
      simp only
      have htf : truthy x.tab = false := by simpa using htab
      rw [orElse_falsy _ _ htf, orElse_falsy _ _ htf, List.take_append_drop]
      have : rstrip (x.tt.take (tidx x.tt)) = rstrip x.tt := by
        rw [← rstrip_eq, rstrip_idem]
      rw [this]
  · simp only [Except.ok.injEq, Prod.mk.injEq] at h
    obtain ⟨h1, h2⟩ := h
    subst h1 h2
    simp

theorem flat_congr_close (s s' : FSt) (l : List Tok) (hh : s'.hdr = s.hdr) (hc : close s' = close s)
    (hl : ∀ r rest, l = r :: rest → isLine s.hdr r = false) : flat s' l = flat s l := by
  rcases l with _ | ⟨r, rest⟩
  · simp [flat, hc]
  · have := hl r rest rfl
    unfold flat
    rw [hh, this]
    simp [hc]

theorem flat_para_text (s : FSt) (p : Tok) (x : Text) (rest : List Tok) (hp : p.isPara = true) :
    flat s (p :: .text x :: rest) = close s :: flat (extend (openSeg p) (.text x)) rest := by
  have hpl : isLine s.hdr p = false := by
    cases p <;> simp [Tok.isPara] at hp <;> simp [isLine, Tok.isText, Tok.isBlank]
  rw [flat, hpl]
  simp only [Bool.false_eq_true, ↓reduceIte, List.cons.injEq, true_and]
  rw [flat]
  simp [isLine]

theorem calcFinal_flat (l l' : List Tok) (hc : Clean l) (hnt : NoTT l) (h : calcFinal l = .ok l') :
    ∀ s, flat s l' = flat s l := by
  fun_induction calcFinal l generalizing l' with
  | case1 => cases h; intro s; rfl
  | case2 p x rest hp e he => cases h
  | case3 p x rest hp x' removed hx e he ih => cases h
  | case4 p x rest hp x' removed hx rest' hr ih =>
    cases h
    intro s
    have hp' : (setFinal p removed).isPara = true := by cases p <;> simp [Tok.isPara] at hp <;> rfl
    have ihr := ih rest' (fun u hu => hc u (by simp [hu])) (NoTT_tail _ _ (NoTT_tail _ _ hnt)) hr
    have hsig := calcFinal_sig rest rest' hr
    rw [flat_para_text s _ x' rest' hp', flat_para_text s p x rest hp]
    simp only [List.cons.injEq, true_and]
    have hcp : clean p = true := hc p (by simp)
    have hf : finOf p = [] := by cases p <;> simp [Tok.isPara] at hp <;> simpa [clean, finOf] using hcp
    have hcx : tabOK x = true := by simpa [clean] using hc (.text x) (by simp)
    have hclose := final_close p x x' removed hp hf hcx hx
    have hhdr : (extend (openSeg (setFinal p removed)) (.text x')).hdr = (extend (openSeg p) (.text x)).hdr := by
      simp only [extend_hdr, openSeg]
      cases p <;> simp [Tok.isPara] at hp <;> rfl
    rw [flat_congr_close _ _ rest' hhdr hclose, ihr]
    intro r' rest1' e
    -- the head of `rest'` has the kinds of the head of `rest`, which is not a text token
    rcases rest with _ | ⟨r, rest1⟩
    · rw [e] at hsig; simp at hsig
    · rw [e] at hsig
      simp only [List.map_cons, List.cons.injEq, sig, Prod.mk.injEq] at hsig
      have hrt : r.isText = false := by
        cases hh : r.isText with
        | false => rfl
        | true => exact absurd ⟨rfl, hh⟩ (hnt [p] (.text x) r rest1 rfl)
      simp only [isLine, extend_hdr, openSeg, hdrIsCode, erase_isCode]
      have hpc : p.isCode = false := by cases p <;> simp [Tok.isPara] at hp <;> rfl
      simp [hsig.1.1, hrt, hpc]
  | case5 p x rest hp e he ih => cases h
  | case6 p x rest hp rest' hr ih =>
    cases h
    intro s
    have ihr := ih rest' (fun u hu => hc u (by simp [hu])) (NoTT_tail _ _ hnt) hr
    rw [flat, flat]
    split
    · exact ihr _
    · rw [ihr]
  | case7 p rest hn e he ih => cases h
  | case8 p rest hn rest' hr ih =>
    cases h
    intro s
    have ihr := ih rest' (fun u hu => hc u (by simp [hu])) (NoTT_tail _ _ hnt) hr
    rw [flat, flat]
    split
    · exact ihr _
    · rw [ihr]

/-! ## the non-text skeleton survives, in order, unchanged -/

/-- the tokens that are neither text nor blank lines, with the fields the pass writes erased (reversed list) -/
def skelR (acc : List Tok) : List Tok := (acc.filter hard).map erase

theorem hard_addIndented (h : Tok) (r : Str) : hard (addIndented h r) = hard h := by cases h <;> rfl
theorem erase_addIndented (h : Tok) (r : Str) : erase (addIndented h r) = erase h := by cases h <;> rfl

theorem step_skel (only : Bool) (acc acc' : List Tok) (t : Tok) (h : step only acc t = .ok acc') :
    skelR acc' = skelR (t :: acc) := by
  rcases acc with _ | ⟨last, below⟩
  · simp [step] at h
  · cases hl : last.isText with
    | true =>
      cases last <;> simp [Tok.isText] at hl
      rename_i x
      unfold step at h
      simp only at h
      split at h
      · cases h; rfl
      · next hnh =>
        rcases below with _ | ⟨hd, rest⟩
        · simp at h
        · simp only at h
          split at h
          · cases h; rfl
          · next hnc =>
            split at h
            · cases h
            · next x' removed hc =>
              cases h
              have hth : hard t = false := by
                unfold hard
                cases ht : t.isText with
                | true => rfl
                | false =>
                  simp only [ht, Bool.not_false, Bool.true_and, Bool.not_eq_eq_eq_not, Bool.not_true, Bool.not_eq_false] at hnh
                  simp [hnh]
              unfold skelR
              simp only [List.filter_cons, hard_text, hth, Bool.false_eq_true, ↓reduceIte]
              split
              · simp only [hard_addIndented]
                split <;> simp [erase_addIndented]
              · rfl
    | false =>
      have hs := step_nontext only last below t hl
      unfold stepNT at hs
      rw [hs] at h
      split at h
      · split at h
        · split at h
          · cases h; simp [skelR, hard, blankAsText, Tok.isText, Tok.isBlank]
          · cases h; rfl
        · cases h; rfl
      · cases h; rfl

theorem loop_skel (only : Bool) (acc rest out : List Tok) (h : loop only acc rest = .ok out) :
    skelR out = skelR (rest.reverse ++ acc) := by
  induction rest generalizing acc with
  | nil => unfold loop at h; cases h; rfl
  | cons t rest ih =>
    unfold loop at h
    split at h
    · cases h
    · next acc' hs =>
      rw [ih acc' h]
      have := step_skel only acc acc' t hs
      unfold skelR at this ⊢
      simp only [List.filter_append, List.map_append, List.reverse_cons, List.append_assoc, List.singleton_append, this]

/-- the skeleton of a forward list -/
def skel (l : List Tok) : List Tok := (l.filter hard).map erase

theorem skel_reverse (l : List Tok) : skel l.reverse = (skelR l).reverse := by
  unfold skel skelR; rw [List.filter_reverse, List.map_reverse]

theorem merge_skel (only : Bool) (ts out : List Tok) (h : merge only ts = .ok out) : skel out = skel ts := by
  unfold merge at h
  split at h
  · cases h
  · next t0 rest =>
    split at h
    · cases h
    · next acc hl =>
      cases h
      rw [skel_reverse, loop_skel only [t0] rest acc hl, ← skel_reverse]
      simp

theorem hard_setFinal (p : Tok) (r : Str) : hard (setFinal p r) = hard p := by cases p <;> rfl
theorem erase_setFinal (p : Tok) (r : Str) : erase (setFinal p r) = erase p := by cases p <;> rfl

theorem calcFinal_skel (l l' : List Tok) (h : calcFinal l = .ok l') : skel l' = skel l := by
  fun_induction calcFinal l generalizing l' with
  | case1 => cases h; rfl
  | case2 p x rest hp e he => cases h
  | case3 p x rest hp x' removed hx e he ih => cases h
  | case4 p x rest hp x' removed hx rest' hr ih =>
    cases h
    have := ih rest' hr
    unfold skel at this ⊢
    simp only [List.filter_cons, hard_text, hard_setFinal, Bool.false_eq_true, ↓reduceIte]
    split <;> simp [this, erase_setFinal]
  | case5 p x rest hp e he ih => cases h
  | case6 p x rest hp rest' hr ih =>
    cases h
    have := ih rest' hr
    unfold skel at this ⊢
    simp only [List.filter_cons] at this ⊢
    split <;> simp_all
  | case7 p rest hn e he ih => cases h
  | case8 p rest hn rest' hr ih =>
    cases h
    have := ih rest' hr
    unfold skel at this ⊢
    simp only [List.filter_cons] at this ⊢
    split <;> simp_all

/-! ## forward reading of the normal form -/

theorem normR_noTT (only : Bool) (out : List Tok) (hn : normR only out.reverse = true) : NoTT out := by
  intro pre a b post e hab
  have hr : out.reverse = post.reverse ++ (b :: a :: pre.reverse) := by rw [e]; simp
  rw [hr] at hn
  have := normR_suffix only _ _ hn
  simp only [normR, Bool.and_eq_true] at this
  have h1 := this.1
  generalize pre.reverse = q at h1
  unfold okTop at h1
  simp only [hab.1, ↓reduceIte] at h1
  cases q <;> simp [hard, hab.2] at h1

/-- no blank line directly after a code-block start -/
def NoCB (l : List Tok) : Prop := ∀ pre a b post, l = pre ++ a :: b :: post → ¬(a.isCode = true ∧ b.isBlank = true)

/-- no blank line after the text token that follows a code-block start -/
def NoCTB (l : List Tok) : Prop :=
  ∀ pre a b c post, l = pre ++ a :: b :: c :: post → ¬(a.isCode = true ∧ b.isText = true ∧ c.isBlank = true)

theorem isCode_not_text (a : Tok) (h : a.isCode = true) : a.isText = false := by cases a <;> simp [Tok.isCode] at h <;> rfl

theorem normR_noCB (out : List Tok) (hn : normR false out.reverse = true) : NoCB out := by
  intro pre a b post e hab
  have hr : out.reverse = post.reverse ++ (b :: a :: pre.reverse) := by rw [e]; simp
  rw [hr] at hn
  have := normR_suffix false _ _ hn
  simp only [normR, Bool.and_eq_true] at this
  have h1 := this.1
  unfold okTop at h1
  simp [isCode_not_text a hab.1, hab.1, hab.2] at h1

theorem normR_noCTB (only : Bool) (out : List Tok) (hn : normR only out.reverse = true) : NoCTB out := by
  intro pre a b c post e habc
  have hr : out.reverse = post.reverse ++ (c :: b :: a :: pre.reverse) := by rw [e]; simp
  rw [hr] at hn
  have := normR_suffix only _ _ hn
  simp only [normR, Bool.and_eq_true] at this
  have h1 := this.1
  unfold okTop at h1
  simp [habc.1, habc.2.1, habc.2.2] at h1

/-- the kinds-only predicates transfer along equal signatures -/
theorem okTop_sig (only : Bool) (t t' : Tok) (l l' : List Tok) (ht : sig t' = sig t) (hl : l'.map sig = l.map sig) :
    okTop only t' l' = okTop only t l := by
  simp only [sig, Prod.mk.injEq] at ht
  unfold okTop hard
  rcases l with _ | ⟨a, l⟩ <;> rcases l' with _ | ⟨a', l'⟩ <;> simp only [List.map_cons, List.map_nil, List.cons.injEq] at hl
  · rfl
  · cases hl
  · cases hl
  · obtain ⟨ha, hl⟩ := hl
    simp only [sig, Prod.mk.injEq] at ha
    rcases l with _ | ⟨b, l⟩ <;> rcases l' with _ | ⟨b', l'⟩ <;> simp only [List.map_cons, List.map_nil, List.cons.injEq] at hl
    · simp [ha.1, ha.2.2, ht.1, ht.2.1]
    · cases hl
    · cases hl
    · obtain ⟨hb, _⟩ := hl
      simp only [sig, Prod.mk.injEq] at hb
      simp [ha.1, ha.2.2, ht.1, ht.2.1, hb.2.2]

theorem normR_sig (only : Bool) (l l' : List Tok) (h : l'.map sig = l.map sig) : normR only l' = normR only l := by
  induction l generalizing l' with
  | nil => cases l' <;> simp at h; rfl
  | cons a l ih =>
    rcases l' with _ | ⟨a', l'⟩
    · simp at h
    · simp only [List.map_cons, List.cons.injEq] at h
      simp only [normR, okTop_sig only a a' l l' h.1 h.2, ih l' h.2]

/-! ## idempotence -/

theorem removeFinalWs_idem (x x' : Text) (r : Str) (h : removeFinalWs x = .ok (x', r)) : removeFinalWs x' = .ok (x', []) := by
  rw [removeFinalWs_eq] at h
  rw [removeFinalWs_eq]
  have key : ∀ y : Text, y.tt.length - tidx y.tt = 0 → 
      (if y.tt.length - tidx y.tt ≠ 0 then
        (if truthy y.tab then
          ({ y with tt := y.tt.take (tidx y.tt), tab := some ((y.tab.getD []).take (tidx (y.tab.getD []))) },
            (y.tab.getD []).drop (tidx (y.tab.getD [])))
        else ({ y with tt := y.tt.take (tidx y.tt) }, y.tt.drop (tidx y.tt)))
      else (y, [])) = (y, []) := by
    intro y hy; simp [hy]
  have hlen : x'.tt.length - tidx x'.tt = 0 := by
    split at h
    · have ht : x'.tt = x.tt.take (tidx x.tt) := by
        split at h <;> (simp only [Except.ok.injEq, Prod.mk.injEq] at h; rw [← h.1])
      rw [ht, tidx_take]
      have := tidx_le x.tt
      simp only [List.length_take]
      omega
    · next hn =>
      simp only [Except.ok.injEq, Prod.mk.injEq] at h
      rw [← h.1]; omega
  rw [key x' hlen]

/-- `final_whitespace` forgotten -/
def eraseFin : Tok → Tok
  | .para _ tag => .para [] tag
  | .setext _ tag => .setext [] tag
  | t => t

theorem eraseFin_setFinal (p : Tok) (r : Str) : eraseFin (setFinal p r) = eraseFin p := by cases p <;> rfl
theorem isPara_setFinal (p : Tok) (r : Str) : (setFinal p r).isPara = p.isPara := by cases p <;> rfl

theorem calcFinal_twice (l l1 : List Tok) (h : calcFinal l = .ok l1) :
    ∃ l2, calcFinal l1 = .ok l2 ∧ l2.map eraseFin = l1.map eraseFin := by
  fun_induction calcFinal l generalizing l1 with
  | case1 => cases h; exact ⟨[], rfl, rfl⟩
  | case2 p x rest hp e he => cases h
  | case3 p x rest hp x' removed hx e he ih => cases h
  | case4 p x rest hp x' removed hx rest' hr ih =>
    cases h
    obtain ⟨l2, h2, e2⟩ := ih rest' hr
    refine ⟨setFinal (setFinal p removed) [] :: .text x' :: l2, ?_, ?_⟩
    · rw [calcFinal]
      simp only [isPara_setFinal, hp, ↓reduceIte, removeFinalWs_idem x x' removed hx, h2]
    · simp [eraseFin_setFinal, e2]
  | case5 p x rest hp e he ih => cases h
  | case6 p x rest hp rest' hr ih =>
    cases h
    obtain ⟨l2, h2, e2⟩ := ih rest' hr
    -- `rest'` starts with a text token, as `text x :: rest` does
    have hsig := calcFinal_sig _ _ hr
    rcases rest' with _ | ⟨y, r'⟩
    · simp at hsig
    · simp only [List.map_cons, List.cons.injEq, sig, Prod.mk.injEq, isText_text] at hsig
      cases y <;> simp [Tok.isText] at hsig
      rename_i y
      refine ⟨p :: l2, ?_, by simp [e2]⟩
      rw [calcFinal]
      simp only [hp, Bool.false_eq_true, ↓reduceIte, h2]
  | case7 p rest hn e he ih => cases h
  | case8 p rest hn rest' hr ih =>
    cases h
    obtain ⟨l2, h2, e2⟩ := ih rest' hr
    have hsig := calcFinal_sig _ _ hr
    refine ⟨p :: l2, ?_, by simp [e2]⟩
    rw [calcFinal]
    · simp only [h2]
    · intro x r e
      subst e
      rcases rest with _ | ⟨y, r0⟩
      · simp at hsig
      · simp only [List.map_cons, List.cons.injEq, sig, Prod.mk.injEq, isText_text] at hsig
        cases y <;> simp [Tok.isText] at hsig
        exact hn _ _ rfl

/-! ## the second call of the pipeline (`only_change_text_blocks=True`) -/

theorem okTop_true_of_false (t : Tok) (l : List Tok) (h : okTop false t l = true) : okTop true t l = true := by
  unfold okTop at h ⊢
  rcases l with _ | ⟨a, l⟩
  · rfl
  · simp only at h ⊢
    split
    · next ha => simpa [ha] using h
    · simp

theorem normR_true_of_false (l : List Tok) (h : normR false l = true) : normR true l = true := by
  induction l with
  | nil => rfl
  | cons a l ih =>
    simp only [normR, Bool.and_eq_true] at h ⊢
    exact ⟨okTop_true_of_false a l h.1, ih h.2⟩

/-- text payload of a token list, concatenated in order (for the text-only mode) -/
def ttOf : Tok → Str | .text x => x.tt | _ => []
def ewOf : Tok → Str | .text x => x.ew | _ => []
def cat (f : Tok → Str) (l : List Tok) : Str := (l.map f).flatten
theorem ttOf_text (x : Text) : ttOf (.text x) = x.tt := rfl
theorem ewOf_text (x : Text) : ewOf (.text x) = x.ew := rfl

theorem step_only_cat (acc acc' : List Tok) (t : Tok) (h : step true acc t = .ok acc') :
    cat ttOf acc'.reverse = cat ttOf (acc.reverse ++ [t]) ∧ cat ewOf acc'.reverse = cat ewOf (acc.reverse ++ [t]) := by
  rcases acc with _ | ⟨last, below⟩
  · simp [step] at h
  · cases hl : last.isText with
    | true =>
      cases last <;> simp [Tok.isText] at hl
      rename_i x
      unfold step at h
      simp only at h
      split at h
      · cases h; simp
      · rcases below with _ | ⟨hd, rest⟩
        · simp at h
        · simp only at h
          split at h
          · cases h; simp
          · split at h
            · cases h
            · next x' removed hc =>
              cases h
              cases t with
              | text y =>
                simp only [combineOnly, Except.ok.injEq, Prod.mk.injEq] at hc
                obtain ⟨hx, _⟩ := hc
                subst hx
                have e1 : ttOf (if hd.isIcode = true then addIndented hd removed else hd) = ttOf hd := by
                  split
                  · cases hd <;> rfl
                  · rfl
                have e2 : ewOf (if hd.isIcode = true then addIndented hd removed else hd) = ewOf hd := by
                  split
                  · cases hd <;> rfl
                  · rfl
                simp [cat, ttOf_text, ewOf_text, e1, e2]
              | _ => simp [combineOnly] at hc
    | false =>
      have hs := step_nontext true last below t hl
      unfold stepNT at hs
      rw [hs] at h
      simp only [Bool.not_true, Bool.false_eq_true, ↓reduceIte, Except.ok.injEq] at h
      subst h
      simp

theorem loop_only_cat (acc rest out : List Tok) (h : loop true acc rest = .ok out) :
    cat ttOf out.reverse = cat ttOf (acc.reverse ++ rest) ∧ cat ewOf out.reverse = cat ewOf (acc.reverse ++ rest) := by
  induction rest generalizing acc with
  | nil => unfold loop at h; cases h; simp
  | cons t rest ih =>
    unfold loop at h
    split at h
    · cases h
    · next acc' hs =>
      obtain ⟨h1, h2⟩ := ih acc' h
      obtain ⟨s1, s2⟩ := step_only_cat acc acc' t hs
      unfold cat at *
      simp only [List.map_append, List.flatten_append, List.map_cons, List.map_nil, List.flatten_cons, List.flatten_nil,
        List.append_nil] at *
      rw [h1, h2, s1, s2]
      simp

theorem merge_only_cat (ts out : List Tok) (h : merge true ts = .ok out) :
    cat ttOf out = cat ttOf ts ∧ cat ewOf out = cat ewOf ts := by
  unfold merge at h
  split at h
  · cases h
  · next t0 rest =>
    split at h
    · cases h
    · next acc hl =>
      cases h
      simpa using loop_only_cat [t0] rest acc hl

/-! ## positions -/

theorem combine_position (x x' : Text) (t : Tok) (rls : Int) (r : Str) (h : combine x t rls = .ok (x', r)) :
    x'.line = x.line ∧ x'.col = x.col := by
  cases t <;> simp [combine, combineCore] at h <;> (obtain ⟨h1, _⟩ := h; subst h1; exact ⟨rfl, rfl⟩)

theorem combineOnly_position (x x' : Text) (t : Tok) (r : Str) (h : combineOnly x t = .ok (x', r)) :
    x'.line = x.line ∧ x'.col = x.col := by
  cases t <;> simp [combineOnly] at h <;> (obtain ⟨h1, _⟩ := h; subst h1; exact ⟨rfl, rfl⟩)

theorem removeFinalWs_position (x x' : Text) (r : Str) (h : removeFinalWs x = .ok (x', r)) :
    x'.line = x.line ∧ x'.col = x.col := by
  rw [removeFinalWs_eq] at h
  simp only [Except.ok.injEq] at h
  split at h
  · split at h <;> (cases h; exact ⟨rfl, rfl⟩)
  · cases h; exact ⟨rfl, rfl⟩

end Verif.Lemmas.Coalesce
