/-
  The whole call `process_inline_text_block`: the guard establishes the loop invariant, the fuel suffices, the trace is bounded.
-/
import Verif.Lemmas.InlineLoopTotal
namespace Verif.Model.InlineLoop
open Verif.Model.Recognisers (Str slice)

/-! ## fuel -/

theorem loop_fuel_mono {T : Table} {env : Env} {src : Str} : ∀ (fuel : Nat) (st : St) (tr : List Iter) (r : St × List Iter),
    loop T env src fuel st tr = .ok r → ∀ k, loop T env src (fuel + k) st tr = .ok r
  | 0, st, tr, r, h, k => by
    cases hn : st.next with
    | none =>
      have h0 : r = (st, tr) := by rw [loop.eq_1] at h; simp only [hn] at h; injection h with h; exact h.symm
      subst h0
      cases k with
      | zero => rw [Nat.add_zero, loop.eq_1]; simp only [hn]
      | succ k => rw [Nat.zero_add, loop.eq_2]; simp only [hn]
    | some n => rw [loop.eq_1] at h; simp only [hn] at h; cases h
  | fuel + 1, st, tr, r, h, k => by
    rw [show fuel + 1 + k = (fuel + k) + 1 by omega]
    rw [loop.eq_2] at h ⊢
    cases hn : st.next with
    | none => simp only [hn] at h ⊢; exact h
    | some n =>
      simp only [hn] at h ⊢
      cases hs : step T env src st n with
      | error e => rw [hs] at h; cases h
      | ok p =>
        rw [hs] at h; simp only at h ⊢
        exact loop_fuel_mono fuel p.1 (tr ++ [p.2]) r h k

/-! ## the number of turns -/

/-- the number of start characters in a text -/
def countStarts (starts : Str) (s : Str) : Nat := s.countP starts.contains

theorem countStarts_drop_le (starts s : Str) {a b : Nat} (h : a ≤ b) :
    countStarts starts (s.drop b) ≤ countStarts starts (s.drop a) := by
  unfold countStarts
  rw [drop_eq_slice_append s h, List.countP_append]; omega

theorem Chain_length {src starts : Str} : ∀ {s : Nat} {tr : List Iter} {e : Nat}, Chain src starts s tr e →
    tr.length + countStarts starts (src.drop e) ≤ countStarts starts (src.drop s)
  | s, [], e, h => by simp only [Chain] at h; subst h; simp
  | s, it :: r, e, h => by
    obtain ⟨_, g2, g3, g4, g5, _, g7⟩ := h
    have ih := Chain_length g7
    have h1 := countStarts_drop_le starts src g2
    have h2 : countStarts starts (src.drop it.next) = countStarts starts (src.drop (it.next + 1)) + 1 := by
      rw [drop_cons_of_getElem? g4]; unfold countStarts; rw [List.countP_cons_of_pos g5]
    have h3 := countStarts_drop_le starts src (show it.next + 1 ≤ it.newIndex from g3)
    simp only [List.length_cons]; omega

theorem Chain_mono {src starts : Str} : ∀ {s : Nat} {tr : List Iter} {e : Nat}, Chain src starts s tr e → s ≤ e
  | s, [], e, h => by simp only [Chain] at h; omega
  | s, it :: r, e, h => by
    obtain ⟨_, g2, g3, _, _, _, g7⟩ := h
    have := Chain_mono g7; omega

/-! ## the call -/

/-- what the guard says, unfolded -/
theorem envOK_facts {env : Env} (h : envOK env = true) :
    ∃ src sp, prepare env = .ok (src, sp) ∧ (truthy env.recomb = true → env.isSetext = true) ∧
      (countNl src = 0 ∨ ∃ l, sp = some l ∧ countNl src + 1 ≤ l.length) ∧
      (∀ b, env.bq = some b → ∃ ls, b.lead = some ls ∧ b.idx + countNl src < ls.length) := by
  unfold envOK at h
  cases hp : prepare env with
  | error e => rw [hp] at h; cases h
  | ok p =>
    obtain ⟨src, sp⟩ := p
    rw [hp] at h
    simp only [Bool.and_eq_true, Bool.or_eq_true, Bool.not_eq_eq_eq_not, Bool.not_true, beq_iff_eq] at h
    obtain ⟨⟨h1, h2⟩, h3⟩ := h
    refine ⟨src, sp, rfl, ?_, ?_, ?_⟩
    · intro ht; rcases h1 with h1 | h1
      · rw [ht] at h1; cases h1
      · exact h1
    · rcases h2 with h2 | h2
      · exact Or.inl h2
      · cases sp with
        | none => cases h2
        | some l => exact Or.inr ⟨l, rfl, by simpa using h2⟩
    · intro b hb
      rw [hb] at h3
      simp only at h3
      cases hl : b.lead with
      | none => rw [hl] at h3; cases h3
      | some ls => rw [hl] at h3; exact ⟨ls, rfl, by simpa using h3⟩

theorem initSt_inv {T : Table} {env : Env} {src : Str} {sp : Option (List Str)}
    (h2 : countNl src = 0 ∨ ∃ l, sp = some l ∧ countNl src + 1 ≤ l.length)
    (h3 : ∀ b, env.bq = some b → ∃ ls, b.lead = some ls ∧ b.idx + countNl src < ls.length) :
    Inv T env src (initSt T env src sp) := by
  refine ⟨rfl, ?_, ?_, ?_⟩
  · intro s hs hne; simp only [initSt] at hs; injection hs with hs; exact absurd hs.symm hne
  · simpa [initSt] using h2
  · intro b hb
    obtain ⟨ls, hl, hlen⟩ := h3 b hb
    refine ⟨ls, hl, ?_⟩
    simpa [initSt, hb] using hlen

/-- `process_inline_text_block` under the guard and the contract: it returns, or a handler raised; the trace is a chain over the
prepared text that ends where the final text piece starts. -/
theorem run_ok {T : Table} {env : Env} (hE : envOK env = true)
    (hT : ∀ src sp, prepare env = .ok (src, sp) → TableOK T src) :
    (∃ r, run T env = .ok r ∧ ∃ e, Chain r.src T.starts 0 r.trace e ∧ ∃ sp, prepare env = .ok (r.src, sp)) ∨
    (∃ c h q e, T.handler c = some h ∧ q.src[q.next]? = some c ∧ h q = .error e ∧ run T env = .error e) := by
  obtain ⟨src, sp, hp, h1, h2, h3⟩ := envOK_facts hE
  have hI := initSt_inv (T := T) (env := env) h2 h3
  have hm : measure src (initSt T env src sp) ≤ src.length + 1 := by
    unfold measure; split <;> omega
  unfold run runFuel fuelOf
  simp only [hp]
  rcases loop_ok (hT src sp hp) h1 0 (src.length + 1) (initSt T env src sp) [] hI hm (by simp [Chain, initSt]) with
    ⟨st', tr', hl, _, _, hC⟩ | ⟨c, h, q, e, g1, g2, g3, g4, g5⟩
  · rw [hl]; exact Or.inl ⟨_, rfl, st'.start, hC, sp, rfl⟩
  · rw [g5]; exact Or.inr ⟨c, h, q, e, g1, by rw [g2]; exact g3, g4, rfl⟩

end Verif.Model.InlineLoop
