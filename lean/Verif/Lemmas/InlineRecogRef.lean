/-
  Lemmas about the inline recogniser models, part 3: backslash escapes and character references
  (totality, progress, reassembly).
-/
import Verif.Lemmas.InlineRecogAngle
namespace Verif.Model.InlineRecog
open Verif.Model.Recognisers

/-! ## backslash -/

theorem slice_one {s : Str} {i : Nat} (h : i < s.length) : slice s i (i + 1) = [s[i]] := by
  rw [slice_cons (by omega) (by omega)]
  unfold slice
  rw [List.drop_eq_nil_of_le (by rw [List.length_take]; omega)]

theorem slice_two {s : Str} {i : Nat} (h : i + 1 < s.length) : slice s i (i + 2) = [s[i], s[i + 1]] := by
  rw [slice_cons (by omega) (by omega), slice_one h]

/-- `handle_inline_backslash` never fails; it consumes the backslash and, unless the text ends or a newline follows, one more
character; `new_string` without the `\b` signature is the consumed span -/
theorem handleInlineBackslash_ok (src : Str) (next : Nat) (sig : Bool) (hlt : next < src.length) (hc : src[next] = '\\') :
    ∃ r, handleInlineBackslash src next sig = .ok r ∧ next < r.newIndex ∧ r.newIndex ≤ src.length ∧
      (sig = true → src[next + 1]? ≠ some Codec.BS → r.newString.filter (· != Codec.BS) = slice src next r.newIndex) := by
  unfold handleInlineBackslash
  simp only
  by_cases h1 : next + 1 ≥ src.length
  · rw [if_pos h1]
    refine ⟨_, rfl, by simp only; omega, by simp only; omega, ?_⟩
    intro _ _
    simp only
    rw [slice_one hlt, hc]; decide
  · rw [if_neg h1]
    have hl : next + 1 < src.length := by omega
    rw [charAt_lt hl]
    simp only
    by_cases h2 : (src[next + 1] == '\n') = true
    · rw [if_pos h2]
      refine ⟨_, rfl, by simp only; omega, by simp only; omega, ?_⟩
      intro _ _
      simp only
      rw [slice_one hlt, hc]; decide
    · rw [if_neg h2]
      by_cases h3 : backslashPunct.contains src[next + 1] = true
      · rw [if_pos h3]
        refine ⟨_, rfl, by simp only; omega, by simp only; omega, ?_⟩
        intro hs hb
        subst hs
        rw [List.getElem?_eq_getElem hl] at hb
        have hb' : (src[next + 1] != Codec.BS) = true := by
          simp only [bne_iff_ne, ne_eq]; intro e; exact hb (by rw [e])
        simp only [if_true]
        rw [slice_two hl, hc]
        have hbs : ('\\' != Codec.BS) = true := by decide
        simp [List.filter, hb', hbs]
      · rw [if_neg h3]
        refine ⟨_, rfl, by simp only; omega, by simp only; omega, ?_⟩
        intro hs hb
        rw [List.getElem?_eq_getElem hl] at hb
        have hb' : (src[next + 1] != Codec.BS) = true := by
          simp only [bne_iff_ne, ne_eq]; intro e; exact hb (by rw [e])
        simp only
        rw [slice_two hl, hc]
        have hbs : ('\\' != Codec.BS) = true := by decide
        simp [List.filter, hb', hbs]

/-! ## character references -/

theorem take_takeWhile_length {α : Type} (p : α → Bool) : ∀ (l : List α), l.take (l.takeWhile p).length = l.takeWhile p
  | [] => rfl
  | c :: r => by
    by_cases h : p c = true
    · simp only [List.takeWhile_cons, h, if_true, List.length_cons, List.take_succ_cons, take_takeWhile_length p r]
    · simp only [List.takeWhile_cons, h]; rfl

/-- the text a forward scan passes over -/
theorem slice_scan (s : Str) (p : Char → Bool) (i : Nat) : slice s i (scanTo s p i) = (s.drop i).takeWhile p := by
  unfold scanTo
  rw [← slice_drop_take, take_takeWhile_length]

theorem numericHex_eq (src : Str) (ni : Nat) (h : ni < src.length) :
    numericHex src ni = .ok ('&' :: '#' :: src[ni] :: slice src (ni + 1) (scanTo src hexDigitChars.contains (ni + 1)),
      scanTo src hexDigitChars.contains (ni + 1),
      if 1 ≤ scanTo src hexDigitChars.contains (ni + 1) - (ni + 1) && scanTo src hexDigitChars.contains (ni + 1) - (ni + 1) ≤ 6
      then (parseHex (slice src (ni + 1) (scanTo src hexDigitChars.contains (ni + 1))) : Int) else -1) := by
  unfold numericHex
  rw [charAt_lt h]
  simp only
  rw [collectWhileOneOfVerified_eq _ _ _ (by omega)]

theorem numericDec_eq (src : Str) (ni : Nat) (h : ni ≤ src.length) :
    numericDec src ni = .ok ('&' :: '#' :: slice src ni (scanTo src digitChars.contains ni),
      scanTo src digitChars.contains ni,
      if 1 ≤ scanTo src digitChars.contains ni - ni && scanTo src digitChars.contains ni - ni ≤ 7
      then (parseDec (slice src ni (scanTo src digitChars.contains ni)) : Int) else -1) := by
  unfold numericDec
  rw [collectWhileOneOfVerified_eq _ _ _ h]

theorem slice_self (s : Str) (i : Nat) : slice s i i = [] := by
  unfold slice
  rw [List.drop_eq_nil_of_le (by rw [List.length_take]; omega)]

theorem slice_cons' {s : Str} {i j : Nat} {c : Char} (hi : i < s.length) (hc : s[i] = c) (hij : i < j) (hj : j ≤ s.length) :
    c :: slice s (i + 1) j = slice s i j := by
  rw [slice_cons hij hj, hc]

theorem guardedIs_char (s : Str) (i : Nat) (c : Char) : guardedIs s i (· == c) = .ok (s[i]? == some c) := by
  rw [guardedIs_eq]
  cases h : s[i]? with
  | none => rfl
  | some d => simp

/-- the `;` and the replacement character: returns or `chr()` raises; the recorded original is the consumed text -/
theorem numericFinish_ok (src : Str) (hash : Nat) (ns : Str) (e : Nat) (tr : Int)
    (hns : ns = slice src hash e) (he : e ≤ src.length) (hhe : hash < e) :
    (∃ cp ni orig, numericFinish src ('&' :: ns) e tr = .ok (cp, ni, orig) ∧ e ≤ ni ∧ ni ≤ src.length ∧
        (∀ o, orig = some o → o = '&' :: slice src hash ni) ∧ (orig = none → cp = cps ('&' :: slice src hash ni))) ∨
      (numericFinish src ('&' :: ns) e tr = .error .value ∧ 0x10FFFF < tr) := by
  unfold numericFinish
  rw [guardedIs_char, liftR_ok]
  simp only
  cases hsemi : (src[e]? == some ';')
  case false =>
    simp only [Bool.and_false, Bool.false_eq_true, if_false]
    left
    exact ⟨_, _, _, rfl, by omega, he, (fun o ho => by cases ho), fun _ => by rw [hns]⟩
  case true =>
    have h1 : src[e]? = some ';' := by simpa using hsemi
    have hel : e < src.length := by
      by_cases hl : e < src.length
      · exact hl
      · rw [List.getElem?_eq_none (by omega)] at h1; cases h1
    rw [List.getElem?_eq_getElem hel] at h1
    injection h1 with h1
    have horig : '&' :: ns ++ [';'] = '&' :: slice src hash (e + 1) := by
      rw [slice_snoc (by omega) hel, h1, hns]; rfl
    simp only [Bool.and_true, decide_eq_true_eq]
    by_cases h0 : 0 ≤ tr
    · simp only [h0, if_true]
      by_cases hz : (tr == 0) = true
      · simp only [hz, if_true]
        left
        exact ⟨_, _, _, rfl, by omega, by omega, by intro o ho; injection ho with ho; rw [← ho, horig], by intro hn; cases hn⟩
      · simp only [hz, Bool.false_eq_true, if_false]
        by_cases hbig : tr.toNat > 0x10FFFF
        · simp only [hbig, if_true]; right; exact ⟨trivial, by omega⟩
        · simp only [hbig, if_false]
          left
          exact ⟨_, _, _, rfl, by omega, by omega, by intro o ho; injection ho with ho; rw [← ho, horig], by intro hn; cases hn⟩
    · simp only [h0, if_false]
      left
      exact ⟨_, _, _, rfl, by omega, he, (fun o ho => by cases ho), fun _ => by rw [hns]⟩

/-- no `ValueError` when the number is a code point -/
theorem numericFinish_small (src : Str) (ns : Str) (e : Nat) (tr : Int) (h : tr ≤ 0x10FFFF) :
    numericFinish src ns e tr ≠ .error .value := by
  unfold numericFinish
  rw [guardedIs_char, liftR_ok]
  simp only
  by_cases hc : (decide (0 ≤ tr) && (src[e]? == some ';')) = true
  · simp only [hc, if_true]
    by_cases hz : (tr == 0) = true
    · simp only [hz, if_true]; intro hh; cases hh
    · simp only [hz, Bool.false_eq_true, if_false]
      have : ¬ tr.toNat > 0x10FFFF := by omega
      simp only [this, if_false]; intro hh; cases hh
  · simp only [hc, Bool.false_eq_true, if_false]; intro hh; cases hh

theorem guardedIs_ok (s : Str) (i : Nat) (p : Char → Bool) : ∃ b, guardedIs s i p = .ok b ∧ (b = true → i < s.length) := by
  refine ⟨_, guardedIs_eq s i p, ?_⟩
  intro h
  by_cases hl : i < s.length
  · exact hl
  · rw [List.getElem?_eq_none (by omega)] at h; cases h

/-- what a handler of `&` may answer: a result that moved forward inside the text and whose recorded original (if any) is the
consumed text, or — numeric references only — the `ValueError` of `chr()` -/
def RefOutcome (src : Str) (start : Nat) (x : Except IErr (List Nat × Nat × Option Str)) : Prop :=
  (∃ cp ni orig, x = .ok (cp, ni, orig) ∧ start < ni ∧ ni ≤ src.length ∧
      (∀ o, orig = some o → o = '&' :: slice src start ni) ∧ (orig = none → cp = cps ('&' :: slice src start ni))) ∨
    x = .error .value

theorem numericInner_ok (src : Str) (hash : Nat) (hl : hash < src.length) (hc : src[hash] = '#') :
    RefOutcome src hash (numericInner src hash) := by
  unfold numericInner
  simp only
  obtain ⟨hex, hg, hgl⟩ := guardedIs_ok src (hash + 1) ['x', 'X'].contains
  rw [hg, liftR_ok]
  simp only
  cases hex
  case true =>
    have hl1 : hash + 1 < src.length := hgl rfl
    simp only [if_true]
    rw [numericHex_eq _ _ hl1, liftR_ok]
    simp only
    have hge := scanTo_ge src hexDigitChars.contains (hash + 1 + 1)
    have hle := scanTo_le src hexDigitChars.contains (hash + 1 + 1) (by omega)
    have hns : '#' :: src[hash + 1] :: slice src (hash + 1 + 1) (scanTo src hexDigitChars.contains (hash + 1 + 1)) =
        slice src hash (scanTo src hexDigitChars.contains (hash + 1 + 1)) := by
      rw [slice_cons' hl1 rfl (by omega) hle, slice_cons' hl hc (by omega) hle]
    rcases numericFinish_ok src hash _ _ (if 1 ≤ scanTo src hexDigitChars.contains (hash + 1 + 1) - (hash + 1 + 1) &&
        scanTo src hexDigitChars.contains (hash + 1 + 1) - (hash + 1 + 1) ≤ 6
        then (parseHex (slice src (hash + 1 + 1) (scanTo src hexDigitChars.contains (hash + 1 + 1))) : Int) else -1)
        hns hle (by omega) with ⟨cp, ni, orig, h1, h2, h3, h4, h5⟩ | ⟨h1, _⟩
    · exact Or.inl ⟨cp, ni, orig, h1, by omega, h3, h4, h5⟩
    · exact Or.inr h1
  case false =>
    simp only [Bool.false_eq_true, if_false]
    rw [numericDec_eq _ _ (by omega), liftR_ok]
    simp only
    have hge := scanTo_ge src digitChars.contains (hash + 1)
    have hle := scanTo_le src digitChars.contains (hash + 1) (by omega)
    have hns : '#' :: slice src (hash + 1) (scanTo src digitChars.contains (hash + 1)) =
        slice src hash (scanTo src digitChars.contains (hash + 1)) := by
      rw [slice_cons' hl hc (by omega) hle]
    rcases numericFinish_ok src hash _ _ (if 1 ≤ scanTo src digitChars.contains (hash + 1) - (hash + 1) &&
        scanTo src digitChars.contains (hash + 1) - (hash + 1) ≤ 7
        then (parseDec (slice src (hash + 1) (scanTo src digitChars.contains (hash + 1))) : Int) else -1)
        hns hle (by omega) with ⟨cp, ni, orig, h1, h2, h3, h4, h5⟩ | ⟨h1, _⟩
    · exact Or.inl ⟨cp, ni, orig, h1, by omega, h3, h4, h5⟩
    · exact Or.inr h1

/-- a numeric reference whose digits denote a code point never raises -/
theorem numericInner_small (src : Str) (hash : Nat)
    (hdec : parseDec ((src.drop (hash + 1)).takeWhile digitChars.contains) ≤ 0x10FFFF)
    (hhex : parseHex ((src.drop (hash + 1 + 1)).takeWhile hexDigitChars.contains) ≤ 0x10FFFF) :
    numericInner src hash ≠ .error .value := by
  unfold numericInner
  simp only
  obtain ⟨hex, hg, hgl⟩ := guardedIs_ok src (hash + 1) ['x', 'X'].contains
  rw [hg, liftR_ok]
  simp only
  cases hex
  case true =>
    have hl1 : hash + 1 < src.length := hgl rfl
    simp only [if_true]
    rw [numericHex_eq _ _ hl1, liftR_ok]
    simp only
    apply numericFinish_small
    rw [slice_scan]
    split
    · omega
    · omega
  case false =>
    simp only [Bool.false_eq_true, if_false]
    by_cases hle : hash + 1 ≤ src.length
    · rw [numericDec_eq _ _ hle, liftR_ok]
      simp only
      apply numericFinish_small
      rw [slice_scan]
      split
      · omega
      · omega
    · unfold numericDec
      rw [collectWhileOneOfVerified_gt _ _ _ (by omega)]
      intro hh; cases hh

/-- what `handle_character_reference` may answer -/
def CharRefOutcome (src : Str) (next : Nat) (x : Except IErr CharRefRes) : Prop :=
  (∃ r, x = .ok r ∧ next < r.newIndex ∧ r.newIndex ≤ src.length ∧
      (∀ o, r.original = some o → o = slice src next r.newIndex) ∧
      (r.original = none → r.newCps = cps (slice src next r.newIndex))) ∨
    x = .error .value

theorem namedReference_ok (src : Str) (next : Nat) (hl : next < src.length) (hc : src[next] = '&') :
    CharRefOutcome src next (namedReference src (next + 1)) := by
  unfold namedReference
  rw [collectWhileOneOf_eq, liftR_ok]
  simp only [show next + 1 ≤ src.length by omega, if_true]
  have hge := scanTo_ge src (asciiLetters ++ digitChars).contains (next + 1)
  have hle := scanTo_le src (asciiLetters ++ digitChars).contains (next + 1) (by omega)
  have hone : cps (slice src next (next + 1)) = ['&'.toNat] := by rw [slice_one hl, hc]; rfl
  by_cases hemp : (slice src (next + 1) (scanTo src (asciiLetters ++ digitChars).contains (next + 1))).isEmpty = true
  · simp only [hemp, if_true]
    exact Or.inl ⟨_, rfl, by simp only; omega, by simp only; omega, (fun o ho => by cases ho), fun _ => hone.symm⟩
  · simp only [hemp, Bool.false_eq_true, if_false]
    have hgt : next + 1 < scanTo src (asciiLetters ++ digitChars).contains (next + 1) := by
      have := slice_length_scan src (asciiLetters ++ digitChars).contains (next + 1) (by omega)
      cases hh : slice src (next + 1) (scanTo src (asciiLetters ++ digitChars).contains (next + 1)) with
      | nil => rw [hh] at hemp; simp at hemp
      | cons _ _ => rw [hh] at this; simp at this; omega
    have hname : '&' :: slice src (next + 1) (scanTo src (asciiLetters ++ digitChars).contains (next + 1)) =
        slice src next (scanTo src (asciiLetters ++ digitChars).contains (next + 1)) :=
      slice_cons' hl hc (by omega) hle
    rw [guardedIs_char, liftR_ok]
    cases hsemi : (src[scanTo src (asciiLetters ++ digitChars).contains (next + 1)]? == some ';')
    case false =>
      exact Or.inl ⟨_, rfl, by simp only; omega, by simp only; omega, (fun o ho => by cases ho), fun _ => by simp only; rw [hname]⟩
    case true =>
      have h1 : src[scanTo src (asciiLetters ++ digitChars).contains (next + 1)]? = some ';' := by simpa using hsemi
      have hel : scanTo src (asciiLetters ++ digitChars).contains (next + 1) < src.length := by
        by_cases hlt : scanTo src (asciiLetters ++ digitChars).contains (next + 1) < src.length
        · exact hlt
        · rw [List.getElem?_eq_none (by omega)] at h1; cases h1
      rw [List.getElem?_eq_getElem hel] at h1
      injection h1 with h1
      have hfull : '&' :: slice src (next + 1) (scanTo src (asciiLetters ++ digitChars).contains (next + 1)) ++ [';'] =
          slice src next (scanTo src (asciiLetters ++ digitChars).contains (next + 1) + 1) := by
        rw [slice_snoc (by omega) hel, h1, ← hname]
      cases hlook : Verif.Gen.Entities.lookup (slice src (next + 1) (scanTo src (asciiLetters ++ digitChars).contains (next + 1))) with
      | some cp =>
        simp only
        exact Or.inl ⟨_, rfl, by simp only; omega, by simp only; omega,
          (fun o ho => by simp only [Option.some.injEq] at ho; rw [← ho, hfull]), fun hn => by cases hn⟩
      | none =>
        simp only
        exact Or.inl ⟨_, rfl, by simp only; omega, by simp only; omega, (fun o ho => by cases ho),
          fun _ => by simp only; rw [hfull]⟩

theorem namedReference_returns (src : Str) (ni : Nat) : ∃ r, namedReference src ni = .ok r := by
  unfold namedReference
  rw [collectWhileOneOf_eq, liftR_ok]
  by_cases hle : ni ≤ src.length
  · simp only [hle, if_true]
    by_cases hemp : (slice src ni (scanTo src (asciiLetters ++ digitChars).contains ni)).isEmpty = true
    · simp only [hemp, if_true]; exact ⟨_, rfl⟩
    · simp only [hemp, Bool.false_eq_true, if_false]
      rw [guardedIs_char, liftR_ok]
      cases (src[scanTo src (asciiLetters ++ digitChars).contains ni]? == some ';')
      · exact ⟨_, rfl⟩
      · simp only
        cases Verif.Gen.Entities.lookup (slice src ni (scanTo src (asciiLetters ++ digitChars).contains ni)) <;> exact ⟨_, rfl⟩
  · simp only [hle, if_false]; exact ⟨_, rfl⟩

/-- `handle_character_reference` at an `&`: returns and moves forward inside the text, or (numeric reference above U+10FFFF)
`chr()` raises `ValueError`; a recognised reference records exactly the consumed text, otherwise the new string IS the consumed text -/
theorem handleCharacterReference_ok (src : Str) (next : Nat) (hl : next < src.length) (hc : src[next] = '&') :
    CharRefOutcome src next (handleCharacterReference src next) := by
  unfold handleCharacterReference
  simp only
  obtain ⟨isNum, hg, hgl⟩ := guardedIs_ok src (next + 1) (· == '#')
  have hgv := guardedIs_char src (next + 1) '#'
  rw [hg] at hgv
  rw [hg, liftR_ok]
  cases isNum
  case false => exact namedReference_ok src next hl hc
  case true =>
    simp only
    have hl1 : next + 1 < src.length := hgl rfl
    have hhash : src[next + 1] = '#' := by
      injection hgv with hgv
      have : src[next + 1]? = some '#' := by simpa using hgv.symm
      rw [List.getElem?_eq_getElem hl1] at this
      injection this
    rcases numericInner_ok src (next + 1) hl1 hhash with ⟨cp, ni, orig, h1, h2, h3, h4, h5⟩ | h1
    · rw [h1]
      simp only
      have hsp : '&' :: slice src (next + 1) ni = slice src next ni := slice_cons' hl hc (by omega) h3
      exact Or.inl ⟨_, rfl, by simp only; omega, h3,
        (fun o ho => by rw [h4 o ho, hsp]), fun hn => by simp only; rw [h5 hn, hsp]⟩
    · rw [h1]
      exact Or.inr rfl

/-- no `ValueError` when the digits denote a code point -/
theorem handleCharacterReference_small (src : Str) (next : Nat)
    (hdec : parseDec ((src.drop (next + 1 + 1)).takeWhile digitChars.contains) ≤ 0x10FFFF)
    (hhex : parseHex ((src.drop (next + 1 + 1 + 1)).takeWhile hexDigitChars.contains) ≤ 0x10FFFF) :
    handleCharacterReference src next ≠ .error .value := by
  unfold handleCharacterReference
  simp only
  obtain ⟨isNum, hg, _⟩ := guardedIs_ok src (next + 1) (· == '#')
  rw [hg, liftR_ok]
  cases isNum
  case true =>
    simp only
    have := numericInner_small src (next + 1) hdec hhex
    cases hn : numericInner src (next + 1) with
    | error e =>
      simp only
      intro hh; injection hh with hh; subst hh; exact this hn
    | ok r => obtain ⟨a, b, c⟩ := r; simp only; intro hh; cases hh
  case false =>
    simp only
    obtain ⟨r, hr⟩ := namedReference_returns src (next + 1)
    rw [hr]; intro hh; cases hh

/-- the excluded points are real: `&#x110000;` and `&#1114112;` make `chr()` raise -/
theorem handleCharacterReference_excluded :
    handleCharacterReference ['&', '#', 'x', '1', '1', '0', '0', '0', '0', ';'] 0 = .error .value ∧
    handleCharacterReference ['&', '#', '1', '1', '1', '4', '1', '1', '2', ';'] 0 = .error .value := by
  constructor
  · unfold handleCharacterReference numericInner numericFinish
    simp only [guardedIs_eq, liftR_ok]
    rw [numericHex_eq _ _ (by decide), numericDec_eq _ _ (by decide)]
    decide
  · unfold handleCharacterReference numericInner numericFinish
    simp only [guardedIs_eq, liftR_ok]
    rw [numericHex_eq _ _ (by decide), numericDec_eq _ _ (by decide)]
    decide

end Verif.Model.InlineRecog
