/-
  Output algebra of the generator model: `flat`, `tagsOf`, `tagRun`, the virtual output (`transform_stack` entries in
  order, then `output_html`), and what the trailing / leading text steps do to it.
-/
import Verif.Model.GfmSpec
import Verif.Lemmas.GfmReset
namespace Verif.Lemmas.GfmOut
open Verif.Model.GfmRender Verif.Model.GfmSpec

theorem flat_append (a b : Out) : flat (a ++ b) = flat a ++ flat b := by
  induction a with
  | nil => rfl
  | cons c a ih => simp only [List.cons_append, flat, ih, List.append_assoc]

theorem tagsOf_append (a b : Out) : tagsOf (a ++ b) = tagsOf a ++ tagsOf b := by
  induction a with
  | nil => rfl
  | cons c a ih => cases c <;> simp [tagsOf, ih]

theorem tagsOf_optNL (b : Bool) : tagsOf (optNL b) = [] := by cases b <;> rfl

theorem tagRun_append (a b : List TagEv) : ∀ S, tagRun S (a ++ b) = (tagRun S a).bind fun T => tagRun T b := by
  induction a with
  | nil => intro S; rfl
  | cons e a ih =>
    intro S
    cases e with
    | opn t => simp only [List.cons_append, tagRun, ih]
    | cls t =>
      cases S with
      | nil => simp [tagRun]
      | cons t' S =>
        simp only [List.cons_append, tagRun]
        by_cases h : t = t'
        · simp only [h, if_true, ih]
        · simp [h]

theorem Chunk.flat_ne_nil_of_tag (c : Chunk) (h : tagsOf [c] ≠ []) : c.flat ≠ [] := by
  cases c <;> simp [tagsOf, Chunk.flat] at h ⊢

/-- an output that prints as the empty string contains no tag -/
theorem tagsOf_of_flat_nil : ∀ (o : Out), flat o = [] → tagsOf o = []
  | [], _ => rfl
  | c :: o, h => by
    simp only [flat, List.append_eq_nil_iff] at h
    have ih := tagsOf_of_flat_nil o h.2
    cases c <;> simp [tagsOf, ih, Chunk.flat] at h ⊢

theorem flat_ne_nil_append_left {a : Out} (b : Out) (h : flat a ≠ []) : flat (a ++ b) ≠ [] := by
  rw [flat_append]; intro h'; exact h (List.append_eq_nil_iff.mp h').1

theorem flat_ne_nil_append_right (a : Out) {b : Out} (h : flat b ≠ []) : flat (a ++ b) ≠ [] := by
  rw [flat_append]; intro h'; exact h (List.append_eq_nil_iff.mp h').2

/-- the text written so far, in document order: the stack entries bottom first, then the current output -/
def virt (stack : List Out) (o : Out) : Out := stack.reverse.flatten ++ o

theorem tagsOf_flatten_append (l : List Out) (x : Out) : tagsOf ((l ++ [x]).flatten) = tagsOf l.flatten ++ tagsOf x := by
  simp [List.flatten_append, tagsOf_append]

theorem tagsOf_virt_push (stack : List Out) (x : Out) : tagsOf (virt (x :: stack) []) = tagsOf (virt stack x) := by
  simp [virt, tagsOf_append]

theorem tagsOf_virt_append (stack : List Out) (o ext : Out) :
    tagsOf (virt stack (o ++ ext)) = tagsOf (virt stack o) ++ tagsOf ext := by
  simp [virt, tagsOf_append]

/-- `__apply_trailing_text` only adds the trailing text's tags (and newlines) -/
theorem applyTrailing_spec (st : St) (o tr : Out) (top : Out) (stack : List Out) (hs : st.stack = top :: stack) :
    ∃ o', applyTrailing st o tr = .ok ({ st with stack := stack }, o') ∧
      tagsOf (virt stack o') = tagsOf (virt st.stack o) ++ tagsOf tr ∧ (flat tr ≠ [] → flat o' ≠ []) := by
  unfold applyTrailing
  simp only [hs]
  refine ⟨_, rfl, ?_, ?_⟩
  · simp [virt, tagsOf_append, tagsOf_optNL]
  · intro h; exact flat_ne_nil_append_right _ h

/-- `__apply_leading_text` only adds the leading text's tags -/
theorem applyLeading_spec (st : St) (o ld : Out) :
    ∃ x, applyLeading st o ld = ({ st with stack := x :: st.stack }, []) ∧
      tagsOf (virt (x :: st.stack) []) = tagsOf (virt st.stack o) ++ tagsOf ld := by
  unfold applyLeading
  refine ⟨_, rfl, ?_⟩
  simp [virt, tagsOf_append, tagsOf_optNL]

theorem runToks_append (ts : List Tok) : ∀ (a b : List Tok) (acc : St × Out),
    runToks ts (a ++ b) acc = (match runToks ts a acc with | .error e => .error e | .ok acc' => runToks ts b acc') := by
  intro a
  induction a with
  | nil => intro b acc; rfl
  | cons t a ih =>
    intro b acc
    simp only [List.cons_append, runToks]
    cases stepTok ts acc t with
    | error e => rfl
    | ok acc' => exact ih b acc'

theorem runToks_cons (ts : List Tok) (t : Tok) (b : List Tok) (acc : St × Out) :
    runToks ts (t :: b) acc = (match stepTok ts acc t with | .error e => .error e | .ok acc' => runToks ts b acc') := rfl

end Verif.Lemmas.GfmOut
