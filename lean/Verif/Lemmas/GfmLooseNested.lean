/-
  The list-looseness calculation against the CommonMark definition, for lists whose children may be LISTS
  (no block quotes, no link reference definitions anywhere below the list).

    `looseness_lists` : for every well-formed stream and every list node `L = node i s kids e` of its tree with
      1. `NoQuoteDeep L`, 2. `NoLrdDeep L`, 3. `NoItemDoubleBlank kids`, 4. `ListKidsOK kids`
    `calculateListLooseness ts i = .ok (specLoose L)`.

  Hypothesis 4 (for a direct child `c` that is a list): the visible trailing blank of `c`, if any, is `c`'s own last
  token (`__handle_list_end` only looks at the token directly before the end token), and if `c` ends with such a blank
  and is not the last child, some later sibling is no BLANK.  Witnesses below show 3 and 4b cannot be dropped
  (1, 2 and 4a: `witness_nesting_blockQuote`, `witness_lrd_first`, `witness_nesting_listEnds` of `GfmLooseSpec`).
-/
import Verif.Lemmas.GfmLooseF
namespace Verif.Lemmas.GfmLooseNested
open Verif.Model.GfmRender Verif.Model.GfmSpec Verif.Lemmas.GfmBasic Verif.Lemmas.GfmLoose Verif.Lemmas.GfmLooseSpec

/-! ## The hypotheses -/

/-- no token of the subtree (any depth) is a block-quote start -/
def NoQuoteDeep (n : Node) : Prop := allToks (fun t => !t.isBqStart) n = true

/-- no token of the subtree (any depth) is a link reference definition -/
def NoLrdDeep (n : Node) : Prop := allToks (fun t => !t.isLrd) n = true

/-- no `li` child is directly followed by two BLANK children -/
def ItemsOK : List Node → Prop
  | [] => True
  | n :: ns => (n.tok.isLi = true → NoDoubleLeadingBlank ns) ∧ ItemsOK ns

/-- no item of the list begins with two BLANK children -/
def NoItemDoubleBlank (kids : List Node) : Prop := NoDoubleLeadingBlank kids ∧ ItemsOK kids

/-- the children are non-empty, the last one is a BLANK, and it is not the first child of its item
(there is a child before it, and that child is not `li`) -/
def lastBlankKids (ks : List Node) : Bool :=
  match ks.reverse with
  | b :: p :: _ => b.tok.isBlank && !p.tok.isLi
  | _ => false

def lastBlank : Node → Bool
  | .node _ _ ks _ => lastBlankKids ks
  | .leaf .. => false

/-- hypothesis 4 for the child `c` with later siblings `later` -/
def ListKidOK (later : List Node) (c : Node) : Prop :=
  c.tok.isListStart = true →
    c.trailingBlank.isSome = lastBlank c ∧
    (lastBlank c = true → later.isEmpty = false → ∃ n ∈ later, n.tok.isBlank = false)

def ListKidsOK : List Node → Prop
  | [] => True
  | c :: later => ListKidOK later c ∧ ListKidsOK later

instance (n : Node) : Decidable (NoQuoteDeep n) := by unfold NoQuoteDeep; infer_instance
instance (n : Node) : Decidable (NoLrdDeep n) := by unfold NoLrdDeep; infer_instance
instance decItemsOK : (ns : List Node) → Decidable (ItemsOK ns)
  | [] => .isTrue trivial
  | n :: ns =>
    have := decItemsOK ns
    inferInstanceAs (Decidable ((n.tok.isLi = true → NoDoubleLeadingBlank ns) ∧ ItemsOK ns))
instance (kids : List Node) : Decidable (NoItemDoubleBlank kids) := by unfold NoItemDoubleBlank; infer_instance
instance (later : List Node) (c : Node) : Decidable (ListKidOK later c) := by unfold ListKidOK; infer_instance
instance decListKidsOK : (ns : List Node) → Decidable (ListKidsOK ns)
  | [] => .isTrue trivial
  | c :: later =>
    have := decListKidsOK later
    inferInstanceAs (Decidable (ListKidOK later c ∧ ListKidsOK later))

/-! ## Specification side -/

theorem li_not_blank {t : Tok} (h : t.isLi = true) : t.isBlank = false := by
  obtain ⟨l, b⟩ := t
  cases b <;> simp_all [Tok.isLi, Tok.isBlank, Tok.isKind, Tok.kind?, Body.kind?]

theorem V_backState (ks : List Node) :
    V (backState ks (.start, 0)).1 (backState ks (.start, 0)).2 = lastBlankKids ks := by
  unfold lastBlankKids
  have hrev : ks = ks.reverse.reverse := by simp
  generalize ks.reverse = r at hrev ⊢
  subst hrev
  match r with
  | [] => simp [backState, V]
  | [b] =>
    simp only [List.reverse_cons, List.reverse_nil, List.nil_append, backState, List.foldl_cons, List.foldl_nil, stepB]
    by_cases h1 : b.tok.isLi = true
    · simp [h1, V]
    · by_cases h2 : b.tok.isBlank = true <;> simp [h1, h2, V]
  | b :: p :: r' =>
    simp only [List.reverse_cons, List.append_assoc, backState, List.foldl_append, List.foldl_cons, List.foldl_nil]
    generalize List.foldl stepB (PK.start, 0) r'.reverse = st
    obtain ⟨pk, nb⟩ := st
    by_cases h1 : b.tok.isLi = true
    · simp [stepB, h1, V, li_not_blank h1]
    · by_cases h2 : b.tok.isBlank = true
      · by_cases h3 : p.tok.isLi = true
        · simp [stepB, h1, h2, h3, V]
        · by_cases h4 : p.tok.isBlank = true
          · simp [stepB, h1, h2, h3, h4, V]
          · simp [stepB, h1, h2, h3, h4, V]
      · simp [stepB, h1, h2, V]

theorem looseKids_blockT {n : Node} (ns : List Node) (pk : PK) (nb : Nat) (h1 : n.tok.isLrd = false)
    (h2 : n.tok.isLi = false) (h3 : n.tok.isBlank = false) :
    looseKids (n :: ns) (lsOf pk nb) =
      if ((lsOf pk nb).seenBlock && (lsOf pk nb).gap) = true then true
      else looseKids ns ⟨false, true, n.trailingBlank.isSome, n.trailingBlank.isSome⟩ := by
  simp only [looseKids, h1, h2, h3, Bool.false_eq_true, if_false]

theorem looseKids_gap : ∀ (ns : List Node), (∀ n ∈ ns, n.tok.isLrd = false) → (∃ n ∈ ns, n.tok.isBlank = false) →
    looseKids ns ⟨false, true, true, true⟩ = true
  | [], _, h => by obtain ⟨n, hn, _⟩ := h; simp at hn
  | n :: ns, hl, h => by
    have h1 := hl n (by simp)
    by_cases h2 : n.tok.isLi = true
    · simp [looseKids, h1, h2]
    · by_cases h3 : n.tok.isBlank = true
      · simp only [looseKids, h1, h2, h3, Bool.false_eq_true, if_false, if_true]
        refine looseKids_gap ns (fun m hm => hl m (by simp [hm])) ?_
        obtain ⟨m, hm, hmb⟩ := h
        rcases List.mem_cons.mp hm with rfl | hm
        · rw [h3] at hmb; cases hmb
        · exact ⟨m, hm, hmb⟩
      · simp [looseKids, h1, h2, h3]

theorem cond_list (pk : PK) (nb : Nat) (h : pk ≠ .block → nb ≤ 1) :
    V pk nb = ((lsOf pk nb).seenBlock && (lsOf pk nb).gap) := by
  cases pk with
  | start =>
    have := h (by intro e; cases e)
    rcases nb with _ | _ | nb
    · simp [lsOf, V]
    · simp [lsOf, V]
    · omega
  | li =>
    have := h (by intro e; cases e)
    rcases nb with _ | _ | nb
    · simp [lsOf, V]
    · simp [lsOf, V]
    · omega
  | block => rcases nb with _ | _ | nb <;> simp [lsOf, V]

theorem gtree_tok_mem {par : Option Kind} {j : Nat} {seg : List Tok} {ns : List Node} (h : GTree par j seg ns) :
    ∀ n ∈ ns, n.tok ∈ seg := by
  induction h with
  | nil => intro n hn; simp at hn
  | atom _ _ _ _ ih =>
    intro n hn
    rcases List.mem_cons.mp hn with rfl | hn
    · simp [Node.tok]
    · exact List.mem_cons_of_mem _ (ih n hn)
  | node _ _ _ _ _ _ _ ihr =>
    intro n hn
    rcases List.mem_cons.mp hn with rfl | hn
    · simp [Node.tok]
    · have := ihr n hn
      simp [this]


/-! ## The loop over the children -/

theorem calc_lists {ts : List Tok} {i E p : Nat} {e : Tok} {rest : List Tok} {k : Kind} {f : Bool}
    (hk : k = .ulist ∨ k = .olist) (heb : e.body = .end_ k p f) (hR : Rng ts i E)
    (hFM : ∀ m t, ts[m]? = some t → t.isKind .frontMatter = true → m = 0) :
    ∀ {par : Option Kind} {j : Nat} {seg : List Tok} {ns : List Node}, GTree par j seg ns → par = some k →
      ∀ (pk : PK) (nb : Nat), (∀ t ∈ seg, t.isBqStart = false ∧ t.isLrd = false) → ItemsOK ns → ListKidsOK ns →
        ts.drop j = seg ++ e :: rest → j + seg.length = E → i < j → Back ts j pk nb →
        reallyLooseLoop ts j 0 = .ok true → (pk ≠ .block → nb + leadBlanks ns ≤ 1) →
        calcLoop ts (seg ++ e :: rest) j 0 false = .ok (looseKids ns (lsOf pk nb)) := by
  intro par j seg ns h
  induction h with
  | nil =>
    intro _ pk nb _ _ _ _ _ _ _ _ _
    obtain ⟨h1, h2, h3, h4, h5, _⟩ := tests_of_end heb
    have h3' : e.isBqEnd = false := by rw [h3]; rcases hk with rfl | rfl <;> rfl
    have h4' : e.isListEnd = true := by rw [h4]; rcases hk with rfl | rfl <;> rfl
    simp only [List.nil_append, calcLoop, forContainers, h1, h2, h3', h4', h5, handleListEnd, Bool.false_eq_true,
      if_false, if_true, beq_self_eq_true, bind, Except.bind, pure, Except.pure, looseKids]
  | @atom par j t k' rest0 ns hk' hst ha _ ih =>
    intro hpar pk nb hP hitems hlk hdrop hlen hij hback hrl hlead
    subst hpar
    obtain ⟨hP0, hP'⟩ := List.forall_mem_cons.mp hP
    obtain ⟨hit0, hitems'⟩ := hitems
    obtain ⟨_, hlk'⟩ := hlk
    simp only [Node.tok] at hit0
    have hnolrd0 := hP0.2
    obtain ⟨htj, hdrop'⟩ := drop_cons_step (by simpa using hdrop)
    simp only [List.length_cons] at hlen
    have hq := atom_quiet hk' hst
    have hrl' : reallyLooseLoop ts (j + 1) 0 = .ok true := by rw [rl_quiet htj hq]; exact hrl
    obtain ⟨t1, t2, t3, t4, t5, t6, t7, t8, t9⟩ := tests_of_kind hk'
    rw [List.cons_append, calcLoop_step' hrl hback t _ hq]
    rcases atom_kinds hk ha hst with rfl | rfl | rfl | rfl | rfl
    · -- li
      have hli : t.isLi = true := by rw [t5]; rfl
      have hbl : t.isBlank = false := by rw [t6]; rfl
      rw [looseKids_li (n := .leaf j t) _ _ _ hnolrd0 hli]
      simp only [hli, Bool.true_or, Bool.true_and, V]
      split
      · rfl
      · refine ih rfl .li 0 hP' hitems' hlk' hdrop' (by omega) (by omega) (back_after htj hbl hnolrd0 hli) hrl' ?_
        intro _
        have := leadBlanks_le (hit0 hli)
        omega
    · -- blank
      have hli : t.isLi = false := by rw [t5]; rfl
      have hbl : t.isBlank = true := by rw [t6]; rfl
      have hbk : t.isBlock = false := by rw [t9]; rfl
      rw [looseKids_blank (n := .leaf j t) _ _ _ hnolrd0 hli hbl]
      simp only [hli, hbk, Bool.false_or, Bool.and_false, Bool.false_and, Bool.false_eq_true, if_false]
      refine ih rfl pk (nb + 1) hP' hitems' hlk' hdrop' (by omega) (by omega) (back_blank hback htj hbl) hrl' ?_
      intro hp
      have := hlead hp
      simp only [leadBlanks, Node.tok, hbl, if_true] at this
      omega
    · -- tbreak
      have hli : t.isLi = false := by rw [t5]; rfl
      have hbl : t.isBlank = false := by rw [t6]; rfl
      have hbk : t.isBlock = true := by rw [t9]; rfl
      have het : t.isEndToken = false := by rw [t8]; rfl
      have hls : t.isListStart = false := by rw [t1]; rfl
      rw [looseKids_block (n := .leaf j t) _ _ _ hnolrd0 hli hbl (trailingBlank_leaf hbl)]
      simp only [hli, hbk, hnolrd0, Bool.false_or, Bool.and_true, Bool.not_false, V]
      rw [cond_block pk nb (fun hp => by have := hlead (by rw [hp]; intro e; cases e); omega)]
      split
      · rfl
      · exact ih rfl .block 0 hP' hitems' hlk' hdrop' (by omega) (by omega)
          (back_after htj hbl hnolrd0 ⟨hli, hls, Or.inl ⟨het, hbk⟩⟩) hrl' (fun h => absurd rfl h)
    · -- lrd
      rw [t7] at hnolrd0; cases hnolrd0
    · -- front matter
      have := hFM j t htj (by rw [isKind_of_kind hk']; rfl)
      omega
  | @node par j s0 k0 body0 e0 f0 rest0 ks ns hk0 hst ho hb he0 hrest0 _ ih =>
    intro hpar pk nb hP hitems hlk hdrop hlen hij hback hrl hlead
    subst hpar
    obtain ⟨hit0, hitems'⟩ := hitems
    obtain ⟨hlk0, hlk'⟩ := hlk
    have hP0 := hP s0 (by simp)
    have hPb : ∀ t ∈ body0, t.isBqStart = false ∧ t.isLrd = false := fun u hu => hP u (by simp [hu])
    have hPr : ∀ t ∈ rest0, t.isBqStart = false ∧ t.isLrd = false := fun u hu => hP u (by simp [hu])
    have hbqb : ∀ t ∈ body0, t.isBqStart = false := fun u hu => (hPb u hu).1
    have hnolrd0 := hP0.2
    obtain ⟨t1, t2, t3, t4, t5, t6, t7, t8, t9⟩ := tests_of_kind hk0
    obtain ⟨u1, u2, u3, u4, u5, u6, u7, u8, u9⟩ := tests_of_end he0
    obtain ⟨g1, g2, g3, g4⟩ := startOK_block hk ho hst
    have hli : s0.isLi = false := by rw [t5]; exact g3
    have hbl : s0.isBlank = false := by rw [t6]; exact g4
    have hbk : s0.isBlock = true := by rw [t9]; exact g1
    have hdrop0 : ts.drop j = s0 :: (body0 ++ (e0 :: (rest0 ++ e :: rest))) := by simpa using hdrop
    obtain ⟨htj, hdrop1⟩ := drop_cons_step hdrop0
    have hdrop2 := drop_append_step _ _ hdrop1
    obtain ⟨hte, hdrop3⟩ := drop_cons_step hdrop2
    simp only [List.length_cons, List.length_append] at hlen
    have hseg : (s0 :: (body0 ++ e0 :: rest0)) ++ e :: rest = s0 :: (body0 ++ (e0 :: (rest0 ++ e :: rest))) := by simp
    have hbackE : Back ts (j + 1 + body0.length + 1) .block 0 :=
      back_after hte u6 u7 ⟨u5, u1, Or.inr ⟨k0, j, f0, s0, he0, htj, hbk, hnolrd0⟩⟩
    have hlead' : PK.block ≠ PK.block → 0 + leadBlanks ns ≤ 1 := fun h => absurd rfl h
    rw [hseg, looseKids_blockT (n := .node j s0 ks e0) _ _ _ hnolrd0 hli hbl]
    by_cases hl : s0.isListStart = true
    · -- a child that is a list
      have hk0l := list_start_kind hk0 hl
      have hle : e0.isListEnd = true := by rw [u4, ← t1]; exact hl
      obtain ⟨h4a, h4b⟩ := hlk0 hl
      simp only [lastBlank] at h4a h4b
      rw [calcLoop_listStart hrl hback s0 _ hl, cond_list pk nb (fun hp => by have := hlead hp; omega)]
      split
      · rfl
      · rw [skipForest hR hb 1 _ (by omega) hbqb hdrop1 (by omega) (by omega)]
        have hbackc := back_forest hk0l hFM hb rfl _ .start 0 (fun u hu => (hPb u hu).2) hdrop1 (by omega)
          (back_after htj hbl hnolrd0 hl)
        have hrlc : reallyLooseLoop ts (j + 1 + body0.length) 0 = .ok true := by
          rw [rl_forest hb _ hbqb hdrop1 0, rl_top htj hl]
        have hrlE : reallyLooseLoop ts (j + 1 + body0.length + 1) 0 = .ok true := by
          rw [rl_end hte hle, rl_forest hb _ hbqb hdrop1, rl_start htj hl]; exact hrl
        cases rest0 with
        | nil =>
          have hns := gtree_nil hrest0
          subst hns
          obtain ⟨e1, e2, e3, e4, _⟩ := tests_of_end heb
          have hel : e.isListEnd = true := by rw [e4]; rcases hk with rfl | rfl <;> rfl
          have hnx : ts[j + 1 + body0.length + 1]? = some e := (drop_cons_step (by simpa using hdrop3)).1
          rw [List.nil_append, calcLoop_listEnd hrlc hbackc e0 e rest hle hnx]
          simp only [hel, Bool.not_true, Bool.false_and, Bool.false_eq_true, if_false]
          simp only [List.length_nil] at hlen
          have := ih rfl .block 0 hPr hitems' hlk' hdrop3 (by simp only [List.length_nil]; omega) (by omega) hbackE hrlE
            hlead'
          simp only [List.nil_append] at this
          rw [this]
          simp [looseKids]
        | cons t' r' =>
          obtain ⟨hnl, n', ns', hns⟩ := gtree_cons_head hrest0
          have hnx : ts[j + 1 + body0.length + 1]? = some t' := (drop_cons_step (by simpa using hdrop3)).1
          rw [List.cons_append, calcLoop_listEnd hrlc hbackc e0 t' _ hle hnx, V_backState]
          simp only [hnl, Bool.not_false, Bool.true_and]
          by_cases hlb : lastBlankKids ks = true
          · simp only [hlb, if_true]
            rw [h4a, hlb]
            have hne : ns.isEmpty = false := by rw [hns]; rfl
            rw [looseKids_gap ns (fun m hm => (hPr _ (gtree_tok_mem hrest0 m hm)).2) (h4b hlb hne)]
          · simp only [Bool.not_eq_true] at hlb
            simp only [hlb, Bool.false_eq_true, if_false]
            rw [h4a, hlb]
            exact ih rfl .block 0 hPr hitems' hlk' hdrop3 (by simp only [List.length_cons] at hlen ⊢; omega) (by omega)
              hbackE hrlE hlead'
    · -- a leaf block
      simp only [Bool.not_eq_true] at hl
      have hq : quiet s0 = true := by simp [quiet, hl, hP0.1, t3, t4]
      have hkinds := node_kinds hk ho hst (by rw [← t1]; exact hl) (by rw [← t2]; exact hP0.1)
      have hcls : k0.cls = .leaf := by rcases hkinds with rfl | rfl | rfl | rfl | rfl | rfl <;> rfl
      have hqe : quiet e0 = true := quiet_of_inl (inl_of_inline_end he0 (Or.inr hcls))
      have hrlE : reallyLooseLoop ts (j + 1 + body0.length + 1) 0 = .ok true := by
        rw [rl_quiet hte hqe, rl_forest hb _ hbqb hdrop1, rl_quiet htj hq]; exact hrl
      rw [calcLoop_step' hrl hback s0 _ hq, trailingBlank_leafBlock hl hP0.1]
      simp only [hli, hbk, hnolrd0, Bool.false_or, Bool.and_true, Bool.not_false, V]
      rw [cond_block pk nb (fun hp => by have := hlead (by rw [hp]; intro e; cases e); omega)]
      split
      · rfl
      · have hinl : ∀ t ∈ body0 ++ [e0], inl t = true := by
          intro t ht
          rcases List.mem_append.mp ht with ht | ht
          · exact gtree_inline hb (by simp [inlineCtx, hcls]) t ht
          · simp only [List.mem_singleton] at ht
            subst ht
            exact inl_of_inline_end he0 (Or.inr hcls)
        have hdrop1' : ts.drop (j + 1) = (body0 ++ [e0]) ++ (rest0 ++ e :: rest) := by simpa using hdrop1
        have hseg2 : body0 ++ e0 :: (rest0 ++ e :: rest) = (body0 ++ [e0]) ++ (rest0 ++ e :: rest) := by simp
        have eidx : j + 1 + (body0 ++ [e0]).length = j + 1 + body0.length + 1 := by simp; omega
        rw [hseg2, calcLoop_skipMany _ _ (j + 1) s0 hinl (by omega) (by simpa using htj) hbl hdrop1', eidx]
        exact ih rfl .block 0 hPr hitems' hlk' hdrop3 (by omega) (by omega) hbackE hrlE hlead'


/-! ## The theorem -/

theorem looseness_lists (ts : List Tok) (hwf : WellFormed ts) (i : Nat) (s e : Tok) (kids : List Node)
    (hfind : (treeOf ts).bind (findIn i) = some (Node.node i s kids e)) (hs : s.isListStart = true)
    (hnq : NoQuoteDeep (Node.node i s kids e)) (hnl : NoLrdDeep (Node.node i s kids e))
    (hnd : NoItemDoubleBlank kids) (hlk : ListKidsOK kids) :
    calculateListLooseness ts i = .ok (specLoose (Node.node i s kids e)) := by
  obtain ⟨ns, hg⟩ := gtree_of_gforest (gforest_of_wellFormed hwf)
  rw [treeOf_gtree hg] at hfind
  simp only [Option.bind_some] at hfind
  obtain ⟨pre, body, rest, k, f, hts, hpre, hsk, hst, heb, hbody⟩ := gtree_find hg hfind
  simp only [Nat.zero_add] at hpre
  have hk := list_start_kind hsk hs
  have hsi : ts[i]? = some s := by
    rw [hts, ← hpre]; simp
  have hdrop : ts.drop (i + 1) = body ++ e :: rest := by
    rw [hts, ← hpre]
    have : pre ++ s :: (body ++ e :: rest) = (pre ++ [s]) ++ (body ++ e :: rest) := by simp
    rw [this, List.drop_append]
    simp
  have hlen := length_of_drop hdrop (by simp)
  simp only [List.length_append, List.length_cons] at hlen
  have hei : ts[i + 1 + body.length]? = some e := by
    rw [getElem?_of_drop hdrop body.length]; simp
  obtain ⟨l1, l2, l3, l4, l5⟩ := listStart_tests hs
  have hset : s.isEndToken = false := by
    rw [isEndToken_of_kind hsk]; rcases hk with rfl | rfl <;> rfl
  -- no block quote, no definition among the tokens of the body
  simp only [NoQuoteDeep, NoLrdDeep, allToks, Bool.and_eq_true] at hnq hnl
  have hq := allToksL_gtree hbody hnq.1.2
  have hl := allToksL_gtree hbody hnl.1.2
  have hP : ∀ t ∈ body, t.isBqStart = false ∧ t.isLrd = false := fun t ht =>
    ⟨by simpa using hq t ht, by simpa using hl t ht⟩
  -- the range of the list
  have hR : Rng ts i (i + 1 + body.length) := by
    refine ⟨by omega, ⟨s, hsi, l3⟩, ?_⟩
    intro m t h1 h2 hmt hte
    by_cases hmi : m = i
    · subst hmi
      rw [hsi] at hmt
      simp only [Option.some.injEq] at hmt
      subst hmt
      rw [hset] at hte; cases hte
    · by_cases hmE : m = i + 1 + body.length
      · subst hmE
        rw [hei] at hmt
        simp only [Option.some.injEq] at hmt
        subst hmt
        exact ⟨k, i, f, s, heb, hsi⟩
      · have hmem := mem_of_drop hdrop (show i + 1 ≤ m by omega) (by omega) hmt
        obtain ⟨k', p, f', g1, g2, g3⟩ := gtree_ptr hbody rfl t hmem hte
        obtain ⟨s', hs'⟩ := exists_getElem? (l := ts) (m := p) (by omega)
        exact ⟨k', p, f', s', g1, hs'⟩
  have hback : Back ts (i + 1) .start 0 := back_after hsi l3 l4 hs
  unfold calculateListLooseness
  rw [hdrop]
  have := calc_lists (rest := rest) hk heb hR (frontMatter_first hwf) hbody rfl .start 0 hP hnd.2 hlk hdrop rfl
    (by omega) hback (rl_top hsi hs) (fun _ => by have := leadBlanks_le hnd.1; omega)
  rw [this]
  rfl

/-! ## Non-vacuity: the tokens of `- a\n  - b\n\n- c\n` -/

def wNested : List Tok :=
  [T 1 .ulist, T 1 .para, tx, E .para 1, T 2 .ulist, T 2 .para, tx, E .para 5, T 3 .blank, E .ulist 4, T 4 .li,
   T 4 .para, tx, E .para 11, E .ulist 0, T 5 .eos]

def wNestedKids : List Node :=
  [.node 1 (T 1 .para) [.leaf 2 tx] (E .para 1),
   .node 4 (T 2 .ulist) [.node 5 (T 2 .para) [.leaf 6 tx] (E .para 5), .leaf 8 (T 3 .blank)] (E .ulist 4),
   .leaf 10 (T 4 .li), .node 11 (T 4 .para) [.leaf 12 tx] (E .para 11)]

/-- every hypothesis of `looseness_lists` holds on `wNested` at index 0, and both sides are `true` -/
example :
    WellFormed wNested ∧
    (treeOf wNested).bind (findIn 0) = some (Node.node 0 (T 1 .ulist) wNestedKids (E .ulist 0)) ∧
    (T 1 .ulist).isListStart = true ∧
    NoQuoteDeep (Node.node 0 (T 1 .ulist) wNestedKids (E .ulist 0)) ∧
    NoLrdDeep (Node.node 0 (T 1 .ulist) wNestedKids (E .ulist 0)) ∧
    NoItemDoubleBlank wNestedKids ∧ ListKidsOK wNestedKids ∧
    calculateListLooseness wNested 0 = .ok true ∧
    specLoose (Node.node 0 (T 1 .ulist) wNestedKids (E .ulist 0)) = true :=
  ⟨by decide, rfl, rfl, by decide, by decide, by decide, by decide, by decide, rfl⟩

/-- the theorem applied to the example -/
example : calculateListLooseness wNested 0 = .ok (specLoose (Node.node 0 (T 1 .ulist) wNestedKids (E .ulist 0))) :=
  looseness_lists wNested (by decide) 0 _ _ wNestedKids rfl rfl (by decide) (by decide) (by decide) (by decide)

/-! ## Hypotheses 3 and 4b cannot be dropped -/

/-- a later item beginning with two BLANK tokens, then a list (only `NoItemDoubleBlank` fails) -/
def wItemTwoBlanks : List Tok :=
  [T 1 .ulist, T 2 .li, T 2 .blank, T 3 .blank, T 4 .ulist, E .ulist 4, E .ulist 0, T 5 .eos]

theorem witness_item_two_blanks :
    WellFormed wItemTwoBlanks ∧ calculateListLooseness wItemTwoBlanks 0 = .ok true ∧
      specLooseAt wItemTwoBlanks 0 = some false := by
  decide

/-- an inner list ending with a blank line, followed only by BLANK tokens (only 4b fails) -/
def wInnerBlankThenBlank : List Tok :=
  [T 1 .ulist, T 1 .ulist, T 1 .para, tx, E .para 2, T 2 .blank, E .ulist 1, T 3 .blank, E .ulist 0, T 4 .eos]

theorem witness_inner_blank_then_blank :
    WellFormed wInnerBlankThenBlank ∧ calculateListLooseness wInnerBlankThenBlank 0 = .ok true ∧
      specLooseAt wInnerBlankThenBlank 0 = some false := by
  decide

/-- the node whose first token has index `i` -/
def nodeAt (ts : List Tok) (i : Nat) : Node :=
  match (treeOf ts).bind (findIn i) with
  | some n => n
  | none => .leaf 0 (T 0 .eos)

/-- on each witness exactly one hypothesis fails (`wNestEnds`: 4a; `wNestBq`: 1; `wLrdFirst`: 2) -/
theorem witness_hypotheses_nested :
    (NoQuoteDeep (nodeAt wItemTwoBlanks 0) ∧ NoLrdDeep (nodeAt wItemTwoBlanks 0) ∧
      ¬ NoItemDoubleBlank (kidsAt wItemTwoBlanks 0) ∧ ListKidsOK (kidsAt wItemTwoBlanks 0)) ∧
    (NoQuoteDeep (nodeAt wInnerBlankThenBlank 0) ∧ NoLrdDeep (nodeAt wInnerBlankThenBlank 0) ∧
      NoItemDoubleBlank (kidsAt wInnerBlankThenBlank 0) ∧ ¬ ListKidsOK (kidsAt wInnerBlankThenBlank 0)) ∧
    (NoQuoteDeep (nodeAt wNestEnds 0) ∧ NoLrdDeep (nodeAt wNestEnds 0) ∧
      NoItemDoubleBlank (kidsAt wNestEnds 0) ∧ ¬ ListKidsOK (kidsAt wNestEnds 0)) ∧
    (¬ NoQuoteDeep (nodeAt wNestBq 0) ∧ NoLrdDeep (nodeAt wNestBq 0) ∧ NoItemDoubleBlank (kidsAt wNestBq 0)) ∧
    (NoQuoteDeep (nodeAt wLrdFirst 0) ∧ ¬ NoLrdDeep (nodeAt wLrdFirst 0) ∧ NoItemDoubleBlank (kidsAt wLrdFirst 0) ∧
      ListKidsOK (kidsAt wLrdFirst 0)) := by
  decide

end Verif.Lemmas.GfmLooseNested

section
open Verif.Lemmas.GfmLooseNested
#print axioms looseness_lists
#print axioms witness_item_two_blanks
#print axioms witness_inner_blank_then_blank
#print axioms witness_hypotheses_nested
end
