/-
  One list near the top of the stack (absolute-whitespace convention), the `is_first_item_in_list` clause, the result fields.
-/
import Verif.Lemmas.ListStartsCases
namespace Verif.Model.ListStarts
open Verif.Model.Recognisers (Str charAt slice isCharAtOneOf isWsAt extractSpacesVerified calcLength lenLe isStartUlist isStartOlist
  SP TAB scanTo digits thematicBodyB)
open Verif.Model.ListStartsSpec (Marker MarkerAt parseMarker followOkB isSpTab isDigit isDelim isBulletChar Blank blankB
  IsThematic ItemStart CanInterrupt numberOf colsFrom SameType)

/-! ## `__calculate_starts_within_paragraph`: same list or new list -/

/-- the character the recognisers hand to phase two: the bullet, or the delimiter -/
def Marker.ch : Marker → Char
  | .bullet c => c
  | .ordered _ d => d

/-- the list token on the stack was created from the marker `m2` -/
def EntryOf (e : Entry) (m2 : Marker) : Prop :=
  e.isList = true ∧ e.listChar = m2.text ∧ m2.Valid ∧ e.isOrdered = m2.isOrdered

theorem last_text (m : Marker) : m.text.getLast? = some (Marker.ch m) := by
  cases m with
  | bullet c => rfl
  | ordered ds d => simp [Marker.text, Marker.ch]

theorem valid_ch_ne {a b : Marker} (ha : a.Valid) (hb : b.Valid) (hne : a.isOrdered ≠ b.isOrdered) :
    Marker.ch a ≠ Marker.ch b := by
  cases a with
  | bullet c =>
    cases b with
    | bullet c' => exact absurd rfl hne
    | ordered ds d =>
      obtain ⟨-, -, -, hd⟩ := hb
      simp only [Marker.ch]
      rcases ha with h | h | h <;> rcases hd with h' | h' <;> subst h <;> subst h' <;> decide
  | ordered ds d =>
    cases b with
    | ordered ds' d' => exact absurd rfl hne
    | bullet c' =>
      obtain ⟨-, -, -, hd⟩ := ha
      simp only [Marker.ch]
      rcases hb with h | h | h <;> rcases hd with h' | h' <;> subst h <;> subst h' <;> decide

/-- `is_first_item_in_list` is `False` exactly for a marker of the enclosing list's type left of the enclosing item's content -/
theorem firstPure_spec (t2 : Entry) (m2 m : Marker) (h2 : EntryOf t2 m2) (hv : m.Valid) (start : Nat) :
    firstPure t2 start (!m.isOrdered) (Marker.ch m) = false ↔ SameType m m2 ∧ start < t2.indent := by
  obtain ⟨hl, hc, hv2, ho⟩ := h2
  unfold firstPure
  rw [hl, hc, last_text, ho]
  simp only [Bool.not_true, Bool.false_eq_true, ↓reduceIte, Option.getD_some]
  cases m with
  | bullet c =>
    cases m2 with
    | bullet c2 =>
      simp only [Marker.isOrdered, Bool.not_false, Bool.and_false, Bool.false_eq_true, ↓reduceIte, Marker.ch, SameType]
      by_cases hcc : c = c2
      · subst hcc; simp
      · simp [hcc]
    | ordered ds2 d2 =>
      simp [Marker.isOrdered, SameType]
  | ordered ds d =>
    cases m2 with
    | bullet c2 =>
      have := valid_ch_ne (a := .ordered ds d) (b := .bullet c2) hv hv2 (by simp [Marker.isOrdered])
      simp only [Marker.ch] at this
      simp [Marker.isOrdered, SameType, Marker.ch, this]
    | ordered ds2 d2 =>
      simp only [Marker.isOrdered, Bool.not_true, Bool.false_and, Bool.false_eq_true, ↓reduceIte, Marker.ch, SameType]
      by_cases hcc : d = d2
      · subst hcc; simp
      · simp [hcc]

/-! ## one list near the top -/

/-- exactly one list among the tokens the recognisers look at: on top, or directly below a non-list top -/
def ChildOnly (top : Entry) (t2 t3 : Option Entry) (child : Entry) : Prop :=
  (top = child ∧ child.isList = true ∧ ∀ e, t2 = some e → e.isList = false) ∨
  (top.isList = false ∧ t2 = some child ∧ child.isList = true ∧ ∀ e, t3 = some e → e.isList = false)

theorem cpPure_childOnly {top : Entry} {t2 t3 : Option Entry} {child : Entry} (h : ChildOnly top t2 t3 child) :
    cpPure top t2 t3 = (some child, none) := by
  unfold cpPure
  rcases h with ⟨h1, h2, h3⟩ | ⟨h1, h2, h3, h4⟩
  · subst h1
    rw [h2]
    simp only [↓reduceIte]
    cases t2 with
    | none => rfl
    | some e => simp [Option.filter, h3 e rfl]
  · rw [h1, h2]
    simp only [Bool.false_eq_true, ↓reduceIte, h3]
    cases t3 with
    | none => rfl
    | some e => simp [Option.filter, h4 e rfl]

/-- the column where the content of the container the line is compared with begins -/
def containerCol (child : Entry) (start : Nat) : Nat :=
  if start ≥ itemLevel child then child.indent else 0

theorem colsFrom_notab (w : Str) (h : TAB ∉ w) : colsFrom 0 w = w.length := by
  have : ∀ (col : Nat) (w : Str), TAB ∉ w → ListStartsSpec.advance col w = col + w.length := by
    intro col w
    induction w generalizing col with
    | nil => intro _; rfl
    | cons c cs ih =>
      intro hw
      have hc : (c == '\t') = false := by
        rw [beq_eq_false_iff_ne]; intro hc; apply hw; rw [hc]; exact List.mem_cons_self ..
      simp only [ListStartsSpec.advance, hc, Bool.false_eq_true, ↓reduceIte, List.length_cons]
      rw [ih _ (fun hm => hw (List.mem_cons_of_mem _ hm))]
      omega
  unfold colsFrom
  rw [this 0 w h]; omega

theorem notab_drop {w : Str} (h : TAB ∉ w) (n : Nat) : TAB ∉ w.drop n := fun hm => h (List.mem_of_mem_drop hm)

/-- `is_ulist_start` with one list near the top, `adj_ws = None`, tab-free extracted whitespace -/
theorem ulist_child {top : Entry} {t2 t3 : Option Entry} {child : Entry} (hch : ChildOnly top t2 t3 child)
    (line : Str) (start : Nat) (ews : Str) (hnt : TAB ∉ ews) :
    (ulistPure top t2 t3 line start ews false none).isStart = true ↔
      ∃ c rest, ews.length ≤ 3 + containerCol child start ∧ MarkerAt (line.drop start) (.bullet c) rest ∧
        ¬ IsThematic (line.drop start) ∧
        paraRefuses top t2 (blankB rest) false start = false ∧ blockWithin top t2 start = false := by
  rw [ulistPure_isStart, cpPure_childOnly hch]
  simp only [adjustPure, exWsOf, Option.getD_none, Bool.or_false, Bool.and_eq_true, Bool.not_eq_true', Bool.and_eq_false_iff]
  have hcc : (if start ≥ itemLevel child then child.indent else 0) = containerCol child start := rfl
  rw [hcc, lenLe_iff_cols, colsFrom_notab ews hnt]
  constructor
  · rintro ⟨⟨⟨⟨hi, hm⟩, ht⟩, hp⟩, hb⟩
    obtain ⟨c, rest, hma⟩ := (isBulletMarker_iff _).mp hm
    refine ⟨c, rest, hi, hma, ?_, ?_, hb⟩
    · intro hth
      rcases ht with ht | ht
      · have : lenLe (thematicWs ews (containerCol child start)) 3 = true := by
          rw [lenLe_iff_cols]
          unfold thematicWs
          split
          · rw [colsFrom_notab _ (notab_drop hnt _), List.length_drop]; omega
          · rw [colsFrom_notab _ hnt]; omega
        rw [this] at ht; cases ht
      · rw [(ListStartsSpec.thematicBodyB_iff_IsThematic _).mpr hth] at ht; cases ht
    · rw [bullet_rest hma] at hp; exact hp
  · rintro ⟨c, rest, hi, hma, hnth, hp, hb⟩
    refine ⟨⟨⟨⟨hi, (isBulletMarker_iff _).mpr ⟨c, rest, hma⟩⟩, ?_⟩, ?_⟩, hb⟩
    · right
      cases hbb : thematicBodyB (line.drop start)
      · rfl
      · exact absurd ((ListStartsSpec.thematicBodyB_iff_IsThematic _).mp hbb) hnth
    · rw [bullet_rest hma]; exact hp

/-! ## the result fields -/

theorem afterWs_rest (line : Str) (j : Nat) : afterWs line j = j + ((line.drop j).takeWhile isSpTab).length := by
  unfold afterWs scanTo
  have hp : [SP, TAB].contains = isSpTab := funext wsContains_isSpTab
  rw [hp]

theorem ulistPure_fields (top : Entry) (t2 t3 : Option Entry) (line : Str) (start : Nat) (ews : Str) (skip : Bool)
    (adj : Option Str) :
    (ulistPure top t2 t3 line start ews skip adj).index = some (start : Int) ∧
      (ulistPure top t2 t3 line start ews skip adj).digits = some 0 ∧
      ((ulistPure top t2 t3 line start ews skip adj).isStart = true →
        (ulistPure top t2 t3 line start ews skip adj).after = ((afterWs line (start + 1) : Nat) : Int)) := by
  unfold ulistPure
  simp only
  split
  · split
    · exact ⟨rfl, rfl, fun _ => rfl⟩
    · exact ⟨rfl, rfl, fun h => by cases h⟩
  · exact ⟨rfl, rfl, fun h => by cases h⟩

theorem olistPure_fields (top : Entry) (t2 t3 : Option Entry) (line : Str) (start : Nat) (ews : Str) (skip : Bool)
    (adj : Option Str) (h : (olistPure top t2 t3 line start ews skip adj).isStart = true) :
    (olistPure top t2 t3 line start ews skip adj).index = some (digitsEnd line start : Int) ∧
      (olistPure top t2 t3 line start ews skip adj).digits = some (digitsEnd line start - start) ∧
      (olistPure top t2 t3 line start ews skip adj).after = ((afterWs line (digitsEnd line start + 1) : Nat) : Int) := by
  unfold olistPure at h ⊢
  simp only at h ⊢
  split
  · split
    · split
      · split
        · exact ⟨rfl, rfl, rfl⟩
        · next h1 h2 h3 h4 => rw [if_pos h1, if_pos h2, if_pos h3, if_neg h4] at h; cases h
      · next h1 h2 h3 => rw [if_pos h1, if_pos h2, if_neg h3] at h; cases h
    · next h1 h2 => rw [if_pos h1, if_neg h2] at h; cases h
  · next h1 => rw [if_neg h1] at h; cases h

end Verif.Model.ListStarts
