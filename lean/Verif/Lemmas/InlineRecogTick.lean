/-
  Lemmas about the inline recogniser models, part 4: code spans (`handle_inline_backtick`): totality, progress,
  fuel sufficiency, reassembly.
-/
import Verif.Lemmas.InlineRecogRef
namespace Verif.Model.InlineRecog
open Verif.Model.Recognisers

/-! ## `str.find` of a pattern: where it is found, the pattern is -/

theorem pyFind_at {s pat : Str} {start p : Nat} (h : pyFind s pat start = some p) :
    start ≤ p ∧ p + pat.length ≤ s.length ∧ slice s p (p + pat.length) = pat := by
  have hb := pyFind_bound h
  refine ⟨hb.1, hb.2, ?_⟩
  unfold pyFind at h
  split at h
  · cases hf : findSub pat (s.drop start) with
    | none => rw [hf] at h; cases h
    | some q =>
      rw [hf] at h
      simp only [Option.map_some, Option.some.injEq] at h
      have := findSub_at hf
      rw [List.drop_drop] at this
      have hq : start + q = p := by omega
      rw [hq] at this
      obtain ⟨t, ht⟩ := List.isPrefixOf_iff_prefix.mp this
      rw [← slice_drop_take, ← ht, List.take_left' rfl]
  · cases h

theorem mem_of_pyFind {s pat : Str} {start p : Nat} {c : Char} (h : pyFind s pat start = some p) (hc : c ∈ pat) : c ∈ s := by
  have := (pyFind_at h).2.2
  rw [← this] at hc
  exact mem_slice hc

/-! ## the closing-run loop -/

/-- enough fuel: the loop returns; a closing run starts after the opening run and lies inside the text -/
theorem tickCloseLoop_ok (src ticks : Str) (hne : ∃ r, ticks = '`' :: r) (lo : Nat) :
    ∀ (fuel : Nat) (o : Option Nat),
      (∀ e, o = some e → lo ≤ e ∧ src.length - e < fuel ∧ e + ticks.length ≤ src.length ∧ slice src e (e + ticks.length) = ticks) →
      ∃ r, tickCloseLoop src ticks fuel o = .ok r ∧
        ∀ e, r = some e → lo ≤ e ∧ e + ticks.length ≤ src.length ∧ slice src e (e + ticks.length) = ticks
  | fuel, none, _ => by cases fuel <;> exact ⟨none, by simp [tickCloseLoop], by intro e h; cases h⟩
  | 0, some e, h => by have := (h e rfl).2.1; omega
  | fuel + 1, some e, h => by
    obtain ⟨h1, h2, hb, hs⟩ := h e rfl
    obtain ⟨r, hr⟩ := hne
    have hlen : 1 ≤ ticks.length := by rw [hr]; simp
    have hel : e < src.length := by omega
    have he : src[e] = '`' := by
      have : slice src e (e + ticks.length) = '`' :: r := by rw [hs, hr]
      rw [slice_cons (by omega) hb] at this
      injection this
    rw [tickCloseLoop, collectWhileOneOfVerified_eq _ _ _ (by omega)]
    simp only
    split
    · exact ⟨some e, rfl, by intro e' he'; injection he' with he'; subst he'; exact ⟨h1, hb, hs⟩⟩
    · have hgt : e < scanTo src ['`'].contains e := scanTo_gt hel (by rw [he]; decide)
      apply tickCloseLoop_ok src ticks ⟨r, hr⟩ lo fuel
      intro e' he'
      have := pyFind_at he'
      exact ⟨by omega, by omega, this.2.1, this.2.2⟩

/-- the fuel supplied is sufficient: more fuel does not change the result -/
theorem tickCloseLoop_fuel (src ticks : Str) (hne : ∃ r, ticks = '`' :: r) :
    ∀ (f1 f2 : Nat) (o : Option Nat),
      (∀ e, o = some e → src.length - e < f1 ∧ src.length - e < f2 ∧ e + ticks.length ≤ src.length ∧
        slice src e (e + ticks.length) = ticks) →
      tickCloseLoop src ticks f1 o = tickCloseLoop src ticks f2 o
  | f1, f2, none, _ => by cases f1 <;> cases f2 <;> simp [tickCloseLoop]
  | 0, _, some e, h => by have := (h e rfl).1; omega
  | _, 0, some e, h => by have := (h e rfl).2.1; omega
  | f1 + 1, f2 + 1, some e, h => by
    obtain ⟨h1, h2, hb, hs⟩ := h e rfl
    obtain ⟨r, hr⟩ := hne
    have hlen : 1 ≤ ticks.length := by rw [hr]; simp
    have hel : e < src.length := by omega
    have he : src[e] = '`' := by
      have : slice src e (e + ticks.length) = '`' :: r := by rw [hs, hr]
      rw [slice_cons (by omega) hb] at this
      injection this
    rw [tickCloseLoop, tickCloseLoop, collectWhileOneOfVerified_eq _ _ _ (by omega)]
    simp only
    split
    · rfl
    · have hgt : e < scanTo src ['`'].contains e := scanTo_gt hel (by rw [he]; decide)
      apply tickCloseLoop_fuel src ticks ⟨r, hr⟩ f1 f2
      intro e' he'
      have := pyFind_at he'
      exact ⟨by omega, by omega, this.2.1, this.2.2⟩

theorem slice_append {s : Str} {i j k : Nat} (hij : i ≤ j) (hjk : j ≤ k) (hk : k ≤ s.length) :
    slice s i j ++ slice s j k = slice s i k := by
  unfold slice
  have : List.take j s = List.take j (List.take k s) := by rw [List.take_take, Nat.min_eq_left hjk]
  rw [this, ← List.drop_append_of_le_length (by rw [List.length_take, List.length_take]; omega), List.take_append_drop]

/-! ## the text between the runs -/

theorem escapeSpecial_noAL : ∀ (s : Str), Codec.AL ∉ s → Codec.AL ∉ Codec.escapeSpecial s
  | [], _ => by simp [Codec.escapeSpecial]
  | c :: r, h => by
    have hc : Codec.AL ≠ c := fun e => h (by rw [e]; exact List.mem_cons_self)
    have hr : Codec.AL ∉ r := fun e => h (List.mem_cons_of_mem _ e)
    have ih := escapeSpecial_noAL r hr
    rw [Codec.escapeSpecial]
    split
    · intro hm
      rcases List.mem_cons.mp hm with e | hm
      · revert e; decide
      · rcases List.mem_cons.mp hm with e | hm
        · exact hc e
        · exact ih hm
    · intro hm
      rcases List.mem_cons.mp hm with e | hm
      · exact hc e
      · exact ih hm

theorem adjustForInjectedNoops_noAL (t : Str) (h : Codec.AL ∉ t) : adjustForInjectedNoops t = .ok t := by
  unfold adjustForInjectedNoops
  cases hf : pyFind t NOOP_PREFIX 0 with
  | none => rfl
  | some i => exact absurd (mem_of_pyFind hf (c := Codec.AL) (by decide)) h

/-- the three pieces are the text between the runs -/
theorem tickParts_append (b : Str) : (tickParts b).1 ++ (tickParts b).2.1 ++ (tickParts b).2.2 = b := by
  unfold tickParts
  split
  · next hs =>
    have hlen : b.length > 2 := by
      unfold tickStrip at hs
      simp only [Bool.and_eq_true, decide_eq_true_eq] at hs
      exact hs.1.1.1
    match b, hlen with
    | c :: d :: r, _ =>
      simp only [List.take_succ_cons, List.take_zero, List.drop_succ_cons, List.drop_zero]
      have hne : d :: r ≠ [] := by simp
      have hl : (c :: d :: r).getLast? = some ((d :: r).getLast hne) := by
        rw [List.getLast?_cons_cons, List.getLast?_eq_some_getLast hne]
      rw [hl]
      simp only [List.cons_append, List.nil_append]
      rw [List.dropLast_concat_getLast]
  · simp

theorem tickParts_mem {b : Str} {c : Char} :
    (c ∈ (tickParts b).1 → c ∈ b) ∧ (c ∈ (tickParts b).2.1 → c ∈ b) ∧ (c ∈ (tickParts b).2.2 → c ∈ b) := by
  have h := tickParts_append b
  refine ⟨fun hc => ?_, fun hc => ?_, fun hc => ?_⟩ <;> (rw [← h]; simp [hc])

/-! ## `handle_inline_backtick` -/

/-- what `handle_inline_backtick` records for a code span, before the in-band encoding of its three text fields -/
structure SpanRaw where
  ticks : Str
  lead : Str
  body : Str
  trail : Str

/-- `handle_inline_backtick` at a backtick (no U+0007 in the text): returns, moves forward, stays inside the text.
Without a closing run of the same length the run itself is the new string; with one, the recorded fields are the encodings
of three pieces with `ticks ++ lead ++ body ++ trail ++ ticks` = the consumed span -/
theorem handleInlineBacktick_ok (src : Str) (next : Nat) (hl : next < src.length) (hc : src[next] = '`')
    (hal : Codec.AL ∉ src) :
    ∃ r, handleInlineBacktick src next = .ok r ∧ next < r.newIndex ∧ r.newIndex ≤ src.length ∧
      (r.span = none → r.newString = slice src next r.newIndex) ∧
      (∀ t k l tr, r.span = some (t, k, l, tr) → ∃ raw : SpanRaw,
        k = raw.ticks ∧ l = replaceNewlines raw.lead ∧ tr = replaceNewlines raw.trail ∧
        t = appendTextEscape (replaceNewlines (Codec.escapeSpecial raw.body)) ∧
        raw.ticks ++ raw.lead ++ raw.body ++ raw.trail ++ raw.ticks = slice src next r.newIndex ∧ r.newString = []) := by
  unfold handleInlineBacktick
  rw [collectWhileOneOfVerified_eq _ _ _ (by omega), liftR_ok]
  simp only
  have hgt : next < scanTo src ['`'].contains next := scanTo_gt hl (by rw [hc]; decide)
  have hle := scanTo_le src ['`'].contains next (by omega)
  generalize hni : scanTo src ['`'].contains next = ni at hgt hle ⊢
  have hticks : ∃ r, slice src next ni = '`' :: r := ⟨_, by rw [slice_cons hgt hle, hc]⟩
  have hn : (slice src next ni).length = ni - next := by
    unfold slice; rw [List.length_drop, List.length_take]; omega
  obtain ⟨o, ho, hob⟩ := tickCloseLoop_ok src (slice src next ni) hticks ni (src.length + 1) (pyFind src (slice src next ni) ni)
    (by
      intro e he
      have := pyFind_at he
      exact ⟨this.1, by omega, this.2.1, this.2.2⟩)
  rw [ho, liftR_ok]
  cases o with
  | none =>
    simp only
    exact ⟨_, rfl, hgt, hle, fun _ => rfl, by intro t k l tr h; cases h⟩
  | some e =>
    obtain ⟨b1, b2, b3⟩ := hob e rfl
    simp only
    unfold backtickBetween
    simp only
    have hbody : Codec.AL ∉ (tickParts (slice src ni e)).2.1 := fun hm => hal (mem_slice (tickParts_mem.2.1 hm))
    rw [adjustForInjectedNoops_noAL _ (escapeSpecial_noAL _ hbody)]
    simp only
    have hspan : slice src next ni ++ (tickParts (slice src ni e)).1 ++ (tickParts (slice src ni e)).2.1 ++
        (tickParts (slice src ni e)).2.2 ++ slice src next ni = slice src next (e + (slice src next ni).length) := by
      have h1 := tickParts_append (slice src ni e)
      have e1 : slice src next ni ++ (tickParts (slice src ni e)).1 ++ (tickParts (slice src ni e)).2.1 ++
          (tickParts (slice src ni e)).2.2 = slice src next ni ++ slice src ni e := by
        rw [List.append_assoc, List.append_assoc, ← List.append_assoc (tickParts (slice src ni e)).1, h1]
      rw [e1, slice_append (by omega) b1 (by omega)]
      conv => lhs; rhs; rw [← b3]
      rw [slice_append (by omega) (by omega) b2]
    by_cases hnl : (slice src ni e).contains '\n' = true
    · rw [if_pos hnl]
      have hnal : Codec.AL ∉ slice src ni e ++ slice src next ni := by
        intro hm
        rcases List.mem_append.mp hm with hm | hm <;> exact hal (mem_slice hm)
      obtain ⟨d, hd⟩ := calculateDeltas_ok _ hnal
      rw [hd]
      refine ⟨_, rfl, by simp only; omega, by simp only; omega, (by intro h; cases h), ?_⟩
      intro t k l tr h
      simp only [Option.some.injEq, Prod.mk.injEq] at h
      obtain ⟨h1, h2, h3, h4⟩ := h
      exact ⟨⟨slice src next ni, (tickParts (slice src ni e)).1, (tickParts (slice src ni e)).2.1, (tickParts (slice src ni e)).2.2⟩,
        h2.symm, h3.symm, h4.symm, h1.symm, hspan, rfl⟩
    · rw [if_neg hnl]
      refine ⟨_, rfl, by simp only; omega, by simp only; omega, (by intro h; cases h), ?_⟩
      intro t k l tr h
      simp only [Option.some.injEq, Prod.mk.injEq] at h
      obtain ⟨h1, h2, h3, h4⟩ := h
      exact ⟨⟨slice src next ni, (tickParts (slice src ni e)).1, (tickParts (slice src ni e)).2.1, (tickParts (slice src ni e)).2.2⟩,
        h2.symm, h3.symm, h4.symm, h1.symm, hspan, rfl⟩

end Verif.Model.InlineRecog
