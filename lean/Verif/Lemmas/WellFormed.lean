/-
  Helper lemmas for C04: a generic stack automaton / forest grammar pair parametrised by the local
  checks, its soundness + completeness, products of checks, and the bridges to the concrete
  `Nest`, `ClassForest`, `SpecialOK` and `run` of Verif.Model.WellFormed.
-/
import Verif.Model.WellFormed
namespace Verif.Lemmas.WellFormed
open Verif.Model.WellFormed

/-- local checks of a forest discipline -/
structure Spec where
  atomOK : Option Tok → Tok → Bool
  startOK : Option Tok → Tok → Bool
  endOK : Nat → Tok → Tok → Bool      -- index and token of the innermost open start, the end token

def gStep (P : Spec) (st : Stack) (i : Nat) (t : Tok) : Option Stack :=
  match t.kind with
  | .atom => if P.atomOK (parent st) t then some st else none
  | .start => if P.startOK (parent st) t then some ((i, t) :: st) else none
  | .end_ _ =>
    match st with
    | [] => none
    | (j, s) :: r => if P.endOK j s t then some r else none

def gRun (P : Spec) (st : Stack) (i : Nat) : List Tok → Option Stack
  | [] => some st
  | t :: ts => (gStep P st i t).bind fun st' => gRun P st' (i + 1) ts

inductive Forest (P : Spec) : Option Tok → Nat → List Tok → Prop
  | nil {par i} : Forest P par i []
  | atom {par i t rest} : t.kind = .atom → P.atomOK par t = true → Forest P par (i + 1) rest →
      Forest P par i (t :: rest)
  | node {par i s body e rest p} :
      s.kind = .start → P.startOK par s = true → Forest P (some s) (i + 1) body →
      e.kind = .end_ p → P.endOK i s e = true →
      Forest P par (i + 1 + body.length + 1) rest →
      Forest P par i (s :: (body ++ e :: rest))

theorem gRun_append (P : Spec) : ∀ (xs ys : List Tok) (st : Stack) (i : Nat),
    gRun P st i (xs ++ ys) = (gRun P st i xs).bind fun st' => gRun P st' (i + xs.length) ys
  | [], ys, st, i => by simp [gRun]
  | x :: xs, ys, st, i => by
    simp only [List.cons_append, gRun, List.length_cons]
    cases h : gStep P st i x with
    | none => simp
    | some st' =>
      simp only [Option.bind_some]
      rw [gRun_append P xs ys st' (i + 1)]
      congr 1; funext st''; congr 1; omega

@[simp] theorem parent_cons (j : Nat) (s : Tok) (st : Stack) : parent ((j, s) :: st) = some s := rfl
@[simp] theorem parent_nil : parent [] = none := rfl

/-- grammar ⇒ automaton: a forest is read without touching the stack below it -/
theorem forest_run {P : Spec} {par : Option Tok} {i : Nat} {ts : List Tok} (h : Forest P par i ts) :
    ∀ (st : Stack) (rest : List Tok), parent st = par →
      gRun P st i (ts ++ rest) = gRun P st (i + ts.length) rest := by
  induction h with
  | nil => intro st rest _; simp
  | @atom par i t rest' hk ha _ ih =>
    intro st rest hp
    simp only [List.cons_append, gRun, gStep, hk, hp, ha, if_true, Option.bind_some, List.length_cons]
    rw [ih st rest hp]; congr 1; omega
  | @node par i s body e rest' p hk hs _ he hE _ ihb ihr =>
    intro st rest hp
    have e1 : (s :: (body ++ e :: rest')) ++ rest = s :: (body ++ (e :: (rest' ++ rest))) := by simp
    rw [e1]
    simp only [gRun, gStep, hk, hp, hs, if_true, Option.bind_some]
    rw [ihb ((i, s) :: st) (e :: (rest' ++ rest)) rfl]
    simp only [gRun, gStep, he, hE, if_true, Option.bind_some]
    rw [ihr st rest hp]
    congr 1; simp only [List.length_cons, List.length_append]; omega

/-- `Closes P st i ts`: `ts`, read from index `i`, closes exactly the open starts `st` (innermost first)
and is a forest in between -/
def Closes (P : Spec) : Stack → Nat → List Tok → Prop
  | [], i, ts => Forest P none i ts
  | (j, s) :: st, i, ts => ∃ body e rest p, ts = body ++ e :: rest ∧ Forest P (some s) i body ∧
      e.kind = .end_ p ∧ P.endOK j s e = true ∧ Closes P st (i + body.length + 1) rest

theorem closes_idx {P : Spec} {st : Stack} {i j : Nat} {ts : List Tok} (h : Closes P st i ts) (e : i = j) :
    Closes P st j ts := e ▸ h

theorem forest_idx {P : Spec} {par : Option Tok} {i j : Nat} {ts : List Tok} (h : Forest P par i ts) (e : i = j) :
    Forest P par j ts := e ▸ h

theorem closes_atom {P : Spec} {st : Stack} {i : Nat} {t : Tok} {ts : List Tok}
    (hk : t.kind = .atom) (ha : P.atomOK (parent st) t = true) (h : Closes P st (i + 1) ts) :
    Closes P st i (t :: ts) := by
  cases st with
  | nil => exact Forest.atom hk ha h
  | cons top st' =>
    obtain ⟨j, s⟩ := top
    obtain ⟨body, e, rest, p, rfl, hb, he, hE, hc⟩ := h
    refine ⟨t :: body, e, rest, p, by simp, Forest.atom hk ha hb, he, hE, ?_⟩
    exact closes_idx hc (by simp only [List.length_cons]; omega)

theorem closes_node {P : Spec} {st : Stack} {i : Nat} {s : Tok} {ts : List Tok}
    (hk : s.kind = .start) (hs : P.startOK (parent st) s = true) (h : Closes P ((i, s) :: st) (i + 1) ts) :
    Closes P st i (s :: ts) := by
  obtain ⟨body, e, rest, p, rfl, hb, he, hE, hc⟩ := h
  cases st with
  | nil => exact Forest.node hk hs hb he hE hc
  | cons top st' =>
    obtain ⟨j', s'⟩ := top
    obtain ⟨body2, e2, rest2, p2, rfl, hb2, he2, hE2, hc2⟩ := hc
    refine ⟨s :: (body ++ e :: body2), e2, rest2, p2, by simp, Forest.node hk hs hb he hE hb2, he2, hE2, ?_⟩
    exact closes_idx hc2 (by simp only [List.length_cons, List.length_append]; omega)

/-- automaton ⇒ grammar -/
theorem run_closes (P : Spec) : ∀ (ts : List Tok) (st : Stack) (i : Nat),
    gRun P st i ts = some [] → Closes P st i ts
  | [], st, i, h => by
    simp only [gRun, Option.some.injEq] at h
    subst h; exact Forest.nil
  | t :: ts, st, i, h => by
    simp only [gRun] at h
    cases hs : gStep P st i t with
    | none => simp [hs] at h
    | some st' =>
      simp only [hs, Option.bind_some] at h
      have ih := run_closes P ts st' (i + 1) h
      unfold gStep at hs
      split at hs
      · rename_i hk
        split at hs
        · rename_i ha
          simp only [Option.some.injEq] at hs; subst hs
          exact closes_atom hk ha ih
        · simp at hs
      · rename_i hk
        split at hs
        · rename_i ha
          simp only [Option.some.injEq] at hs; subst hs
          exact closes_node hk ha ih
        · simp at hs
      · rename_i p hk
        split at hs
        · simp at hs
        · rename_i j s r
          split at hs
          · rename_i hE
            simp only [Option.some.injEq] at hs; subst hs
            exact ⟨[], t, ts, p, by simp, Forest.nil, hk, hE, closes_idx ih (by simp)⟩
          · simp at hs

theorem gRun_iff_forest (P : Spec) (ts : List Tok) :
    gRun P [] 0 ts = some [] ↔ Forest P none 0 ts := by
  constructor
  · intro h; exact run_closes P ts [] 0 h
  · intro h
    have := forest_run h [] [] rfl
    simpa [gRun] using this

/-! ### products of checks -/

def Spec.and (P Q : Spec) : Spec where
  atomOK par t := P.atomOK par t && Q.atomOK par t
  startOK par t := P.startOK par t && Q.startOK par t
  endOK j s e := P.endOK j s e && Q.endOK j s e

theorem gStep_and (P Q : Spec) (st : Stack) (i : Nat) (t : Tok) (st' : Stack) :
    gStep (P.and Q) st i t = some st' ↔ gStep P st i t = some st' ∧ gStep Q st i t = some st' := by
  unfold gStep
  simp only [Spec.and]
  cases t.kind with
  | atom =>
    simp only
    by_cases ha : P.atomOK (parent st) t = true <;> by_cases hb : Q.atomOK (parent st) t = true <;> simp [ha, hb]
  | start =>
    simp only
    by_cases ha : P.startOK (parent st) t = true <;> by_cases hb : Q.startOK (parent st) t = true <;> simp [ha, hb]
  | end_ p =>
    cases st with
    | nil => simp
    | cons top r =>
      obtain ⟨j, s⟩ := top
      simp only
      by_cases ha : P.endOK j s t = true <;> by_cases hb : Q.endOK j s t = true <;> simp [ha, hb]

theorem gStep_det (P Q : Spec) (st : Stack) (i : Nat) (t : Tok) (a b : Stack)
    (ha : gStep P st i t = some a) (hb : gStep Q st i t = some b) : a = b := by
  unfold gStep at ha hb
  cases hk : t.kind with
  | atom =>
    simp only [hk] at ha hb
    split at ha <;> split at hb <;> simp_all
  | start =>
    simp only [hk] at ha hb
    split at ha <;> split at hb <;> simp_all
  | end_ p =>
    simp only [hk] at ha hb
    cases st with
    | nil => simp at ha
    | cons top r =>
      obtain ⟨j, s⟩ := top
      simp only at ha hb
      split at ha <;> split at hb <;> simp_all

theorem gRun_and (P Q : Spec) : ∀ (ts : List Tok) (st : Stack) (i : Nat) (fin : Stack),
    gRun (P.and Q) st i ts = some fin ↔ gRun P st i ts = some fin ∧ gRun Q st i ts = some fin
  | [], st, i, fin => by simp [gRun]
  | t :: ts, st, i, fin => by
    simp only [gRun]
    constructor
    · intro h
      cases hs : gStep (P.and Q) st i t with
      | none => simp [hs] at h
      | some st' =>
        simp only [hs, Option.bind_some] at h
        have := (gStep_and P Q st i t st').mp hs
        rw [this.1, this.2]
        simpa using (gRun_and P Q ts st' (i + 1) fin).mp h
    · rintro ⟨h1, h2⟩
      cases hp : gStep P st i t with
      | none => simp [hp] at h1
      | some a =>
        cases hq : gStep Q st i t with
        | none => simp [hq] at h2
        | some b =>
          have hab := gStep_det P Q st i t a b hp hq
          subst hab
          simp only [hp, hq, Option.bind_some] at h1 h2
          rw [(gStep_and P Q st i t a).mpr ⟨hp, hq⟩]
          simpa using (gRun_and P Q ts a (i + 1) fin).mpr ⟨h1, h2⟩

/-! ### the concrete disciplines -/

def balSpec : Spec where
  atomOK _ _ := true
  startOK _ _ := true
  endOK j s e := e.kind == .end_ j && e.name == endName s.name

def clsSpec : Spec where
  atomOK := Verif.Model.WellFormed.atomOK
  startOK := Verif.Model.WellFormed.startOK
  endOK _ _ _ := true

def wfSpec : Spec := balSpec.and clsSpec

theorem nest_iff_forest (par : Option Tok) (i : Nat) (ts : List Tok) :
    Nest i ts ↔ Forest balSpec par i ts := by
  constructor
  · intro h
    induction h generalizing par with
    | nil => exact Forest.nil
    | atom hk _ ih => exact Forest.atom hk rfl (ih par)
    | node hk _ he hn _ ihb ihr =>
      exact Forest.node hk rfl (ihb _) he (by simp [balSpec, he, hn]) (ihr par)
  · intro h
    induction h with
    | nil => exact Nest.nil
    | atom hk _ _ ih => exact Nest.atom hk ih
    | node hk _ _ he hE _ ihb ihr =>
      simp only [balSpec, Bool.and_eq_true, beq_iff_eq] at hE
      exact Nest.node hk ihb hE.1 hE.2 ihr

theorem classForest_iff_forest (par : Option Tok) (i : Nat) (ts : List Tok) :
    ClassForest par ts ↔ Forest clsSpec par i ts := by
  constructor
  · intro h
    induction h generalizing i with
    | nil => exact Forest.nil
    | atom hk ha _ ih => exact Forest.atom hk ha (ih _)
    | node hk hs _ he _ ihb ihr => exact Forest.node hk hs (ihb _) he rfl (ihr _)
  · intro h
    induction h with
    | nil => exact ClassForest.nil
    | atom hk ha _ ih => exact ClassForest.atom hk ha ih
    | node hk hs _ he _ _ ihb ihr => exact ClassForest.node hk hs ihb he ihr

/-! ### the monitor's tree step is the generic step of `wfSpec` -/

theorem treeStep_iff (st : Stack) (i : Nat) (t : Tok) (st' : Stack) :
    treeStep st i t = .ok st' ↔ gStep wfSpec st i t = some st' := by
  unfold treeStep gStep
  simp only [wfSpec, Spec.and, balSpec, clsSpec, Bool.true_and]
  cases hk : t.kind with
  | atom => by_cases h : Verif.Model.WellFormed.atomOK (parent st) t = true <;> simp [h]
  | start => by_cases h : Verif.Model.WellFormed.startOK (parent st) t = true <;> simp [h]
  | end_ p =>
    cases st with
    | nil => simp
    | cons top r =>
      obtain ⟨j, s⟩ := top
      simp only [Bool.and_true]
      by_cases h1 : p = j
      · by_cases h2 : t.name = endName s.name <;> simp [h1, h2]
      · have : ¬ (Kind.end_ p = Kind.end_ j) := by intro h; injection h; contradiction
        simp [h1, this]

/-! ### positional part -/

def posRun (ph : Phase) (i : Nat) : List Tok → Option Phase
  | [] => some ph
  | t :: ts =>
    match posStep ph i t with
    | .error _ => none
    | .ok ph' => posRun ph' (i + 1) ts

/-- what a phase still allows to follow -/
def phaseOK : Phase → List Tok → Prop
  | .body, _ => True
  | .afterEOS, ts => eosTail ts = true
  | .afterPragma, ts => ts = []

def AllPos (i : Nat) (ts : List Tok) : Prop :=
  ∀ pre t post, ts = pre ++ t :: post → specAt (i + pre.length) t post = true

theorem allPos_nil (i : Nat) : AllPos i [] := by
  intro pre t post h; simp at h

theorem allPos_cons (i : Nat) (t : Tok) (ts : List Tok) :
    AllPos i (t :: ts) ↔ specAt i t ts = true ∧ AllPos (i + 1) ts := by
  constructor
  · intro h
    refine ⟨by simpa using h [] t ts rfl, ?_⟩
    intro pre u post e
    have := h (t :: pre) u post (by simp [e])
    simpa [Nat.add_assoc, Nat.add_comm 1] using this
  · rintro ⟨h0, h1⟩ pre u post e
    cases pre with
    | nil =>
      simp only [List.nil_append, List.cons.injEq] at e
      obtain ⟨rfl, rfl⟩ := e
      simpa using h0
    | cons x pre' =>
      simp only [List.cons_append, List.cons.injEq] at e
      obtain ⟨rfl, rfl⟩ := e
      have := h1 pre' u post rfl
      simpa [Nat.add_assoc, Nat.add_comm 1] using this

theorem pragma_not_front {t : Tok} (h : isPragma t = true) : isFront t = false := by
  simp only [isPragma, isFront, Bool.and_eq_true, beq_iff_eq] at *
  simp [h.1, h.2]
theorem pragma_not_eos {t : Tok} (h : isPragma t = true) : isEOS t = false := by
  simp only [isPragma, isEOS, Bool.and_eq_true, beq_iff_eq] at *
  simp [h.1, h.2]
theorem eos_not_front {t : Tok} (h : isEOS t = true) : isFront t = false := by
  simp only [isEOS, isFront, Bool.and_eq_true, beq_iff_eq] at *
  simp [h.1, h.2]

theorem posRun_iff : ∀ (ts : List Tok) (ph : Phase) (i : Nat),
    (posRun ph i ts).isSome = true ↔ phaseOK ph ts ∧ AllPos i ts
  | [], ph, i => by
    cases ph <;> simp [posRun, phaseOK, eosTail, allPos_nil]
  | t :: ts, ph, i => by
    rw [allPos_cons]
    cases ph with
    | afterPragma => simp [posRun, posStep, phaseOK]
    | afterEOS =>
      by_cases hp : isPragma t = true
      · simp only [posRun, posStep, hp, if_true]
        rw [posRun_iff ts .afterPragma (i + 1)]
        simp only [phaseOK]
        cases ts with
        | nil => simp [eosTail, hp, specAt, pragma_not_front hp, pragma_not_eos hp, allPos_nil]
        | cons u us => simp [eosTail]
      · simp only [posRun, posStep, hp]
        cases ts with
        | nil => simp [phaseOK, eosTail, hp]
        | cons u us => simp [phaseOK, eosTail]
    | body =>
      simp only [phaseOK, true_and]
      by_cases hf : (isFront t && i != 0) = true
      · simp only [posRun, posStep, hf, if_true]
        simp only [Bool.and_eq_true, bne_iff_ne, ne_eq] at hf
        simp [specAt, hf.1, hf.2]
      · have hf' : (!isFront t || i == 0) = true := by
          cases h1 : isFront t <;> cases h2 : (i == 0) <;> simp_all
        by_cases hp : isPragma t = true
        · have hstep : posStep .body i t = .ok .afterPragma := by simp [posStep, hf, hp]
          simp only [posRun, hstep]
          rw [posRun_iff ts .afterPragma (i + 1)]
          simp only [phaseOK, specAt, hf', pragma_not_eos hp, hp, Bool.not_false, Bool.true_or, Bool.not_true,
            Bool.false_or, Bool.true_and, List.isEmpty_iff]
        · by_cases he : isEOS t = true
          · have hstep : posStep .body i t = .ok .afterEOS := by simp [posStep, hf, hp, he]
            simp only [posRun, hstep]
            rw [posRun_iff ts .afterEOS (i + 1)]
            simp [phaseOK, specAt, hf', hp, he]
          · have hstep : posStep .body i t = .ok .body := by simp [posStep, hf, hp, he]
            simp only [posRun, hstep]
            rw [posRun_iff ts .body (i + 1)]
            simp [phaseOK, specAt, hf', hp, he]

theorem specialOK_iff (ts : List Tok) : SpecialOK ts ↔ (posRun .body 0 ts).isSome = true := by
  rw [posRun_iff]
  simp only [phaseOK, true_and, AllPos, SpecialOK, Nat.zero_add]

/-! ### the monitor's run = generic run × positional run -/

theorem run_iff : ∀ (ts : List Tok) (s s' : St),
    run s ts = .ok s' ↔
      gRun wfSpec s.stack s.idx ts = some s'.stack ∧ posRun s.phase s.idx ts = some s'.phase ∧
      s'.idx = s.idx + ts.length
  | [], s, s' => by
    simp only [run, gRun, posRun, List.length_nil, Nat.add_zero, Except.ok.injEq, Option.some.injEq]
    constructor
    · rintro rfl; exact ⟨rfl, rfl, rfl⟩
    · rintro ⟨h1, h2, h3⟩
      cases s; cases s'; simp_all
  | t :: ts, s, s' => by
    simp only [run, step, gRun, posRun, List.length_cons]
    cases hp : posStep s.phase s.idx t with
    | error r => simp
    | ok ph =>
      simp only
      cases ht : treeStep s.stack s.idx t with
      | error r =>
        have : gStep wfSpec s.stack s.idx t = none := by
          cases hg : gStep wfSpec s.stack s.idx t with
          | none => rfl
          | some st' => have := (treeStep_iff _ _ _ _).mpr hg; rw [ht] at this; cases this
        simp [this]
      | ok st =>
        have hg := (treeStep_iff _ _ _ _).mp ht
        simp only [hg, Option.bind_some]
        rw [run_iff ts ⟨st, s.idx + 1, ph⟩ s']
        simp only
        constructor
        · rintro ⟨h1, h2, h3⟩; exact ⟨h1, h2, by omega⟩
        · rintro ⟨h1, h2, h3⟩; exact ⟨h1, h2, by omega⟩

theorem wfCheck_iff (ts : List Tok) :
    wfCheck ts = .ok () ↔ gRun wfSpec [] 0 ts = some [] ∧ (posRun .body 0 ts).isSome = true := by
  unfold wfCheck
  cases hr : run St.init ts with
  | error e =>
    simp only [reduceCtorEq, false_iff, not_and]
    intro hg hp
    obtain ⟨ph, hph⟩ := Option.isSome_iff_exists.mp hp
    have := (run_iff ts St.init ⟨[], 0 + ts.length, ph⟩).mpr ⟨hg, hph, rfl⟩
    rw [hr] at this; cases this
  | ok s =>
    have h := (run_iff ts St.init s).mp hr
    simp only [St.init] at h
    simp only
    cases hs : s.stack with
    | nil =>
      simp only [true_iff]
      rw [hs] at h
      exact ⟨h.1, by rw [h.2.1]; rfl⟩
    | cons top r =>
      obtain ⟨j, u⟩ := top
      simp only [reduceCtorEq, false_iff, not_and]
      intro hg
      rw [hs, hg] at h
      cases h.1

end Verif.Lemmas.WellFormed
