/-
  Helper lemmas for Verif.Props.C02 about Verif.Model.Tabs: tab expansion, `find_nth_occurrence`
  on newline-joined lines, pragma re-insertion.
-/
import Verif.Model.Tabs
import Verif.Lemmas.Codec
import Verif.Lemmas.Lines
namespace Verif.Lemmas.Tabs
open Verif.Model.Tabs Verif.Model.Codec Verif.Lemmas.Codec Verif.Lemmas.Lines
open Verif.Model.Lines (NL joinNL joinOn splitNL)

/-! ### tab stops -/

theorem tabWidth_pos (col : Nat) : 1 ≤ tabWidth col := by unfold tabWidth; omega
theorem tabWidth_le (col : Nat) : tabWidth col ≤ 4 := by unfold tabWidth; omega
theorem tabWidth_stop (col : Nat) : (col + tabWidth col) % 4 = 0 := by unfold tabWidth; omega

theorem detab_append : ∀ (a b : Str) (col : Nat),
    detab col (a ++ b) = detab col a ++ detab (col + (detab col a).length) b
  | [], b, col => by simp [detab]
  | c :: a, b, col => by
    by_cases hc : c = TAB
    · rw [List.cons_append, detab, if_pos hc, detab, if_pos hc, detab_append a b]
      simp [Nat.add_assoc]
    · rw [List.cons_append, detab, if_neg hc, detab, if_neg hc, detab_append a b]
      simp [Nat.add_assoc, Nat.add_comm 1]

theorem detab_length_ge' : ∀ (s : Str) (col : Nat), s.length ≤ (detab col s).length
  | [], _ => by simp [detab]
  | c :: s, col => by
    by_cases hc : c = TAB
    · have := detab_length_ge' s (col + tabWidth col)
      have := tabWidth_pos col
      simp [detab, hc]; omega
    · have := detab_length_ge' s (col + 1)
      simp [detab, hc]; omega

/-! ### the section-wise loop of `detabify_string` computes the one-pass `detab` -/

theorem detab_id_of_noTab' : ∀ (s : Str) (col : Nat), TAB ∉ s → detab col s = s
  | [], _, _ => rfl
  | c :: s, col, h => by
    have hc : c ≠ TAB := fun e => h (by simp [e])
    rw [detab, if_neg hc, detab_id_of_noTab' s _ (fun e => h (by simp [e]))]

theorem mem_takeWhile_imp {p : Char → Bool} : ∀ {l : List Char} {x : Char}, x ∈ l.takeWhile p → p x = true
  | [], _, h => by simp at h
  | y :: l, x, h => by
    rw [List.takeWhile_cons] at h
    split at h
    · simp at h
      rcases h with rfl | h
      · assumption
      · exact mem_takeWhile_imp h
    · simp at h

theorem findFrom_zero_some (c : Char) : ∀ (s : Str) (i : Nat), findFrom c s 0 = some i →
    ∃ A R, s = A ++ c :: R ∧ A.length = i ∧ c ∉ A
  | [], i, h => by simp [findFrom] at h
  | x :: s, i, h => by
    rw [findFrom] at h
    by_cases hx : x = c
    · rw [if_pos hx] at h; cases h
      exact ⟨[], s, by simp [hx], rfl, by simp⟩
    · rw [if_neg hx] at h
      match hf : findFrom c s 0, h with
      | some j, h =>
        simp at h; subst h
        obtain ⟨A, R, hs, hl, hm⟩ := findFrom_zero_some c s j hf
        exact ⟨x :: A, R, by simp [hs], by simp [hl], by simp; exact ⟨fun e => hx e.symm, hm⟩⟩

theorem not_mem_of_findFrom_none (c : Char) : ∀ (s : Str), findFrom c s 0 = none → c ∉ s
  | [], _ => by simp
  | x :: s, h => by
    rw [findFrom] at h
    by_cases hx : x = c
    · rw [if_pos hx] at h; cases h
    · rw [if_neg hx] at h
      have : findFrom c s 0 = none := by
        cases hf : findFrom c s 0 with
        | none => rfl
        | some j => rw [hf] at h; simp at h
      simp; exact ⟨fun e => hx e.symm, not_mem_of_findFrom_none c s this⟩

theorem calcLengthAux_eq : ∀ (W : Str) (col : Nat), calcLengthAux col W = col + (detab col W).length
  | [], col => by simp [calcLengthAux, detab]
  | c :: W, col => by
    by_cases hc : c = TAB
    · rw [calcLengthAux, if_pos hc, detab, if_pos hc, calcLengthAux_eq W]
      have : (col + 4) / 4 * 4 = col + tabWidth col := by unfold tabWidth; omega
      rw [this]; simp; omega
    · rw [calcLengthAux, if_neg hc, detab, if_neg hc, calcLengthAux_eq W]
      simp; omega

theorem calcLength_eq (W : Str) (col : Nat) : calcLength W col = (detab col W).length := by
  unfold calcLength; rw [calcLengthAux_eq]; omega

theorem detab_ws : ∀ (W : Str) (col : Nat), W.all isWs = true → detab col W = List.replicate (detab col W).length SP
  | [], _, _ => by simp [detab]
  | c :: W, col, h => by
    simp only [List.all_cons, Bool.and_eq_true] at h
    by_cases hc : c = TAB
    · rw [detab, if_pos hc]
      have ih := detab_ws W (col + tabWidth col) h.2
      rw [List.length_append, List.length_replicate, ← List.replicate_append_replicate, ← ih]
    · rw [detab, if_neg hc]
      have ih := detab_ws W (col + 1) h.2
      have hsp : c = SP := by
        have := h.1; unfold isWs at this
        simp at this; rcases this with e | e
        · exact e
        · exact absurd e hc
      rw [List.length_cons, List.replicate_succ, ← ih, hsp]

theorem detabifyLoop_eq (delta : Nat) : ∀ (fuel : Nat) (src rebuilt : Str) (cur : Nat), src.length < fuel →
    detabifyLoop delta fuel src rebuilt cur = rebuilt ++ detab (cur + delta) src
  | 0, _, _, _, h => by omega
  | fuel + 1, src, rebuilt, cur, h => by
    rw [detabifyLoop]
    cases hf : findFrom TAB src 0 with
    | none =>
      simp only
      rw [detab_id_of_noTab' src _ (not_mem_of_findFrom_none TAB src hf)]
    | some ti =>
      simp only
      obtain ⟨A, R, hs, hl, hm⟩ := findFrom_zero_some TAB src ti hf
      -- split A and R around the white-space run
      let A2 := (A.reverse.takeWhile isWs).reverse
      let A1 := (A.reverse.dropWhile isWs).reverse
      let R1 := R.takeWhile isWs
      let R2 := R.dropWhile isWs
      have hA : A = A1 ++ A2 := by
        have := List.takeWhile_append_dropWhile (p := isWs) (l := A.reverse)
        have h2 := congrArg List.reverse this
        simp only [List.reverse_append, List.reverse_reverse] at h2
        exact h2.symm
      have hR : R = R1 ++ R2 := (List.takeWhile_append_dropWhile (p := isWs) (l := R)).symm
      have hA2 : A2.all isWs = true := by
        simp only [A2, List.all_reverse]
        rw [List.all_eq_true]; intro x hx; exact (mem_takeWhile_imp hx)
      have hR1 : R1.all isWs = true := by
        rw [List.all_eq_true]; intro x hx; exact (mem_takeWhile_imp hx)
      have htake : src.take ti = A := by rw [hs]; exact List.take_left' hl
      have hdrop : src.drop ti = TAB :: R := by rw [hs]; exact List.drop_left' hl
      have hst : wsStartBefore src ti = A1.length := by
        unfold wsStartBefore
        rw [htake]
        have : A.length = A1.length + A2.length := by rw [hA]; simp [A1, A2]
        simp only [A2, List.length_reverse] at this
        omega
      have hen : wsEndFrom src ti = A1.length + (A2.length + 1 + R1.length) := by
        unfold wsEndFrom
        rw [hdrop]
        have : (TAB :: R).takeWhile isWs = TAB :: R1 := by
          simp [isWs, TAB, R1]
        rw [this]
        have : A.length = A1.length + A2.length := by rw [hA]; simp
        simp; omega
      let W := A2 ++ TAB :: R1
      have hsrc : src = A1 ++ (W ++ R2) := by
        rw [hs, hA, hR]; simp [W]
      have hW : W.all isWs = true := by
        simp only [W, List.all_append, List.all_cons, hA2, hR1, Bool.and_true, Bool.true_and]
        decide
      have hWl : W.length = A2.length + 1 + R1.length := by simp [W]; omega
      have hslice : slice src (wsStartBefore src ti) (wsEndFrom src ti) = W := by
        rw [hst, hen]
        exact slice_mid src A1 W R2 _ _ hsrc rfl (by rw [hWl])
      have htk : src.take (wsStartBefore src ti) = A1 := by
        rw [hst]; exact take_eq src A1 _ _ hsrc rfl
      have hdr : src.drop (wsEndFrom src ti) = R2 := by
        rw [hen]
        have : src = (A1 ++ W) ++ R2 := by rw [hsrc]; simp
        exact drop_eq src (A1 ++ W) R2 _ this (by simp [hWl])
      rw [hslice, htk, hdr, hst]
      have hA1 : TAB ∉ A1 := by
        intro e; apply hm; rw [hA]; simp [e]
      have hlt : R2.length < fuel := by
        have : src.length = A1.length + (W.length + R2.length) := by rw [hsrc]; simp
        rw [hWl] at this; omega
      rw [detabifyLoop_eq delta fuel R2 _ _ hlt]
      rw [hsrc, detab_append A1, detab_id_of_noTab' A1 _ hA1, detab_append W]
      rw [calcLength_eq]
      have e1 : cur + A1.length + delta = cur + delta + A1.length := by omega
      rw [e1]
      rw [← detab_ws W _ hW]
      simp only [List.append_assoc]
      congr 4
      omega

theorem detabify_eq_detab' (s : Str) (delta : Nat) : detabify s delta = detab delta s := by
  unfold detabify
  rw [detabifyLoop_eq delta _ s [] 0 (by omega)]
  simp

/-! ### `find_nth_occurrence` of the newline in joined lines -/

theorem joinNL_cons_cons (l m : Str) (ls : List Str) : joinNL (l :: m :: ls) = l ++ NL :: joinNL (m :: ls) := rfl

theorem joinNL_append : ∀ (A B : List Str), A ≠ [] → B ≠ [] → joinNL (A ++ B) = joinNL A ++ NL :: joinNL B
  | [a], m :: B, _, _ => by simp [joinNL, joinOn]
  | a :: a' :: A, B, _, hB => by
    have ih := joinNL_append (a' :: A) B (by simp) hB
    simp only [List.cons_append] at ih ⊢
    rw [joinNL_cons_cons, ih, joinNL_cons_cons]; simp

theorem findNth_joined : ∀ (A : List Str) (B : List Str) (Pre : Str), A ≠ [] → B ≠ [] → (∀ l ∈ A, NL ∉ l) →
    findNthFrom NL (Pre ++ joinNL (A ++ B)) A.length Pre.length = some (Pre.length + (joinNL A).length)
  | [a], m :: B, Pre, _, _, hA => by
    have ha : NL ∉ a := hA a (by simp)
    have e : Pre ++ joinNL ([a] ++ m :: B) = Pre ++ (a ++ NL :: joinNL (m :: B)) := by simp [joinNL, joinOn]
    rw [e]
    simp only [List.length_singleton, findNthFrom, findFrom_hit NL Pre a _ Pre.length rfl ha]
    simp [joinNL, joinOn]
  | a :: a' :: A, B, Pre, _, hB, hA => by
    have ha : NL ∉ a := hA a (by simp)
    have ih := findNth_joined (a' :: A) B (Pre ++ (a ++ [NL])) (by simp) hB (fun l hl => hA l (by simp at hl ⊢; right; exact hl))
    have e : Pre ++ joinNL (a :: a' :: A ++ B) = Pre ++ (a ++ NL :: joinNL (a' :: A ++ B)) := by
      simp only [List.cons_append]; rw [joinNL_cons_cons]
    have e' : Pre ++ (a ++ [NL]) ++ joinNL (a' :: A ++ B) = Pre ++ (a ++ NL :: joinNL (a' :: A ++ B)) := by simp
    rw [e]
    have hlen : (a :: a' :: A).length = (a' :: A).length + 1 := rfl
    rw [hlen, findNthFrom, findFrom_hit NL Pre a _ Pre.length rfl ha]
    simp only
    rw [if_neg (by simp)]
    rw [e'] at ih
    have e2 : Pre.length + a.length + 1 = (Pre ++ (a ++ [NL])).length := by simp; omega
    rw [e2, ih, joinNL_cons_cons]
    simp; omega

theorem findNth_joined_none : ∀ (A : List Str) (Pre : Str), A ≠ [] → (∀ l ∈ A, NL ∉ l) →
    findNthFrom NL (Pre ++ joinNL A) A.length Pre.length = none
  | [a], Pre, _, hA => by
    have ha : NL ∉ a := hA a (by simp)
    simp only [List.length_singleton, findNthFrom, joinNL, joinOn, findFrom_miss NL Pre a Pre.length rfl ha]
  | a :: a' :: A, Pre, _, hA => by
    have ha : NL ∉ a := hA a (by simp)
    have ih := findNth_joined_none (a' :: A) (Pre ++ (a ++ [NL])) (by simp) (fun l hl => hA l (by simp at hl ⊢; right; exact hl))
    have e' : Pre ++ (a ++ [NL]) ++ joinNL (a' :: A) = Pre ++ (a ++ NL :: joinNL (a' :: A)) := by simp
    have hlen : (a :: a' :: A).length = (a' :: A).length + 1 := rfl
    rw [joinNL_cons_cons, hlen, findNthFrom, findFrom_hit NL Pre a _ Pre.length rfl ha]
    simp only
    rw [if_neg (by simp)]
    rw [e'] at ih
    have e2 : Pre.length + a.length + 1 = (Pre ++ (a ++ [NL])).length := by simp; omega
    rw [e2, ih]

/-! ### pragma re-insertion -/

theorem detabify_of_noTab (s : Str) (d : Nat) (h : TAB ∉ s) : detabify s d = s := by
  unfold detabify
  rw [detabifyLoop, findFrom_zero_none TAB s h]; simp

/-- inserting the pragma line `l` as line `|A| + 1` into the joined lines `A ++ B`. -/
theorem insertPragma_joined (A B : List Str) (l : Str) (hl : TAB ∉ l) (hA : ∀ x ∈ A, NL ∉ x)
    (hfirst : A = [] → joinNL B ≠ [] ∨ B = []) :
    insertPragma (joinNL (A ++ B)) (A.length + 1) l = joinNL (A ++ l :: B) := by
  unfold insertPragma
  rw [detabify_of_noTab l 0 hl]
  cases A with
  | nil =>
    simp only [List.length_nil, Nat.zero_add, if_true, List.nil_append]
    by_cases hd : joinNL B ≠ []
    · rw [if_pos hd]
      cases B with
      | nil => simp [joinNL, joinOn] at hd
      | cons m B => rw [joinNL_cons_cons]
    · rw [if_neg hd]
      rcases hfirst rfl with h | h
      · exact absurd h hd
      · subst h; simp [joinNL, joinOn]
  | cons a A =>
    have hn : (a :: A).length + 1 ≠ 1 := by simp
    rw [if_neg hn]
    have hk : (a :: A).length + 1 - 1 = (a :: A).length := by simp
    rw [hk]
    unfold findNth
    cases B with
    | nil =>
      have h0 := findNth_joined_none (a :: A) [] (by simp) hA
      simp only [List.nil_append, List.length_nil] at h0
      rw [List.append_nil, h0]
      simp only
      have := joinNL_append (a :: A) [l] (by simp) (by simp)
      rw [this]; simp [joinNL, joinOn]
    | cons m B =>
      have h1 := findNth_joined (a :: A) (m :: B) [] (by simp) (by simp) hA
      simp only [List.nil_append, List.length_nil, Nat.zero_add] at h1
      rw [h1]
      simp only
      rw [joinNL_append (a :: A) (m :: B) (by simp) (by simp)]
      rw [List.take_left' rfl, List.drop_left' rfl]
      rw [joinNL_append (a :: A) (l :: m :: B) (by simp) (by simp), joinNL_cons_cons]

theorem reinsert_stripFrom (isP : Str → Bool) : ∀ (S A : List Str),
    (∀ x ∈ A, NL ∉ x) → (∀ x ∈ S, NL ∉ x) → (∀ x ∈ S, isP x = true → TAB ∉ x) →
    (A = [] → ∀ l S', S = l :: S' → isP l = true →
      joinNL (stripFrom isP 2 S').1 ≠ [] ∨ (stripFrom isP 2 S').1 = []) →
    reinsert (joinNL (A ++ (stripFrom isP (A.length + 1) S).1)) (stripFrom isP (A.length + 1) S).2 = joinNL (A ++ S)
  | [], A, _, _, _, _ => by simp [stripFrom, reinsert]
  | l :: S, A, hA, hS, hT, hF => by
    have hS' : ∀ x ∈ S, NL ∉ x := fun x hx => hS x (by simp [hx])
    have hT' : ∀ x ∈ S, isP x = true → TAB ∉ x := fun x hx => hT x (by simp [hx])
    have hA' : ∀ x ∈ A ++ [l], NL ∉ x := by
      intro x hx; simp at hx
      rcases hx with hx | hx
      · exact hA x hx
      · subst hx; exact hS x (by simp)
    have hlen : (A ++ [l]).length + 1 = A.length + 1 + 1 := by simp
    have ih := reinsert_stripFrom isP S (A ++ [l]) hA' hS' hT' (by intro e; simp at e)
    rw [hlen] at ih
    have e1 : A ++ [l] ++ S = A ++ l :: S := by simp
    by_cases hp : isP l = true
    · simp only [stripFrom, if_pos hp, reinsert]
      rw [insertPragma_joined A _ l (hT l (by simp) hp) hA]
      · have e2 : A ++ l :: (stripFrom isP (A.length + 1 + 1) S).1 = A ++ [l] ++ (stripFrom isP (A.length + 1 + 1) S).1 := by simp
        rw [e2, ih, e1]
      · intro hAe
        subst hAe
        exact hF rfl l S rfl hp
    · simp only [stripFrom, if_neg hp]
      have e2 : A ++ l :: (stripFrom isP (A.length + 1 + 1) S).1 = A ++ [l] ++ (stripFrom isP (A.length + 1 + 1) S).1 := by simp
      rw [e2, ih, e1]

end Verif.Lemmas.Tabs
