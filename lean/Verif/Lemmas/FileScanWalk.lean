/-
  Helper lemmas for C19: the directory walk and single paths, related to file identities.
-/
import Verif.Model.FileScan
import Verif.Model.FileScanSpec
import Verif.Lemmas.FileScanBasic
import Verif.Lemmas.FileScanPath
import Verif.Lemmas.FileScanLoop
namespace Verif.Lemmas.FileScan
open Verif.Model.FileScan

/-! ### stripPrefix, joinSlash -/

theorem stripPrefix_eq_some : ∀ {P q r : Path}, stripPrefix P q = some r ↔ q = P ++ r
  | [], q, r => by simp [stripPrefix]
  | a :: P, [], r => by simp [stripPrefix]
  | a :: P, b :: q, r => by
    simp only [stripPrefix]
    split
    · rename_i e; subst e
      simp [stripPrefix_eq_some (P := P) (q := q) (r := r)]
    · rename_i e
      simp only [List.cons_append, List.cons.injEq, reduceCtorEq, false_iff, not_and]
      intro e'; exact absurd e'.symm e

theorem stripPrefix_append (P r : Path) : stripPrefix P (P ++ r) = some r :=
  stripPrefix_eq_some.mpr rfl

theorem joinSlash_splitFirst : ∀ s : Str,
    joinSlash ((splitFirst '/' s).1 :: (splitFirst '/' s).2) = s
  | [] => rfl
  | c :: cs => by
    have ih := joinSlash_splitFirst cs
    simp only [splitFirst]
    split
    · rename_i e; subst e
      simp only [joinSlash, List.nil_append]
      rw [ih]
    · cases htl : (splitFirst '/' cs).2 with
      | nil => simp only [htl, joinSlash] at ih ⊢; rw [ih]
      | cons b rest =>
        simp only [htl, joinSlash] at ih ⊢
        simp only [List.cons_append]
        rw [ih]

theorem joinSlash_splitOn (s : Str) : joinSlash (splitOn '/' s) = s := joinSlash_splitFirst s

theorem joinSlash_concat : ∀ {init : List Str} (c : Str), init ≠ [] →
    joinSlash (init ++ [c]) = joinSlash init ++ '/' :: c
  | [], _, h => absurd rfl h
  | [a], c, _ => by simp [joinSlash]
  | a :: b :: rest, c, _ => by
    have := joinSlash_concat (init := b :: rest) c (by simp)
    simp only [List.cons_append, joinSlash] at this ⊢
    rw [this]; simp

theorem splitOn_ne_nil (sep : Char) (s : Str) : splitOn sep s ≠ [] := by simp [splitOn]

/-- The last component of a path string is a suffix of the string. -/
theorem splitOn_last_suffix {s : Str} {init : List Str} {c : Str}
    (h : splitOn '/' s = init ++ [c]) : c <:+ s := by
  have hj := joinSlash_splitOn s
  rw [h] at hj
  cases init with
  | nil => simp [joinSlash] at hj; rw [hj]; exact List.suffix_refl _
  | cons a as =>
    rw [joinSlash_concat c (by simp)] at hj
    rw [← hj]
    exact List.suffix_append_of_suffix (List.suffix_cons _ _)

/-! ### more on resolution -/

theorem kindAt_dropLast_dir {t : Tree} (wf : WF t) {q : Path} {k : Kind}
    (h : kindAt t q = some k) : kindAt t q.dropLast = some .dir := by
  cases hq : q.getLast? with
  | none =>
    have : q = [] := by simpa using hq
    subst this; rfl
  | some n =>
    have hq' := eq_dropLast_append_of_getLast? hq
    have hne : q ≠ [] := by intro e; subst e; simp at hq
    have hm := kindAt_mem hne h
    rw [hq'] at hm
    exact kindAt_prefix_dir wf hm (by simp)

theorem resStep_some_kind {t : Tree} (wf : WF t) {cur : Option Path} {c : Str} {P : Path}
    (h : resStep t cur c = some P) : (kindAt t P).isSome = true := by
  cases cur with
  | none => simp [resStep] at h
  | some p =>
    simp only [resStep] at h
    split at h
    · cases h
    · rename_i hd
      have hd' : kindAt t p = some .dir := by simpa using hd
      split at h
      · cases h; simp [hd']
      · split at h
        · split at h
          · cases h
          · cases h; simp [kindAt_dropLast_dir wf hd']
        · split at h
          · rename_i he; cases h; exact he
          · cases h

/-- A string that resolves to a regular file ends with that file's name. -/
theorem resolve_file_last {t : Tree} (wf : WF t) {p : Str} {P : Path}
    (hres : resolve t p = some P) (hk : kindAt t P = some .file) :
    ∃ n, P.getLast? = some n ∧ n <:+ p := by
  have hr := rel_of_resolve hres
  rw [resolve_eq_resS hr] at hres
  obtain ⟨init, c, hsplit⟩ : ∃ init c, splitOn '/' p = init ++ [c] := by
    have hne := splitOn_ne_nil '/' p
    exact ⟨(splitOn '/' p).dropLast, (splitOn '/' p).getLast hne,
      (List.dropLast_concat_getLast hne).symm⟩
  have hsuf := splitOn_last_suffix hsplit
  simp only [resS, resC, hsplit, List.foldl_append, List.foldl_cons, List.foldl_nil] at hres
  generalize List.foldl (resStep t) (some []) init = cur at hres
  cases cur with
  | none => simp [resStep] at hres
  | some q =>
    simp only [resStep] at hres
    split at hres
    · cases hres
    · rename_i hd
      have hd' : kindAt t q = some .dir := by simpa using hd
      split at hres
      · cases hres; rw [hd'] at hk; cases hk
      · split at hres
        · split at hres
          · cases hres
          · cases hres
            rw [kindAt_dropLast_dir wf hd'] at hk; cases hk
        · split at hres
          · cases hres; exact ⟨c, by simp, hsuf⟩
          · cases hres

theorem resolve_some_kind {t : Tree} (wf : WF t) {p : Str} {P : Path}
    (hres : resolve t p = some P) : (kindAt t P).isSome = true := by
  have hr := rel_of_resolve hres
  rw [resolve_eq_resS hr] at hres
  obtain ⟨init, c, hsplit⟩ : ∃ init c, splitOn '/' p = init ++ [c] := by
    have hne := splitOn_ne_nil '/' p
    exact ⟨(splitOn '/' p).dropLast, (splitOn '/' p).getLast hne,
      (List.dropLast_concat_getLast hne).symm⟩
  simp only [resS, resC, hsplit, List.foldl_append, List.foldl_cons, List.foldl_nil] at hres
  exact resStep_some_kind wf hres

/-! ### the walk -/

theorem mem_walkDir {t : Tree} {r : Bool} {exts : List Str} {top : Str} {P : Path} {s : Str} :
    s ∈ walkDir t r exts top P ↔
      ∃ q rel f, (q, Kind.file) ∈ t ∧ stripPrefix P q = some rel ∧ rel.getLast? = some f ∧
        (r = true ∨ rel.dropLast = []) ∧
        s = stripOneSep (walkRoot top rel.dropLast) ++ '/' :: f ∧ eligible t exts s = true := by
  simp only [walkDir, List.mem_filterMap]
  constructor
  · rintro ⟨⟨q, k⟩, hmem, h⟩
    cases k with
    | dir => simp at h
    | file =>
      cases hsp : stripPrefix P q with
      | none => simp [hsp] at h
      | some rel =>
        simp only [hsp] at h
        cases hl : rel.getLast? with
        | none => simp [hl] at h
        | some f =>
          simp only [hl] at h
          split at h
          · cases h
          · rename_i hr
            split at h
            · rename_i he
              cases h
              refine ⟨q, rel, f, hmem, hsp, hl, ?_, rfl, he⟩
              cases r with
              | true => exact Or.inl rfl
              | false => right; simpa using hr
            · cases h
  · rintro ⟨q, rel, f, hmem, hsp, hl, hr, rfl, he⟩
    refine ⟨(q, .file), hmem, ?_⟩
    simp only [hsp, hl]
    have : ¬ ((!r && decide (rel.dropLast ≠ [])) = true) := by
      rcases hr with hr | hr
      · simp [hr]
      · simp [hr]
    rw [if_neg this, if_pos he]

/-- Completeness of one path: every file the documentation says `p` designates is reported,
under a string that resolves to it. -/
theorem processPath_complete {t : Tree} (wf : WF t) {r : Bool} {exts : List Str} {p : Str}
    {Fs : List Path} {F : Path} (hs : specPath t r exts p = some Fs) (hF : F ∈ Fs) :
    ∃ f ∈ (processPath t r exts p).files, resolve t f = some F := by
  simp only [specPath] at hs
  cases hres : resolve t p with
  | none => simp [hres] at hs
  | some P =>
    simp only [hres] at hs
    by_cases hd : kindAt t P = some .dir
    · simp only [hd, if_true, Option.some.injEq] at hs
      subst hs
      simp only [dirFiles, List.mem_map, List.mem_filter, Bool.and_eq_true, beq_iff_eq] at hF
      obtain ⟨⟨q, k⟩, ⟨hmem, ⟨hk, hu⟩, hel⟩, rfl⟩ := hF
      simp only at hk hu hel ⊢
      subst hk
      -- q = P ++ rel
      obtain ⟨rel, hsp, hrel⟩ : ∃ rel, stripPrefix P q = some rel ∧ rel ≠ [] ∧
          (r = true ∨ rel.dropLast = []) := by
        simp only [isUnder] at hu
        split at hu
        · rename_i n hsp; exact ⟨[n], hsp, by simp, Or.inr rfl⟩
        · rename_i a b l hsp; exact ⟨a :: b :: l, hsp, by simp, Or.inl hu⟩
        · cases hu
      have hq := stripPrefix_eq_some.mp hsp
      obtain ⟨f, hl⟩ : ∃ f, rel.getLast? = some f := by
        cases h : rel.getLast? with
        | none => exact absurd (by simpa using h) hrel.1
        | some f => exact ⟨f, rfl⟩
      have hrel' := eq_dropLast_append_of_getLast? hl
      have hq' : q = P ++ rel.dropLast ++ [f] := by rw [hq, List.append_assoc, ← hrel']
      have hmem' : (P ++ rel.dropLast ++ [f], Kind.file) ∈ t := hq' ▸ hmem
      have hwalk := resolve_walk wf hres hmem'
      refine ⟨stripOneSep (walkRoot p rel.dropLast) ++ '/' :: f, ?_, by rw [hwalk, ← hq']⟩
      simp only [processPath, hres, hd, if_true]
      refine mem_walkDir.mpr ⟨q, rel, f, hmem, hsp, hl, hrel.2, rfl, ?_⟩
      simp only [eligible, isFile, hwalk, Bool.and_eq_true, beq_iff_eq]
      refine ⟨kindAt_of_mem wf hmem', ?_⟩
      have hlast : q.getLast? = some f := by rw [hq']; simp
      simp only [eligibleLast, hlast, eligibleName, List.any_eq_true] at hel
      obtain ⟨e, he, hsuf⟩ := hel
      refine List.any_eq_true.mpr ⟨e, he, ?_⟩
      simp only [endsWith, List.isSuffixOf_iff_suffix] at hsuf ⊢
      exact List.suffix_append_of_suffix (List.suffix_cons_iff.mpr (Or.inr hsuf))
    · simp only [hd, if_false] at hs
      by_cases hel : eligibleLast exts P = true
      · simp only [hel, if_true, Option.some.injEq] at hs
        subst hs
        simp only [List.mem_singleton] at hF
        subst hF
        have hfile : kindAt t F = some .file := by
          have := resolve_some_kind wf hres
          cases hk : kindAt t F with
          | none => simp [hk] at this
          | some k => cases k with
            | file => rfl
            | dir => exact absurd hk hd
        obtain ⟨n, hn, hsuf⟩ := resolve_file_last wf hres hfile
        have helig : eligible t exts p = true := by
          simp only [eligible, isFile, hres, hfile, Bool.and_eq_true, beq_self_eq_true, true_and]
          simp only [eligibleLast, hn, eligibleName, List.any_eq_true] at hel
          obtain ⟨e, he, hs'⟩ := hel
          refine List.any_eq_true.mpr ⟨e, he, ?_⟩
          simp only [endsWith, List.isSuffixOf_iff_suffix] at hs' ⊢
          exact hs'.trans hsuf
        refine ⟨p, ?_, hres⟩
        simp [processPath, hres, hd, helig]
      · simp [hel] at hs

end Verif.Lemmas.FileScan

namespace Verif.Lemmas.FileScan
open Verif.Model.FileScan

/-- Whatever a path contributes passed the eligibility test of the code. -/
theorem processPath_files_eligible {t : Tree} {r : Bool} {exts : List Str} {p f : Str}
    (h : f ∈ (processPath t r exts p).files) : eligible t exts f = true := by
  simp only [processPath] at h
  split at h
  · simp at h
  · split at h
    · obtain ⟨_, _, _, _, _, _, _, _, he⟩ := mem_walkDir.mp h; exact he
    · split at h
      · rename_i he; simp at h; subst h; exact he
      · simp at h

theorem processPath_found_recurse (t : Tree) (r r' : Bool) (exts : List Str) (p : Str) :
    (processPath t r exts p).found = (processPath t r' exts p).found := by
  simp only [processPath]
  split
  · rfl
  · split
    · rfl
    · split <;> rfl

theorem processPath_files_recurse {t : Tree} {exts : List Str} {p f : Str}
    (h : f ∈ (processPath t false exts p).files) : f ∈ (processPath t true exts p).files := by
  simp only [processPath] at h ⊢
  split
  · simp_all
  · rename_i P hres
    simp only [hres] at h
    split
    · rename_i hd
      simp only [hd, if_true] at h
      obtain ⟨q, rel, f', h1, h2, h3, _, h5, h6⟩ := mem_walkDir.mp h
      exact mem_walkDir.mpr ⟨q, rel, f', h1, h2, h3, Or.inl rfl, h5, h6⟩
    · rename_i hd
      simpa [hd] using h

theorem contrib_eligible {t : Tree} {r : Bool} {exts : List Str} {a f : Str}
    (h : f ∈ contrib t r exts a) : eligible t exts f = true := by
  simp only [contrib] at h
  split at h
  · obtain ⟨g, _, hg⟩ := List.mem_flatMap.mp h
    exact processPath_files_eligible hg
  · exact processPath_files_eligible h

theorem argFails_recurse (t : Tree) (r r' : Bool) (exts : List Str) (a : Str) :
    argFails t r exts a = argFails t r' exts a := by
  simp only [argFails, processPath_found_recurse t r r']

theorem contrib_recurse {t : Tree} {exts : List Str} {a f : Str}
    (h : f ∈ contrib t false exts a) : f ∈ contrib t true exts a := by
  simp only [contrib] at h ⊢
  split
  · rename_i hg
    simp only [hg, if_true] at h
    obtain ⟨g, hg', hf⟩ := List.mem_flatMap.mp h
    exact List.mem_flatMap.mpr ⟨g, hg', processPath_files_recurse hf⟩
  · rename_i hg
    simp only [hg] at h
    exact processPath_files_recurse h

end Verif.Lemmas.FileScan
