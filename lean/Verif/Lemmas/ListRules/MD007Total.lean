import Verif.Lemmas.ListRules.Rep
import Verif.Lemmas.TokenRules.Basic
/-!
  MD007 never raises on a stream that satisfies `guard007` (scan mode): one step, then the whole run.
-/
namespace Verif.Model.ListRules
open Verif.Model.TokenRules

def IsLeafKind (t : Tok) : Prop :=
  t.kind ≠ .bquote ∧ t.kind ≠ .bquoteEnd ∧ t.kind ≠ .ulist ∧ t.kind ≠ .olist ∧ t.kind ≠ .li ∧
  t.kind ≠ .ulistEnd ∧ t.kind ≠ .olistEnd

theorem manage_leaf (c : Ctm) (t : Tok) (h : IsLeafKind t) :
    c.manage t = if c.stack.isEmpty then .ok c else
      match leafDelta c.lastLeaf t with
      | .error e => .error e
      | .ok (d, lf) =>
        match c.bq.add c.stack.length d with
        | some bq => .ok { c with bq := bq, lastLeaf := lf }
        | none => .error .keyError := by
  obtain ⟨h1, h2, h3, h4, h5, h6, h7⟩ := h
  unfold Ctm.manage
  split <;> first | contradiction | rfl

theorem guard007_leaf (fs : Frames) (lf : Option Leaf) (t : Tok) (ts : List Tok) (h : IsLeafKind t) :
    guard007 fs lf (t :: ts) =
      (if (preBump fs lf t).isEmpty then guard007 (preBump fs lf t) lf ts
       else match leafDelta lf t with
        | .error _ => false
        | .ok (d, lf') => guard007 (bump (preBump fs lf t) d) lf' ts) := by
  obtain ⟨h1, h2, h3, h4, h5, h6, h7⟩ := h
  rw [guard007]
  simp only
  split <;> first | contradiction | rfl

theorem checks007_leaf (s : Ctm) (t : Tok) (h : IsLeafKind t) : checks007 s t = .ok false := by
  obtain ⟨h1, h2, h3, h4, h5, h6, h7⟩ := h
  simp [checks007, h3, h5]

theorem ite_ok_ex {α β : Type} (p : Prop) [Decidable p] (a b : List α) :
    ∃ rp, (if p then (Except.ok (a, ([] : List β)) : Except Err (List α × List β)) else Except.ok (b, [])) = .ok (rp, []) := by
  split <;> exact ⟨_, rfl⟩

theorem check007_scan_ok (c : C007) (fs : Frames) (lf : Option Leaf) (s : Ctm) (i : Nat) (t : Tok) (h : Rep fs lf s)
    (hb : budget (dropUl fs) = true) : ∃ rp, check007 c false s i t = .ok (rp, []) := by
  unfold check007
  rw [h.1, ulRun_map]
  obtain ⟨r, hr⟩ := baseGo_ok s.bq (dropUl fs) false 0 0 (RepBq_dropUl _ _ h.2.1) hb
  rw [hr]
  obtain ⟨base, bqb⟩ := r
  simp only [decide007, Bool.false_eq_true, ↓reduceIte]
  exact ite_ok_ex _ _ _

theorem stack_length (fs : Frames) (lf : Option Leaf) (s : Ctm) (h : Rep fs lf s) : s.stack.length = fs.length := by
  rw [h.1]; simp

theorem next007_leaf_ok (c : C007) (fm : Bool) (fs : Frames) (lf : Option Leaf) (s : Ctm) (i : Nat) (t : Tok) (ts : List Tok)
    (hl : IsLeafKind t) (h : Rep fs lf s) (hg : guard007 fs lf (t :: ts) = true) :
    ∃ s' fs' lf', next007 c fm s i t = .ok (s', [], []) ∧ Rep fs' lf' s' ∧ guard007 fs' lf' ts = true := by
  obtain ⟨s1, hp, h1⟩ := Rep_premanage fs lf s t h
  rw [guard007_leaf fs lf t ts hl] at hg
  unfold next007
  rw [hp]
  simp only [checks007_leaf s1 t hl, Bool.false_eq_true, ↓reduceIte]
  rw [manage_leaf s1 t hl]
  have hs : s1.stack.isEmpty = (preBump fs lf t).isEmpty := by rw [h1.1]; cases (preBump fs lf t) <;> rfl
  rw [hs]
  by_cases he : (preBump fs lf t).isEmpty = true
  · simp only [he, ↓reduceIte] at hg ⊢
    exact ⟨s1, _, lf, rfl, h1, hg⟩
  · simp only [he, Bool.false_eq_true, ↓reduceIte] at hg ⊢
    rw [h1.2.2.2]
    cases hd : leafDelta lf t with
    | error e => simp [hd] at hg
    | ok p =>
      obtain ⟨d, lf'⟩ := p
      simp only [hd] at hg ⊢
      have hne : preBump fs lf t ≠ [] := by intro e; rw [e] at he; simp at he
      obtain ⟨bq', hb1, hb2⟩ := Rep_bump _ lf lf' s1 d h1 hne
      rw [hb1]
      exact ⟨_, _, lf', rfl, hb2, hg⟩

theorem preBump_of_not_setextEnd (fs : Frames) (lf : Option Leaf) (t : Tok) (h : t.kind ≠ .setextEnd) :
    preBump fs lf t = fs := by
  unfold preBump
  simp [h]

/-- one step of MD007 in scan mode under the guard -/
theorem next007_scan_ok (c : C007) (fs : Frames) (lf : Option Leaf) (s : Ctm) (i : Nat) (t : Tok) (ts : List Tok)
    (h : Rep fs lf s) (hg : guard007 fs lf (t :: ts) = true) :
    ∃ s' rp fs' lf', next007 c false s i t = .ok (s', rp, []) ∧ Rep fs' lf' s' ∧ guard007 fs' lf' ts = true := by
  by_cases hl : IsLeafKind t
  · obtain ⟨s', fs', lf', h1, h2, h3⟩ := next007_leaf_ok c false fs lf s i t ts hl h hg
    exact ⟨s', [], fs', lf', h1, h2, h3⟩
  · obtain ⟨s1, hp, h1⟩ := Rep_premanage fs lf s t h
    have hk : t.kind ≠ .setextEnd := by
      intro e; apply hl; simp [IsLeafKind, e]
    rw [preBump_of_not_setextEnd fs lf t hk] at h1
    have hlen := stack_length fs lf s1 h1
    rw [guard007] at hg
    simp only [preBump_of_not_setextEnd fs lf t hk] at hg
    unfold next007
    rw [hp]
    simp only
    split at hg
    · -- bquote
      rename_i hk
      simp only [checks007, hk, reduceCtorEq, ↓reduceIte, Ctm.manage]
      refine ⟨_, [], (t, 0) :: fs, lf, rfl, ⟨by simp [h1.1], ?_, ?_, h1.2.2.2⟩, hg⟩
      · rw [hlen]; exact RepBq_push _ _ _ h1.2.1
      · exact RepAdj_push_other _ _ _ (by simp [isListStart, hk]) h1.2.2.1
    · -- olist
      rename_i hk
      simp only [checks007, hk, reduceCtorEq, ↓reduceIte, Ctm.manage]
      refine ⟨_, [], (t, 0) :: fs, lf, rfl, ⟨by simp [h1.1], ?_, ?_, h1.2.2.2⟩, hg⟩
      · rw [hlen]; exact RepBq_push _ _ _ h1.2.1
      · rw [hlen]; exact RepAdj_push_list _ _ _ h1.2.2.1
    · -- ulist
      rename_i hk
      simp only [Bool.and_eq_true] at hg
      obtain ⟨rp, hc⟩ := check007_scan_ok c fs lf s1 i t h1 hg.1
      simp only [checks007, hk, ↓reduceIte, hc, Ctm.manage]
      refine ⟨_, rp, (t, 0) :: fs, lf, rfl, ⟨by simp [h1.1], ?_, ?_, h1.2.2.2⟩, hg.2⟩
      · rw [hlen]; exact RepBq_push _ _ _ h1.2.1
      · rw [hlen]; exact RepAdj_push_list _ _ _ h1.2.2.1
    · -- li
      rename_i hk
      cases fs with
      | nil => simp at hg
      | cons f rest =>
        obtain ⟨top, n⟩ := f
        simp only [Bool.and_eq_true, Bool.or_eq_true, decide_eq_true_eq] at hg
        obtain ⟨⟨hls, hbud⟩, hgt⟩ := hg
        have hst : s1.stack = top :: rest.map (·.1) := by rw [h1.1]; rfl
        obtain ⟨a', ha1, ha2⟩ := RepAdj_bump s1.adj (top, n) rest hls h1.2.2.1
        have hlen' : s1.stack.length = rest.length + 1 := by rw [hlen]; rfl
        simp only [checks007, hk, reduceCtorEq, ↓reduceIte, hst]
        by_cases hu : top.kind = .ulist
        · have hb : budget (dropUl ((top, n) :: rest)) = true := by
            rcases hbud with hbud | hbud
            · exact absurd hu hbud
            · exact hbud
          obtain ⟨rp, hc⟩ := check007_scan_ok c ((top, n) :: rest) lf s1 i t h1 hb
          simp only [hu, decide_true, ↓reduceIte, hc, Ctm.manage, hk, hlen', ha1]
          exact ⟨_, rp, (top, n) :: rest, lf, rfl, ⟨h1.1, h1.2.1, ha2, h1.2.2.2⟩, hgt⟩
        · simp only [hu, decide_false, Bool.false_eq_true, ↓reduceIte, Ctm.manage, hk, hlen', ha1]
          exact ⟨_, [], (top, n) :: rest, lf, rfl, ⟨h1.1, h1.2.1, ha2, h1.2.2.2⟩, hgt⟩
    · -- bquoteEnd
      rename_i hk
      cases fs with
      | nil => simp at hg
      | cons f rest =>
        have hst : s1.stack = f.1 :: rest.map (·.1) := by rw [h1.1]; rfl
        have hlen' : s1.stack.length = rest.length + 1 := by rw [hlen]; rfl
        obtain ⟨bq', hd⟩ := del_isSome s1.bq (rest.length + 1) f.2 h1.2.1.1
        simp only [checks007, hk, reduceCtorEq, ↓reduceIte, Ctm.manage, hst, List.length_cons, List.length_map, hd]
        refine ⟨_, [], rest, lf, rfl, ⟨rfl, RepBq_pop _ _ f rest h1.2.1 hd, h1.2.2.1.2, h1.2.2.2⟩, hg⟩
    · -- ulistEnd
      rename_i hk
      cases fs with
      | nil => simp at hg
      | cons f rest =>
        simp only [Bool.and_eq_true] at hg
        have hst : s1.stack = f.1 :: rest.map (·.1) := by rw [h1.1]; rfl
        have hlen' : s1.stack.length = rest.length + 1 := by rw [hlen]; rfl
        obtain ⟨bq', hd⟩ := del_isSome s1.bq (rest.length + 1) f.2 h1.2.1.1
        obtain ⟨v, hv⟩ := h1.2.2.1.1 hg.1
        obtain ⟨a', hd2⟩ := del_isSome s1.adj (rest.length + 1) v hv
        simp only [checks007, hk, reduceCtorEq, ↓reduceIte, Ctm.manage, hst, List.length_cons, List.length_map, hd, hd2]
        refine ⟨_, [], rest, lf, rfl, ⟨rfl, RepBq_pop _ _ f rest h1.2.1 hd, RepAdj_pop _ _ f rest h1.2.2.1 hd2, h1.2.2.2⟩, hg.2⟩
    · -- olistEnd
      rename_i hk
      cases fs with
      | nil => simp at hg
      | cons f rest =>
        simp only [Bool.and_eq_true] at hg
        have hst : s1.stack = f.1 :: rest.map (·.1) := by rw [h1.1]; rfl
        have hlen' : s1.stack.length = rest.length + 1 := by rw [hlen]; rfl
        obtain ⟨bq', hd⟩ := del_isSome s1.bq (rest.length + 1) f.2 h1.2.1.1
        obtain ⟨v, hv⟩ := h1.2.2.1.1 hg.1
        obtain ⟨a', hd2⟩ := del_isSome s1.adj (rest.length + 1) v hv
        simp only [checks007, hk, reduceCtorEq, ↓reduceIte, Ctm.manage, hst, List.length_cons, List.length_map, hd, hd2]
        refine ⟨_, [], rest, lf, rfl, ⟨rfl, RepBq_pop _ _ f rest h1.2.1 hd, RepAdj_pop _ _ f rest h1.2.2.1 hd2, h1.2.2.2⟩, hg.2⟩
    · -- leaf kinds: excluded by `hl`
      rename_i n1 n2 n3 n4 n5 n6 n7
      exact absurd ⟨n1, n5, n3, n2, n4, n6, n7⟩ hl

theorem runFrom007_scan_ok (c : C007) : ∀ (ts : List Tok) (fs : Frames) (lf : Option Leaf) (s : Ctm) (i : Nat),
    Rep fs lf s → guard007 fs lf ts = true → ∃ s' rps, runFrom md007.toRule c false s i ts = .ok (s', rps, []) := by
  intro ts
  induction ts with
  | nil => intros; exact ⟨_, _, rfl⟩
  | cons t ts ih =>
    intro fs lf s i h hg
    obtain ⟨s', rp, fs', lf', h1, h2, h3⟩ := next007_scan_ok c fs lf s i t ts h hg
    obtain ⟨s'', rps, h4⟩ := ih fs' lf' s' (i + 1) h2 h3
    refine ⟨s'', rp ++ rps, ?_⟩
    have := runFrom_cons_ok md007.toRule c false s s' s'' i t ts rp [] rps [] h1 h4
    simpa using this

end Verif.Model.ListRules
