import Verif.Lemmas.ListRules.MD007
import Verif.Model.ListRules.MD006
/-!
  MD006: shape of one step, totality under the balance guard.
-/
namespace Verif.Model.ListRules
open Verif.Model.TokenRules

/-- no prefix closes more containers than it opened, and `li` tokens come inside a container -/
def bal006 : Nat → List Tok → Bool
  | _, [] => true
  | n, t :: ts =>
    match t.kind with
    | .ulist | .olist | .bquote => bal006 (n + 1) ts
    | .ulistEnd | .olistEnd | .bquoteEnd => decide (0 < n) && bal006 (n - 1) ts
    | .li => decide (0 < n) && bal006 n ts
    | _ => bal006 n ts

/-- every block quote token has its `bleading_spaces` -/
def bqOk (t : Tok) : Bool := decide (t.kind = .bquote → t.leading ≠ none)

theorem check006_shape (fm : Bool) (st : St006) (i : Nat) (t : Tok) (rp : List Report) (fx : List FixReq)
    (h : check006 fm st i t = .ok (rp, fx)) :
    (∀ q ∈ fx, q.idx = i) ∧ (∀ x ∈ rp, x.line = t.line ∧ x.col = t.col) := by
  unfold check006 at h
  cases he : expected006 st with
  | error e => rw [he] at h; cases h
  | ok ex =>
    rw [he] at h
    by_cases hd : ¬ (1 + ex - t.col = 0)
    · simp only [ne_eq, hd, not_false_eq_true, ↓reduceIte, Except.ok.injEq] at h
      unfold act006 at h
      cases fm with
      | true =>
        simp only [↓reduceIte, Prod.mk.injEq] at h
        obtain ⟨rfl, rfl⟩ := h
        refine ⟨?_, by simp⟩
        intro q hq
        by_cases hli : t.kind = .li
        · simp only [hli, ↓reduceIte, List.cons_append, List.nil_append, List.mem_cons, List.not_mem_nil, or_false] at hq
          rcases hq with rfl | rfl <;> rfl
        · simp only [hli, ↓reduceIte, List.cons_append, List.nil_append, List.mem_cons, List.not_mem_nil, or_false] at hq
          rcases hq with rfl | rfl | rfl <;> rfl
      | false =>
        simp only [Bool.false_eq_true, ↓reduceIte, Prod.mk.injEq] at h
        obtain ⟨rfl, rfl⟩ := h
        refine ⟨by simp, ?_⟩
        intro x hx
        simp only [List.mem_cons, List.not_mem_nil, or_false] at hx
        subst hx; exact ⟨rfl, rfl⟩
    · have hd' : 1 + ex - t.col = 0 := Classical.not_not.mp hd
      simp only [ne_eq, hd', not_true_eq_false, ↓reduceIte, Except.ok.injEq, Prod.mk.injEq] at h
      obtain ⟨rfl, rfl⟩ := h
      exact ⟨by simp, by simp⟩

theorem next006_shape (fm : Bool) (st : St006) (i : Nat) (t : Tok) (st' : St006) (rp : List Report) (fx : List FixReq)
    (h : next006 () fm st i t = .ok (st', rp, fx)) :
    (∀ q ∈ fx, q.idx = i) ∧ (∀ x ∈ rp, (t.kind = .ulist ∨ t.kind = .li) ∧ x.line = t.line ∧ x.col = t.col) := by
  unfold next006 at h
  split at h
  · rename_i hk
    split at h
    · cases h
    · rename_i rp' fx' hc
      simp only [Except.ok.injEq, Prod.mk.injEq] at h
      obtain ⟨_, rfl, rfl⟩ := h
      obtain ⟨h1, h2⟩ := check006_shape fm _ i t _ _ hc
      exact ⟨h1, fun x hx => ⟨Or.inl hk, h2 x hx⟩⟩
  · simp only [Except.ok.injEq, Prod.mk.injEq] at h
    obtain ⟨_, rfl, rfl⟩ := h; exact ⟨by simp, by simp⟩
  · simp only [Except.ok.injEq, Prod.mk.injEq] at h
    obtain ⟨_, rfl, rfl⟩ := h; exact ⟨by simp, by simp⟩
  · split at h
    · cases h
    · simp only [Except.ok.injEq, Prod.mk.injEq] at h
      obtain ⟨_, rfl, rfl⟩ := h; exact ⟨by simp, by simp⟩
  · split at h
    · cases h
    · simp only [Except.ok.injEq, Prod.mk.injEq] at h
      obtain ⟨_, rfl, rfl⟩ := h; exact ⟨by simp, by simp⟩
  · split at h
    · cases h
    · simp only [Except.ok.injEq, Prod.mk.injEq] at h
      obtain ⟨_, rfl, rfl⟩ := h; exact ⟨by simp, by simp⟩
  · rename_i hk
    split at h
    · cases h
    · split at h
      · split at h
        · cases h
        · rename_i rp' fx' hc
          simp only [Except.ok.injEq, Prod.mk.injEq] at h
          obtain ⟨_, rfl, rfl⟩ := h
          obtain ⟨h1, h2⟩ := check006_shape fm _ i t _ _ hc
          exact ⟨h1, fun x hx => ⟨Or.inr hk, h2 x hx⟩⟩
      · simp only [Except.ok.injEq, Prod.mk.injEq] at h
        obtain ⟨_, rfl, rfl⟩ := h; exact ⟨by simp, by simp⟩
  · simp only [Except.ok.injEq, Prod.mk.injEq] at h
    obtain ⟨_, rfl, rfl⟩ := h; exact ⟨by simp, by simp⟩

theorem md006_local : IsLocal md006.toRule := by
  intro c s i t s' rp fx h q hq
  exact (next006_shape true s i t s' rp fx h).1 q hq

theorem expected006_ok (st : St006) (h : ∀ u ∈ st, bqOk u = true) : ∃ ex, expected006 st = .ok ex := by
  unfold expected006
  split
  · rename_i x parent rest
    by_cases hk : parent.kind = .bquote
    · simp only [hk, ↓reduceIte]
      have := h parent (by simp)
      simp only [bqOk, decide_eq_true_eq] at this
      cases hl : parent.leading with
      | none => exact absurd hl (this hk)
      | some ls =>
        simp only
        cases hs : splitNl ls with
        | nil => exact absurd hs (splitNl_ne_nil ls)
        | cons seg tl => exact ⟨_, rfl⟩
    · simp only [hk, ↓reduceIte]; exact ⟨_, rfl⟩
  · exact ⟨_, rfl⟩

theorem check006_ok (fm : Bool) (st : St006) (i : Nat) (t : Tok) (h : ∀ u ∈ st, bqOk u = true) :
    ∃ r, check006 fm st i t = .ok r := by
  obtain ⟨ex, he⟩ := expected006_ok st h
  unfold check006
  rw [he]
  simp only
  split <;> exact ⟨_, rfl⟩

theorem next006_ok (fm : Bool) (st : St006) (i : Nat) (t : Tok) (ts : List Tok) (h : ∀ u ∈ st, bqOk u = true) (ht : bqOk t = true)
    (hb : bal006 st.length (t :: ts) = true) :
    ∃ st' rp fx, next006 () fm st i t = .ok (st', rp, fx) ∧ (∀ u ∈ st', bqOk u = true) ∧ bal006 st'.length ts = true := by
  have hcons : ∀ u ∈ t :: st, bqOk u = true := by
    intro u hu; rcases List.mem_cons.mp hu with rfl | hu
    · exact ht
    · exact h u hu
  unfold bal006 at hb
  unfold next006
  split at hb
  · rename_i hk
    obtain ⟨r, hr⟩ := check006_ok fm (t :: st) i t hcons
    simp only [hk, hr]
    exact ⟨_, _, _, rfl, hcons, hb⟩
  · rename_i hk; simp only [hk]; exact ⟨_, _, _, rfl, hcons, hb⟩
  · rename_i hk; simp only [hk]; exact ⟨_, _, _, rfl, hcons, hb⟩
  · rename_i hk
    simp only [Bool.and_eq_true, decide_eq_true_eq] at hb
    cases st with
    | nil => simp at hb
    | cons x st' => simp only [hk]; exact ⟨_, _, _, rfl, fun u hu => h u (List.mem_cons_of_mem _ hu), by simpa using hb.2⟩
  · rename_i hk
    simp only [Bool.and_eq_true, decide_eq_true_eq] at hb
    cases st with
    | nil => simp at hb
    | cons x st' => simp only [hk]; exact ⟨_, _, _, rfl, fun u hu => h u (List.mem_cons_of_mem _ hu), by simpa using hb.2⟩
  · rename_i hk
    simp only [Bool.and_eq_true, decide_eq_true_eq] at hb
    cases st with
    | nil => simp at hb
    | cons x st' => simp only [hk]; exact ⟨_, _, _, rfl, fun u hu => h u (List.mem_cons_of_mem _ hu), by simpa using hb.2⟩
  · rename_i hk
    simp only [Bool.and_eq_true, decide_eq_true_eq] at hb
    cases st with
    | nil => simp at hb
    | cons x st' =>
      simp only [hk]
      by_cases hu : x.kind = .ulist
      · obtain ⟨r, hr⟩ := check006_ok fm (x :: st') i t h
        simp only [hu, ↓reduceIte, hr]
        exact ⟨_, _, _, rfl, h, hb.2⟩
      · simp only [hu, ↓reduceIte]
        exact ⟨_, _, _, rfl, h, hb.2⟩
  · rename_i n1 n2 n3 n4 n5 n6 n7
    have : next006 () fm st i t = .ok (st, [], []) := by
      unfold next006
      split <;> first | contradiction | rfl
    unfold next006 at this
    exact ⟨_, _, _, this, h, hb⟩

theorem runFrom006_ok (fm : Bool) : ∀ (ts : List Tok) (st : St006) (i : Nat), (∀ u ∈ st, bqOk u = true) → (∀ u ∈ ts, bqOk u = true) →
    bal006 st.length ts = true → ∃ r, runFrom md006.toRule () fm st i ts = .ok r := by
  intro ts
  induction ts with
  | nil => intros; exact ⟨_, rfl⟩
  | cons t ts ih =>
    intro st i h hts hb
    obtain ⟨st', rp, fx, h1, h2, h3⟩ := next006_ok fm st i t ts h (hts t List.mem_cons_self) hb
    obtain ⟨r, h4⟩ := ih st' (i + 1) h2 (fun u hu => hts u (List.mem_cons_of_mem _ hu)) h3
    obtain ⟨s2, rps, fxs⟩ := r
    exact ⟨_, runFrom_cons_ok md006.toRule () fm st st' s2 i t ts rp fx rps fxs h1 h4⟩

end Verif.Model.ListRules
