import Verif.Model.ListRules.Basic
/-!
  Lemmas about the association-list model of Python `dict` (`Dict.set`, `Dict.del`, `Dict.add`) and the small
  Python string helpers of `Model/ListRules/Basic.lean`.
-/
namespace Verif.Model.ListRules
open Verif.Model.TokenRules

theorem lookup_filter_ne (d : Dict) (k k' : Nat) (h : k' ≠ k) :
    (d.filter (fun p => p.1 != k)).lookup k' = d.lookup k' := by
  induction d with
  | nil => rfl
  | cons p d ih =>
    obtain ⟨a, b⟩ := p
    by_cases ha : a = k
    · subst ha
      have h1 : (k' == a) = false := by simp [h]
      simp [List.filter, List.lookup, h1, ih]
    · have h2 : (a != k) = true := by simp [ha]
      simp only [List.filter, h2, List.lookup]
      cases hk : (k' == a) <;> simp [ih]

theorem lookup_set_self (d : Dict) (k : Nat) (v : Int) : (d.set k v).lookup k = some v := by
  simp [Dict.set, List.lookup]

theorem lookup_set_ne (d : Dict) (k k' : Nat) (v : Int) (h : k' ≠ k) : (d.set k v).lookup k' = d.lookup k' := by
  have h1 : (k' == k) = false := by simp [h]
  simp only [Dict.set, List.lookup, h1]
  exact lookup_filter_ne d k k' h

theorem lookup_del_ne (d d' : Dict) (k k' : Nat) (hd : d.del k = some d') (h : k' ≠ k) : d'.lookup k' = d.lookup k' := by
  unfold Dict.del at hd
  split at hd
  · cases hd; exact lookup_filter_ne d k k' h
  · cases hd

theorem del_isSome (d : Dict) (k : Nat) (v : Int) (h : d.lookup k = some v) : ∃ d', d.del k = some d' := by
  simp [Dict.del, h]

theorem del_eq_none (d : Dict) (k : Nat) (h : d.lookup k = none) : d.del k = none := by
  simp [Dict.del, h]

theorem add_of_lookup (d : Dict) (k : Nat) (v x : Int) (h : d.lookup k = some v) : d.add k x = some (d.set k (v + x)) := by
  simp [Dict.add, h]

theorem add_eq_none (d : Dict) (k : Nat) (x : Int) (h : d.lookup k = none) : d.add k x = none := by
  simp [Dict.add, h]

theorem lookup_add_ne (d d' : Dict) (k k' : Nat) (x : Int) (hd : d.add k x = some d') (h : k' ≠ k) :
    d'.lookup k' = d.lookup k' := by
  unfold Dict.add at hd
  split at hd
  · cases hd; exact lookup_set_ne d k k' _ h
  · cases hd

theorem lookup_add_self (d d' : Dict) (k : Nat) (x : Int) (hd : d.add k x = some d') :
    ∃ v, d.lookup k = some v ∧ d'.lookup k = some (v + x) := by
  unfold Dict.add at hd
  split at hd
  · rename_i v hv; cases hd; exact ⟨v, hv, lookup_set_self d k _⟩
  · cases hd

/-- `s[:-d]` for `0 < d ≤ len(s)` drops exactly the last `d` characters -/
theorem pySliceTo_neg (s : Str) (d : Int) (h0 : 0 < d) : pySliceTo s (-d) = s.take ((s.length : Int) - d).toNat := by
  unfold pySliceTo
  have : ¬ (0 ≤ -d) := by omega
  simp only [this, ↓reduceIte]
  congr 1
  omega

theorem splitNl_ne_nil (s : Str) : splitNl s ≠ [] := by
  cases s with
  | nil => simp [splitNl]
  | cons c cs =>
    unfold splitNl
    split
    · simp
    · split <;> simp

end Verif.Model.ListRules
