import Verif.Lemmas.ListRules.Dict
import Verif.Model.ListRules.Frames
/-!
  The dictionary bookkeeping of `ContainerTokenManager` represents a frame stack (`Rep`), and every operation of
  `manage_container_tokens` / `premanage_container_tokens` that the guard allows preserves the representation.
-/
namespace Verif.Model.ListRules
open Verif.Model.TokenRules

theorem RepBq_congr (bq bq' : Dict) : ∀ (fs : Frames), (∀ k, k ≤ fs.length → bq'.lookup k = bq.lookup k) →
    RepBq bq fs → RepBq bq' fs := by
  intro fs
  induction fs with
  | nil => intros; trivial
  | cons f rest ih =>
    intro h hr
    refine ⟨?_, ih (fun k hk => h k (by simp only [List.length_cons]; omega)) hr.2⟩
    rw [h _ (by simp)]; exact hr.1

theorem RepAdj_congr (a a' : Dict) : ∀ (fs : Frames), (∀ k, k ≤ fs.length → a'.lookup k = a.lookup k) →
    RepAdj a fs → RepAdj a' fs := by
  intro fs
  induction fs with
  | nil => intros; trivial
  | cons f rest ih =>
    intro h hr
    refine ⟨?_, ih (fun k hk => h k (by simp only [List.length_cons]; omega)) hr.2⟩
    intro hl
    rw [h _ (by simp)]; exact hr.1 hl

theorem RepBq_push (bq : Dict) (fs : Frames) (t : Tok) (h : RepBq bq fs) :
    RepBq (bq.set (fs.length + 1) 0) ((t, 0) :: fs) :=
  ⟨lookup_set_self _ _ _, RepBq_congr bq _ fs (fun k hk => lookup_set_ne _ _ _ _ (by omega)) h⟩

theorem RepAdj_push_list (a : Dict) (fs : Frames) (t : Tok) (h : RepAdj a fs) :
    RepAdj (a.set (fs.length + 1) 1) ((t, 0) :: fs) :=
  ⟨fun _ => ⟨1, lookup_set_self _ _ _⟩, RepAdj_congr a _ fs (fun k hk => lookup_set_ne _ _ _ _ (by omega)) h⟩

theorem RepAdj_push_other (a : Dict) (fs : Frames) (t : Tok) (ht : isListStart t = false) (h : RepAdj a fs) :
    RepAdj a ((t, 0) :: fs) :=
  ⟨fun hl => by simp [ht] at hl, h⟩

theorem RepBq_pop (bq bq' : Dict) (f : Tok × Int) (rest : Frames) (h : RepBq bq (f :: rest))
    (hd : bq.del (rest.length + 1) = some bq') : RepBq bq' rest :=
  RepBq_congr bq bq' rest (fun k hk => lookup_del_ne bq bq' _ k hd (by omega)) h.2

theorem RepAdj_pop (a a' : Dict) (f : Tok × Int) (rest : Frames) (h : RepAdj a (f :: rest))
    (hd : a.del (rest.length + 1) = some a') : RepAdj a' rest :=
  RepAdj_congr a a' rest (fun k hk => lookup_del_ne a a' _ k hd (by omega)) h.2

theorem RepBq_bump (bq : Dict) (t : Tok) (n d : Int) (rest : Frames) (h : RepBq bq ((t, n) :: rest)) :
    ∃ bq', bq.add (rest.length + 1) d = some bq' ∧ RepBq bq' ((t, n + d) :: rest) := by
  refine ⟨_, add_of_lookup bq _ n d h.1, lookup_set_self _ _ _, ?_⟩
  exact RepBq_congr bq _ rest (fun k hk => lookup_set_ne _ _ _ _ (by omega)) h.2

theorem RepAdj_bump (a : Dict) (f : Tok × Int) (rest : Frames) (hl : isListStart f.1 = true) (h : RepAdj a (f :: rest)) :
    ∃ a', a.add (rest.length + 1) 1 = some a' ∧ RepAdj a' (f :: rest) := by
  obtain ⟨v, hv⟩ := h.1 hl
  refine ⟨_, add_of_lookup a _ v 1 hv, fun _ => ⟨_, lookup_set_self _ _ _⟩, ?_⟩
  exact RepAdj_congr a _ rest (fun k hk => lookup_set_ne _ _ _ _ (by omega)) h.2

theorem bump_map_fst (fs : Frames) (d : Int) : (bump fs d).map (·.1) = fs.map (·.1) := by
  cases fs with
  | nil => rfl
  | cons f rest => obtain ⟨t, n⟩ := f; rfl

theorem bump_length (fs : Frames) (d : Int) : (bump fs d).length = fs.length := by
  cases fs with
  | nil => rfl
  | cons f rest => obtain ⟨t, n⟩ := f; rfl

theorem RepAdj_bump_frames (a : Dict) (fs : Frames) (d : Int) (h : RepAdj a fs) : RepAdj a (bump fs d) := by
  cases fs with
  | nil => trivial
  | cons f rest => obtain ⟨t, n⟩ := f; exact h

/-- a leaf delta is added to the top frame -/
theorem Rep_bump (fs : Frames) (lf lf' : Option Leaf) (c : Ctm) (d : Int) (h : Rep fs lf c) (hne : fs ≠ []) :
    ∃ bq', c.bq.add c.stack.length d = some bq' ∧ Rep (bump fs d) lf' { c with bq := bq', lastLeaf := lf' } := by
  obtain ⟨hs, hb, ha, _⟩ := h
  cases fs with
  | nil => exact absurd rfl hne
  | cons f rest =>
    obtain ⟨t, n⟩ := f
    obtain ⟨bq', h1, h2⟩ := RepBq_bump c.bq t n d rest hb
    have hl : c.stack.length = rest.length + 1 := by rw [hs]; simp
    refine ⟨bq', by rw [hl]; exact h1, ?_, h2, ha, rfl⟩
    simp [hs, bump]

theorem Rep_premanage (fs : Frames) (lf : Option Leaf) (c : Ctm) (t : Tok) (h : Rep fs lf c) :
    ∃ c1, c.premanage t = .ok c1 ∧ Rep (preBump fs lf t) lf c1 := by
  unfold Ctm.premanage preBump
  have hs : c.stack.isEmpty = fs.isEmpty := by rw [h.1]; cases fs <;> rfl
  have hl : c.lastLeaf = lf := h.2.2.2
  rw [hs, hl]
  by_cases hc : (!fs.isEmpty && lf == some Leaf.setext && decide (t.kind = Kind.setextEnd)) = true
  · simp only [hc, ↓reduceIte]
    have hne : fs ≠ [] := by
      intro e; subst e; simp at hc
    obtain ⟨bq', h1, h2⟩ := Rep_bump fs lf lf c 1 h hne
    rw [h1]
    refine ⟨_, rfl, ?_⟩
    exact h2
  · simp only [hc, Bool.false_eq_true, ↓reduceIte]
    exact ⟨c, rfl, h⟩

theorem pyGet_of_inRange {α : Type} (l : List α) (n : Int) (h : inRange n l.length = true) : ∃ x, pyGet l n = some x := by
  unfold inRange at h
  simp only [decide_eq_true_eq] at h
  unfold pyGet
  by_cases h0 : 0 ≤ n
  · simp only [h0, ↓reduceIte]
    have : n.toNat < l.length := by omega
    exact ⟨l[n.toNat], by simp [this]⟩
  · simp only [h0, ↓reduceIte]
    have h1 : 0 ≤ n + l.length := by omega
    simp only [h1, ↓reduceIte]
    have : (n + l.length).toNat < l.length := by omega
    exact ⟨l[(n + l.length).toNat], by simp [this]⟩

/-- under the line budget the base-column computation cannot fail -/
theorem baseGo_ok (bq : Dict) : ∀ (fs : Frames) (ig : Bool) (base bqb : Int), RepBq bq fs → budget fs = true →
    ∃ r, baseGo bq (fs.map (·.1)) ig base bqb = .ok r := by
  intro fs
  induction fs with
  | nil => intros; exact ⟨_, rfl⟩
  | cons f rest ih =>
    intro ig base bqb hr hb
    obtain ⟨t, n⟩ := f
    simp only [budget, Bool.and_eq_true] at hb
    obtain ⟨hb1, hb2⟩ := hb
    simp only [List.map_cons]
    unfold baseGo
    split
    · exact ih _ _ _ hr.2 hb2
    · rename_i hk
      simp only [hk, ↓reduceIte] at hb1
      have hlk : bq.lookup (rest.length + 1) = some n := hr.1
      simp only [List.length_map, hlk]
      cases hlead : t.leading with
      | none => simp [hlead] at hb1
      | some ls =>
        simp only [hlead] at hb1
        obtain ⟨seg, hseg⟩ := pyGet_of_inRange (splitNl ls) n hb1
        simp only [hseg]
        exact ih _ _ _ hr.2 hb2
    · exact ih _ _ _ hr.2 hb2

theorem ulRun_map (fs : Frames) : (ulRun (fs.map (·.1))).2 = (dropUl fs).map (·.1) := by
  induction fs with
  | nil => rfl
  | cons f rest ih =>
    simp only [List.map_cons, ulRun, dropUl]
    by_cases hk : f.1.kind = .ulist
    · simp only [hk, ↓reduceIte]; exact ih
    · simp only [hk, ↓reduceIte, List.map_cons]

theorem RepBq_dropUl (bq : Dict) (fs : Frames) (h : RepBq bq fs) : RepBq bq (dropUl fs) := by
  induction fs with
  | nil => trivial
  | cons f rest ih =>
    simp only [dropUl]
    by_cases hk : f.1.kind = .ulist
    · simp only [hk, ↓reduceIte]; exact ih h.2
    · simp only [hk, ↓reduceIte]; exact h

end Verif.Model.ListRules
