import Verif.Lemmas.ListRules.MD007Total
/-!
  MD007: locality of the fix requests, where the reports are, what the fix changes, and the simulation behind
  `md007_state_reset` (a run from a state whose `list_adjust_map` has MORE keys follows the same path).
-/
namespace Verif.Model.ListRules
open Verif.Model.TokenRules

/-! ## generic: every report of a run comes from a step -/
theorem runFrom_reports {Cfg St : Type} (r : Rule Cfg St) (c : Cfg) (fm : Bool) (P : Report → Tok → Prop)
    (hstep : ∀ s i t s' rp fx, r.next c fm s i t = .ok (s', rp, fx) → ∀ x ∈ rp, P x t) :
    ∀ (ts : List Tok) (s : St) (i : Nat) s' rps fxs, runFrom r c fm s i ts = .ok (s', rps, fxs) →
      ∀ x ∈ rps, ∃ t ∈ ts, P x t := by
  intro ts
  induction ts with
  | nil => intro s i s' rps fxs h x hx; simp [runFrom] at h; simp [h.2.1] at hx
  | cons t ts ih =>
    intro s i s' rps fxs h x hx
    unfold runFrom at h
    split at h
    · cases h
    · rename_i s1 rp fx hn
      split at h
      · cases h
      · rename_i s2 rps' fxs' hr
        simp only [Except.ok.injEq, Prod.mk.injEq] at h
        obtain ⟨_, rfl, _⟩ := h
        rcases List.mem_append.mp hx with hx | hx
        · exact ⟨t, List.mem_cons_self, hstep s i t s1 rp fx hn x hx⟩
        · obtain ⟨u, hu, hp⟩ := ih s1 (i + 1) s2 rps' fxs' hr x hx
          exact ⟨u, List.mem_cons_of_mem _ hu, hp⟩

/-! ## the shape of one step -/
theorem leadReq007_idx (i : Nat) (t : Tok) (total : Int) : ∀ q ∈ leadReq007 i t total, q.idx = i := by
  intro q hq
  unfold leadReq007 at hq
  split at hq
  · simp only [List.mem_cons, List.not_mem_nil, or_false] at hq; rw [hq]
  · simp at hq

theorem fix007_idx (i : Nat) (t : Tok) (a w : Int) (fx : List FixReq) (h : fix007 i t a w = .ok fx) : ∀ q ∈ fx, q.idx = i := by
  unfold fix007 at h
  simp only at h
  by_cases hlt : (t.ws.length : Int) < a - w
  · simp only [hlt, ↓reduceIte] at h; cases h
  · simp only [hlt, ↓reduceIte, Except.ok.injEq] at h
    subst h
    intro q hq
    by_cases hli : t.kind = .li
    · simp only [hli, ↓reduceIte, List.append_nil, List.mem_cons, List.not_mem_nil, or_false] at hq
      rcases hq with rfl | rfl <;> rfl
    · simp only [hli, ↓reduceIte, List.cons_append, List.nil_append, List.mem_cons] at hq
      rcases hq with rfl | rfl | rfl | hq
      · rfl
      · rfl
      · rfl
      · exact leadReq007_idx i t _ q hq

theorem decide007_shape (c : C007) (fm : Bool) (i : Nat) (t : Tok) (depth base bqb : Int) (rp : List Report) (fx : List FixReq)
    (h : decide007 c fm i t depth base bqb = .ok (rp, fx)) :
    (∀ q ∈ fx, q.idx = i) ∧ (∀ x ∈ rp, x.line = t.line ∧ x.col = t.col) ∧ (fm = true → rp = []) ∧ (fm = false → fx = []) := by
  unfold decide007 at h
  simp only at h
  by_cases hlt : depth * c.indent < t.col - 1 - base
  · simp only [hlt, ↓reduceIte] at h
    cases fm with
    | true =>
      simp only [↓reduceIte] at h
      cases hf : fix007 i t (t.col - 1 - base) (depth * c.indent) with
      | error e => rw [hf] at h; cases h
      | ok fx' =>
        rw [hf] at h
        simp only [Except.ok.injEq, Prod.mk.injEq] at h
        obtain ⟨rfl, rfl⟩ := h
        exact ⟨fix007_idx i t _ _ _ hf, by simp, fun _ => rfl, fun h => Bool.noConfusion h⟩
    | false =>
      simp only [Bool.false_eq_true, ↓reduceIte, Except.ok.injEq, Prod.mk.injEq] at h
      obtain ⟨rfl, rfl⟩ := h
      refine ⟨by simp, ?_, fun h => Bool.noConfusion h, fun _ => rfl⟩
      intro x hx
      simp only [List.mem_cons, List.not_mem_nil, or_false] at hx
      subst hx; exact ⟨rfl, rfl⟩
  · simp only [hlt, ↓reduceIte, Except.ok.injEq, Prod.mk.injEq] at h
    obtain ⟨rfl, rfl⟩ := h
    exact ⟨by simp, by simp, fun _ => rfl, fun _ => rfl⟩

theorem check007_shape (c : C007) (fm : Bool) (s : Ctm) (i : Nat) (t : Tok) (rp : List Report) (fx : List FixReq)
    (h : check007 c fm s i t = .ok (rp, fx)) :
    (∀ q ∈ fx, q.idx = i) ∧ (∀ x ∈ rp, x.line = t.line ∧ x.col = t.col) ∧ (fm = true → rp = []) ∧ (fm = false → fx = []) := by
  unfold check007 at h
  split at h
  · cases h
  · exact decide007_shape c fm i t _ _ _ rp fx h

/-- decomposition of a successful step -/
theorem next007_inv (c : C007) (fm : Bool) (s : Ctm) (i : Nat) (t : Tok) (s' : Ctm) (rp : List Report) (fx : List FixReq)
    (h : next007 c fm s i t = .ok (s', rp, fx)) :
    ∃ s1 b, s.premanage t = .ok s1 ∧ checks007 s1 t = .ok b ∧
      (if b then check007 c fm s1 i t else .ok ([], [])) = .ok (rp, fx) ∧ s1.manage t = .ok s' := by
  unfold next007 at h
  split at h
  · cases h
  · rename_i s1 hp
    split at h
    · cases h
    · rename_i b hb
      split at h
      · cases h
      · rename_i rp' fx' hc
        split at h
        · cases h
        · rename_i s2 hm
          simp only [Except.ok.injEq, Prod.mk.injEq] at h
          obtain ⟨rfl, rfl, rfl⟩ := h
          exact ⟨s1, b, hp, hb, hc, hm⟩

theorem checks007_true (s : Ctm) (t : Tok) (h : checks007 s t = .ok true) : t.kind = .ulist ∨ t.kind = .li := by
  unfold checks007 at h
  split at h
  · left; assumption
  · split at h
    · right; assumption
    · cases h

theorem next007_shape (c : C007) (fm : Bool) (s : Ctm) (i : Nat) (t : Tok) (s' : Ctm) (rp : List Report) (fx : List FixReq)
    (h : next007 c fm s i t = .ok (s', rp, fx)) :
    (∀ q ∈ fx, q.idx = i) ∧ (∀ x ∈ rp, (t.kind = .ulist ∨ t.kind = .li) ∧ x.line = t.line ∧ x.col = t.col) ∧
    (fm = true → rp = []) ∧ (fm = false → fx = []) := by
  obtain ⟨s1, b, _, hb, hc, _⟩ := next007_inv c fm s i t s' rp fx h
  cases b with
  | false =>
    simp only [Bool.false_eq_true, ↓reduceIte, Except.ok.injEq, Prod.mk.injEq] at hc
    obtain ⟨rfl, rfl⟩ := hc
    exact ⟨by simp, by simp, fun _ => rfl, fun _ => rfl⟩
  | true =>
    simp only [↓reduceIte] at hc
    obtain ⟨h1, h2, h3, h4⟩ := check007_shape c fm s1 i t rp fx hc
    exact ⟨h1, fun x hx => ⟨checks007_true s1 t hb, h2 x hx⟩, h3, h4⟩

theorem md007_local : IsLocal md007.toRule := by
  intro c s i t s' rp fx h q hq
  exact (next007_shape c true s i t s' rp fx h).1 q hq

/-! ## a state with more `list_adjust_map` keys follows the same path -/
def AdjLe (a b : Dict) : Prop := ∀ k v, a.lookup k = some v → ∃ w, b.lookup k = some w

theorem AdjLe_set (a b : Dict) (k : Nat) (v w : Int) (h : AdjLe a b) : AdjLe (a.set k v) (b.set k w) := by
  intro k' v' hk
  by_cases e : k' = k
  · subst e; exact ⟨w, lookup_set_self _ _ _⟩
  · rw [lookup_set_ne _ _ _ _ e] at hk
    obtain ⟨w', hw⟩ := h k' v' hk
    exact ⟨w', by rw [lookup_set_ne _ _ _ _ e]; exact hw⟩

theorem premanage_adj (a : Ctm) (d : Dict) (t : Tok) (a1 : Ctm) (h : a.premanage t = .ok a1) :
    ({ a with adj := d } : Ctm).premanage t = .ok { a1 with adj := d } ∧ a1.adj = a.adj := by
  unfold Ctm.premanage at h ⊢
  simp only at h ⊢
  split
  · rename_i hc
    simp only [hc, ↓reduceIte] at h
    split at h
    · rename_i bq hb
      cases h
      simp [hb]
    · cases h
  · rename_i hc
    simp only [hc, ↓reduceIte] at h
    cases h
    exact ⟨rfl, rfl⟩

theorem AdjLe_del (a b a' : Dict) (k : Nat) (h : AdjLe a b) (ha : a.del k = some a') :
    ∃ b', b.del k = some b' ∧ AdjLe a' b' := by
  have hk : ∃ v, a.lookup k = some v := by
    unfold Dict.del at ha
    split at ha
    · rename_i v hv; exact ⟨v, hv⟩
    · cases ha
  obtain ⟨v, hv⟩ := hk
  obtain ⟨w, hw⟩ := h k v hv
  obtain ⟨b', hb⟩ := del_isSome b k w hw
  refine ⟨b', hb, ?_⟩
  intro k' v' hk'
  by_cases e : k' = k
  · subst e
    exfalso
    unfold Dict.del at ha
    rw [hv] at ha
    cases ha
    have : ∀ (l : Dict), (l.filter (fun p => p.1 != k')).lookup k' = none := by
      intro l
      induction l with
      | nil => rfl
      | cons p l ih =>
        simp only [List.filter]
        by_cases hp : p.1 = k'
        · simp [hp, ih]
        · have : (p.1 != k') = true := by simp [hp]
          simp only [this, List.lookup]
          have : (k' == p.1) = false := by simp; exact fun e => hp e.symm
          simp [this, ih]
    rw [this] at hk'; cases hk'
  · rw [lookup_del_ne a a' k k' ha e] at hk'
    obtain ⟨w', hw'⟩ := h k' v' hk'
    exact ⟨w', by rw [lookup_del_ne b b' k k' hb e]; exact hw'⟩

theorem listEnd_adj (a : Ctm) (d : Dict) (t : Tok) (a' : Ctm) (hk : t.kind = .ulistEnd ∨ t.kind = .olistEnd)
    (h : (match a.bq.del a.stack.length with
      | none => Except.error Err.keyError
      | some bq =>
        match a.adj.del a.stack.length with
        | none => Except.error Err.keyError
        | some adj =>
          match a.stack with
          | [] => Except.error Err.indexError
          | _ :: st => Except.ok { a with stack := st, bq := bq, adj := adj }) = Except.ok a') (hle : AdjLe a.adj d) :
    ∃ d', ({ a with adj := d } : Ctm).manage t = .ok { a' with adj := d' } ∧ AdjLe a'.adj d' := by
  split at h
  · cases h
  · rename_i bq hb
    split at h
    · cases h
    · rename_i adj ha
      split at h
      · cases h
      · rename_i x st hst
        cases h
        obtain ⟨b', hb', hle'⟩ := AdjLe_del _ _ _ _ hle ha
        refine ⟨b', ?_, hle'⟩
        rcases hk with hk | hk
        · simp only [Ctm.manage, hk]; rw [hb, hb']; simp only [hst]
        · simp only [Ctm.manage, hk]; rw [hb, hb']; simp only [hst]

theorem manage_adj (a : Ctm) (d : Dict) (t : Tok) (a' : Ctm) (h : a.manage t = .ok a') (hle : AdjLe a.adj d) :
    ∃ d', ({ a with adj := d } : Ctm).manage t = .ok { a' with adj := d' } ∧ AdjLe a'.adj d' := by
  by_cases hl : IsLeafKind t
  · rw [manage_leaf _ _ hl] at h ⊢
    cases he : a.stack.isEmpty
    · simp only [he, Bool.false_eq_true, ↓reduceIte] at h ⊢
      cases hd : leafDelta a.lastLeaf t with
      | error e => rw [hd] at h; cases h
      | ok p =>
        obtain ⟨dl, lf⟩ := p
        rw [hd] at h
        simp only at h
        cases hb : a.bq.add a.stack.length dl with
        | none => rw [hb] at h; cases h
        | some bq =>
          rw [hb] at h; cases h
          exact ⟨d, by simp only [hd, hb], hle⟩
    · simp only [he, ↓reduceIte] at h ⊢
      cases h; exact ⟨d, rfl, hle⟩
  · unfold Ctm.manage at h
    split at h
    · rename_i hk
      cases h; exact ⟨d, by simp only [Ctm.manage, hk], hle⟩
    · rename_i hk
      split at h
      · cases h
      · rename_i bq hb
        split at h
        · cases h
        · rename_i x st hst
          cases h
          refine ⟨d, ?_, hle⟩
          simp only [Ctm.manage, hk]
          rw [hb]
          simp only [hst]
    · rename_i hk
      cases h; exact ⟨d.set (a.stack.length + 1) 1, by simp only [Ctm.manage, hk], AdjLe_set _ _ _ 1 1 hle⟩
    · rename_i hk
      cases h; exact ⟨d.set (a.stack.length + 1) 1, by simp only [Ctm.manage, hk], AdjLe_set _ _ _ 1 1 hle⟩
    · rename_i hk
      split at h
      · rename_i adj ha
        cases h
        obtain ⟨v, hv, _⟩ := lookup_add_self _ _ _ _ ha
        obtain ⟨w, hw⟩ := hle _ _ hv
        refine ⟨d.set a.stack.length (w + 1), ?_, ?_⟩
        · simp only [Ctm.manage, hk]
          rw [add_of_lookup d _ w 1 hw]
        · have : adj = a.adj.set a.stack.length (v + 1) := by
            have := add_of_lookup a.adj _ v 1 hv
            rw [this] at ha; cases ha; rfl
          rw [this]
          exact AdjLe_set _ _ _ _ _ hle
      · cases h
    · rename_i hk
      exact listEnd_adj a d t a' (Or.inl hk) h hle
    · rename_i hk
      exact listEnd_adj a d t a' (Or.inr hk) h hle
    · rename_i n1 n2 n3 n4 n5 n6 n7
      exact absurd ⟨n1, n2, n3, n4, n5, n6, n7⟩ hl

end Verif.Model.ListRules

namespace Verif.Model.ListRules
open Verif.Model.TokenRules

theorem next007_adj (c : C007) (fm : Bool) (a : Ctm) (d : Dict) (i : Nat) (t : Tok) (a' : Ctm) (rp : List Report) (fx : List FixReq)
    (h : next007 c fm a i t = .ok (a', rp, fx)) (hle : AdjLe a.adj d) :
    ∃ d', next007 c fm { a with adj := d } i t = .ok ({ a' with adj := d' }, rp, fx) ∧ AdjLe a'.adj d' := by
  obtain ⟨s1, b, hp, hb, hc, hm⟩ := next007_inv c fm a i t a' rp fx h
  obtain ⟨hp', hadj⟩ := premanage_adj a d t s1 hp
  obtain ⟨d', hm', hle'⟩ := manage_adj s1 d t a' hm (by rw [hadj]; exact hle)
  refine ⟨d', ?_, hle'⟩
  unfold next007
  rw [hp']
  have h1 : checks007 { s1 with adj := d } t = checks007 s1 t := rfl
  have h2 : check007 c fm { s1 with adj := d } i t = check007 c fm s1 i t := rfl
  simp only [h1, hb, h2, hc, hm']

theorem runFrom007_adj (c : C007) (fm : Bool) : ∀ (ts : List Tok) (a : Ctm) (d : Dict) (i : Nat) a' rps fxs,
    runFrom md007.toRule c fm a i ts = .ok (a', rps, fxs) → AdjLe a.adj d →
    ∃ d', runFrom md007.toRule c fm { a with adj := d } i ts = .ok ({ a' with adj := d' }, rps, fxs) := by
  intro ts
  induction ts with
  | nil =>
    intro a d i a' rps fxs h _
    simp only [runFrom, Except.ok.injEq, Prod.mk.injEq] at h
    obtain ⟨rfl, rfl, rfl⟩ := h
    exact ⟨d, rfl⟩
  | cons t ts ih =>
    intro a d i a' rps fxs h hle
    unfold runFrom at h
    split at h
    · cases h
    · rename_i s1 rp fx hn
      split at h
      · cases h
      · rename_i s2 rps' fxs' hr
        simp only [Except.ok.injEq, Prod.mk.injEq] at h
        obtain ⟨rfl, rfl, rfl⟩ := h
        obtain ⟨d1, hn', hle'⟩ := next007_adj c fm a d i t s1 rp fx hn hle
        obtain ⟨d2, hr'⟩ := ih s1 d1 (i + 1) s2 rps' fxs' hr hle'
        exact ⟨d2, runFrom_cons_ok md007.toRule c fm _ _ _ i t ts rp fx rps' fxs' hn' hr'⟩

end Verif.Model.ListRules
