/-
  `reset_list_looseness` on a well-formed stream: the forward scan finds the end token of the innermost enclosing LIST
  (block quotes are not counted), `__find_owning_list_start` walks back to that list's start token.
-/
import Verif.Lemmas.GfmCalcTotal
namespace Verif.Lemmas.GfmReset
open Verif.Model.GfmRender Verif.Lemmas.GfmBasic Verif.Lemmas.GfmScan Verif.Lemmas.GfmCalcTotal

/-- the tokens of `F` stand at the indices `a, a+1, …` of `ts` -/
def At (ts : List Tok) (a : Nat) (F : List Tok) : Prop := ∀ m, m < F.length → ts[a + m]? = F[m]?

theorem At.cons {ts : List Tok} {a : Nat} {t : Tok} {F : List Tok} (h : At ts a (t :: F)) :
    ts[a]? = some t ∧ At ts (a + 1) F := by
  refine ⟨by simpa using h 0 (by simp), ?_⟩
  intro m hm
  have := h (m + 1) (by simp; omega)
  simp only [List.getElem?_cons_succ] at this
  rw [← this]; congr 1; omega

theorem At.append {ts : List Tok} {a : Nat} {F G : List Tok} (h : At ts a (F ++ G)) :
    At ts a F ∧ At ts (a + F.length) G := by
  constructor
  · intro m hm
    have := h m (by simp; omega)
    rw [List.getElem?_append_left hm] at this; exact this
  · intro m hm
    have := h (F.length + m) (by simp; omega)
    rw [List.getElem?_append_right (by omega)] at this
    have e : F.length + m - F.length = m := by omega
    rw [e] at this
    rw [← this]; congr 1; omega

theorem listKind_cases (k : Kind) : (k = .ulist ∨ k = .olist) ∨ (k ≠ .ulist ∧ k ≠ .olist) := by
  cases k <;> simp

theorem start_isList {s : Tok} {k : Kind} (hk : s.kind? = some k) :
    s.isListStart = (k == .ulist || k == .olist) ∧ s.isListEnd = false := by
  obtain ⟨l, b⟩ := s
  cases b <;> simp [Tok.kind?, Body.kind?] at hk <;> subst hk <;>
    simp [Tok.isListStart, Tok.isListEnd, Tok.isKind, Tok.isEndOf, Tok.kind?, Body.kind?]

theorem end_isList {e : Tok} {k : Kind} {p : Nat} {f : Bool} (he : e.body = .end_ k p f) :
    e.isListEnd = (k == .ulist || k == .olist) ∧ e.isListStart = false := by
  obtain ⟨l, b⟩ := e
  simp only at he; subst he
  simp [Tok.isListStart, Tok.isListEnd, Tok.isKind, Tok.isEndOf, Tok.kind?, Body.kind?]

/-- walking back over a complete forest leaves `__find_owning_list_start`'s counter unchanged -/
theorem findOwning_skip (ts : List Tok) {par : Option Kind} {a : Nat} {F : List Tok} (h : GForest par a F) :
    At ts a F → ∀ sc, findOwningLoop ts (a + F.length) sc = findOwningLoop ts a sc := by
  induction h with
  | nil => intro _ sc; rfl
  | @atom par a t k rest hk hst _ _ ih =>
    intro hat sc
    obtain ⟨h0, hr⟩ := hat.cons
    have e1 : a + (t :: rest).length = (a + 1) + rest.length := by simp; omega
    rw [e1, ih hr sc]
    obtain ⟨hs1, hs2⟩ := start_isList hk
    have : t.isListStart = false := by
      rw [hs1]; cases k <;> simp_all [Kind.isStart, Kind.requiresEnd]
    simp only [findOwningLoop, h0, this, hs2, Bool.false_eq_true, if_false]
  | @node par a s k body e f rest hk _ _ _ he _ ihb ihr =>
    intro hat sc
    obtain ⟨h0, hr⟩ := hat.cons
    obtain ⟨hbody, hr2⟩ := hr.append
    obtain ⟨he0, hrest⟩ := hr2.cons
    have e1 : a + (s :: (body ++ e :: rest)).length = (a + 1 + body.length + 1) + rest.length := by
      simp; omega
    have hrest' : At ts (a + 1 + body.length + 1) rest := hrest
    rw [e1, ihr hrest' sc]
    obtain ⟨hs1, hs2⟩ := start_isList hk
    obtain ⟨he1, he2⟩ := end_isList he
    have e2 : a + 1 + body.length + 1 = (a + 1 + body.length) + 1 := rfl
    rw [e2]
    rcases listKind_cases k with hl | hl
    · have hb : (k == .ulist || k == .olist) = true := by rcases hl with rfl | rfl <;> rfl
      rw [hb] at hs1 he1
      simp only [findOwningLoop, he0, he2, he1, Bool.false_eq_true, if_false, if_true]
      rw [ihb hbody (sc + 1)]
      simp only [findOwningLoop, h0, hs1, if_true]
      have : (sc + 1 == 0) = false := by simp
      simp [this]
    · have hb : (k == .ulist || k == .olist) = false := by
        cases k <;> simp_all
      rw [hb] at hs1 he1
      simp only [findOwningLoop, he0, he2, he1, Bool.false_eq_true, if_false]
      rw [ihb hbody sc]
      simp only [findOwningLoop, h0, hs1, hs2, Bool.false_eq_true, if_false]

/-- the matched node of an end token: its start token and the forest between them -/
theorem forest_end_node {par : Option Kind} {a : Nat} {F : List Tok} (h : GForest par a F) :
    ∀ j ln kd p f, F[j]? = some ⟨ln, .end_ kd p f⟩ →
      ∃ s' body, a ≤ p ∧ p + 1 + body.length = a + j ∧ F[p - a]? = some s' ∧ s'.kind? = some kd ∧
        GForest (some kd) (p + 1) body ∧ (∀ m, m < body.length → F[p - a + 1 + m]? = body[m]?) := by
  induction h with
  | nil => intro j ln kd p f hj; simp at hj
  | @atom par a t k rest hk _ _ _ ih =>
    intro j ln kd p f hj
    cases j with
    | zero =>
      simp only [List.getElem?_cons_zero, Option.some.injEq] at hj
      rw [kind_end hj] at hk; cases hk
    | succ j' =>
      simp only [List.getElem?_cons_succ] at hj
      obtain ⟨s', body, h1, h2, hs', hk', hb, hm⟩ := ih j' ln kd p f hj
      have e0 : p - a = (p - (a + 1)) + 1 := by omega
      refine ⟨s', body, by omega, by omega, ?_, hk', hb, ?_⟩
      · rw [e0, List.getElem?_cons_succ]; exact hs'
      · intro m hmm
        have : p - a + 1 + m = (p - (a + 1) + 1 + m) + 1 := by omega
        rw [this, List.getElem?_cons_succ]; exact hm m hmm
  | @node par a s k body e f' rest hk _ _ hbf he _ ihb ihr =>
    intro j ln kd p f hj
    cases j with
    | zero =>
      simp only [List.getElem?_cons_zero, Option.some.injEq] at hj
      rw [kind_end hj] at hk; cases hk
    | succ j' =>
      simp only [List.getElem?_cons_succ] at hj
      rcases Nat.lt_or_ge j' body.length with hlt | hge
      · rw [List.getElem?_append_left hlt] at hj
        obtain ⟨s', body', h1, h2, hs', hk', hb, hm⟩ := ihb j' ln kd p f hj
        have e0 : p - a = (p - (a + 1)) + 1 := by omega
        have hlt2 : p - (a + 1) < body.length := by omega
        refine ⟨s', body', by omega, by omega, ?_, hk', hb, ?_⟩
        · rw [e0, List.getElem?_cons_succ, List.getElem?_append_left hlt2]; exact hs'
        · intro m hmm
          have : p - a + 1 + m = (p - (a + 1) + 1 + m) + 1 := by omega
          rw [this, List.getElem?_cons_succ, List.getElem?_append_left (by omega)]; exact hm m hmm
      · rw [List.getElem?_append_right hge] at hj
        rcases Nat.eq_or_lt_of_le hge with heq | hgt
        · rw [← heq] at hj
          simp only [Nat.sub_self, List.getElem?_cons_zero, Option.some.injEq] at hj
          obtain ⟨le, be⟩ := e
          simp only at he
          subst he
          simp only [Tok.mk.injEq, Body.end_.injEq] at hj
          obtain ⟨_, rfl, rfl, _⟩ := hj
          refine ⟨s, body, Nat.le_refl _, by omega, by simp, hk, hbf, ?_⟩
          intro m hmm
          have : a - a + 1 + m = m + 1 := by omega
          rw [this, List.getElem?_cons_succ, List.getElem?_append_left hmm]
        · have hj' : rest[j' - body.length - 1]? = some ⟨ln, .end_ kd p f⟩ := by
            have : j' - body.length = (j' - body.length - 1) + 1 := by omega
            rw [this, List.getElem?_cons_succ] at hj; exact hj
          obtain ⟨s', body', h1, h2, hs', hk', hb, hm⟩ := ihr _ ln kd p f hj'
          have key : ∀ x, (s :: (body ++ e :: rest))[(x + (a + 1 + body.length + 1)) - a]? = rest[x]? := by
            intro x
            have e1 : x + (a + 1 + body.length + 1) - a = (x + body.length + 1) + 1 := by omega
            rw [e1, List.getElem?_cons_succ, List.getElem?_append_right (by omega)]
            have e2 : x + body.length + 1 - body.length = x + 1 := by omega
            rw [e2, List.getElem?_cons_succ]
          refine ⟨s', body', by omega, by omega, ?_, hk', hb, ?_⟩
          · have := key (p - (a + 1 + body.length + 1))
            have e3 : p - (a + 1 + body.length + 1) + (a + 1 + body.length + 1) - a = p - a := by omega
            rw [e3] at this; rw [this]; exact hs'
          · intro m hmm
            have := key (p - (a + 1 + body.length + 1) + 1 + m)
            have e3 : p - (a + 1 + body.length + 1) + 1 + m + (a + 1 + body.length + 1) - a = p - a + 1 + m := by omega
            rw [e3] at this; rw [this]; exact hm m hmm

/-- what the forward scan of `reset_list_looseness` returns is the index of a list-end token -/
theorem resetScan_some : ∀ (l : List Tok) (search sc j : Nat), resetScan l search sc = some j →
    search ≤ j ∧ ∃ e, l[j - search]? = some e ∧ e.isListEnd = true
  | [], _, _, _, h => by simp [resetScan] at h
  | t :: rest, search, sc, j, h => by
    unfold resetScan at h
    split at h
    · obtain ⟨h1, e, he, hl⟩ := resetScan_some rest (search + 1) (sc + 1) j h
      refine ⟨by omega, e, ?_, hl⟩
      have : j - search = (j - (search + 1)) + 1 := by omega
      rw [this, List.getElem?_cons_succ]; exact he
    · split at h
      · rename_i hle
        split at h
        · simp only [Option.some.injEq] at h; subst h
          exact ⟨Nat.le_refl _, t, by simp, hle⟩
        · obtain ⟨h1, e, he, hl⟩ := resetScan_some rest (search + 1) (sc - 1) j h
          refine ⟨by omega, e, ?_, hl⟩
          have : j - search = (j - (search + 1)) + 1 := by omega
          rw [this, List.getElem?_cons_succ]; exact he
      · obtain ⟨h1, e, he, hl⟩ := resetScan_some rest (search + 1) sc j h
        refine ⟨by omega, e, ?_, hl⟩
        have : j - search = (j - (search + 1)) + 1 := by omega
        rw [this, List.getElem?_cons_succ]; exact he

theorem isListEnd_body {e : Tok} (h : e.isListEnd = true) : ∃ k p f, e.body = .end_ k p f ∧ (k = .ulist ∨ k = .olist) := by
  obtain ⟨l, b⟩ := e
  cases b <;> simp_all [Tok.isListEnd, Tok.isEndOf]

/-- `__find_owning_list_start` from a list-end token of a well-formed stream returns that token's own start -/
theorem findOwning_of_end {ts : List Tok} (hG : GForest none 0 ts) (j : Nat) (e : Tok) (he : ts[j]? = some e)
    (hle : e.isListEnd = true) :
    ∃ p k f, e.body = .end_ k p f ∧ p < j ∧ findOwningListStart ts j = .ok p ∧
      ∃ s, ts[p]? = some s ∧ s.isListStart = true := by
  obtain ⟨k, p, f, hb, hk⟩ := isListEnd_body hle
  obtain ⟨ln, be⟩ := e
  simp only at hb; subst hb
  obtain ⟨s', body, h1, h2, hs', hk', hbf, hm⟩ := forest_end_node hG j ln k p f he
  simp only [Nat.sub_zero, Nat.zero_add] at hs' h2 hm
  have hsl : s'.isListStart = true := by
    obtain ⟨hs1, _⟩ := start_isList hk'
    rw [hs1]; rcases hk with rfl | rfl <;> rfl
  refine ⟨p, k, f, rfl, by omega, ?_, s', hs', hsl⟩
  unfold findOwningListStart
  simp only [he]
  have hnl : (⟨ln, .end_ k p f⟩ : Tok).isListStart = false := (end_isList rfl).2
  simp only [hnl, Bool.false_eq_true, if_false]
  have hat : At ts (p + 1) body := by
    intro m hmm
    have := hm m hmm
    rw [← this]
  have hj : j = (p + 1) + body.length := by omega
  rw [hj, findOwning_skip ts hbf hat 0]
  simp only [findOwningLoop, hs', hsl, if_true]
  rfl

/-- **`reset_list_looseness` is total on a well-formed stream.** -/
theorem reset_total {ts : List Tok} (hG : GForest none 0 ts) (st : St) (k : Nat) :
    ∃ b, resetListLooseness ts st k = .ok b := by
  unfold resetListLooseness
  cases hr : resetScan (ts.drop (k + 1)) (k + 1) 0 with
  | none => exact ⟨true, rfl⟩
  | some j =>
    obtain ⟨h1, e, he, hle⟩ := resetScan_some _ _ _ _ hr
    have he' : ts[j]? = some e := by
      rw [List.getElem?_drop] at he
      have : k + 1 + (j - (k + 1)) = j := by omega
      rw [this] at he; exact he
    obtain ⟨p, _, _, _, _, hf, _⟩ := findOwning_of_end hG j e he' hle
    simp only [hf, bind, Except.bind]
    exact ⟨_, rfl⟩

end Verif.Lemmas.GfmReset
