/-
  The *value* side: `InlineBackslashHelper.handle_backslashes` (faithful model `handleBackslashes`: index loop over
  `index_any_of`, `handle_inline_backslash`, `handle_character_reference`) computes the specification's unescaping
  (LeanMark `unescape`: backslash escapes of ASCII punctuation, entity and numeric character references, spec §2.4 / §6.2)
  whenever it returns; it fails to return only on a numeric reference to a code point above U+10FFFF (Python `ValueError`)
  or to a surrogate (outside the model's strings) — where the specification says U+FFFD.
-/
import Verif.Lemmas.LinkRecogNorm
import Verif.Model.LeanMark.Html
namespace Verif.Model.LinkRecog
open Verif.Model.Recognisers
open Verif.Model.LeanMark (isAsciiPunct isHexDigit isDigit isAlnum entityAt unescapeGo unescape cpChar hexDigitVal)

/-! ## character classes: the Python string constants are the specification's classes -/

theorem ascii_class (L : Str) (P : Char → Bool) (hL : ∀ d ∈ L, d.toNat < 128)
    (hP : ∀ c : Char, 128 ≤ c.toNat → P c = false)
    (hT : ∀ n, n < 128 → L.contains (Char.ofNat n) = P (Char.ofNat n)) (c : Char) : L.contains c = P c := by
  by_cases h : c.toNat < 128
  · have := hT c.toNat h
    rwa [Char.ofNat_toNat] at this
  · rw [hP c (by omega)]
    cases hc : L.contains c
    · rfl
    · have := hL c (by simpa using hc); omega

theorem le_toNat (a b : Char) : (decide (a ≤ b)) = decide (a.toNat ≤ b.toNat) := rfl

theorem ascii_consts : ('A'.toNat = 65) ∧ ('Z'.toNat = 90) ∧ ('a'.toNat = 97) ∧ ('z'.toNat = 122) ∧ ('0'.toNat = 48) ∧
    ('9'.toNat = 57) ∧ ('f'.toNat = 102) ∧ ('F'.toNat = 70) := by decide

/-- `InlineBackslashHelper.__backslash_punctuation` = ASCII punctuation -/
theorem bsPunct_eq (c : Char) : bsPunct.contains c = isAsciiPunct c := by
  apply ascii_class
  · decide +kernel
  · intro c h; unfold isAsciiPunct; simp only [Bool.or_eq_false_iff, Bool.and_eq_false_iff, decide_eq_false_iff_not]; omega
  · decide +kernel

/-- `string.ascii_letters + string.digits` = ASCII alphanumerics -/
theorem lettersDigits_eq (c : Char) : lettersDigits.contains c = isAlnum c := by
  apply ascii_class
  · decide +kernel
  · intro c h
    unfold isAlnum Verif.Model.LeanMark.isAlpha Verif.Model.LeanMark.isUpper Verif.Model.LeanMark.isLower isDigit
    simp only [le_toNat, Bool.or_eq_false_iff, Bool.and_eq_false_iff, decide_eq_false_iff_not]
    have := ascii_consts
    omega
  · decide +kernel

/-- `string.hexdigits` = hexadecimal digits -/
theorem hexDigits_eq (c : Char) : hexDigits.contains c = isHexDigit c := by
  apply ascii_class
  · decide +kernel
  · intro c h
    unfold isHexDigit isDigit
    simp only [le_toNat, Bool.or_eq_false_iff, Bool.and_eq_false_iff, decide_eq_false_iff_not]
    have := ascii_consts
    omega
  · decide +kernel

/-- `string.digits` = decimal digits -/
theorem digits_eq (c : Char) : digits.contains c = isDigit c := by
  apply ascii_class
  · decide +kernel
  · intro c h
    unfold isDigit
    simp only [le_toNat, Bool.and_eq_false_iff, decide_eq_false_iff_not]
    have := ascii_consts
    omega
  · decide +kernel

/-! ## `unescapeGo`: skipping, and text without `\` and `&` -/

def special (c : Char) : Bool := c == '\\' || c == '&'

theorem unescapeGo_nil (n : Nat) : unescapeGo [] n = [] := rfl

theorem unescapeGo_cons (c : Char) (r : Str) (skip : Nat) :
    unescapeGo (c :: r) skip =
      if skip > 0 then unescapeGo r (skip - 1) else
      if c == '\\' then
        match r with
        | d :: _ => if isAsciiPunct d then d :: unescapeGo r 1 else c :: unescapeGo r 0
        | [] => [c]
      else if c == '&' then
        match entityAt r with
        | some (rep, n) => rep ++ unescapeGo r n
        | none => c :: unescapeGo r 0
      else c :: unescapeGo r 0 := by
  rfl

theorem unescapeGo_skip : ∀ (l : Str) (n : Nat), unescapeGo l n = unescapeGo (l.drop n) 0 := by
  intro l
  induction l with
  | nil => intro n; simp [unescapeGo_nil]
  | cons c r ih =>
    intro n
    cases n with
    | zero => rfl
    | succ n =>
      rw [unescapeGo_cons]
      simp only [gt_iff_lt, Nat.zero_lt_succ, ↓reduceIte, Nat.add_one_sub_one, List.drop_succ_cons]
      exact ih n

theorem unescapeGo_plain (pre x : Str) (h : ∀ c ∈ pre, special c = false) :
    unescapeGo (pre ++ x) 0 = pre ++ unescapeGo x 0 := by
  induction pre with
  | nil => rfl
  | cons c r ih =>
    have hc := h c (by simp)
    unfold special at hc
    simp only [Bool.or_eq_false_iff] at hc
    rw [List.cons_append, unescapeGo_cons]
    simp only [gt_iff_lt, Nat.lt_irrefl, ↓reduceIte, hc.1, hc.2, Bool.false_eq_true]
    rw [ih (fun d hd => h d (by simp [hd]))]
    rfl

/-! ## `index_any_of` -/

theorem indexAnyOfFrom_none (cs : Str) : ∀ (l : Str) (k : Nat), indexAnyOfFrom cs l k = none → ∀ c ∈ l, cs.contains c = false := by
  intro l
  induction l with
  | nil => intro k _ c hc; simp at hc
  | cons a r ih =>
    intro k h c hc
    rw [indexAnyOfFrom] at h
    by_cases ha : cs.contains a = true
    · simp only [ha, ↓reduceIte] at h; cases h
    · simp only [ha, Bool.false_eq_true, ↓reduceIte] at h
      simp only [List.mem_cons] at hc
      rcases hc with hc | hc
      · subst hc; simpa using ha
      · exact ih _ h c hc

theorem indexAnyOfFrom_before (cs : Str) : ∀ (l : Str) (k j : Nat), indexAnyOfFrom cs l k = some j →
    ∀ c ∈ l.take (j - k), cs.contains c = false := by
  intro l
  induction l with
  | nil => intro k j h; simp [indexAnyOfFrom] at h
  | cons a r ih =>
    intro k j h c hc
    rw [indexAnyOfFrom] at h
    by_cases ha : cs.contains a = true
    · simp only [ha, ↓reduceIte, Option.some.injEq] at h
      subst h; simp at hc
    · simp only [ha, Bool.false_eq_true, ↓reduceIte] at h
      have hge := (indexAnyOfFrom_some cs r (k + 1) j h).1
      have e : j - k = (j - (k + 1)) + 1 := by omega
      rw [e, List.take_succ_cons] at hc
      simp only [List.mem_cons] at hc
      rcases hc with hc | hc
      · subst hc; simpa using ha
      · exact ih _ _ h c hc

/-! ## forward scans as `takeWhile` -/

theorem take_takeWhile_length {α : Type} (p : α → Bool) (l : List α) : l.take (l.takeWhile p).length = l.takeWhile p := by
  induction l with
  | nil => rfl
  | cons a t ih =>
    rw [List.takeWhile_cons]
    by_cases h : p a = true
    · simp only [h, ↓reduceIte, List.length_cons, List.take_succ_cons, ih]
    · simp only [h, Bool.false_eq_true, ↓reduceIte, List.length_nil, List.take_zero]

theorem slice_scanTo (s : Str) (p : Char → Bool) (j : Nat) : slice s j (scanTo s p j) = (s.drop j).takeWhile p := by
  unfold scanTo
  rw [slice_drop_take, take_takeWhile_length]

theorem drop_scanTo (s : Str) (p : Char → Bool) (j : Nat) :
    s.drop (scanTo s p j) = (s.drop j).drop ((s.drop j).takeWhile p).length := by
  unfold scanTo; rw [List.drop_drop]

theorem contains_fun (L : Str) (P : Char → Bool) (h : ∀ c, L.contains c = P c) : L.contains = P := funext h

theorem getElem?_head_drop (s : Str) (e : Nat) (h : e < s.length) : (s.drop e).head? = some s[e] := by
  rw [List.head?_drop, List.getElem?_eq_getElem h]

theorem head_drop_none (s : Str) (e : Nat) (h : ¬ e < s.length) : (s.drop e).head? = none := by
  rw [List.head?_drop, List.getElem?_eq_none (by omega)]

theorem takeWhile_all {α : Type} (p : α → Bool) (l : List α) : ∀ a ∈ l.takeWhile p, p a = true := by
  induction l with
  | nil => intro a ha; simp at ha
  | cons b t ih =>
    intro a ha
    rw [List.takeWhile_cons] at ha
    by_cases h : p b = true
    · simp only [h, ↓reduceIte, List.mem_cons] at ha
      rcases ha with ha | ha
      · rw [ha]; exact h
      · exact ih a ha
    · simp [h] at ha

/-! ## what a `&` contributes to the unescaped text -/

/-- the specification's unescaping of `&` followed by `rest` -/
def uAmp (rest : Str) : Str :=
  match entityAt rest with
  | some (rep, n) => rep ++ unescapeGo rest n
  | none => '&' :: unescapeGo rest 0

theorem unescapeGo_amp (rest : Str) : unescapeGo ('&' :: rest) 0 = uAmp rest := by
  rw [unescapeGo_cons]
  simp only [gt_iff_lt, Nat.lt_irrefl, ↓reduceIte, show ('&' == '\\') = false by decide, Bool.false_eq_true,
    beq_self_eq_true, uAmp]

theorem alnum_not_special (c : Char) (h : isAlnum c = true) : special c = false := by
  unfold special
  cases h1 : c == '\\'
  · cases h2 : c == '&'
    · rfl
    · rw [beq_iff_eq] at h2; subst h2; revert h; decide
  · rw [beq_iff_eq] at h1; subst h1; revert h; decide

theorem hex_not_special (c : Char) (h : isHexDigit c = true) : special c = false := by
  unfold special
  cases h1 : c == '\\'
  · cases h2 : c == '&'
    · rfl
    · rw [beq_iff_eq] at h2; subst h2; revert h; decide
  · rw [beq_iff_eq] at h1; subst h1; revert h; decide

theorem digit_not_special (c : Char) (h : isDigit c = true) : special c = false := by
  unfold special
  cases h1 : c == '\\'
  · cases h2 : c == '&'
    · rfl
    · rw [beq_iff_eq] at h2; subst h2; revert h; decide
  · rw [beq_iff_eq] at h1; subst h1; revert h; decide

/-- the named branch of `entityAt` -/
def entityNamed (s : Str) : Option (Str × Nat) :=
  let nm := s.takeWhile isAlnum
  if nm.isEmpty then none else
  if (s.drop nm.length).head? == some ';' then
    match Verif.Gen.Entities.lookup nm with
    | some cps => some (cps.map Char.ofNat, nm.length + 1)
    | none => none
  else none

theorem entityAt_named (rest : Str) (h : rest.head? ≠ some '#') : entityAt rest = entityNamed rest := by
  unfold entityAt entityNamed
  split
  · next r => simp at h
  · rfl

theorem namedRef_value (s : Str) (j : Nat) (hj : j ≤ s.length) (hnot : (s.drop j).head? ≠ some '#')
    (ns : Str) (ni : Nat) (h : namedRef s j = .ok (ns, ni)) :
    ns ++ unescapeGo (s.drop ni) 0 = uAmp (s.drop j) := by
  unfold namedRef at h
  rw [collectWhileOneOf_eq] at h
  simp only [hj, ↓reduceIte, liftE, contains_fun _ _ lettersDigits_eq, slice_scanTo] at h
  unfold uAmp
  rw [entityAt_named _ hnot]
  unfold entityNamed
  generalize hnm : (s.drop j).takeWhile isAlnum = nm at h ⊢
  have hplain : ∀ c ∈ nm, special c = false := by
    intro c hc; rw [← hnm] at hc; exact alnum_not_special c (takeWhile_all _ _ c hc)
  have hsplit : s.drop j = nm ++ (s.drop j).drop nm.length := by
    rw [← hnm, drop_takeWhile_length]; exact (List.takeWhile_append_dropWhile).symm
  have he : scanTo s isAlnum j = j + nm.length := by unfold scanTo; rw [hnm]
  have hdrop : s.drop (j + nm.length) = (s.drop j).drop nm.length := by rw [List.drop_drop]
  simp only
  by_cases hemp : nm.isEmpty = true
  · simp only [hemp, ↓reduceIte] at h ⊢
    injection h with h; injection h with h1 h2; subst h1; subst h2
    rfl
  · simp only [hemp, Bool.false_eq_true, ↓reduceIte, he] at h ⊢
    by_cases hlt : j + nm.length < s.length
    · simp only [hlt, ↓reduceIte, charAtL_lt hlt] at h
      have hhead : ((s.drop j).drop nm.length).head? = some s[j + nm.length] := by
        rw [← hdrop]; exact getElem?_head_drop s _ hlt
      rw [hhead]
      by_cases hsemi : (s[j + nm.length] == ';') = true
      · have hsemi' : s[j + nm.length] = ';' := by simpa using hsemi
        simp only [hsemi, ↓reduceIte, hsemi', beq_self_eq_true] at h ⊢
        have hdrop1 : s.drop (j + nm.length + 1) = (s.drop j).drop (nm.length + 1) := by rw [List.drop_drop, Nat.add_assoc]
        cases hl : Verif.Gen.Entities.lookup nm with
        | some cps =>
          simp only [hl] at h ⊢
          injection h with h; injection h with h1 h2; subst h1; subst h2
          rw [unescapeGo_skip _ (nm.length + 1), hdrop1]
        | none =>
          simp only [hl] at h ⊢
          injection h with h; injection h with h1 h2; subst h1; subst h2
          have hsplit2 : s.drop j = (nm ++ [';']) ++ (s.drop j).drop (nm.length + 1) := by
            rw [List.append_assoc, List.singleton_append]
            conv => lhs; rw [hsplit]
            congr 1
            rw [← hdrop, List.drop_eq_getElem_cons hlt, hsemi', hdrop1]
          conv => rhs; rw [hsplit2]
          rw [unescapeGo_plain _ _ (by
            intro c hc
            simp only [List.mem_append, List.mem_singleton] at hc
            rcases hc with hc | hc
            · exact hplain c hc
            · subst hc; decide), hdrop1]
          simp
      · have hsemi2 : (some s[j + nm.length] == some ';') = false := by simpa using hsemi
        simp only [hsemi, Bool.false_eq_true, ↓reduceIte, hsemi2] at h ⊢
        injection h with h; injection h with h1 h2; subst h1; subst h2
        conv => rhs; rw [hsplit]
        rw [unescapeGo_plain _ _ hplain, hdrop]; rfl
    · simp only [hlt, ↓reduceIte] at h
      injection h with h; injection h with h1 h2; subst h1; subst h2
      have hnone : ((s.drop j).drop nm.length).head? = none := by
        rw [← hdrop]; exact head_drop_none s _ hlt
      rw [hnone]
      simp only [show ((none : Option Char) == some ';') = false from rfl, Bool.false_eq_true, ↓reduceIte]
      conv => rhs; rw [hsplit]
      rw [unescapeGo_plain _ _ hplain, hdrop]; rfl

theorem entityAt_sharp_nil : entityAt ['#'] = none := by rfl

theorem entityAt_hex (x : Char) (r2 : Str) (hx : (x == 'x' || x == 'X') = true) :
    entityAt ('#' :: x :: r2) =
      if 1 ≤ (r2.takeWhile isHexDigit).length && (r2.takeWhile isHexDigit).length ≤ 6 &&
          (r2.drop (r2.takeWhile isHexDigit).length).head? == some ';' then
        some ([cpChar ((r2.takeWhile isHexDigit).foldl (fun a c => a * 16 + hexDigitVal c) 0)], (r2.takeWhile isHexDigit).length + 3)
      else none := by
  unfold entityAt
  simp only [hx, ↓reduceIte]

theorem entityAt_dec (x : Char) (r2 : Str) (hx : (x == 'x' || x == 'X') = false) :
    entityAt ('#' :: x :: r2) =
      if 1 ≤ ((x :: r2).takeWhile isDigit).length && ((x :: r2).takeWhile isDigit).length ≤ 7 &&
          ((x :: r2).drop ((x :: r2).takeWhile isDigit).length).head? == some ';' then
        some ([cpChar (((x :: r2).takeWhile isDigit).foldl (fun a c => a * 10 + (c.toNat - 48)) 0)], ((x :: r2).takeWhile isDigit).length + 2)
      else none := by
  unfold entityAt
  simp only [hx, Bool.false_eq_true, ↓reduceIte]

theorem uAmp_fail (rest pre after : Str) (h1 : entityAt rest = none) (h2 : rest = pre ++ after)
    (h3 : ∀ c ∈ pre, special c = false) : ('&' :: pre) ++ unescapeGo after 0 = uAmp rest := by
  unfold uAmp
  rw [h1, h2, unescapeGo_plain _ _ h3]; rfl

theorem uAmp_ok (rest rep : Str) (n : Nat) (h1 : entityAt rest = some (rep, n)) :
    rep ++ unescapeGo (rest.drop n) 0 = uAmp rest := by
  unfold uAmp
  rw [h1]
  simp only
  rw [unescapeGo_skip rest n]

theorem digitVal_eq (c : Char) : digitVal c = hexDigitVal c := by
  unfold digitVal hexDigitVal isDigit
  first | rfl | done

theorem pyInt16_eq (ds : Str) : pyInt 16 ds = ds.foldl (fun a c => a * 16 + hexDigitVal c) 0 := by
  unfold pyInt; congr 1

theorem foldl_congr_mem {α β : Type} (f g : β → α → β) (l : List α) (h : ∀ b, ∀ a ∈ l, f b a = g b a) (b : β) :
    l.foldl f b = l.foldl g b := by
  induction l generalizing b with
  | nil => rfl
  | cons a t ih =>
    rw [List.foldl_cons, List.foldl_cons, h b a (by simp)]
    exact ih (fun b' a' ha' => h b' a' (by simp [ha'])) _

theorem pyInt10_eq (ds : Str) (h : ∀ c ∈ ds, isDigit c = true) :
    pyInt 10 ds = ds.foldl (fun a c => a * 10 + (c.toNat - 48)) 0 := by
  unfold pyInt
  apply foldl_congr_mem
  intro b a ha
  have := h a ha
  unfold digitVal
  unfold isDigit at this
  simp only [this, ↓reduceIte]

theorem pyChr_cpChar (n : Nat) (ch : Char) (h : pyChr n = .ok ch) (hn : n ≠ 0) : cpChar n = ch := by
  unfold pyChr at h
  unfold cpChar
  split at h
  · cases h
  · next h1 =>
    split at h
    · cases h
    · next h2 =>
      injection h with h
      have e0 : (n == 0) = false := by simpa using hn
      have e1 : decide (n > 0x10FFFF) = false := by simpa using h1
      simp only [e0, e1, Bool.or_false, Bool.false_or, h2, Bool.false_eq_true, ↓reduceIte, h]

theorem cpChar_zero : cpChar 0 = REPLACEMENT := by decide

theorem hexMark_not_special (x : Char) (hx : (x == 'x' || x == 'X') = true) : special x = false := by
  simp only [Bool.or_eq_true, beq_iff_eq] at hx
  rcases hx with h | h <;> subst h <;> decide

theorem numericFinish_value (s newString : Str) (e : Nat) (tr : Option Nat) (ns : Str) (ni : Nat) (rest : Str)
    (h : numericFinish s newString e tr = .ok (ns, ni))
    (hok : ∀ n, tr = some n → (s.drop e).head? = some ';' →
      ∃ m, entityAt rest = some ([cpChar n], m) ∧ rest.drop m = s.drop (e + 1))
    (hfail : (tr = none ∨ (s.drop e).head? ≠ some ';') →
      entityAt rest = none ∧ newString ++ unescapeGo (s.drop e) 0 = '&' :: unescapeGo rest 0) :
    ns ++ unescapeGo (s.drop ni) 0 = uAmp rest := by
  unfold numericFinish at h
  have failCase : (tr = none ∨ (s.drop e).head? ≠ some ';') → newString ++ unescapeGo (s.drop e) 0 = uAmp rest := by
    intro hc
    obtain ⟨h1, h2⟩ := hfail hc
    unfold uAmp; rw [h1]; exact h2
  cases tr with
  | none =>
    simp only at h
    injection h with h; injection h with h1 h2; subst h1; subst h2
    exact failCase (Or.inl rfl)
  | some n =>
    simp only at h
    by_cases hlt : e < s.length
    · simp only [hlt, ↓reduceIte, charAtL_lt hlt] at h
      have hhead := getElem?_head_drop s e hlt
      by_cases hsemi : (s[e] == ';') = true
      · have hsemi' : s[e] = ';' := by simpa using hsemi
        obtain ⟨m, hm1, hm2⟩ := hok n rfl (by rw [hhead, hsemi'])
        simp only [hsemi, ↓reduceIte] at h
        have key : ∀ ch, cpChar n = ch → [ch] ++ unescapeGo (s.drop (e + 1)) 0 = uAmp rest := by
          intro ch hch
          rw [← hm2, ← hch]; exact uAmp_ok rest _ m hm1
        by_cases hz : (n == 0) = true
        · simp only [hz, ↓reduceIte] at h
          injection h with h; injection h with h1 h2; subst h1; subst h2
          have : n = 0 := by simpa using hz
          exact key _ (by rw [this, cpChar_zero])
        · simp only [hz, Bool.false_eq_true, ↓reduceIte] at h
          cases hp : pyChr n with
          | error e' => rw [hp] at h; cases h
          | ok ch =>
            rw [hp] at h
            injection h with h; injection h with h1 h2; subst h1; subst h2
            exact key _ (pyChr_cpChar _ _ hp (by simpa using hz))
      · simp only [hsemi, Bool.false_eq_true, ↓reduceIte] at h
        injection h with h; injection h with h1 h2; subst h1; subst h2
        refine failCase (Or.inr ?_)
        rw [hhead]; intro hh; injection hh with hh; rw [hh] at hsemi; exact hsemi rfl
    · simp only [hlt, ↓reduceIte] at h
      injection h with h; injection h with h1 h2; subst h1; subst h2
      refine failCase (Or.inr ?_)
      rw [head_drop_none s e hlt]; intro hh; cases hh

theorem entityAt_dec' (r : Str) (h : ∀ x r2, r = x :: r2 → (x == 'x' || x == 'X') = false) :
    entityAt ('#' :: r) =
      if 1 ≤ (r.takeWhile isDigit).length && (r.takeWhile isDigit).length ≤ 7 &&
          (r.drop (r.takeWhile isDigit).length).head? == some ';' then
        some ([cpChar ((r.takeWhile isDigit).foldl (fun a c => a * 10 + (c.toNat - 48)) 0)], (r.takeWhile isDigit).length + 2)
      else none := by
  cases r with
  | nil => rfl
  | cons x r2 => exact entityAt_dec x r2 (h x r2 rfl)

theorem numericRef_value (s : Str) (j : Nat) (hlt : j < s.length) (hsharp : s[j] = '#')
    (ns : Str) (ni : Nat) (h : numericRef s j = .ok (ns, ni)) :
    ns ++ unescapeGo (s.drop ni) 0 = uAmp (s.drop j) := by
  have hrest : s.drop j = '#' :: s.drop (j + 1) := by rw [List.drop_eq_getElem_cons hlt, hsharp]
  -- the decimal branch, for any text after the `#` that does not start with `x` / `X`
  have dec : (∀ x r2, s.drop (j + 1) = x :: r2 → (x == 'x' || x == 'X') = false) →
      numericRefOf s (numericRefDecimal s (j + 1)) = .ok (ns, ni) →
      ns ++ unescapeGo (s.drop ni) 0 = uAmp (s.drop j) := by
    intro hnh h
    rw [numericRefDecimal_eq s (j + 1) (by omega)] at h
    simp only [numericRefOf, contains_fun _ _ digits_eq, slice_scanTo] at h
    generalize hds : (s.drop (j + 1)).takeWhile isDigit = ds at h
    have he : scanTo s isDigit (j + 1) = j + 1 + ds.length := by unfold scanTo; rw [hds]
    have hdig : ∀ c ∈ ds, isDigit c = true := by intro c hc; rw [← hds] at hc; exact takeWhile_all _ _ c hc
    have hplain : ∀ c ∈ ds, special c = false := fun c hc => digit_not_special c (hdig c hc)
    have hsplit : s.drop (j + 1) = ds ++ (s.drop (j + 1)).drop ds.length := by
      rw [← hds, drop_takeWhile_length]; exact (List.takeWhile_append_dropWhile).symm
    have hdrop : s.drop (j + 1 + ds.length) = (s.drop (j + 1)).drop ds.length := by rw [List.drop_drop]
    have hea := entityAt_dec' (s.drop (j + 1)) hnh
    rw [hds, ← pyInt10_eq ds hdig] at hea
    simp only [he, Nat.add_sub_cancel_left] at h
    rw [hrest]
    apply numericFinish_value s _ _ _ ns ni _ h
    · intro n htr hsemi
      by_cases hcond : (1 ≤ ds.length && ds.length ≤ 7) = true
      · simp only [hcond, ↓reduceIte, Option.some.injEq] at htr
        rw [hea, ← hdrop, hsemi]
        simp only [hcond, Bool.true_and, beq_self_eq_true, ↓reduceIte, htr]
        refine ⟨_, rfl, ?_⟩
        rw [show ds.length + 2 = (ds.length + 1) + 1 by omega, List.drop_succ_cons, List.drop_drop]
        congr 1
      · simp only [hcond, Bool.false_eq_true, ↓reduceIte] at htr; cases htr
    · intro hc
      constructor
      · rw [hea, ← hdrop]
        rcases hc with hc | hc
        · by_cases hcond : (1 ≤ ds.length && ds.length ≤ 7) = true
          · simp only [hcond, ↓reduceIte] at hc; cases hc
          · simp only [hcond, Bool.false_eq_true, ↓reduceIte, Bool.false_and]
        · have : ((s.drop (j + 1 + ds.length)).head? == some ';') = false := by
            cases hh : (s.drop (j + 1 + ds.length)).head? == some ';'
            · rfl
            · rw [beq_iff_eq] at hh; exact absurd hh hc
          simp only [this, Bool.and_false, Bool.false_eq_true, ↓reduceIte]
      · have : '#' :: s.drop (j + 1) = ('#' :: ds) ++ (s.drop (j + 1)).drop ds.length := by
          conv => lhs; rw [hsplit]
          simp
        rw [this, unescapeGo_plain _ _ (by
          intro c hc
          simp only [List.mem_cons] at hc
          rcases hc with hc | hc
          · subst hc; decide
          · exact hplain c hc), hdrop]
        rfl
  unfold numericRef at h
  simp only at h
  by_cases hk : j + 1 < s.length
  · have hr : s.drop (j + 1) = s[j + 1] :: s.drop (j + 1 + 1) := List.drop_eq_getElem_cons hk
    simp only [hk, ↓reduceIte, charAtL_lt hk] at h
    by_cases hhex : ['x', 'X'].contains s[j + 1] = true
    · -- hexadecimal
      have hx2 : (s[j + 1] == 'x' || s[j + 1] == 'X') = true := by simpa [Bool.or_comm] using hhex
      simp only [hhex, ↓reduceIte, numericRefHex_eq s (j + 1) hk, numericRefOf, contains_fun _ _ hexDigits_eq, slice_scanTo] at h
      generalize hx : s[j + 1] = x at h hr hx2
      generalize hds : (s.drop (j + 1 + 1)).takeWhile isHexDigit = ds at h
      have he : scanTo s isHexDigit (j + 1 + 1) = j + 1 + 1 + ds.length := by unfold scanTo; rw [hds]
      have hplain : ∀ c ∈ ds, special c = false := by
        intro c hc; rw [← hds] at hc; exact hex_not_special c (takeWhile_all _ _ c hc)
      have hsplit : s.drop (j + 1 + 1) = ds ++ (s.drop (j + 1 + 1)).drop ds.length := by
        rw [← hds, drop_takeWhile_length]; exact (List.takeWhile_append_dropWhile).symm
      have hdrop : s.drop (j + 1 + 1 + ds.length) = (s.drop (j + 1 + 1)).drop ds.length := by rw [List.drop_drop]
      have hea := entityAt_hex x (s.drop (j + 1 + 1)) hx2
      rw [hds, ← pyInt16_eq] at hea
      simp only [he, Nat.add_sub_cancel_left] at h
      rw [hrest, hr]
      apply numericFinish_value s _ _ _ ns ni _ h
      · intro n htr hsemi
        by_cases hcond : (1 ≤ ds.length && ds.length ≤ 6) = true
        · simp only [hcond, ↓reduceIte, Option.some.injEq] at htr
          rw [hea, ← hdrop, hsemi]
          simp only [hcond, Bool.true_and, beq_self_eq_true, ↓reduceIte, htr]
          refine ⟨_, rfl, ?_⟩
          rw [show ds.length + 3 = (ds.length + 1) + 1 + 1 by omega, List.drop_succ_cons, List.drop_succ_cons, List.drop_drop]
          congr 1
        · simp only [hcond, Bool.false_eq_true, ↓reduceIte] at htr; cases htr
      · intro hc
        constructor
        · rw [hea, ← hdrop]
          rcases hc with hc | hc
          · by_cases hcond : (1 ≤ ds.length && ds.length ≤ 6) = true
            · simp only [hcond, ↓reduceIte] at hc; cases hc
            · simp only [hcond, Bool.false_eq_true, ↓reduceIte, Bool.false_and]
          · have : ((s.drop (j + 1 + 1 + ds.length)).head? == some ';') = false := by
              cases hh : (s.drop (j + 1 + 1 + ds.length)).head? == some ';'
              · rfl
              · rw [beq_iff_eq] at hh; exact absurd hh hc
            simp only [this, Bool.and_false, Bool.false_eq_true, ↓reduceIte]
        · have : '#' :: x :: s.drop (j + 1 + 1) = ('#' :: x :: ds) ++ (s.drop (j + 1 + 1)).drop ds.length := by
            conv => lhs; rw [hsplit]
            simp
          rw [this, unescapeGo_plain _ _ (by
            intro c hc
            simp only [List.mem_cons] at hc
            rcases hc with hc | hc | hc
            · subst hc; decide
            · subst hc; exact hexMark_not_special _ hx2
            · exact hplain c hc), hdrop]
          rfl
    · -- decimal
      simp only [hhex, Bool.false_eq_true, ↓reduceIte] at h
      refine dec ?_ h
      intro x r2 hxr
      rw [hr] at hxr; injection hxr with hx _
      rw [← hx]
      cases hh : (s[j + 1] == 'x' || s[j + 1] == 'X')
      · rfl
      · exfalso; apply hhex; simpa [Bool.or_comm] using hh
  · -- nothing follows the `#`
    simp only [hk, ↓reduceIte, Bool.false_eq_true] at h
    refine dec ?_ h
    intro x r2 hxr
    rw [List.drop_eq_nil_of_le (by omega)] at hxr; cases hxr

/-! ## the two handlers, and the loop -/

theorem charRef_value (s : Str) (i : Nat) (hlt : i < s.length) (hamp : s[i] = '&') (ns : Str) (ni : Nat)
    (h : handleCharacterReference s i = .ok (ns, ni)) :
    ns ++ unescapeGo (s.drop ni) 0 = unescapeGo (s.drop i) 0 := by
  rw [List.drop_eq_getElem_cons hlt, hamp, unescapeGo_amp]
  unfold handleCharacterReference at h
  simp only at h
  by_cases hj : i + 1 < s.length
  · simp only [hj, ↓reduceIte, charAtL_lt hj] at h
    by_cases hs : (s[i + 1] == '#') = true
    · simp only [hs, ↓reduceIte] at h
      exact numericRef_value s (i + 1) hj (by simpa using hs) ns ni h
    · simp only [hs, Bool.false_eq_true, ↓reduceIte] at h
      refine namedRef_value s (i + 1) (by omega) ?_ ns ni h
      rw [getElem?_head_drop s _ hj]
      intro hh; injection hh with hh; rw [hh] at hs; exact hs rfl
  · simp only [hj, ↓reduceIte] at h
    refine namedRef_value s (i + 1) (by omega) ?_ ns ni h
    rw [head_drop_none s _ hj]; intro hh; cases hh

theorem punct_special (d : Char) (h : special d = true) : isAsciiPunct d = true := by
  unfold special at h
  simp only [Bool.or_eq_true, beq_iff_eq] at h
  rcases h with h | h <;> subst h <;> decide

theorem backslash_value (s : Str) (i : Nat) (hlt : i < s.length) (hbs : s[i] = '\\') (ns : Str) (ni : Nat)
    (h : handleInlineBackslash s i false = .ok (ni, ns)) :
    ns ++ unescapeGo (s.drop ni) 0 = unescapeGo (s.drop i) 0 := by
  rw [List.drop_eq_getElem_cons hlt, hbs, unescapeGo_cons]
  simp only [gt_iff_lt, Nat.lt_irrefl, ↓reduceIte, beq_self_eq_true]
  unfold handleInlineBackslash at h
  simp only at h
  by_cases hj : i + 1 ≥ s.length
  · simp only [hj, ↓reduceIte] at h
    injection h with h; injection h with h1 h2; subst h1; subst h2
    rw [List.drop_eq_nil_of_le hj]; rfl
  · have hj' : i + 1 < s.length := by omega
    simp only [hj, ↓reduceIte, charAtL_lt hj'] at h
    rw [List.drop_eq_getElem_cons hj']
    simp only
    by_cases hn : (s[i + 1] == NL) = true
    · simp only [hn, ↓reduceIte] at h
      injection h with h; injection h with h1 h2; subst h1; subst h2
      have : s[i + 1] = '\n' := by simpa [NL] using hn
      rw [this]
      simp only [show isAsciiPunct '\n' = false by decide, Bool.false_eq_true, ↓reduceIte]
      rw [List.drop_eq_getElem_cons hj', this]; rfl
    · simp only [hn, Bool.false_eq_true, ↓reduceIte, bsPunct_eq] at h
      by_cases hp : isAsciiPunct s[i + 1] = true
      · simp only [hp, ↓reduceIte, List.nil_append] at h ⊢
        injection h with h; injection h with h1 h2; subst h1; subst h2
        rw [unescapeGo_skip _ 1]; rfl
      · simp only [hp, Bool.false_eq_true, ↓reduceIte] at h ⊢
        injection h with h; injection h with h1 h2; subst h1; subst h2
        have hns : special s[i + 1] = false := by
          cases hsp : special s[i + 1]
          · rfl
          · exact absurd (punct_special _ hsp) hp
        have := unescapeGo_plain [s[i + 1]] (s.drop (i + 1 + 1)) (by intro c hc; simp at hc; subst hc; exact hns)
        simp only [List.singleton_append] at this
        rw [this]; rfl

theorem special_eq (c : Char) : [BS, '&'].contains c = special c := by
  unfold special; simp only [List.contains_cons, List.contains_nil, Bool.or_false, BS]

/-- **`handle_backslashes` computes the specification's unescaping**, whenever it returns. -/
theorem hbLoop_value (s : Str) : ∀ fuel start acc v, hbLoop s fuel start acc = .ok v →
    v = acc ++ unescapeGo (s.drop start) 0 := by
  intro fuel
  induction fuel with
  | zero => intro start acc v h; cases h
  | succ f ih =>
    intro start acc v h
    rw [hbLoop] at h
    cases hi : indexAnyOf s [BS, '&'] start with
    | none =>
      rw [hi] at h
      simp only at h
      have hplain : ∀ c ∈ s.drop start, special c = false := by
        intro c hc
        rw [← special_eq]
        exact indexAnyOfFrom_none _ _ _ hi c hc
      have hu : unescapeGo (s.drop start) 0 = s.drop start := by
        have := unescapeGo_plain (s.drop start) [] hplain
        simpa [unescapeGo_nil] using this
      rw [hu]
      injection h with h
      by_cases hl : start < s.length
      · simp only [hl, ↓reduceIte] at h; exact h.symm
      · simp only [hl, ↓reduceIte] at h
        rw [List.drop_eq_nil_of_le (by omega), List.append_nil]; exact h.symm
    | some next =>
      rw [hi] at h
      obtain ⟨h1, hlt, hmem⟩ := indexAnyOf_some hi
      simp only [charAtL_lt hlt] at h
      have hpre : ∀ c ∈ slice s start next, special c = false := by
        intro c hc
        rw [← special_eq]
        obtain ⟨k, rfl⟩ := Nat.exists_eq_add_of_le h1
        rw [slice_drop_take] at hc
        have := indexAnyOfFrom_before _ _ _ _ hi c (by rwa [Nat.add_sub_cancel_left])
        exact this
      have hsplit : s.drop start = slice s start next ++ s.drop next := by
        obtain ⟨k, rfl⟩ := Nat.exists_eq_add_of_le h1
        rw [slice_drop_take, ← List.drop_drop, List.take_append_drop]
      rw [hsplit, unescapeGo_plain _ _ hpre]
      by_cases hb : (s[next] == BS) = true
      · simp only [hb, ↓reduceIte] at h
        cases hh : handleInlineBackslash s next false with
        | error e => rw [hh] at h; cases h
        | ok r =>
          obtain ⟨ni, ns⟩ := r
          rw [hh] at h
          simp only at h
          rw [ih _ _ _ h, ← backslash_value s next hlt (by simpa [BS] using hb) ns ni hh]
          simp
      · simp only [hb, Bool.false_eq_true, ↓reduceIte] at h
        have ha : (s[next] == '&') = true := by
          simp only [List.contains_cons, List.contains_nil, Bool.or_false, Bool.or_eq_true] at hmem
          rcases hmem with hm | hm
          · exact absurd hm hb
          · exact hm
        simp only [ha, ↓reduceIte] at h
        cases hh : handleCharacterReference s next with
        | error e => rw [hh] at h; cases h
        | ok r =>
          obtain ⟨ns, ni⟩ := r
          rw [hh] at h
          simp only at h
          rw [ih _ _ _ h, ← charRef_value s next hlt (by simpa using ha) ns ni hh]
          simp

theorem handleBackslashes_value (s v : Str) (h : handleBackslashes s = .ok v) : v = unescape s := by
  have := hbLoop_value s _ 0 [] v h
  simpa [unescape] using this

/-! ## the processed destination and title -/

theorem appendTextNoSig_eq_escHtml (s : Str) : appendTextNoSig s = Verif.Model.LeanMark.escHtml s := by
  unfold appendTextNoSig Verif.Model.LeanMark.escHtml
  congr 1; funext c
  unfold htmlEscapeChar
  by_cases h1 : c = '<'
  · subst h1; rfl
  by_cases h2 : c = '>'
  · subst h2; rfl
  by_cases h3 : c = '&'
  · subst h3; rfl
  by_cases h4 : c = '"'
  · subst h4; rfl
  have e1 : (c == '<') = false := by simpa using h1
  have e2 : (c == '>') = false := by simpa using h2
  have e3 : (c == '&') = false := by simpa using h3
  have e4 : (c == '"') = false := by simpa using h4
  simp only [e1, e2, e3, e4, Bool.false_eq_true, ↓reduceIte]
  first
  | done
  | (split <;> first | rfl | contradiction)

/-- the processed destination is the URL-encoding of the specification's unescaped text -/
theorem destFinish_value (s : Str) (i ni : Nat) (ex : Str) (a : Bool) (enc : Str) (nidx : Int) (raw : Option Str)
    (ang : Option Bool) (h : destFinish s i ni ex a = .ok ⟨some enc, some ex, nidx, raw, ang⟩) :
    encodeLinkDestination (unescape ex) = .ok enc := by
  unfold destFinish at h
  have hne : ((ni : Int) != -1) = true := by simp only [bne_iff_ne, ne_eq]; omega
  simp only [hne, Bool.true_and] at h
  by_cases hnl : ex.contains NL = true
  · simp only [hnl, ↓reduceIte] at h
    injection h with h; injection h with h1; cases h1
  · simp only [hnl, Bool.false_eq_true, ↓reduceIte] at h
    have hval : ∀ ex2, (if (!ex.isEmpty) = true then handleBackslashes ex else .ok ex) = .ok ex2 → ex2 = unescape ex := by
      intro ex2 h2
      by_cases he : (!ex.isEmpty) = true
      · simp only [he, ↓reduceIte] at h2; exact handleBackslashes_value ex ex2 h2
      · simp only [he, Bool.false_eq_true, ↓reduceIte] at h2
        injection h2 with h2
        have : ex = [] := by cases ex <;> simp_all
        subst this; subst h2; rfl
    cases hb : (if (!ex.isEmpty) = true then handleBackslashes ex else .ok ex) with
    | error e => rw [hb] at h; cases h
    | ok ex2 =>
      rw [hb] at h
      simp only at h
      rw [← hval ex2 hb]
      cases henc : encodeLinkDestination ex2 with
      | error e => rw [henc] at h; cases h
      | ok enc' =>
        rw [henc] at h
        injection h with h; injection h with h1; injection h1 with h1; rw [h1]

/-- the processed title is the HTML-escaping of the specification's unescaped text -/
theorem parseLinkTitle_value (s : Str) (i : Nat) (t pt : Str) (n : Int) (b : Str)
    (h : parseLinkTitle s i = .ok (some t, some pt, n, b)) : t = Verif.Model.LeanMark.escHtml (unescape pt) := by
  unfold parseLinkTitle at h
  generalize (if isCharAt s i '\'' then titleBranch ['\''] (extractBoundedString s (i + 1) '\'' none)
     else if isCharAt s i '"' then titleBranch ['"'] (extractBoundedString s (i + 1) '"' none)
     else if isCharAt s i '(' then titleBranch ['('] (extractBoundedString s (i + 1) ')' (some '('))
     else .ok (-1, some [], [])) = br at h
  unfold titleFinish at h
  split at h
  · cases h
  · injection h with h; injection h with h1; cases h1
  · next ni raw bb =>
    cases hb : handleBackslashes raw with
    | error e => rw [hb] at h; cases h
    | ok t2 =>
      rw [hb] at h
      injection h with h; injection h with h1 h2; injection h2 with h2 h3
      injection h1 with h1; injection h2 with h2
      subst h2
      rw [← h1, appendTextNoSig_eq_escHtml, handleBackslashes_value raw t2 hb]

end Verif.Model.LinkRecog
