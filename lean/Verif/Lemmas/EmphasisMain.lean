/-
  Resolve-level statements for an arbitrary policy: well-nestedness, conservation, preservation of the non-special
  tokens, totality and fuel sufficiency.  Core Lean only.
-/
import Verif.Lemmas.EmphasisTotal
namespace Verif.Model.Emphasis

theorem createStack_snd (items : List Item) : (createStack items).2 = specials items := createFrom_snd 0 0 items

/-! ## well-nestedness -/
theorem resolveWithFuel_wellNested {pol : Policy} (hp : PolicyOK pol) {fuel : Nat} {wall : Option Nat}
    {items : List Item} {out : Result} (h : resolveWithFuel pol fuel wall items = .ok out) : WellNested out.blocks := by
  obtain ⟨cur0, σ, hinv, _, ho⟩ := resolve_reaches hp (fun _ _ => True) trivial (fun _ _ _ _ _ _ _ _ _ _ => trivial) h
  subst ho
  exact nestRun_weaken _ _ _ _ hinv.nest

/-- the special tokens left in the output are in their original order, without duplicates -/
theorem resolveWithFuel_sorted {pol : Policy} (hp : PolicyOK pol) {fuel : Nat} {wall : Option Nat}
    {items : List Item} {out : Result} (h : resolveWithFuel pol fuel wall items = .ok out) :
    (spIds out.blocks).Pairwise (· < ·) := by
  obtain ⟨cur0, σ, hinv, _, ho⟩ := resolve_reaches hp (fun _ _ => True) trivial (fun _ _ _ _ _ _ _ _ _ _ => trivial) h
  subst ho
  exact hinv.sorted

/-! ## conservation -/
theorem repOf_finish (cur0 : Nat) (σ : St) (j : Nat) : repOf (finish cur0 σ).stk j = repOf σ.stk j := by
  simp only [finish, repOf_clearFrom, repOf_resetText]

theorem length_finish (cur0 : Nat) (σ : St) : (finish cur0 σ).stk.length = σ.stk.length := by
  simp only [finish, length_clearFrom, length_resetText]

theorem resolveWithFuel_weight {pol : Policy} (hp : PolicyOK pol) {fuel : Nat} {wall : Option Nat}
    {items : List Item} {out : Result} (h : resolveWithFuel pol fuel wall items = .ok out) (ch : Char) :
    weight (charOf (specials items)) out.stk ch out.blocks = inputCount ch items := by
  have hinit : weight (charOf (specials items)) (createStack items).2 ch (createStack items).1 = inputCount ch items := by
    have := createFrom_weight [] 0 items ch
    simpa [createStack, createFrom_snd] using this
  obtain ⟨cur0, σ, _, hg, ho⟩ := resolve_reaches hp
    (fun b s => weight (charOf (specials items)) s ch b = inputCount ch items ∧ ∀ j, charOf s j = charOf (specials items) j)
    ⟨hinit, fun j => by rw [createStack_snd]⟩
    (fun _ _ _ _ _ _ _ hgood _ hps => by
      obtain ⟨h1, h2⟩ := weight_step (charOf (specials items)) hgood.2 hps ch
      exact ⟨by rw [h1]; exact hgood.1, h2⟩) h
  subst ho
  rw [← hg.1]
  exact weight_congr _ _ _ _ _ (fun i _ => repOf_finish cur0 σ i)

theorem resolveWithFuel_plains {pol : Policy} (hp : PolicyOK pol) {fuel : Nat} {wall : Option Nat}
    {items : List Item} {out : Result} (h : resolveWithFuel pol fuel wall items = .ok out) :
    plains out.blocks = plains (createStack items).1 := by
  obtain ⟨cur0, σ, _, hg, ho⟩ := resolve_reaches hp (fun b _ => plains b = plains (createStack items).1) rfl
    (fun _ _ _ _ _ _ _ hgood _ hps => by rw [plains_step hps]; exact hgood) h
  subst ho; exact hg

/-- positions (in the input list) of the non-special tokens -/
def plainIdx : Nat → List Item → List Nat
  | _, [] => []
  | k, .plain :: r => k :: plainIdx (k + 1) r
  | k, .special _ :: r => plainIdx (k + 1) r

theorem plains_createFrom (tag id : Nat) (items : List Item) : plains (createFrom tag id items).1 = plainIdx tag items := by
  induction items generalizing tag id with
  | nil => rfl
  | cons x r ih => cases x <;> simp [createFrom, plains, plainIdx] <;> exact ih _ _

theorem resolveWithFuel_gone {pol : Policy} (hp : PolicyOK pol) {fuel : Nat} {wall : Option Nat}
    {items : List Item} {out : Result} (h : resolveWithFuel pol fuel wall items = .ok out) :
    out.stk.length = (specials items).length ∧
      ∀ i, i < (specials items).length → Block.sp i ∉ out.blocks → repOf out.stk i = 0 := by
  have hinit : Gone (createStack items).1 (createStack items).2 ∧ (createStack items).2.length = (specials items).length := by
    refine ⟨?_, by rw [createStack_snd]⟩
    intro i hi hni
    rw [createStack, createFrom_spIds, createFrom_snd] at *
    exact absurd (by simp [List.mem_range', hi]) hni
  obtain ⟨cur0, σ, _, hg, ho⟩ := resolve_reaches hp (fun b s => Gone b s ∧ s.length = (specials items).length) hinit
    (fun _ _ _ _ _ _ _ hgood _ hps => ⟨gone_step hgood.1 hps, by rw [length_step hps]; exact hgood.2⟩) h
  subst ho
  refine ⟨by rw [length_finish]; exact hg.2, fun i hi hni => ?_⟩
  rw [repOf_finish]
  exact hg.1 i (by rw [hg.2]; exact hi) (fun hm => hni (mem_spIds.mp hm))

/-- text / neighbours of every entry are those of the input until the closing passes -/
theorem resolveWithFuel_statics {pol : Policy} (hp : PolicyOK pol) {fuel : Nat} {wall : Option Nat}
    {items : List Item} {out : Result} (h : resolveWithFuel pol fuel wall items = .ok out) :
    ∃ (cur0 : Nat) (σ : St), out = finish cur0 σ ∧ statics σ.stk = statics (specials items) := by
  obtain ⟨cur0, σ, _, hg, ho⟩ := resolve_reaches hp (fun _ s => statics s = statics (specials items))
    (by rw [createStack_snd])
    (fun _ _ _ _ _ _ _ hgood _ hps => by rw [statics_step hps]; exact hgood) h
  exact ⟨cur0, σ, ho, hg⟩

/-! ## totality and fuel -/
/-- what the parser guarantees about the special tokens it hands over -/
def WFInput (OK : Special → Prop) (items : List Item) : Prop := WF OK (specials items)

theorem findWall_ok (blocks : List Block) (wall : Option Nat) (hw : ∀ w, wall = some w → w < blocks.length) :
    ∃ b, findWall blocks wall = .ok b := by
  cases wall with
  | none => exact ⟨-1, rfl⟩
  | some w => exact ⟨_, by simp [findWall, hw w rfl]; rfl⟩

theorem walkBack_ge (blocks : List Block) (n : Nat) : -1 ≤ walkBack blocks n := by
  induction n with
  | zero => simp [walkBack]
  | succ n ih =>
    simp only [walkBack]
    split
    · omega
    · exact ih

theorem findWall_ge {blocks : List Block} {wall : Option Nat} {b : Int} (h : findWall blocks wall = .ok b) : -1 ≤ b := by
  cases wall with
  | none => simp [findWall, pure, Except.pure] at h; omega
  | some w =>
    simp only [findWall] at h
    split at h
    · simp only [pure, Except.pure, Except.ok.injEq] at h; rw [← h]; exact walkBack_ge _ _
    · cases h

theorem length_createFrom (tag id : Nat) (items : List Item) : (createFrom tag id items).1.length = items.length := by
  induction items generalizing tag id with
  | nil => rfl
  | cons x r ih => cases x <;> simp [createFrom, ih]

theorem length_createStack (items : List Item) : (createStack items).1.length = items.length :=
  length_createFrom 0 0 items

theorem resolveWithFuel_total {pol : Policy} (hp : PolicyOK pol) (OK : Special → Prop) (ht : PolicyTotal pol OK)
    (wall : Option Nat) (items : List Item) (hwf : WFInput OK items) (hw : ∀ w, wall = some w → w < items.length)
    (fuel : Nat) (hf : fuelOf (specials items) ≤ fuel) : ∃ out, resolveWithFuel pol fuel wall items = .ok out := by
  obtain ⟨b, hb⟩ := findWall_ok (createStack items).1 wall (by rw [length_createStack]; exact hw)
  unfold resolveWithFuel
  simp only [hb, bind, Except.bind]
  split
  · rename_i e he
    split at he
    · have hinv := inv_init items
      have hwf' : WF OK (createStack items).2 := by rw [createStack_snd]; exact hwf
      obtain ⟨σ', hσ'⟩ := loop_total pol hp OK ht b fuel ⟨(createStack items).1, (createStack items).2, (b + 1).toNat⟩
        hwf' hinv (by
          simp only [need, createStack_snd]
          simp only [fuelOf] at hf
          omega)
      rw [hσ'] at he; cases he
    · cases he
  · exact ⟨_, rfl⟩

theorem resolveWithFuel_mono (pol : Policy) (fuel k : Nat) (wall : Option Nat) (items : List Item)
    (r : Except Err Result) (h : resolveWithFuel pol fuel wall items = r) (hr : r ≠ .error .fuel) :
    resolveWithFuel pol (fuel + k) wall items = r := by
  unfold resolveWithFuel at h ⊢
  cases hw : findWall (createStack items).1 wall with
  | error e => simpa [hw, bind, Except.bind] using h
  | ok b =>
    simp only [hw, bind, Except.bind] at h ⊢
    by_cases hlt : (b + 1).toNat < (createStack items).2.length
    · simp only [hlt, if_true] at h ⊢
      cases hl : loop pol b fuel ⟨(createStack items).1, (createStack items).2, (b + 1).toNat⟩ with
      | error e =>
        simp only [hl] at h
        have hne : (Except.error e : Except Err St) ≠ .error .fuel := by
          intro he; cases he; exact hr h.symm
        rw [loop_fuel_add pol b fuel k _ _ hl hne]; exact h
      | ok σ =>
        simp only [hl] at h
        rw [loop_fuel_add pol b fuel k _ _ hl (by intro he; cases he)]; exact h
    · simpa [hlt] using h

end Verif.Model.Emphasis

namespace Verif.Model.Emphasis

/-! ## repeat counts never go negative on well-formed input -/
def NonNeg (stk : List Special) : Prop := ∀ (i : Nat) (t : Special), stk[i]? = some t → 0 ≤ t.rep

theorem nonneg_step {OK : Special → Prop} {stk : List Special} {o c : Nat} {blocks blocks' : List Block}
    {stk' : List Special} (hwf : WF OK stk) (hn : NonNeg stk) (h : PairStep stk o c blocks blocks' stk') :
    NonNeg stk' := by
  cases h with
  | mk P M R ot ct ch tl tl' ho hc hch hcc hoa hca hP hM hR hoc =>
  have hne : o ≠ c := by omega
  have hL := emphLen_cases ot ct
  generalize emphLen ot ct = L at *
  have hro := (hwf o ot ho).2 hoa
  have hrc := (hwf c ct hc).2 hca
  intro i t' hget
  rw [getElem?_step _ _ _ _ _ _ _ hne] at hget
  cases hs : stk[i]? with
  | none => simp [hs] at hget
  | some t =>
    simp only [hs, Option.map_some, Option.some.injEq] at hget
    subst hget
    have hp := hn i t hs
    by_cases hjc : i = c
    · subst hjc
      have : t = ct := by rw [hs] at hc; exact Option.some.inj hc
      subst this
      simp only [true_or, if_true]; omega
    · by_cases hjo : i = o
      · subst hjo
        have : t = ot := by rw [hs] at ho; exact Option.some.inj ho
        subst this
        simp only [or_true, if_true]; omega
      · simp only [hjc, hjo, or_self, if_false]; exact hp

theorem resolveWithFuel_nonneg {pol : Policy} (hp : PolicyOK pol) (OK : Special → Prop)
    (hframe : ∀ t r a, OK t → OK { t with rep := r, active := a })
    {fuel : Nat} {wall : Option Nat} {items : List Item} {out : Result}
    (hwf : WFInput OK items) (hn : NonNeg (specials items)) (h : resolveWithFuel pol fuel wall items = .ok out) :
    ∀ i, 0 ≤ repOf out.stk i := by
  obtain ⟨cur0, σ, _, hg, ho⟩ := resolve_reaches hp (fun _ s => WF OK s ∧ NonNeg s)
    ⟨by rw [createStack_snd]; exact hwf, by rw [createStack_snd]; exact hn⟩
    (fun _ _ _ _ _ _ _ hgood _ hps => ⟨wf_step hframe hgood.1 hps, nonneg_step hgood.1 hgood.2 hps⟩) h
  subst ho
  intro i
  rw [repOf_finish]
  unfold repOf
  cases hs : σ.stk[i]? with
  | none => simp
  | some t => exact hg.2 i t hs

end Verif.Model.Emphasis
