/-
  Python indexing and the backward `while` scans of the looseness calculation, as facts about the stream.
-/
import Verif.Lemmas.GfmBasic
namespace Verif.Lemmas.GfmScan
open Verif.Model.GfmRender Verif.Lemmas.GfmBasic

/-! ### `pyGet` -/

theorem pyGet_nat {α : Type} (l : List α) (k : Nat) (a : α) (h : l[k]? = some a) : pyGet l (k : Int) = .ok a := by
  unfold pyGet
  simp only [Int.natCast_nonneg, if_true, Int.toNat_natCast, h]

theorem pyGet_sub {α : Type} (l : List α) (k d : Nat) (hd : d ≤ k) (a : α) (h : l[k - d]? = some a) :
    pyGet l ((k : Int) - (d : Int)) = .ok a := by
  have : (k : Int) - (d : Int) = ((k - d : Nat) : Int) := by omega
  rw [this]; exact pyGet_nat l _ a h

/-- `lst[k - 1]` never raises on a non-empty list when `k ≤ len` (for `k = 0` it is the last element) -/
theorem pyGet_pred_ok {α : Type} (l : List α) (k : Nat) (hne : l ≠ []) (hk : k ≤ l.length) :
    ∃ a, pyGet l ((k : Int) - 1) = .ok a := by
  cases k with
  | zero =>
    have hl : 0 < l.length := List.length_pos_iff.mpr hne
    have hlast : ∃ a, l[l.length - 1]? = some a := ⟨l[l.length - 1], by simp⟩
    obtain ⟨a, ha⟩ := hlast
    refine ⟨a, ?_⟩
    unfold pyGet
    have h1 : ¬ (0 : Int) ≤ ((0 : Nat) : Int) - 1 := by omega
    have h2 : (0 : Int) ≤ (l.length : Int) + (((0 : Nat) : Int) - 1) := by omega
    have h3 : ((l.length : Int) + (((0 : Nat) : Int) - 1)).toNat = l.length - 1 := by omega
    simp only [h1, if_false, h2, if_true, h3, ha]
  | succ n =>
    have hn : n < l.length := by omega
    refine ⟨l[n], ?_⟩
    have : ((n + 1 : Nat) : Int) - 1 = (n : Int) := by omega
    rw [this]
    exact pyGet_nat l n _ (by simp [hn])

/-! ### `scanDown` -/

theorem scanDownF_stop {α : Type} (l : List α) (p : α → Bool) (j : Nat) (a : α) (hj : l[j]? = some a) (hp : p a = true) :
    ∀ (d fuel : Nat) (k : Nat), k = j + d → k < l.length → d < fuel →
      ∃ r : Nat, scanDownF l p fuel (k : Int) = .ok (r : Int) ∧ j ≤ r ∧ r ≤ k ∧
        (∃ b, l[r]? = some b ∧ p b = true) ∧ ∀ m, r < m → m ≤ k → ∃ b, l[m]? = some b ∧ p b = false := by
  intro d
  induction d with
  | zero =>
    intro fuel k hk hlen hf
    cases fuel with
    | zero => omega
    | succ f =>
      simp only [Nat.add_zero] at hk; subst hk
      refine ⟨k, ?_, Nat.le_refl _, Nat.le_refl _, ⟨a, hj, hp⟩, fun m h1 h2 => by omega⟩
      simp only [scanDownF, pyGet_nat l k a hj, hp, if_true]
  | succ d ih =>
    intro fuel k hk hlen hf
    cases fuel with
    | zero => omega
    | succ f =>
      have hb : ∃ b, l[k]? = some b := ⟨l[k], by simp [hlen]⟩
      obtain ⟨b, hb⟩ := hb
      simp only [scanDownF, pyGet_nat l k b hb]
      by_cases hpb : p b = true
      · refine ⟨k, by simp [hpb], by omega, Nat.le_refl _, ⟨b, hb, hpb⟩, fun m h1 h2 => by omega⟩
      · have hk1 : (k : Int) - 1 = ((k - 1 : Nat) : Int) := by omega
        simp only [hpb, Bool.false_eq_true, if_false, hk1]
        obtain ⟨r, h1, h2, h3, h4, h5⟩ := ih f (k - 1) (by omega) (by omega) (by omega)
        refine ⟨r, h1, h2, by omega, h4, ?_⟩
        intro m hm1 hm2
        by_cases hmk : m = k
        · subst hmk; exact ⟨b, hb, by simpa using hpb⟩
        · exact h5 m hm1 (by omega)

/-- `while not p(lst[i]): i -= 1` started at `k` stops at the nearest index `r ≤ k` with `p`, without wrap-around,
as soon as some index `j ≤ k` satisfies `p`. -/
theorem scanDown_stop {α : Type} (l : List α) (p : α → Bool) (j k : Nat) (a : α) (hj : l[j]? = some a) (hp : p a = true)
    (hjk : j ≤ k) (hk : k < l.length) :
    ∃ r : Nat, scanDown l p (k : Int) = .ok (r : Int) ∧ j ≤ r ∧ r ≤ k ∧
      (∃ b, l[r]? = some b ∧ p b = true) ∧ ∀ m, r < m → m ≤ k → ∃ b, l[m]? = some b ∧ p b = false := by
  unfold scanDown
  have : ((k : Int) + (l.length : Int) + 2).toNat + 1 = k + l.length + 3 := by omega
  rw [this]
  exact scanDownF_stop l p j a hj hp (k - j) _ k (by omega) hk (by omega)

/-- the same for a start index given as `k - d` -/
theorem scanDown_stop_sub {α : Type} (l : List α) (p : α → Bool) (j k d : Nat) (a : α) (hj : l[j]? = some a)
    (hp : p a = true) (hjk : j + d ≤ k) (hk : k - d < l.length) :
    ∃ r : Nat, scanDown l p ((k : Int) - (d : Int)) = .ok (r : Int) ∧ j ≤ r ∧ r ≤ k - d ∧
      (∃ b, l[r]? = some b ∧ p b = true) ∧ ∀ m, r < m → m ≤ k - d → ∃ b, l[m]? = some b ∧ p b = false := by
  have : (k : Int) - (d : Int) = ((k - d : Nat) : Int) := by omega
  rw [this]
  exact scanDown_stop l p j (k - d) a hj hp (by omega) hk

/-! ### container depth -/

/-- +1 for a list / block-quote start, −1 for a list / block-quote end -/
def cstep (t : Tok) : Int :=
  if t.isListStart || t.isBqStart then 1 else if t.isListEnd || t.isBqEnd then -1 else 0

def cdepth : List Tok → Int
  | [] => 0
  | t :: ts => cstep t + cdepth ts

theorem cdepth_append (a b : List Tok) : cdepth (a ++ b) = cdepth a + cdepth b := by
  induction a with
  | nil => simp [cdepth]
  | cons t a ih => simp only [List.cons_append, cdepth, ih]; omega

theorem cstep_start_end {s e : Tok} {k : Kind} {p : Nat} {f : Bool} (hs : s.kind? = some k) (he : e.body = .end_ k p f) :
    cstep s + cstep e = 0 := by
  obtain ⟨ls, bs⟩ := s
  obtain ⟨le, be⟩ := e
  simp only at he; subst he
  cases bs <;> simp [Tok.kind?, Body.kind?] at hs <;> subst hs <;>
    simp [cstep, Tok.isListStart, Tok.isBqStart, Tok.isListEnd, Tok.isBqEnd, Tok.isKind, Tok.isEndOf, Tok.kind?, Body.kind?]

theorem cstep_notEnd_nonneg {s : Tok} {k : Kind} (hs : s.kind? = some k) : 0 ≤ cstep s := by
  obtain ⟨ls, bs⟩ := s
  cases bs <;> simp [Tok.kind?, Body.kind?] at hs <;>
    simp [cstep, Tok.isListStart, Tok.isBqStart, Tok.isListEnd, Tok.isBqEnd, Tok.isKind, Tok.isEndOf, Tok.kind?, Body.kind?]

theorem cstep_atom {t : Tok} {k : Kind} (hk : t.kind? = some k) (hs : Kind.isStart k = false) : cstep t = 0 := by
  obtain ⟨l, b⟩ := t
  cases b <;> simp [Tok.kind?, Body.kind?] at hk <;> subst hk <;>
    first
    | (simp [cstep, Tok.isListStart, Tok.isBqStart, Tok.isListEnd, Tok.isBqEnd, Tok.isKind, Tok.isEndOf, Tok.kind?, Body.kind?]; done)
    | (simp [Kind.isStart, Kind.requiresEnd] at hs; done)

theorem cdepth_forest {par : Option Kind} {i : Nat} {F : List Tok} (h : GForest par i F) : cdepth F = 0 := by
  induction h with
  | nil => rfl
  | atom hk hs _ _ ih => simp only [cdepth, cstep_atom hk hs, ih]; omega
  | node hk _ _ _ he _ ihb ihr =>
    simp only [cdepth, cdepth_append, ihb, ihr]
    have := cstep_start_end hk he
    omega

/-- every prefix of a well-formed forest has at least as many container starts as container ends -/
theorem cdepth_prefix {par : Option Kind} {i : Nat} {F : List Tok} (h : GForest par i F) :
    ∀ A B, F = A ++ B → 0 ≤ cdepth A := by
  induction h with
  | nil =>
    intro A B hAB
    have : A = [] := by cases A <;> simp_all
    subst this; simp [cdepth]
  | @atom par i t k rest hk hs _ _ ih =>
    intro A B hAB
    cases A with
    | nil => simp [cdepth]
    | cons a A' =>
      simp only [List.cons_append, List.cons.injEq] at hAB
      obtain ⟨rfl, hr⟩ := hAB
      have := ih A' B hr
      simp only [cdepth, cstep_atom hk hs]; omega
  | @node par i s k body e f rest hk _ _ hb he _ ihb ihr =>
    intro A B hAB
    cases A with
    | nil => simp [cdepth]
    | cons a A' =>
      simp only [List.cons_append, List.cons.injEq] at hAB
      obtain ⟨rfl, hr⟩ := hAB
      have hs0 := cstep_notEnd_nonneg hk
      rcases List.append_eq_append_iff.mp hr with ⟨C, hA', hrest⟩ | ⟨C, hbody, _⟩
      · -- A' = body ++ C, e :: rest = C ++ B
        cases C with
        | nil =>
          simp only [List.append_nil] at hA'
          subst hA'
          have := cdepth_forest hb
          simp only [cdepth]; omega
        | cons c C' =>
          simp only [List.cons_append, List.cons.injEq] at hrest
          obtain ⟨rfl, hrest⟩ := hrest
          subst hA'
          have h1 := cdepth_forest hb
          have h2 := ihr C' B hrest
          have h3 := cstep_start_end hk he
          simp only [cdepth, cdepth_append]; omega
      · -- A' is a prefix of body
        have := ihb A' C hbody
        simp only [cdepth]; omega

/-! ### `__is_really_loose` as a function of the reversed prefix -/

/-- the loop of `__is_really_loose` reading the tokens before `check_index` from right to left -/
def rlList : List Tok → Nat → R Bool
  | [], _ => .error .assertion
  | rt :: r, inner =>
    if rt.isBqEnd || rt.isListEnd then rlList r (inner + 1)
    else if rt.isListStart then (if inner != 0 then rlList r (inner - 1) else .ok true)
    else if rt.isBqStart then (if inner != 0 then rlList r (inner - 1) else .ok false)
    else rlList r inner

theorem reallyLooseLoop_eq (ts : List Tok) : ∀ (k inner : Nat), k ≤ ts.length →
    reallyLooseLoop ts k inner = rlList (ts.take k).reverse inner := by
  intro k
  induction k with
  | zero => intro inner _; simp [reallyLooseLoop, rlList]
  | succ s ih =>
    intro inner hk
    have hs : s < ts.length := by omega
    have hget : ts[s]? = some ts[s] := by simp [hs]
    have htake : (ts.take (s + 1)).reverse = ts[s] :: (ts.take s).reverse := by
      rw [List.take_add_one, hget]; simp
    rw [htake]
    simp only [reallyLooseLoop, hget, rlList]
    rw [ih (inner + 1) (by omega), ih (inner - 1) (by omega), ih inner (by omega)]

/-- reading a segment in which container starts are not outnumbered by container ends, and then a list start,
the loop finds its answer (no `assert` failure) -/
theorem rlList_total (s : Tok) (hs : s.isListStart = true) (rest : List Tok) :
    ∀ (r : List Tok) (inner : Nat), (inner : Int) - cdepth r.reverse ≤ 0 → ∃ b, rlList (r ++ s :: rest) inner = .ok b := by
  intro r
  induction r with
  | nil =>
    intro inner h
    simp only [List.reverse_nil, cdepth] at h
    have : inner = 0 := by omega
    subst this
    have hne : (s.isBqEnd || s.isListEnd) = false := by
      obtain ⟨l, b⟩ := s
      cases b <;> simp_all [Tok.isListStart, Tok.isBqEnd, Tok.isListEnd, Tok.isKind, Tok.isEndOf, Tok.kind?, Body.kind?]
    exact ⟨true, by simp [rlList, hne, hs]⟩
  | cons t r ih =>
    intro inner h
    simp only [List.reverse_cons, cdepth_append, cdepth] at h
    simp only [List.cons_append, rlList]
    by_cases h1 : (t.isBqEnd || t.isListEnd) = true
    · simp only [h1, if_true]
      apply ih
      have hne : (t.isListStart || t.isBqStart) = false := by
        obtain ⟨l, b⟩ := t
        cases b <;> simp_all [Tok.isListStart, Tok.isBqStart, Tok.isBqEnd, Tok.isListEnd, Tok.isKind, Tok.isEndOf, Tok.kind?, Body.kind?]
      have h1' : (t.isListEnd || t.isBqEnd) = true := by rw [Bool.or_comm]; exact h1
      simp only [cstep, hne, h1', Bool.false_eq_true, if_false, if_true] at h
      omega
    · simp only [h1, Bool.false_eq_true, if_false]
      have h1' : (t.isListEnd || t.isBqEnd) = false := by rw [Bool.or_comm]; simpa using h1
      by_cases h2 : t.isListStart = true
      · simp only [h2, if_true]
        by_cases h3 : inner = 0
        · subst h3; exact ⟨true, by simp⟩
        · have : (inner != 0) = true := by simpa using h3
          simp only [this, if_true]
          apply ih
          simp only [cstep, h2, Bool.true_or, if_true] at h
          omega
      · simp only [h2, Bool.false_eq_true, if_false]
        by_cases h4 : t.isBqStart = true
        · simp only [h4, if_true]
          by_cases h3 : inner = 0
          · subst h3; exact ⟨false, by simp⟩
          · have : (inner != 0) = true := by simpa using h3
            simp only [this, if_true]
            apply ih
            simp only [cstep, h4, Bool.or_true, if_true] at h
            omega
        · simp only [h4, Bool.false_eq_true, if_false]
          apply ih
          have h2' : t.isListStart = false := by simpa using h2
          have h4' : t.isBqStart = false := by simpa using h4
          simp only [cstep, h2', h4', h1', Bool.or_self, Bool.false_eq_true, if_false] at h
          omega

end Verif.Lemmas.GfmScan
