/-
  From closed blocks to whole documents: `transform` on a stream that is a closed block ending in a newline;
  sentinels; the leaf blocks of `RegenLeafSpec.Leaf`.
-/
import Verif.Lemmas.RegenLeafBlocks
import Verif.Lemmas.RegenLeafFence
import Verif.Lemmas.RegenLeafSetext
namespace Verif.Lemmas.RegenLeaf
open Verif.Model Verif.Model.RegenLeaf Verif.Model.RegenLeafSpec
open Verif.Model.Codec (Str plain SENT_START SENT_END SENT_BLAH stripSentinels removeChar)
open Verif.Model.Lines (splitOn joinOn splitNL joinNL NL)
open Verif.Lemmas.Lines

/-! ## sentinels -/

def isSentinel (c : Char) : Bool := c == SENT_START || c == SENT_END || c == SENT_BLAH

/-- no character of the string is one of the three `ParserLogger` sentinels -/
def sentFree (s : Str) : Bool := s.all (fun c => !isSentinel c)

theorem stripSentinels_append (a b : Str) : stripSentinels (a ++ b) = stripSentinels a ++ stripSentinels b := by
  simp [stripSentinels, removeChar, List.filter_append]

theorem stripSentinels_sentFree (s : Str) (h : sentFree s = true) : stripSentinels s = s := by
  unfold stripSentinels removeChar
  simp only [List.filter_filter]
  apply List.filter_eq_self.mpr
  intro c hc
  have := List.all_eq_true.mp h c hc
  simp only [isSentinel, Bool.not_eq_true', Bool.or_eq_false_iff, beq_eq_false_iff_ne] at this
  simp [this.1.1, this.1.2, this.2]

theorem stripSentinels_start (s : Str) : stripSentinels (SENT_START :: s) = stripSentinels s := by
  simp [stripSentinels, removeChar, SENT_START]

theorem stripSentinels_end_nl : stripSentinels [SENT_END, NL] = [NL] := by decide

theorem sentFree_append (a b : Str) : sentFree (a ++ b) = (sentFree a && sentFree b) := by simp [sentFree, List.all_append]

theorem sentFree_NL : sentFree [NL] = true := by decide

theorem sentFree_joinNL : ∀ (ls : List Str), (∀ l ∈ ls, sentFree l = true) → sentFree (joinNL ls) = true
  | [], _ => rfl
  | [l], h => h l (by simp)
  | l :: m :: ms, h => by
    have ih := sentFree_joinNL (m :: ms) (fun x hx => h x (by simp [hx]))
    unfold joinNL at ih ⊢
    rw [joinOn_cons_cons, sentFree_append, h l (by simp)]
    show (true && sentFree ([NL] ++ joinOn NL (m :: ms))) = true
    rw [sentFree_append, ih]; rfl

/-! ## every line followed by a newline -/

/-- `l₁ \n l₂ \n … lₙ \n` -/
def terminated (ls : List Str) : Str := (ls.map (· ++ [NL])).flatten

theorem terminated_append (a b : List Str) : terminated (a ++ b) = terminated a ++ terminated b := by
  simp [terminated]

theorem terminated_eq : ∀ (ls : List Str), ls ≠ [] → terminated ls = joinNL ls ++ [NL]
  | [l], _ => by simp [terminated, joinNL, joinOn]
  | l :: m :: ms, _ => by
    have ih := terminated_eq (m :: ms) (by simp)
    unfold terminated at ih ⊢
    unfold joinNL at ih ⊢
    rw [joinOn_cons_cons, List.map_cons, List.flatten_cons, ih]
    simp

theorem terminated_splitNL (s : Str) : terminated (splitNL s) = s ++ [NL] := by
  rw [terminated_eq _ (splitNL_ne_nil s)]
  show joinOn NL (splitOn NL s) ++ [NL] = _
  rw [joinOn_splitOn]

/-! ## `transform` on a closed stream -/

/-- the last token is neither a forced fence end nor a pragma token -/
def EndsPlain (ts : List Tok) : Prop :=
  ∀ t, ts.getLast? = some t → forcedFenceEnd t = false ∧ ∀ ls, t ≠ .pragma ls

theorem lastPragma_none {ts : List Tok} (h : EndsPlain ts) : lastPragma ts = none := by
  unfold lastPragma
  cases hl : ts.getLast? with
  | none => rfl
  | some t =>
    have := (h t hl).2
    cases t <;> first | rfl | (rename_i ls; exact absurd rfl (this ls))

/-- A closed stream whose text ends in a newline: `transform` gives the text without that newline and without sentinels. -/
theorem transform_of_closed (ts : List Tok) (x : Str) (hcl : Closed ts (x ++ [NL])) (hne : ts ≠ []) (he : EndsPlain ts) :
    transform ts = .ok (stripSentinels x) := by
  obtain ⟨parts, c', hrun, hst, hflat⟩ := hcl false {} none rfl
  unfold transform
  rw [runFrom_eq_runMore, hrun]
  simp only
  unfold finish finalNewline
  cases hl : ts.getLast? with
  | none => rw [List.getLast?_eq_none_iff] at hl; exact absurd hl hne
  | some t =>
    have hf := (he t hl).1
    simp only [hf, lastPragma_none he, hst, List.isEmpty_nil, if_true]
    rw [hflat]
    have : Tabs.finalNewlineRule (x ++ [NL]) false = x := by
      unfold Tabs.finalNewlineRule
      simp
    simp [this]

/-! ## the leaf blocks of `RegenLeafSpec.Leaf` -/

/-- what the handlers write for the block, sentinels included -/
def leafRaw : Leaf → Str
  | .para _ ls => paraOut ls
  | b => terminated b.lines

theorem closed_leaf (b : Leaf) (toks : List Tok) (ht : b.toks = some toks) (hok : b.ok = true) :
    Closed toks (leafRaw b) := by
  cases b with
  | blank l =>
    simp only [Leaf.toks, LeafFields.fieldsBlank_eq] at ht
    by_cases hb : Recognisers.isBlankLine l = true
    · simp only [hb, if_true, Option.some.injEq] at ht
      subst ht
      simpa [leafRaw, terminated, Leaf.lines] using closed_blank l
    · simp only [hb, Bool.false_eq_true, if_false] at ht; cases ht
  | thematic l =>
    simp only [Leaf.toks] at ht
    cases hf : LeafFields.fieldsThematic l with
    | error e => rw [hf] at ht; cases ht
    | ok o =>
      cases o with
      | none => rw [hf] at ht; cases ht
      | some f =>
        rw [hf] at ht
        simp only [Option.some.injEq] at ht
        subst ht
        have := closed_thematic f
        rw [LeafFields.fieldsThematic_reassemble l f hf] at this
        simpa [leafRaw, terminated, Leaf.lines] using this
  | atx l =>
    simp only [Leaf.toks] at ht
    simp only [Leaf.ok] at hok
    cases hf : LeafFields.fieldsAtx l with
    | error e => rw [hf] at ht; cases ht
    | ok o =>
      cases o with
      | none => rw [hf] at ht; cases ht
      | some f =>
        rw [hf] at ht hok
        simp only [Option.some.injEq] at ht
        simp only [Bool.and_eq_true] at hok
        subst ht
        have := closed_atx f hok.1 hok.2
        rw [LeafFields.fieldsAtx_reassemble l f hf] at this
        simpa [leafRaw, terminated, Leaf.lines] using this
  | para id ls =>
    simp only [Leaf.toks] at ht
    cases ls with
    | nil => simp at ht
    | cons l0 rest =>
      simp only [List.cons_ne_nil, if_false, Option.some.injEq, reduceCtorEq] at ht
      subst ht
      simp only [Leaf.ok, List.all_eq_true] at hok
      exact closed_para id l0 rest hok
  | setext ls u =>
    simp only [Leaf.toks] at ht
    simp only [Leaf.ok, Bool.and_eq_true, List.all_eq_true] at hok
    cases hf : LeafFields.fieldsSetext u with
    | error e => rw [hf] at ht; cases ht
    | ok fo =>
      cases fo with
      | none => rw [hf] at ht; cases ht
      | some f =>
        rw [hf] at ht
        simp only at ht
        cases ls with
        | nil => simp at ht
        | cons l0 rest =>
          simp only [List.cons_ne_nil, if_false, Option.some.injEq, reduceCtorEq] at ht
          subst ht
          have := closed_setext l0 rest f (fun l hl => sxOk_of l (by simpa using hok.1 l hl)) (by simpa using hok.2)
          rw [LeafFields.fieldsSetext_reassemble u f hf] at this
          simp only [leafRaw, Leaf.lines, terminated_append]
          rw [terminated_eq _ (by simp)]
          simpa [terminated] using this
  | fence o body c =>
    simp only [Leaf.toks] at ht
    simp only [Leaf.ok] at hok
    cases hf : LeafFields.fieldsFenceOpen o with
    | error e => rw [hf] at ht; cases ht
    | ok fo =>
      cases fo with
      | none => rw [hf] at ht; cases ht
      | some f =>
        rw [hf] at ht hok
        simp only at ht hok
        cases hg : LeafFields.fieldsFenceClose c f.char f.count with
        | error e => rw [hg] at ht; cases ht
        | ok go =>
          cases go with
          | none => rw [hg] at ht; cases ht
          | some g =>
            rw [hg] at ht
            simp only [Option.some.injEq] at ht
            subst ht
            simp only [Bool.and_eq_true, Bool.or_eq_true, Bool.not_eq_true', List.isEmpty_iff] at hok
            obtain ⟨⟨hshape, hcolon⟩, hbody⟩ := hok
            have hopen : f.reassemble = o := LeafFields.fieldsFenceOpen_reassemble_partial o f hf (by
              rcases hshape with h | h
              · left; intro e; rw [e] at h; simp at h
              · right; exact h)
            have hclose : g.reassemble f.char = c := LeafFields.fieldsFenceClose_reassemble c f.char f.count g hg
            have hnc : ':' ∉ c := by
              intro hm
              have : c.contains ':' = true := by simpa using hm
              rw [hcolon] at this; cases this
            have h1 : ':' ∉ g.lead := by
              intro hm; apply hnc; rw [← hclose]; simp [LeafFields.FenceCloseFields.reassemble, hm]
            have h2 : ':' ∉ g.trail := by
              intro hm; apply hnc; rw [← hclose]; simp [LeafFields.FenceCloseFields.reassemble, hm]
            have := closed_fence f body g (by
              intro ew tt hb; subst hb; simpa using hbody) h1 h2
            rw [hopen, hclose] at this
            cases body with
            | none => simpa [leafRaw, terminated, Leaf.lines] using this
            | some bd =>
              obtain ⟨ew, tt⟩ := bd
              simp only [leafRaw, Leaf.lines, terminated_append, terminated_splitNL]
              simpa [terminated] using this

theorem leaf_toks_ends (b : Leaf) (toks : List Tok) (ht : b.toks = some toks) :
    toks ≠ [] ∧ EndsPlain toks := by
  cases b with
  | blank l =>
    simp only [Leaf.toks] at ht
    split at ht
    · simp only [Option.some.injEq] at ht; subst ht
      exact ⟨by simp, fun t h => by simp at h; subst h; exact ⟨rfl, fun _ h => by cases h⟩⟩
    · cases ht
  | thematic l =>
    simp only [Leaf.toks] at ht
    split at ht
    · simp only [Option.some.injEq] at ht; subst ht
      exact ⟨by simp [thematicToks], fun t h => by simp [thematicToks] at h; subst h; exact ⟨rfl, fun _ h => by cases h⟩⟩
    · cases ht
  | atx l =>
    simp only [Leaf.toks] at ht
    split at ht
    · simp only [Option.some.injEq] at ht; subst ht
      exact ⟨by simp [atxToks], fun t h => by simp [atxToks] at h; subst h; exact ⟨rfl, fun _ h => by cases h⟩⟩
    · cases ht
  | para id ls =>
    simp only [Leaf.toks] at ht
    split at ht
    · cases ht
    · simp only [Option.some.injEq] at ht; subst ht
      exact ⟨by simp [paraToks], fun t h => by simp [paraToks] at h; subst h; exact ⟨rfl, fun _ h => by cases h⟩⟩
  | setext ls u =>
    simp only [Leaf.toks] at ht
    split at ht
    · split at ht
      · cases ht
      · simp only [Option.some.injEq] at ht; subst ht
        cases ls with
        | nil => contradiction
        | cons l0 rest =>
          exact ⟨by simp [setextToks], fun t h => by simp [setextToks] at h; subst h; exact ⟨rfl, fun _ h => by cases h⟩⟩
    · cases ht
  | fence o b c =>
    simp only [Leaf.toks] at ht
    split at ht
    · split at ht
      · simp only [Option.some.injEq] at ht; subst ht
        refine ⟨by simp [fenceToks], fun t h => ?_⟩
        simp only [fenceToks, List.getLast?_append, List.getLast?_singleton, Option.some_or, Option.some.injEq] at h
        subst h; exact ⟨rfl, fun _ h => by cases h⟩
      · cases ht
    · cases ht

/-- without the sentinels the block's text is its lines, each followed by a newline -/
theorem leafRaw_strip (b : Leaf) (hs : ∀ l ∈ b.lines, sentFree l = true) (hne : b.lines ≠ []) :
    stripSentinels (leafRaw b) = terminated b.lines := by
  have hterm : sentFree (terminated b.lines) = true := by
    unfold terminated
    generalize b.lines = ls at hs
    induction ls with
    | nil => rfl
    | cons l ls ih =>
      simp only [List.map_cons, List.flatten_cons, sentFree_append, hs l (by simp), sentFree_NL, Bool.true_and]
      exact ih (fun x hx => hs x (by simp [hx]))
  cases b with
  | para id ls =>
    simp only [leafRaw, paraOut, Leaf.lines] at hs hne ⊢
    cases ls with
    | nil => exact absurd rfl hne
    | cons l0 rest =>
      have hj : sentFree (joinNL ((l0 :: rest).map PLine.src)) = true := sentFree_joinNL _ hs
      rw [show SENT_START :: joinNL ((l0 :: rest).map PLine.src) ++ [SENT_END, NL] =
        [SENT_START] ++ (joinNL ((l0 :: rest).map PLine.src) ++ [SENT_END, NL]) from rfl, stripSentinels_append, stripSentinels_append,
        stripSentinels_sentFree _ hj, stripSentinels_end_nl, terminated_eq _ (by simp)]
      simp [stripSentinels, Codec.removeChar, SENT_START, SENT_END, Codec.SENT_BLAH]
  | blank l => exact stripSentinels_sentFree _ hterm
  | thematic l => exact stripSentinels_sentFree _ hterm
  | atx l => exact stripSentinels_sentFree _ hterm
  | setext ls u => exact stripSentinels_sentFree _ hterm
  | fence o bd c => exact stripSentinels_sentFree _ hterm

/-- the tokens of a document: the blocks' tokens in order (`none` when a block's recogniser does not accept its line) -/
def docToks : List Leaf → Option (List Tok)
  | [] => some []
  | b :: bs =>
    match b.toks, docToks bs with
    | some t, some ts => some (t ++ ts)
    | _, _ => none

theorem closed_doc : ∀ (doc : List Leaf) (toks : List Tok), docToks doc = some toks →
    (∀ b ∈ doc, b.ok = true) → Closed toks (doc.map leafRaw).flatten
  | [], toks, ht, _ => by
    simp only [docToks, Option.some.injEq] at ht; subst ht; exact closed_nil
  | b :: bs, toks, ht, hok => by
    rw [docToks] at ht
    cases hb : b.toks with
    | none => rw [hb] at ht; cases ht
    | some t =>
      cases hbs : docToks bs with
      | none => rw [hb, hbs] at ht; cases ht
      | some ts =>
        rw [hb, hbs] at ht
        simp only [Option.some.injEq] at ht; subst ht
        have h1 := closed_leaf b t hb (hok b (by simp))
        have h2 := closed_doc bs ts hbs (fun x hx => hok x (by simp [hx]))
        simpa using closed_append h1 h2

theorem docToks_ends : ∀ (doc : List Leaf) (toks : List Tok), docToks doc = some toks → doc ≠ [] → toks ≠ [] ∧ EndsPlain toks
  | [], _, _, hne => absurd rfl hne
  | b :: bs, toks, ht, _ => by
    rw [docToks] at ht
    cases hb : b.toks with
    | none => rw [hb] at ht; cases ht
    | some t =>
      cases hbs : docToks bs with
      | none => rw [hb, hbs] at ht; cases ht
      | some ts =>
        rw [hb, hbs] at ht
        simp only [Option.some.injEq] at ht; subst ht
        obtain ⟨htne, hte⟩ := leaf_toks_ends b t hb
        refine ⟨by simp [htne], ?_⟩
        cases bs with
        | nil =>
          simp only [docToks, Option.some.injEq] at hbs; subst hbs
          simpa using hte
        | cons b2 bs2 =>
          obtain ⟨htsne, htse⟩ := docToks_ends (b2 :: bs2) ts hbs (by simp)
          intro x hx
          rw [List.getLast?_append] at hx
          cases hy : ts.getLast? with
          | none => rw [List.getLast?_eq_none_iff] at hy; exact absurd hy htsne
          | some y =>
            rw [hy] at hx
            have : x = y := by simpa using hx.symm
            subst this; exact htse x hy

theorem lines_ne_nil_of_toks (b : Leaf) (toks : List Tok) (ht : b.toks = some toks) : b.lines ≠ [] := by
  cases b with
  | blank l => simp [Leaf.lines]
  | thematic l => simp [Leaf.lines]
  | atx l => simp [Leaf.lines]
  | para id ls =>
    simp only [Leaf.toks] at ht
    split at ht
    · cases ht
    · next h => simpa [Leaf.lines] using h
  | setext ls u => simp [Leaf.lines]
  | fence o b c => cases b <;> simp [Leaf.lines]
    

theorem leafRaw_endsNL (b : Leaf) (hne : b.lines ≠ []) : ∃ x, leafRaw b = x ++ [NL] := by
  cases b with
  | para id ls => exact ⟨SENT_START :: joinNL (ls.map PLine.src) ++ [SENT_END], by simp [leafRaw, paraOut]⟩
  | blank l => exact ⟨_, terminated_eq _ hne⟩
  | thematic l => exact ⟨_, terminated_eq _ hne⟩
  | atx l => exact ⟨_, terminated_eq _ hne⟩
  | setext ls u => exact ⟨_, terminated_eq _ hne⟩
  | fence o bd c => exact ⟨_, terminated_eq _ hne⟩

theorem doc_raw_endsNL : ∀ (doc : List Leaf), doc ≠ [] → (∀ b ∈ doc, b.lines ≠ []) → ∃ x, (doc.map leafRaw).flatten = x ++ [NL]
  | [], h, _ => absurd rfl h
  | [b], _, hl => by
    obtain ⟨x, hx⟩ := leafRaw_endsNL b (hl b (by simp))
    exact ⟨x, by simp [hx]⟩
  | b :: b2 :: bs, _, hl => by
    obtain ⟨x, hx⟩ := doc_raw_endsNL (b2 :: bs) (by simp) (fun y hy => hl y (by simp [hy]))
    exact ⟨leafRaw b ++ x, by rw [List.map_cons, List.flatten_cons, hx, List.append_assoc]⟩

theorem doc_raw_strip : ∀ (doc : List Leaf), (∀ b ∈ doc, b.lines ≠ []) → (∀ b ∈ doc, ∀ l ∈ b.lines, sentFree l = true) →
    stripSentinels (doc.map leafRaw).flatten = terminated (doc.flatMap Leaf.lines)
  | [], _, _ => by decide
  | b :: bs, hl, hs => by
    rw [List.map_cons, List.flatten_cons, stripSentinels_append, leafRaw_strip b (hs b (by simp)) (hl b (by simp)),
      doc_raw_strip bs (fun y hy => hl y (by simp [hy])) (fun y hy => hs y (by simp [hy])), List.flatMap_cons, terminated_append]

end Verif.Lemmas.RegenLeaf
