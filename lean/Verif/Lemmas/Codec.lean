/-
  Helper lemmas for Verif.Props.C02 about the Codec model: `findFrom`, `findWithEscape`
  and the loops on marker-free encodings.
-/
import Verif.Model.Codec
namespace Verif.Lemmas.Codec
open Verif.Model.Codec

/-! ### `findFrom` -/

theorem findFrom_nil (c : Char) (n : Nat) : findFrom c [] n = none := by
  cases n <;> rfl

theorem findFrom_append_left (c : Char) (R : Str) (k : Nat) : ∀ (P : Str),
    findFrom c (P ++ R) (P.length + k) = (findFrom c R k).map (· + P.length)
  | [] => by simp
  | x :: P => by
    have h : (x :: P).length + k = (P.length + k) + 1 := by simp; omega
    rw [List.cons_append, h, findFrom, findFrom_append_left c R k P, Option.map_map]
    congr 1

theorem findFrom_zero_skip (c : Char) (R : Str) : ∀ (Q : Str), c ∉ Q →
    findFrom c (Q ++ R) 0 = (findFrom c R 0).map (· + Q.length)
  | [], _ => by simp
  | x :: Q, h => by
    have hx : x ≠ c := fun e => h (by simp [e])
    have hq : c ∉ Q := fun e => h (by simp [e])
    rw [List.cons_append, findFrom, if_neg hx, findFrom_zero_skip c R Q hq, Option.map_map]
    congr 1

theorem findFrom_zero_hit (c : Char) (R : Str) : findFrom c (c :: R) 0 = some 0 := by
  simp [findFrom]

theorem findFrom_zero_none (c : Char) : ∀ (Q : Str), c ∉ Q → findFrom c Q 0 = none
  | [], _ => rfl
  | x :: Q, h => by
    have hx : x ≠ c := fun e => h (by simp [e])
    have hq : c ∉ Q := fun e => h (by simp [e])
    rw [findFrom, if_neg hx, findFrom_zero_none c Q hq]; rfl

/-- the first `c` after a prefix `A` and a `c`-free stretch `Q`. -/
theorem findFrom_hit (c : Char) (A Q R : Str) (n : Nat) (hn : A.length = n) (hq : c ∉ Q) :
    findFrom c (A ++ (Q ++ c :: R)) n = some (n + Q.length) := by
  subst hn
  have := findFrom_append_left c (Q ++ c :: R) 0 A
  simp only [Nat.add_zero] at this
  rw [this, findFrom_zero_skip c _ Q hq, findFrom_zero_hit]
  simp; omega

/-- no `c` after the prefix `A`. -/
theorem findFrom_miss (c : Char) (A Q : Str) (n : Nat) (hn : A.length = n) (hq : c ∉ Q) :
    findFrom c (A ++ Q) n = none := by
  subst hn
  have := findFrom_append_left c Q 0 A
  simp only [Nat.add_zero] at this
  rw [this, findFrom_zero_none c Q hq]; rfl

/-- skipping a `c`-free stretch. -/
theorem findFrom_skip (c : Char) (A Q R : Str) (hq : c ∉ Q) :
    findFrom c (A ++ (Q ++ R)) A.length = findFrom c ((A ++ Q) ++ R) (A ++ Q).length := by
  have h1 := findFrom_append_left c (Q ++ R) 0 A
  have h2 := findFrom_append_left c R 0 (A ++ Q)
  simp only [Nat.add_zero] at h1 h2
  rw [h1, h2, findFrom_zero_skip c R Q hq, Option.map_map]
  congr 1
  funext x; simp; omega

theorem findFrom_ge_length (c : Char) : ∀ (s : Str) (n : Nat), s.length ≤ n → findFrom c s n = none
  | [], n, _ => findFrom_nil c n
  | x :: s, 0, h => by simp at h
  | x :: s, n + 1, h => by
    rw [findFrom, findFrom_ge_length c s n (by simpa using h)]; rfl

theorem findFrom_some_lt (c : Char) : ∀ (s : Str) (n i : Nat), findFrom c s n = some i → n ≤ i ∧ i < s.length ∧ s[i]? = some c
  | [], n, i, h => by rw [findFrom_nil] at h; cases h
  | x :: s, 0, i, h => by
    rw [findFrom] at h
    by_cases hx : x = c
    · rw [if_pos hx] at h; cases h; simp [hx]
    · rw [if_neg hx] at h
      match hf : findFrom c s 0, h with
      | some j, h =>
        simp at h; subst h
        have := findFrom_some_lt c s 0 j hf
        simp; exact this.2
  | x :: s, n + 1, i, h => by
    rw [findFrom] at h
    match hf : findFrom c s n, h with
    | some j, h =>
      simp at h; subst h
      have := findFrom_some_lt c s n j hf
      simp; omega

/-! ### `findWithEscape` on text without U+0005 -/

theorem getElem?_ne_of_not_mem {s : Str} {x : Char} (h : x ∉ s) (i : Nat) : s[i]? ≠ some x := by
  intro e
  exact h (List.mem_of_getElem? e)

theorem fwe_noEsc (s : Str) (c : Char) (st : Nat) (h : ESC ∉ s) :
    findWithEscape s c st = findFrom c s st := by
  unfold findWithEscape
  rw [fweLoop]
  by_cases hlt : st < s.length
  · rw [if_pos hlt]
    cases hf : findFrom c s st with
    | none => rfl
    | some i =>
      simp only
      rw [if_neg]
      intro hh
      exact getElem?_ne_of_not_mem h _ hh.2
  · rw [if_neg hlt, findFrom_ge_length c s st (by omega)]

/-! ### The cut loops on text without U+0005 -/

theorem cutLoop_filter (c : Char) : ∀ (R P : Str) (fuel : Nat), R.length < fuel → ESC ∉ P ++ R →
    cutLoop c false 0 fuel (P ++ R) (findFrom c (P ++ R) P.length) = .ok (P ++ R.filter (· != c))
  | [], P, fuel, _, _ => by
    rw [findFrom_miss c P [] P.length rfl (by simp)]
    cases fuel <;> simp [cutLoop]
  | x :: R, P, fuel, hf, he => by
    by_cases hx : x = c
    · subst hx
      have hit : findFrom x (P ++ ([] ++ x :: R)) P.length = some (P.length + 0) :=
        findFrom_hit x P [] R P.length rfl (by simp)
      simp only [List.nil_append, Nat.add_zero] at hit
      rw [hit]
      match fuel, hf with
      | fuel + 1, hf =>
        rw [cutLoop]
        have hcut : cutAt false (P ++ x :: R) P.length = P ++ R := by
          simp [cutAt]
        rw [hcut, Nat.add_zero]
        have he' : ESC ∉ P ++ R := by
          intro e; apply he; simp at e ⊢; rcases e with e | e
          · exact Or.inl e
          · exact Or.inr (Or.inr e)
        rw [fwe_noEsc _ _ _ he', cutLoop_filter x R P fuel (by simp at hf; omega) he']
        simp
    · have hskip := findFrom_skip c P [x] R (by simp; exact fun e => hx e.symm)
      simp only [List.singleton_append] at hskip
      rw [hskip]
      have e1 : P ++ x :: R = (P ++ [x]) ++ R := by simp
      rw [e1, cutLoop_filter c R (P ++ [x]) fuel (by simp at hf; omega) (by rw [← e1]; exact he)]
      have hb : (x != c) = true := by simp [hx]
      simp [hb]

theorem cutAll_filter (c : Char) (t : Str) (h : ESC ∉ t) :
    cutAll c false 0 t = .ok (t.filter (· != c)) := by
  unfold cutAll
  rw [fwe_noEsc _ _ _ h]
  have := cutLoop_filter c t [] (t.length + 1) (by omega) (by simpa using h)
  simpa using this

theorem resolveEscapes_noEsc (t : Str) (h : ESC ∉ t) : resolveEscapes t = .ok t := by
  unfold resolveEscapes cutAll
  rw [fwe_noEsc _ _ _ h, findFrom_zero_none ESC t h]
  simp [cutLoop]

/-! ### Marker-free payloads -/

theorem plain_not_mem {s : Str} (h : plain s = true) {x : Char} (hx : isSpecial x = true) : x ∉ s := by
  intro hm
  unfold plain at h
  rw [List.all_eq_true] at h
  have := h x hm
  simp [hx] at this

theorem special_BS : isSpecial BS = true := by decide
theorem special_AL : isSpecial AL = true := by decide
theorem special_ESC : isSpecial ESC = true := by decide
theorem special_NOOP : isSpecial NOOP = true := by decide

theorem ne_of_not_special {c x : Char} (h : isSpecial c = false) (hx : isSpecial x = true) : c ≠ x := by
  intro e; subst e; rw [h] at hx; cases hx

theorem markerFree_cons (p : Piece) (ps : List Piece) :
    MarkerFree (p :: ps) ↔ p.markerFree = true ∧ MarkerFree ps := by
  simp [MarkerFree, List.all_cons]

theorem markerFree_append (a b : List Piece) : MarkerFree (a ++ b) ↔ MarkerFree a ∧ MarkerFree b := by
  simp [MarkerFree, List.all_append]

theorem escapeSpecial_single {c : Char} (h : isSpecial c = false) : escapeSpecial [c] = [c] := by
  simp [escapeSpecial, h]

theorem encode_append (a b : List Piece) : encode (a ++ b) = encode a ++ encode b := by
  induction a with
  | nil => rfl
  | cons p a ih => simp [encode, ih]

theorem sourceOf_append (a b : List Piece) : sourceOf (a ++ b) = sourceOf a ++ sourceOf b := by
  induction a with
  | nil => rfl
  | cons p a ih => simp [sourceOf, ih]

theorem renderedOf_append (a b : List Piece) : renderedOf (a ++ b) = renderedOf a ++ renderedOf b := by
  induction a with
  | nil => rfl
  | cons p a ih => simp [renderedOf, ih]

/-- a special character `x` other than `\a`, `\b`, `\x03`-in-`removed`… does not occur in the encoding:
stated per character below. -/
theorem not_mem_piece_encode_ESC (p : Piece) (h : p.markerFree = true) : ESC ∉ p.encode := by
  have hE := special_ESC
  cases p with
  | lit c =>
    simp [Piece.markerFree] at h
    rw [Piece.encode, escapeSpecial_single h]
    simp; exact (ne_of_not_special h hE).symm
  | bsEscaped c =>
    simp [Piece.markerFree] at h
    simp [Piece.encode]
    refine ⟨by decide, by decide, (ne_of_not_special h hE).symm⟩
  | bsReplaced c dst =>
    simp [Piece.markerFree] at h
    obtain ⟨⟨hc, hd⟩, _⟩ := h
    simp [Piece.encode, replacementMarkers]
    exact ⟨by decide, by decide, by decide, (ne_of_not_special hc hE).symm, by decide, plain_not_mem hd hE, by decide⟩
  | replaced src dst =>
    simp [Piece.markerFree] at h
    obtain ⟨⟨hs, hd⟩, _⟩ := h
    simp [Piece.encode, replacementMarkers]
    exact ⟨by decide, plain_not_mem hs hE, by decide, plain_not_mem hd hE, by decide⟩
  | removed src =>
    simp [Piece.markerFree] at h
    simp [Piece.encode, replaceWithNothing]
    exact ⟨by decide, plain_not_mem h hE, by decide, by decide, by decide⟩
  | nested a b c =>
    simp [Piece.markerFree] at h
    obtain ⟨⟨ha, hb⟩, hc⟩ := h
    simp [Piece.encode, replacementMarkers]
    exact ⟨by decide, plain_not_mem ha hE, by decide, plain_not_mem hb hE, by decide, plain_not_mem hc hE, by decide⟩

theorem not_mem_encode_ESC : ∀ (ps : List Piece), MarkerFree ps → ESC ∉ encode ps
  | [], _ => by simp [encode]
  | p :: ps, h => by
    rw [markerFree_cons] at h
    simp only [encode, List.mem_append, not_or]
    exact ⟨not_mem_piece_encode_ESC p h.1, not_mem_encode_ESC ps h.2⟩

/-! ### Pass 1: the backspace passes on an encoding -/

/-- the piece list whose encoding is the encoding of `ps` after `__remove_backspaces_from_text`. -/
def unbs : List Piece → List Piece
  | [] => []
  | .bsEscaped c :: ps => .lit BSL :: .lit c :: unbs ps
  | .bsReplaced c dst :: ps => .lit BSL :: .replaced [c] dst :: unbs ps
  | p :: ps => p :: unbs ps

/-- the piece list whose encoding is the encoding of `ps` after `resolve_backspaces_from_text`. -/
def unbsR : List Piece → List Piece
  | [] => []
  | .bsEscaped c :: ps => .lit c :: unbsR ps
  | .bsReplaced c dst :: ps => .replaced [c] dst :: unbsR ps
  | p :: ps => p :: unbsR ps

def _root_.Verif.Model.Codec.Piece.noBs : Piece → Bool
  | .bsEscaped _ => false
  | .bsReplaced _ _ => false
  | _ => true

def NoBs (ps : List Piece) : Prop := ps.all Piece.noBs = true

theorem noBs_cons (p : Piece) (ps : List Piece) : NoBs (p :: ps) ↔ p.noBs = true ∧ NoBs ps := by
  simp [NoBs, List.all_cons]

theorem special_BSL : isSpecial BSL = false := by decide

theorem plain_single {c : Char} (h : isSpecial c = false) : plain [c] = true := by
  simp [plain, h]

theorem unbs_spec : ∀ (ps : List Piece), MarkerFree ps →
    MarkerFree (unbs ps) ∧ NoBs (unbs ps) ∧ sourceOf (unbs ps) = sourceOf ps
  | [], _ => by simp [unbs, MarkerFree, NoBs]
  | p :: ps, h => by
    rw [markerFree_cons] at h
    obtain ⟨ih1, ih2, ih3⟩ := unbs_spec ps h.2
    cases p with
    | bsEscaped c =>
      have hc : isSpecial c = false := by simpa [Piece.markerFree] using h.1
      simp only [unbs, markerFree_cons, noBs_cons, sourceOf, Piece.source, Piece.markerFree, Piece.noBs, ih1, ih2, ih3,
        special_BSL, hc]
      simp
    | bsReplaced c dst =>
      have hc := h.1
      simp only [Piece.markerFree, Bool.and_eq_true, Bool.not_eq_true'] at hc
      simp only [unbs, markerFree_cons, noBs_cons, sourceOf, Piece.source, Piece.markerFree, Piece.noBs, ih1, ih2, ih3,
        special_BSL, plain_single hc.1.1, hc.1.2, hc.2]
      simp
    | lit c => simp [unbs, markerFree_cons, noBs_cons, sourceOf, Piece.noBs, ih1, ih2, ih3, h.1]
    | replaced a b => simp [unbs, markerFree_cons, noBs_cons, sourceOf, Piece.noBs, ih1, ih2, ih3, h.1]
    | removed a => simp [unbs, markerFree_cons, noBs_cons, sourceOf, Piece.noBs, ih1, ih2, ih3, h.1]
    | nested a b c => simp [unbs, markerFree_cons, noBs_cons, sourceOf, Piece.noBs, ih1, ih2, ih3, h.1]

theorem unbsR_spec : ∀ (ps : List Piece), MarkerFree ps →
    MarkerFree (unbsR ps) ∧ NoBs (unbsR ps) ∧ renderedOf (unbsR ps) = renderedOf ps
  | [], _ => by simp [unbsR, MarkerFree, NoBs]
  | p :: ps, h => by
    rw [markerFree_cons] at h
    obtain ⟨ih1, ih2, ih3⟩ := unbsR_spec ps h.2
    cases p with
    | bsEscaped c =>
      have hc : isSpecial c = false := by simpa [Piece.markerFree] using h.1
      simp [unbsR, markerFree_cons, noBs_cons, renderedOf, Piece.rendered, Piece.markerFree, Piece.noBs, ih1, ih2, ih3, hc]
    | bsReplaced c dst =>
      have hc := h.1
      simp only [Piece.markerFree, Bool.and_eq_true, Bool.not_eq_true'] at hc
      simp [unbsR, markerFree_cons, noBs_cons, renderedOf, Piece.rendered, Piece.markerFree, Piece.noBs, ih1, ih2, ih3,
        plain_single hc.1.1, hc.1.2, hc.2]
    | lit c => simp [unbsR, markerFree_cons, noBs_cons, renderedOf, Piece.noBs, ih1, ih2, ih3, h.1]
    | replaced a b => simp [unbsR, markerFree_cons, noBs_cons, renderedOf, Piece.noBs, ih1, ih2, ih3, h.1]
    | removed a => simp [unbsR, markerFree_cons, noBs_cons, renderedOf, Piece.noBs, ih1, ih2, ih3, h.1]
    | nested a b c => simp [unbsR, markerFree_cons, noBs_cons, renderedOf, Piece.noBs, ih1, ih2, ih3, h.1]

theorem filter_ne_of_not_mem {x : Char} : ∀ {s : Str}, x ∉ s → s.filter (· != x) = s
  | [], _ => rfl
  | y :: s, h => by
    have hy : y ≠ x := fun e => h (by simp [e])
    have hs : x ∉ s := fun e => h (by simp [e])
    have hb : (y != x) = true := by simp [hy]
    simp [hb, filter_ne_of_not_mem hs]

/-- `\b` does not occur in the encoding of a marker-free piece that is not a backslash escape. -/
theorem not_mem_piece_encode_BS (p : Piece) (h : p.markerFree = true) (hn : p.noBs = true) : BS ∉ p.encode := by
  have hE := special_BS
  cases p with
  | lit c =>
    simp [Piece.markerFree] at h
    rw [Piece.encode, escapeSpecial_single h]
    simp; exact (ne_of_not_special h hE).symm
  | bsEscaped c => simp [Piece.noBs] at hn
  | bsReplaced c dst => simp [Piece.noBs] at hn
  | replaced src dst =>
    simp [Piece.markerFree] at h
    obtain ⟨⟨hs, hd⟩, _⟩ := h
    simp [Piece.encode, replacementMarkers]
    exact ⟨by decide, plain_not_mem hs hE, by decide, plain_not_mem hd hE, by decide⟩
  | removed src =>
    simp [Piece.markerFree] at h
    simp [Piece.encode, replaceWithNothing]
    exact ⟨by decide, plain_not_mem h hE, by decide, by decide, by decide⟩
  | nested a b c =>
    simp [Piece.markerFree] at h
    obtain ⟨⟨ha, hb⟩, hc⟩ := h
    simp [Piece.encode, replacementMarkers]
    exact ⟨by decide, plain_not_mem ha hE, by decide, plain_not_mem hb hE, by decide, plain_not_mem hc hE, by decide⟩

theorem filter_BS_encode : ∀ (ps : List Piece), MarkerFree ps →
    (encode ps).filter (· != BS) = encode (unbs ps)
  | [], _ => rfl
  | p :: ps, h => by
    rw [markerFree_cons] at h
    have ih := filter_BS_encode ps h.2
    cases p with
    | bsEscaped c =>
      have hc : isSpecial c = false := by simpa [Piece.markerFree] using h.1
      have h1 : (BSL != BS) = true := by decide
      have h3 : (c != BS) = true := by simp; exact ne_of_not_special hc special_BS
      simp [encode, unbs, Piece.encode, h1, h3, ih, escapeSpecial_single hc, escapeSpecial_single special_BSL]
    | bsReplaced c dst =>
      have hm := not_mem_piece_encode_BS (.replaced [c] dst) (by
        have hc := h.1
        simp only [Piece.markerFree, Bool.and_eq_true, Bool.not_eq_true'] at hc
        simp [Piece.markerFree, plain_single hc.1.1, hc.1.2, hc.2]) rfl
      have h1 : (BSL != BS) = true := by decide
      have h2 : (BS != BS) = false := by decide
      simp only [encode, unbs, Piece.encode, List.cons_append, List.filter_cons, h1, h2, List.filter_append, ih,
        escapeSpecial_single special_BSL]
      simp only [Piece.encode] at hm
      rw [filter_ne_of_not_mem hm]
      simp
    | lit c =>
      have hm := not_mem_piece_encode_BS (.lit c) h.1 rfl
      simp only [encode, unbs, List.filter_append, ih, filter_ne_of_not_mem hm]
    | replaced a b =>
      have hm := not_mem_piece_encode_BS (.replaced a b) h.1 rfl
      simp only [encode, unbs, List.filter_append, ih, filter_ne_of_not_mem hm]
    | removed a =>
      have hm := not_mem_piece_encode_BS (.removed a) h.1 rfl
      simp only [encode, unbs, List.filter_append, ih, filter_ne_of_not_mem hm]
    | nested a b c =>
      have hm := not_mem_piece_encode_BS (.nested a b c) h.1 rfl
      simp only [encode, unbs, List.filter_append, ih, filter_ne_of_not_mem hm]

theorem removeBackspaces_encode (ps : List Piece) (h : MarkerFree ps) :
    removeBackspaces (encode ps) = .ok (encode (unbs ps)) := by
  unfold removeBackspaces
  rw [cutAll_filter BS _ (not_mem_encode_ESC ps h), filter_BS_encode ps h]

theorem cutAt_true_mid (P R : Str) (a b : Char) : cutAt true (P ++ a :: b :: R) (P.length + 1) = P ++ R := by
  have h2 : List.drop (P.length + 1 + 1) (P ++ a :: b :: R) = R := by
    have : P ++ a :: b :: R = (P ++ [a, b]) ++ R := by simp
    rw [this]; exact List.drop_left' (by simp)
  simp [cutAt, h2]

theorem not_mem_append {x : Char} {a b : Str} (ha : x ∉ a) (hb : x ∉ b) : x ∉ a ++ b := by
  simp [ha, hb]

theorem resolveBackspaces_loop : ∀ (ps : List Piece) (P : Str) (fuel : Nat), MarkerFree ps → BS ∉ P → ESC ∉ P →
    ps.length < fuel →
    cutLoop BS true 0 fuel (P ++ encode ps) (findFrom BS (P ++ encode ps) P.length) = .ok (P ++ encode (unbsR ps))
  | [], P, fuel, _, _, _, _ => by
    rw [encode, findFrom_miss BS P [] P.length rfl (by simp)]
    cases fuel <;> simp [cutLoop, unbsR, encode]
  | p :: ps, P, fuel, hm, hb, he, hf => by
    rw [markerFree_cons] at hm
    have hEps := not_mem_encode_ESC ps hm.2
    have generic : p.noBs = true → unbsR (p :: ps) = p :: unbsR ps →
        cutLoop BS true 0 fuel (P ++ encode (p :: ps)) (findFrom BS (P ++ encode (p :: ps)) P.length)
          = .ok (P ++ encode (unbsR (p :: ps))) := by
      intro hn hu
      have hbp := not_mem_piece_encode_BS p hm.1 hn
      have hep := not_mem_piece_encode_ESC p hm.1
      rw [encode, findFrom_skip BS P p.encode (encode ps) hbp]
      have e1 : P ++ (p.encode ++ encode ps) = (P ++ p.encode) ++ encode ps := by simp
      rw [e1, resolveBackspaces_loop ps (P ++ p.encode) fuel hm.2 (not_mem_append hb hbp) (not_mem_append he hep)
        (by simp at hf; omega), hu]
      simp [encode]
    cases p with
    | lit c => exact generic rfl rfl
    | replaced a b => exact generic rfl rfl
    | removed a => exact generic rfl rfl
    | nested a b c => exact generic rfl rfl
    | bsEscaped c =>
      have hc : isSpecial c = false := by simpa [Piece.markerFree] using hm.1
      have hit := findFrom_hit BS P [BSL] (c :: encode ps) P.length rfl (by decide)
      have e0 : P ++ encode (Piece.bsEscaped c :: ps) = P ++ ([BSL] ++ BS :: (c :: encode ps)) := by
        simp [encode, Piece.encode]
      rw [e0, hit]
      match fuel, hf with
      | fuel + 1, hf =>
        rw [cutLoop]
        have hcut : cutAt true (P ++ ([BSL] ++ BS :: (c :: encode ps))) (P.length + [BSL].length) = P ++ c :: encode ps := by
          have := cutAt_true_mid P (c :: encode ps) BSL BS
          simpa using this
        rw [hcut]
        have hc5 : c ≠ ESC := ne_of_not_special hc special_ESC
        have hc8 : c ≠ BS := ne_of_not_special hc special_BS
        have he' : ESC ∉ P ++ c :: encode ps := by
          simp only [List.mem_append, List.mem_cons, not_or]
          exact ⟨he, fun e => hc5 e.symm, hEps⟩
        rw [fwe_noEsc _ _ _ he']
        have e1 : P ++ c :: encode ps = (P ++ [c]) ++ encode ps := by simp
        have e2 : P.length + [BSL].length + 0 = (P ++ [c]).length := by simp
        rw [e1, e2, resolveBackspaces_loop ps (P ++ [c]) fuel hm.2
          (not_mem_append hb (by simp; exact fun e => hc8 e.symm))
          (not_mem_append he (by simp; exact fun e => hc5 e.symm)) (by simp at hf; omega)]
        simp [unbsR, encode, Piece.encode, escapeSpecial_single hc]
    | bsReplaced c dst =>
      have hc := hm.1
      simp only [Piece.markerFree, Bool.and_eq_true, Bool.not_eq_true'] at hc
      have hmf : (Piece.replaced [c] dst).markerFree = true := by
        simp [Piece.markerFree, plain_single hc.1.1, hc.1.2, hc.2]
      have hbM := not_mem_piece_encode_BS (.replaced [c] dst) hmf rfl
      have heM := not_mem_piece_encode_ESC (.replaced [c] dst) hmf
      simp only [Piece.encode] at hbM heM
      have hit := findFrom_hit BS P [BSL] (replacementMarkers [c] dst ++ encode ps) P.length rfl (by decide)
      have e0 : P ++ encode (Piece.bsReplaced c dst :: ps)
          = P ++ ([BSL] ++ BS :: (replacementMarkers [c] dst ++ encode ps)) := by
        simp [encode, Piece.encode]
      rw [e0, hit]
      match fuel, hf with
      | fuel + 1, hf =>
        rw [cutLoop]
        have hcut : cutAt true (P ++ ([BSL] ++ BS :: (replacementMarkers [c] dst ++ encode ps))) (P.length + [BSL].length)
            = P ++ (replacementMarkers [c] dst ++ encode ps) := by
          have := cutAt_true_mid P (replacementMarkers [c] dst ++ encode ps) BSL BS
          simpa using this
        rw [hcut]
        have he' : ESC ∉ P ++ (replacementMarkers [c] dst ++ encode ps) :=
          not_mem_append he (not_mem_append heM hEps)
        rw [fwe_noEsc _ _ _ he']
        -- the search resumes one past the `\a` that now sits at the hit index
        let M' : Str := [c] ++ AL :: (dst ++ [AL])
        have hM : replacementMarkers [c] dst = AL :: M' := rfl
        have hbM' : BS ∉ M' := fun e => hbM (by rw [hM]; exact List.mem_cons_of_mem _ e)
        have e1 : P ++ (replacementMarkers [c] dst ++ encode ps) = (P ++ [AL]) ++ (M' ++ encode ps) := by
          rw [hM]; simp
        have e2 : P.length + [BSL].length + 0 = (P ++ [AL]).length := by simp
        rw [e1, e2, findFrom_skip BS (P ++ [AL]) M' (encode ps) hbM']
        have e3 : (P ++ [AL]) ++ M' = P ++ replacementMarkers [c] dst := by rw [hM]; simp
        have e4 : (P ++ [AL]) ++ (M' ++ encode ps) = (P ++ replacementMarkers [c] dst) ++ encode ps := by rw [hM]; simp
        rw [e3, e4, resolveBackspaces_loop ps (P ++ replacementMarkers [c] dst) fuel hm.2
          (not_mem_append hb hbM) (not_mem_append he heM) (by simp at hf; omega)]
        simp [unbsR, encode, Piece.encode]

theorem resolveBackspaces_encode (ps : List Piece) (h : MarkerFree ps) :
    resolveBackspaces (encode ps) = .ok (encode (unbsR ps)) := by
  unfold resolveBackspaces cutAll
  rw [fwe_noEsc _ _ _ (not_mem_encode_ESC ps h)]
  have hl : ps.length < (encode ps).length + 1 := by
    have : ∀ qs : List Piece, MarkerFree qs → qs.length ≤ (encode qs).length := by
      intro qs
      induction qs with
      | nil => intro _; simp [encode]
      | cons q qs ih =>
        intro hq
        rw [markerFree_cons] at hq
        have := ih hq.2
        have hq1 : 1 ≤ q.encode.length := by
          cases q <;> simp [Piece.encode, replacementMarkers, replaceWithNothing, escapeSpecial] <;> split <;> simp
        simp [encode]; omega
    have := this ps h
    omega
  have := resolveBackspaces_loop ps [] ((encode ps).length + 1) h (by simp) (by simp) hl
  simpa using this

/-! ### Pass 2: the replacement-marker loops -/

theorem indexFrom_hit (t A Q R : Str) (n : Nat) (ht : t = A ++ (Q ++ AL :: R)) (hn : A.length = n) (hq : AL ∉ Q) :
    indexFrom AL t n = .ok (n + Q.length) := by
  subst ht
  rw [indexFrom, findFrom_hit AL A Q R n hn hq]

theorem slice_mid (t A Q R : Str) (i j : Nat) (ht : t = A ++ (Q ++ R)) (hi : A.length = i) (hj : i + Q.length = j) :
    slice t i j = Q := by
  subst ht hi hj
  unfold slice
  have : A ++ (Q ++ R) = (A ++ Q) ++ R := by simp
  rw [this, List.take_left' (by simp), List.drop_left' rfl]

theorem take_eq (t A R : Str) (i : Nat) (ht : t = A ++ R) (hi : A.length = i) : t.take i = A := by
  subst ht hi; exact List.take_left' rfl

theorem drop_eq (t A R : Str) (i : Nat) (ht : t = A ++ R) (hi : A.length = i) : t.drop i = R := by
  subst ht hi; exact List.drop_left' rfl

/-- one iteration on `P ++ \a a \a b \a rest` with a non-empty `b`. -/
theorem replStep_simple (r : Bool) (P a b rest : Str) (ha : AL ∉ a) (hb : AL ∉ b) (hne : b ≠ []) :
    replStep r (P ++ AL :: (a ++ AL :: (b ++ AL :: rest))) P.length
      = .ok (P ++ (if r then b else a) ++ rest, P.length + (if r then b else a).length) := by
  let t := P ++ AL :: (a ++ AL :: (b ++ AL :: rest))
  have hmid : indexFrom AL t (P.length + 1) = .ok (P.length + 1 + a.length) :=
    indexFrom_hit t (P ++ [AL]) a (b ++ AL :: rest) _ (by simp [t]) (by simp) ha
  have hen : indexFrom AL t (P.length + 1 + a.length + 1) = .ok (P.length + 1 + a.length + 1 + b.length) :=
    indexFrom_hit t (P ++ AL :: (a ++ [AL])) b rest _ (by simp [t]) (by simp; omega) hb
  have hbl : b.length ≠ 0 := by
    intro e; exact hne (List.length_eq_zero_iff.mp e)
  have hcond : ¬ (P.length + 1 + a.length + 1 = P.length + 1 + a.length + 1 + b.length) := by omega
  have hA : slice t (P.length + 1) (P.length + 1 + a.length) = a :=
    slice_mid t (P ++ [AL]) a (AL :: (b ++ AL :: rest)) _ _ (by simp [t]) (by simp) rfl
  have hB : slice t (P.length + 1 + a.length + 1) (P.length + 1 + a.length + 1 + b.length) = b :=
    slice_mid t (P ++ AL :: (a ++ [AL])) b (AL :: rest) _ _ (by simp [t]) (by simp; omega) rfl
  have hT : t.take P.length = P := take_eq t P _ _ rfl rfl
  have hD : t.drop (P.length + 1 + a.length + 1 + b.length + 1) = rest :=
    drop_eq t (P ++ AL :: (a ++ AL :: (b ++ [AL]))) rest _ (by simp [t]) (by simp; omega)
  show replStep r t P.length = _
  unfold replStep
  simp only [hmid, hen, bind, Except.bind, hcond, if_false, hA, hB, hT, hD, pure, Except.pure]

/-- one iteration on `P ++ \a a \a \a b \a c \a \a rest` (a nested marker). -/
theorem replStep_nested (r : Bool) (P a b c rest : Str) (ha : AL ∉ a) (hb : AL ∉ b) (hc : AL ∉ c) :
    replStep r (P ++ AL :: (a ++ AL :: AL :: (b ++ AL :: (c ++ AL :: AL :: rest)))) P.length
      = .ok (P ++ (if r then c else a) ++ rest, P.length + (if r then c else a).length) := by
  let t := P ++ AL :: (a ++ AL :: AL :: (b ++ AL :: (c ++ AL :: AL :: rest)))
  have hmid : indexFrom AL t (P.length + 1) = .ok (P.length + 1 + a.length) :=
    indexFrom_hit t (P ++ [AL]) a (AL :: (b ++ AL :: (c ++ AL :: AL :: rest))) _ (by simp [t]) (by simp) ha
  have hen : indexFrom AL t (P.length + 1 + a.length + 1) = .ok (P.length + 1 + a.length + 1 + 0) :=
    indexFrom_hit t (P ++ AL :: (a ++ [AL])) [] (b ++ AL :: (c ++ AL :: AL :: rest)) _ (by simp [t]) (by simp; omega) (by simp)
  have his : indexFrom AL t (P.length + 1 + a.length + 1 + 0 + 1) = .ok (P.length + 1 + a.length + 1 + 0 + 1 + b.length) :=
    indexFrom_hit t (P ++ AL :: (a ++ [AL, AL])) b (c ++ AL :: AL :: rest) _ (by simp [t]) (by simp; omega) hb
  have him : indexFrom AL t (P.length + 1 + a.length + 1 + 0 + 1 + b.length + 1)
      = .ok (P.length + 1 + a.length + 1 + 0 + 1 + b.length + 1 + c.length) :=
    indexFrom_hit t (P ++ AL :: (a ++ AL :: AL :: (b ++ [AL]))) c (AL :: rest) _ (by simp [t]) (by simp; omega) hc
  have hie : indexFrom AL t (P.length + 1 + a.length + 1 + 0 + 1 + b.length + 1 + c.length + 1)
      = .ok (P.length + 1 + a.length + 1 + 0 + 1 + b.length + 1 + c.length + 1 + 0) :=
    indexFrom_hit t (P ++ AL :: (a ++ AL :: AL :: (b ++ AL :: (c ++ [AL])))) [] rest _ (by simp [t]) (by simp; omega) (by simp)
  have hA : slice t (P.length + 1) (P.length + 1 + a.length) = a :=
    slice_mid t (P ++ [AL]) a (AL :: AL :: (b ++ AL :: (c ++ AL :: AL :: rest))) _ _ (by simp [t]) (by simp) rfl
  have hC : slice t (P.length + 1 + a.length + 1 + 0 + 1 + b.length + 1)
      (P.length + 1 + a.length + 1 + 0 + 1 + b.length + 1 + c.length) = c :=
    slice_mid t (P ++ AL :: (a ++ AL :: AL :: (b ++ [AL]))) c (AL :: AL :: rest) _ _ (by simp [t]) (by simp; omega) rfl
  have hT : t.take P.length = P := take_eq t P _ _ rfl rfl
  have hD : t.drop (P.length + 1 + a.length + 1 + 0 + 1 + b.length + 1 + c.length + 1 + 0 + 1) = rest :=
    drop_eq t (P ++ AL :: (a ++ AL :: AL :: (b ++ AL :: (c ++ [AL, AL])))) rest _ (by simp [t]) (by simp; omega)
  show replStep r t P.length = _
  unfold replStep
  simp only [hmid, hen, his, him, hie, bind, Except.bind, Nat.add_zero, if_true, hA, hC, hT, hD, pure, Except.pure]

/-- what one replacement-marker pass leaves of a piece (`r = false`: the original text,
`r = true`: the replacement; "replaced with nothing" leaves its `\x03` for the next pass). -/
def pieceOut (r : Bool) : Piece → Str
  | .lit c => [c]
  | .replaced a b => if r then b else a
  | .removed a => if r then [NOOP] else a
  | .nested a _ c => if r then c else a
  | .bsEscaped c => [c]
  | .bsReplaced c _ => [c]

def outOf (r : Bool) : List Piece → Str
  | [] => []
  | p :: ps => pieceOut r p ++ outOf r ps

theorem not_mem_pieceOut (r : Bool) (p : Piece) (h : p.markerFree = true) (hn : p.noBs = true) {x : Char}
    (hx : isSpecial x = true) (hx3 : x ≠ NOOP) : x ∉ pieceOut r p := by
  cases p with
  | lit c =>
    simp [Piece.markerFree] at h
    simp [pieceOut]; exact (ne_of_not_special h hx).symm
  | bsEscaped c => simp [Piece.noBs] at hn
  | bsReplaced c dst => simp [Piece.noBs] at hn
  | replaced a b =>
    simp [Piece.markerFree] at h
    cases r <;> simp [pieceOut]
    · exact plain_not_mem h.1.1 hx
    · exact plain_not_mem h.1.2 hx
  | removed a =>
    simp [Piece.markerFree] at h
    cases r <;> simp [pieceOut]
    · exact plain_not_mem h hx
    · exact hx3
  | nested a b c =>
    simp [Piece.markerFree] at h
    cases r <;> simp [pieceOut]
    · exact plain_not_mem h.1.1 hx
    · exact plain_not_mem h.2 hx

theorem AL_ne_NOOP : AL ≠ NOOP := by decide
theorem ESC_ne_NOOP : ESC ≠ NOOP := by decide

theorem not_mem_outOf (r : Bool) {x : Char} (hx : isSpecial x = true) (hx3 : x ≠ NOOP) :
    ∀ (ps : List Piece), MarkerFree ps → NoBs ps → x ∉ outOf r ps
  | [], _, _ => by simp [outOf]
  | p :: ps, hm, hn => by
    rw [markerFree_cons] at hm
    rw [noBs_cons] at hn
    simp only [outOf]
    exact not_mem_append (not_mem_pieceOut r p hm.1 hn.1 hx hx3) (not_mem_outOf r hx hx3 ps hm.2 hn.2)

theorem replLoop_encode (r : Bool) : ∀ (ps : List Piece) (P : Str) (fuel : Nat), MarkerFree ps → NoBs ps →
    AL ∉ P → ESC ∉ P → ps.length < fuel →
    replLoop r fuel (P ++ encode ps) (findFrom AL (P ++ encode ps) P.length) = .ok (P ++ outOf r ps)
  | [], P, fuel, _, _, _, _, _ => by
    rw [encode, findFrom_miss AL P [] P.length rfl (by simp)]
    cases fuel <;> simp [replLoop, outOf]
  | p :: ps, P, fuel, hm, hn, ha, he, hf => by
    rw [markerFree_cons] at hm
    rw [noBs_cons] at hn
    have hEps := not_mem_encode_ESC ps hm.2
    have haO := not_mem_pieceOut r p hm.1 hn.1 special_AL AL_ne_NOOP
    have heO := not_mem_pieceOut r p hm.1 hn.1 special_ESC ESC_ne_NOOP
    -- the common tail of the three marker shapes: after the step the loop continues behind `pieceOut r p`
    have tail : ∀ (fuel' : Nat), ps.length < fuel' →
        replLoop r fuel' (P ++ pieceOut r p ++ encode ps)
          (findWithEscape (P ++ pieceOut r p ++ encode ps) AL (P.length + (pieceOut r p).length))
          = .ok (P ++ outOf r (p :: ps)) := by
      intro fuel' hf'
      have he' : ESC ∉ P ++ pieceOut r p ++ encode ps := not_mem_append (not_mem_append he heO) hEps
      rw [fwe_noEsc _ _ _ he']
      have e2 : P.length + (pieceOut r p).length = (P ++ pieceOut r p).length := by simp
      rw [e2, replLoop_encode r ps (P ++ pieceOut r p) fuel' hm.2 hn.2 (not_mem_append ha haO) (not_mem_append he heO) hf']
      simp [outOf]
    cases p with
    | bsEscaped c => simp [Piece.noBs] at hn
    | bsReplaced c dst => simp [Piece.noBs] at hn
    | lit c =>
      have hc : isSpecial c = false := by simpa [Piece.markerFree] using hm.1
      have hcA : AL ∉ [c] := by simp; exact fun e => ne_of_not_special hc special_AL e.symm
      have hcE : ESC ∉ [c] := by simp; exact fun e => ne_of_not_special hc special_ESC e.symm
      have e0 : P ++ encode (Piece.lit c :: ps) = P ++ ([c] ++ encode ps) := by
        simp [encode, Piece.encode, escapeSpecial_single hc]
      rw [e0, findFrom_skip AL P [c] (encode ps) hcA]
      have e1 : P ++ ([c] ++ encode ps) = (P ++ [c]) ++ encode ps := by simp
      rw [e1, replLoop_encode r ps (P ++ [c]) fuel hm.2 hn.2 (not_mem_append ha hcA) (not_mem_append he hcE)
        (by simp at hf; omega)]
      simp [outOf, pieceOut]
    | replaced a b =>
      have hp := hm.1
      simp only [Piece.markerFree, Bool.and_eq_true, Bool.not_eq_true'] at hp
      have haA := plain_not_mem hp.1.1 special_AL
      have hbA := plain_not_mem hp.1.2 special_AL
      have hbne : b ≠ [] := by intro e; rw [e] at hp; simp at hp
      have e0 : P ++ encode (Piece.replaced a b :: ps) = P ++ AL :: (a ++ AL :: (b ++ AL :: encode ps)) := by
        simp [encode, Piece.encode, replacementMarkers]
      have hit := findFrom_hit AL P [] (a ++ AL :: (b ++ AL :: encode ps)) P.length rfl (by simp)
      simp only [List.nil_append, List.length_nil, Nat.add_zero] at hit
      rw [e0, hit]
      match fuel, hf with
      | fuel + 1, hf =>
        rw [replLoop, replStep_simple r P a b (encode ps) haA hbA hbne]
        have := tail fuel (by simp at hf; omega)
        simpa [pieceOut] using this
    | removed a =>
      have hp := hm.1
      simp only [Piece.markerFree] at hp
      have haA := plain_not_mem hp special_AL
      have e0 : P ++ encode (Piece.removed a :: ps) = P ++ AL :: (a ++ AL :: ([NOOP] ++ AL :: encode ps)) := by
        simp [encode, Piece.encode, replaceWithNothing]
      have hit := findFrom_hit AL P [] (a ++ AL :: ([NOOP] ++ AL :: encode ps)) P.length rfl (by simp)
      simp only [List.nil_append, List.length_nil, Nat.add_zero] at hit
      rw [e0, hit]
      match fuel, hf with
      | fuel + 1, hf =>
        rw [replLoop, replStep_simple r P a [NOOP] (encode ps) haA (by decide) (by simp)]
        have := tail fuel (by simp at hf; omega)
        simpa [pieceOut] using this
    | nested a b c =>
      have hp := hm.1
      simp only [Piece.markerFree, Bool.and_eq_true] at hp
      have haA := plain_not_mem hp.1.1 special_AL
      have hbA := plain_not_mem hp.1.2 special_AL
      have hcA := plain_not_mem hp.2 special_AL
      have e0 : P ++ encode (Piece.nested a b c :: ps)
          = P ++ AL :: (a ++ AL :: AL :: (b ++ AL :: (c ++ AL :: AL :: encode ps))) := by
        simp [encode, Piece.encode, replacementMarkers]
      have hit := findFrom_hit AL P [] (a ++ AL :: AL :: (b ++ AL :: (c ++ AL :: AL :: encode ps))) P.length rfl (by simp)
      simp only [List.nil_append, List.length_nil, Nat.add_zero] at hit
      rw [e0, hit]
      match fuel, hf with
      | fuel + 1, hf =>
        rw [replLoop, replStep_nested r P a b c (encode ps) haA hbA hcA]
        have := tail fuel (by simp at hf; omega)
        simpa [pieceOut] using this

theorem length_le_encode : ∀ (qs : List Piece), MarkerFree qs → qs.length ≤ (encode qs).length
  | [], _ => by simp
  | q :: qs, hq => by
    rw [markerFree_cons] at hq
    have := length_le_encode qs hq.2
    have hq1 : 1 ≤ q.encode.length := by
      cases q <;> simp [Piece.encode, replacementMarkers, replaceWithNothing, escapeSpecial] <;> split <;> simp
    simp [encode]; omega

theorem replAll_encode (r : Bool) (ps : List Piece) (hm : MarkerFree ps) (hn : NoBs ps) :
    replAll r (encode ps) = .ok (outOf r ps) := by
  unfold replAll
  rw [fwe_noEsc _ _ _ (not_mem_encode_ESC ps hm)]
  have := replLoop_encode r ps [] ((encode ps).length + 1) hm hn (by simp) (by simp)
    (by have := length_le_encode ps hm; omega)
  simpa using this

theorem outOf_false : ∀ (ps : List Piece), NoBs ps → outOf false ps = sourceOf ps
  | [], _ => rfl
  | p :: ps, hn => by
    rw [noBs_cons] at hn
    cases p <;> simp_all [outOf, sourceOf, pieceOut, Piece.source, outOf_false ps, Piece.noBs]

theorem filter_NOOP_outOf : ∀ (ps : List Piece), MarkerFree ps → NoBs ps →
    (outOf true ps).filter (· != NOOP) = renderedOf ps
  | [], _, _ => rfl
  | p :: ps, hm, hn => by
    rw [markerFree_cons] at hm
    rw [noBs_cons] at hn
    have ih := filter_NOOP_outOf ps hm.2 hn.2
    simp only [outOf, renderedOf, List.filter_append, ih]
    congr 1
    have h3 := special_NOOP
    cases p with
    | bsEscaped c => simp [Piece.noBs] at hn
    | bsReplaced c dst => simp [Piece.noBs] at hn
    | lit c =>
      have hc : isSpecial c = false := by simpa [Piece.markerFree] using hm.1
      exact filter_ne_of_not_mem (by simp [pieceOut]; exact fun e => ne_of_not_special hc h3 e.symm)
    | replaced a b =>
      have hp := hm.1
      simp only [Piece.markerFree, Bool.and_eq_true] at hp
      exact filter_ne_of_not_mem (plain_not_mem hp.1.2 h3)
    | removed a => simp [pieceOut, Piece.rendered]
    | nested a b c =>
      have hp := hm.1
      simp only [Piece.markerFree, Bool.and_eq_true] at hp
      exact filter_ne_of_not_mem (plain_not_mem hp.2 h3)

/-! ### Escaped text (`escape_special_characters`) -/

/-- in `escapeSpecial s` every marker character other than U+0005 stands directly after a U+0005. -/
theorem escapeSpecial_guarded (c : Char) (hc : isSpecial c = true) (hne : c ≠ ESC) : ∀ (s : Str) (i : Nat),
    (escapeSpecial s)[i]? = some c → 0 < i ∧ (escapeSpecial s)[i - 1]? = some ESC
  | [], i, h => by simp [escapeSpecial] at h
  | x :: s, i, h => by
    by_cases hx : isSpecial x = true
    · rw [escapeSpecial, if_pos hx] at h ⊢
      match i, h with
      | 0, h => simp at h; exact absurd h.symm hne
      | 1, h => simp
      | j + 2, h =>
        simp at h
        have := escapeSpecial_guarded c hc hne s j h
        refine ⟨by omega, ?_⟩
        obtain ⟨hj, hp⟩ := this
        have : j + 2 - 1 = (j - 1) + 2 := by omega
        rw [this]; simpa using hp
    · have hx' : isSpecial x = false := by simpa using hx
      rw [escapeSpecial, if_neg hx] at h ⊢
      match i, h with
      | 0, h => simp at h; subst h; rw [hx'] at hc; cases hc
      | j + 1, h =>
        simp at h
        have := escapeSpecial_guarded c hc hne s j h
        refine ⟨by omega, ?_⟩
        obtain ⟨hj, hp⟩ := this
        have : j + 1 - 1 = (j - 1) + 1 := by omega
        rw [this]; simpa using hp

theorem fweLoop_none (s : Str) (c : Char)
    (hg : ∀ i, s[i]? = some c → 0 < i ∧ s[i - 1]? = some ESC) : ∀ (fuel st : Nat), fweLoop s c fuel st = none
  | 0, _ => rfl
  | fuel + 1, st => by
    rw [fweLoop]
    split
    · cases hf : findFrom c s st with
      | none => rfl
      | some i =>
        have := findFrom_some_lt c s st i hf
        have hgi := hg i this.2.2
        simp only
        rw [if_pos hgi]
        exact fweLoop_none s c hg fuel (i + 1)
    · rfl

theorem cutAll_guarded (c : Char) (back : Bool) (adv : Nat) (s : Str)
    (hg : ∀ i, s[i]? = some c → 0 < i ∧ s[i - 1]? = some ESC) : cutAll c back adv s = .ok s := by
  unfold cutAll findWithEscape
  rw [fweLoop_none s c hg]
  simp [cutLoop]

theorem replAll_guarded (r : Bool) (s : Str)
    (hg : ∀ i, s[i]? = some AL → 0 < i ∧ s[i - 1]? = some ESC) : replAll r s = .ok s := by
  unfold replAll findWithEscape
  rw [fweLoop_none s AL hg]
  simp [replLoop]

theorem fwe_skip1 (P R : Str) (x c : Char) (hx : x ≠ c) :
    findWithEscape (P ++ x :: R) c P.length = findWithEscape (P ++ x :: R) c (P.length + 1) := by
  have hskip := findFrom_skip c P [x] R (by simp; exact fun e => hx e.symm)
  have e1 : (P ++ [x]) ++ R = P ++ x :: R := by simp
  simp only [List.singleton_append, e1] at hskip
  have e2 : (P ++ [x]).length = P.length + 1 := by simp
  rw [e2] at hskip
  unfold findWithEscape
  rw [fweLoop, fweLoop]
  have hlt : P.length < (P ++ x :: R).length := by simp
  rw [if_pos hlt, hskip]
  by_cases h2 : P.length + 1 < (P ++ x :: R).length
  · rw [if_pos h2]
  · rw [if_neg h2, findFrom_ge_length c _ _ (by omega)]

theorem fwe_hit (P R : Str) (c : Char) (hl : P.getLast? ≠ some ESC) :
    findWithEscape (P ++ c :: R) c P.length = some P.length := by
  have hit := findFrom_hit c P [] R P.length rfl (by simp)
  simp only [List.nil_append, List.length_nil, Nat.add_zero] at hit
  unfold findWithEscape
  rw [fweLoop]
  have hlt : P.length < (P ++ c :: R).length := by simp
  rw [if_pos hlt, hit]
  simp only
  rw [if_neg]
  intro ⟨hpos, hp⟩
  apply hl
  rw [List.getLast?_eq_getElem?]
  have : (P ++ c :: R)[P.length - 1]? = P[P.length - 1]? := List.getElem?_append_left (by omega)
  rw [← this]; exact hp

theorem fwe_end (P : Str) (c : Char) : findWithEscape P c P.length = none := by
  unfold findWithEscape
  rw [fweLoop, if_neg (by omega)]

theorem cutAt_false (P R : Str) (x : Char) : cutAt false (P ++ x :: R) P.length = P ++ R := by
  simp [cutAt]

theorem resolveEscapes_loop : ∀ (s P : Str) (fuel : Nat), escOK s = true →
    (P.getLast? = some ESC → ∀ x ∈ s.head?, isSpecial x = false) → s.length < fuel →
    cutLoop ESC false 1 fuel (P ++ escapeSpecial s) (findWithEscape (P ++ escapeSpecial s) ESC P.length) = .ok (P ++ s)
  | [], P, fuel, _, _, _ => by
    simp only [escapeSpecial, List.append_nil]
    rw [fwe_end]
    cases fuel <;> simp [cutLoop]
  | x :: s, P, fuel, hok, hl, hf => by
    have hok' : escOK s = true := by
      cases s with
      | nil => rfl
      | cons y r => simp [escOK] at hok; exact hok.2
    by_cases hx : isSpecial x = true
    · rw [escapeSpecial, if_pos hx]
      have hlast : P.getLast? ≠ some ESC := by
        intro e
        have := hl e x (by simp)
        rw [hx] at this; cases this
      rw [fwe_hit P _ ESC hlast]
      match fuel, hf with
      | fuel + 1, hf =>
        rw [cutLoop, cutAt_false]
        have e1 : P ++ x :: escapeSpecial s = (P ++ [x]) ++ escapeSpecial s := by simp
        have e2 : P.length + 1 = (P ++ [x]).length := by simp
        rw [e1, e2, resolveEscapes_loop s (P ++ [x]) fuel hok' ?_ (by simp at hf; omega)]
        · simp
        · intro hlx y hy
          simp at hlx
          cases s with
          | nil => simp at hy
          | cons z r =>
            simp at hy; subst hy
            simp [escOK, hlx] at hok
            exact hok.1
    · have hx' : isSpecial x = false := by simpa using hx
      rw [escapeSpecial, if_neg hx]
      have hne : x ≠ ESC := ne_of_not_special hx' special_ESC
      rw [fwe_skip1 P _ x ESC hne]
      have e1 : P ++ x :: escapeSpecial s = (P ++ [x]) ++ escapeSpecial s := by simp
      have e2 : P.length + 1 = (P ++ [x]).length := by simp
      rw [e1, e2, resolveEscapes_loop s (P ++ [x]) fuel hok' ?_ (by simp at hf; omega)]
      · simp
      · intro hlx
        simp at hlx
        exact absurd hlx hne

theorem length_le_escapeSpecial : ∀ (s : Str), s.length ≤ (escapeSpecial s).length
  | [] => by simp [escapeSpecial]
  | x :: s => by
    have := length_le_escapeSpecial s
    rw [escapeSpecial]; split <;> simp <;> omega

theorem resolveEscapes_escapeSpecial (s : Str) (h : escOK s = true) : resolveEscapes (escapeSpecial s) = .ok s := by
  unfold resolveEscapes cutAll
  have := resolveEscapes_loop s [] ((escapeSpecial s).length + 1) h (by simp)
    (by have := length_le_escapeSpecial s; omega)
  simpa using this

end Verif.Lemmas.Codec
