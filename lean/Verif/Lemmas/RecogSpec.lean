/-
  Lemmas for the CommonMark specifications of the line recognisers: leading whitespace, indentation ≤ 3,
  list views of the scans.
-/
import Verif.Lemmas.Recognisers
namespace Verif.Model.Recognisers

/-! ## leading whitespace -/

theorem wsContains_eq : [SP, TAB].contains = isWsChar := funext isWsChar_eq

theorem take_takeWhile_length {α : Type} (p : α → Bool) (l : List α) :
    l.take (l.takeWhile p).length = l.takeWhile p :=
  (List.prefix_iff_eq_take.mp (List.takeWhile_prefix p)).symm

theorem drop_takeWhile_length {α : Type} (p : α → Bool) (l : List α) :
    l.drop (l.takeWhile p).length = l.dropWhile p := by
  induction l with
  | nil => rfl
  | cons a l ih =>
    rw [List.takeWhile_cons, List.dropWhile_cons]
    split
    · simpa using ih
    · rfl

theorem leadWs_eq (line : Str) : leadWs line = ((line.takeWhile isWsChar).length, line.takeWhile isWsChar) := by
  unfold leadWs
  simp only [scanOneOf_eq, wsContains_eq, List.drop_zero, Nat.zero_add, slice, List.drop_zero]
  rw [take_takeWhile_length]

theorem takeWhile_replicate_cons {p : Char → Bool} {a c : Char} (k : Nat) (rest : Str) (ha : p a = true) (hc : p c = false) :
    (List.replicate k a ++ c :: rest).takeWhile p = List.replicate k a := by
  induction k with
  | zero => simp [List.takeWhile_cons, hc]
  | succ k ih => simp [List.replicate_succ, List.takeWhile_cons, ha, ih]

theorem takeWhile_replicate_nil {p : Char → Bool} {a : Char} (k : Nat) (ha : p a = true) :
    (List.replicate k a).takeWhile p = List.replicate k a := by
  induction k with
  | zero => rfl
  | succ k ih => simp [List.replicate_succ, List.takeWhile_cons, ha, ih]

/-! ## indentation of at most three columns -/

theorem tabStep_gt (n : Nat) (c : Char) : n + 1 ≤ tabStep n c := by
  unfold tabStep; split <;> omega

theorem foldl_tabStep_ge (w : Str) (n : Nat) : n + w.length ≤ w.foldl tabStep n := by
  induction w generalizing n with
  | nil => simp
  | cons c cs ih =>
    simp only [List.foldl_cons, List.length_cons]
    have := ih (tabStep n c)
    have := tabStep_gt n c
    omega

theorem foldl_tabStep_tab (w : Str) (n : Nat) (h : TAB ∈ w) : 4 ≤ w.foldl tabStep n := by
  induction w generalizing n with
  | nil => cases h
  | cons c cs ih =>
    simp only [List.foldl_cons]
    by_cases hc : c = TAB
    · subst hc
      have := foldl_tabStep_ge cs (tabStep n TAB)
      have h4 : 4 ≤ tabStep n TAB := by simp [tabStep]; omega
      omega
    · apply ih
      cases h with
      | head => exact absurd rfl hc
      | tail _ h => exact h

theorem foldl_tabStep_spaces (k n : Nat) : (List.replicate k SP).foldl tabStep n = n + k := by
  induction k generalizing n with
  | zero => rfl
  | succ k ih =>
    simp only [List.replicate_succ, List.foldl_cons]
    rw [ih]
    have : tabStep n SP = n + 1 := by simp [tabStep, SP, TAB]
    omega

/-- For a run of spaces and tabs, "`calculate_length ≤ 3`" says: at most three characters, all of them spaces. -/
theorem lenLe_iff_spaces (w : Str) (hw : ∀ x ∈ w, isWsChar x = true) :
    lenLe w 3 = true ↔ ∃ k, k ≤ 3 ∧ w = List.replicate k SP := by
  unfold lenLe calcLength
  simp only [Nat.sub_zero, decide_eq_true_eq]
  constructor
  · intro h
    have hnt : TAB ∉ w := fun ht => by have := foldl_tabStep_tab w 0 ht; omega
    have hlen := foldl_tabStep_ge w 0
    refine ⟨w.length, by omega, ?_⟩
    apply List.eq_replicate_iff.mpr
    refine ⟨rfl, ?_⟩
    intro x hx
    have := hw x hx
    simp only [isWsChar, Bool.or_eq_true, beq_iff_eq] at this
    cases this with
    | inl h => exact h
    | inr h => subst h; exact absurd hx hnt
  · rintro ⟨k, hk, rfl⟩
    rw [foldl_tabStep_spaces]; omega

theorem takeWhile_all {α : Type} (p : α → Bool) (l : List α) : ∀ x ∈ l.takeWhile p, p x = true := by
  induction l with
  | nil => intro x hx; cases hx
  | cons a l ih =>
    intro x hx
    rw [List.takeWhile_cons] at hx
    split at hx
    · next ha =>
      cases hx with
      | head => exact ha
      | tail _ h => exact ih x h
    · cases hx

/-- the leading whitespace satisfies the indentation test iff it is `k ≤ 3` spaces -/
theorem lenLe_leadWs (line : Str) :
    lenLe (line.takeWhile isWsChar) 3 = true ↔ ∃ k, k ≤ 3 ∧ line.takeWhile isWsChar = List.replicate k SP :=
  lenLe_iff_spaces _ (takeWhile_all _ _)

/-- decomposition of a line at its first non-blank character -/
theorem line_decomp (line : Str) :
    line = line.takeWhile isWsChar ++ line.drop (line.takeWhile isWsChar).length := by
  rw [drop_takeWhile_length]; exact List.takeWhile_append_dropWhile.symm

theorem head_dropWhile_not {p : Char → Bool} {l : Str} {c : Char} {rest : Str}
    (h : l.dropWhile p = c :: rest) : p c = false := by
  induction l with
  | nil => cases h
  | cons a l ih =>
    rw [List.dropWhile_cons] at h
    split at h
    · exact ih h
    · next ha => injection h with h1 h2; subst h1; simpa using ha

/-! ## list views -/

theorem scanTo_zero (s : Str) (p : Char → Bool) : scanTo s p 0 = (s.takeWhile p).length := by
  simp [scanTo]

theorem scanTo_drop (s : Str) (p : Char → Bool) (i : Nat) : scanTo s p i = i + scanTo (s.drop i) p 0 := by
  simp [scanTo]

theorem takeWhile_replicate_append {p : Char → Bool} {c : Char} (n : Nat) (rest : Str) (hc : p c = true)
    (hr : ∀ d r, rest = d :: r → p d = false) :
    ((List.replicate n c ++ rest).takeWhile p).length = n := by
  induction n with
  | zero =>
    cases rest with
    | nil => rfl
    | cons d r => simp [List.takeWhile_cons, hr d r rfl]
  | succ n ih =>
    rw [List.replicate_succ, List.cons_append, List.takeWhile_cons, if_pos hc, List.length_cons, ih]

/-- a list is its maximal `p`-prefix (a run of one character when `p = (· == c)`) followed by a rest not starting with `p` -/
theorem run_decomp (l : Str) (c : Char) :
    ∃ rest, l = List.replicate (l.takeWhile (· == c)).length c ++ rest ∧ (∀ d r, rest = d :: r → (d == c) = false) := by
  refine ⟨l.dropWhile (· == c), ?_, ?_⟩
  · have h1 : l.takeWhile (· == c) = List.replicate (l.takeWhile (· == c)).length c := by
      apply List.eq_replicate_iff.mpr
      refine ⟨rfl, ?_⟩
      intro x hx
      have := takeWhile_all (· == c) l x hx
      simpa using this
    conv => lhs; rw [← List.takeWhile_append_dropWhile (p := (· == c)) (l := l)]
    rw [← h1]
  · intro d r h
    exact head_dropWhile_not (p := (· == c)) h

/-! ## from indices to the text after the index -/

theorem isCharAt_head (s : Str) (i : Nat) (c : Char) : isCharAt s i c = ((s.drop i).head? == some c) := by
  unfold isCharAt
  rw [List.head?_drop]
  cases s[i]? <;> simp

theorem isCharAtOneOf_head (s : Str) (i : Nat) (cs : Str) :
    isCharAtOneOf s i cs = match (s.drop i).head? with | some d => cs.contains d | none => false := by
  unfold isCharAtOneOf
  rw [List.head?_drop]
  cases s[i]? <;> rfl

theorem drop_scanTo (s : Str) (p : Char → Bool) (i : Nat) : s.drop (scanTo s p i) = (s.drop i).dropWhile p := by
  unfold scanTo
  rw [← List.drop_drop, drop_takeWhile_length]

theorem slice_scanTo (s : Str) (p : Char → Bool) (i : Nat) : slice s i (scanTo s p i) = (s.drop i).takeWhile p := by
  unfold slice scanTo
  rw [List.drop_take]
  simp only [Nat.add_sub_cancel_left]
  exact take_takeWhile_length p _

theorem scanTo_eq_len (s : Str) (p : Char → Bool) (i : Nat) (h : i ≤ s.length) :
    (scanTo s p i == s.length) = (((s.drop i).takeWhile p).length == (s.drop i).length) := by
  unfold scanTo
  simp only [List.length_drop]
  rw [Bool.eq_iff_iff]; simp; omega


/-- `is_atx_heading` evaluated on the text from the index on (`d = line.drop i`). -/
theorem isAtxHeading_eval (line : Str) (i : Nat) (w : Str) (skip : Bool) (hi : i ≤ line.length) :
    isAtxHeading line i w skip = .ok (
      if (lenLe w 3 || skip) && ((line.drop i).head? == some '#') then
        let d := line.drop i
        let n := (d.takeWhile (· == '#')).length
        let rest := d.dropWhile (· == '#')
        let t := rest.takeWhile [SP, TAB].contains
        if n ≤ 6 && (!t.isEmpty || t.length == rest.length) then some (i + n + t.length, n, t) else none
      else none) := by
  unfold isAtxHeading
  rw [isCharAt_head]
  split
  · rw [collectWhileCharVerified_eq _ _ _ hi]
    simp only
    unfold collectWhileSpaces
    rw [collectWhileOneOf_eq]
    have hJ := scanTo_le line (· == '#') i hi
    simp only [hJ, ↓reduceIte]
    rw [slice_scanTo, drop_scanTo, scanTo_eq_len _ _ _ hJ, drop_scanTo]
    have e1 : scanTo line (fun x => x == '#') i - i = (List.takeWhile (fun x => x == '#') (List.drop i line)).length := by
      simp [scanTo]
    have e2 : scanTo line [SP, TAB].contains (scanTo line (fun x => x == '#') i)
        = i + (List.takeWhile (fun x => x == '#') (List.drop i line)).length +
          (List.takeWhile [SP, TAB].contains (List.dropWhile (fun x => x == '#') (List.drop i line))).length := by
      rw [scanTo_drop line _ (scanTo _ _ _), drop_scanTo, scanTo_zero]
      simp [scanTo]
    rw [e1, e2]
    split <;> rfl
  · rfl


theorem dropWhile_replicate_append {p : Char → Bool} {c : Char} (n : Nat) (rest : Str) (hc : p c = true)
    (hr : ∀ d r, rest = d :: r → p d = false) :
    (List.replicate n c ++ rest).dropWhile p = rest := by
  induction n with
  | zero =>
    cases rest with
    | nil => rfl
    | cons d r => simp [List.dropWhile_cons, hr d r rfl]
  | succ n ih =>
    rw [List.replicate_succ, List.cons_append, List.dropWhile_cons, if_pos hc, ih]

/-- the general shape of the four leaf-block specifications: "up to three spaces of indentation, then `P`" -/
theorem lead_decomp_iff (line : Str) (P : Str → Prop)
    (hP : ∀ d, P d → ∃ c r, d = c :: r ∧ isWsChar c = false) :
    (lenLe (line.takeWhile isWsChar) 3 = true ∧ P (line.drop (line.takeWhile isWsChar).length)) ↔
      ∃ k d, k ≤ 3 ∧ line = List.replicate k SP ++ d ∧ P d := by
  constructor
  · rintro ⟨hl, hp⟩
    obtain ⟨k, hk, hw⟩ := (lenLe_leadWs line).mp hl
    refine ⟨k, _, hk, ?_, hp⟩
    conv => lhs; rw [line_decomp line]
    rw [hw]
  · rintro ⟨k, d, hk, hline, hp⟩
    obtain ⟨c, r, hd, hc⟩ := hP d hp
    have hsp : isWsChar SP = true := by decide
    have hw : line.takeWhile isWsChar = List.replicate k SP := by
      rw [hline, hd]; exact takeWhile_replicate_cons k r hsp hc
    refine ⟨(lenLe_leadWs line).mpr ⟨k, hk, hw⟩, ?_⟩
    rw [hw, hline]
    simpa using hp

/-! ## ATX heading start -/

/-- strengthened run decomposition -/
theorem run_decomp' (l : Str) (c : Char) :
    l = List.replicate (l.takeWhile (· == c)).length c ++ l.dropWhile (· == c) ∧
      (∀ d r, l.dropWhile (· == c) = d :: r → (d == c) = false) := by
  constructor
  · have h1 : l.takeWhile (· == c) = List.replicate (l.takeWhile (· == c)).length c := by
      apply List.eq_replicate_iff.mpr
      refine ⟨rfl, ?_⟩
      intro x hx
      have := takeWhile_all (· == c) l x hx
      simpa using this
    conv => lhs; rw [← List.takeWhile_append_dropWhile (p := (· == c)) (l := l)]
    rw [← h1]
  · intro d r h
    exact head_dropWhile_not (p := (· == c)) h

/-- the ATX opening sequence on the text after the indentation -/
def AtxBody (d : Str) : Prop :=
  ∃ (n : Nat) (rest : Str), 1 ≤ n ∧ n ≤ 6 ∧ d = List.replicate n '#' ++ rest ∧
    (rest = [] ∨ ∃ c r, rest = c :: r ∧ (c = ' ' ∨ c = '\t'))

def atxBodyB (d : Str) : Bool :=
  (d.head? == some '#') &&
    (decide ((d.takeWhile (· == '#')).length ≤ 6) &&
      (!((d.dropWhile (· == '#')).takeWhile [SP, TAB].contains).isEmpty ||
        ((d.dropWhile (· == '#')).takeWhile [SP, TAB].contains).length == (d.dropWhile (· == '#')).length))

theorem atxBodyB_iff (d : Str) : atxBodyB d = true ↔ AtxBody d := by
  unfold atxBodyB AtxBody
  constructor
  · intro h
    simp only [Bool.and_eq_true, Bool.or_eq_true, decide_eq_true_eq, beq_iff_eq] at h
    obtain ⟨hh, hn, ht⟩ := h
    obtain ⟨hd, hrest⟩ := run_decomp' d '#'
    refine ⟨_, _, ?_, hn, hd, ?_⟩
    · cases d with
      | nil => cases hh
      | cons a as =>
        simp only [List.head?_cons, Option.some.injEq] at hh
        subst hh
        simp [List.takeWhile_cons]
    · cases hr : d.dropWhile (· == '#') with
      | nil => exact Or.inl rfl
      | cons c r =>
        right
        refine ⟨c, r, rfl, ?_⟩
        rw [hr] at ht
        rw [List.takeWhile_cons] at ht
        by_cases hc : [SP, TAB].contains c = true
        · rw [isWsChar_eq] at hc
          simpa [isWsChar, SP, TAB] using hc
        · rw [if_neg hc] at ht
          simp at ht
  · rintro ⟨n, rest, h1, h6, hd, hrest⟩
    have hr : ∀ (c : Char) (r : Str), rest = c :: r → (c == '#') = false := by
      intro c r hcr
      cases hrest with
      | inl h => rw [h] at hcr; cases hcr
      | inr h =>
        obtain ⟨c', r', he, hc⟩ := h
        rw [he] at hcr; injection hcr with h1 h2; subst h1
        cases hc with
        | inl h => subst h; decide
        | inr h => subst h; decide
    have htl := takeWhile_replicate_append (p := (· == '#')) (c := '#') n rest (by decide) hr
    have hdl := dropWhile_replicate_append (p := (· == '#')) (c := '#') n rest (by decide) hr
    rw [← hd] at htl hdl
    simp only [Bool.and_eq_true, Bool.or_eq_true, decide_eq_true_eq, beq_iff_eq]
    refine ⟨?_, by omega, ?_⟩
    · rw [hd]; cases n with
      | zero => omega
      | succ n => simp [List.replicate_succ]
    · rw [hdl]
      cases hrest with
      | inl h => subst h; right; rfl
      | inr h =>
        obtain ⟨c, r, he, hc⟩ := h
        subst he
        left
        have : [SP, TAB].contains c = true := by
          cases hc with
          | inl h => subst h; decide
          | inr h => subst h; decide
        rw [List.takeWhile_cons, if_pos this]; rfl


theorem isSome_ite_ite {α : Type} (c1 c2 : Bool) (x : α) :
    (if c1 = true then (if c2 = true then some x else none) else none).isSome = (c1 && c2) := by
  cases c1 <;> cases c2 <;> rfl

/-- CommonMark 4.2: up to three spaces of indentation, an opening sequence of 1–6 `#`, then a space, a tab or the end
of the line. -/
def SpecAtx (line : Str) : Prop := ∃ k d, k ≤ 3 ∧ line = List.replicate k SP ++ d ∧ AtxBody d

theorem AtxBody_head {d : Str} (h : AtxBody d) : ∃ c r, d = c :: r ∧ isWsChar c = false := by
  obtain ⟨n, rest, h1, -, hd, -⟩ := h
  cases n with
  | zero => omega
  | succ n => exact ⟨'#', _, by rw [hd, List.replicate_succ]; rfl, by decide⟩

theorem lineAtx_spec (line : Str) : lineAtx line = .ok true ↔ SpecAtx line := by
  unfold lineAtx SpecAtx
  rw [leadWs_eq]
  simp only
  rw [isAtxHeading_eval _ _ _ _ (takeWhile_length_le _ _)]
  rw [← lead_decomp_iff line AtxBody (fun d => AtxBody_head)]
  simp only [Except.map, Bool.or_false]
  rw [← atxBodyB_iff]
  generalize hd : List.drop (List.takeWhile isWsChar line).length line = d
  unfold atxBodyB
  simp only [Except.ok.injEq, isSome_ite_ite]
  cases lenLe (List.takeWhile isWsChar line) 3 <;> simp


theorem contains2 (a b x : Char) : [a, b].contains x = true ↔ (x = a ∨ x = b) := by simp
theorem contains3 (a b c x : Char) : [a, b, c].contains x = true ↔ (x = a ∨ x = b ∨ x = c) := by simp

theorem takeWhile_length_eq_iff {p : Char → Bool} (l : Str) :
    (l.takeWhile p).length = l.length ↔ ∀ x ∈ l, p x = true := by
  induction l with
  | nil => simp
  | cons a l ih =>
    rw [List.takeWhile_cons]
    by_cases ha : p a = true
    · rw [if_pos ha]; simp only [List.length_cons, Nat.add_right_cancel_iff, ih, List.mem_cons, forall_eq_or_imp, ha, true_and]
    · rw [if_neg ha]
      simp only [List.length_nil, List.length_cons, List.mem_cons, forall_eq_or_imp]
      constructor
      · intro h; omega
      · intro h; exact absurd h.1 ha

/-! ## setext underline -/

def setextBodyB (d : Str) : Bool :=
  match d with
  | c :: _ => ['-', '='].contains c &&
      (((d.dropWhile (· == c)).takeWhile [SP, TAB].contains).length == (d.dropWhile (· == c)).length)
  | [] => false

theorem drop_cons_of {line : Str} {i : Nat} {c : Char} {r : Str} (hd : line.drop i = c :: r) :
    ∃ hl : i < line.length, line[i] = c := by
  have hl : i < line.length := by
    by_cases h : i < line.length
    · exact h
    · rw [List.drop_eq_nil_of_le (by omega)] at hd; cases hd
  refine ⟨hl, ?_⟩
  have := List.drop_eq_getElem_cons hl
  rw [this] at hd; injection hd

theorem isSetextUnderline_eval (line : Str) (i : Nat) (w : Str) :
    isSetextUnderline line i w = .ok (lenLe w 3 && setextBodyB (line.drop i)) := by
  unfold isSetextUnderline
  cases hd : line.drop i with
  | nil =>
    have : line.length ≤ i := by
      by_cases h : i < line.length
      · rw [List.drop_eq_getElem_cons h] at hd; cases hd
      · omega
    rw [isCharAtOneOf_ge this]
    simp [setextBodyB]
  | cons c r =>
    obtain ⟨hl, hc⟩ := drop_cons_of hd
    rw [isCharAtOneOf_lt' hl, hc]
    by_cases hcond : (lenLe w 3 && ['-', '='].contains c) = true
    · rw [if_pos hcond]
      simp only [Bool.and_eq_true] at hcond
      rw [charAt_lt hl, hc]
      simp only
      rw [collectWhileCharVerified_eq _ _ _ (Nat.zero_le _)]
      simp only
      unfold extractSpacesVerified
      rw [extractSpaces_eq]
      have hJ := scanTo_le (c :: r) (· == c) 0 (Nat.zero_le _)
      simp only [hJ, ↓reduceIte]
      rw [scanTo_eq_len _ _ _ hJ, drop_scanTo]
      simp only [List.drop_zero, setextBodyB, hcond.1, hcond.2, Bool.true_and]
    · rw [if_neg hcond]
      simp only [setextBodyB]
      simp only [Bool.and_eq_true, not_and, Bool.not_eq_true] at hcond
      cases hw : lenLe w 3 with
      | false => simp
      | true => rw [hcond hw]; rfl

/-- CommonMark 4.3: a setext heading underline is a sequence of `=` or of `-` characters, with no more than three
spaces of indentation and any number of trailing spaces or tabs. -/
def SetextBody (d : Str) : Prop :=
  ∃ (c : Char) (n : Nat) (trail : Str), (c = '=' ∨ c = '-') ∧ 1 ≤ n ∧ d = List.replicate n c ++ trail ∧
    ∀ x ∈ trail, x = ' ' ∨ x = '\t'

def SpecSetext (line : Str) : Prop := ∃ k d, k ≤ 3 ∧ line = List.replicate k SP ++ d ∧ SetextBody d

theorem ws_iff (x : Char) : [SP, TAB].contains x = true ↔ (x = ' ' ∨ x = '\t') := by
  rw [isWsChar_eq]; simp [isWsChar, SP, TAB]

theorem setextBodyB_iff (d : Str) : setextBodyB d = true ↔ SetextBody d := by
  unfold SetextBody
  constructor
  · intro h
    cases d with
    | nil => cases h
    | cons c r =>
      simp only [setextBodyB, Bool.and_eq_true, beq_iff_eq] at h
      obtain ⟨hc, hall⟩ := h
      obtain ⟨hd, -⟩ := run_decomp' (c :: r) c
      rw [takeWhile_length_eq_iff] at hall
      refine ⟨c, _, _, ?_, ?_, hd, ?_⟩
      · rw [contains2] at hc
        cases hc with
        | inl h => exact Or.inr h
        | inr h => exact Or.inl h
      · simp [List.takeWhile_cons]
      · intro x hx; exact (ws_iff x).mp (hall x hx)
  · rintro ⟨c, n, trail, hc, hn, hd, htrail⟩
    have hcw : isWsChar c = false := by
      cases hc with
      | inl h => subst h; decide
      | inr h => subst h; decide
    have hr : ∀ (x : Char) (r : Str), trail = x :: r → (x == c) = false := by
      intro x r hx
      have hxw := htrail x (by rw [hx]; simp)
      have : isWsChar x = true := by rw [← isWsChar_eq]; exact (ws_iff x).mpr hxw
      cases hxc : x == c with
      | false => rfl
      | true => rw [beq_iff_eq] at hxc; subst hxc; rw [hcw] at this; cases this
    have hdl := dropWhile_replicate_append (p := (· == c)) (c := c) n trail (by simp) hr
    rw [← hd] at hdl
    cases n with
    | zero => omega
    | succ n =>
      rw [List.replicate_succ, List.cons_append] at hd
      subst hd
      simp only [setextBodyB, Bool.and_eq_true, beq_iff_eq]
      refine ⟨?_, ?_⟩
      · cases hc with
        | inl h => subst h; decide
        | inr h => subst h; decide
      · rw [hdl, takeWhile_length_eq_iff]
        intro x hx; exact (ws_iff x).mpr (htrail x hx)

theorem SetextBody_head {d : Str} (h : SetextBody d) : ∃ c r, d = c :: r ∧ isWsChar c = false := by
  obtain ⟨c, n, trail, hc, hn, hd, -⟩ := h
  cases n with
  | zero => omega
  | succ n =>
    refine ⟨c, _, by rw [hd, List.replicate_succ]; rfl, ?_⟩
    cases hc with
    | inl h => subst h; decide
    | inr h => subst h; decide

theorem lineSetext_spec (line : Str) : lineSetext line = .ok true ↔ SpecSetext line := by
  unfold lineSetext SpecSetext
  rw [leadWs_eq]
  simp only
  rw [isSetextUnderline_eval]
  rw [← lead_decomp_iff line SetextBody (fun d => SetextBody_head)]
  rw [← setextBodyB_iff]
  simp


/-! ## fence open -/

def fenceBodyB (d : Str) : Bool :=
  match d with
  | c :: _ => ['~', '`'].contains c && decide (3 ≤ (d.takeWhile (· == c)).length) &&
      (c == '~' || !((d.dropWhile (· == c)).dropWhile asciiWs.contains).contains '`')
  | [] => false

theorem drop_nil_of {line : Str} {i : Nat} (hd : line.drop i = []) : line.length ≤ i := by
  by_cases h : i < line.length
  · rw [List.drop_eq_getElem_cons h] at hd; cases hd
  · omega

theorem isFencedCodeBlock_eval (line : Str) (i : Nat) (w : Str) (c : Char) (r : Str) (hd : line.drop i = c :: r) :
    isFencedCodeBlock line i w false = .ok (
      if (lenLe w 3 && ['~', '`'].contains c) = true then
        (if 3 ≤ ((c :: r).takeWhile (· == c)).length then
          some (scanTo line asciiWs.contains (scanTo line (· == c) i), scanTo line (· == c) i,
                ((c :: r).takeWhile (· == c)).length)
         else none)
      else none) := by
  unfold isFencedCodeBlock
  obtain ⟨hl, hc⟩ := drop_cons_of hd
  rw [isCharAtOneOf_lt' hl, hc]
  simp only [Bool.false_or]
  by_cases hcond : (lenLe w 3 && ['~', '`'].contains c) = true
  · rw [if_pos hcond, if_pos hcond]
    rw [charAt_lt hl, hc]
    simp only
    rw [collectWhileCharVerified_eq _ _ _ (by omega)]
    simp only
    rw [extractAsciiWs_eq]
    have hJ := scanTo_le line (· == c) i (by omega)
    simp only [hJ, ↓reduceIte]
    have e1 : scanTo line (fun x => x == c) i - i = (List.takeWhile (fun x => x == c) (c :: r)).length := by
      simp [scanTo, hd]
    rw [e1]
    simp only [ge_iff_le, decide_eq_true_eq]
    split <;> rfl
  · rw [if_neg hcond, if_neg hcond]

theorem isFenceOpen_eval (line : Str) (i : Nat) (w : Str) :
    isFenceOpen line i w = .ok (lenLe w 3 && fenceBodyB (line.drop i)) := by
  unfold isFenceOpen
  cases hd : line.drop i with
  | nil =>
    have := drop_nil_of hd
    unfold isFencedCodeBlock
    rw [isCharAtOneOf_ge this]
    simp [fenceBodyB]
  | cons c r =>
    obtain ⟨hl, hc⟩ := drop_cons_of hd
    rw [isFencedCodeBlock_eval line i w c r hd]
    by_cases hcond : (lenLe w 3 && ['~', '`'].contains c) = true
    · rw [if_pos hcond]
      simp only [Bool.and_eq_true] at hcond
      by_cases h3 : 3 ≤ ((c :: r).takeWhile (· == c)).length
      · rw [if_pos h3]
        simp only [charAt_lt hl, hc]
        rw [drop_scanTo, drop_scanTo, hd]
        simp only [fenceBodyB, hcond.1, hcond.2, h3, decide_true, Bool.true_and]
      · rw [if_neg h3]
        simp only [fenceBodyB, hcond.1, hcond.2, h3, decide_false, Bool.true_and, Bool.false_and, Bool.and_false]
    · rw [if_neg hcond]
      simp only [fenceBodyB]
      simp only [Bool.and_eq_true, not_and, Bool.not_eq_true] at hcond
      cases hw : lenLe w 3 with
      | false => simp
      | true => rw [hcond hw]; rfl

/-- CommonMark 4.5: a code fence is a sequence of at least three consecutive backticks or tildes; the opening fence is
preceded by up to three spaces of indentation; the info string of a backtick fence may not contain a backtick. -/
def FenceOpenBody (d : Str) : Prop :=
  ∃ (c : Char) (n : Nat) (info : Str), (c = '`' ∨ c = '~') ∧ 3 ≤ n ∧ d = List.replicate n c ++ info ∧
    info.head? ≠ some c ∧ (c = '`' → '`' ∉ info)

def SpecFenceOpen (line : Str) : Prop := ∃ k d, k ≤ 3 ∧ line = List.replicate k SP ++ d ∧ FenceOpenBody d

theorem mem_dropWhile_of_not {p : Char → Bool} {x : Char} {l : Str} (hx : x ∈ l) (hp : p x = false) :
    x ∈ l.dropWhile p := by
  induction l with
  | nil => cases hx
  | cons a l ih =>
    rw [List.dropWhile_cons]
    split
    · next ha =>
      cases hx with
      | head => rw [hp] at ha; cases ha
      | tail _ h => exact ih h
    · exact hx

theorem mem_of_mem_dropWhile {p : Char → Bool} {x : Char} {l : Str} (hx : x ∈ l.dropWhile p) : x ∈ l :=
  (List.dropWhile_sublist p).mem hx

theorem head?_ne_of {rest : Str} {c : Char} (h : ∀ d r, rest = d :: r → (d == c) = false) : rest.head? ≠ some c := by
  cases rest with
  | nil => simp
  | cons d r =>
    have := h d r rfl
    simp only [List.head?_cons, ne_eq, Option.some.injEq]
    intro hdc; subst hdc; simp at this

theorem of_head?_ne {rest : Str} {c : Char} (h : rest.head? ≠ some c) : ∀ d r, rest = d :: r → (d == c) = false := by
  intro d r hr
  subst hr
  simp only [List.head?_cons, ne_eq, Option.some.injEq] at h
  simpa using h

theorem fenceBodyB_iff (d : Str) : fenceBodyB d = true ↔ FenceOpenBody d := by
  unfold FenceOpenBody
  constructor
  · intro h
    cases d with
    | nil => cases h
    | cons c r =>
      simp only [fenceBodyB, Bool.and_eq_true, decide_eq_true_eq, Bool.or_eq_true, beq_iff_eq,
        Bool.not_eq_true'] at h
      obtain ⟨⟨hc, h3⟩, hinfo⟩ := h
      obtain ⟨hd, hrest⟩ := run_decomp' (c :: r) c
      rw [contains2] at hc
      refine ⟨c, _, _, ?_, h3, hd, head?_ne_of hrest, ?_⟩
      · cases hc with
        | inl h => exact Or.inr h
        | inr h => exact Or.inl h
      · intro hcb hmem
        subst hcb
        cases hinfo with
        | inl h => cases h
        | inr h =>
          have := mem_dropWhile_of_not (p := asciiWs.contains) hmem (by decide)
          have hc2 : (List.dropWhile asciiWs.contains (List.dropWhile (fun x => x == '`') ('`' :: r))).contains '`' = true :=
            List.contains_iff_mem.mpr this
          rw [h] at hc2; cases hc2
  · rintro ⟨c, n, info, hc, hn, hd, hhead, hinfo⟩
    have hr := of_head?_ne hhead
    have htl := takeWhile_replicate_append (p := (· == c)) (c := c) n info (by simp) hr
    have hdl := dropWhile_replicate_append (p := (· == c)) (c := c) n info (by simp) hr
    rw [← hd] at htl hdl
    cases n with
    | zero => omega
    | succ n =>
      rw [List.replicate_succ, List.cons_append] at hd
      subst hd
      simp only [fenceBodyB, Bool.and_eq_true, decide_eq_true_eq, Bool.or_eq_true, beq_iff_eq,
        Bool.not_eq_true']
      refine ⟨⟨?_, by omega⟩, ?_⟩
      · cases hc with
        | inl h => subst h; decide
        | inr h => subst h; decide
      · cases hc with
        | inr h => exact Or.inl h
        | inl h =>
          right
          rw [hdl]
          have hni := hinfo h
          cases hcon : (List.dropWhile asciiWs.contains info).contains '`' with
          | false => rfl
          | true =>
            rw [List.contains_iff_mem] at hcon
            exact absurd (mem_of_mem_dropWhile hcon) hni

theorem FenceOpenBody_head {d : Str} (h : FenceOpenBody d) : ∃ c r, d = c :: r ∧ isWsChar c = false := by
  obtain ⟨c, n, info, hc, hn, hd, -, -⟩ := h
  cases n with
  | zero => omega
  | succ n =>
    refine ⟨c, _, by rw [hd, List.replicate_succ]; rfl, ?_⟩
    cases hc with
    | inl h => subst h; decide
    | inr h => subst h; decide

theorem lineFenceOpen_spec (line : Str) : lineFenceOpen line = .ok true ↔ SpecFenceOpen line := by
  unfold lineFenceOpen SpecFenceOpen
  rw [leadWs_eq]
  simp only
  rw [isFenceOpen_eval]
  rw [← lead_decomp_iff line FenceOpenBody (fun d => FenceOpenBody_head)]
  rw [← fenceBodyB_iff]
  simp


/-! ## thematic break -/

theorem tbScan_fst_le (c : Char) (a : Bool) (l : Str) : (tbScan c a l).1 ≤ l.length := by
  induction l with
  | nil => simp [tbScan]
  | cons d ds ih =>
    unfold tbScan
    split
    · simp; omega
    · split
      · simp; omega
      · simp

theorem tbScan_full_iff (c : Char) (hc : isWsChar c = false) (l : Str) :
    (tbScan c true l).1 = l.length ↔ ∀ x ∈ l, x = c ∨ isWsChar x = true := by
  induction l with
  | nil => simp [tbScan]
  | cons d ds ih =>
    unfold tbScan
    simp only [Bool.true_and, List.length_cons, List.mem_cons, forall_eq_or_imp]
    by_cases hw : isWsChar d = true
    · rw [if_pos hw]
      simp only [Nat.add_right_cancel_iff, ih, hw, or_true, true_and]
    · rw [if_neg hw]
      by_cases hdc : (d == c) = true
      · rw [if_pos hdc]
        simp only [Nat.add_right_cancel_iff, ih]
        rw [beq_iff_eq] at hdc
        simp [hdc]
      · rw [if_neg hdc]
        simp only [beq_iff_eq] at hdc
        constructor
        · intro h; simp at h
        · intro h
          cases h.1 with
          | inl h => exact absurd h hdc
          | inr h => exact absurd h hw

theorem tbScan_count (c : Char) (hc : isWsChar c = false) (l : Str) (hall : ∀ x ∈ l, x = c ∨ isWsChar x = true) :
    (tbScan c true l).2 = l.count c := by
  induction l with
  | nil => simp [tbScan]
  | cons d ds ih =>
    have hds : ∀ x ∈ ds, x = c ∨ isWsChar x = true := fun x hx => hall x (List.mem_cons_of_mem _ hx)
    unfold tbScan
    simp only [Bool.true_and]
    by_cases hw : isWsChar d = true
    · rw [if_pos hw]
      have : d ≠ c := fun h => by subst h; rw [hc] at hw; cases hw
      simp only [ih hds]
      rw [List.count_cons_of_ne (by simpa using this)]
    · rw [if_neg hw]
      have hd : d = c := by
        cases hall d (by simp) with
        | inl h => exact h
        | inr h => exact absurd h hw
      subst hd
      simp [ih hds]

def thematicBodyB (d : Str) : Bool :=
  match d with
  | c :: _ => ['*', '_', '-'].contains c && (decide (3 ≤ (tbScan c true d).2) && ((tbScan c true d).1 == d.length))
  | [] => false

theorem isThematicBreak_eval (line : Str) (i : Nat) (w : Str) :
    (isThematicBreak line i w false true).map Option.isSome = .ok (lenLe w 3 && thematicBodyB (line.drop i)) := by
  unfold isThematicBreak
  simp only [Bool.or_false]
  cases hd : line.drop i with
  | nil =>
    have := drop_nil_of hd
    rw [isCharAtOneOf_ge this]
    simp [thematicBodyB, Except.map]
  | cons c r =>
    obtain ⟨hl, hc⟩ := drop_cons_of hd
    rw [isCharAtOneOf_lt' hl, hc]
    by_cases hcond : (lenLe w 3 && ['*', '_', '-'].contains c) = true
    · rw [if_pos hcond]
      simp only [Bool.and_eq_true] at hcond
      rw [charAt_lt hl, hc]
      simp only [tbLoop_eq, hd, Nat.zero_add]
      have hlen : line.length = i + (c :: r).length := by
        have := congrArg List.length hd
        simp only [List.length_drop] at this; omega
      have hb : (i + (tbScan c true (c :: r)).fst == line.length) = ((tbScan c true (c :: r)).fst == (c :: r).length) := by
        rw [hlen, Bool.eq_iff_iff]; simp
      rw [hb]
      simp only [thematicBodyB, hcond.1, hcond.2, Bool.true_and]
      split <;> simp_all [Except.map]
    · rw [if_neg hcond]
      simp only [thematicBodyB, Except.map]
      simp only [Bool.and_eq_true, not_and, Bool.not_eq_true] at hcond
      cases hw : lenLe w 3 with
      | false => simp
      | true => rw [hcond hw]; rfl

/-- CommonMark 4.1: up to three spaces of indentation, then three or more matching `-`, `_` or `*` characters, each
followed optionally by any number of spaces or tabs, and nothing else. -/
def ThematicBody (d : Str) : Prop :=
  ∃ (c : Char) (rest : Str), (c = '*' ∨ c = '_' ∨ c = '-') ∧ d = c :: rest ∧
    (∀ x ∈ rest, x = c ∨ x = ' ' ∨ x = '\t') ∧ 3 ≤ (c :: rest).count c

def SpecThematic (line : Str) : Prop := ∃ k d, k ≤ 3 ∧ line = List.replicate k SP ++ d ∧ ThematicBody d

theorem isWsChar_iff (x : Char) : isWsChar x = true ↔ (x = ' ' ∨ x = '\t') := by
  simp [isWsChar, SP, TAB]

theorem thematicBodyB_iff (d : Str) : thematicBodyB d = true ↔ ThematicBody d := by
  unfold ThematicBody
  constructor
  · intro h
    cases d with
    | nil => cases h
    | cons c r =>
      simp only [thematicBodyB, Bool.and_eq_true, decide_eq_true_eq, beq_iff_eq] at h
      obtain ⟨hc, h3, hfull⟩ := h
      rw [contains3] at hc
      have hcw : isWsChar c = false := by
        rcases hc with h | h | h <;> subst h <;> decide
      have hall := (tbScan_full_iff c hcw (c :: r)).mp hfull
      rw [tbScan_count c hcw _ hall] at h3
      refine ⟨c, r, hc, rfl, ?_, h3⟩
      intro x hx
      cases hall x (List.mem_cons_of_mem _ hx) with
      | inl h => exact Or.inl h
      | inr h => exact Or.inr ((isWsChar_iff x).mp h)
  · rintro ⟨c, rest, hc, hd, hall, h3⟩
    subst hd
    have hcw : isWsChar c = false := by
      rcases hc with h | h | h <;> subst h <;> decide
    have hall' : ∀ x ∈ c :: rest, x = c ∨ isWsChar x = true := by
      intro x hx
      cases hx with
      | head => exact Or.inl rfl
      | tail _ h =>
        cases hall x h with
        | inl h => exact Or.inl h
        | inr h => exact Or.inr ((isWsChar_iff x).mpr h)
    simp only [thematicBodyB, Bool.and_eq_true, decide_eq_true_eq, beq_iff_eq]
    refine ⟨(contains3 _ _ _ _).mpr hc, ?_, (tbScan_full_iff c hcw _).mpr hall'⟩
    rw [tbScan_count c hcw _ hall']; exact h3

theorem ThematicBody_head {d : Str} (h : ThematicBody d) : ∃ c r, d = c :: r ∧ isWsChar c = false := by
  obtain ⟨c, rest, hc, hd, -, -⟩ := h
  refine ⟨c, rest, hd, ?_⟩
  rcases hc with h | h | h <;> subst h <;> decide

theorem lineThematic_spec (line : Str) : lineThematic line = .ok true ↔ SpecThematic line := by
  unfold lineThematic SpecThematic
  rw [leadWs_eq]
  simp only
  rw [isThematicBreak_eval]
  rw [← lead_decomp_iff line ThematicBody (fun d => ThematicBody_head)]
  rw [← thematicBodyB_iff]
  simp

/-! ## blank line -/

theorem isBlankLine_iff (line : Str) : isBlankLine line = true ↔ ∀ x ∈ line, x ∈ asciiWs := by
  unfold isBlankLine
  cases line with
  | nil => simp
  | cons a l => simp [List.all_eq_true]

/-- CommonMark 2.1: "a line containing no characters, or a line containing only spaces or tabs, is called a blank
line" — for lines free of the other four ASCII whitespace characters (a line never contains `\n`). -/
theorem isBlankLine_commonmark_partial (line : Str)
    (h : ∀ x ∈ line, x ≠ '\n' ∧ x ≠ '\x0b' ∧ x ≠ '\x0c' ∧ x ≠ '\r') :
    isBlankLine line = true ↔ ∀ x ∈ line, x = ' ' ∨ x = '\t' := by
  rw [isBlankLine_iff]
  constructor
  · intro hb x hx
    have := hb x hx
    obtain ⟨h1, h2, h3, h4⟩ := h x hx
    simp only [asciiWs, List.mem_cons, List.not_mem_nil, or_false] at this
    rcases this with h | h | h | h | h | h
    · exact Or.inl h
    · exact Or.inr h
    · exact absurd h h1
    · exact absurd h h2
    · exact absurd h h3
    · exact absurd h h4
  · intro hb x hx
    cases hb x hx with
    | inl h => subst h; decide
    | inr h => subst h; decide


/-! ## line-level evaluation (list form; used to compute examples) -/

theorem lineAtx_eval (line : Str) :
    lineAtx line = .ok (lenLe (line.takeWhile isWsChar) 3 && atxBodyB (line.drop (line.takeWhile isWsChar).length)) := by
  unfold lineAtx
  rw [leadWs_eq]
  simp only
  rw [isAtxHeading_eval _ _ _ _ (takeWhile_length_le _ _)]
  simp only [Except.map, Bool.or_false]
  unfold atxBodyB
  simp only [isSome_ite_ite]
  cases lenLe (List.takeWhile isWsChar line) 3 <;> simp

theorem lineSetext_eval (line : Str) :
    lineSetext line = .ok (lenLe (line.takeWhile isWsChar) 3 && setextBodyB (line.drop (line.takeWhile isWsChar).length)) := by
  unfold lineSetext; rw [leadWs_eq]; simp only; rw [isSetextUnderline_eval]

theorem lineFenceOpen_eval (line : Str) :
    lineFenceOpen line = .ok (lenLe (line.takeWhile isWsChar) 3 && fenceBodyB (line.drop (line.takeWhile isWsChar).length)) := by
  unfold lineFenceOpen; rw [leadWs_eq]; simp only; rw [isFenceOpen_eval]

theorem lineThematic_eval (line : Str) :
    lineThematic line = .ok (lenLe (line.takeWhile isWsChar) 3 && thematicBodyB (line.drop (line.takeWhile isWsChar).length)) := by
  unfold lineThematic; rw [leadWs_eq]; simp only; rw [isThematicBreak_eval]


/-! ## tab expansion -/

theorem expandTabs_append (a b : Str) (col : Nat) :
    expandTabs col (a ++ b) = expandTabs col a ++ expandTabs (col + (expandTabs col a).length) b := by
  induction a generalizing col with
  | nil => simp [expandTabs]
  | cons c cs ih =>
    simp only [List.cons_append, expandTabs]
    split
    · rw [ih]
      simp only [List.append_assoc, List.length_append, List.length_replicate]
      have : (col + 4) / 4 * 4 + (expandTabs ((col + 4) / 4 * 4) cs).length
          = col + ((col + 4) / 4 * 4 - col + (expandTabs ((col + 4) / 4 * 4) cs).length) := by omega
      rw [this]
    · rw [ih]
      simp only [List.cons_append, List.length_cons]
      have : col + 1 + (expandTabs (col + 1) cs).length = col + ((expandTabs (col + 1) cs).length + 1) := by omega
      rw [this]

theorem expandTabs_notab (pre : Str) (h : TAB ∉ pre) (col : Nat) : expandTabs col pre = pre := by
  induction pre generalizing col with
  | nil => rfl
  | cons c cs ih =>
    have hc : (c == TAB) = false := by
      cases hh : c == TAB with
      | false => rfl
      | true => rw [beq_iff_eq] at hh; subst hh; exact absurd (List.mem_cons_self) h
    simp only [expandTabs, hc, Bool.false_eq_true, ↓reduceIte]
    rw [ih (fun hm => h (List.mem_cons_of_mem _ hm))]

theorem foldl_tabStep_mono (w : Str) (n : Nat) : n ≤ w.foldl tabStep n := by
  have := foldl_tabStep_ge w n; omega

theorem expandTabs_ws (w : Str) (hw : ∀ x ∈ w, isWsChar x = true) (col : Nat) :
    expandTabs col w = List.replicate (calcLength w col) SP := by
  induction w generalizing col with
  | nil => simp [expandTabs, calcLength]
  | cons c cs ih =>
    have hcs : ∀ x ∈ cs, isWsChar x = true := fun x hx => hw x (List.mem_cons_of_mem _ hx)
    simp only [expandTabs, calcLength, List.foldl_cons]
    by_cases hc : (c == TAB) = true
    · rw [if_pos hc, ih hcs]
      have e : tabStep col c = (col + 4) / 4 * 4 := by simp [tabStep, hc]
      rw [e]
      simp only [calcLength]
      have h1 := foldl_tabStep_mono cs ((col + 4) / 4 * 4)
      rw [List.replicate_append_replicate]
      congr 1; omega
    · rw [if_neg hc, ih hcs]
      have hsp : c = SP := by
        have := hw c List.mem_cons_self
        simp only [isWsChar, Bool.or_eq_true] at this
        cases this with
        | inl h => simpa using h
        | inr h => exact absurd h hc
      have e : tabStep col c = col + 1 := by simp [tabStep, hc]
      rw [e, hsp]
      simp only [calcLength]
      have h1 := foldl_tabStep_mono cs (col + 1)
      rw [← List.replicate_succ]
      congr 1; omega


theorem findTab_before {s : Str} {n : Nat} (h : findTab s = some n) : TAB ∉ s.take n := by
  induction s generalizing n with
  | nil => cases h
  | cons c cs ih =>
    unfold findTab at h
    split at h
    · injection h with h; subst h; simp
    · next hc =>
      cases hf : findTab cs with
      | none => rw [hf] at h; cases h
      | some m =>
        rw [hf] at h
        simp only [Option.map_some] at h
        injection h with h; subst h
        simp only [List.take_succ_cons, List.mem_cons, not_or]
        refine ⟨?_, ih hf⟩
        intro he; rw [← he] at hc; simp at hc

theorem findTab_none {s : Str} (h : findTab s = none) : TAB ∉ s := by
  induction s with
  | nil => simp
  | cons c cs ih =>
    unfold findTab at h
    split at h
    · cases h
    · next hc =>
      cases hf : findTab cs with
      | some m => rw [hf] at h; cases h
      | none =>
        simp only [List.mem_cons, not_or]
        refine ⟨?_, ih hf⟩
        intro he; rw [← he] at hc; simp at hc

/-- backwards scan: everything between the result and the start index is in the set -/
theorem cbwLoop_spec (s cs : Str) (e : Nat) (h : e ≤ s.length) :
    ∃ j, cbwLoop s cs e = .ok j ∧ j ≤ e ∧ ∀ x ∈ (s.take e).drop j, cs.contains x = true := by
  induction e with
  | zero => exact ⟨0, rfl, Nat.le_refl _, by simp⟩
  | succ e ih =>
    unfold cbwLoop
    have hl : e < s.length := by omega
    rw [charAt_lt hl]
    simp only
    split
    · next hc =>
      obtain ⟨j, hj, hle, hall⟩ := ih (by omega)
      refine ⟨j, hj, by omega, ?_⟩
      intro x hx
      rw [List.take_succ_eq_append_getElem hl, List.drop_append_of_le_length (by simp; omega)] at hx
      rcases List.mem_append.mp hx with h1 | h1
      · exact hall x h1
      · simp only [List.mem_singleton] at h1; subst h1; exact hc
    · refine ⟨e + 1, rfl, Nat.le_refl _, ?_⟩
      intro x hx
      rw [List.drop_eq_nil_of_le (by rw [List.length_take]; exact Nat.min_le_left _ _)] at hx; cases hx

theorem slice_split (s : Str) (j e : Nat) (hje : j ≤ e) :
    s = s.take j ++ slice s j e ++ s.drop e := by
  unfold slice
  have h1 : s.take j ++ (s.take e).drop j = s.take e := by
    have : s.take j = (s.take e).take j := by rw [List.take_take]; congr 1; omega
    rw [this, List.take_append_drop]
  rw [h1, List.take_append_drop]

theorem slice_split_mid (s : Str) (j n e : Nat) (hjn : j ≤ n) (hne : n ≤ e) (hel : e ≤ s.length) :
    slice s j e = (s.take n).drop j ++ slice s n e := by
  unfold slice
  have : (s.take e).drop j = ((s.take e).take n).drop j ++ (s.take e).drop n := by
    conv => lhs; rw [← List.take_append_drop n (s.take e)]
    rw [List.drop_append_of_le_length (by simp; omega)]
  rw [this, List.take_take]
  congr 3; omega

theorem detabLoop_spec (delta fuel : Nat) (st : DetabState) (h : st.src.length < fuel) :
    detabLoop delta fuel st = .ok (st.rebuilt ++ expandTabs (st.cur + delta) st.src) := by
  induction fuel generalizing st with
  | zero => omega
  | succ fuel ih =>
    unfold detabLoop
    cases hf : findTab st.src with
    | none =>
      simp only
      rw [expandTabs_notab _ (findTab_none hf)]
    | some nt =>
      obtain ⟨hl, htab⟩ := findTab_some hf
      simp only
      -- backwards
      unfold collectBackwardsSpacesVerified collectBackwardsOneOf
      have h1 : (-1 : Int) ≤ (nt : Int) ∧ (nt : Int) ≤ st.src.length := by omega
      have h2 : ((nt : Int) = -1) = False := by simp
      simp only [h1, and_self, ↓reduceIte, h2, Int.toNat_natCast]
      obtain ⟨j, hj, hjn, hback⟩ := cbwLoop_spec st.src [SP, TAB] nt (by omega)
      rw [hj]
      simp only
      unfold collectWhileSpaces
      rw [collectWhileOneOf_eq]
      have hnl : nt ≤ st.src.length := by omega
      simp only [hnl, ↓reduceIte]
      have hstep := scanTo_step (p := [SP, TAB].contains) hl (by rw [htab]; decide)
      have hele := scanTo_le st.src [SP, TAB].contains nt hnl
      rw [ih _ (by simp only [List.length_drop]; omega)]
      simp only
      have hrun : ∀ x ∈ slice st.src nt (scanTo st.src [SP, TAB].contains nt), [SP, TAB].contains x = true := by
        intro x hx
        rw [slice_scanTo] at hx
        exact takeWhile_all _ _ x hx
      generalize scanTo st.src [SP, TAB].contains nt = e at hstep hele hrun ⊢
      -- the document splits into the text before the whitespace run, the run, the rest
      have hsplit := slice_split st.src j e (by omega)
      have hpre : TAB ∉ st.src.take j := by
        intro hm
        have : st.src.take j = (st.src.take nt).take j := by rw [List.take_take]; congr 1; omega
        rw [this] at hm
        exact findTab_before hf (List.mem_of_mem_take hm)
      have hws : ∀ x ∈ slice st.src j e, isWsChar x = true := by
        intro x hx
        rw [slice_split_mid st.src j nt e hjn (by omega) hele] at hx
        rw [← isWsChar_eq]
        rcases List.mem_append.mp hx with h | h
        · exact hback x h
        · exact hrun x h
      conv => rhs; rw [hsplit]
      rw [expandTabs_append, expandTabs_append, expandTabs_notab _ hpre, expandTabs_ws _ hws]
      have hlen : (st.src.take j).length = j := by rw [List.length_take]; omega
      simp only [hlen, List.length_replicate, List.length_append]
      have e1 : st.cur + delta + j = st.cur + j + delta := by omega
      have e2 : st.cur + j + calcLength (slice st.src j e) (st.cur + j + delta) + delta
          = st.cur + j + delta + calcLength (slice st.src j e) (st.cur + j + delta) := by omega
      have e3 : ∀ X, st.cur + delta + (j + X) = st.cur + j + delta + X := by intro X; omega
      rw [e1, e2]
      simp only [e3]
      split
      · simp only [List.append_assoc]
      · next h0 =>
        have : j = 0 := by simpa using h0
        subst this
        simp

/-- `detabify_string(s, delta)` is tab expansion with tab stops every four columns, the text starting in column `delta`. -/
theorem detabify_spec (s : Str) (delta : Nat) : detabify s delta = .ok (expandTabs delta s) := by
  unfold detabify
  split
  · next h =>
    have : TAB ∉ s := by
      intro hm
      have := List.contains_iff_mem.mpr hm
      rw [this] at h; simp at h
    rw [expandTabs_notab _ this]
  · rw [detabLoop_spec _ _ _ (by simp)]
    simp


end Verif.Model.Recognisers
