/-
  List looseness, part B: Python indexing and the backward scans when a stopper exists; the looseness loop over the
  children of a flat list.
-/
import Verif.Lemmas.GfmLooseA
namespace Verif.Lemmas.GfmLoose
open Verif.Model.GfmRender Verif.Model.GfmSpec Verif.Lemmas.GfmBasic
open Verif.Model.WellFormed (Cls)

/-! ### Python indexing with a non-negative index -/

theorem pyGet_nat {α : Type} {l : List α} {n : Nat} {a : α} (h : l[n]? = some a) : pyGet l (n : Int) = .ok a := by
  unfold pyGet
  simp [h]

theorem drop_cons_step {α : Type} {l : List α} {j : Nat} {a : α} {r : List α} (h : l.drop j = a :: r) :
    l[j]? = some a ∧ l.drop (j + 1) = r := by
  constructor
  · have := List.getElem?_drop (xs := l) (i := j) (j := 0)
    rw [h] at this
    simpa using this.symm
  · have : l.drop (j + 1) = (l.drop j).drop 1 := by rw [List.drop_drop]
    rw [this, h]; rfl

theorem drop_append_step {α : Type} {l : List α} {j : Nat} (a r : List α) (h : l.drop j = a ++ r) :
    l.drop (j + a.length) = r := by
  have : l.drop (j + a.length) = (l.drop j).drop a.length := by rw [List.drop_drop]
  rw [this, h]; simp

theorem getElem?_of_drop {α : Type} {l : List α} {j : Nat} {seg : List α} (h : l.drop j = seg) (x : Nat) :
    l[j + x]? = seg[x]? := by
  rw [← h, List.getElem?_drop]

/-! ### the backward scans -/

theorem scanDownF_stop {α : Type} {l : List α} {p : α → Bool} {a : Nat} :
    ∀ (d fuel : Nat), d < fuel → (∃ x, l[a]? = some x ∧ p x = true) →
      (∀ m, a < m → m ≤ a + d → ∃ x, l[m]? = some x ∧ p x = false) →
      scanDownF l p fuel ((a + d : Nat) : Int) = .ok (a : Int) := by
  intro d
  induction d with
  | zero =>
    intro fuel hf ⟨x, hx, hp⟩ _
    obtain ⟨f, rfl⟩ : ∃ f, fuel = f + 1 := ⟨fuel - 1, by omega⟩
    simp only [Nat.add_zero, scanDownF, pyGet_nat hx, hp, if_true]
  | succ d ih =>
    intro fuel hf hx hm
    obtain ⟨f, rfl⟩ : ∃ f, fuel = f + 1 := ⟨fuel - 1, by omega⟩
    obtain ⟨y, hy, hpy⟩ := hm (a + (d + 1)) (by omega) (by omega)
    have e : (((a + (d + 1) : Nat) : Int) - 1) = ((a + d : Nat) : Int) := by omega
    simp only [scanDownF, pyGet_nat hy, hpy, Bool.false_eq_true, if_false, e]
    exact ih f (by omega) hx (fun m h1 h2 => hm m h1 (by omega))

theorem scanDown_stop {α : Type} {l : List α} {p : α → Bool} {a b : Nat} (hab : a ≤ b)
    (hx : ∃ x, l[a]? = some x ∧ p x = true)
    (hm : ∀ m, a < m → m ≤ b → ∃ x, l[m]? = some x ∧ p x = false) :
    scanDown l p (b : Int) = .ok (a : Int) := by
  unfold scanDown
  have := scanDownF_stop (l := l) (p := p) (a := a) (b - a) (((b : Int) + l.length + 2).toNat + 1) (by omega) hx
    (fun m h1 h2 => hm m h1 (by omega))
  have e : a + (b - a) = b := by omega
  rw [e] at this
  exact this

/-! ### `__is_really_loose` below a list start with quiet tokens above it -/

theorem reallyLoose_quiet {ts : List Tok} {i : Nat} {s : Tok} (hs : ts[i]? = some s) (hsl : s.isListStart = true)
    (hsq : s.isBqEnd = false ∧ s.isListEnd = false) :
    ∀ d, (∀ m, i < m → m ≤ i + d → ∃ x, ts[m]? = some x ∧ quiet x = true) →
      reallyLooseLoop ts (i + d + 1) 0 = .ok true := by
  intro d
  induction d with
  | zero =>
    intro _
    simp only [reallyLooseLoop, hs, hsq.1, hsq.2, hsl, Bool.or_self, Bool.false_eq_true, if_false,
      if_true, bne_self_eq_false]
  | succ d ih =>
    intro hm
    obtain ⟨x, hx, hq⟩ := hm (i + (d + 1)) (by omega) (by omega)
    simp only [quiet, Bool.and_eq_true, Bool.not_eq_true'] at hq
    obtain ⟨⟨⟨h1, h2⟩, h3⟩, h4⟩ := hq
    have e : i + (d + 1) + 1 = (i + (d + 1)) + 1 := rfl
    rw [e, reallyLooseLoop]
    simp only [hx, h1, h2, h3, h4, Bool.or_self, Bool.false_eq_true, if_false]
    exact ih (fun m a b => hm m a (by omega))

/-! ### what the loop has behind it -/

/-- the last child that is no blank line: the list start itself, a `li`, or a block -/
inductive PK | start | li | block
  deriving DecidableEq, Repr

def QK (ts : List Tok) (q : Tok) : PK → Prop
  | .start => q.isListStart = true
  | .li => q.isLi = true
  | .block => q.isLi = false ∧ q.isListStart = false ∧
      ((q.isEndToken = false ∧ q.isBlock = true) ∨
       (∃ kk p f s', q.body = .end_ kk p f ∧ ts[p]? = some s' ∧ s'.isBlock = true ∧ s'.isLrd = false))

/-- the tokens before index `j`: `nb` BLANK tokens, before them a token `q` of sort `pk` -/
def Back (ts : List Tok) (j : Nat) (pk : PK) (nb : Nat) : Prop :=
  nb + 1 ≤ j ∧ (∀ m, j - 1 - nb < m → m < j → ∃ b, ts[m]? = some b ∧ b.isBlank = true) ∧
  ∃ q, ts[j - 1 - nb]? = some q ∧ q.isBlank = false ∧ q.isLrd = false ∧ QK ts q pk

theorem blank_tests {b : Tok} (h : b.isBlank = true) :
    b.isLrd = false ∧ b.isLi = false ∧ b.isListStart = false ∧ b.isBqStart = false := by
  obtain ⟨l, bd⟩ := b
  cases bd <;> simp_all [Tok.isBlank, Tok.isLrd, Tok.isLi, Tok.isListStart, Tok.isBqStart, Tok.isKind, Tok.kind?,
    Body.kind?]

/-- what `__handle_blank_line` finds in the token the blank-line scan stops on -/
theorem QK_pp {ts : List Tok} {q : Tok} {pk : PK} (h : QK ts q pk) (hl : q.isLrd = false) :
    (q.isEndToken = false ∧ (q.isBlock && !q.isLrd) = (pk != .li)) ∨
    (∃ kk p f s', q.body = .end_ kk p f ∧ q.isEndToken = true ∧ ts[p]? = some s' ∧
      (s'.isBlock && !s'.isLrd) = (pk != .li)) := by
  cases pk with
  | start =>
    simp only [QK] at h
    left
    obtain ⟨l, bd⟩ := q
    cases bd <;> simp_all [Tok.isListStart, Tok.isKind, Tok.kind?, Body.kind?, Tok.isEndToken, Tok.isBlock,
      Tok.isLrd, Tok.isBqStart] <;> decide
  | li =>
    simp only [QK] at h
    left
    obtain ⟨l, bd⟩ := q
    cases bd <;> simp_all [Tok.isLi, Tok.isListStart, Tok.isKind, Tok.kind?, Body.kind?, Tok.isEndToken, Tok.isBlock,
      Tok.isLrd, Tok.isBqStart]
  | block =>
    obtain ⟨_, _, h | ⟨kk, p, f, s', h1, h2, h3, h4⟩⟩ := h
    · left; simp [h.1, h.2, hl]
    · right; exact ⟨kk, p, f, s', h1, isEndToken_of_end h1, h2, by simp [h3, h4]⟩

theorem back_prev {ts : List Tok} {j : Nat} {pk : PK} {nb : Nat} (h : Back ts j pk nb) :
    ∃ t, ts[j - 1]? = some t ∧ t.isLrd = false ∧ t.isBlank = decide (1 ≤ nb) := by
  obtain ⟨h1, h2, q, hq, hqb, hql, _⟩ := h
  by_cases hn : nb = 0
  · subst hn
    exact ⟨q, by simpa using hq, hql, by simpa using hqb⟩
  · obtain ⟨b, hb, hbb⟩ := h2 (j - 1) (by omega) (by omega)
    exact ⟨b, hb, (blank_tests hbb).1, by simp [hbb]; omega⟩

/-- `__handle_blank_line` when the token before the current one is a blank line -/
theorem handleBlankLine_back {ts : List Tok} {j : Nat} {pk : PK} {nb : Nat} (h : Back ts j pk (nb + 1)) (cur : Tok) :
    handleBlankLine ts cur 0 j = .ok (cur.isBlock && !cur.isLrd && (pk != .li)) := by
  obtain ⟨h1, h2, q, hq, hqb, hql, hqk⟩ := h
  have hscan : scanDown ts (fun t => !t.isBlank) ((j : Int) - 2) = .ok ((j - 1 - (nb + 1) : Nat) : Int) := by
    have e : (j : Int) - 2 = ((j - 2 : Nat) : Int) := by omega
    rw [e]
    refine scanDown_stop (by omega) ⟨q, hq, by simp [hqb]⟩ ?_
    intro m hm1 hm2
    obtain ⟨b, hb, hbb⟩ := h2 m hm1 (by omega)
    exact ⟨b, hb, by simp [hbb]⟩
  unfold handleBlankLine
  simp only [hscan, pyGet_nat hq, bind, Except.bind]
  rcases QK_pp hqk hql with ⟨ha, hb⟩ | ⟨kk, p, f, s', ha, hb, hc, hd⟩
  · simp only [ha, Bool.false_eq_true, if_false, pure, Except.pure, hb, beq_self_eq_true, Bool.true_and]
  · simp only [hb, if_true, ha, hc, pure, Except.pure, hd, beq_self_eq_true, Bool.true_and]


/-- `__is_token_loose(…, j, False)` below a flat list start -/
theorem isTokenLoose_back {ts : List Tok} {i j : Nat} {s : Tok} {pk : PK} {nb : Nat} (hs : ts[i]? = some s)
    (hsl : s.isListStart = true) (hij : i < j)
    (hRL : ∀ m, i < m → m < j → reallyLooseLoop ts m 0 = .ok true) (h : Back ts j pk nb) :
    isTokenLoose ts (j : Int) false = .ok (decide (1 ≤ nb) && !(nb == 1 && pk != .block)) := by
  obtain ⟨t, ht, htl, htb⟩ := back_prev h
  obtain ⟨h1, h2, q, hq, hqb, hql, hqk⟩ := h
  have e1 : (j : Int) - 1 = ((j - 1 : Nat) : Int) := by omega
  have hscan : scanDown ts (fun t => !t.isLrd) ((j : Int) - 1) = .ok ((j - 1 : Nat) : Int) := by
    rw [e1]
    exact scanDown_stop (Nat.le_refl _) ⟨t, ht, by simp [htl]⟩ (fun m a b => by omega)
  unfold isTokenLoose
  simp only [hscan, bind, Except.bind, pyGet_nat ht]
  by_cases hn : nb = 0
  · subst hn
    simp only [show (1 ≤ 0) = False by simp, decide_false] at htb
    simp [htb, pure, Except.pure]
  · have htb' : t.isBlank = true := by rw [htb]; simp; omega
    have hne : i ≠ j - 1 := by
      intro e
      rw [← e, hs] at ht
      have := (blank_tests htb').2.2.1
      simp only [Option.some.injEq] at ht
      subst ht
      rw [hsl] at this; cases this
    have hreal : isReallyLoose ts ((j - 1 : Nat) : Int) = .ok true := by
      unfold isReallyLoose
      simp only [Int.toNat_natCast]
      exact hRL (j - 1) (by omega) (by omega)
    have e2 : ((j - 1 : Nat) : Int) - 1 = ((j - 2 : Nat) : Int) := by omega
    simp only [htb', if_true, e2]
    by_cases hn1 : nb = 1
    · subst hn1
      have hq' : ts[j - 2]? = some q := by
        have : j - 1 - 1 = j - 2 := by omega
        rw [← this]; exact hq
      simp only [pyGet_nat hq']
      cases pk with
      | start =>
        simp only [QK] at hqk
        simp [hqk, pure, Except.pure]
      | li =>
        simp only [QK] at hqk
        simp [hqk, pure, Except.pure]
      | block =>
        obtain ⟨ha, hb, _⟩ := hqk
        simp [ha, hb, hreal]
    · obtain ⟨b, hb, hbb⟩ := h2 (j - 2) (by omega) (by omega)
      obtain ⟨_, c1, c2, _⟩ := blank_tests hbb
      simp only [pyGet_nat hb]
      simp [c1, c2, hreal, hn1]
      omega


/-! ### one step of the loop -/

/-- a token that may not look back (the token before it is no blank line) is stepped over -/
theorem calcLoop_skip {ts : List Tok} {j : Nat} {cur p : Tok} (rest' : List Tok) (hc : inl cur = true)
    (hj : 1 ≤ j) (hp : ts[j - 1]? = some p) (hpb : p.isBlank = false) :
    calcLoop ts (cur :: rest') j 0 false = calcLoop ts rest' (j + 1) 0 false := by
  simp only [inl, quiet, Bool.and_eq_true, Bool.not_eq_true'] at hc
  obtain ⟨⟨⟨⟨⟨⟨c1, c2⟩, c3⟩, c4⟩, c5⟩, _⟩, _⟩ := hc
  have e1 : (j : Int) - 1 = ((j - 1 : Nat) : Int) := by omega
  simp only [calcLoop, forContainers, c1, c2, c3, c4, c5, Bool.false_eq_true, if_false, e1, pyGet_nat hp, hpb,
    bind, Except.bind, pure, Except.pure]

theorem calcLoop_skipMany {ts : List Tok} (tail : List Tok) :
    ∀ (seg : List Tok) (j : Nat) (p : Tok), (∀ t ∈ seg, inl t = true) → 1 ≤ j → ts[j - 1]? = some p →
      p.isBlank = false → ts.drop j = seg ++ tail →
      calcLoop ts (seg ++ tail) j 0 false = calcLoop ts tail (j + seg.length) 0 false := by
  intro seg
  induction seg with
  | nil => intro j p _ _ _ _ _; simp
  | cons c seg ih =>
    intro j p hall hj hp hpb hd
    have hc := hall c (by simp)
    obtain ⟨hcj, hd'⟩ := drop_cons_step (by simpa using hd)
    rw [List.cons_append, calcLoop_skip _ hc hj hp hpb]
    have hcb : c.isBlank = false := by
      simp only [inl, Bool.and_eq_true, Bool.not_eq_true'] at hc
      exact hc.1.2
    rw [ih (j + 1) c (fun t ht => hall t (by simp [ht])) (by omega) (by simpa using hcj) hcb hd']
    simp only [List.length_cons]
    congr 1; omega

/-- the step at a child boundary -/
theorem calcLoop_step {ts : List Tok} {i j : Nat} {s : Tok} {pk : PK} {nb : Nat} (hs : ts[i]? = some s)
    (hsl : s.isListStart = true) (hij : i < j)
    (hRL : ∀ m, i < m → m < j → reallyLooseLoop ts m 0 = .ok true) (h : Back ts j pk nb)
    (cur : Tok) (rest' : List Tok) (hq : quiet cur = true) :
    calcLoop ts (cur :: rest') j 0 false =
      if ((cur.isLi || (decide (1 ≤ nb) && cur.isBlock && !cur.isLrd && pk != .li)) &&
          (decide (1 ≤ nb) && !(nb == 1 && pk != .block))) = true then .ok true
      else calcLoop ts rest' (j + 1) 0 false := by
  have hitl := isTokenLoose_back hs hsl hij hRL h
  generalize (decide (1 ≤ nb) && !(nb == 1 && pk != .block)) = V at hitl ⊢
  simp only [quiet, Bool.and_eq_true, Bool.not_eq_true'] at hq
  obtain ⟨⟨⟨c1, c2⟩, c3⟩, c4⟩ := hq
  by_cases hli : cur.isLi = true
  · simp only [calcLoop, forContainers, c1, hli, Bool.false_eq_true, if_false, if_true, pure, Except.pure,
      beq_self_eq_true, hitl, Bool.true_or, Bool.true_and]
    cases V <;> simp
  · simp only [Bool.not_eq_true] at hli
    obtain ⟨t, ht, _, htb⟩ := back_prev h
    have e1 : (j : Int) - 1 = ((j - 1 : Nat) : Int) := by omega
    cases nb with
    | zero =>
      simp only [show (1 ≤ 0) = False by simp, decide_false] at htb
      simp only [calcLoop, forContainers, c1, c2, c3, c4, hli, Bool.false_eq_true, if_false, e1, pyGet_nat ht, htb,
        bind, Except.bind, pure, Except.pure]
      simp
    | succ n =>
      have htb' : t.isBlank = true := by rw [htb]; simp
      have hbl := handleBlankLine_back h cur
      simp only [calcLoop, forContainers, c1, c2, c3, c4, hli, Bool.false_eq_true, if_false, e1, pyGet_nat ht, htb',
        if_true, hbl, bind, Except.bind, pure, Except.pure, hitl]
      have : decide (1 ≤ n + 1) = true := by simp
      simp only [this, Bool.true_and, Bool.false_or]
      generalize (cur.isBlock && !cur.isLrd && pk != PK.li) = C
      cases C <;> cases V <;> simp

end Verif.Lemmas.GfmLoose
