/-
  The flanking tests of the faithful model on well-formed tokens are their pure cores; the cores are the CommonMark
  definitions (as propositions over the neighbouring characters).  Core Lean only.
-/
import Verif.Model.Emphasis
namespace Verif.Model.Emphasis

theorem mem_emphChars {strike : Bool} {c : Char} :
    (emphChars strike).contains c = true ↔ (c = '*' ∨ c = '_' ∨ (strike = true ∧ c = '~')) := by
  cases strike <;> simp [emphChars]

/-- on a token with both neighbour strings present and an emphasis character in front, `__is_potential_closer`
    raises nothing and returns its pure core -/
theorem potentialCloser_eq (strike : Bool) (t : Special) (c : Char) (tl ps fs : Str)
    (ht : t.text = c :: tl) (hc : (emphChars strike).contains c = true) (hp : t.prec = some ps) (hf : t.foll = some fs) :
    potentialCloser strike t = .ok (closerCore c t.text.length (precChar ps) (follChar fs)) := by
  have hc' := mem_emphChars.mp hc
  unfold potentialCloser closerCore
  simp only [head0, ht, isRight, isLeft, flankArgs, hp, hf, hc, bind, Except.bind, pure, Except.pure, Bool.not_true,
    Bool.false_eq_true, if_false]
  by_cases h1 : c = '*'
  · simp [h1]
  · by_cases h2 : c = '~'
    · subst h2; simp
      split <;> simp [*]
    · have h3 : c = '_' := by rcases hc' with h | h | ⟨_, h⟩ <;> simp_all
      subst h3
      simp
      cases rightFl (precChar ps) (follChar fs) <;> simp

theorem potentialOpener_eq (strike : Bool) (t : Special) (c : Char) (tl ps fs : Str)
    (ht : t.text = c :: tl) (hc : (emphChars strike).contains c = true) (hp : t.prec = some ps) (hf : t.foll = some fs) :
    potentialOpener strike t = .ok (openerCore c t.text.length (precChar ps) (follChar fs)) := by
  have hc' := mem_emphChars.mp hc
  unfold potentialOpener openerCore
  simp only [head0, ht, isRight, isLeft, flankArgs, hp, hf, hc, bind, Except.bind, pure, Except.pure, Bool.not_true,
    Bool.false_eq_true, if_false]
  by_cases h1 : c = '*'
  · simp [h1]
  · by_cases h2 : c = '~'
    · subst h2; simp
      split <;> simp [*]
    · have h3 : c = '_' := by rcases hc' with h | h | ⟨_, h⟩ <;> simp_all
      subst h3
      simp
      cases leftFl (precChar ps) (follChar fs) <;> simp

end Verif.Model.Emphasis
