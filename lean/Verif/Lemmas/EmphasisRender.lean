/-
  Losslessness in order: the source text a block list stands for (`render`) is unchanged by a pairing step when the
  paired tokens are uniform delimiter runs with `1 ≤ repeat ≤ len(text)`; the closing pass `__reset_token_text` turns
  `render` into `renderOut`.  Core Lean only.
-/
import Verif.Lemmas.EmphasisMain
namespace Verif.Model.Emphasis

theorem pySlice_replicate (n : Nat) (c : Char) (r : Int) (h0 : 0 ≤ r) (hn : r ≤ n) :
    pySlice (List.replicate n c) r = List.replicate r.toNat c := by
  have : r.toNat ≤ n := by omega
  simp [pySlice, h0, List.take_replicate, Nat.min_eq_left this]

theorem render_append (stk : List Special) (A B : List Block) : render stk (A ++ B) = render stk A ++ render stk B := by
  induction A with
  | nil => rfl
  | cons x A ih => cases x <;> simp [render, ih]

theorem render_congr (stk stk' : List Special) (A : List Block)
    (h : ∀ i ∈ spIds A, (stk'[i]?).map (fun t => (t.text, t.rep)) = (stk[i]?).map (fun t => (t.text, t.rep))) :
    render stk' A = render stk A := by
  induction A with
  | nil => rfl
  | cons x A ih =>
    cases x with
    | sp i =>
      have hi := h i (by simp)
      have ht := ih (fun j hj => h j (by simp [hj]))
      simp only [render, ht]
      congr 1
      cases h1 : stk'[i]? <;> cases h2 : stk[i]? <;> simp [h1, h2] at hi ⊢
      rw [hi.1, hi.2]
    | plain t => simp only [render]; rw [ih (by simpa using h)]
    | es n c => simp only [render]; rw [ih (by simpa using h)]
    | ee n c => simp only [render]; rw [ih (by simpa using h)]

/-- every active token with an emphasis character in front is a uniform run, `1 ≤ repeat_count ≤ len(token_text)` -/
def RunsOK (strike : Bool) (stk : List Special) : Prop :=
  ∀ (i : Nat) (t : Special) (c : Char) (tl : Str), stk[i]? = some t → t.active = true → t.text = c :: tl →
    (emphChars strike).contains c = true → t.text = List.replicate t.text.length c ∧ 1 ≤ t.rep ∧ t.rep ≤ t.text.length

theorem runsOK_step {strike : Bool} {stk : List Special} {o c : Nat} {blocks blocks' : List Block} {stk' : List Special}
    (hr : RunsOK strike stk) (hemph : ∃ ct ch tl, stk[c]? = some ct ∧ ct.text = ch :: tl ∧ (emphChars strike).contains ch = true)
    (h : PairStep stk o c blocks blocks' stk') : RunsOK strike stk' := by
  cases h with
  | mk P M R ot ct ch tl tl' ho hc hch hcc hoa hca hP hM hR hoc =>
  have hne : o ≠ c := by omega
  obtain ⟨ct', ch', tl'', hc', hcc', hem⟩ := hemph
  rw [hc] at hc'; cases hc'
  rw [hcc] at hcc'; cases hcc'
  have hL := emphLen_cases ot ct
  generalize emphLen ot ct = L at *
  have hro := hr o ot ch tl ho hoa hch hem
  have hrc := hr c ct ch tl' hc hca hcc hem
  intro i t' c' tl0 hget hact htext hc'
  rw [getElem?_step _ _ _ _ _ _ _ hne] at hget
  cases hs : stk[i]? with
  | none => simp [hs] at hget
  | some t =>
    simp only [hs, Option.map_some, Option.some.injEq] at hget
    subst hget
    simp only [Bool.and_eq_true, decide_eq_true_eq, Bool.not_eq_true', decide_eq_false_iff_not] at hact
    obtain ⟨⟨⟨ha, _⟩, hic⟩, hio⟩ := hact
    have hold := hr i t c' tl0 hs ha htext hc'
    refine ⟨hold.1, ?_⟩
    by_cases hjc : i = c
    · subst hjc
      have : t = ct := by rw [hs] at hc; exact Option.some.inj hc
      subst this
      have hk := hic rfl
      simp only [true_or, if_true]
      omega
    · by_cases hjo : i = o
      · subst hjo
        have : t = ot := by rw [hs] at ho; exact Option.some.inj ho
        subst this
        have hk := hio rfl
        simp only [or_true, if_true]
        omega
      · simp only [hjc, hjo, or_self, if_false]; exact hold.2

theorem render_keepIf (stk : List Special) (b : Bool) (i : Nat) :
    render stk (keepIf b (.sp i)) = if b then (match stk[i]? with
      | some t => (pySlice t.text t.rep).map Atom.chr | none => []) else [] := by
  cases b <;> simp [keepIf, render]
  cases stk[i]? <;> rfl

theorem render_step {strike : Bool} {stk : List Special} {o c : Nat} {blocks blocks' : List Block} {stk' : List Special}
    (hr : RunsOK strike stk) (hemph : ∃ ct ch tl, stk[c]? = some ct ∧ ct.text = ch :: tl ∧ (emphChars strike).contains ch = true)
    (h : PairStep stk o c blocks blocks' stk') : render stk' blocks' = render stk blocks := by
  cases h with
  | mk P M R ot ct ch tl tl' ho hc hch hcc hoa hca hP hM hR hoc =>
  have hne : o ≠ c := by omega
  obtain ⟨ct', ch', tl'', hc', hcc', hem⟩ := hemph
  rw [hc] at hc'; cases hc'
  rw [hcc] at hcc'; cases hcc'
  have hL := emphLen_cases ot ct
  generalize emphLen ot ct = L at *
  obtain ⟨huo, hro1, hro2⟩ := hr o ot ch tl ho hoa hch hem
  obtain ⟨huc, hrc1, hrc2⟩ := hr c ct ch tl' hc hca hcc hem
  have hget := getElem?_step stk o c L (decide (ot.rep - (L : Int) ≠ 0)) (decide (ct.rep - (L : Int) ≠ 0)) (spIds M) hne
  have hcong : ∀ (A : List Block), (∀ i ∈ spIds A, i ≠ o ∧ i ≠ c) →
      render (deactAll (spIds M) (markStk stk o c L (decide (ot.rep - (L : Int) ≠ 0)) (decide (ct.rep - (L : Int) ≠ 0)))) A
        = render stk A := by
    intro A hA
    apply render_congr
    intro i hi
    obtain ⟨h1, h2⟩ := hA i hi
    rw [hget i]
    cases stk[i]? <;> simp [h1, h2]
  have hwP := hcong P (fun i hi => by have := hP i hi; omega)
  have hwM := hcong M (fun i hi => by have := hM i hi; omega)
  have hwR := hcong R (fun i hi => by have := hR i hi; omega)
  have hgo := hget o
  have hgc := hget c
  simp only [ho, hc, Option.map_some, true_or, or_true, if_true] at hgo hgc
  simp only [render_append, render, render_keepIf, hwP, hwM, hwR, hgo, hgc, ho, hc, List.append_assoc]
  congr 1
  -- the two runs, each a replicate
  have eo : ∀ r : Int, 0 ≤ r → r ≤ ot.text.length → (pySlice ot.text r).map Atom.chr = List.replicate r.toNat (Atom.chr ch) := by
    intro r h0 hn; rw [huo, pySlice_replicate _ _ _ h0 (by simpa using hn)]; simp
  have ec : ∀ r : Int, 0 ≤ r → r ≤ ct.text.length → (pySlice ct.text r).map Atom.chr = List.replicate r.toNat (Atom.chr ch) := by
    intro r h0 hn; rw [huc, pySlice_replicate _ _ _ h0 (by simpa using hn)]; simp
  rw [eo ot.rep (by omega) hro2, ec ct.rep (by omega) hrc2]
  have e1 : (if decide (ot.rep - (L : Int) ≠ 0) = true then (pySlice ot.text (ot.rep - L)).map Atom.chr else [])
      ++ List.replicate L (Atom.chr ch) = List.replicate ot.rep.toNat (Atom.chr ch) := by
    by_cases hk : ot.rep - (L : Int) = 0
    · have : ot.rep.toNat = L := by omega
      simp [hk, this]
    · simp only [hk, ne_eq, not_false_eq_true, decide_true, if_true]
      rw [eo (ot.rep - L) (by omega) (by omega), List.replicate_append_replicate]
      congr 1; omega
  have e2 : List.replicate L (Atom.chr ch) ++
      (if decide (ct.rep - (L : Int) ≠ 0) = true then (pySlice ct.text (ct.rep - L)).map Atom.chr else [])
      = List.replicate ct.rep.toNat (Atom.chr ch) := by
    by_cases hk : ct.rep - (L : Int) = 0
    · have : ct.rep.toNat = L := by omega
      simp [hk, this]
    · simp only [hk, ne_eq, not_false_eq_true, decide_true, if_true]
      rw [ec (ct.rep - L) (by omega) (by omega), List.replicate_append_replicate]
      congr 1; omega
  rw [← List.append_assoc, e1, ← e2]
  simp [List.append_assoc]

end Verif.Model.Emphasis

namespace Verif.Model.Emphasis

theorem getElem?_resetText_sorted (b : List Block) (stk : List Special) (hs : (spIds b).Pairwise (· < ·)) (j : Nat) :
    (resetText b stk)[j]? =
      if j ∈ spIds b then stk[j]?.map (fun t => { t with text := pySlice t.text t.rep }) else stk[j]? := by
  induction b generalizing stk with
  | nil => simp [resetText]
  | cons x b ih =>
    cases x with
    | sp i =>
      simp only [spIds_cons_sp, List.pairwise_cons] at hs
      have hni : i ∉ spIds b := fun hm => by have := hs.1 i hm; omega
      simp only [resetText, ih _ hs.2, getElem?_upd, spIds_cons_sp, List.mem_cons]
      by_cases hji : j = i
      · subst hji; simp [hni]
      · simp [hji]
    | plain t => simpa [resetText] using ih stk (by simpa using hs)
    | es n c => simpa [resetText] using ih stk (by simpa using hs)
    | ee n c => simpa [resetText] using ih stk (by simpa using hs)

theorem renderOut_of (stk stk' : List Special) (A : List Block)
    (h : ∀ i ∈ spIds A, (stk'[i]?).map (·.text) = (stk[i]?).map (fun t => pySlice t.text t.rep)) :
    renderOut stk' A = render stk A := by
  induction A with
  | nil => rfl
  | cons x A ih =>
    cases x with
    | sp i =>
      have hi := h i (by simp)
      have ht := ih (fun j hj => h j (by simp [hj]))
      simp only [render, renderOut, ht]
      congr 1
      cases h1 : stk'[i]? <;> cases h2 : stk[i]? <;> simp [h1, h2] at hi ⊢
      rw [hi]
    | plain t => simp only [render, renderOut]; rw [ih (by simpa using h)]
    | es n c => simp only [render, renderOut]; rw [ih (by simpa using h)]
    | ee n c => simp only [render, renderOut]; rw [ih (by simpa using h)]

theorem renderOut_finish (cur0 : Nat) (σ : St) (hs : (spIds σ.blocks).Pairwise (· < ·)) :
    renderOut (finish cur0 σ).stk (finish cur0 σ).blocks = render σ.stk σ.blocks := by
  apply renderOut_of
  intro i hi
  have hi' : i ∈ spIds σ.blocks := hi
  simp only [finish, getElem?_clearFrom, getElem?_resetText_sorted _ _ hs, hi', if_true]
  cases σ.stk[i]? <;> simp
  split <;> rfl

/-- **losslessness in order** for a policy that pairs only emphasis-character tokens -/
theorem resolveWithFuel_render {pol : Policy} (hp : PolicyOK pol) (strike : Bool)
    (hemph : ∀ t, pol.closer t = .ok true → ∃ ch tl, t.text = ch :: tl ∧ (emphChars strike).contains ch = true)
    {fuel : Nat} {wall : Option Nat} {items : List Item} {out : Result}
    (hr : RunsOK strike (specials items)) (h : resolveWithFuel pol fuel wall items = .ok out) :
    renderOut out.stk out.blocks = render (specials items) (createStack items).1 := by
  obtain ⟨cur0, σ, hinv, hg, ho⟩ := resolve_reaches hp
    (fun b s => render s b = render (specials items) (createStack items).1 ∧ RunsOK strike s)
    ⟨by rw [createStack_snd], by rw [createStack_snd]; exact hr⟩
    (fun _ _ _ _ _ _ _ hgood hcl hps => by
      obtain ⟨ct, hgc, hc⟩ := hcl
      obtain ⟨ch, tl, htx, hem⟩ := hemph ct hc
      exact ⟨by rw [render_step hgood.2 ⟨ct, ch, tl, hgc, htx, hem⟩ hps]; exact hgood.1,
        runsOK_step hgood.2 ⟨ct, ch, tl, hgc, htx, hem⟩ hps⟩) h
  subst ho
  rw [renderOut_finish cur0 σ hinv.sorted]
  exact hg.1

end Verif.Model.Emphasis
