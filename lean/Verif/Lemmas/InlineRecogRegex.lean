/-
  The e-mail autolink regular expression: denotational semantics of the regex AST (`Verif.Model.InlineRecog.Re`, the
  pattern of the source as parsed by `re._parser` — tied by `tools/inlinerecoglib.py: regex_tie`) and the proof that
  `re.match` with this pattern decides exactly `parseValidEmailAutolink` (hence, by `email_spec`, the specification's
  e-mail address, or one followed by a final newline).

  Modelling assumption (CPython `re`, trusted base): `re.match(p, s)` succeeds iff SOME way of matching exists
  (backtracking is exhaustive for a pattern without atomic groups / possessive quantifiers); `$` matches at the end of
  the string or just before a newline that ends the string.
-/
import Verif.Lemmas.InlineRecogSpecHtml
namespace Verif.Model.InlineRecog
open Verif.Model.Recognisers

/-- membership in a class given by code-point ranges -/
def inSet (rs : List (Nat × Nat)) (c : Char) : Bool := rs.any fun p => p.1 ≤ c.toNat && c.toNat ≤ p.2

/-- `n`-fold concatenation -/
def Pow (P : Str → Prop) : Nat → Str → Prop
  | 0, u => u = []
  | n + 1, u => ∃ x y, u = x ++ y ∧ P x ∧ Pow P n y

/-- the language of a regular expression -/
def Re.L : Re → Str → Prop
  | .set rs, u => ∃ c, u = [c] ∧ inSet rs c = true
  | .seq a b, u => ∃ x y, u = x ++ y ∧ a.L x ∧ b.L y
  | .rep lo hi r, u => ∃ n, lo ≤ n ∧ (∀ h, hi = some h → n ≤ h) ∧ Pow r.L n u

/-- `re.match("^" + body + "$", s)` -/
def ReMatch (body : Re) (s : Str) : Prop := ∃ u rest, s = u ++ rest ∧ body.L u ∧ (rest = [] ∨ rest = ['\n'])

/-! ## the character classes -/

theorem inSet_eq_contains (l : Str) (rs : List (Nat × Nat))
    (hl : (l.map Char.toNat).all (· < 128) = true)
    (hP : ∀ n, 128 ≤ n → (rs.any fun p => p.1 ≤ n && n ≤ p.2) = false)
    (hfin : ∀ n : Fin 128, (l.map Char.toNat).contains n.val = (rs.any fun p => p.1 ≤ n.val && n.val ≤ p.2)) (c : Char) :
    inSet rs c = l.contains c := by
  unfold inSet
  rw [contains_eq_pred l (fun n => rs.any fun p => p.1 ≤ n && n ≤ p.2) hl hP hfin c]

theorem any_ge_false (rs : List (Nat × Nat)) (hb : rs.all (fun p => p.2 < 128) = true) (n : Nat) (h : 128 ≤ n) :
    (rs.any fun p => p.1 ≤ n && n ≤ p.2) = false := by
  rw [List.any_eq_false]
  intro p hp
  rw [List.all_eq_true] at hb
  have := hb p hp
  simp only [decide_eq_true_eq] at this
  simp only [Bool.and_eq_true, decide_eq_true_eq, not_and]
  intro _; omega

theorem inSet_alnum (c : Char) : inSet ALNUM_SET c = alnumChars.contains c :=
  inSet_eq_contains alnumChars ALNUM_SET (by decide) (any_ge_false _ (by decide)) (by decide) c
theorem inSet_alnumDash (c : Char) : inSet ALNUMDASH_SET c = alnumDashChars.contains c :=
  inSet_eq_contains alnumDashChars ALNUMDASH_SET (by decide) (any_ge_false _ (by decide)) (by decide) c
theorem inSet_local (c : Char) : inSet LOCAL_SET c = emailLocalChars.contains c :=
  inSet_eq_contains emailLocalChars LOCAL_SET (by decide) (any_ge_false _ (by decide)) (by decide) c
theorem inSet_at (c : Char) : inSet [(64, 64)] c = (c == '@') := by
  rw [inSet_eq_contains ['@'] [(64, 64)] (by decide) (any_ge_false _ (by decide)) (by decide) c]
  rw [List.contains_cons, List.contains_nil, Bool.or_false]
theorem inSet_dot (c : Char) : inSet [(46, 46)] c = (c == '.') := by
  rw [inSet_eq_contains ['.'] [(46, 46)] (by decide) (any_ge_false _ (by decide)) (by decide) c]
  rw [List.contains_cons, List.contains_nil, Bool.or_false]

/-! ## repetitions of a class -/

theorem pow_set (rs : List (Nat × Nat)) : ∀ (n : Nat) (u : Str),
    Pow (Re.L (.set rs)) n u ↔ (u.length = n ∧ ∀ c ∈ u, inSet rs c = true)
  | 0, u => by
    simp only [Pow]
    constructor
    · intro h; subst h; exact ⟨rfl, by intro c hc; cases hc⟩
    · intro h; exact List.length_eq_zero_iff.mp h.1
  | n + 1, u => by
    simp only [Pow, Re.L]
    constructor
    · rintro ⟨x, y, rfl, ⟨c, rfl, hc⟩, hy⟩
      have := (pow_set rs n y).mp hy
      refine ⟨by simp [this.1], ?_⟩
      intro d hd
      rcases List.mem_append.mp hd with h | h
      · simp only [List.mem_singleton] at h; rw [h]; exact hc
      · exact this.2 d h
    · rintro ⟨hl, hall⟩
      cases u with
      | nil => simp at hl
      | cons c r =>
        refine ⟨[c], r, rfl, ⟨c, rfl, hall c List.mem_cons_self⟩, ?_⟩
        exact (pow_set rs n r).mpr ⟨by simpa using hl, fun d hd => hall d (List.mem_cons_of_mem _ hd)⟩

theorem rep_set (rs : List (Nat × Nat)) (lo : Nat) (hi : Option Nat) (u : Str) :
    Re.L (.rep lo hi (.set rs)) u ↔ (lo ≤ u.length ∧ (∀ h, hi = some h → u.length ≤ h) ∧ ∀ c ∈ u, inSet rs c = true) := by
  simp only [Re.L]
  constructor
  · rintro ⟨n, h1, h2, h3⟩
    have := (pow_set rs n u).mp h3
    rw [this.1]; exact ⟨h1, h2, this.2⟩
  · rintro ⟨h1, h2, h3⟩
    exact ⟨u.length, h1, h2, (pow_set rs _ u).mpr ⟨rfl, h3⟩⟩

/-! ## a domain label -/

theorem all_contains_iff (l cs : Str) : l.all cs.contains = true ↔ ∀ c ∈ l, cs.contains c = true := by
  rw [List.all_eq_true]

theorem label_iff (l : Str) : labelRe.L l ↔ labelOk l = true := by
  unfold labelRe
  simp only [Re.L]
  constructor
  · rintro ⟨x, y, rfl, ⟨a, rfl, ha⟩, n, _, hn1, hp⟩
    rw [inSet_alnum] at ha
    have hn : n ≤ 1 := hn1 1 rfl
    have hadash : alnumDashChars.contains a = true := by
      rw [alnumDashChars_eq, ← alnumChars_eq, ha]; rfl
    match n, hn, hp with
    | 0, _, hp =>
      simp only [Pow] at hp; subst hp
      unfold labelOk
      simp only [List.append_nil, List.length_singleton, List.all_cons, List.all_nil, List.head?_cons,
        List.getLast?_singleton, Bool.and_true, hadash, ha, Bool.and_eq_true, decide_eq_true_eq]
      omega
    | 1, _, hp =>
      simp only [Pow] at hp
      obtain ⟨z, w, rfl, ⟨m, bb, rfl, hm, ⟨b, rfl, hb⟩⟩, rfl⟩ := hp
      have hm' := (rep_set ALNUMDASH_SET 0 (some 61) m).mp hm
      rw [inSet_alnum] at hb
      have hbdash : alnumDashChars.contains b = true := by
        rw [alnumDashChars_eq, ← alnumChars_eq, hb]; rfl
      have hlen := hm'.2.1 61 rfl
      unfold labelOk
      have hall : ([a] ++ (m ++ [b] ++ [])).all alnumDashChars.contains = true := by
        rw [all_contains_iff]
        intro c hc
        simp only [List.append_nil, List.singleton_append, List.mem_cons, List.mem_append, List.mem_nil_iff, or_false] at hc
        rcases hc with h | h | h
        · rw [h]; exact hadash
        · rw [← inSet_alnumDash]; exact hm'.2.2 c h
        · rw [h]; exact hbdash
      have hlast : ([a] ++ (m ++ [b] ++ [])).getLast? = some b := by
        have : [a] ++ (m ++ [b] ++ []) = (a :: m) ++ [b] := by simp
        rw [this, List.getLast?_concat]
      rw [hall, hlast]
      simp only [List.singleton_append, List.head?_cons, ha, hb, Bool.and_true, Bool.and_eq_true, decide_eq_true_eq,
        List.length_cons, List.length_append, List.length_nil]
      omega
  · intro h
    unfold labelOk at h
    simp only [Bool.and_eq_true, decide_eq_true_eq] at h
    obtain ⟨⟨⟨⟨h1, h2⟩, h3⟩, h4⟩, h5⟩ := h
    cases l with
    | nil => simp at h1
    | cons a t =>
      simp only [List.head?_cons] at h4
      have ha : inSet ALNUM_SET a = true := by rw [inSet_alnum]; exact h4
      by_cases ht : t = []
      · subst ht
        exact ⟨[a], [], rfl, ⟨a, rfl, ha⟩, 0, Nat.le_refl _, by intro h hh; injection hh with hh; omega, rfl⟩
      · have hsplit : t = t.dropLast ++ [t.getLast ht] := (List.dropLast_concat_getLast ht).symm
        have hlast : (a :: t).getLast? = some (t.getLast ht) := by
          have : a :: t = (a :: t.dropLast) ++ [t.getLast ht] := congrArg (a :: ·) hsplit
          rw [this, List.getLast?_concat]
        rw [hlast] at h5
        have hb : inSet ALNUM_SET (t.getLast ht) = true := by rw [inSet_alnum]; exact h5
        rw [all_contains_iff] at h3
        refine ⟨[a], t, rfl, ⟨a, rfl, ha⟩, 1, by omega, by intro h hh; injection hh with hh; omega, ?_⟩
        refine ⟨t, [], by simp, ?_, rfl⟩
        refine ⟨t.dropLast, [t.getLast ht], hsplit, ?_, ⟨_, rfl, hb⟩⟩
        apply (rep_set ALNUMDASH_SET 0 (some 61) t.dropLast).mpr
        refine ⟨by omega, ?_, ?_⟩
        · intro h hh; injection hh with hh
          have : t.dropLast.length = t.length - 1 := List.length_dropLast
          simp only [List.length_cons] at h2
          omega
        · intro c hc
          rw [inSet_alnumDash]
          exact h3 c (List.mem_cons_of_mem _ ((List.dropLast_sublist t).subset hc))

/-! ## the domain: a label, then `.` label, any number of times -/

def dotLabelRe : Re := .seq (.set [(46, 46)]) labelRe

/-- `.l1.l2…` -/
def tails (ls : List Str) : Str := ls.flatMap ('.' :: ·)

theorem pow_dotLabel : ∀ (n : Nat) (z : Str),
    Pow dotLabelRe.L n z ↔ ∃ ls : List Str, ls.length = n ∧ z = tails ls ∧ ∀ l ∈ ls, labelOk l = true
  | 0, z => by
    simp only [Pow]
    constructor
    · intro h; exact ⟨[], rfl, by rw [h]; rfl, by intro l hl; cases hl⟩
    · rintro ⟨ls, hl, hz, _⟩
      rw [List.length_eq_zero_iff.mp hl] at hz; exact hz
  | n + 1, z => by
    simp only [Pow]
    constructor
    · rintro ⟨x, y, rfl, hx, hy⟩
      obtain ⟨ls, hl, hz, hall⟩ := (pow_dotLabel n y).mp hy
      unfold dotLabelRe at hx
      simp only [Re.L] at hx
      obtain ⟨d, l, rfl, ⟨c, rfl, hc⟩, hlab⟩ := hx
      rw [inSet_dot] at hc
      have hcd : c = '.' := by simpa using hc
      subst hcd
      refine ⟨l :: ls, by simp [hl], ?_, ?_⟩
      · rw [hz]; simp [tails]
      · intro l' hl'
        rcases List.mem_cons.mp hl' with h | h
        · rw [h]; exact (label_iff l).mp hlab
        · exact hall l' h
    · rintro ⟨ls, hl, hz, hall⟩
      cases ls with
      | nil => simp at hl
      | cons l ls' =>
        refine ⟨'.' :: l, tails ls', by rw [hz]; simp [tails], ?_, ?_⟩
        · unfold dotLabelRe
          simp only [Re.L]
          exact ⟨['.'], l, rfl, ⟨'.', rfl, by rw [inSet_dot]; rfl⟩, (label_iff l).mpr (hall l List.mem_cons_self)⟩
        · exact (pow_dotLabel n (tails ls')).mpr ⟨ls', by simpa using hl, rfl, fun l' hl' => hall l' (List.mem_cons_of_mem _ hl')⟩

theorem noDot_of_labelOk {l : Str} (h : labelOk l = true) : '.' ∉ l := by
  unfold labelOk at h
  simp only [Bool.and_eq_true] at h
  have hall := h.1.1.2
  rw [all_contains_iff] at hall
  intro hm
  have := hall '.' hm
  revert this; decide

theorem first_dot_unique : ∀ (a a' b b' : Str), a ++ '.' :: b = a' ++ '.' :: b' → '.' ∉ a → '.' ∉ a' → a = a' ∧ b = b'
  | [], [], b, b', h, _, _ => by simp at h; exact ⟨rfl, h⟩
  | [], c :: a', b, b', h, _, h2 => by
    simp only [List.nil_append, List.cons_append, List.cons.injEq] at h
    exact absurd (by rw [← h.1]; exact List.mem_cons_self) h2
  | c :: a, [], b, b', h, h1, _ => by
    simp only [List.nil_append, List.cons_append, List.cons.injEq] at h
    exact absurd (by rw [h.1]; exact List.mem_cons_self) h1
  | c :: a, c' :: a', b, b', h, h1, h2 => by
    simp only [List.cons_append, List.cons.injEq] at h
    have := first_dot_unique a a' b b' h.2 (fun e => h1 (List.mem_cons_of_mem _ e)) (fun e => h2 (List.mem_cons_of_mem _ e))
    exact ⟨by rw [h.1, this.1], this.2⟩

theorem tails_cons (l : Str) (ls : List Str) : tails (l :: ls) = '.' :: l ++ tails ls := by simp [tails]

/-- splitting on `.` and checking every part = a label followed by `.`-label groups -/
theorem split_iff : ∀ (y acc : Str), '.' ∉ acc →
    ((splitOnChar '.' y acc).all labelOk = true ↔
      ∃ l0 ls, acc.reverse ++ y = l0 ++ tails ls ∧ labelOk l0 = true ∧ ∀ l ∈ ls, labelOk l = true)
  | [], acc, hacc => by
    rw [splitOnChar]
    simp only [List.all_cons, List.all_nil, Bool.and_true, List.append_nil]
    constructor
    · intro h; exact ⟨acc.reverse, [], by simp [tails], h, by intro l hl; cases hl⟩
    · rintro ⟨l0, ls, heq, h0, _⟩
      cases ls with
      | nil => simp [tails] at heq; rw [heq]; exact h0
      | cons l ls' =>
        exfalso
        rw [tails_cons] at heq
        have : '.' ∈ acc.reverse := by rw [heq]; simp
        exact hacc (List.mem_reverse.mp this)
  | c :: r, acc, hacc => by
    rw [splitOnChar]
    by_cases hc : (c == '.') = true
    · have hcd : c = '.' := by simpa using hc
      subst hcd
      simp only [beq_self_eq_true, if_true, List.all_cons, Bool.and_eq_true]
      have ih := split_iff r [] (by simp)
      simp only [List.reverse_nil, List.nil_append] at ih
      constructor
      · rintro ⟨h0, hrest⟩
        obtain ⟨l0', ls', heq, hl0', hall⟩ := ih.mp hrest
        refine ⟨acc.reverse, l0' :: ls', by rw [tails_cons, heq]; simp, h0, ?_⟩
        intro l hl
        rcases List.mem_cons.mp hl with h | h
        · rw [h]; exact hl0'
        · exact hall l h
      · rintro ⟨l0, ls, heq, h0, hall⟩
        cases ls with
        | nil =>
          exfalso
          simp [tails] at heq
          exact noDot_of_labelOk h0 (by rw [← heq]; simp)
        | cons l ls' =>
          rw [tails_cons] at heq
          have hu := first_dot_unique acc.reverse l0 r (l ++ tails ls') (by simpa using heq)
            (fun e => hacc (List.mem_reverse.mp e)) (noDot_of_labelOk h0)
          refine ⟨by rw [hu.1]; exact h0, ih.mpr ⟨l, ls', hu.2, hall l List.mem_cons_self, fun l' hl' => hall l' (List.mem_cons_of_mem _ hl')⟩⟩
    · have hcd : c ≠ '.' := by simpa using hc
      simp only [hc, Bool.false_eq_true, if_false]
      have ih := split_iff r (c :: acc) (by
        intro e; rcases List.mem_cons.mp e with h | h
        · exact hcd h.symm
        · exact hacc h)
      rw [ih]
      simp only [List.reverse_cons, List.append_assoc, List.singleton_append]

/-! ## the whole pattern -/

theorem emailBody_eq : emailBody =
    .seq (.rep 1 none (.set LOCAL_SET)) (.seq (.set [(64, 64)]) (.seq labelRe (.rep 0 none dotLabelRe))) := rfl

/-- the domain part of the pattern = splitting on `.` and checking every label -/
theorem domain_iff (y : Str) :
    (Re.seq labelRe (.rep 0 none dotLabelRe)).L y ↔ (splitOnChar '.' y []).all labelOk = true := by
  rw [split_iff y [] (by simp)]
  simp only [Re.L, List.reverse_nil, List.nil_append]
  constructor
  · rintro ⟨x, z, rfl, hx, n, _, _, hp⟩
    obtain ⟨ls, _, hz, hall⟩ := (pow_dotLabel n z).mp hp
    exact ⟨x, ls, by rw [hz], (label_iff x).mp hx, hall⟩
  · rintro ⟨l0, ls, heq, h0, hall⟩
    exact ⟨l0, tails ls, heq, (label_iff l0).mpr h0, ls.length, Nat.zero_le _, (by intro h hh; cases hh),
      (pow_dotLabel ls.length (tails ls)).mpr ⟨ls, rfl, rfl, hall⟩⟩

theorem takeWhile_all {p : Char → Bool} : ∀ (x : Str), (∀ d ∈ x, p d = true) → x.takeWhile p = x
  | [], _ => rfl
  | c :: r, h => by
    rw [List.takeWhile_cons, if_pos (h c List.mem_cons_self), takeWhile_all r (fun d hd => h d (List.mem_cons_of_mem _ hd))]

theorem local_not_at : emailLocalChars.contains '@' = false := by decide

/-- the language of the pattern between `^` and `$` is `emailCore` -/
theorem emailBody_iff (u : Str) : emailBody.L u ↔ emailCore u = true := by
  rw [emailBody_eq]
  simp only [Re.L]
  unfold emailCore
  constructor
  · rintro ⟨x, rest, rfl, hx, a, y, rfl, ⟨c, rfl, hc⟩, hy⟩
    rw [inSet_at] at hc
    have hcd : c = '@' := by simpa using hc
    subst hcd
    obtain ⟨n, hn1, _, hp⟩ := hx
    have hxs := (pow_set LOCAL_SET n x).mp hp
    have hxall : ∀ d ∈ x, emailLocalChars.contains d = true := fun d hd => by rw [← inSet_local]; exact hxs.2 d hd
    have htw : (x ++ (['@'] ++ y)).takeWhile emailLocalChars.contains = x := by
      rw [List.singleton_append, takeWhile_append_stop _ '@' y local_not_at x]
      exact takeWhile_all x hxall
    simp only [htw]
    have hne : x.isEmpty = false := by
      cases x with
      | nil => simp at hxs; omega
      | cons _ _ => rfl
    have hd1 : (x ++ (['@'] ++ y)).drop x.length = '@' :: y := by simp
    have hd2 : (x ++ (['@'] ++ y)).drop (x.length + 1) = y := by
      rw [← List.drop_drop, hd1]; rfl
    rw [hne, hd1, hd2]
    simp only [Bool.not_false, List.head?_cons, beq_self_eq_true, Bool.true_and]
    exact (domain_iff y).mp hy
  · intro h
    simp only [Bool.and_eq_true, Bool.not_eq_true'] at h
    obtain ⟨⟨hne, hat⟩, hdom⟩ := h
    generalize hloc : u.takeWhile emailLocalChars.contains = loc at hne hat hdom
    have hsplit : u = loc ++ u.drop loc.length := by
      rw [← hloc, ← dropWhile_eq_drop]; exact (List.takeWhile_append_dropWhile).symm
    cases hd : u.drop loc.length with
    | nil => rw [hd] at hat; simp at hat
    | cons c y =>
      rw [hd] at hat
      have hc : c = '@' := by simpa using hat
      subst hc
      have hy : u.drop (loc.length + 1) = y := by rw [← List.drop_drop, hd]; rfl
      rw [hy] at hdom
      refine ⟨loc, '@' :: y, by rw [← hd]; exact hsplit, ⟨loc.length, ?_, (by intro h hh; cases hh), ?_⟩, ['@'], y, rfl,
        ⟨'@', rfl, by rw [inSet_at]; rfl⟩, (domain_iff y).mpr hdom⟩
      · cases loc with
        | nil => simp at hne
        | cons _ _ => simp
      · apply (pow_set LOCAL_SET loc.length loc).mpr
        refine ⟨rfl, ?_⟩
        intro d hd'
        rw [inSet_local]
        rw [← hloc] at hd'
        exact mem_takeWhile_imp hd'

/-- **the regex**: `re.match(__valid_email_regex, s)` succeeds exactly when the modelled recogniser says so -/
theorem email_regex_iff (s : Str) : ReMatch emailBody s ↔ parseValidEmailAutolink s = true := by
  unfold ReMatch parseValidEmailAutolink
  simp only [Bool.or_eq_true, Bool.and_eq_true, beq_iff_eq]
  constructor
  · rintro ⟨u, rest, rfl, hu, hr | hr⟩
    · subst hr; left; rw [List.append_nil]; exact (emailBody_iff u).mp hu
    · subst hr; right
      refine ⟨by simp, ?_⟩
      rw [List.dropLast_concat]; exact (emailBody_iff u).mp hu
  · rintro (h | ⟨h1, h2⟩)
    · exact ⟨s, [], by simp, (emailBody_iff s).mpr h, Or.inl rfl⟩
    · refine ⟨s.dropLast, ['\n'], ?_, (emailBody_iff _).mpr h2, Or.inr rfl⟩
      have hne : s ≠ [] := by intro e; rw [e] at h1; cases h1
      have := List.dropLast_concat_getLast hne
      rw [List.getLast?_eq_some_getLast hne] at h1
      injection h1 with h1
      rw [h1] at this
      exact this.symm

end Verif.Model.InlineRecog
