/-
  Simulation, continued: the inline tokens directly inside a leaf block (no open link), links and images.
-/
import Verif.Lemmas.RegenLeafTotal
namespace Verif.Lemmas.RegenLeaf
open Verif.Model Verif.Model.RegenLeaf Verif.Model.RegenLeafSpec
open Verif.Model.Codec (Str plain SENT_START SENT_END WSPLIT)
open Verif.Model.Lines (splitOn joinOn splitNL joinNL NL)
open Verif.Lemmas.Lines

/-! ## `recombine` keeps the number of lines -/

theorem recombineGo_shape (sw : List Str) (post after : Bool) (hsw : ∀ l ∈ sw, NL ∉ l) :
    ∀ (ps : List Str) (idx : Nat) (rest : List Str) (j : Nat), (∀ l ∈ ps, NL ∉ l) →
      recombineGo sw post after ps idx = .ok (rest, j) → rest.length = ps.length ∧ ∀ l ∈ rest, NL ∉ l
  | [], idx, rest, j, _, h => by
    simp only [recombineGo, Except.ok.injEq, Prod.mk.injEq] at h
    rw [← h.1]; exact ⟨rfl, by simp⟩
  | p :: ps, idx, rest, j, hps, h => by
    rw [recombineGo] at h
    cases hg : sw[if post = true then idx else idx + 1]? with
    | none => rw [hg] at h; cases h
    | some ew =>
      rw [hg] at h
      simp only at h
      cases hr : recombineGo sw post after ps (idx + 1) with
      | error e => rw [hr] at h; cases h
      | ok r =>
        obtain ⟨rest', j'⟩ := r
        rw [hr] at h
        simp only [Except.ok.injEq, Prod.mk.injEq] at h
        have ih := recombineGo_shape sw post after hsw ps (idx + 1) rest' j' (fun l hl => hps l (by simp [hl])) hr
        have hew : NL ∉ ew := hsw ew (List.mem_of_getElem? hg)
        have hp : NL ∉ p := hps p (by simp)
        rw [← h.1]
        refine ⟨by simp [ih.1], ?_⟩
        intro l hl
        simp only [List.mem_cons] at hl
        rcases hl with rfl | hl
        · cases after <;> simp [hew, hp]
        · exact ih.2 l hl

theorem recombine_countNl (text ws : Str) (idx : Nat) (post : Bool) (k : Nat) (after : Bool) (r : Str) (j : Nat)
    (h : recombine text ws idx post k after = .ok (r, j)) : countNl r = countNl text := by
  unfold recombine at h
  cases hg : recombineGo (splitNL ws) post after ((splitNL text).drop k) idx with
  | error e => rw [hg] at h; cases h
  | ok x =>
    obtain ⟨rest, j'⟩ := x
    rw [hg] at h
    simp only [Except.ok.injEq, Prod.mk.injEq] at h
    have hsh := recombineGo_shape (splitNL ws) post after (splitOn_noSep NL ws) _ idx rest j'
      (fun l hl => splitOn_noSep NL text l (List.mem_of_mem_drop hl)) hg
    rw [← h.1]
    have hL : (splitOn NL text).length = countNl text + 1 := splitNL_length text
    have hne : (splitNL text).take k ++ rest ≠ [] := by
      intro e
      have h1 := congrArg List.length e
      simp only [splitNL, List.length_append, List.length_take, hsh.1, List.length_drop, List.length_nil, hL] at h1
      omega
    rw [countNl_joinNL_lines _ hne]
    · simp only [splitNL, List.length_append, List.length_take, hsh.1, List.length_drop, hL]; omega
    · intro l hl
      simp only [List.mem_append] at hl
      rcases hl with hl | hl
      · exact splitOn_noSep NL text l (List.mem_of_mem_take hl)
      · exact hsh.2 l hl

/-- the standard paragraph call succeeds and advances the index by the newlines of the text, when they fit -/
theorem recombine_para_ok (text pew : Str) (idx : Nat) (h : countNl text = 0 ∨ idx + countNl text ≤ countNl pew) :
    ∃ r, recombine text pew idx false 1 false = .ok (r, idx + countNl text) ∧ countNl r = countNl text := by
  by_cases h0 : countNl text = 0
  · have hc : text.contains NL = false := by
      cases hh : text.contains NL with
      | false => rfl
      | true => rw [contains_NL_iff] at hh; omega
    exact ⟨text, by rw [recombine_no_newline _ _ _ _ _ hc, h0]; rfl, rfl⟩
  · have hle := h.resolve_left h0
    have := recombine_pre text pew idx hle
    exact ⟨_, this, recombine_countNl _ _ _ _ _ _ _ _ this⟩

/-! ## consuming newlines of the open paragraph -/

theorem consume_para {a a' : AState} {id : Nat} {pew fin : Str} (hb : a.blk = some (.para id pew fin)) (k : Nat)
    (h : a.consume k = some a') : a' = { a with used := a.used + k } ∧ (k = 0 ∨ a.used + k ≤ countNl pew) := by
  unfold AState.consume at h
  rw [hb] at h
  simp only at h
  by_cases h0 : k = 0
  · rw [if_pos h0] at h
    simp only [Option.some.injEq] at h
    subst h0; exact ⟨by rw [← h]; cases a; rfl, Or.inl rfl⟩
  · rw [if_neg h0] at h
    by_cases hle : a.used + k ≤ countNl pew
    · rw [if_pos hle] at h
      simp only [Option.some.injEq] at h
      exact ⟨by rw [hb]; exact h.symm, Or.inr hle⟩
    · rw [if_neg hle] at h; cases h

theorem consume_other {a a' : AState} (hb : ∀ id pew fin, a.blk ≠ some (.para id pew fin)) (k : Nat)
    (h : a.consume k = some a') : a' = a := by
  unfold AState.consume at h
  split at h
  · next id pew fin heq => exact absurd heq (hb id pew fin)
  · simp only [Option.some.injEq] at h; exact h.symm

/-- after the paragraph's rehydrate index has advanced by `k` -/
theorem sim_advance {a : AState} {c : Ctx} (hs : Sim a c) {id : Nat} {pew fin : Str} (hb : a.blk = some (.para id pew fin)) (k : Nat) :
    Sim { a with used := a.used + k } (c.setRi id (a.used + k)) := by
  refine ⟨by simp only [Ctx.setRi]; exact hs.stack, ?_, hs.nolink⟩
  intro id' ew' fin' h d
  simp only at h
  rw [hb] at h
  simp only [Option.some.injEq, Blk.para.injEq] at h
  rw [← h.1]; exact getRi_setRi' _ _ _ _

/-! ## emphasis, autolinks -/

theorem sim_top {a : AState} {c : Ctx} (hs : Sim a c) (hl : a.links = 0) {b : Blk} (hb : a.blk = some b) :
    c.top = .ok b ∧ b.isLink = false :=
  ⟨top_of_stack (sim_stack_single hs hl b hb), isLink_false_of_ne (fun e => hs.nolink (by rw [hb, e]))⟩

theorem step_emph {a : AState} {c : Ctx} (hs : Sim a c) (prev : Option Tok) (hn : Bool) (hl : a.links = 0) {b : Blk} (hb : a.blk = some b)
    (ch : Str) (len : Int) (h1 : oneChar ch = true) : StepOK c prev hn (.emph ch len) a ∧ StepOK c prev hn (.endEmph ch len) a := by
  obtain ⟨htop, hnl⟩ := sim_top hs hl hb
  obtain ⟨x, rfl⟩ := (oneChar_iff ch).mp h1
  constructor <;>
    exact ⟨_, c, by simp only [process, hEmph, htop, hnl, Bool.false_eq_true, if_false, repeatString] <;> rfl, hs⟩

theorem step_uri {a : AState} {c : Ctx} (hs : Sim a c) (prev : Option Tok) (hn : Bool) (hl : a.links = 0) (txt : Str) (http angle : Bool)
    (h : (http || a.blk.isSome) = true) : StepOK c prev hn (.uri txt http angle) a := by
  cases http with
  | true => exact ⟨txt, c, by simp only [process, hUri, if_true], hs⟩
  | false =>
    simp only [Bool.false_or, Option.isSome_iff_exists] at h
    obtain ⟨b, hb⟩ := h
    obtain ⟨htop, hnl⟩ := sim_top hs hl hb
    exact ⟨_, c, by simp only [process, hUri, htop, hnl, Bool.false_eq_true, if_false] <;> rfl, hs⟩

theorem step_email {a : AState} {c : Ctx} (hs : Sim a c) (prev : Option Tok) (hn : Bool) (hl : a.links = 0) {b : Blk} (hb : a.blk = some b)
    (txt : Str) (angle : Bool) : StepOK c prev hn (.email txt angle) a := by
  obtain ⟨htop, hnl⟩ := sim_top hs hl hb
  exact ⟨_, c, by simp only [process, hEmail, htop, hnl, Bool.false_eq_true, if_false] <;> rfl, hs⟩

/-! ## text -/

theorem setextItems_ok (spw : List Str) : ∀ (vs : List Str) (idx : Nat), setextEntriesOK spw idx vs.length = true →
    ∃ rs, setextItems spw idx vs = .ok rs
  | [], idx, _ => ⟨[], rfl⟩
  | v :: vs, idx, h => by
    simp only [List.length_cons, setextEntriesOK, Bool.and_eq_true] at h
    obtain ⟨rs, hrs⟩ := setextItems_ok spw vs (idx + 1) h.2
    have hitem : ∃ r, setextItem idx v spw = .ok r := by
      have h1 := h.1
      unfold setextItem
      cases hg : spw[idx]? with
      | none => rw [hg] at h1; cases h1
      | some w =>
        rw [hg] at h1
        cases w with
        | nil => exact ⟨_, rfl⟩
        | cons w0 ws =>
          simp only at h1 ⊢
          split at h1
          · next x heq =>
            rw [heq]
            simp only [beq_iff_eq] at h1
            exact ⟨_, by simp only [h1, if_true] <;> rfl⟩
          · next x y heq => rw [heq]; exact ⟨_, rfl⟩
          · cases h1
    obtain ⟨r, hr⟩ := hitem
    exact ⟨r :: rs, by rw [setextItems, hr]; simp only [hrs]⟩

theorem setextText_ok (tt : Str) (e : Option Str)
    (h : countNl tt = 0 ∨ ∃ e', e = some e' ∧ setextEntriesOK (splitNL e') 0 (countNl tt + 1) = true) : ∃ m, setextText tt e = .ok m := by
  unfold setextText
  by_cases h0 : countNl tt = 0
  · have hc : tt.contains NL = false := by
      cases hh : tt.contains NL with
      | false => rfl
      | true => rw [contains_NL_iff] at hh; omega
    rw [hc]
    simp only [Bool.false_eq_true, if_false]
    split
    · split <;> exact ⟨_, rfl⟩
    · exact ⟨_, rfl⟩
  · obtain ⟨e', rfl, hok⟩ := h.resolve_left h0
    have hc : tt.contains NL = true := by rw [contains_NL_iff]; omega
    rw [hc]
    simp only [if_true]
    have hl : (splitNL tt).length = countNl tt + 1 := splitNL_length tt
    obtain ⟨rs, hrs⟩ := setextItems_ok (splitNL e') (splitNL tt) 0 (by rw [hl]; exact hok)
    rw [hrs]; exact ⟨_, rfl⟩

theorem truthy_iff (e : Option Str) : truthy e = true ↔ ∃ x xs, e = some (x :: xs) := by
  cases e with
  | none => simp [truthy]
  | some s => cases s <;> simp [truthy]

theorem step_text {a a' : AState} {c : Ctx} (hs : Sim a c) (prev : Option Tok) (hn : Bool) (hl : a.links = 0) (tt ew : Str) (e : Option Str)
    (hg : gStep a prev (.text tt ew e) = some a') : StepOK c prev hn (.text tt ew e) a' := by
  have hnl0 : ¬ (0 < a.links) := by omega
  simp only [gStep, if_neg hnl0] at hg
  cases hb : a.blk with
  | none => rw [hb] at hg; cases hg
  | some b =>
    rw [hb] at hg
    simp only at hg
    by_cases hp : (plain tt && plain ew) = true
    · rw [if_pos hp] at hg
      simp only [Bool.and_eq_true] at hp
      have hst := sim_stack_single hs hl b hb
      cases b with
      | link => exact absurd hb hs.nolink
      | atx =>
        simp only [Option.some.injEq] at hg; subst hg
        exact ⟨_, c, by simp only [process]; exact hText_atx c [] hst tt ew e hp.1 hp.2, hs⟩
      | fcode =>
        simp only [Option.some.injEq] at hg; subst hg
        exact ⟨_, c, by simp only [process]; exact hText_fcode c [] hst tt ew e hp.1 hp.2, hs⟩
      | html =>
        simp only [Option.some.injEq] at hg; subst hg
        exact ⟨_, c, by simp only [process]; exact hText_html c [] hst tt ew e hp.1 hp.2, hs⟩
      | icode cew ind =>
        simp only at hg
        by_cases hle : countNl tt ≤ countNl (cew ++ ew ++ ind)
        · rw [if_pos hle] at hg
          simp only [Option.some.injEq] at hg; subst hg
          exact ⟨_, c, by
            simp only [process]
            rw [hText_icode c [] cew ind hst tt ew e hp.1 hp.2, recombine_post_before _ _ hle], hs⟩
        · rw [if_neg hle] at hg; cases hg
      | setext hc n fin =>
        simp only at hg
        have hok : ∃ m, setextText tt e = .ok m := by
          apply setextText_ok
          by_cases h0 : countNl tt = 0
          · exact Or.inl h0
          · rw [if_neg h0] at hg
            cases e with
            | none => cases hg
            | some e' =>
              simp only at hg
              by_cases hh : setextEntriesOK (splitNL e') 0 (countNl tt + 1) = true
              · exact Or.inr ⟨e', rfl, hh⟩
              · rw [if_neg hh] at hg; cases hg
        have ha : a' = a := by
          by_cases h0 : countNl tt = 0
          · rw [if_pos h0] at hg; simp only [Option.some.injEq] at hg; exact hg.symm
          · rw [if_neg h0] at hg
            cases e with
            | none => cases hg
            | some e' =>
              simp only at hg
              by_cases hh : setextEntriesOK (splitNL e') 0 (countNl tt + 1) = true
              · rw [if_pos hh] at hg; simp only [Option.some.injEq] at hg; exact hg.symm
              · rw [if_neg hh] at hg; cases hg
        subst ha
        obtain ⟨m, hm⟩ := hok
        exact ⟨_, c, by
          simp only [process]
          rw [hText_setext c [] hc n fin hst tt ew e hp.1 hp.2, hm], hs⟩
      | para id pew fin =>
        simp only at hg
        by_cases h0 : countNl tt = 0
        · rw [if_pos h0] at hg
          simp only [Option.some.injEq] at hg; subst hg
          have hc : tt.contains NL = false := by
            cases hh : tt.contains NL with
            | false => rfl
            | true => rw [contains_NL_iff] at hh; omega
          exact ⟨_, c, by
            simp only [process]
            rw [hText_para c [] id pew fin hst tt ew e hp.1 hp.2, paraText_no_newline _ _ _ _ _ hc], hs⟩
        · rw [if_neg h0] at hg
          by_cases hcond : (decide (a.used + countNl tt ≤ countNl pew) && truthy e && decide (countNl tt ≤ countNl (e.getD []))) = true
          · rw [if_pos hcond] at hg
            simp only [Option.some.injEq] at hg; subst hg
            simp only [Bool.and_eq_true, decide_eq_true_eq] at hcond
            obtain ⟨x, xs, rfl⟩ := (truthy_iff e).mp hcond.1.2
            have hri : c.getRi id = a.used := hs.ri id pew fin hb 0
            obtain ⟨m1, hm1, hcm1⟩ := recombine_para_ok tt pew a.used (Or.inr hcond.1.1)
            have hc : tt.contains NL = true := by rw [contains_NL_iff]; omega
            have h2 := recombine_post_after m1 (x :: xs) (by rw [hcm1]; exact hcond.2)
            exact ⟨_, c.setRi id (a.used + countNl tt), by
              simp only [process]
              rw [hText_para c [] id pew fin hst tt ew _ hp.1 hp.2]
              unfold paraText
              rw [hc, hri, hm1]
              simp only [if_true, h2] <;> rfl, by rw [← hb]; exact sim_advance hs hb _⟩
          · rw [if_neg hcond] at hg; cases hg
    · rw [if_neg hp] at hg; cases hg

end Verif.Lemmas.RegenLeaf
