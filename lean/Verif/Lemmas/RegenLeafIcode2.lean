/-
  What the coalescing pass (`Verif.Model.Coalesce`) makes of the first-pass tokens of an indented code block without blank
  lines and without tabs, and list facts used to read the result as lines.
-/
import Verif.Lemmas.RegenLeafIcode
import Verif.Model.Coalesce
namespace Verif.Lemmas.RegenLeaf
open Verif.Model
open Verif.Model.Codec (Str)
open Verif.Model.Lines (joinOn joinNL NL)
open Verif.Lemmas.Lines
open Verif.Model.Recognisers (SP TAB)

/-- a first-pass text token: text, `extracted_whitespace` (no `end_whitespace`, no `tabified_text`; position not read) -/
def mkText (tt ew : Str) : Coalesce.Text := { tt := tt, ew := ew, endWs := none, tab := none, line := 0, col := 0 }

theorem joinNL_cons_flatten (a : Str) : ∀ (bs : List Str), joinNL (a :: bs) = a ++ (bs.map (NL :: ·)).flatten
  | [] => by simp [joinNL, joinOn]
  | b :: bs => by
    have ih := joinNL_cons_flatten b bs
    unfold joinNL at ih ⊢
    rw [joinOn_cons_cons, ih]
    simp

theorem replicate_no_tab (n : Nat) : (List.replicate n SP).contains TAB = false := by
  cases h : (List.replicate n SP).contains TAB with
  | false => rfl
  | true =>
    have hm : TAB ∈ List.replicate n SP := by simpa using h
    exact absurd (List.mem_replicate.mp hm).2 (by decide)

/-- the merge loop inside an indented code block of indent 4: every further text token `(k spaces, body)` with `k ≥ 4` hands its
first four spaces to the block token's `indented_whitespace` and `\n` + the other spaces + body to the merged text token -/
theorem loop_icode : ∀ (ls : List (Nat × Str)) (x : Coalesce.Text) (ind : Str), x.tab = none → (∀ l ∈ ls, 4 ≤ l.1) →
    Coalesce.loop false [.text x, .icode (List.replicate 4 SP) ind 0]
        (ls.map (fun l => Coalesce.Tok.text (mkText l.2 (List.replicate l.1 SP))) ++ [.other 0]) =
      .ok [.other 0,
           .text { x with tt := x.tt ++ (ls.map (fun l => NL :: (List.replicate (l.1 - 4) SP ++ l.2))).flatten },
           .icode (List.replicate 4 SP) (ind ++ (ls.map (fun _ => NL :: List.replicate 4 SP)).flatten) 0]
  | [], x, ind, _, _ => by
    simp [Coalesce.loop, Coalesce.step, Coalesce.Tok.isText, Coalesce.Tok.isBlank]
  | l :: ls, x, ind, hx, hk => by
    have h4 : 4 ≤ l.1 := hk l (by simp)
    have hstep : Coalesce.step false [.text x, .icode (List.replicate 4 SP) ind 0] (.text (mkText l.2 (List.replicate l.1 SP))) =
        .ok [.text { x with tt := x.tt ++ NL :: (List.replicate (l.1 - 4) SP ++ l.2) },
             .icode (List.replicate 4 SP) (ind ++ NL :: List.replicate 4 SP) 0] := by
      have hrls : Coalesce.rlsOf (.icode (List.replicate 4 SP) ind 0) = 4 := by
        show (if (List.replicate 4 SP).contains TAB = true then ((Recognisers.calcLength (List.replicate 4 SP) 0 : Nat) : Int)
          else ((List.replicate 4 SP).length : Nat)) = 4
        rw [replicate_no_tab]
        simp
      have hh : Coalesce.combineHandleWs x.ew 4 (List.replicate l.1 SP) =
          (List.replicate 4 SP, List.replicate (l.1 - 4) SP, x.ew) := by
        unfold Coalesce.combineHandleWs
        have : ¬ ((List.replicate l.1 SP).length : Int) < 4 := by simp; omega
        simp only [show ¬ ((4 : Int) = 0) by decide, show ¬ ((4 : Int) = -1) by decide, if_false, this]
        have e4 : (4 : Int).toNat = 4 := rfl
        rw [e4, List.take_replicate, List.drop_replicate]
        congr 2; omega
      simp only [Coalesce.step, Coalesce.Tok.isText, Coalesce.Tok.isBlank, Coalesce.Tok.isCode, Coalesce.Tok.isIcode, Bool.not_true,
        Bool.false_and, Bool.false_eq_true, if_false, Coalesce.combine, Coalesce.combineCore, hrls, hh, mkText, hx, Coalesce.truthy,
        Bool.or_false, Coalesce.addIndented, if_true, List.nil_append]
      rfl
    rw [List.map_cons, List.cons_append, Coalesce.loop, hstep]
    simp only
    rw [loop_icode ls { x with tt := x.tt ++ NL :: (List.replicate (l.1 - 4) SP ++ l.2) } (ind ++ NL :: List.replicate 4 SP) hx
      (fun y hy => hk y (by simp [hy]))]
    simp [List.append_assoc]

theorem zipWith_icode (k0 : Nat) (b0 : Str) : ∀ (ls : List (Nat × Str)), (∀ l ∈ ls, 4 ≤ l.1) →
    List.zipWith (fun p w => w ++ p) (b0 :: ls.map (fun l => List.replicate (l.1 - 4) SP ++ l.2))
        (List.replicate k0 SP :: ls.map (fun _ => List.replicate 4 SP)) =
      (List.replicate k0 SP ++ b0) :: ls.map (fun l => List.replicate l.1 SP ++ l.2) := by
  intro ls hk
  simp only [List.zipWith_cons_cons, List.cons.injEq, true_and]
  induction ls with
  | nil => rfl
  | cons l ls ih =>
    have h4 : 4 ≤ l.1 := hk l (by simp)
    simp only [List.map_cons, List.zipWith_cons_cons]
    rw [ih (fun y hy => hk y (by simp [hy])), ← List.append_assoc, List.replicate_append_replicate]
    congr 3; omega

end Verif.Lemmas.RegenLeaf
