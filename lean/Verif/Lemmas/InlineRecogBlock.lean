/-
  Lemmas about the inline recogniser models, part 5: the tag scanners of HTML block start condition 7
  (`HtmlHelper.is_complete_html_start_tag` / `…_end_tag` and their helpers) and `handle_backslashes`:
  totality, index bounds, fuel sufficiency.
-/
import Verif.Lemmas.InlineRecogTick
namespace Verif.Model.InlineRecog
open Verif.Model.Recognisers

/-! ## `extract_html_attribute_name`, `extract_optional_attribute_value` -/

theorem extractHtmlAttributeName_ok (s : Str) (i : Nat) :
    ∃ r, extractHtmlAttributeName s i = .ok r ∧ (r = -1 ∨ ((i : Int) < r ∧ r < (s.length : Int))) := by
  unfold extractHtmlAttributeName
  obtain ⟨b, hb, hbl⟩ := guardedIs_ok s i hAttrStart.contains
  rw [hb]
  cases b
  case false => exact ⟨-1, rfl, Or.inl rfl⟩
  case true =>
    have hl := hbl rfl
    simp only
    rw [collectWhileOneOfVerified_eq _ _ _ (by omega)]
    simp only
    have hge := scanTo_ge s hAttrOther.contains (i + 1)
    obtain ⟨b2, hb2, hbl2⟩ := guardedIs_ok s (scanTo s hAttrOther.contains (i + 1)) ['=', ' ', '/', '>'].contains
    rw [hb2]
    cases b2
    case false => exact ⟨-1, rfl, Or.inl rfl⟩
    case true =>
      have := hbl2 rfl
      exact ⟨_, rfl, Or.inr ⟨by omega, by omega⟩⟩

theorem optionalValueEnd_ok (s : Str) (nw2 : Nat) (h : nw2 ≤ s.length) :
    ∃ r, optionalValueEnd s nw2 = .ok r ∧ (r = -1 ∨ ((nw2 : Int) ≤ r ∧ r ≤ (s.length : Int))) := by
  unfold optionalValueEnd
  by_cases hl : nw2 < s.length
  · rw [if_pos hl, charAt_lt hl]
    simp only
    by_cases hq : (s[nw2] == '"' || s[nw2] == '\'') = true
    · rw [if_pos hq, collectUntilCharVerified_eq _ _ _ (by omega)]
      simp only
      have hge := scanTo_ge s (· != s[nw2]) (nw2 + 1)
      have hle := scanTo_le s (· != s[nw2]) (nw2 + 1) (by omega)
      by_cases he : (scanTo s (· != s[nw2]) (nw2 + 1) == s.length) = true
      · rw [if_pos he]; exact ⟨-1, rfl, Or.inl rfl⟩
      · rw [if_neg he]
        have : scanTo s (· != s[nw2]) (nw2 + 1) ≠ s.length := by simpa using he
        exact ⟨_, rfl, Or.inr ⟨by omega, by omega⟩⟩
    · rw [if_neg hq, collectUntilOneOfVerified_eq _ _ _ h]
      simp only
      have hge := scanTo_ge s (fun d => !hValueTerminators.contains d) nw2
      have hle := scanTo_le s (fun d => !hValueTerminators.contains d) nw2 h
      split
      · exact ⟨-1, rfl, Or.inl rfl⟩
      · exact ⟨_, rfl, Or.inr ⟨by omega, by omega⟩⟩
  · rw [if_neg hl]; exact ⟨-1, rfl, Or.inl rfl⟩

theorem extractOptionalAttributeValue_ok (s : Str) (vi : Nat) (h : vi ≤ s.length) :
    ∃ r, extractOptionalAttributeValue s vi = .ok r ∧ (r = -1 ∨ ((vi : Int) ≤ r ∧ r ≤ (s.length : Int))) := by
  unfold extractOptionalAttributeValue
  rw [extractSpacesVerified_eq _ _ h]
  simp only
  have hge := scanTo_ge s [SP, TAB].contains vi
  have hle := scanTo_le s [SP, TAB].contains vi h
  obtain ⟨b, hb, _⟩ := guardedIs_ok s (scanTo s [SP, TAB].contains vi) (· != '=')
  rw [hb]
  simp only
  by_cases hc : (b || decide (scanTo s [SP, TAB].contains vi ≥ s.length)) = true
  · rw [if_pos hc]; exact ⟨_, rfl, Or.inr ⟨by omega, by omega⟩⟩
  · rw [if_neg hc]
    have hlt : scanTo s [SP, TAB].contains vi < s.length := by
      simp only [Bool.or_eq_true, decide_eq_true_eq, not_or] at hc; omega
    rw [extractSpacesVerified_eq _ _ (by omega)]
    simp only
    have hge2 := scanTo_ge s [SP, TAB].contains (scanTo s [SP, TAB].contains vi + 1)
    have hle2 := scanTo_le s [SP, TAB].contains (scanTo s [SP, TAB].contains vi + 1) (by omega)
    obtain ⟨r, hr, hrb⟩ := optionalValueEnd_ok s _ hle2
    refine ⟨r, hr, ?_⟩
    rcases hrb with h1 | h1
    · exact Or.inl h1
    · exact Or.inr ⟨by omega, h1.2⟩

theorem isCompleteHtmlEndTag_ok (tag line : Str) (next : Nat) (h : next ≤ line.length) :
    ∃ r, isCompleteHtmlEndTag tag line next = .ok r := by
  unfold isCompleteHtmlEndTag
  rw [extractSpacesVerified_eq _ _ h]
  simp only
  split
  · next hc =>
    simp only [Bool.and_eq_true, decide_eq_true_eq] at hc
    rw [charAt_lt hc.2]; exact ⟨_, rfl⟩
  · exact ⟨_, rfl⟩

/-! ## `is_complete_html_start_tag` -/

theorem startTagBody_ok (line : Str) (nw : Nat) (h : nw < line.length) :
    ∃ r, startTagBody line nw = .ok r ∧ ∀ j ws, r = some (j, ws) → nw < j ∧ j ≤ line.length := by
  unfold startTagBody
  obtain ⟨a, ha, hab⟩ := extractHtmlAttributeName_ok line nw
  rw [ha]
  simp only
  by_cases ha1 : (a == -1) = true
  · rw [if_pos ha1]; exact ⟨none, rfl, by intro j ws hh; cases hh⟩
  · rw [if_neg ha1]
    have hane : a ≠ -1 := by simpa using ha1
    have hab' : (nw : Int) < a ∧ a < (line.length : Int) := by
      rcases hab with h1 | h1
      · exact absurd h1 hane
      · exact h1
    obtain ⟨v, hv, hvb⟩ := extractOptionalAttributeValue_ok line a.toNat (by omega)
    rw [hv]
    simp only
    by_cases hv1 : (v == -1) = true
    · rw [if_pos hv1]; exact ⟨none, rfl, by intro j ws hh; cases hh⟩
    · rw [if_neg hv1]
      have hvne : v ≠ -1 := by simpa using hv1
      have hvb' : ((a.toNat : Nat) : Int) ≤ v ∧ v ≤ (line.length : Int) := by
        rcases hvb with h1 | h1
        · exact absurd h1 hvne
        · exact h1
      rw [extractSpacesVerified_eq _ _ (by omega)]
      refine ⟨_, rfl, ?_⟩
      intro j ws hh
      simp only [Option.some.injEq, Prod.mk.injEq] at hh
      have hge := scanTo_ge line [SP, TAB].contains v.toNat
      have hle := scanTo_le line [SP, TAB].contains v.toNat (by omega)
      omega

/-- enough fuel: the loop of `is_complete_html_start_tag` returns; its index is `-1` (only on a non-empty line) or inside the line -/
theorem startTagLoop_ok (line : Str) (tagValid : Bool) : ∀ (fuel : Nat) (st : StartLoopSt),
    0 ≤ st.nw → st.nw ≤ (line.length : Int) → line.length - st.nw.toNat < fuel →
    ∃ st', startTagLoop line tagValid fuel st = .ok st' ∧
      ((st'.nw = -1 ∧ 0 < line.length) ∨ (0 ≤ st'.nw ∧ st'.nw ≤ (line.length : Int)))
  | 0, _, _, _, hf => by omega
  | fuel + 1, st, h0, hle, hf => by
    rw [startTagLoop]
    obtain ⟨g, hg, hgl⟩ := guardedIs_ok line st.nw.toNat (fun c => !['>', '/'].contains c)
    rw [hg]
    simp only
    by_cases hc : (tagValid && !st.ws.isEmpty && st.attrsValid && decide (0 ≤ st.nw) && g) = true
    · rw [if_pos hc]
      have hgt : g = true := by
        simp only [Bool.and_eq_true] at hc; exact hc.2
      have hl := hgl hgt
      obtain ⟨r, hr, hrb⟩ := startTagBody_ok line st.nw.toNat hl
      rw [hr]
      cases r with
      | none => exact ⟨_, rfl, Or.inl ⟨rfl, by omega⟩⟩
      | some p =>
        obtain ⟨j, ws⟩ := p
        have := hrb j ws rfl
        simp only
        exact startTagLoop_ok line tagValid fuel _ (by simp only; omega) (by simp only; omega) (by simp only [Int.toNat_natCast]; omega)
    · rw [if_neg hc]
      exact ⟨st, rfl, Or.inr ⟨h0, hle⟩⟩

theorem getLast?_eq_getElem {l : Str} (h : 0 < l.length) : l.getLast? = some (l[l.length - 1]'(by omega)) := by
  rw [List.getLast?_eq_getElem?, List.getElem?_eq_getElem]

/-- `is_complete_html_start_tag` returns whenever the line does not end with `/` … -/
theorem isCompleteHtmlStartTag_ok (tag line : Str) (next : Nat) (hn : next ≤ line.length) (hlast : line.getLast? ≠ some '/') :
    ∃ r, isCompleteHtmlStartTag tag line next = .ok r := by
  unfold isCompleteHtmlStartTag
  simp only
  rw [extractSpacesVerified_eq _ _ hn]
  simp only
  have hge := scanTo_ge line [SP, TAB].contains next
  have hle := scanTo_le line [SP, TAB].contains next hn
  obtain ⟨st, hst, hb⟩ := startTagLoop_ok line (isValidTagName tag && !block1Names.contains tag) (line.length + 1)
    ⟨(scanTo line [SP, TAB].contains next : Nat), slice line next (scanTo line [SP, TAB].contains next), true⟩
    (by simp only; omega) (by simp only; omega) (by simp only; omega)
  rw [hst]
  simp only
  have htail : ∃ t, startTagTail line st.nw = .ok t := by
    unfold startTagTail
    by_cases hlt : st.nw < (line.length : Int)
    · rw [if_pos hlt]
      have hpos : 0 < line.length := by
        rcases hb with ⟨_, h2⟩ | ⟨h1, _⟩
        · exact h2
        · omega
      have hlastc : line[line.length - 1]'(by omega) ≠ '/' := by
        intro e
        apply hlast
        rw [getLast?_eq_getElem hpos, e]
      -- `line[nw]` for `nw = -1` or an index of the line
      have hidx : ∀ k : Int, (k = -1 ∨ (0 ≤ k ∧ k < (line.length : Int))) →
          ∃ c, pyIndex line k = .ok c ∧ ((k = -1 ∨ k = (line.length : Int) - 1) → c ≠ '/') := by
        intro k hk
        unfold pyIndex
        rcases hk with hk | hk
        · subst hk
          have h1 : ¬ ((0 : Int) ≤ -1) := by omega
          have h2 : -(line.length : Int) ≤ -1 := by omega
          rw [if_neg h1, if_pos h2]
          have : line.length - (-(-1 : Int)).toNat = line.length - 1 := by simp
          rw [this, charAt_lt (by omega)]
          exact ⟨_, rfl, fun _ => hlastc⟩
        · rw [if_pos hk.1, charAt_lt (by omega)]
          refine ⟨_, rfl, ?_⟩
          intro hh
          rcases hh with hh | hh
          · omega
          · have : k.toNat = line.length - 1 := by omega
            simp only [this]; exact hlastc
      have hk1 : st.nw = -1 ∨ (0 ≤ st.nw ∧ st.nw < (line.length : Int)) := by
        rcases hb with ⟨h1, _⟩ | ⟨h1, _⟩
        · exact Or.inl h1
        · exact Or.inr ⟨h1, hlt⟩
      obtain ⟨c, hc, hcl⟩ := hidx st.nw hk1
      rw [hc]
      simp only
      by_cases hsl : (c == '/') = true
      · have hcs : c = '/' := by simpa using hsl
        simp only [hsl, if_true]
        -- the `/` is not the last character, so `line[nw + 1]` exists
        have hk2 : (st.nw + 1 = -1 ∨ (0 ≤ st.nw + 1 ∧ st.nw + 1 < (line.length : Int))) := by
          right
          rcases hk1 with h1 | h1
          · exact absurd hcs (hcl (Or.inl h1))
          · refine ⟨by omega, ?_⟩
            by_cases hh : st.nw + 1 < (line.length : Int)
            · exact hh
            · exact absurd hcs (hcl (Or.inr (by omega)))
        obtain ⟨c2, hc2, _⟩ := hidx (st.nw + 1) hk2
        rw [hc2]
        simp only
        split <;> exact ⟨_, rfl⟩
      · simp only [hsl, Bool.false_eq_true, if_false]
        rw [hc]
        simp only
        split <;> exact ⟨_, rfl⟩
    · rw [if_neg hlt]; exact ⟨_, rfl⟩
  obtain ⟨t, ht⟩ := htail
  rw [ht]
  exact ⟨_, rfl⟩

/-- … and the excluded point is real: a line that ends with ` /` makes `line_to_parse[non_whitespace_index]` raise `IndexError` -/
theorem isCompleteHtmlStartTag_excluded : isCompleteHtmlStartTag ['a'] [' ', '/'] 0 = .error .index := by
  unfold isCompleteHtmlStartTag
  rw [extractSpacesVerified_eq _ _ (by decide)]
  decide

/-! ## `handle_backslashes` -/

/-- what `index_any_of` returns lies at or after the start, inside the text, on one of the characters -/
theorem indexAnyOfLoop_spec (s : Str) (start : Nat) : ∀ (cs : Str) (first : Option Nat) (all : Str),
    (∀ c ∈ cs, c ∈ all) → (∀ n, first = some n → start ≤ n ∧ ∃ h : n < s.length, s[n] ∈ all) →
    ∀ n, indexAnyOfLoop s start cs first = some n → start ≤ n ∧ ∃ h : n < s.length, s[n] ∈ all
  | [], first, all, _, hf, n, h => by rw [indexAnyOfLoop] at h; exact hf n h
  | c :: cs, first, all, hcs, hf, n, h => by
    rw [indexAnyOfLoop] at h
    have hcs' : ∀ c ∈ cs, c ∈ all := fun x hx => hcs x (List.mem_cons_of_mem _ hx)
    cases hp : pyFind s [c] start with
    | none => rw [hp] at h; exact indexAnyOfLoop_spec s start cs first all hcs' hf n h
    | some f =>
      rw [hp] at h
      have hb := pyFind_bound hp
      have hat := pyFind_char_at hp
      simp only [List.length_cons, List.length_nil] at hb
      have hfl : f < s.length := by omega
      have hfc : s[f] ∈ all := by
        rw [List.getElem?_eq_getElem hfl] at hat
        injection hat with hat
        rw [hat]; exact hcs c List.mem_cons_self
      have hgoal : ∀ m, (start ≤ m ∧ ∃ h : m < s.length, s[m] ∈ all) →
          (if (m == 0) = true then some m else indexAnyOfLoop s start cs (some m)) = some n →
          start ≤ n ∧ ∃ h : n < s.length, s[n] ∈ all := by
        intro m hm hh
        by_cases h0 : (m == 0) = true
        · rw [if_pos h0] at hh; injection hh with hh; subst hh; exact hm
        · rw [if_neg h0] at hh
          exact indexAnyOfLoop_spec s start cs (some m) all hcs' (fun k hk => by injection hk with hk; subst hk; exact hm) n hh
      cases first with
      | none => exact hgoal f ⟨hb.1, hfl, hfc⟩ h
      | some g =>
        have hg := hf g rfl
        simp only at h
        by_cases hgf : g ≤ f
        · rw [Nat.min_eq_left hgf] at h; exact hgoal g hg h
        · rw [Nat.min_eq_right (by omega)] at h; exact hgoal f ⟨hb.1, hfl, hfc⟩ h

theorem indexAnyOf_spec (s cs : Str) (start n : Nat) (h : indexAnyOf s cs start = some n) :
    start ≤ n ∧ ∃ hl : n < s.length, s[n] ∈ cs :=
  indexAnyOfLoop_spec s start cs none cs (fun _ hc => hc) (by intro m hm; cases hm) n h

/-- one element of `handle_backslashes` at a `\` or `&`: moves forward inside the text, or `chr()` raises -/
theorem backslashesStep_ok (src : Str) (ni : Nat) (hl : ni < src.length) (hc : src[ni] = '\\' ∨ src[ni] = '&') :
    (∃ ns j, backslashesStep src ni = .ok (ns, j) ∧ ni < j ∧ j ≤ src.length) ∨ backslashesStep src ni = .error .value := by
  unfold backslashesStep
  rw [charAt_lt hl, liftR_ok]
  simp only
  rcases hc with hc | hc
  · rw [hc]
    simp only [beq_self_eq_true, if_true]
    obtain ⟨r, hr, h1, h2, _⟩ := handleInlineBackslash_ok src ni false hl hc
    rw [hr, liftR_ok]
    exact Or.inl ⟨_, _, rfl, h1, h2⟩
  · rw [hc]
    have : ('&' == '\\') = false := by decide
    simp only [this, Bool.false_eq_true, if_false, beq_self_eq_true, if_true]
    rcases handleCharacterReference_ok src ni hl hc with ⟨r, hr, h1, h2, _⟩ | hr
    · rw [hr]; exact Or.inl ⟨_, _, rfl, h1, h2⟩
    · rw [hr]; exact Or.inr rfl

/-- enough fuel: the loop of `handle_backslashes` returns (or `chr()` raises); it never runs out of fuel, never fails its assertion -/
theorem backslashesLoop_ok (src : Str) : ∀ (fuel start : Nat) (o : Option Nat) (acc : List Nat),
    (∀ ni, o = some ni → src.length - ni < fuel ∧ ∃ hl : ni < src.length, (src[ni] = '\\' ∨ src[ni] = '&')) →
    (∃ r, backslashesLoop src fuel start o acc = .ok r) ∨ backslashesLoop src fuel start o acc = .error .value
  | fuel, start, none, acc, _ => by cases fuel <;> exact Or.inl ⟨_, by rw [backslashesLoop]⟩
  | 0, _, some ni, _, h => by have := (h ni rfl).1; omega
  | fuel + 1, start, some ni, acc, h => by
    obtain ⟨hf, hl, hc⟩ := h ni rfl
    rw [backslashesLoop]
    rcases backslashesStep_ok src ni hl hc with ⟨ns, j, hs, h1, h2⟩ | hs
    · rw [hs]
      simp only
      apply backslashesLoop_ok src fuel
      intro ni' hni'
      obtain ⟨g1, g2, g3⟩ := indexAnyOf_spec _ _ _ _ hni'
      refine ⟨by omega, g2, ?_⟩
      simp only [List.mem_cons, List.mem_nil_iff, or_false] at g3
      exact g3
    · rw [hs]; exact Or.inr rfl

/-- `handle_backslashes` is total up to the `ValueError` of `chr()` -/
theorem handleBackslashes_ok (src : Str) :
    (∃ r, handleBackslashes src = .ok r) ∨ handleBackslashes src = .error .value := by
  unfold handleBackslashes
  apply backslashesLoop_ok
  intro ni hni
  obtain ⟨_, g2, g3⟩ := indexAnyOf_spec _ _ _ _ hni
  refine ⟨by omega, g2, ?_⟩
  simp only [List.mem_cons, List.mem_nil_iff, or_false] at g3
  exact g3

end Verif.Model.InlineRecog
