/-
  Columns of whitespace from two starting columns: equal when the columns are congruent modulo the tab stop (4), and when the
  whitespace has no tab.  Used to drop "the marker's index is its column" from the content-column statement.
-/
import Verif.Lemmas.ListStartsColumn
import Verif.Lemmas.ListStartsNested
namespace Verif.Model.ListStarts
open Verif.Model.Recognisers (Str TAB)
open Verif.Model.ListStartsSpec (colsFrom advance nextTabStop contentOffset padding)

theorem advance_congr : ∀ (ws : Str) (a b : Nat), a % 4 = b % 4 → ∃ d, advance a ws = a + d ∧ advance b ws = b + d := by
  intro ws
  induction ws with
  | nil => intro a b _; exact ⟨0, rfl, rfl⟩
  | cons c cs ih =>
    intro a b hab
    unfold advance
    by_cases hc : (c == '\t') = true
    · rw [if_pos hc, if_pos hc]
      obtain ⟨d, h1, h2⟩ := ih (nextTabStop a) (nextTabStop b) (by unfold nextTabStop; omega)
      refine ⟨(4 - a % 4) + d, ?_, ?_⟩
      · rw [h1]; unfold nextTabStop; omega
      · rw [h2]; unfold nextTabStop; omega
    · rw [if_neg hc, if_neg hc]
      obtain ⟨d, h1, h2⟩ := ih (a + 1) (b + 1) (by omega)
      exact ⟨1 + d, by rw [h1]; omega, by rw [h2]; omega⟩

/-- §2.2: the columns a run of whitespace spans depend on its starting column only modulo 4 -/
theorem colsFrom_congr (ws : Str) (a b : Nat) (h : a % 4 = b % 4) : colsFrom a ws = colsFrom b ws := by
  obtain ⟨d, h1, h2⟩ := advance_congr ws a b h
  unfold colsFrom
  rw [h1, h2]; omega

theorem colsFrom_notab_any (col : Nat) (w : Str) (h : TAB ∉ w) : colsFrom col w = w.length := by
  have : ∀ (col : Nat) (w : Str), TAB ∉ w → advance col w = col + w.length := by
    intro col w
    induction w generalizing col with
    | nil => intro _; rfl
    | cons c cs ih =>
      intro hw
      have hc : (c == '\t') = false := by
        rw [beq_eq_false_iff_ne]; intro hc; apply hw; rw [hc]; exact List.mem_cons_self ..
      simp only [advance, hc, Bool.false_eq_true, ↓reduceIte, List.length_cons]
      rw [ih _ (fun hm => hw (List.mem_cons_of_mem _ hm))]
      omega
  unfold colsFrom
  rw [this col w h]; omega

theorem contentOffset_shift (q i w n : Nat) (b : Bool) : contentOffset (q + i) w n b = q + contentOffset i w n b := by
  unfold contentOffset; omega

end Verif.Model.ListStarts
