/-
  `close_required_lists` is total on a stack with the document at the bottom: the two asserts inside its loop
  ("At least one token must have been returned.", "Current block must be a list.") cannot fail.
-/
import Verif.Lemmas.ListStartsNest
namespace Verif.Model.ListStarts
open Verif.Model.Recognisers (Str)

theorem length_filter_snoc_le (p : Entry → Bool) (l : Stack) (a : Entry) :
    ((l ++ [a]).filter p).length ≤ (l.filter p).length + 1 := by
  rw [List.filter_append, List.length_append]
  have : ([a].filter p).length ≤ 1 := by
    have := List.length_filter_le p [a]
    simpa using this
  omega

/-- more than one list above the document: one of them is strictly below the top -/
theorem two_lists_inner {st : Stack} (h : 1 < (listsAboveDoc st).length) :
    ∃ j e, j ≠ 0 ∧ j + 1 < st.length ∧ st[j]? = some e ∧ e.isList = true := by
  unfold listsAboveDoc at h
  rw [List.filter_reverse, List.length_reverse] at h
  rcases List.eq_nil_or_concat (st.drop 1) with hnil | ⟨mid, last, hmid⟩
  · rw [hnil] at h; simp at h
  · rw [List.concat_eq_append] at hmid
    rw [hmid] at h
    have h1 := length_filter_snoc_le Entry.isList mid last
    have hpos : 0 < (mid.filter Entry.isList).length := by omega
    obtain ⟨e, he⟩ := List.exists_mem_of_length_pos hpos
    rw [List.mem_filter] at he
    obtain ⟨i, hi, hie⟩ := List.getElem_of_mem he.1
    have hlen : st.length = mid.length + 2 := by
      have := congrArg List.length hmid
      simp only [List.length_drop, List.length_append, List.length_cons, List.length_nil] at this
      omega
    refine ⟨i + 1, e, by omega, by omega, ?_, he.2⟩
    have : (st.drop 1)[i]? = some e := by
      rw [hmid, List.getElem?_append_left hi, List.getElem?_eq_getElem hi, hie]
    rw [List.getElem?_drop] at this
    rw [Nat.add_comm]; exact this

theorem closeCalc_ok {st : Stack} (h : st.isEmpty = false) :
    ∃ p, closeCalc st = .ok ((listsAboveDoc st).length, p) := by
  unfold closeCalc
  rw [h]
  exact ⟨_, rfl⟩

theorem closeLoop_total (c : Nat) (allow : Bool) : ∀ (n : Nat) (st : Stack) (k : Nat), DocBottom st → st.length ≤ n →
    ∃ r, closeLoop c allow n st k = .ok r := by
  intro n
  induction n with
  | zero => intro st k hD hl; have := hD.ne_nil; omega
  | succ n ih =>
    intro st k hD hl
    have hne := hD.ne_nil
    have hemp : st.isEmpty = false := by cases st with | nil => simp at hne | cons a r => rfl
    obtain ⟨p, hp⟩ := closeCalc_ok hemp
    unfold closeLoop
    rw [hp]
    simp only [bind_ok]
    split
    · next hcond =>
      simp only [Bool.and_eq_true, decide_eq_true_eq] at hcond
      obtain ⟨j, e, hj0, hjl, hje, hel⟩ := two_lists_inner hcond.2
      obtain ⟨si, hsi, hsi0⟩ := downToList_pos st j e hje hel hj0 (st.length - 2) (by omega) (by omega)
      obtain ⟨si', hsi', hle, hp⟩ := downToList_ok st (st.length - 2) (by omega)
      rw [hsi] at hsi'
      injection hsi' with hsi'
      subst hsi'
      rcases hp with hp | ⟨e1, he1, hl1⟩
      · exact absurd hp hsi0
      · have hsilt : si + 1 < st.length := by omega
        rw [hsi]
        simp only [bind_ok]
        rw [closeTo_eq hD (si + 1)]
        have hmax : max (si + 1) 1 = si + 1 := by omega
        rw [hmax]
        have hl1' : (st.take (si + 1)).length = si + 1 := by rw [List.length_take]; omega
        simp only [bind_ok, hl1']
        have hne' : (si + 1 == st.length) = false := by rw [beq_eq_false_iff_ne]; omega
        rw [hne']
        simp only [Bool.false_eq_true, ↓reduceIte]
        have htop : negAt (st.take (si + 1)) 1 = .ok e1 := by
          unfold negAt
          rw [if_pos (by omega), hl1']
          have : (st.take (si + 1))[si + 1 - 1]? = some e1 := by
            rw [List.getElem?_take]; simp; exact he1
          rw [this]
        rw [htop]
        simp only [bind_ok, hl1, Bool.not_true, Bool.false_eq_true, ↓reduceIte]
        exact ih _ _ (hD.take _ (by omega)) (by omega)
    · exact ⟨_, rfl⟩

/-- **`close_required_lists` returns** on every stack with the document at the bottom (and only there), whatever the flag and
the column of the new list token -/
theorem closeRequiredLists_total {st : Stack} (hD : DocBottom st) (allow : Bool) (c : Nat) :
    ∃ r, closeRequiredLists st allow (some c) = .ok r :=
  closeLoop_total c allow st.length st 0 hD (Nat.le_refl _)

end Verif.Model.ListStarts
