/-
  The effect of every handler of the HTML generator on the output, generically in a chunk predicate (core Lean only).

  Every handler only APPENDS chunks to `output_html` (or replaces it by fresh chunks), never touches the transform
  stack, and sets `trailing` / `leading` to fresh chunks.  Each fresh chunk is either `structural` (a tag / newline of the
  renderer with only constant attributes) or one of the token-derived chunks listed by `tokChunk`.
  `run_generic` lifts this along `runToks`: a chunk predicate `Q` that holds for the structural chunks and for the
  token-derived chunks of every token processed (in the mode it is processed in) holds for every chunk of the output.
  `render_escapes` (`Q` = `Chunk.escaped`) and `render_provenance` (`Q` = `ChunkFrom ts`) are instances.
-/
import Verif.Lemmas.GfmEscapeSafe
namespace Verif.Lemmas.GfmEscape
open Verif.Model.GfmRender Verif.Model.GfmSpec
open Verif.Model.Codec (Str)

/-! ## Structural and token-derived chunks -/

/-- every attribute value is a constant of the renderer -/
def attrsFixed (as : List Attr) : Bool := as.all fun a => a.src == .fixed

/-- a chunk the renderer writes on its own: a tag / void element whose attributes are all `Src.fixed`, a newline -/
def structural : Chunk → Bool
  | .opn _ as => attrsFixed as
  | .void _ as => attrsFixed as
  | .cls _ => true
  | .nl => true
  | .payload _ _ => false

/-- the three mode flags of a `TransformState` -/
def modeOf (st : St) : Mode := ⟨st.inCode, st.inHtml, st.inSetext⟩

/-- the non-structural chunks the handler of token `t` writes when it runs in mode `m` -/
def tokChunk (m : Mode) (t : Tok) (c : Chunk) : Prop :=
  match t.body with
  | .text tt ws ew =>
    ∃ a, resolve tt = .ok a ∧
      (if m.inCode then ∃ l, resolve ws = .ok l ∧ c = .payload .codeBlockText (l ++ a)
       else if m.inHtml then ∃ l, resolve ws = .ok l ∧ c = .payload .htmlBlockText (l ++ a)
       else if m.inSetext then c = .payload .text a
       else ∃ s, textNormal tt ew a = .ok s ∧ c = .payload .text s)
  | .codeSpan sp => ∃ s, resolve sp = .ok s ∧ c = .payload .codeSpan s
  | .rawHtml tag => ∃ s, resolve tag = .ok s ∧ c = .payload .rawHtml ('<' :: (s ++ ['>']))
  | .uriAutolink text http =>
    c = .opn .a [⟨lit "href", (if http then lit "http://" else []) ++ percentEncode (uriPreEscape text), .href⟩]
      ∨ c = .payload .autolinkBody (htmlEscape text)
  | .emailAutolink text =>
    c = .opn .a [⟨lit "href", lit "mailto:" ++ text, .href⟩] ∨ c = .payload .emailBody text
  | .link u ti =>
    c = .opn .a ([⟨lit "href", u, .href⟩] ++ (if ti.isEmpty then [] else [⟨lit "title", ti, .title⟩]))
  | .image u a ti =>
    c = .void .img ([⟨lit "src", u, .src⟩, ⟨lit "alt", a, .alt⟩]
      ++ (if ti.isEmpty then [] else [⟨lit "title", ti, .title⟩]))
  | .fcode info => c = .opn .code (codeAttrs info)
  | _ => False

/-! ## The effect of a handler -/

/-- `st, o ↦ st', o'`: chunks of `o'` are chunks of `o` or satisfy `P`; the stack is unchanged; `trailing` / `leading`
are unchanged or consist of `P`-chunks; the mode flags become `m'`. -/
structure Eff (P : Chunk → Prop) (m' : Mode) (st : St) (o : Out) (st' : St) (o' : Out) : Prop where
  out : ∀ c ∈ o', c ∈ o ∨ P c
  stack : st'.stack = st.stack
  trailing : ∀ tr, st'.trailing = some tr → st.trailing = some tr ∨ ∀ c ∈ tr, P c
  leading : ∀ ld, st'.leading = some ld → st.leading = some ld ∨ ∀ c ∈ ld, P c
  mode : modeOf st' = m'

theorem Eff.mono {P Q : Chunk → Prop} {m' : Mode} {st st' : St} {o o' : Out} (hpq : ∀ c, P c → Q c)
    (h : Eff P m' st o st' o') : Eff Q m' st o st' o' :=
  ⟨fun c hc => (h.out c hc).imp id (hpq c), h.stack,
   fun tr htr => (h.trailing tr htr).imp id (fun hh c hc => hpq c (hh c hc)),
   fun ld hld => (h.leading ld hld).imp id (fun hh c hc => hpq c (hh c hc)), h.mode⟩

abbrev Struct : Chunk → Prop := fun c => structural c = true

theorem mem_optNL {c : Chunk} {b : Bool} (h : c ∈ optNL b) : c = .nl := by
  cases b <;> simp [optNL] at h; exact h

variable {ts : List Tok} {st st' : St} {o o' : Out}

macro "eff_mem" : tactic => `(tactic| (
  intro c hc
  try simp only [List.mem_append, List.mem_cons, List.not_mem_nil, or_false] at hc
  grind [mem_optNL, structural, attrsFixed]))

macro "eff_finish" : tactic => `(tactic| (
  refine ⟨?_, rfl, ?_, ?_, rfl⟩
  · eff_mem
  · intro tr htr
    first
      | exact Or.inl htr
      | (simp only [Option.some.injEq] at htr; subst htr; right; eff_mem)
  · intro tr htr
    first
      | exact Or.inl htr
      | (simp only [Option.some.injEq] at htr; subst htr; right; eff_mem)))

/-- split every `match` / `if` of the unfolded handler, discard the error branches, finish the `ok` branches -/
macro "eff_auto" h:ident : tactic => `(tactic| (
  repeat' split at $h:ident
  all_goals first | (cases $h:ident; done) | (cases $h:ident; eff_finish)))

/-! ### handlers that write structural chunks only, mode unchanged -/

theorem hParaStart_eff (h : hParaStart st o = .ok (st', o')) : Eff Struct (modeOf st) st o st' o' := by
  simp only [hParaStart, pure, Except.pure] at h; eff_auto h

theorem hParaEnd_eff (h : hParaEnd st o = .ok (st', o')) : Eff Struct (modeOf st) st o st' o' := by
  simp only [hParaEnd, pure, Except.pure] at h; eff_auto h

theorem hBlank_eff (h : hBlank st o = .ok (st', o')) : Eff Struct (modeOf st) st o st' o' := by
  simp only [hBlank, pure, Except.pure] at h; eff_auto h

theorem hHardBreak_eff (h : hHardBreak st o = .ok (st', o')) : Eff Struct (modeOf st) st o st' o' := by
  simp only [hHardBreak, pure, Except.pure] at h; eff_auto h

theorem hTbreak_eff (h : hTbreak st o = .ok (st', o')) : Eff Struct (modeOf st) st o st' o' := by
  simp only [hTbreak, pure, Except.pure] at h; eff_auto h

theorem hNoOutput_eff (h : hNoOutput st o = .ok (st', o')) : Eff Struct (modeOf st) st o st' o' := by
  simp only [hNoOutput, pure, Except.pure] at h; eff_auto h

theorem hTaskList_eff {ch : Str} (h : hTaskList st o ch = .ok (st', o')) : Eff Struct (modeOf st) st o st' o' := by
  simp only [hTaskList, pure, Except.pure] at h; eff_auto h

theorem hEmphStart_eff {ch : Str} {n : Nat} (h : hEmphStart st o ch n = .ok (st', o')) :
    Eff Struct (modeOf st) st o st' o' := by
  simp only [hEmphStart, pure, Except.pure] at h; eff_auto h

theorem hEmphEnd_eff {p : Nat} (h : hEmphEnd ts st o p = .ok (st', o')) : Eff Struct (modeOf st) st o st' o' := by
  simp only [hEmphEnd, pure, Except.pure] at h; eff_auto h

theorem hAtxStart_eff {n : Nat} (h : hAtxStart ts st o n = .ok (st', o')) : Eff Struct (modeOf st) st o st' o' := by
  simp only [hAtxStart, pure, Except.pure, bind, Except.bind] at h; eff_auto h

theorem hAtxEnd_eff (h : hAtxEnd ts st o = .ok (st', o')) : Eff Struct (modeOf st) st o st' o' := by
  simp only [hAtxEnd, pure, Except.pure, bind, Except.bind] at h; eff_auto h

theorem hBqStart_eff (h : hBqStart st o = .ok (st', o')) : Eff Struct (modeOf st) st o st' o' := by
  simp only [hBqStart, pure, Except.pure] at h; eff_auto h

theorem hBqEnd_eff (h : hBqEnd ts st o = .ok (st', o')) : Eff Struct (modeOf st) st o st' o' := by
  simp only [hBqEnd, pure, Except.pure, bind, Except.bind] at h; eff_auto h

theorem hListStart_eff {ord : Option Nat} (h : hListStart ts st o ord = .ok (st', o')) :
    Eff Struct (modeOf st) st o st' o' := by
  simp only [hListStart, pure, Except.pure, bind, Except.bind] at h; eff_auto h

theorem hListEnd_eff {u : Bool} (h : hListEnd ts st o u = .ok (st', o')) : Eff Struct (modeOf st) st o st' o' := by
  simp only [hListEnd, pure, Except.pure, bind, Except.bind] at h; eff_auto h

theorem hLi_eff (h : hLi st o = .ok (st', o')) : Eff Struct (modeOf st) st o st' o' := by
  simp only [hLi, pure, Except.pure] at h; eff_auto h

theorem hLinkEnd_eff (h : hLinkEnd st o = .ok (st', o')) : Eff Struct (modeOf st) st o st' o' := by
  simp only [hLinkEnd, pure, Except.pure] at h; eff_auto h

/-! ### handlers that write structural chunks only and change a mode flag -/

theorem hSetextStart_eff {ch : Str} (h : hSetextStart st o ch = .ok (st', o')) :
    Eff Struct { modeOf st with inSetext := true } st o st' o' := by
  simp only [hSetextStart, pure, Except.pure] at h; eff_auto h

theorem hSetextEnd_eff (h : hSetextEnd ts st o = .ok (st', o')) :
    Eff Struct { modeOf st with inSetext := false } st o st' o' := by
  simp only [hSetextEnd, pure, Except.pure, bind, Except.bind] at h; eff_auto h

theorem hFencedEnd_eff {f : Bool} (h : hFencedEnd ts st o f = .ok (st', o')) :
    Eff Struct { modeOf st with inCode := false } st o st' o' := by
  simp only [hFencedEnd, pure, Except.pure, bind, Except.bind] at h; eff_auto h

theorem hIcodeStart_eff (h : hIcodeStart st o = .ok (st', o')) :
    Eff Struct { modeOf st with inCode := true } st o st' o' := by
  simp only [hIcodeStart, pure, Except.pure] at h; eff_auto h

theorem hIcodeEnd_eff (h : hIcodeEnd st o = .ok (st', o')) :
    Eff Struct { modeOf st with inCode := false } st o st' o' := by
  simp only [hIcodeEnd, pure, Except.pure] at h; eff_auto h

theorem hHtmlStart_eff (h : hHtmlStart ts st o = .ok (st', o')) :
    Eff Struct { modeOf st with inHtml := true } st o st' o' := by
  simp only [hHtmlStart, pure, Except.pure, bind, Except.bind] at h; eff_auto h

theorem hHtmlEnd_eff (h : hHtmlEnd st o = .ok (st', o')) :
    Eff Struct { modeOf st with inHtml := false } st o st' o' := by
  simp only [hHtmlEnd, pure, Except.pure] at h; eff_auto h

/-! ### handlers that write token-derived chunks -/

/-- the chunks the handler of `t` may write in mode `m` -/
abbrev TokP (m : Mode) (t : Tok) : Chunk → Prop := fun c => structural c = true ∨ tokChunk m t c

theorem hText_eff {ln : Nat} {tt ws : Str} {ew : Option Str} (h : hText st o tt ws ew = .ok (st', o')) :
    Eff (TokP (modeOf st) ⟨ln, .text tt ws ew⟩) (modeOf st) st o st' o' := by
  simp only [hText, pure, Except.pure, bind, Except.bind] at h
  repeat' split at h
  all_goals first | (cases h; done) | (cases h; refine ⟨?_, rfl, fun _ h => Or.inl h, fun _ h => Or.inl h, rfl⟩)
  all_goals
    intro c hc
    simp only [List.mem_append, List.mem_cons, List.not_mem_nil, or_false] at hc
    simp only [TokP, tokChunk, modeOf]
    grind [structural]

theorem hCodeSpan_eff {ln : Nat} {sp : Str} (h : hCodeSpan st o sp = .ok (st', o')) :
    Eff (TokP (modeOf st) ⟨ln, .codeSpan sp⟩) (modeOf st) st o st' o' := by
  simp only [hCodeSpan, pure, Except.pure, bind, Except.bind] at h
  repeat' split at h
  all_goals first | (cases h; done) | (cases h; refine ⟨?_, rfl, fun _ h => Or.inl h, fun _ h => Or.inl h, rfl⟩)
  all_goals
    intro c hc
    simp only [List.mem_append, List.mem_cons, List.not_mem_nil, or_false] at hc
    simp only [TokP, tokChunk]
    grind [structural, attrsFixed]

theorem hRawHtml_eff {ln : Nat} {sp : Str} (h : hRawHtml st o sp = .ok (st', o')) :
    Eff (TokP (modeOf st) ⟨ln, .rawHtml sp⟩) (modeOf st) st o st' o' := by
  simp only [hRawHtml, pure, Except.pure, bind, Except.bind] at h
  repeat' split at h
  all_goals first | (cases h; done) | (cases h; refine ⟨?_, rfl, fun _ h => Or.inl h, fun _ h => Or.inl h, rfl⟩)
  all_goals
    intro c hc
    simp only [List.mem_append, List.mem_cons, List.not_mem_nil, or_false] at hc
    simp only [TokP, tokChunk]
    grind [structural, attrsFixed]

theorem hUriAutolink_eff {ln : Nat} {s : Str} {b : Bool} (h : hUriAutolink st o s b = .ok (st', o')) :
    Eff (TokP (modeOf st) ⟨ln, .uriAutolink s b⟩) (modeOf st) st o st' o' := by
  simp only [hUriAutolink, pure, Except.pure] at h
  cases h; refine ⟨?_, rfl, fun _ h => Or.inl h, fun _ h => Or.inl h, rfl⟩
  all_goals
    intro c hc
    simp only [List.mem_append, List.mem_cons, List.not_mem_nil, or_false] at hc
    simp only [TokP, tokChunk]
    grind [structural, attrsFixed]

theorem hEmailAutolink_eff {ln : Nat} {s : Str} (h : hEmailAutolink st o s = .ok (st', o')) :
    Eff (TokP (modeOf st) ⟨ln, .emailAutolink s⟩) (modeOf st) st o st' o' := by
  simp only [hEmailAutolink, pure, Except.pure] at h
  cases h; refine ⟨?_, rfl, fun _ h => Or.inl h, fun _ h => Or.inl h, rfl⟩
  all_goals
    intro c hc
    simp only [List.mem_append, List.mem_cons, List.not_mem_nil, or_false] at hc
    simp only [TokP, tokChunk]
    grind [structural, attrsFixed]

theorem hLinkStart_eff {ln : Nat} {u ti : Str} (h : hLinkStart st o u ti = .ok (st', o')) :
    Eff (TokP (modeOf st) ⟨ln, .link u ti⟩) (modeOf st) st o st' o' := by
  simp only [hLinkStart, pure, Except.pure] at h
  cases h; refine ⟨?_, rfl, fun _ h => Or.inl h, fun _ h => Or.inl h, rfl⟩
  all_goals
    intro c hc
    simp only [List.mem_append, List.mem_cons, List.not_mem_nil, or_false] at hc
    simp only [TokP, tokChunk]
    grind [structural, attrsFixed]

theorem hImage_eff {ln : Nat} {u a ti : Str} (h : hImage st o u a ti = .ok (st', o')) :
    Eff (TokP (modeOf st) ⟨ln, .image u a ti⟩) (modeOf st) st o st' o' := by
  simp only [hImage, pure, Except.pure] at h
  cases h; refine ⟨?_, rfl, fun _ h => Or.inl h, fun _ h => Or.inl h, rfl⟩
  all_goals
    intro c hc
    simp only [List.mem_append, List.mem_cons, List.not_mem_nil, or_false] at hc
    simp only [TokP, tokChunk]
    grind [structural, attrsFixed]

theorem hFencedStart_eff {ln : Nat} {info : Str} (h : hFencedStart st o info = .ok (st', o')) :
    Eff (TokP (modeOf st) ⟨ln, .fcode info⟩) { modeOf st with inCode := true } st o st' o' := by
  simp only [hFencedStart, pure, Except.pure] at h
  cases h; refine ⟨?_, rfl, fun _ h => Or.inl h, fun _ h => Or.inl h, rfl⟩
  all_goals
    intro c hc
    simp only [List.mem_append, List.mem_cons, List.not_mem_nil, or_false] at hc
    simp only [TokP, tokChunk]
    grind [structural, attrsFixed, mem_optNL]

/-! ## The dispatch, one loop iteration, the whole loop -/

theorem Eff.ofStruct {m m' : Mode} {t : Tok} {st st' : St} {o o' : Out} (h : Eff Struct m' st o st' o') :
    Eff (TokP m t) m' st o st' o' := h.mono fun _ hc => Or.inl hc

/-- `apply_transformation`: the dispatch resets `trailing` / `leading`, then the handler of the token runs -/
theorem applyTransformation_eff {t : Tok} (h : applyTransformation ts st o t = .ok (st', o')) :
    Eff (TokP (modeOf st) t) ((modeOf st).step t) { st with trailing := none, leading := none } o st' o' := by
  obtain ⟨ln, b⟩ := t
  cases b with
  | para => exact (hParaStart_eff h).ofStruct
  | blank => exact (hBlank_eff h).ofStruct
  | tbreak => exact (hTbreak_eff h).ofStruct
  | lrd => exact (hNoOutput_eff h).ofStruct
  | htmlBlock => exact (hHtmlStart_eff h).ofStruct
  | icode => exact (hIcodeStart_eff h).ofStruct
  | hardBreak => exact (hHardBreak_eff h).ofStruct
  | ulist => exact (hListStart_eff (ts := ts) (ord := none) h).ofStruct
  | li => exact (hLi_eff h).ofStruct
  | eos => exact (hNoOutput_eff h).ofStruct
  | pragma => exact (hNoOutput_eff h).ofStruct
  | frontMatter => exact (hNoOutput_eff h).ofStruct
  | atx n => exact (hAtxStart_eff h).ofStruct
  | setext ch => exact (hSetextStart_eff h).ofStruct
  | fcode info => exact hFencedStart_eff h
  | text tt ws ew => exact hText_eff h
  | codeSpan s => exact hCodeSpan_eff h
  | uriAutolink s b => exact hUriAutolink_eff h
  | emailAutolink s => exact hEmailAutolink_eff h
  | rawHtml s => exact hRawHtml_eff h
  | emphasis ch n => exact (hEmphStart_eff h).ofStruct
  | link u ti => exact hLinkStart_eff h
  | image u a ti => exact hImage_eff h
  | bquote bl => exact (hBqStart_eff h).ofStruct
  | olist n => exact (hListStart_eff (ts := ts) (ord := some n) h).ofStruct
  | taskList c => exact (hTaskList_eff h).ofStruct
  | end_ k p f =>
    cases k with
    | para => exact (hParaEnd_eff h).ofStruct
    | atx => exact (hAtxEnd_eff h).ofStruct
    | setext => exact (hSetextEnd_eff h).ofStruct
    | fcode => exact (hFencedEnd_eff h).ofStruct
    | icode => exact (hIcodeEnd_eff h).ofStruct
    | htmlBlock => exact (hHtmlEnd_eff h).ofStruct
    | emphasis => exact (hEmphEnd_eff h).ofStruct
    | link => exact (hLinkEnd_eff h).ofStruct
    | bquote => exact (hBqEnd_eff h).ofStruct
    | ulist => exact (hListEnd_eff h).ofStruct
    | olist => exact (hListEnd_eff h).ofStruct
    | _ => cases h



/-- the `__apply_trailing_text` part of one loop iteration -/
def trailStep (st : St) (o : Out) : H :=
  match st.trailing with
  | some tr => applyTrailing st o tr
  | none => pure (st, o)

/-- the `__apply_leading_text` part of one loop iteration -/
def leadStep (st : St) (o : Out) : St × Out :=
  match st.leading with
  | some ld => applyLeading st o ld
  | none => (st, o)

theorem stepTok_ok {t : Tok} (h : stepTok ts (st, o) t = .ok (st', o')) :
    ∃ st1 o1 st2 o2, applyTransformation ts st o t = .ok (st1, o1) ∧ trailStep st1 o1 = .ok (st2, o2)
      ∧ st' = { (leadStep st2 o2).1 with idx := (leadStep st2 o2).1.idx + 1 } ∧ o' = (leadStep st2 o2).2 := by
  unfold stepTok at h
  cases hv : applyTransformation ts st o t with
  | error e => simp [hv, bind, Except.bind] at h
  | ok v =>
    obtain ⟨st1, o1⟩ := v
    cases hw : trailStep st1 o1 with
    | error e =>
      exfalso
      unfold trailStep at hw
      simp only [hv, bind, Except.bind] at h
      split at hw
      · rename_i tr htr
        simp only [htr, hw] at h
        cases h
      · cases hw
    | ok w =>
      obtain ⟨st2, o2⟩ := w
      refine ⟨st1, o1, st2, o2, rfl, hw, ?_⟩
      unfold trailStep at hw
      simp only [hv, bind, Except.bind] at h
      split at hw
      · rename_i tr htr
        simp only [htr, hw, pure, Except.pure] at h
        cases h
        exact ⟨rfl, rfl⟩
      · rename_i htr
        cases hw
        simp only [htr, pure, Except.pure] at h
        cases h
        exact ⟨rfl, rfl⟩

/-- the invariant: every chunk of the output and of every stack entry satisfies `Q` -/
def GInv (Q : Chunk → Prop) (st : St) (o : Out) : Prop :=
  (∀ c ∈ o, Q c) ∧ (∀ e ∈ st.stack, ∀ c ∈ e, Q c)

theorem trailStep_inv {Q : Chunk → Prop} {st1 st2 : St} {o1 o2 : Out} (hnl : Q .nl) (hi : GInv Q st1 o1)
    (htr : ∀ tr, st1.trailing = some tr → ∀ c ∈ tr, Q c) (h : trailStep st1 o1 = .ok (st2, o2)) :
    GInv Q st2 o2 ∧ st2.leading = st1.leading ∧ modeOf st2 = modeOf st1 := by
  unfold trailStep at h
  split at h
  · rename_i tr he
    unfold applyTrailing at h
    split at h
    · cases h
    · rename_i top stack hst
      simp only [pure, Except.pure] at h
      cases h
      refine ⟨⟨?_, ?_⟩, rfl, rfl⟩
      · intro c hc
        simp only [List.mem_append] at hc
        have htop : ∀ c ∈ top, Q c := hi.2 top (by rw [hst]; exact List.mem_cons_self)
        rcases hc with ((((hc | hc) | hc) | hc) | hc) | hc
        · exact htop c hc
        · rw [mem_optNL hc]; exact hnl
        · rw [mem_optNL hc]; exact hnl
        · exact hi.1 c hc
        · rw [mem_optNL hc]; exact hnl
        · exact htr tr he c hc
      · intro e he'
        exact hi.2 e (by rw [hst]; exact List.mem_cons_of_mem _ he')
  · cases h
    exact ⟨hi, rfl, rfl⟩

theorem leadStep_inv {Q : Chunk → Prop} {st2 : St} {o2 : Out} (hnl : Q .nl) (hi : GInv Q st2 o2)
    (hld : ∀ ld, st2.leading = some ld → ∀ c ∈ ld, Q c) :
    GInv Q (leadStep st2 o2).1 (leadStep st2 o2).2 ∧ modeOf (leadStep st2 o2).1 = modeOf st2 := by
  unfold leadStep
  split
  · rename_i ld he
    refine ⟨⟨?_, ?_⟩, rfl⟩
    · intro c hc
      simp [applyLeading] at hc
    · intro e he'
      simp only [applyLeading, List.mem_cons] at he'
      rcases he' with rfl | he'
      · intro c hc
        simp only [List.mem_append] at hc
        rcases hc with (hc | hc) | hc
        · exact hi.1 c hc
        · rw [mem_optNL hc]; exact hnl
        · exact hld ld he c hc
      · exact hi.2 e he'
  · exact ⟨hi, rfl⟩

theorem stepTok_inv {Q : Chunk → Prop} {t : Tok} (hs : ∀ c, structural c = true → Q c)
    (ht : ∀ c, tokChunk (modeOf st) t c → Q c) (hi : GInv Q st o)
    (h : stepTok ts (st, o) t = .ok (st', o')) : GInv Q st' o' ∧ modeOf st' = (modeOf st).step t := by
  obtain ⟨st1, o1, st2, o2, h1, h2, rfl, rfl⟩ := stepTok_ok h
  have hnl : Q .nl := hs _ rfl
  have e := (applyTransformation_eff h1).mono (Q := Q) (fun c hc => hc.elim (hs c) (ht c))
  have i1 : GInv Q st1 o1 :=
    ⟨fun c hc => (e.out c hc).elim (hi.1 c) id, fun x hx => hi.2 x (by rw [← e.stack]; exact hx)⟩
  have t1 : ∀ tr, st1.trailing = some tr → ∀ c ∈ tr, Q c :=
    fun tr htr => (e.trailing tr htr).elim (fun hh => by cases hh) id
  have l1 : ∀ ld, st1.leading = some ld → ∀ c ∈ ld, Q c :=
    fun ld hld => (e.leading ld hld).elim (fun hh => by cases hh) id
  obtain ⟨i2, hl2, m2⟩ := trailStep_inv hnl i1 t1 h2
  obtain ⟨i3, m3⟩ := leadStep_inv hnl i2 (by rw [hl2]; exact l1)
  refine ⟨i3, ?_⟩
  rw [← e.mode, ← m2, ← m3]
  rfl

/-- `Q` holds for the token-derived chunks of every token of the list, each taken in the mode it is processed in -/
def TokQ (Q : Chunk → Prop) : List Tok → Mode → Prop
  | [], _ => True
  | t :: rest, m => (∀ c, tokChunk m t c → Q c) ∧ TokQ Q rest (m.step t)

/-- lock-step induction along `runToks ts rest acc` (`ts` = the whole stream, used for look-ups only) -/
theorem run_generic {Q : Chunk → Prop} (hs : ∀ c, structural c = true → Q c) (ts : List Tok) :
    ∀ (rest : List Tok) (acc : St × Out) (st : St) (o : Out), TokQ Q rest (modeOf acc.1) → GInv Q acc.1 acc.2 →
      runToks ts rest acc = .ok (st, o) → GInv Q st o
  | [], acc, st, o, _, hi, h => by
    simp only [runToks, pure, Except.pure] at h
    cases h; exact hi
  | t :: rest, (st0, o0), st, o, hq, hi, h => by
    simp only [runToks] at h
    split at h
    · cases h
    · rename_i acc' hstep
      obtain ⟨st1, o1⟩ := acc'
      obtain ⟨i1, m1⟩ := stepTok_inv hs hq.1 hi hstep
      exact run_generic hs ts rest (st1, o1) st o (by rw [m1]; exact hq.2) i1 h

/-- the generic theorem for `transformRun` -/
theorem transformRun_generic {Q : Chunk → Prop} (hs : ∀ c, structural c = true → Q c) (ts : List Tok)
    (hq : TokQ Q ts {}) (st : St) (o : Out) (h : transformRun ts = .ok (st, o)) : ∀ c ∈ o, Q c :=
  (run_generic hs ts ts ({}, []) st o hq ⟨fun _ hc => (nomatch hc), fun _ he => (nomatch he)⟩ h).1
end Verif.Lemmas.GfmEscape
