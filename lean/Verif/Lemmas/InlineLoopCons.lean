/-
  Conservation and order: the turns tile the text; what one turn does to the pending text and to `inline_blocks`.
-/
import Verif.Lemmas.InlineLoopPos
namespace Verif.Model.InlineLoop
open Verif.Model.Recognisers (Str slice)

/-! ## the turns tile the text -/

/-- the two source ranges of a turn: the text piece in front of the handled character, and what the handler (or the line end) consumed -/
def Iter.ranges (src : Str) (it : Iter) : Str := slice src it.start it.next ++ slice src it.next it.newIndex

theorem Chain_tiling {src starts : Str} : ∀ {s : Nat} {tr : List Iter} {e : Nat}, Chain src starts s tr e →
    (tr.flatMap (Iter.ranges src)) ++ src.drop e = src.drop s
  | s, [], e, h => by simp only [Chain] at h; subst h; simp
  | s, it :: r, e, h => by
    obtain ⟨g1, g2, g3, _, _, _, g7⟩ := h
    have ih := Chain_tiling g7
    simp only [List.flatMap_cons, Iter.ranges, List.append_assoc]
    rw [ih, g1, ← drop_eq_slice_append src (Nat.le_of_lt g3), ← drop_eq_slice_append src g2]

/-- no index is handled twice: the starts of the turns increase strictly -/
theorem Chain_sorted {src starts : Str} : ∀ {s : Nat} {tr : List Iter} {e : Nat}, Chain src starts s tr e →
    tr.Pairwise (fun a b => a.newIndex ≤ b.start ∧ a.next < b.next)
  | s, [], e, _ => List.Pairwise.nil
  | s, it :: r, e, h => by
    obtain ⟨_, g2, g3, _, _, _, g7⟩ := h
    refine List.Pairwise.cons ?_ (Chain_sorted g7)
    intro b hb
    obtain ⟨pre, post, hsplit⟩ := List.append_of_mem hb
    have key : ∀ (r : List Iter) (s' : Nat) (pre : List Iter), Chain src starts s' r e → r = pre ++ b :: post → s' ≤ b.start := by
      intro r
      induction r with
      | nil => intro s' pre _ h; cases pre <;> cases h
      | cons x r ih =>
        intro s' pre hc he
        obtain ⟨c1, c2, c3, _, _, _, c7⟩ := hc
        cases pre with
        | nil => simp only [List.nil_append, List.cons.injEq] at he; rw [← he.1, c1]; exact Nat.le_refl _
        | cons y pre =>
          simp only [List.cons_append, List.cons.injEq] at he
          have := ih x.newIndex pre c7 he.2
          omega
    have h1 := key r it.newIndex pre g7 hsplit
    obtain ⟨c1, _, _, _⟩ := Chain_split r it.newIndex e pre b post g7 hsplit
    exact ⟨h1, by omega⟩

/-! ## order: the list only grows, and two text tokens never meet -/

/-- no two neighbours are both (plain) text tokens -/
def NoAdjText : List Tok → Prop
  | [] => True
  | [_] => True
  | a :: b :: r => ¬ (a.isText = true ∧ b.isText = true) ∧ NoAdjText (b :: r)

/-- the list is empty or its last token is not a (plain) text token -/
def EndsNonText (l : List Tok) : Prop := ∀ t, l.getLast? = some t → t.isText = false

theorem NoAdjText_of_all_nonText : ∀ (l : List Tok), (∀ t ∈ l, t.isText = false) → NoAdjText l
  | [], _ => trivial
  | [_], _ => trivial
  | a :: b :: r, h => ⟨(by intro hh; rw [h a (by simp)] at hh; cases hh.1),
      NoAdjText_of_all_nonText (b :: r) (fun t ht => h t (List.mem_cons_of_mem _ ht))⟩

theorem NoAdjText_append : ∀ (a b : List Tok), NoAdjText a → NoAdjText b →
    (∀ x y, a.getLast? = some x → b.head? = some y → ¬ (x.isText = true ∧ y.isText = true)) → NoAdjText (a ++ b)
  | [], b, _, hb, _ => hb
  | [x], [], _, _, _ => trivial
  | [x], y :: b, _, hb, h => ⟨h x y rfl rfl, hb⟩
  | x :: x' :: a, b, ha, hb, h => by
    obtain ⟨h1, h2⟩ := ha
    refine ⟨h1, NoAdjText_append (x' :: a) b h2 hb ?_⟩
    intro u v hu hv
    exact h u v (by rw [List.getLast?_cons_cons]; exact hu) hv

theorem EndsNonText_append_of (a b : List Tok) (hb : b ≠ []) (h : ∀ t ∈ b, t.isText = false) : EndsNonText (a ++ b) := by
  intro t ht
  rw [List.getLast?_append] at ht
  cases hb' : b.getLast? with
  | none => exact absurd (List.getLast?_eq_none_iff.mp hb') hb
  | some x =>
    rw [hb'] at ht
    simp only [Option.some_or, Option.some.injEq] at ht
    subst ht
    exact h x (List.mem_of_getLast? hb')

/-- what the order theorem asks of a handler answer: it leaves `inline_blocks` alone and hands back no plain text token -/
structure OrderOK (q : Request) (r : Response) : Prop where
  untouched : r.blocks = q.blocks
  noText : ∀ t ∈ r.newTokens, t.isText = false

/-- `__cleanup_after_handling` + `__create_new_text_token`: the list grows at its end, by at most one text token followed by the new
tokens; and neighbours stay apart -/
theorem cleanupCreate_order (st : St) (m : Mid) (hb : m.resp.blocks = st.blocks) (hn : ∀ t ∈ m.resp.newTokens, t.isText = false)
    (h1 : NoAdjText st.blocks) (h2 : EndsNonText st.blocks) :
    (∃ extra, (cleanupCreate st m).blocks = st.blocks ++ extra) ∧ NoAdjText (cleanupCreate st m).blocks ∧
      EndsNonText (cleanupCreate st m).blocks := by
  have key : ∀ (tx : Tok) (nt : List Tok), tx.isText = true → nt ≠ [] → (∀ t ∈ nt, t.isText = false) →
      NoAdjText (st.blocks ++ [tx] ++ nt) ∧ EndsNonText (st.blocks ++ [tx] ++ nt) := by
    intro tx nt _ hne hnt
    refine ⟨?_, EndsNonText_append_of _ _ hne hnt⟩
    rw [List.append_assoc]
    refine NoAdjText_append _ _ h1 ?_ ?_
    · cases nt with
      | nil => exact absurd rfl hne
      | cons y nt => exact ⟨(by intro hh; rw [hnt y (by simp)] at hh; cases hh.2), NoAdjText_of_all_nonText _ hnt⟩
    · intro x y hx _ hh; rw [h2 x hx] at hh; cases hh.1
  have key2 : ∀ (nt : List Tok), nt ≠ [] → (∀ t ∈ nt, t.isText = false) →
      NoAdjText (st.blocks ++ nt) ∧ EndsNonText (st.blocks ++ nt) := by
    intro nt hne hnt
    refine ⟨NoAdjText_append _ _ h1 (NoAdjText_of_all_nonText _ hnt) ?_, EndsNonText_append_of _ _ hne hnt⟩
    intro x y hx _ hh; rw [h2 x hx] at hh; cases hh.1
  unfold cleanupCreate
  by_cases hc : m.resp.consumeRest = true
  · simp only [hc, ↓reduceIte, List.isEmpty_nil, hb]
    exact ⟨⟨[], by simp⟩, h1, h2⟩
  · simp only [hc, Bool.false_eq_true, ↓reduceIte, hb]
    split
    · exact ⟨⟨[], by simp⟩, h1, h2⟩
    · next hne =>
      have hne' : m.resp.newTokens ≠ [] := by intro h0; rw [h0] at hne; exact hne rfl
      split
      · exact ⟨⟨_, by rw [List.append_assoc]⟩, key _ _ rfl hne' hn⟩
      · split
        · exact ⟨⟨_, by rw [List.append_assoc]⟩, key _ _ rfl hne' hn⟩
        · exact ⟨⟨_, rfl⟩, key2 _ hne' hn⟩

theorem newLine_blocks {env : Env} {src : Str} {st : St} {q : Request} {c : Char} {m : Mid}
    (h : newLine env src st q c = .ok m) : m.resp.blocks = st.blocks ∧ ∀ t ∈ m.resp.newTokens, t.isText = false := by
  have hk : ∀ t ∈ (handleLineEnd env.isSetext st.blocks q.remaining st.endStr st.cur st.line st.col).newTokens, t.isText = false := by
    intro t ht
    obtain ⟨h1, _⟩ := handleLineEnd_tokens _ _ _ _ _ _ _ t ht
    cases t <;> simp_all [Tok.isHardBreak, Tok.isText]
  unfold newLine at h
  split at h
  · cases h
  · simp only at h
    split at h
    · split at h
      · cases h
      · split at h
        · cases h
        · injection h with h; subst h; exact ⟨rfl, hk⟩
    · injection h with h; subst h; exact ⟨rfl, hk⟩

theorem step_order {T : Table} {env : Env} {src : Str} {st : St} {next : Nat} {st' : St} {it : Iter}
    (hO : ∀ c h q r, T.handler c = some h → h q = .ok r → OrderOK q r)
    (h1 : NoAdjText st.blocks) (h2 : EndsNonText st.blocks) (hs : step T env src st next = .ok (st', it)) :
    (∃ extra, st'.blocks = st.blocks ++ extra) ∧ NoAdjText st'.blocks ∧ EndsNonText st'.blocks := by
  unfold step at hs
  split at hs
  · cases hs
  · next c _ =>
    split at hs
    · cases hs
    · next m hm =>
      obtain ⟨_, _, _, _, _, _, _, _, _, _, _, _, _, _, hb, _⟩ := finish_eq hs
      rw [hb]
      unfold dispatchChar at hm
      split at hm
      · next h hh =>
        obtain ⟨r, hr, _, hmeq⟩ := handled_ok hm
        have hO' := hO c h _ r hh hr
        have hmr : m.resp = r := by rw [hmeq]
        exact cleanupCreate_order st m (by rw [hmr, hO'.untouched]; rfl) (by rw [hmr]; exact hO'.noText) h1 h2
      · obtain ⟨g1, g2⟩ := newLine_blocks hm
        exact cleanupCreate_order st m g1 g2 h1 h2

theorem loop_order {T : Table} {env : Env} {src : Str}
    (hO : ∀ c h q r, T.handler c = some h → h q = .ok r → OrderOK q r) :
    ∀ (fuel : Nat) (st : St) (tr : List Iter) (st' : St) (tr' : List Iter), NoAdjText st.blocks → EndsNonText st.blocks →
      loop T env src fuel st tr = .ok (st', tr') →
      (∃ extra, st'.blocks = st.blocks ++ extra) ∧ NoAdjText st'.blocks ∧ EndsNonText st'.blocks
  | 0, st, tr, st', tr', h1, h2, hl => by
    rw [loop.eq_1] at hl
    split at hl
    · injection hl with hl; injection hl with a1 _; subst a1; exact ⟨⟨[], by simp⟩, h1, h2⟩
    · cases hl
  | fuel + 1, st, tr, st', tr', h1, h2, hl => by
    rw [loop.eq_2] at hl
    split at hl
    · injection hl with hl; injection hl with a1 _; subst a1; exact ⟨⟨[], by simp⟩, h1, h2⟩
    · next next hn =>
      cases hs : step T env src st next with
      | error e => rw [hs] at hl; cases hl
      | ok p =>
        obtain ⟨st1, it⟩ := p
        rw [hs] at hl; simp only at hl
        obtain ⟨⟨e1, he1⟩, g1, g2⟩ := step_order hO h1 h2 hs
        obtain ⟨⟨e2, he2⟩, g3, g4⟩ := loop_order hO fuel st1 (tr ++ [it]) st' tr' g1 g2 hl
        exact ⟨⟨e1 ++ e2, by rw [he2, he1, List.append_assoc]⟩, g3, g4⟩

/-- the final text token keeps neighbours apart as well -/
theorem complete_order (env : Env) (src : Str) (st : St) (h1 : NoAdjText st.blocks) (h2 : EndsNonText st.blocks) :
    NoAdjText (complete env src st) ∧ ∃ extra, complete env src st = st.blocks ++ extra := by
  have key : ∀ (c w : Str) (e : Option Str), NoAdjText (st.blocks ++ [Tok.text c w e st.lastLine st.lastCol]) := by
    intro c w e
    refine NoAdjText_append _ _ h1 trivial ?_
    intro x y hx _ hh; rw [h2 x hx] at hh; cases hh.1
  unfold complete
  simp only
  by_cases h : (!(if st.start < src.length then appendText st.cur (src.drop st.start) else st.cur).isEmpty ||
      !(!st.blocks.isEmpty || st.start != 0)) = true
  · rw [if_pos h]
    repeat' split
    all_goals exact ⟨key _ _ _, _, rfl⟩
  · rw [if_neg h]; exact ⟨h1, [], by simp⟩

end Verif.Model.InlineLoop
