/-
  Helper lemmas for `Verif.Props.RegenLeaf`: the marker codec on marker-free strings, `recombine_string_with_whitespace`
  as a zip of lines, `int()` on ASCII digits, and the general facts about the main loop (`runFrom`).
-/
import Verif.Model.RegenLeaf
import Verif.Lemmas.Codec
import Verif.Lemmas.Lines
namespace Verif.Lemmas.RegenLeaf
open Verif.Model Verif.Model.RegenLeaf
open Verif.Model.Codec (Str removeAll removeAllN resolveAll plain isSpecial)
open Verif.Model.Lines (splitOn joinOn splitNL joinNL NL)
open Verif.Lemmas.Lines

/-! ## The marker codec on strings without marker characters -/

theorem plain_guard {s : Str} (h : plain s = true) (c : Char) (hc : isSpecial c = true) :
    ∀ i, s[i]? = some c → 0 < i ∧ s[i - 1]? = some Codec.ESC := by
  intro i hi
  have : c ∈ s := List.mem_of_getElem? hi
  exact absurd this (Verif.Lemmas.Codec.plain_not_mem h hc)

theorem removeAllN_plain (b : Bool) (s : Str) (h : plain s = true) : removeAllN b s = .ok s := by
  have e1 := Verif.Lemmas.Codec.cutAll_guarded Codec.BS false 0 s (plain_guard h Codec.BS (by decide))
  have e2 := Verif.Lemmas.Codec.replAll_guarded false s (plain_guard h Codec.AL (by decide))
  have e3 := Verif.Lemmas.Codec.cutAll_guarded Codec.NOOP false 0 s (plain_guard h Codec.NOOP (by decide))
  have e4 := Verif.Lemmas.Codec.cutAll_guarded Codec.ESC false 1 s (plain_guard h Codec.ESC (by decide))
  unfold removeAllN Codec.removeBackspaces Codec.resolveReplacementMarkers Codec.resolveNoops Codec.removeSequence Codec.resolveEscapes
  cases b <;> simp [bind, Except.bind, pure, Except.pure, e1, e2, e3, e4]

theorem removeAll_plain (s : Str) (h : plain s = true) : removeAll s = .ok s := removeAllN_plain false s h

theorem resolveAll_plain (s : Str) (h : plain s = true) : resolveAll s = .ok s := by
  have e1 := Verif.Lemmas.Codec.cutAll_guarded Codec.BS true 0 s (plain_guard h Codec.BS (by decide))
  have e2 := Verif.Lemmas.Codec.replAll_guarded true s (plain_guard h Codec.AL (by decide))
  have e3 := Verif.Lemmas.Codec.cutAll_guarded Codec.NOOP false 0 s (plain_guard h Codec.NOOP (by decide))
  have e4 := Verif.Lemmas.Codec.cutAll_guarded Codec.ESC false 1 s (plain_guard h Codec.ESC (by decide))
  unfold resolveAll Codec.resolveBackspaces Codec.resolveReferences Codec.resolveNoops Codec.removeSequence Codec.resolveEscapes
  simp [bind, Except.bind, e1, e2, e3, e4]

theorem liftC_removeAllN_plain (b : Bool) (s : Str) (h : plain s = true) : liftC (removeAllN b s) = .ok s := by
  rw [removeAllN_plain b s h]; rfl

theorem liftC_removeAll_plain (s : Str) (h : plain s = true) : liftC (removeAll s) = .ok s := by
  rw [removeAll_plain s h]; rfl

theorem liftC_resolveAll_plain (s : Str) (h : plain s = true) : liftC (resolveAll s) = .ok s := by
  rw [resolveAll_plain s h]; rfl

theorem plain_append {a b : Str} : plain (a ++ b) = (plain a && plain b) := by
  simp [plain, List.all_append]

theorem plain_of_subset {a b : Str} (h : ∀ c ∈ a, c ∈ b) (hb : plain b = true) : plain a = true := by
  simp only [plain, List.all_eq_true] at hb ⊢
  exact fun c hc => hb c (h c hc)

theorem plain_takeWhile (p : Char → Bool) (s : Str) (h : plain s = true) : plain (s.takeWhile p) = true :=
  plain_of_subset (fun _ hc => (List.takeWhile_sublist p).subset hc) h

/-! ## `recombine_string_with_whitespace` -/

/-- pre-increment mode (`post = false`), white space in front: part `i` of the visited text parts gets line
`idx + 1 + i` of the white-space string, when there are enough lines. -/
theorem recombineGo_pre (sw : List Str) (after : Bool) : ∀ (ps : List Str) (idx : Nat), idx + ps.length < sw.length →
    recombineGo sw false after ps idx =
      .ok (List.zipWith (fun p ew => if after then p ++ ew else ew ++ p) ps ((sw.drop (idx + 1)).take ps.length), idx + ps.length)
  | [], idx, _ => by simp [recombineGo]
  | p :: ps, idx, h => by
    simp only [List.length_cons] at h
    have hlt : idx + 1 < sw.length := by omega
    rw [recombineGo]
    simp only [Bool.false_eq_true, if_false]
    rw [List.getElem?_eq_getElem hlt]
    simp only
    rw [recombineGo_pre sw after ps (idx + 1) (by omega)]
    simp only [List.length_cons]
    have hd : sw.drop (idx + 1) = sw[idx + 1] :: sw.drop (idx + 1 + 1) := by
      rw [List.drop_eq_getElem_cons hlt]
    rw [hd]
    simp only [List.take_succ_cons, List.zipWith_cons_cons]
    rw [show idx + 1 + ps.length = idx + (ps.length + 1) by omega]

/-- post-increment mode: part `i` gets line `idx + i`. -/
theorem recombineGo_post (sw : List Str) (after : Bool) : ∀ (ps : List Str) (idx : Nat), idx + ps.length ≤ sw.length →
    recombineGo sw true after ps idx =
      .ok (List.zipWith (fun p ew => if after then p ++ ew else ew ++ p) ps ((sw.drop idx).take ps.length), idx + ps.length)
  | [], idx, _ => by simp [recombineGo]
  | p :: ps, idx, h => by
    simp only [List.length_cons] at h
    have hlt : idx < sw.length := by omega
    rw [recombineGo]
    simp only [if_true]
    rw [List.getElem?_eq_getElem hlt]
    simp only
    rw [recombineGo_post sw after ps (idx + 1) (by omega)]
    simp only [List.length_cons]
    have hd : sw.drop idx = sw[idx] :: sw.drop (idx + 1) := by
      rw [List.drop_eq_getElem_cons hlt]
    rw [hd]
    simp only [List.take_succ_cons, List.zipWith_cons_cons]
    rw [show idx + 1 + ps.length = idx + (ps.length + 1) by omega]

/-- too few white-space lines: `IndexError` (pre-increment mode) -/
theorem recombineGo_pre_error (sw : List Str) (after : Bool) : ∀ (ps : List Str) (idx : Nat), sw.length ≤ idx + ps.length → ps ≠ [] →
    recombineGo sw false after ps idx = .error .index
  | [], _, _, h => absurd rfl h
  | p :: ps, idx, hl, _ => by
    simp only [List.length_cons] at hl
    rw [recombineGo]
    simp only [Bool.false_eq_true, if_false]
    by_cases hlt : idx + 1 < sw.length
    · rw [List.getElem?_eq_getElem hlt]
      simp only
      have hps : ps ≠ [] := by
        intro e; subst e; simp at hl; omega
      rw [recombineGo_pre_error sw after ps (idx + 1) (by omega) hps]
    · rw [List.getElem?_eq_none (by omega)]

theorem splitNL_length (s : Str) : (splitNL s).length = countNl s + 1 := splitOn_length NL s

theorem splitNL_ne_nil (s : Str) : splitNL s ≠ [] := by simp [splitNL, splitOn]

theorem contains_NL_iff (s : Str) : s.contains NL = true ↔ 0 < countNl s := by
  simp [countNl, List.count_pos_iff]

theorem splitNL_of_not_contains (s : Str) (h : s.contains NL = false) : splitNL s = [s] := by
  apply splitOn_of_noSep
  intro hm
  have : s.contains NL = true := by simpa using hm
  rw [h] at this; cases this

/-- a text without newline is returned unchanged and the index does not move (`k = 1`) -/
theorem recombine_no_newline (text ws : Str) (idx : Nat) (post after : Bool) (h : text.contains NL = false) :
    recombine text ws idx post 1 after = .ok (text, idx) := by
  unfold recombine
  rw [splitNL_of_not_contains text h]
  simp [recombineGo, joinNL, joinOn]

/-- The regenerator's standard call (`start_text_index = 1`, pre-increment, white space in front) on a paragraph's
`extracted_whitespace`: line `i ≥ 1` of the text gets line `idx + i` of the white space in front, the index advances by
the number of newlines of the text — provided the white space has enough lines. -/
theorem recombine_pre (text ws : Str) (idx : Nat) (h : idx + countNl text ≤ countNl ws) :
    recombine text ws idx false 1 false =
      .ok (joinNL ((splitNL text).take 1 ++
            List.zipWith (fun p ew => ew ++ p) ((splitNL text).drop 1) (((splitNL ws).drop (idx + 1)).take (countNl text))),
           idx + countNl text) := by
  unfold recombine
  have hl : ((splitNL text).drop 1).length = countNl text := by simp [splitNL_length]
  rw [recombineGo_pre (splitNL ws) false _ idx (by rw [hl, splitNL_length]; omega), hl]
  simp only [Bool.false_eq_true, if_false]

theorem recombine_pre_error (text ws : Str) (idx : Nat) (h : countNl ws < idx + countNl text) (hn : 0 < countNl text) :
    recombine text ws idx false 1 false = .error .index := by
  unfold recombine
  have hl : ((splitNL text).drop 1).length = countNl text := by simp [splitNL_length]
  have hne : (splitNL text).drop 1 ≠ [] := by
    intro e; rw [e] at hl; simp at hl; omega
  rw [recombineGo_pre_error (splitNL ws) false _ idx (by rw [hl, splitNL_length]; omega) hne]

/-- The `end_whitespace` call (`start_text_index = 0`, post-increment, white space behind): line `i` of the text gets line
`i` of the white space behind it. -/
theorem recombine_post_after (text ws : Str) (h : countNl text ≤ countNl ws) :
    recombine text ws 0 true 0 true =
      .ok (joinNL (List.zipWith (fun p ew => p ++ ew) (splitNL text) ((splitNL ws).take (countNl text + 1))), countNl text + 1) := by
  unfold recombine
  rw [recombineGo_post (splitNL ws) true _ 0 (by simp only [splitNL_length, List.drop_zero]; omega)]
  simp only [splitNL_length, List.drop_zero, List.take_zero, List.nil_append, Nat.zero_add, if_true, Bool.false_eq_true, if_false]

/-- the indented-code call (`start_text_index = 0`, post-increment, white space in front) -/
theorem recombine_post_before (text ws : Str) (h : countNl text ≤ countNl ws) :
    recombine text ws 0 true 0 false =
      .ok (joinNL (List.zipWith (fun p ew => ew ++ p) (splitNL text) ((splitNL ws).take (countNl text + 1))), countNl text + 1) := by
  unfold recombine
  rw [recombineGo_post (splitNL ws) false _ 0 (by simp only [splitNL_length, List.drop_zero]; omega)]
  simp only [splitNL_length, List.drop_zero, List.take_zero, List.nil_append, Nat.zero_add, if_true, Bool.false_eq_true, if_false]

/-! ## `joinNL` / `countNl` -/

theorem countNl_append (a b : Str) : countNl (a ++ b) = countNl a + countNl b := by simp [countNl]

theorem countNl_joinNL : ∀ (ls : List Str), ls ≠ [] → countNl (joinNL ls) = (ls.map countNl).sum + (ls.length - 1)
  | [l], _ => by simp [joinNL, joinOn]
  | l :: m :: ls, _ => by
    have := countNl_joinNL (m :: ls) (by simp)
    unfold joinNL at this ⊢
    rw [joinOn_cons_cons, countNl_append, show (NL :: joinOn NL (m :: ls)) = [NL] ++ joinOn NL (m :: ls) from rfl, countNl_append, this]
    simp only [List.map_cons, List.sum_cons, List.length_cons]
    have : countNl [NL] = 1 := by decide
    omega

theorem countNl_of_not_mem {s : Str} (h : NL ∉ s) : countNl s = 0 := by simp [countNl, List.count_eq_zero, h]

theorem splitNL_joinNL (ls : List Str) (hne : ls ≠ []) (h : ∀ l ∈ ls, NL ∉ l) : splitNL (joinNL ls) = ls :=
  splitOn_joinOn NL ls hne h

theorem countNl_joinNL_lines (ls : List Str) (hne : ls ≠ []) (h : ∀ l ∈ ls, NL ∉ l) : countNl (joinNL ls) = ls.length - 1 := by
  have := splitNL_length (joinNL ls)
  rw [splitNL_joinNL ls hne h] at this
  omega

end Verif.Lemmas.RegenLeaf
