/- Order facts about `Rep.lt` / `Rep.le` (the comparison `sorted()` uses on scan failures). -/
import Verif.Model.Engine
namespace Verif.Model.Engine

/-- The sort key. -/
def Rep.key (a : Rep) : Nat × Nat × String := (a.line, a.col, a.rid)

theorem Rep.lt_iff (a b : Rep) : Rep.lt a b = true ↔
    a.line < b.line ∨ (a.line = b.line ∧ (a.col < b.col ∨ (a.col = b.col ∧ a.rid < b.rid))) := by
  unfold Rep.lt
  by_cases h1 : a.line = b.line
  · by_cases h2 : a.col = b.col
    · simp [h1, h2]
    · simp [h1, h2]
  · simp [h1]

theorem Rep.lt_irrefl (a : Rep) : Rep.lt a a = false := by
  have := Rep.lt_iff a a
  cases h : Rep.lt a a
  · rfl
  · have := this.mp h; simp at this

theorem Rep.lt_asymm {a b : Rep} (h : Rep.lt a b = true) : Rep.lt b a = false := by
  cases h' : Rep.lt b a
  · rfl
  · rw [Rep.lt_iff] at h h'
    rcases h with h | ⟨e, h | ⟨e2, h⟩⟩ <;> rcases h' with h' | ⟨e', h' | ⟨e2', h'⟩⟩ <;> try omega
    exact absurd h' (String.lt_asymm h)

theorem Rep.lt_trans {a b c : Rep} (h1 : Rep.lt a b = true) (h2 : Rep.lt b c = true) :
    Rep.lt a c = true := by
  rw [Rep.lt_iff] at *
  rcases h1 with h1 | ⟨e1, h1 | ⟨f1, h1⟩⟩ <;> rcases h2 with h2 | ⟨e2, h2 | ⟨f2, h2⟩⟩
  all_goals first
    | (left; omega)
    | (right; refine ⟨by omega, ?_⟩; left; omega)
    | (right; refine ⟨by omega, ?_⟩; right; exact ⟨by omega, String.lt_trans h1 h2⟩)

/-- Incomparable reports have the same key (line, column, rule id). -/
theorem Rep.key_eq_of_not_lt {a b : Rep} (h1 : Rep.lt a b = false) (h2 : Rep.lt b a = false) :
    a.key = b.key := by
  have n1 : ¬ _ := fun h => by rw [(Rep.lt_iff a b).mpr h] at h1; cases h1
  have n2 : ¬ _ := fun h => by rw [(Rep.lt_iff b a).mpr h] at h2; cases h2
  have hl : a.line = b.line := by
    by_cases h : a.line < b.line
    · exact absurd (Or.inl h) n1
    · by_cases h' : b.line < a.line
      · exact absurd (Or.inl h') n2
      · omega
  have hc : a.col = b.col := by
    by_cases h : a.col < b.col
    · exact absurd (Or.inr ⟨hl, Or.inl h⟩) n1
    · by_cases h' : b.col < a.col
      · exact absurd (Or.inr ⟨hl.symm, Or.inl h'⟩) n2
      · omega
  have hr : a.rid = b.rid := by
    have h1' : ¬ a.rid < b.rid := fun h => n1 (Or.inr ⟨hl, Or.inr ⟨hc, h⟩⟩)
    have h2' : ¬ b.rid < a.rid := fun h => n2 (Or.inr ⟨hl.symm, Or.inr ⟨hc.symm, h⟩⟩)
    exact String.le_antisymm (String.not_lt.mp h2') (String.not_lt.mp h1')
  simp [Rep.key, hl, hc, hr]

theorem Rep.le_total (a b : Rep) : (Rep.le a b || Rep.le b a) = true := by
  unfold Rep.le
  cases h : Rep.lt b a
  · simp
  · simp [Rep.lt_asymm h]

theorem Rep.le_trans (a b c : Rep) (h1 : Rep.le a b = true) (h2 : Rep.le b c = true) :
    Rep.le a c = true := by
  unfold Rep.le at *
  simp only [Bool.not_eq_true'] at *
  -- ¬ b<a, ¬ c<b ⊢ ¬ c<a.   Suppose c<a.
  cases h : Rep.lt c a
  · rfl
  · exfalso
    -- compare a and b
    cases hab : Rep.lt a b
    · -- a,b incomparable: same key, so c < a gives c < b
      have hk := Rep.key_eq_of_not_lt hab h1
      have : Rep.lt c b = true := by
        rw [Rep.lt_iff] at h ⊢
        simp only [Rep.key, Prod.mk.injEq] at hk
        obtain ⟨k1, k2, k3⟩ := hk
        rw [← k1, ← k2, ← k3]; exact h
      rw [this] at h2; cases h2
    · have : Rep.lt c b = true := Rep.lt_trans h hab
      rw [this] at h2; cases h2

/-- `sorted()` output is ordered: no later element is strictly smaller than an earlier one. -/
theorem sortReps_pairwise (l : List Rep) : (sortReps l).Pairwise (fun a b => Rep.le a b = true) :=
  List.pairwise_mergeSort Rep.le_trans Rep.le_total l

theorem sortReps_perm (l : List Rep) : (sortReps l).Perm l := List.mergeSort_perm l _

end Verif.Model.Engine
