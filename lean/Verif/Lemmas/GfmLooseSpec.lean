/-
  The list-looseness calculation of the HTML generator (`calculate_list_looseness`) against the CommonMark definition
  of a loose list, over the token tree.

  The real algorithm departs from the specification on nested containers and on link reference definitions
  (witnesses below), so the theorem is the restricted one, for FLAT lists:

    `looseness_flat` : for every well-formed stream, every list whose children are no containers and no link
    reference definitions and do not begin with two BLANK tokens,
        `calculateListLooseness ts i = .ok (specLoose n)`.

  `looseness_spec_false` : the unrestricted statement is false.
-/
import Verif.Lemmas.GfmLooseC
namespace Verif.Lemmas.GfmLooseSpec
open Verif.Model.GfmRender Verif.Model.GfmSpec Verif.Lemmas.GfmBasic Verif.Lemmas.GfmLoose

/-! ## The hypotheses -/

/-- no child of the list is a container (children are leaf blocks with inline content, blank lines, thematic
breaks, `li` markers …) -/
def Flat (kids : List Node) : Prop := ∀ k ∈ kids, k.tok.isListStart = false ∧ k.tok.isBqStart = false

/-- no child of the list is a link reference definition -/
def NoLrd (kids : List Node) : Prop := ∀ k ∈ kids, k.tok.isLrd = false

/-- the children do not begin with two BLANK tokens (the parser never produces that) -/
def NoDoubleLeadingBlank : List Node → Prop
  | a :: b :: _ => ¬ (a.tok.isBlank = true ∧ b.tok.isBlank = true)
  | _ => True

instance (kids : List Node) : Decidable (Flat kids) := by unfold Flat; infer_instance
instance (kids : List Node) : Decidable (NoLrd kids) := by unfold NoLrd; infer_instance
instance (kids : List Node) : Decidable (NoDoubleLeadingBlank kids) := by
  unfold NoDoubleLeadingBlank; split <;> infer_instance

theorem leadBlanks_le {kids : List Node} (h : NoDoubleLeadingBlank kids) : leadBlanks kids ≤ 1 := by
  match kids, h with
  | [], _ => simp [leadBlanks]
  | [a], _ => simp only [leadBlanks]; split <;> omega
  | a :: b :: r, h =>
    simp only [NoDoubleLeadingBlank] at h
    simp only [leadBlanks]
    by_cases ha : a.tok.isBlank = true
    · by_cases hb : b.tok.isBlank = true
      · exact absurd ⟨ha, hb⟩ h
      · simp [ha, hb]
    · simp [ha]

/-! ## `front-matter` stands only at index 0 -/

theorem split_at {α : Type} : ∀ {l : List α} {m : Nat} {a : α}, l[m]? = some a →
    ∃ pre post, l = pre ++ a :: post ∧ pre.length = m
  | [], m, a, h => by simp at h
  | x :: l, 0, a, h => by
    simp only [List.getElem?_cons_zero, Option.some.injEq] at h
    exact ⟨[], l, by simp [h], rfl⟩
  | x :: l, m + 1, a, h => by
    simp only [List.getElem?_cons_succ] at h
    obtain ⟨pre, post, h1, h2⟩ := split_at h
    exact ⟨x :: pre, post, by simp [h1], by simp [h2]⟩

theorem frontMatter_first {ts : List Tok} (h : WellFormed ts) :
    ∀ m t, ts[m]? = some t → t.isKind .frontMatter = true → m = 0 := by
  intro m t ht hfm
  have h1 := (Verif.Lemmas.WellFormed.wfCheck_iff _).mp h
  have h2 := (Verif.Lemmas.WellFormed.specialOK_iff _).mpr h1.2
  obtain ⟨pre, post, hsplit, hlen⟩ := split_at ht
  have := h2 (pre.map Tok.toWf) t.toWf (post.map Tok.toWf) (by rw [hsplit]; simp)
  have hk : t.kind? = some .frontMatter := by
    simpa [Tok.isKind] using hfm
  have hf : Verif.Model.WellFormed.isFront t.toWf = true := by
    rw [toWf_notEnd hk]; decide
  simp only [Verif.Model.WellFormed.specAt, hf, Bool.not_true, Bool.false_or, Bool.and_eq_true, List.length_map,
    beq_iff_eq] at this
  rw [← hlen]; exact this.1.1

/-! ## The theorem -/

theorem looseness_flat (ts : List Tok) (hwf : WellFormed ts) (i : Nat) (s e : Tok) (kids : List Node)
    (hfind : (treeOf ts).bind (findIn i) = some (Node.node i s kids e)) (hs : s.isListStart = true)
    (hflat : Flat kids) (hnl : NoLrd kids) (hnd : NoDoubleLeadingBlank kids) :
    calculateListLooseness ts i = .ok (specLoose (Node.node i s kids e)) := by
  obtain ⟨ns, hg⟩ := gtree_of_gforest (gforest_of_wellFormed hwf)
  rw [treeOf_gtree hg] at hfind
  simp only [Option.bind_some] at hfind
  obtain ⟨pre, body, rest, k, f, hts, hpre, hsk, hst, heb, hbody⟩ := gtree_find hg hfind
  simp only [Nat.zero_add] at hpre
  obtain ⟨t1, t2, t3, t4, t5, t6, t7, t8, t9⟩ := tests_of_kind hsk
  have hk : k = .ulist ∨ k = .olist := by
    rw [t1] at hs
    simpa using hs
  have hsi : ts[i]? = some s := by
    rw [hts, ← hpre]; simp
  have hdrop : ts.drop (i + 1) = body ++ e :: rest := by
    rw [hts, ← hpre]
    have : pre ++ s :: (body ++ e :: rest) = (pre ++ [s]) ++ (body ++ e :: rest) := by simp
    rw [this, List.drop_append]
    simp
  have hquiet := flat_quiet hk hbody rfl hflat
  have hsq : s.isBqEnd = false ∧ s.isListEnd = false := ⟨t3, t4⟩
  have hRL : ∀ m, i < m → m ≤ i + 1 + body.length → reallyLooseLoop ts m 0 = .ok true := by
    intro m h1 h2
    have := reallyLoose_quiet hsi hs hsq (m - i - 1) (by
      intro m' a b
      have hx := getElem?_of_drop hdrop (m' - (i + 1))
      have e1 : i + 1 + (m' - (i + 1)) = m' := by omega
      rw [e1] at hx
      have hlt : m' - (i + 1) < body.length := by omega
      rw [List.getElem?_append_left hlt] at hx
      refine ⟨body[m' - (i + 1)], ?_, hquiet _ (List.getElem_mem hlt)⟩
      rw [hx]; simp)
    have e2 : i + (m - i - 1) + 1 = m := by omega
    rw [e2] at this
    exact this
  have hsb : s.isBlank = false := by rw [t6]; rcases hk with rfl | rfl <;> rfl
  have hsl : s.isLrd = false := by rw [t7]; rcases hk with rfl | rfl <;> rfl
  have hback : Back ts (i + 1) .start 0 :=
    ⟨by omega, fun m a b => by omega, s, by simpa using hsi, hsb, hsl, hs⟩
  unfold calculateListLooseness
  rw [hdrop]
  have := calc_flat (rest := rest) hsi hs hk heb hRL (frontMatter_first hwf) hbody rfl .start 0 hflat hnl hdrop rfl
    (by omega) hback (fun _ => by have := leadBlanks_le hnd; omega)
  rw [this]
  rfl

/-! ## Non-vacuity: the tokens of `- a\n\n- b\n` -/

def E (k : Kind) (p : Nat) : Tok := ⟨0, .end_ k p false⟩
def T (l : Nat) (b : Body) : Tok := ⟨l, b⟩
def tx : Tok := ⟨1, .text ['a'] [] none⟩

/-- `- a\n\n- b\n` -/
def wLoose : List Tok :=
  [T 1 .ulist, T 1 .para, tx, E .para 1, T 2 .blank, T 3 .li, T 3 .para, tx, E .para 6, E .ulist 0, T 4 .eos]

def wLooseKids : List Node :=
  [.node 1 (T 1 .para) [.leaf 2 tx] (E .para 1), .leaf 4 (T 2 .blank), .leaf 5 (T 3 .li),
   .node 6 (T 3 .para) [.leaf 7 tx] (E .para 6)]

/-- every hypothesis of `looseness_flat` holds on `wLoose` at index 0, and both sides are `true` -/
example :
    WellFormed wLoose ∧
    (treeOf wLoose).bind (findIn 0) = some (Node.node 0 (T 1 .ulist) wLooseKids (E .ulist 0)) ∧
    (T 1 .ulist).isListStart = true ∧ Flat wLooseKids ∧ NoLrd wLooseKids ∧ NoDoubleLeadingBlank wLooseKids ∧
    calculateListLooseness wLoose 0 = .ok true ∧
    specLoose (Node.node 0 (T 1 .ulist) wLooseKids (E .ulist 0)) = true :=
  ⟨by decide, rfl, rfl, by decide, by decide, by decide, by decide, rfl⟩

/-- the theorem applied to the example -/
example : calculateListLooseness wLoose 0 = .ok (specLoose (Node.node 0 (T 1 .ulist) wLooseKids (E .ulist 0))) :=
  looseness_flat wLoose (by decide) 0 _ _ wLooseKids rfl rfl (by decide) (by decide) (by decide)

/-! ## The hypotheses cannot be dropped -/

/-- `- - - a\n\n  b\n` — nesting, several list ends in a row -/
def wNestEnds : List Tok :=
  [T 1 .ulist, T 1 .ulist, T 1 .ulist, T 1 .para, tx, E .para 3, T 2 .blank, E .ulist 2, E .ulist 1, T 3 .para, tx,
   E .para 9, T 4 .blank, E .ulist 0, T 5 .eos]

theorem witness_nesting_listEnds :
    WellFormed wNestEnds ∧ calculateListLooseness wNestEnds 0 = .ok false ∧ specLooseAt wNestEnds 0 = some true := by
  decide

/-- `- - a\n\n    > b\n- c\n` — nesting, a block quote start inside an inner list -/
def wNestBq : List Tok :=
  [T 1 .ulist, T 1 .ulist, T 1 .para, tx, E .para 2, T 2 .blank, T 3 (.bquote "    > ".toList), T 3 .para, tx,
   E .para 7, E .bquote 6, E .ulist 1, T 4 .li, T 4 .para, tx, E .para 13, T 5 .blank, E .ulist 0, T 6 .eos]

theorem witness_nesting_blockQuote :
    WellFormed wNestBq ∧ calculateListLooseness wNestBq 0 = .ok true ∧ specLooseAt wNestBq 0 = some false := by
  decide

/-- `- [r]: /u\n\n  - x\n- y\n` — a link reference definition first in an item -/
def wLrdFirst : List Tok :=
  [T 1 .ulist, T 1 .lrd, T 2 .blank, T 3 .ulist, T 3 .para, tx, E .para 4, E .ulist 3, T 4 .li, T 4 .para, tx,
   E .para 9, T 5 .blank, E .ulist 0, T 6 .eos]

theorem witness_lrd_first :
    WellFormed wLrdFirst ∧ calculateListLooseness wLrdFirst 0 = .ok true ∧ specLooseAt wLrdFirst 0 = some false := by
  decide

/-- `- a\n\n  [r]: /u\n\n  c\n` — a link reference definition between blank lines (a flat list: only `NoLrd` fails) -/
def wLrdBetween : List Tok :=
  [T 1 .ulist, T 1 .para, tx, E .para 1, T 2 .blank, T 3 .lrd, T 4 .blank, T 5 .para, tx, E .para 7, T 6 .blank,
   E .ulist 0, T 7 .eos]

theorem witness_lrd_between :
    WellFormed wLrdBetween ∧ calculateListLooseness wLrdBetween 0 = .ok false ∧
      specLooseAt wLrdBetween 0 = some true := by
  decide

/-- a list beginning with two BLANK tokens (a stream the parser never produces; only `NoDoubleLeadingBlank` fails) -/
def wTwoBlanks : List Tok :=
  [T 1 .ulist, T 1 .blank, T 2 .blank, T 3 .para, tx, E .para 3, E .ulist 0, T 4 .eos]

theorem witness_two_leading_blanks :
    WellFormed wTwoBlanks ∧ calculateListLooseness wTwoBlanks 0 = .ok true ∧
      specLooseAt wTwoBlanks 0 = some false := by
  decide

/-- the children of the node whose first token has index `i` -/
def kidsAt (ts : List Tok) (i : Nat) : List Node :=
  match (treeOf ts).bind (findIn i) with
  | some (.node _ _ kids _) => kids
  | _ => []

/-- each hypothesis is needed on its own: on each witness exactly one of the three fails -/
theorem witness_hypotheses :
    (¬ Flat (kidsAt wNestEnds 0) ∧ NoLrd (kidsAt wNestEnds 0) ∧ NoDoubleLeadingBlank (kidsAt wNestEnds 0)) ∧
    (¬ Flat (kidsAt wNestBq 0) ∧ NoLrd (kidsAt wNestBq 0) ∧ NoDoubleLeadingBlank (kidsAt wNestBq 0)) ∧
    (Flat (kidsAt wLrdBetween 0) ∧ ¬ NoLrd (kidsAt wLrdBetween 0) ∧ NoDoubleLeadingBlank (kidsAt wLrdBetween 0)) ∧
    (Flat (kidsAt wTwoBlanks 0) ∧ NoLrd (kidsAt wTwoBlanks 0) ∧ ¬ NoDoubleLeadingBlank (kidsAt wTwoBlanks 0)) := by
  decide

/-! ## The unrestricted statement is false -/

def LoosenessSpec : Prop :=
  ∀ ts, WellFormed ts → ∀ i b, specLooseAt ts i = some b → calculateListLooseness ts i = .ok b

theorem looseness_spec_false : ¬ LoosenessSpec := by
  intro h
  obtain ⟨h1, h2, h3⟩ := witness_nesting_listEnds
  have := h wNestEnds h1 0 true h3
  rw [h2] at this
  cases this

end Verif.Lemmas.GfmLooseSpec

section
open Verif.Lemmas.GfmLooseSpec
#print axioms looseness_flat
#print axioms looseness_spec_false
#print axioms witness_nesting_listEnds
#print axioms witness_nesting_blockQuote
#print axioms witness_lrd_first
#print axioms witness_lrd_between
#print axioms witness_two_leading_blanks
#print axioms witness_hypotheses
end
