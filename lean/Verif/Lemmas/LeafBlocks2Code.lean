/-
  Lemmas for the code-block parts of `Verif.Model.LeafBlocks2` (fenced / indented content lines): closed forms on lines
  without tabs, the stored white space as a list of codec pieces, the specification's column stripping on spaces.
-/
import Verif.Model.LeafBlocks2
import Verif.Model.HtmlBlockSpec
import Verif.Lemmas.RecogSpec
import Verif.Props.C02
namespace Verif.Model.LeafBlocks2
open Verif.Model.Recognisers Verif.Model.InlineRecog

theorem foldl_tabStep_spaces (k s : Nat) : (List.replicate k SP).foldl tabStep s = s + k := by
  induction k generalizing s with
  | zero => rfl
  | succ k ih =>
    rw [List.replicate_succ, List.foldl_cons, ih]
    have : tabStep s SP = s + 1 := by unfold tabStep; rw [if_neg (by decide)]
    rw [this]; omega

theorem calcLength_spaces (k : Nat) : calcLength (List.replicate k SP) 0 = k := by
  unfold calcLength; rw [foldl_tabStep_spaces]; omega

theorem detabify_notab (L : Str) (h : TAB ∉ L) : detabify L 0 = .ok L := by
  unfold detabify
  have : L.contains TAB = false := by simpa using h
  rw [this]; rfl

theorem contains_tab_false (L : Str) (h : TAB ∉ L) : L.contains TAB = false := by simpa using h

theorem leadWs_spaces (k : Nat) (d : Char) (rest : Str) (hd : isWsChar d = false) :
    leadWs (List.replicate k SP ++ d :: rest) = (k, List.replicate k SP) := by
  rw [leadWs_eq, takeWhile_replicate_cons k rest (by decide) hd]
  simp

/-- the white space `__parse_fenced_code_block_already_in` stores for `k` leading spaces under a fence indented `N` -/
def storedWs (k N : Nat) : Str :=
  if N ≠ 0 ∧ k ≠ 0 then Codec.replaceWithNothing (List.replicate (k - (k - N)) SP) ++ List.replicate (k - N) SP
  else List.replicate k SP

/-- closed form of `handle_fenced_code_block` on a line without tabs that is not fence-like -/
theorem fenceLine_notab (c : Char) (n N k : Nat) (d : Char) (rest : Str) (hd : isWsChar d = false)
    (hnt : TAB ∉ (List.replicate k SP ++ d :: rest))
    (hnf : isFencedCodeBlock (List.replicate k SP ++ d :: rest) k (List.replicate k SP) = .ok none) :
    fenceLine c n N (List.replicate k SP ++ d :: rest) = .ok (.text (storedWs k N) (d :: rest)) := by
  unfold fenceLine
  rw [detabify_notab _ hnt]
  simp only [leadWs_spaces k d rest hd, hnf, contains_tab_false _ hnt]
  unfold alreadyIn storedWs
  simp only [calcLength_spaces, contains_tab_false _ hnt, Bool.and_false]
  have hdrop : List.drop k (List.replicate k SP ++ d :: rest) = d :: rest := by
    rw [List.drop_append]; simp
  by_cases h : N ≠ 0 ∧ k ≠ 0
  · have hb : (N != 0 && !(List.replicate k SP).isEmpty) = true := by
      obtain ⟨h1, h2⟩ := h
      cases k with
      | zero => exact absurd rfl h2
      | succ k => simp [List.replicate_succ, h1]
    simp [h, hdrop]
  · have hb : (N != 0 && !(List.replicate k SP).isEmpty) = false := by
      cases k with
      | zero => simp
      | succ k => simp [List.replicate_succ] at h ⊢; exact h
    simp [h, hdrop]

/-! ## the stored white space as codec pieces -/

open Verif.Model.Codec in
def wsPieces (k N : Nat) : List Codec.Piece :=
  if N ≠ 0 ∧ k ≠ 0 then Codec.Piece.removed (List.replicate (k - (k - N)) SP) :: List.replicate (k - N) (Codec.Piece.lit SP)
  else List.replicate k (Codec.Piece.lit SP)

theorem encode_lits (m : Nat) : Codec.encode (List.replicate m (Codec.Piece.lit SP)) = List.replicate m SP := by
  induction m with
  | zero => rfl
  | succ m ih =>
    rw [List.replicate_succ, Codec.encode, ih]
    have : (Codec.Piece.lit SP).encode = [SP] := by decide
    rw [this]; rfl

theorem sourceOf_lits (m : Nat) : Codec.sourceOf (List.replicate m (Codec.Piece.lit SP)) = List.replicate m SP := by
  induction m with
  | zero => rfl
  | succ m ih => rw [List.replicate_succ, Codec.sourceOf, ih]; rfl

theorem renderedOf_lits (m : Nat) : Codec.renderedOf (List.replicate m (Codec.Piece.lit SP)) = List.replicate m SP := by
  induction m with
  | zero => rfl
  | succ m ih => rw [List.replicate_succ, Codec.renderedOf, ih]; rfl

theorem markerFree_lits (m : Nat) : Codec.MarkerFree (List.replicate m (Codec.Piece.lit SP)) := by
  unfold Codec.MarkerFree
  rw [List.all_eq_true]
  intro p hp
  rw [List.mem_replicate] at hp
  rw [hp.2]; decide

theorem plain_spaces (m : Nat) : Codec.plain (List.replicate m SP) = true := by
  unfold Codec.plain
  rw [List.all_eq_true]
  intro x hx
  rw [List.mem_replicate] at hx
  rw [hx.2]; decide

theorem storedWs_encode (k N : Nat) : storedWs k N = Codec.encode (wsPieces k N) := by
  unfold storedWs wsPieces
  split
  · rw [Codec.encode, encode_lits]; rfl
  · rw [encode_lits]

theorem wsPieces_markerFree (k N : Nat) : Codec.MarkerFree (wsPieces k N) := by
  unfold wsPieces
  split
  · rw [Verif.Lemmas.Codec.markerFree_cons]
    exact ⟨plain_spaces _, markerFree_lits _⟩
  · exact markerFree_lits _

theorem wsPieces_source (k N : Nat) : Codec.sourceOf (wsPieces k N) = List.replicate k SP := by
  unfold wsPieces
  split
  · rw [Codec.sourceOf, sourceOf_lits]
    simp only [Codec.Piece.source]
    rw [List.replicate_append_replicate]; congr 1; omega
  · exact sourceOf_lits _

theorem wsPieces_rendered (k N : Nat) : Codec.renderedOf (wsPieces k N) = List.replicate (k - N) SP := by
  unfold wsPieces
  split
  · rw [Codec.renderedOf, renderedOf_lits]; rfl
  · next h =>
    rw [renderedOf_lits]
    have : k - N = k := by
      by_cases hN : N = 0
      · omega
      · have : k = 0 := by
          by_cases hk : k = 0
          · exact hk
          · exact absurd ⟨hN, hk⟩ h
        omega
    rw [this]

/-! ## the specification on leading spaces -/

theorem stripCols_spaces (k n col : Nat) (d : Char) (rest : Str) (hd : isWsChar d = false) :
    HtmlBlockSpec.stripCols (List.replicate k SP ++ d :: rest) n col = List.replicate (k - n) SP ++ d :: rest := by
  induction k generalizing n col with
  | zero =>
    simp only [List.replicate_zero, List.nil_append, Nat.zero_sub]
    unfold HtmlBlockSpec.stripCols
    have h1 : (d == ' ') = false := by
      unfold isWsChar at hd; simp only [Bool.or_eq_false_iff] at hd; exact hd.1
    have h2 : (d == '\t') = false := by
      unfold isWsChar at hd; simp only [Bool.or_eq_false_iff] at hd; exact hd.2
    simp [h1, h2]
  | succ k ih =>
    rw [List.replicate_succ, List.cons_append]
    unfold HtmlBlockSpec.stripCols
    by_cases hn : n = 0
    · subst hn; simp [List.replicate_succ]
    · rw [if_neg hn]
      have : (SP == ' ') = true := by decide
      rw [if_pos this, ih]
      congr 2; omega

end Verif.Model.LeafBlocks2
