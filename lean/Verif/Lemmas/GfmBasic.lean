/-
  Basic lemmas for the HTML-generator model: the inductive reading of "accepted by the C04 monitor" over the
  generator's own token type (`GForest`), Python indexing, the backward `while` scans.
-/
import Verif.Model.GfmRender
import Verif.Lemmas.WellFormed
namespace Verif.Lemmas.GfmBasic
open Verif.Model.GfmRender
open Verif.Model.WellFormed (Cls)

/-- the token opens a scope (`requires_end_token`, and not the new-list-item token) -/
def Kind.isStart (k : Kind) : Bool := k.requiresEnd && k != .li

def blockCtx (par : Option Kind) : Bool :=
  match par with
  | none => true
  | some p => p.cls == .container

def inlineCtx (par : Option Kind) : Bool :=
  match par with
  | none => false
  | some p => p.cls == .leaf || p.cls == .inline

def listCtx (par : Option Kind) : Bool := par == some .ulist || par == some .olist

def startOK (par : Option Kind) (k : Kind) : Bool :=
  match k.cls with
  | .container => blockCtx par
  | .leaf => blockCtx par
  | .inline => inlineCtx par
  | .special => false

def atomOK (par : Option Kind) (k : Kind) : Bool :=
  match k.cls with
  | .container => k == .li && listCtx par
  | .leaf => blockCtx par
  | .inline => inlineCtx par
  | .special => par.isNone

/-- A well-formed forest of generator tokens whose first token has stream index `i`, below a parent of kind `par`:
the inductive definition `WellNested ∧ ClassForest` of `Verif.Model.WellFormed`, read over `GfmRender.Tok`. -/
inductive GForest : Option Kind → Nat → List Tok → Prop
  | nil {par i} : GForest par i []
  | atom {par i t k rest} : t.kind? = some k → Kind.isStart k = false → atomOK par k = true →
      GForest par (i + 1) rest → GForest par i (t :: rest)
  | node {par i s k body e f rest} : s.kind? = some k → Kind.isStart k = true → startOK par k = true →
      GForest (some k) (i + 1) body → e.body = .end_ k i f →
      GForest par (i + 1 + body.length + 1) rest → GForest par i (s :: (body ++ e :: rest))

theorem gforest_idx {par : Option Kind} {i j : Nat} {ts : List Tok} (h : GForest par i ts) (e : i = j) :
    GForest par j ts := e ▸ h

/-! ### from the monitor to `GForest` -/

theorem kind_name_inj : ∀ a b : Kind, a.name = b.name → a = b := by
  intro a b h
  cases a <;> cases b <;> first | rfl | (simp [Kind.name] at h)

theorem toWf_end {t : Tok} {p : Nat} (h : t.toWf.kind = .end_ p) : ∃ k f, t.body = .end_ k p f := by
  obtain ⟨l, b⟩ := t
  cases b <;> simp [Tok.toWf, Body.kind?, Kind.requiresEnd, Kind.cls] at h
  case end_ k q f => exact ⟨k, f, by simp [h]⟩

theorem toWf_notEnd {t : Tok} {k : Kind} (h : t.kind? = some k) :
    t.toWf = ⟨k.name, k.cls, if k.requiresEnd && k != .li then .start else .atom⟩ := by
  obtain ⟨l, b⟩ := t
  cases b <;> simp [Tok.kind?, Body.kind?] at h <;> subst h <;> rfl

theorem toWf_kind_cases (t : Tok) : (∃ k, t.kind? = some k) ∨ (∃ k p f, t.body = .end_ k p f) := by
  obtain ⟨l, b⟩ := t
  cases b <;> simp [Tok.kind?, Body.kind?]

theorem toWf_of_end {t : Tok} {k : Kind} {p : Nat} {f : Bool} (h : t.body = .end_ k p f) :
    t.toWf = ⟨"end-" ++ k.name, .inline, .end_ p⟩ := by
  obtain ⟨l, b⟩ := t
  simp only at h; subst h; rfl

theorem parCls {s : Tok} {k : Kind} (h : s.kind? = some k) : s.toWf.cls = k.cls := by
  rw [toWf_notEnd h]

theorem parName {s : Tok} {k : Kind} (h : s.kind? = some k) : s.toWf.name = k.name := by
  rw [toWf_notEnd h]

open Verif.Lemmas.WellFormed in
/-- the parent as the monitor sees it ↔ the parent kind -/
def ParRel : Option Verif.Model.WellFormed.Tok → Option Kind → Prop
  | none, none => True
  | some w, some k => w.name = k.name ∧ w.cls = k.cls
  | _, _ => False

theorem list_name (k : Kind) (h : k.name = "ulist" ∨ k.name = "olist") : k = .ulist ∨ k = .olist := by
  cases k <;> simp [Kind.name] at h ⊢

open Verif.Lemmas.WellFormed in
theorem startOK_transfer {pw : Option Verif.Model.WellFormed.Tok} {par : Option Kind} (hp : ParRel pw par)
    {s : Tok} {k : Kind} (hk : s.kind? = some k) (h : Verif.Model.WellFormed.startOK pw s.toWf = true) :
    startOK par k = true := by
  rw [toWf_notEnd hk] at h
  unfold Verif.Model.WellFormed.startOK at h
  unfold startOK
  cases hc : k.cls <;> simp only [hc] at h ⊢
  · cases pw <;> cases par <;> simp_all [ParRel, blockCtx, Verif.Model.WellFormed.blockCtx]
  · cases pw <;> cases par <;> simp_all [ParRel, blockCtx, Verif.Model.WellFormed.blockCtx]
  · cases pw <;> cases par <;> simp_all [ParRel, inlineCtx, Verif.Model.WellFormed.inlineCtx]
  · exact h

open Verif.Lemmas.WellFormed in
theorem atomOK_transfer {pw : Option Verif.Model.WellFormed.Tok} {par : Option Kind} (hp : ParRel pw par)
    {s : Tok} {k : Kind} (hk : s.kind? = some k) (h : Verif.Model.WellFormed.atomOK pw s.toWf = true) :
    atomOK par k = true := by
  rw [toWf_notEnd hk] at h
  unfold Verif.Model.WellFormed.atomOK at h
  unfold atomOK
  cases hc : k.cls <;> simp only [hc] at h ⊢
  · simp only [Bool.and_eq_true, beq_iff_eq] at h ⊢
    obtain ⟨h1, h2⟩ := h
    have hli : k = .li := kind_name_inj _ _ h1
    refine ⟨hli, ?_⟩
    unfold Verif.Model.WellFormed.listCtx at h2
    unfold listCtx
    cases pw with
    | none => simp at h2
    | some w =>
      cases par with
      | none => exact absurd hp (by simp [ParRel])
      | some p =>
        simp only [ParRel] at hp
        simp only [Bool.and_eq_true, Bool.or_eq_true, beq_iff_eq] at h2
        have := list_name p (by rw [← hp.1]; exact h2.2)
        rcases this with rfl | rfl <;> simp
  · cases pw <;> cases par <;> simp_all [ParRel, blockCtx, Verif.Model.WellFormed.blockCtx]
  · cases pw <;> cases par <;> simp_all [ParRel, inlineCtx, Verif.Model.WellFormed.inlineCtx]
  · cases pw <;> cases par <;> simp_all [ParRel]

open Verif.Lemmas.WellFormed in
theorem gforest_of_forest : ∀ {pw : Option Verif.Model.WellFormed.Tok} {i : Nat} {ws : List Verif.Model.WellFormed.Tok},
    Forest wfSpec pw i ws → ∀ (par : Option Kind) (ts : List Tok), ParRel pw par → ws = ts.map Tok.toWf →
    GForest par i ts := by
  intro pw i ws h
  induction h with
  | nil =>
    intro par ts _ hm
    have : ts = [] := by cases ts <;> simp_all
    subst this; exact GForest.nil
  | @atom pw i t rest hk ha _ ih =>
    intro par ts hp hm
    cases ts with
    | nil => simp at hm
    | cons t' ts' =>
      simp only [List.map_cons, List.cons.injEq] at hm
      obtain ⟨rfl, rfl⟩ := hm
      rcases toWf_kind_cases t' with ⟨k, hk'⟩ | ⟨k, p, f, hb⟩
      · have hw := toWf_notEnd hk'
        have hst : Kind.isStart k = false := by
          rw [hw] at hk
          unfold Kind.isStart
          by_cases hc : (k.requiresEnd && k != .li) = true
          · simp [hc] at hk
          · simpa using hc
        simp only [wfSpec, Spec.and, balSpec, clsSpec, Bool.true_and] at ha
        exact GForest.atom hk' hst (atomOK_transfer hp hk' ha) (ih par ts' hp rfl)
      · rw [toWf_of_end hb] at hk; cases hk
  | @node pw i s body e rest p hk hs _ he hE _ ihb ihr =>
    intro par ts hp hm
    cases ts with
    | nil => simp at hm
    | cons s' ts' =>
      simp only [List.map_cons, List.cons.injEq] at hm
      obtain ⟨rfl, hm⟩ := hm
      obtain ⟨bs, r2, rfl, hb1, hr2⟩ := List.map_eq_append_iff.mp hm.symm
      cases r2 with
      | nil => simp at hr2
      | cons e' rs =>
        simp only [List.map_cons, List.cons.injEq] at hr2
        obtain ⟨rfl, rfl⟩ := hr2
        subst hb1
        rcases toWf_kind_cases s' with ⟨k, hk'⟩ | ⟨k, p', f, hb⟩
        · have hw := toWf_notEnd hk'
          have hst : Kind.isStart k = true := by
            rw [hw] at hk
            unfold Kind.isStart
            by_cases hc : (k.requiresEnd && k != .li) = true
            · exact hc
            · simp [hc] at hk
          simp only [wfSpec, Spec.and, balSpec, clsSpec, Bool.true_and, Bool.and_true, Bool.and_eq_true,
            beq_iff_eq] at hs hE
          obtain ⟨k2, f2, hb2⟩ := toWf_end hE.1
          have hname := hE.2
          rw [toWf_of_end hb2, parName hk'] at hname
          have hk2 : k2 = k := kind_name_inj _ _ (by
            simpa [Verif.Model.WellFormed.endName] using hname)
          subst hk2
          have hlen : (List.map Tok.toWf bs).length = bs.length := by simp
          refine GForest.node hk' hst (startOK_transfer hp hk' hs)
            (ihb (some k2) bs ⟨parName hk', parCls hk'⟩ rfl) hb2 ?_
          have := ihr par rs hp rfl
          rw [hlen] at this; exact this
        · rw [toWf_of_end hb] at hk; cases hk

open Verif.Lemmas.WellFormed in
/-- accepted by the C04 monitor ⇒ a well-formed forest at the root -/
theorem gforest_of_wellFormed {ts : List Tok} (h : WellFormed ts) : GForest none 0 ts := by
  have h1 := (wfCheck_iff _).mp h
  have h2 := (gRun_iff_forest wfSpec _).mp h1.1
  exact gforest_of_forest h2 none ts trivial rfl

end Verif.Lemmas.GfmBasic
