import Verif.Lemmas.Coalesce
import Verif.Props.C04
/-
  Transfer of well-formedness (Verif.Model.WellFormed) through the coalesce pass.

  The pass removes point tokens (text / blank-line tokens merged into the text token before them), replaces a blank line
  directly after a code-block start by a new text token, and leaves every other token object in place.  `marks` (model) says
  which of the three happens to each input token; tools/coalescelib.py compares the marks with the identity of the real
  objects.  `out.map shp = applyMarks … (ts.map shp)` ties the marks to the model's output; `dropMarked` is the same operation
  on the abstract stream of C04 (`dropAt` renumbers the back-pointers, which the real stream carries as object references).
-/
namespace Verif.Lemmas.CoalesceWF
open Verif.Model.Coalesce Verif.Lemmas.Coalesce
open Verif.Model.WellFormed (WellNested ClassOK dropAt shiftTok)

abbrev WTok := Verif.Model.WellFormed.Tok

/-! ## marks vs output -/

/-- payload-free view of a token -/
def shp : Tok → Tok
  | .text _ => .text ⟨[], [], none, none, 0, 0⟩
  | .blank _ _ _ => .blank [] 0 0
  | t => erase t

def applyMarks {α : Type} (txt : α) : List Mark → List α → List α
  | .keep :: ms, a :: l => a :: applyMarks txt ms l
  | .retag :: ms, _ :: l => txt :: applyMarks txt ms l
  | .drop :: ms, _ :: l => applyMarks txt ms l
  | _, _ => []

def TXT : Tok := .text ⟨[], [], none, none, 0, 0⟩

def markOut (m : Mark) (t : Tok) : List Tok :=
  match m with
  | .keep => [shp t]
  | .retag => [TXT]
  | .drop => []

theorem shp_addIndented (h : Tok) (r : Verif.Model.Recognisers.Str) : shp (addIndented h r) = shp h := by cases h <;> rfl

theorem step_mark (only : Bool) (acc acc' : List Tok) (t : Tok) (h : step only acc t = .ok acc') :
    acc'.map shp = markOut (stepMark only acc t) t ++ acc.map shp := by
  rcases acc with _ | ⟨last, below⟩
  · simp [step] at h
  · cases hl : last.isText with
    | true =>
      cases last <;> simp [Tok.isText] at hl
      rename_i x
      unfold step at h
      simp only at h
      split at h
      · next hh =>
        cases h
        simp only [Bool.and_eq_true, Bool.not_eq_eq_eq_not, Bool.not_true] at hh
        rcases below with _ | ⟨hd, rest⟩ <;> simp [stepMark, markOut, hh.1, hh.2]
      · next hnh =>
        rcases below with _ | ⟨hd, rest⟩
        · simp at h
        · simp only at h
          split at h
          · next hh =>
            cases h
            simp only [Bool.and_eq_true, Bool.not_eq_eq_eq_not, Bool.not_true] at hh
            simp [stepMark, markOut, hh.1, hh.2]
          · next hnc =>
            split at h
            · cases h
            · next x' removed hc =>
              cases h
              have hd : (t.isText || t.isBlank && hd.isCode) = true := by
                cases ht : t.isText with
                | true => rfl
                | false =>
                  simp only [ht, Bool.not_false, Bool.true_and, Bool.not_eq_eq_eq_not, Bool.not_true, Bool.not_eq_false] at hnh hnc
                  simp [hnh, hnc]
              simp only [stepMark, hd, ↓reduceIte, markOut, List.nil_append, List.map_cons, List.cons.injEq, and_true]
              refine ⟨rfl, ?_⟩
              split
              · exact shp_addIndented _ _
              · rfl
    | false =>
      have hs := step_nontext only last below t hl
      unfold stepNT at hs
      rw [hs] at h
      have hm : stepMark only (last :: below) t = if !only && t.isBlank && last.isCode then .retag else .keep := by
        cases last <;> first | (simp [Tok.isText] at hl; done) | rfl
      rw [hm]
      split at h
      · next ho =>
        simp only [Bool.not_eq_eq_eq_not, Bool.not_true] at ho
        subst ho
        split at h
        · split at h
          · next hc => cases h; simp [markOut, hc, blankAsText, TXT, shp]
          · next hc => cases h; simp [markOut, hc]
        · next hnb =>
          cases h
          have : t.isBlank = false := by
            cases t <;> first | rfl | exact absurd rfl (hnb _ _ _)
          simp [markOut, this]
      · next ho =>
        simp only [Bool.not_eq_eq_eq_not, Bool.not_true, Bool.not_eq_false] at ho
        cases h
        simp [markOut, ho]

theorem applyMarks_cons (txt : Tok) (m : Mark) (ms : List Mark) (t : Tok) (l : List Tok) :
    applyMarks txt (m :: ms) (shp t :: l) = (match m with | .keep => [shp t] | .retag => [txt] | .drop => []) ++ applyMarks txt ms l := by
  cases m <;> rfl

theorem loop_marks (only : Bool) (acc rest out : List Tok) (h : loop only acc rest = .ok out) :
    out.reverse.map shp = acc.reverse.map shp ++ applyMarks TXT (loopMarks only acc rest) (rest.map shp) := by
  induction rest generalizing acc with
  | nil => unfold loop at h; cases h; simp [loopMarks, applyMarks]
  | cons t rest ih =>
    unfold loop at h
    split at h
    · cases h
    · next acc' hs =>
      rw [ih acc' h]
      have := step_mark only acc acc' t hs
      have hr : acc'.reverse.map shp = acc.reverse.map shp ++ markOut (stepMark only acc t) t := by
        rw [List.map_reverse, List.map_reverse, this]
        have hm : (markOut (stepMark only acc t) t).reverse = markOut (stepMark only acc t) t := by
          unfold markOut; split <;> rfl
        simp [hm]
      rw [hr]
      simp only [loopMarks, hs, List.map_cons, applyMarks_cons, List.append_assoc]
      rfl

/-- the output is, up to payload, the input with the dropped positions removed and the re-tagged blanks read as text -/
theorem merge_marks (only : Bool) (ts out : List Tok) (h : merge only ts = .ok out) :
    out.map shp = applyMarks TXT (marks only ts) (ts.map shp) := by
  unfold merge at h
  split at h
  · cases h
  · next t0 rest =>
    split at h
    · cases h
    · next acc hl =>
      cases h
      rw [loop_marks only [t0] rest acc hl]
      simp [marks, applyMarks]

theorem shp_setFinal (p : Tok) (r : Verif.Model.Recognisers.Str) : shp (setFinal p r) = shp p := by cases p <;> rfl

theorem calcFinal_shp (l l' : List Tok) (h : calcFinal l = .ok l') : l'.map shp = l.map shp := by
  fun_induction calcFinal l generalizing l' with
  | case1 => cases h; rfl
  | case2 p x rest hp e he => cases h
  | case3 p x rest hp x' removed hx e he ih => cases h
  | case4 p x rest hp x' removed hx rest' hr ih =>
    cases h
    simp only [List.map_cons, ih rest' hr, shp_setFinal]
    rfl
  | case5 p x rest hp e he ih => cases h
  | case6 p x rest hp rest' hr ih => cases h; simp [ih rest' hr]
  | case7 p rest hn e he ih => cases h
  | case8 p rest hn rest' hr ih => cases h; simp [ih rest' hr]

theorem coalesce_marks (only : Bool) (ts out : List Tok) (h : coalesce only ts = .ok out) :
    out.map shp = applyMarks TXT (marks only ts) (ts.map shp) := by
  unfold coalesce at h
  split at h
  · cases h
  · next l hm =>
    split at h
    · cases h; exact merge_marks only ts _ hm
    · rw [calcFinal_shp l out h]; exact merge_marks only ts l hm

theorem loopMarks_length (only : Bool) (acc rest : List Tok) : (loopMarks only acc rest).length ≤ rest.length := by
  induction rest generalizing acc with
  | nil => simp [loopMarks]
  | cons t rest ih =>
    unfold loopMarks
    split
    · simp
    · next acc' _ => have := ih acc'; simp; omega

theorem marks_length (only : Bool) (ts : List Tok) : (marks only ts).length ≤ ts.length := by
  cases ts with
  | nil => simp [marks]
  | cons t0 rest => have := loopMarks_length only [t0] rest; simp [marks]; omega

/-! ## the abstract stream -/

def textTok : WTok := ⟨"text", .inline, .atom⟩

/-- the abstract input stream with every folded line (dropped or re-tagged position) read as a text atom -/
def shapeFix : List Mark → List WTok → List WTok
  | [], W => W
  | _ :: _, [] => []
  | m :: ms, w :: W => (if m = .keep then w else textTok) :: shapeFix ms W

/-- remove the dropped positions from the abstract stream, back-pointers renumbered (`k` = position of the next mark) -/
def dropMarked (k : Nat) : List Mark → List WTok → List WTok
  | [], W => W
  | .drop :: ms, W => dropMarked k ms (dropAt W k)
  | _ :: ms, W => dropMarked (k + 1) ms W

def AtomsAt (k : Nat) (ms : List Mark) (W : List WTok) : Prop :=
  ∀ i, ms[i]? = some .drop → ∃ a, W[k + i]? = some a ∧ a.kind = .atom

theorem shiftTok_atom (k : Nat) (a : WTok) (h : a.kind = .atom) : (shiftTok k a).kind = .atom := by
  unfold shiftTok; rw [h]; simp [h]

theorem dropAt_get (W : List WTok) (k j : Nat) (hk : k < W.length) (hj : k ≤ j) :
    (dropAt W k)[j]? = (W[j + 1]?).map (shiftTok k) := by
  unfold dropAt
  have hl : (W.take k).length = k := by simp; omega
  rw [List.getElem?_append_right (by omega), hl, List.getElem?_map, List.getElem?_drop]
  congr 2
  omega

theorem dropMarked_wf (k : Nat) (ms : List Mark) (W : List WTok) (ha : AtomsAt k ms W)
    (h : WellNested W ∧ ClassOK W) : WellNested (dropMarked k ms W) ∧ ClassOK (dropMarked k ms W) := by
  induction ms generalizing k W with
  | nil => exact h
  | cons m ms ih =>
    cases m with
    | drop =>
      obtain ⟨a, hak, haa⟩ := ha 0 rfl
      simp only [Nat.add_zero] at hak
      have hk : k < W.length := by
        rcases Nat.lt_or_ge k W.length with h' | h'
        · exact h'
        · rw [List.getElem?_eq_none h'] at hak; cases hak
      simp only [dropMarked]
      refine ih k (dropAt W k) ?_ (Verif.Props.C04.drop_atom_preserves W k a hak haa h)
      intro i hi
      obtain ⟨b, hb, hba⟩ := ha (i + 1) (by simpa using hi)
      refine ⟨shiftTok k b, ?_, shiftTok_atom k b hba⟩
      rw [dropAt_get W k (k + i) hk (by omega)]
      have : k + i + 1 = k + (i + 1) := by omega
      rw [this, hb]; rfl
    | keep =>
      simp only [dropMarked]
      refine ih (k + 1) W ?_ h
      intro i hi
      obtain ⟨b, hb, hba⟩ := ha (i + 1) (by simpa using hi)
      exact ⟨b, by rw [← hb]; congr 1; omega, hba⟩
    | retag =>
      simp only [dropMarked]
      refine ih (k + 1) W ?_ h
      intro i hi
      obtain ⟨b, hb, hba⟩ := ha (i + 1) (by simpa using hi)
      exact ⟨b, by rw [← hb]; congr 1; omega, hba⟩

theorem shapeFix_atoms (ms : List Mark) (W : List WTok) (hlen : ms.length ≤ W.length) : AtomsAt 0 ms (shapeFix ms W) := by
  induction ms generalizing W with
  | nil => intro i hi; simp at hi
  | cons m ms ih =>
    rcases W with _ | ⟨w, W⟩
    · simp at hlen
    · intro i hi
      cases i with
      | zero =>
        simp only [List.getElem?_cons_zero, Option.some.injEq] at hi
        subst hi
        exact ⟨textTok, by simp [shapeFix], rfl⟩
      | succ i =>
        obtain ⟨a, ha, haa⟩ := ih W (by simpa using hlen) i (by simpa using hi)
        exact ⟨a, by simpa [shapeFix] using ha, haa⟩

end Verif.Lemmas.CoalesceWF
