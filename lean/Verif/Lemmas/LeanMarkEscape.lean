/-
  LeanMark — `L_escape`: HTML escaping (`escHtml`, used by the renderer for every text, code, attribute
  value and URL) leaves no raw `<`, `>` or `"`, for every string.
-/
import Verif.Model.LeanMark.Html
namespace Verif.Model.LeanMark

def escOne (c : Char) : List Char :=
  match c with
  | '<' => "&lt;".toList | '>' => "&gt;".toList | '&' => "&amp;".toList | '"' => "&quot;".toList
  | c => [c]

theorem escHtml_eq (s : List Char) : escHtml s = s.flatMap escOne := rfl

theorem escOne_safe (c : Char) : ∀ x ∈ escOne c, x ≠ '<' ∧ x ≠ '>' ∧ x ≠ '"' := by
  intro x hx
  unfold escOne at hx
  split at hx
  · simp at hx; rcases hx with rfl | rfl | rfl | rfl <;> decide
  · simp at hx; rcases hx with rfl | rfl | rfl | rfl <;> decide
  · simp at hx; rcases hx with rfl | rfl | rfl | rfl | rfl <;> decide
  · simp at hx; rcases hx with rfl | rfl | rfl | rfl | rfl | rfl <;> decide
  · next h1 h2 h3 h4 =>
    simp at hx
    subst hx
    exact ⟨fun h => h1 (by rw [h]), fun h => h2 (by rw [h]), fun h => h4 (by rw [h])⟩

/-- **L_escape**: no raw `<`, `>`, `"` survives `escHtml`. -/
theorem L_escape (s : List Char) : ∀ x ∈ escHtml s, x ≠ '<' ∧ x ≠ '>' ∧ x ≠ '"' := by
  intro x hx
  rw [escHtml_eq, List.mem_flatMap] at hx
  obtain ⟨c, _, hc⟩ := hx
  exact escOne_safe c x hc

example : escHtml "a<b>&\"".toList = "a&lt;b&gt;&amp;&quot;".toList := by decide

end Verif.Model.LeanMark
