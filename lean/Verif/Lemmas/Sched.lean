/- The level scheduler of fix mode, abstractly: what `fixLoop` does to (document, fixed flag, levels). -/
import Verif.Model.FixSched
namespace Verif.Model.FixSched

/-- Result of one pass as the scheduler sees it. -/
structure PassRes (Doc : Type) where
  doc        : Doc
  changed    : Bool
  trigLevels : List Nat      -- levels of the collect-list rules found triggered (all above the pass level)

/-- The scheduler loop over an arbitrary pass function. -/
def schedLoop {Doc : Type} (step : Nat → Doc → PassRes Doc) : Nat → Nat → Doc → Doc × Bool × List Nat
  | 0, k, d => (d, false, [k])
  | fuel + 1, k, d =>
    let p := step k d
    match minOpt (p.trigLevels.filter (· > k)) with
    | none => (p.doc, p.changed, [k])
    | some k' =>
      let r := schedLoop step fuel k' p.doc
      (r.1, p.changed || r.2.1, k :: r.2.2)

theorem minOpt_mem : ∀ (l : List Nat) (m : Nat), minOpt l = some m → m ∈ l ∧ ∀ x ∈ l, m ≤ x
  | [], _, h => by cases h
  | x :: xs, m, h => by
    simp only [minOpt] at h
    cases hx : minOpt xs with
    | none =>
      rw [hx] at h; cases h
      cases xs with
      | nil => simp
      | cons y ys => simp [minOpt] at hx; cases h2 : minOpt ys <;> simp [h2] at hx
    | some m' =>
      rw [hx] at h; cases h
      have ih := minOpt_mem xs m' hx
      constructor
      · by_cases hle : x ≤ m'
        · simp [Nat.min_eq_left hle]
        · simp only [List.mem_cons]; right
          have : min x m' = m' := Nat.min_eq_right (by omega)
          rw [this]; exact ih.1
      · intro y hy
        simp only [List.mem_cons] at hy
        rcases hy with rfl | hy
        · exact Nat.min_le_left _ _
        · exact Nat.le_trans (Nat.min_le_right _ _) (ih.2 y hy)

theorem minOpt_none : ∀ (l : List Nat), minOpt l = none → l = []
  | [], _ => rfl
  | x :: xs, h => by
    simp only [minOpt] at h
    cases hx : minOpt xs <;> rw [hx] at h <;> cases h

/-- The concrete `fixLoop` is the abstract scheduler over `pass`. -/
def passStep (rs : List XRule) (toks : String → List String) (tokFix : Nat → String → Option String)
    (k : Nat) (d : String) : PassRes String :=
  let p := pass k rs toks d (tokFix k d)
  ⟨p.content, p.changed, p.trig.filterMap (levelOf rs)⟩

theorem fixLoop_eq_sched (rs : List XRule) (toks : String → List String)
    (tokFix : Nat → String → Option String) : ∀ (fuel k : Nat) (d : String),
    let r := fixLoop rs toks tokFix fuel k d
    (r.content, r.fixed, r.levels) = schedLoop (passStep rs toks tokFix) fuel k d
  | 0, _, _ => rfl
  | fuel + 1, k, d => by
    have ih := fun k' => fixLoop_eq_sched rs toks tokFix fuel k' (pass k rs toks d (tokFix k d)).content
    simp only [passStep] at ih
    simp only [fixLoop, schedLoop, passStep]
    split
    · rename_i h; simp only [h]
    · rename_i k' h
      simp only [h]
      rw [← ih k']

end Verif.Model.FixSched
