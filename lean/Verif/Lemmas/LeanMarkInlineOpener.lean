/-
  LeanMark — inline events point at their own opening character.

  Layer 1 (this part): for an abstract view `V : Pos → Char → Prop` ("the character of the tab-expanded source
  at this position is …"), the items on the inline working stack and the events they flatten to satisfy the
  opener table `IOpenerOK V hard`, provided every handler is called in a state whose current position is
  described by `Here V …` (the characters that follow on the current line sit at consecutive columns).
  Layer 2 (below): the scanner's position tracking (`ISt.advance`) realises `Here` for the view `VL lines`
  given by the leaf's own payload lines.
-/
import Verif.Model.LeanMark.Inline
import Verif.Lemmas.LeanMarkInline
import Verif.Lemmas.LeanMarkOpenerDefs
namespace Verif.Model.LeanMark

/-- the column right of a position. -/
def Pos.right (p : Pos) (j : Nat) : Pos := ⟨p.line, p.col + j⟩

/-- **the inline opener table**: what the position of an inline event points at.
    `hard = true` also constrains hard breaks (backslash, or the first of the trailing spaces). -/
def IOpenerOK (V : Pos → Char → Prop) (hard : Bool) : IEv → Prop
  | .code _ p => V p '`'
  | .rawHtml _ p => V p '<'
  | .autolink _ _ p => V p '<'
  | .openEmph p => V p '*' ∨ V p '_'
  | .openStrong p => (V p '*' ∧ V (p.right 1) '*') ∨ (V p '_' ∧ V (p.right 1) '_')
  | .openLink _ _ p => V p '['
  | .openImage _ _ p => V p '!' ∧ V (p.right 1) '['
  | .hardbreak p => hard = true → (V p '\\' ∨ V p ' ')
  | _ => True

variable {V : Pos → Char → Prop} {hard : Bool}

/-- invariant of one item of the working stack. -/
def ItemPos (V : Pos → Char → Prop) (hard : Bool) : Item → Prop
  | .text _ _ => True
  | .ev es => ∀ e ∈ es, IOpenerOK V hard e
  | .delim ch n _ _ _ p => (ch = '*' ∨ ch = '_') ∧ ∀ j, j < n → V (p.right j) ch
  | .bracket image _ _ p _ _ => if image then V p '!' ∧ V (p.right 1) '[' else V p '['

def AllPos (V : Pos → Char → Prop) (hard : Bool) (l : List Item) : Prop := ∀ it ∈ l, ItemPos V hard it

theorem AllPos.nil : AllPos V hard [] := by intro x hx; cases hx

theorem AllPos.cons {it : Item} {l : List Item} (h1 : ItemPos V hard it) (h2 : AllPos V hard l) :
    AllPos V hard (it :: l) := by
  intro x hx
  rcases List.mem_cons.mp hx with rfl | hx
  · exact h1
  · exact h2 x hx

theorem AllPos.tail {it : Item} {l : List Item} (h : AllPos V hard (it :: l)) : AllPos V hard l :=
  fun x hx => h x (List.mem_cons_of_mem _ hx)

theorem AllPos.head {it : Item} {l : List Item} (h : AllPos V hard (it :: l)) : ItemPos V hard it :=
  h it List.mem_cons_self

theorem AllPos.append {a b : List Item} (ha : AllPos V hard a) (hb : AllPos V hard b) : AllPos V hard (a ++ b) := by
  intro x hx
  rcases List.mem_append.mp hx with hx | hx
  · exact ha x hx
  · exact hb x hx

theorem AllPos.reverse {a : List Item} (ha : AllPos V hard a) : AllPos V hard a.reverse :=
  fun x hx => ha x (List.mem_reverse.mp hx)

theorem itemEvents_pos {it : Item} (h : ItemPos V hard it) : ∀ e ∈ itemEvents it, IOpenerOK V hard e := by
  cases it with
  | text r p => intro e he; simp only [itemEvents, List.mem_singleton] at he; subst he; trivial
  | ev es => exact h
  | delim ch n o a b p =>
    intro e he
    simp only [itemEvents] at he
    split at he
    · cases he
    · simp only [List.mem_singleton] at he; subst he; trivial
  | bracket i a b p s o => intro e he; simp only [itemEvents, List.mem_singleton] at he; subst he; trivial

theorem flattenRev_pos {l : List Item} (h : AllPos V hard l) : ∀ e ∈ flattenRev l, IOpenerOK V hard e := by
  intro e he
  unfold flattenRev at he
  obtain ⟨it, hit, hei⟩ := List.mem_flatMap.mp he
  exact itemEvents_pos (h it (List.mem_reverse.mp hit)) e hei

/-! ## emphasis resolution -/
theorem findOpener_pos (ch : Char) (co : Nat) (cc : Bool) :
    ∀ (left inner : List Item), AllPos V hard left → AllPos V hard inner →
    ∀ r, findOpener ch co cc left inner = some r →
      AllPos V hard r.1 ∧ AllPos V hard r.2.2.2.2.2.2 ∧ 0 < r.2.1 ∧
      ItemPos V hard (.delim ch r.2.1 r.2.2.1 r.2.2.2.1 r.2.2.2.2.1 r.2.2.2.2.2.1)
  | [], _, _, _, r, h => by simp [findOpener] at h
  | it :: rest, inner, hl, hi, r, h => by
    unfold findOpener at h
    split at h
    · next ch' n orig canOpen canClose p =>
      simp only at h
      split at h
      · next hc =>
        simp only [Option.some.injEq] at h
        subst h
        simp only [Bool.and_eq_true, beq_iff_eq, decide_eq_true_eq] at hc
        have hch : ch' = ch := hc.1.1.1
        have := hl.head
        rw [hch] at this
        exact ⟨hi.reverse, hl.tail, hc.2, this⟩
      · exact findOpener_pos ch co cc rest (_ :: inner) hl.tail (AllPos.cons hl.head hi) r h
    · exact findOpener_pos ch co cc rest (it :: inner) hl.tail (AllPos.cons hl.head hi) r h

theorem delim_sub {ch : Char} {n o : Nat} {a b : Bool} {p : Pos} (h : ItemPos V hard (.delim ch n o a b p))
    (k m o' : Nat) (a' b' : Bool) (hkm : k + m ≤ n) : ItemPos V hard (.delim ch m o' a' b' (p.right k)) := by
  refine ⟨h.1, ?_⟩
  intro j hj
  have := h.2 (k + j) (by omega)
  simpa [Pos.right, Nat.add_assoc] using this

theorem procEmph_pos : ∀ (fuel : Nat) (left right : List Item), AllPos V hard left → AllPos V hard right →
    AllPos V hard (procEmph fuel left right)
  | 0, left, right, hl, hr => by
    unfold procEmph
    exact hr.reverse.append hl
  | fuel + 1, left, [], hl, _ => by
    unfold procEmph
    exact hl
  | fuel + 1, left, it :: rest, hl, hr => by
    unfold procEmph
    split
    · next ch n orig canOpen canClose pos =>
      have hit : ItemPos V hard (.delim ch n orig canOpen canClose pos) := hr.head
      split
      · next hcc =>
        split
        · next inner on oorig oCanOpen oCanClose opos older hfo =>
          obtain ⟨hin, hold, hon, hop⟩ := findOpener_pos ch orig canOpen left [] hl AllPos.nil _ hfo
          simp only at hin hold hon hop
          have hbody := flattenRev_pos hin
          simp only
          cases h2 : (decide (n ≥ 2) && decide (on ≥ 2)) with
          | true =>
            simp only [↓reduceIte, beq_self_eq_true]
            simp only [Bool.and_eq_true, decide_eq_true_eq] at h2
            have hnode : ItemPos V hard (.ev (.openStrong ⟨opos.line, opos.col + (on - 2)⟩ :: flattenRev inner ++ [.closeStrong])) := by
              intro e he
              simp only [List.cons_append, List.mem_cons, List.mem_append, List.not_mem_nil, or_false] at he
              rcases he with rfl | he | rfl
              · have a1 := hop.2 (on - 2) (by omega)
                have a2 := hop.2 (on - 2 + 1) (by omega)
                rcases hop.1 with hc | hc <;> subst hc
                · exact Or.inl ⟨a1, by simpa [Pos.right, Nat.add_assoc] using a2⟩
                · exact Or.inr ⟨a1, by simpa [Pos.right, Nat.add_assoc] using a2⟩
              · exact hbody e he
              · trivial
            have holder : AllPos V hard (if on - 2 > 0 then .delim ch (on - 2) oorig oCanOpen oCanClose opos :: older else older) := by
              split
              · exact AllPos.cons (by simpa [Pos.right] using delim_sub hop 0 (on - 2) oorig oCanOpen oCanClose (by omega)) hold
              · exact hold
            split
            · apply procEmph_pos fuel _ _ (AllPos.cons hnode holder)
              exact AllPos.cons (by simpa [Pos.right] using delim_sub hit 2 (n - 2) orig canOpen canClose (by omega)) hr.tail
            · exact procEmph_pos fuel _ _ (AllPos.cons hnode holder) hr.tail
          | false =>
            simp only [Bool.false_eq_true, ↓reduceIte, (by decide : ((1 : Nat) == 2) = false)]
            have hn1 : 0 < n := by
              simp only [Bool.and_eq_true, decide_eq_true_eq] at hcc
              exact hcc.2
            have hnode : ItemPos V hard (.ev (.openEmph ⟨opos.line, opos.col + (on - 1)⟩ :: flattenRev inner ++ [.closeEmph])) := by
              intro e he
              simp only [List.cons_append, List.mem_cons, List.mem_append, List.not_mem_nil, or_false] at he
              rcases he with rfl | he | rfl
              · have a1 := hop.2 (on - 1) (by omega)
                rcases hop.1 with hc | hc <;> subst hc
                · exact Or.inl a1
                · exact Or.inr a1
              · exact hbody e he
              · trivial
            have holder : AllPos V hard (if on - 1 > 0 then .delim ch (on - 1) oorig oCanOpen oCanClose opos :: older else older) := by
              split
              · exact AllPos.cons (by simpa [Pos.right] using delim_sub hop 0 (on - 1) oorig oCanOpen oCanClose (by omega)) hold
              · exact hold
            split
            · apply procEmph_pos fuel _ _ (AllPos.cons hnode holder)
              exact AllPos.cons (by simpa [Pos.right] using delim_sub hit 1 (n - 1) orig canOpen canClose (by omega)) hr.tail
            · exact procEmph_pos fuel _ _ (AllPos.cons hnode holder) hr.tail
        · apply procEmph_pos fuel _ _ _ hr.tail
          apply AllPos.cons _ hl
          split
          · exact hit
          · exact ⟨hit.1, hit.2⟩
      · exact procEmph_pos fuel _ _ (AllPos.cons hit hl) hr.tail
    · exact procEmph_pos fuel _ _ (AllPos.cons hr.head hl) hr.tail

theorem resolveEmph_pos {items : List Item} (h : AllPos V hard items) : ∀ e ∈ resolveEmph items, IOpenerOK V hard e :=
  flattenRev_pos (procEmph_pos _ [] items AllPos.nil h)

/-! ## links and images -/
theorem splitAtBracket_pos : ∀ (acc inner : List Item), AllPos V hard acc → AllPos V hard inner →
    ∀ r, splitAtBracket acc inner = some r →
      AllPos V hard r.1 ∧ AllPos V hard r.2.2 ∧ ItemPos V hard r.2.1 ∧ ∃ i a b p s o, r.2.1 = .bracket i a b p s o
  | [], _, _, _, r, h => by simp [splitAtBracket] at h
  | it :: rest, inner, ha, hi, r, h => by
    unfold splitAtBracket at h
    split at h
    · next i a b p s o =>
      simp only [Option.some.injEq] at h
      subst h
      exact ⟨hi, ha.tail, ha.head, i, a, b, p, s, o, rfl⟩
    · exact splitAtBracket_pos rest (it :: inner) ha.tail (AllPos.cons ha.head hi) r h

theorem deactivateLinks_pos (l : List Item) (h : AllPos V hard l) : AllPos V hard (deactivateLinks l) := by
  fun_induction deactivateLinks l
  · exact h
  · rename_i ih
    exact AllPos.cons (by have := h.head; exact this) (ih h.tail)
  · rename_i ih
    exact AllPos.cons h.head (ih h.tail)

theorem markBracketAfter_pos (l : List Item) (h : AllPos V hard l) : AllPos V hard (markBracketAfter l) := by
  fun_induction markBracketAfter l
  · exact h
  · exact AllPos.cons (by have := h.head; exact this) h.tail
  · rename_i ih
    exact AllPos.cons h.head (ih h.tail)

theorem pushText_pos (st : ISt) (s : List Char) (h : AllPos V hard st.acc) : AllPos V hard (st.pushText s).acc := by
  unfold ISt.pushText
  split
  · next rev p rest heq =>
    simp only
    rw [heq] at h
    exact AllPos.cons trivial h.tail
  · exact AllPos.cons trivial h

theorem closeBracket_pos (refs : RefMap) (r : List Char) (st : ISt) (h : AllPos V hard st.acc) :
    AllPos V hard (closeBracket refs r st).acc := by
  unfold closeBracket
  split
  · exact pushText_pos _ _ h
  · next newer br older hsp =>
    obtain ⟨hn, ho, hb, _⟩ := splitAtBracket_pos st.acc [] h AllPos.nil _ hsp
    simp only at hn ho hb
    split
    · next image active bracketAfter bpos srcAfter boff =>
      have hfail := fun (s : List Char) (x : List Char) (q : Pos) (st' : ISt)
          (he : st'.acc = newer.reverse ++ Item.text x q :: older) =>
        pushText_pos (V := V) (hard := hard) st' s (by rw [he]; exact hn.reverse.append (AllPos.cons trivial ho))
      simp only
      split
      · exact hfail _ _ _ _ rfl
      · split
        · exact hfail _ _ _ _ rfl
        · next dest title consumed _ =>
          have hbody := resolveEmph_pos hn
          simp only
          apply AllPos.cons
          · split
            · next him =>
              intro e he
              simp only [List.cons_append, List.mem_cons, List.mem_append, List.not_mem_nil, or_false] at he
              rcases he with rfl | he | rfl
              · simpa [ItemPos, IOpenerOK, him] using hb
              · exact hbody e he
              · trivial
            · next him =>
              intro e he
              simp only [List.cons_append, List.mem_cons, List.mem_append, List.not_mem_nil, or_false] at he
              rcases he with rfl | he | rfl
              · simpa [ItemPos, IOpenerOK, him] using hb
              · exact hbody e he
              · trivial
          · split
            · exact ho
            · exact deactivateLinks_pos _ ho
    · exact h

/-! ## the current position -/
/-- the characters that follow on the current line (up to the first tab or line ending) stand at
    consecutive columns from the current one.  `cs` = the text still to scan, current character first. -/
def Here (V : Pos → Char → Prop) (line col : Nat) (cs : List Char) : Prop :=
  ∀ (pre : List Char) (x : Char) (post : List Char), cs = pre ++ x :: post →
    (∀ y ∈ pre, y ≠ '\t' ∧ y ≠ '\n') → x ≠ '\t' → x ≠ '\n' → V ⟨line, col + 1 + pre.length⟩ x

theorem Here.cur {line col : Nat} {c : Char} {r : List Char} (h : Here V line col (c :: r))
    (h1 : c ≠ '\t') (h2 : c ≠ '\n') : V ⟨line, col + 1⟩ c :=
  h [] c r rfl (by simp) h1 h2

theorem countWhile_take (p : Char → Bool) : ∀ (l : List Char) (j : Nat), j < countWhile p l →
    ∃ x post, l = l.take j ++ x :: post ∧ p x = true ∧ (∀ y ∈ l.take j, p y = true) ∧ (l.take j).length = j
  | [], j, h => by simp [countWhile] at h
  | a :: t, j, h => by
    unfold countWhile at h
    split at h
    · next hpa =>
      cases j with
      | zero => exact ⟨a, t, rfl, hpa, by simp, rfl⟩
      | succ j =>
        obtain ⟨x, post, h1, h2, h3, h4⟩ := countWhile_take p t j (by omega)
        refine ⟨x, post, ?_, h2, ?_, ?_⟩
        · simp only [List.take_succ_cons, List.cons_append]; rw [← h1]
        · intro y hy
          simp only [List.take_succ_cons, List.mem_cons] at hy
          rcases hy with rfl | hy
          · exact hpa
          · exact h3 y hy
        · simp only [List.take_succ_cons, List.length_cons, h4]
    · omega

/-- a run of `n` copies of `c` (not a tab, not a line ending) at the current position. -/
theorem Here.run {line col : Nat} {c : Char} {r : List Char} (h : Here V line col (c :: r))
    (h1 : c ≠ '\t') (h2 : c ≠ '\n') : ∀ j, j < 1 + countWhile (· == c) r → V ⟨line, col + 1 + j⟩ c := by
  intro j hj
  cases j with
  | zero => exact h.cur h1 h2
  | succ j =>
    obtain ⟨x, post, e1, e2, e3, e4⟩ := countWhile_take (· == c) r j (by omega)
    have hx : x = c := by simpa using e2
    subst hx
    have := h (x :: r.take j) x post (by rw [List.cons_append, ← e1]) (by
      intro y hy
      rcases List.mem_cons.mp hy with rfl | hy
      · exact ⟨h1, h2⟩
      · have : y = x := by simpa using e3 y hy
        subst this; exact ⟨h1, h2⟩) h1 h2
    simpa [e4, Nat.add_assoc, Nat.add_comm 1 j] using this

/-! ## the trailing spaces of the newest text item -/
def trailRun : List Item → Nat
  | .text rev _ :: _ => countWhile (· == ' ') rev
  | _ => 0

/-- the trailing spaces of the newest text item are the characters just before the current position. -/
structure Trail (V : Pos → Char → Prop) (st : ISt) : Prop where
  skip : st.skip > 0 → trailRun st.acc = 0
  le : trailRun st.acc ≤ st.col
  sp : ∀ j, j < trailRun st.acc → V ⟨st.line, st.col - j⟩ ' '

theorem trailRun_pushText1 (st : ISt) (d : Char) :
    trailRun (st.pushText [d]).acc = if d = ' ' then trailRun st.acc + 1 else 0 := by
  unfold ISt.pushText
  split
  · next rev p rest heq =>
    simp only [heq, trailRun, List.reverse_cons, List.reverse_nil, List.nil_append, List.cons_append, countWhile]
    by_cases hd : d = ' '
    · simp [hd]; omega
    · simp [hd]
  · next hne =>
    simp only [trailRun, List.reverse_cons, List.reverse_nil, List.nil_append, countWhile]
    by_cases hd : d = ' '
    · simp [hd]
    · simp [hd]

theorem trailRun_pushText_ne (st : ISt) (s t : List Char) (x : Char) (hs : s.reverse = x :: t) (hx : x ≠ ' ') :
    trailRun (st.pushText s).acc = 0 := by
  unfold ISt.pushText
  split <;> simp [trailRun, hs, countWhile, hx]

/-- what a handler called on the character `c` establishes besides `AllPos`: the position fields are
    untouched, and the facts from which `Trail` is re-established after `advance`. -/
structure Post (st : ISt) (c : Char) (st' : ISt) : Prop where
  line : st'.line = st.line
  col : st'.col = st.col
  skip : st'.skip > 0 → trailRun st'.acc = 0
  run : trailRun st'.acc > 0 → c = ' ' ∧ trailRun st'.acc = trailRun st.acc + 1

theorem Post.zero {st st' : ISt} {c : Char} (hl : st'.line = st.line) (hc : st'.col = st.col)
    (h0 : trailRun st'.acc = 0) : Post st c st' :=
  ⟨hl, hc, fun _ => h0, fun h => by omega⟩

theorem pushText_line (st : ISt) (s : List Char) : (st.pushText s).line = st.line := by
  unfold ISt.pushText; split <;> rfl
theorem pushText_col (st : ISt) (s : List Char) : (st.pushText s).col = st.col := by
  unfold ISt.pushText; split <;> rfl
theorem pushText_skip (st : ISt) (s : List Char) : (st.pushText s).skip = st.skip := by
  unfold ISt.pushText; split <;> rfl

theorem pushText_post0 (st : ISt) (c : Char) (s t : List Char) (x : Char) (hs : s.reverse = x :: t) (hx : x ≠ ' ') :
    Post st c (st.pushText s) :=
  Post.zero (pushText_line st s) (pushText_col st s) (trailRun_pushText_ne st s t x hs hx)

/-! ## the handlers -/
theorem stripTrailingSpaces_pos (acc : List Item) (h : AllPos V hard acc) :
    AllPos V hard (stripTrailingSpaces acc).1 := by
  unfold stripTrailingSpaces
  split
  · simp only
    split
    · exact h.tail
    · exact AllPos.cons trivial h.tail
  · exact h

theorem stripTrailingSpaces_n (acc : List Item) : (stripTrailingSpaces acc).2 = trailRun acc := by
  unfold stripTrailingSpaces trailRun
  split <;> simp_all

theorem handleNewline_pos (st : ISt) (h : AllPos V hard st.acc) (ht : hard = true → Trail V st) :
    AllPos V hard (handleNewline st).acc := by
  have hstrip := stripTrailingSpaces_pos st.acc h
  have hn := stripTrailingSpaces_n st.acc
  unfold handleNewline
  simp only
  split
  · next h2 =>
    refine AllPos.cons ?_ hstrip
    intro e he
    simp only [List.mem_singleton] at he
    subst he
    intro hh
    have t := ht hh
    rw [hn] at h2 ⊢
    have := t.sp (trailRun st.acc - 1) (by omega)
    have hle := t.le
    right
    rw [show st.col + 1 - trailRun st.acc = st.col - (trailRun st.acc - 1) by omega]
    exact this
  · refine AllPos.cons ?_ hstrip
    intro e he
    simp only [List.mem_singleton] at he
    subst he
    trivial

theorem handleNewline_post (st : ISt) (c : Char) : Post st c (handleNewline st) := by
  unfold handleNewline
  simp only
  split <;> exact Post.zero rfl rfl rfl

theorem isAsciiPunct_ne_space {d : Char} (h : isAsciiPunct d = true) : d ≠ ' ' := by
  intro hd; subst hd; revert h; decide

theorem handleBackslash_pos (r : List Char) (st : ISt) (h : AllPos V hard st.acc)
    (hh : Here V st.line st.col ('\\' :: r)) : AllPos V hard (handleBackslash r st).acc := by
  have hb : ItemPos V hard (.ev [.hardbreak st.pos]) := by
    intro e he
    simp only [List.mem_singleton] at he
    subst he
    intro _
    exact Or.inl (hh.cur (by decide) (by decide))
  unfold handleBackslash
  repeat' split
  all_goals first
    | exact pushText_pos _ _ h
    | exact AllPos.cons hb h

theorem handleBackslash_post (r : List Char) (st : ISt) (c : Char) : Post st c (handleBackslash r st) := by
  unfold handleBackslash
  split
  · next d _ =>
    split
    · exact Post.zero rfl rfl rfl
    · split
      · next hp =>
        exact Post.zero (pushText_line _ _) (pushText_col _ _)
          (trailRun_pushText_ne st [d] [] d rfl (isAsciiPunct_ne_space hp))
      · exact pushText_post0 st c _ [] '\\' rfl (by decide)
  · exact pushText_post0 st c _ [] '\\' rfl (by decide)

theorem handleTick_pos (r : List Char) (st : ISt) (h : AllPos V hard st.acc)
    (hh : Here V st.line st.col ('`' :: r)) : AllPos V hard (handleTick r st).acc := by
  unfold handleTick
  simp only
  split
  · refine AllPos.cons ?_ h
    intro e he
    simp only [List.mem_singleton] at he
    subst he
    exact hh.cur (by decide) (by decide)
  · exact pushText_pos _ _ h

theorem handleTick_post (r : List Char) (st : ISt) (c : Char) : Post st c (handleTick r st) := by
  unfold handleTick
  simp only
  split
  · exact Post.zero rfl rfl rfl
  · refine Post.zero (pushText_line _ _) (pushText_col _ _) ?_
    apply trailRun_pushText_ne st _ (List.replicate (countWhile (· == '`') r) '`') '`' _ (by decide)
    rw [List.reverse_replicate, Nat.add_comm, List.replicate_succ]

theorem handleDelim_pos (c : Char) (r : List Char) (st : ISt) (h : AllPos V hard st.acc) (hc : c = '*' ∨ c = '_')
    (hh : Here V st.line st.col (c :: r)) : AllPos V hard (handleDelim c r st).acc := by
  unfold handleDelim
  refine AllPos.cons ⟨hc, ?_⟩ h
  intro j hj
  have h1 : c ≠ '\t' := by rcases hc with rfl | rfl <;> decide
  have h2 : c ≠ '\n' := by rcases hc with rfl | rfl <;> decide
  have := hh.run h1 h2 j hj
  simpa [Pos.right, ISt.pos, Nat.add_assoc] using this

theorem handleDelim_post (c : Char) (r : List Char) (st : ISt) (c' : Char) : Post st c' (handleDelim c r st) := by
  unfold handleDelim
  exact Post.zero rfl rfl rfl

theorem handleOpenBracket_pos (r : List Char) (st : ISt) (h : AllPos V hard st.acc)
    (hh : Here V st.line st.col ('[' :: r)) : AllPos V hard (handleOpenBracket r st).acc := by
  unfold handleOpenBracket
  refine AllPos.cons ?_ (markBracketAfter_pos st.acc h)
  show V st.pos '['
  exact hh.cur (by decide) (by decide)

theorem handleOpenBracket_post (r : List Char) (st : ISt) (c : Char) : Post st c (handleOpenBracket r st) :=
  Post.zero rfl rfl rfl

theorem handleBang_pos (r : List Char) (st : ISt) (h : AllPos V hard st.acc)
    (hh : Here V st.line st.col ('!' :: r)) : AllPos V hard (handleBang r st).acc := by
  unfold handleBang
  split
  · next r2 =>
    refine AllPos.cons ?_ (markBracketAfter_pos st.acc h)
    show V st.pos '!' ∧ V (st.pos.right 1) '['
    refine ⟨hh.cur (by decide) (by decide), ?_⟩
    have := hh ['!'] '[' r2 rfl (by simp) (by decide) (by decide)
    simpa [Pos.right, ISt.pos] using this
  · exact pushText_pos _ _ h

theorem handleBang_post (r : List Char) (st : ISt) (c : Char) : Post st c (handleBang r st) := by
  unfold handleBang
  split
  · exact Post.zero rfl rfl rfl
  · exact pushText_post0 st c _ [] '!' rfl (by decide)

theorem handleAmp_pos (r : List Char) (st : ISt) (h : AllPos V hard st.acc) : AllPos V hard (handleAmp r st).acc := by
  unfold handleAmp
  split
  · exact pushText_pos _ _ h
  · exact pushText_pos _ _ h

theorem handleLt_pos (r : List Char) (st : ISt) (h : AllPos V hard st.acc)
    (hh : Here V st.line st.col ('<' :: r)) : AllPos V hard (handleLt r st).acc := by
  have hv : V st.pos '<' := hh.cur (by decide) (by decide)
  unfold handleLt
  simp only
  repeat' split
  all_goals first
    | exact pushText_pos _ _ h
    | (refine AllPos.cons ?_ h
       intro e he
       simp only [List.mem_singleton] at he
       subst he
       exact hv)

theorem handleLt_post (r : List Char) (st : ISt) (c : Char) : Post st c (handleLt r st) := by
  unfold handleLt
  simp only
  repeat' split
  all_goals first
    | exact Post.zero rfl rfl rfl
    | exact pushText_post0 st c _ [] '<' rfl (by decide)

theorem splitAtBracket_bracket : ∀ (acc inner : List Item) r, splitAtBracket acc inner = some r →
    ∃ i a b p s o, r.2.1 = .bracket i a b p s o
  | [], _, r, h => by simp [splitAtBracket] at h
  | it :: rest, inner, r, h => by
    unfold splitAtBracket at h
    split at h
    · next i a b p s o =>
      simp only [Option.some.injEq] at h
      subst h
      exact ⟨i, a, b, p, s, o, rfl⟩
    · exact splitAtBracket_bracket rest (it :: inner) r h

theorem pushText_post0' (st st0 : ISt) (c : Char) (s t : List Char) (x : Char) (hl : st0.line = st.line)
    (hc : st0.col = st.col) (hs : s.reverse = x :: t) (hx : x ≠ ' ') : Post st c (st0.pushText s) :=
  Post.zero ((pushText_line st0 s).trans hl) ((pushText_col st0 s).trans hc) (trailRun_pushText_ne st0 s t x hs hx)

theorem closeBracket_post (refs : RefMap) (r : List Char) (st : ISt) (c : Char) :
    Post st c (closeBracket refs r st) := by
  unfold closeBracket
  split
  · exact pushText_post0 st c _ [] ']' rfl (by decide)
  · next newer br older hsp =>
    obtain ⟨i, a, b, p, s, o, hbr⟩ := splitAtBracket_bracket st.acc [] _ hsp
    simp only at hbr
    subst hbr
    simp only
    split
    · exact pushText_post0' st _ c [']'] [] ']' rfl rfl rfl (by decide)
    · split
      · exact pushText_post0' st _ c [']'] [] ']' rfl rfl rfl (by decide)
      · refine Post.zero rfl rfl ?_
        cases i <;> rfl

theorem handle_pos (refs : RefMap) (c : Char) (r : List Char) (st : ISt) (h : AllPos V hard st.acc)
    (ht : hard = true → Trail V st) (hh : Here V st.line st.col (c :: r)) :
    AllPos V hard (handle refs c r st).acc := by
  unfold handle
  split
  · exact handleNewline_pos st h ht
  · split
    · next hc => simp only [beq_iff_eq] at hc; subst hc; exact handleBackslash_pos r st h hh
    · split
      · next hc => simp only [beq_iff_eq] at hc; subst hc; exact handleTick_pos r st h hh
      · split
        · next hc =>
          simp only [Bool.or_eq_true, beq_iff_eq] at hc
          exact handleDelim_pos c r st h hc hh
        · split
          · next hc => simp only [beq_iff_eq] at hc; subst hc; exact handleOpenBracket_pos r st h hh
          · split
            · next hc => simp only [beq_iff_eq] at hc; subst hc; exact handleBang_pos r st h hh
            · split
              · exact closeBracket_pos refs r st h
              · split
                · exact handleAmp_pos r st h
                · split
                  · next hc => simp only [beq_iff_eq] at hc; subst hc; exact handleLt_pos r st h hh
                  · exact pushText_pos _ _ h

theorem handle_post (refs : RefMap) (c : Char) (r : List Char) (st : ISt) (hskip : st.skip = 0) (hamp : c ≠ '&') :
    Post st c (handle refs c r st) := by
  unfold handle
  split
  · exact handleNewline_post st c
  · split
    · exact handleBackslash_post r st c
    · split
      · exact handleTick_post r st c
      · split
        · exact handleDelim_post c r st c
        · split
          · exact handleOpenBracket_post r st c
          · split
            · exact handleBang_post r st c
            · split
              · exact closeBracket_post refs r st c
              · split
                · next hc => simp only [beq_iff_eq] at hc; exact absurd hc hamp
                · split
                  · exact handleLt_post r st c
                  · refine ⟨pushText_line _ _, pushText_col _ _, ?_, ?_⟩
                    · intro hs; rw [pushText_skip, hskip] at hs; omega
                    · intro hr
                      rw [trailRun_pushText1] at hr ⊢
                      split at hr
                      · next hc => simp [hc]
                      · omega

/-- one step of the scanner (before `advance`). -/
def scanStep (refs : RefMap) (c : Char) (r : List Char) (st : ISt) : ISt :=
  if st.skip > 0 then { st with skip := st.skip - 1 } else handle refs c r st

theorem scan_cons (refs : RefMap) (c : Char) (r : List Char) (st : ISt) :
    scan refs (c :: r) st = scan refs r ((scanStep refs c r st).advance c) := rfl

theorem scanStep_pos (refs : RefMap) (c : Char) (r : List Char) (st : ISt) (h : AllPos V hard st.acc)
    (ht : hard = true → Trail V st) (hh : Here V st.line st.col (c :: r)) :
    AllPos V hard (scanStep refs c r st).acc := by
  unfold scanStep
  split
  · exact h
  · exact handle_pos refs c r st h ht hh

theorem scanStep_post (refs : RefMap) (c : Char) (r : List Char) (st : ISt) (ht : Trail V st) (hamp : c ≠ '&') :
    Post st c (scanStep refs c r st) := by
  unfold scanStep
  split
  · next hs => exact Post.zero rfl rfl (ht.skip hs)
  · next hs => exact handle_post refs c r st (by omega) hamp

theorem advance_acc (st : ISt) (c : Char) : (st.advance c).acc = st.acc := by
  unfold ISt.advance
  repeat' split
  all_goals rfl
theorem advance_skip (st : ISt) (c : Char) : (st.advance c).skip = st.skip := by
  unfold ISt.advance
  repeat' split
  all_goals rfl

/-- `Trail` after `advance`, from the handler's post-condition. -/
theorem Trail.advance {st st' : ISt} {c : Char} {r : List Char} (ht : Trail V st) (hp : Post st c st')
    (hh : Here V st.line st.col (c :: r)) : Trail V (st'.advance c) := by
  by_cases h0 : trailRun st'.acc = 0
  · refine ⟨fun _ => by rw [advance_acc]; exact h0, by rw [advance_acc, h0]; omega, ?_⟩
    intro j hj; rw [advance_acc, h0] at hj; omega
  · obtain ⟨hc, hrun⟩ := hp.run (by omega)
    subst hc
    have hadv : st'.advance ' ' = { st' with prev := some ' ', off := st'.off + 1, col := st'.col + 1 } := by
      unfold ISt.advance
      simp
    rw [hadv]
    refine ⟨fun hs => hp.skip hs, ?_, ?_⟩
    · show trailRun st'.acc ≤ st'.col + 1
      rw [hrun, hp.col]; have := ht.le; omega
    · intro j hj
      show V ⟨st'.line, st'.col + 1 - j⟩ ' '
      rw [hp.line, hp.col]
      cases j with
      | zero => exact hh.cur (by decide) (by decide)
      | succ j =>
        have hj' : j < trailRun st.acc := by
          have : j + 1 < trailRun st'.acc := hj
          omega
        have := ht.sp j hj'
        rw [show st.col + 1 - (j + 1) = st.col - j by omega]
        exact this

/-! ## merging text events changes nothing else -/
theorem mergeText_mem (es : List IEv) : ∀ e ∈ mergeText es, (∃ s p, e = .text s p) ∨ e ∈ es := by
  fun_induction mergeText es
  · rename_i heq ih
    intro e he
    rcases List.mem_cons.mp he with rfl | he
    · exact Or.inl ⟨_, _, rfl⟩
    · rcases ih e (by rw [heq]; exact List.mem_cons_of_mem _ he) with h | h
      · exact Or.inl h
      · exact Or.inr (List.mem_cons_of_mem _ h)
  · rename_i ih
    intro e he
    rcases List.mem_cons.mp he with rfl | he
    · exact Or.inl ⟨_, _, rfl⟩
    · rcases ih e he with h | h
      · exact Or.inl h
      · exact Or.inr (List.mem_cons_of_mem _ h)
  · rename_i ih
    intro e he
    rcases List.mem_cons.mp he with rfl | he
    · exact Or.inr List.mem_cons_self
    · rcases ih e he with h | h
      · exact Or.inl h
      · exact Or.inr (List.mem_cons_of_mem _ h)
  · intro e he; cases he

theorem mergeText_pos {es : List IEv} (h : ∀ e ∈ es, IOpenerOK V hard e) : ∀ e ∈ mergeText es, IOpenerOK V hard e := by
  intro e he
  rcases mergeText_mem es e he with ⟨s, p, rfl⟩ | h'
  · trivial
  · exact h e h'

/-! ## Layer 2: the scanner's position tracking realises `Here` for the payload lines -/

/-- the character of the tab-expanded payload line at a position (`c` = a character of the leaf's own
    text as the block phase delivered it: line `pl.line`, text starting at 0-based column `pl.col0`). -/
def VL (lines : List PLine) (p : Pos) (c : Char) : Prop :=
  ∃ pl ∈ lines, pl.line = p.line ∧ pl.col0 + 1 ≤ p.col ∧ (detabFrom pl.col0 pl.text)[p.col - 1 - pl.col0]? = some c

theorem detabFrom_append : ∀ (a b : List Char) (col : Nat),
    detabFrom col (a ++ b) = detabFrom col a ++ detabFrom (col + (detabFrom col a).length) b
  | [], b, col => by simp [detabFrom]
  | x :: a, b, col => by
    by_cases hx : x = '\t'
    · subst hx
      rw [List.cons_append, detabFrom_tab, detabFrom_tab, detabFrom_append a b, List.append_assoc]
      simp only [List.length_append, List.length_replicate]
      rw [Nat.add_assoc]
    · rw [List.cons_append, detabFrom_ne hx, detabFrom_ne hx, detabFrom_append a b]
      simp only [List.cons_append, List.length_cons]
      rw [Nat.add_assoc, Nat.add_comm 1]

theorem detabFrom_notab : ∀ (a : List Char) (col : Nat), (∀ y ∈ a, y ≠ '\t') → detabFrom col a = a
  | [], _, _ => rfl
  | x :: a, col, h => by
    rw [detabFrom_ne (h x List.mem_cons_self), detabFrom_notab a _ (fun y hy => h y (List.mem_cons_of_mem _ hy))]

theorem joinLines_cons_cons (c : Char) (t : List Char) (rest : List (List Char)) :
    joinLines ((c :: t) :: rest) = c :: joinLines (t :: rest) := by
  cases rest <;> rfl

theorem joinLines_nil_cons (b : List Char) (rest : List (List Char)) :
    joinLines ([] :: b :: rest) = '\n' :: joinLines (b :: rest) := rfl

/-- the scanner is at the character `cs.head` of the payload lines. -/
structure SInv (lines : List PLine) (st : ISt) (cs : List Char) : Prop where
  ex : ∃ pl ∈ lines, ∃ pre tail, pl.text = pre ++ tail ∧ st.line = pl.line ∧
    st.col = pl.col0 + (detabFrom pl.col0 pre).length ∧ cs <+: joinLines (tail :: st.nexts.map (·.text))
  nexts : ∀ l ∈ st.nexts, l ∈ lines

def NoNL (lines : List PLine) : Prop := ∀ pl ∈ lines, ∀ c ∈ pl.text, c ≠ '\n'

theorem prefix_cons_inv {α : Type} {a b : α} {l1 l2 : List α} (h : a :: l1 <+: b :: l2) : a = b ∧ l1 <+: l2 := by
  obtain ⟨t, ht⟩ := h
  simp only [List.cons_append, List.cons.injEq] at ht
  exact ⟨ht.1, t, ht.2⟩

/-- a prefix without line endings of the joined text lies inside the first line. -/
theorem prefix_in_first : ∀ (a : List Char) (tail : List Char) (rest : List (List Char)) (b : List Char),
    (∀ y ∈ a, y ≠ '\n') → a ++ b <+: joinLines (tail :: rest) → ∃ t2, tail = a ++ t2
  | [], tail, _, _, _, _ => ⟨tail, rfl⟩
  | x :: a, [], rest, b, hn, hp => by
    cases rest with
    | nil => simp [joinLines] at hp
    | cons r0 rs =>
      rw [joinLines_nil_cons, List.cons_append] at hp
      exact absurd (prefix_cons_inv hp).1 (hn x List.mem_cons_self)
  | x :: a, t0 :: tail, rest, b, hn, hp => by
    rw [joinLines_cons_cons, List.cons_append] at hp
    obtain ⟨hx, hp'⟩ := prefix_cons_inv hp
    subst hx
    obtain ⟨t2, ht2⟩ := prefix_in_first a tail rest b (fun y hy => hn y (List.mem_cons_of_mem _ hy)) hp'
    exact ⟨t2, by rw [ht2]; rfl⟩

theorem SInv.here {lines : List PLine} {st : ISt} {cs : List Char} (h : SInv lines st cs) :
    Here (VL lines) st.line st.col cs := by
  intro pre2 x post hcs hpre hx1 hx2
  obtain ⟨pl, hpl, pre, tail, htext, hline, hcol, hpfx⟩ := h.ex
  have hnn : ∀ y ∈ pre2 ++ [x], y ≠ '\n' := by
    intro y hy
    rcases List.mem_append.mp hy with hy | hy
    · exact (hpre y hy).2
    · simp only [List.mem_singleton] at hy; subst hy; exact hx2
  have hp2 : (pre2 ++ [x]) ++ post <+: joinLines (tail :: st.nexts.map (·.text)) := by
    rw [List.append_assoc, List.singleton_append, ← hcs]; exact hpfx
  obtain ⟨t2, ht2⟩ := prefix_in_first _ _ _ _ hnn hp2
  refine ⟨pl, hpl, hline.symm, ?_, ?_⟩
  · show pl.col0 + 1 ≤ st.col + 1 + pre2.length
    omega
  · show (detabFrom pl.col0 pl.text)[st.col + 1 + pre2.length - 1 - pl.col0]? = some x
    have hidx : st.col + 1 + pre2.length - 1 - pl.col0 = (detabFrom pl.col0 (pre ++ pre2)).length := by
      rw [detabFrom_append, List.length_append, detabFrom_notab pre2 _ (fun y hy => (hpre y hy).1)]
      omega
    rw [hidx, htext, ht2, List.append_assoc, List.singleton_append, ← List.append_assoc, detabFrom_append,
      detabFrom_ne hx1]
    simp

/-! ### the handlers do not move -/
def SameLoc (st st' : ISt) : Prop := st'.line = st.line ∧ st'.col = st.col ∧ st'.nexts = st.nexts

theorem pushText_loc (st : ISt) (s : List Char) : SameLoc st (st.pushText s) := by
  unfold ISt.pushText SameLoc; split <;> exact ⟨rfl, rfl, rfl⟩

theorem SameLoc.trans {a b c : ISt} (h1 : SameLoc a b) (h2 : SameLoc b c) : SameLoc a c :=
  ⟨h2.1.trans h1.1, h2.2.1.trans h1.2.1, h2.2.2.trans h1.2.2⟩

theorem SameLoc.rfl' {a b : ISt} (h1 : b.line = a.line) (h2 : b.col = a.col) (h3 : b.nexts = a.nexts) : SameLoc a b :=
  ⟨h1, h2, h3⟩

theorem handle_loc (refs : RefMap) (c : Char) (r : List Char) (st : ISt) : SameLoc st (handle refs c r st) := by
  unfold handle
  split
  · unfold handleNewline; simp only; split <;> exact ⟨rfl, rfl, rfl⟩
  split
  · unfold handleBackslash
    repeat' split
    all_goals first
      | exact ⟨rfl, rfl, rfl⟩
      | exact pushText_loc _ _
      | exact SameLoc.rfl' (pushText_loc _ _).1 (pushText_loc _ _).2.1 (pushText_loc _ _).2.2
  split
  · unfold handleTick; simp only
    split
    · exact ⟨rfl, rfl, rfl⟩
    · exact SameLoc.rfl' (pushText_loc _ _).1 (pushText_loc _ _).2.1 (pushText_loc _ _).2.2
  split
  · exact ⟨rfl, rfl, rfl⟩
  split
  · exact ⟨rfl, rfl, rfl⟩
  split
  · unfold handleBang
    split
    · exact ⟨rfl, rfl, rfl⟩
    · exact pushText_loc _ _
  split
  · unfold closeBracket
    split
    · exact pushText_loc _ _
    · split
      · simp only
        split
        · exact SameLoc.rfl' (pushText_loc _ _).1 (pushText_loc _ _).2.1 (pushText_loc _ _).2.2
        · split
          · exact SameLoc.rfl' (pushText_loc _ _).1 (pushText_loc _ _).2.1 (pushText_loc _ _).2.2
          · exact ⟨rfl, rfl, rfl⟩
      · exact ⟨rfl, rfl, rfl⟩
  split
  · unfold handleAmp
    split
    · exact SameLoc.rfl' (pushText_loc _ _).1 (pushText_loc _ _).2.1 (pushText_loc _ _).2.2
    · exact pushText_loc _ _
  split
  · unfold handleLt; simp only
    repeat' split
    all_goals first
      | exact ⟨rfl, rfl, rfl⟩
      | exact pushText_loc _ _
  · exact pushText_loc _ _

theorem scanStep_loc (refs : RefMap) (c : Char) (r : List Char) (st : ISt) : SameLoc st (scanStep refs c r st) := by
  unfold scanStep
  split
  · exact ⟨rfl, rfl, rfl⟩
  · exact handle_loc refs c r st

/-! ### `advance` follows the text -/
theorem SInv.advance {lines : List PLine} (hnl : NoNL lines) {st st' : ISt} {c : Char} {r : List Char}
    (h : SInv lines st (c :: r)) (hloc : SameLoc st st') : SInv lines (st'.advance c) r := by
  obtain ⟨pl, hpl, pre, tail, htext, hline, hcol, hpfx⟩ := h.ex
  obtain ⟨hl, hc, hn⟩ := hloc
  by_cases hcn : c = '\n'
  · subst hcn
    -- the current line is exhausted and another one follows
    cases tail with
    | cons t0 tail' =>
      rw [joinLines_cons_cons] at hpfx
      have := (prefix_cons_inv hpfx).1
      exact absurd this.symm (hnl pl hpl t0 (by rw [htext]; simp))
    | nil =>
      cases hnx : st.nexts with
      | nil => rw [hnx] at hpfx; simp [joinLines] at hpfx
      | cons l ls =>
        rw [hnx, List.map_cons, joinLines_nil_cons] at hpfx
        have hr := (prefix_cons_inv hpfx).2
        have hadv : st'.advance '\n' =
            { st' with prev := some '\n', off := st'.off + 1, line := l.line, col := l.col0, nexts := ls } := by
          unfold ISt.advance
          simp [hn, hnx]
        rw [hadv]
        refine ⟨⟨l, h.nexts l (by rw [hnx]; exact List.mem_cons_self), [], l.text, rfl, rfl, by simp [detabFrom], hr⟩, ?_⟩
        intro x hx
        exact h.nexts x (by rw [hnx]; exact List.mem_cons_of_mem _ hx)
  · -- inside the current line
    cases tail with
    | nil =>
      cases hnx : st.nexts with
      | nil => rw [hnx] at hpfx; simp [joinLines] at hpfx
      | cons l ls =>
        rw [hnx, List.map_cons, joinLines_nil_cons] at hpfx
        exact absurd (prefix_cons_inv hpfx).1 hcn
    | cons t0 tail' =>
      rw [joinLines_cons_cons] at hpfx
      obtain ⟨ht0, hr⟩ := prefix_cons_inv hpfx
      subst ht0
      have hnx : (st'.advance c).nexts = st.nexts := by
        unfold ISt.advance
        simp only [beq_iff_eq, hcn, ↓reduceIte]
        split <;> exact hn
      have hln : (st'.advance c).line = st.line := by
        unfold ISt.advance
        simp only [beq_iff_eq, hcn, ↓reduceIte]
        split <;> exact hl
      have hcl : (st'.advance c).col = st.col + (detabFrom st.col [c]).length := by
        unfold ISt.advance
        simp only [beq_iff_eq, hcn, ↓reduceIte]
        split
        · next hct => subst hct; simp [detabFrom, hc]
        · next hct => simp [detabFrom, hct, hc]
      refine ⟨⟨pl, hpl, pre ++ [c], tail', by rw [htext]; simp, by rw [hln, hline], ?_, by rw [hnx]; exact hr⟩, ?_⟩
      · rw [hcl, detabFrom_append, List.length_append, hcol]
        omega
      · rw [hnx]; exact h.nexts

/-! ### the scanner -/
theorem scan_pos (refs : RefMap) {lines : List PLine} (hnl : NoNL lines) {hard : Bool} :
    ∀ (cs : List Char) (st : ISt), SInv lines st cs → AllPos (VL lines) hard st.acc →
      (hard = true → Trail (VL lines) st ∧ ∀ c ∈ cs, c ≠ '&') →
      AllPos (VL lines) hard (scan refs cs st).acc
  | [], _, _, h, _ => h
  | c :: r, st, hs, h, ht => by
    rw [scan_cons]
    have hh := hs.here
    have hloc := scanStep_loc refs c r st
    apply scan_pos refs hnl r _ (hs.advance hnl hloc)
    · rw [advance_acc]
      exact scanStep_pos refs c r st h (fun hb => (ht hb).1) hh
    · intro hb
      obtain ⟨t, ha⟩ := ht hb
      refine ⟨?_, fun x hx => ha x (List.mem_cons_of_mem _ hx)⟩
      exact t.advance (scanStep_post refs c r st t (ha c List.mem_cons_self)) hh

theorem rstripBy_prefix (p : Char → Bool) (l : List Char) : rstripBy p l <+: l := by
  unfold rstripBy
  have h : l.reverse.dropWhile p <:+ l.reverse := List.dropWhile_suffix p
  have := List.reverse_prefix.mpr h
  simpa using this

theorem mem_joinLines : ∀ (ls : List (List Char)) (c : Char), c ∈ joinLines ls → c = '\n' ∨ ∃ l ∈ ls, c ∈ l
  | [], c, h => by simp [joinLines] at h
  | [l], c, h => Or.inr ⟨l, List.mem_cons_self, h⟩
  | l :: b :: rest, c, h => by
    rw [show joinLines (l :: b :: rest) = l ++ '\n' :: joinLines (b :: rest) from rfl] at h
    rcases List.mem_append.mp h with h | h
    · exact Or.inr ⟨l, List.mem_cons_self, h⟩
    · rcases List.mem_cons.mp h with h | h
      · exact Or.inl h
      · rcases mem_joinLines (b :: rest) c h with h | ⟨l', hl', hc⟩
        · exact Or.inl h
        · exact Or.inr ⟨l', List.mem_cons_of_mem _ hl', hc⟩

/-- the statement for both strengths of the table. -/
theorem parseInlines_pos (refs : RefMap) (lines : List PLine) (hnl : NoNL lines) (hard : Bool)
    (hamp : hard = true → ∀ pl ∈ lines, ∀ c ∈ pl.text, c ≠ '&') :
    ∀ e ∈ parseInlines refs lines, IOpenerOK (VL lines) hard e := by
  unfold parseInlines
  split
  · intro e he; cases he
  · next l0 rest =>
    simp only
    apply mergeText_pos
    apply resolveEmph_pos
    apply AllPos.reverse
    have hpre := rstripBy_prefix isSpTab (joinLines ((l0 :: rest).map (·.text)))
    apply scan_pos refs hnl _ _ ?_ AllPos.nil
    · intro hb
      refine ⟨⟨fun _ => rfl, Nat.zero_le _, fun j hj => by simp [trailRun] at hj⟩, ?_⟩
      intro c hc
      have hc' := List.IsPrefix.subset hpre hc
      rcases mem_joinLines _ c hc' with h | ⟨l, hl, hcl⟩
      · rw [h]; decide
      · obtain ⟨pl, hpl, rfl⟩ := List.mem_map.mp hl
        exact hamp hb pl hpl c hcl
    · refine ⟨⟨l0, List.mem_cons_self, [], l0.text, rfl, rfl, by simp [detabFrom], ?_⟩, ?_⟩
      · exact hpre
      · intro l hl; exact List.mem_cons_of_mem _ hl

/-- **L_inline_opener** (all kinds): for every leaf whose text contains no `&`, every inline event points at its
    own opening character in the tab-expanded payload line: `` ` `` code span, `<` autolink / raw HTML, `*` / `_`
    emphasis, the two `*` / `_` of strong emphasis, `[` link, `![` image, `\` or the first of the trailing
    spaces for a hard break.  (Text runs and soft breaks carry positions but have no opening character.) -/
theorem L_inline_opener (refs : RefMap) (lines : List PLine) (hnl : NoNL lines)
    (hamp : ∀ pl ∈ lines, ∀ c ∈ pl.text, c ≠ '&') :
    ∀ e ∈ parseInlines refs lines, IOpenerOK (VL lines) true e :=
  parseInlines_pos refs lines hnl true (fun _ => hamp)

/-- **L_inline_opener_partial**: without the hypothesis on `&`, for every kind except the hard break. -/
theorem L_inline_opener_partial (refs : RefMap) (lines : List PLine) (hnl : NoNL lines) :
    ∀ e ∈ parseInlines refs lines, IOpenerOK (VL lines) false e :=
  parseInlines_pos refs lines hnl false (fun h => by cases h)

end Verif.Model.LeanMark
