/-
  The stack collaborators (`close_open_blocks_fn`, `find_last_block_quote_on_stack`), list_block_can_close_helper.py
  (termination of `close_required_lists`, totality of `calculate_can_remove_list`) and `__handle_list_nesting`.
-/
import Verif.Lemmas.ListStartsPre
namespace Verif.Model.ListStarts
open Verif.Model.Recognisers (Str)

/-! ## `close_open_blocks_fn(until_this_index = u)` only pops -/

theorem closeAux_prefix (u : Nat) : ∀ (n : Nat) (st st1 : Stack), closeAux u n st = .ok st1 → ∃ k, st1 = st.take k := by
  intro n
  induction n with
  | zero => intro st st1 h; injection h with h; exact ⟨st.length, by rw [← h]; simp⟩
  | succ n ih =>
    intro st st1 h
    unfold closeAux at h
    split at h
    · cases h
    · next top ht =>
      split at h
      · injection h with h; exact ⟨st.length, by rw [← h]; simp⟩
      · split at h
        · injection h with h; exact ⟨st.length, by rw [← h]; simp⟩
        · obtain ⟨k, hk⟩ := ih _ _ h
          refine ⟨min k (st.length - 1), ?_⟩
          rw [hk, List.dropLast_eq_take, List.take_take]

theorem closeTo_prefix {st st1 : Stack} {u : Nat} (h : closeTo st u = .ok st1) : ∃ k, st1 = st.take k :=
  closeAux_prefix u _ _ _ h

theorem closeTo_len_le {st st1 : Stack} {u : Nat} (h : closeTo st u = .ok st1) : st1.length ≤ st.length := by
  obtain ⟨k, hk⟩ := closeTo_prefix h
  rw [hk, List.length_take]; omega

theorem closeAux_not_fuel (u n : Nat) (st : Stack) : closeAux u n st ≠ .error .fuel := by
  induction n generalizing st with
  | zero => intro h; cases h
  | succ n ih =>
    unfold closeAux
    split
    · intro h; cases h
    · split
      · intro h; cases h
      · split
        · intro h; cases h
        · exact ih _

theorem downToList_not_fuel (st : Stack) (i : Nat) : downToList st i ≠ .error .fuel := by
  induction i with
  | zero => intro h; cases h
  | succ i ih =>
    unfold downToList
    split
    · intro h; cases h
    · split
      · intro h; cases h
      · exact ih

theorem negAt_not_fuel (st : Stack) (k : Nat) : negAt st k ≠ .error .fuel := by
  unfold negAt
  split
  · split <;> (intro h; cases h)
  · intro h; cases h

/-! ## the document at the bottom -/

/-- the document token at the bottom and nowhere else -/
def DocBottom (st : Stack) : Prop := ∃ d rest, st = d :: rest ∧ d.isDoc = true ∧ ∀ e ∈ rest, e.isDoc = false

theorem StackOK.docBottom {st : Stack} (h : StackOK st) : DocBottom st := by
  obtain ⟨d, rest, hst, hd, hr⟩ := h.bottom
  refine ⟨d, rest, hst, ?_, ?_⟩
  · unfold Entry.isDoc; rw [hd]; rfl
  · intro e he
    have := hr e he
    unfold Entry.isDoc
    cases hk : e.kind <;> first | rfl | exact absurd hk this

theorem closeAux_eq (u : Nat) (d : Entry) (hd : d.isDoc = true) :
    ∀ (n : Nat) (rest : Stack), (∀ e ∈ rest, e.isDoc = false) → rest.length < n →
      closeAux u n (d :: rest) = .ok ((d :: rest).take (max u 1)) := by
  intro n
  induction n with
  | zero => intro rest _ h; omega
  | succ n ih =>
    intro rest hr hn
    unfold closeAux
    rcases List.eq_nil_or_concat rest with hnil | ⟨rest', top, hrest⟩
    · subst hnil
      simp only [List.getLast?_singleton, hd, ↓reduceIte]
      have : max u 1 = (max u 1 - 1) + 1 := by omega
      rw [this]; simp
    · rw [List.concat_eq_append] at hrest
      subst hrest
      have htop : top.isDoc = false := hr top (by simp)
      have hgl : (d :: (rest' ++ [top])).getLast? = some top := by
        rw [show d :: (rest' ++ [top]) = (d :: rest') ++ [top] from rfl, List.getLast?_append]; simp
      rw [hgl]
      simp only [htop, Bool.false_eq_true, ↓reduceIte]
      split
      · next hu =>
        simp only [List.length_cons, List.length_append, List.length_nil] at hu
        rw [List.take_of_length_le]
        simp only [List.length_cons, List.length_append, List.length_nil]; omega
      · next hu =>
        simp only [List.length_cons, List.length_append, List.length_nil] at hu
        have hdl : (d :: (rest' ++ [top])).dropLast = d :: rest' := by
          rw [show d :: (rest' ++ [top]) = (d :: rest') ++ [top] from rfl, List.dropLast_concat]
        rw [hdl, ih rest' (fun e he => hr e (by simp [he])) (by simp at hn; omega)]
        congr 1
        rw [show d :: (rest' ++ [top]) = (d :: rest') ++ [top] from rfl, List.take_append_of_le_length]
        simp only [List.length_cons]; omega

theorem closeTo_eq {st : Stack} (h : DocBottom st) (u : Nat) : closeTo st u = .ok (st.take (max u 1)) := by
  obtain ⟨d, rest, hst, hd, hr⟩ := h
  subst hst
  unfold closeTo
  exact closeAux_eq u d hd _ rest hr (by simp only [List.length_cons]; omega)

theorem DocBottom.take {st : Stack} (h : DocBottom st) (k : Nat) (hk : 1 ≤ k) : DocBottom (st.take k) := by
  obtain ⟨d, rest, hst, hd, hr⟩ := h
  subst hst
  obtain ⟨k', rfl⟩ : ∃ k', k = k' + 1 := ⟨k - 1, by omega⟩
  exact ⟨d, rest.take k', by simp, hd, fun e he => hr e (List.mem_of_mem_take he)⟩

theorem DocBottom.ne_nil {st : Stack} (h : DocBottom st) : 1 ≤ st.length := by
  obtain ⟨d, rest, hst, -, -⟩ := h
  subst hst; simp

theorem DocBottom.zero {st : Stack} (h : DocBottom st) : ∃ d, st[0]? = some d ∧ d.isDoc = true := by
  obtain ⟨d, rest, hst, hd, -⟩ := h
  subst hst; exact ⟨d, rfl, hd⟩

theorem DocBottom.notdoc {st : Stack} (h : DocBottom st) {i : Nat} {e : Entry} (hi : i ≠ 0) (he : st[i]? = some e) :
    e.isDoc = false := by
  obtain ⟨d, rest, hst, -, hr⟩ := h
  subst hst
  obtain ⟨j, rfl⟩ : ∃ j, i = j + 1 := ⟨i - 1, by omega⟩
  simp only [List.getElem?_cons_succ] at he
  exact hr e (List.mem_of_getElem? he)

/-! ## `find_last_block_quote_on_stack` -/

theorem findLastBqFrom_ok {st : Stack} (h : DocBottom st) : ∀ (i : Nat), i < st.length →
    ∃ j, findLastBqFrom st i = .ok j ∧ j ≤ i := by
  intro i
  induction i with
  | zero =>
    intro _
    obtain ⟨d, hd0, hd⟩ := h.zero
    refine ⟨0, ?_, Nat.le_refl _⟩
    unfold findLastBqFrom
    rw [hd0]; simp [hd]
  | succ i ih =>
    intro hi
    unfold findLastBqFrom
    rw [List.getElem?_eq_getElem hi]
    simp only
    split
    · exact ⟨i + 1, rfl, Nat.le_refl _⟩
    · obtain ⟨j, hj, hle⟩ := ih (by omega)
      exact ⟨j, hj, by omega⟩

theorem findLastBq_ok {st : Stack} (h : DocBottom st) : ∃ j, findLastBq st = .ok j ∧ j < st.length := by
  have hl := h.ne_nil
  unfold findLastBq
  have : st.isEmpty = false := by cases st with | nil => simp at hl | cons a r => rfl
  rw [this]
  obtain ⟨j, hj, hle⟩ := findLastBqFrom_ok h (st.length - 1) (by omega)
  exact ⟨j, hj, by omega⟩

theorem stackAt_ok {st : Stack} {i : Nat} (h : i < st.length) : stackAt st i = .ok st[i] := by
  unfold stackAt
  rw [List.getElem?_eq_getElem h]

theorem negAt_one_ok {st : Stack} (h : 1 ≤ st.length) : ∃ e, negAt st 1 = .ok e := by
  unfold negAt
  rw [if_pos h, List.getElem?_eq_getElem (by omega)]
  exact ⟨_, rfl⟩

/-! ## `close_required_lists` terminates -/

theorem closeCalc_not_fuel (st : Stack) : closeCalc st ≠ .error .fuel := by
  unfold closeCalc
  split <;> (intro h; cases h)

/-- the `while` loop of `close_required_lists` ends: every iteration pops at least one stack token or raises -/
theorem closeLoop_not_fuel (c : Nat) (allow : Bool) : ∀ (n : Nat) (st : Stack) (k : Nat), st.length ≤ n →
    closeLoop c allow n st k ≠ .error .fuel := by
  intro n
  induction n with
  | zero =>
    intro st k hl
    have : st = [] := List.length_eq_zero_iff.mp (by omega)
    subst this
    intro h
    unfold closeLoop closeCalc at h
    simp at h
    cases h
  | succ n ih =>
    intro st k hl h
    unfold closeLoop at h
    cases hc : closeCalc st with
    | error e =>
      rw [hc] at h
      have : e = .fuel := by simpa [bind, Except.bind] using h
      subst this
      exact closeCalc_not_fuel st hc
    | ok p =>
      rw [hc] at h
      simp only [bind_ok] at h
      split at h
      · cases hd : downToList st (st.length - 2) with
        | error e =>
          rw [hd] at h
          have : e = .fuel := by simpa [bind, Except.bind] using h
          subst this
          exact downToList_not_fuel _ _ hd
        | ok si =>
          rw [hd] at h
          simp only [bind_ok] at h
          cases hcl : closeTo st (si + 1) with
          | error e =>
            rw [hcl] at h
            have : e = .fuel := by simpa [bind, Except.bind] using h
            subst this
            exact closeAux_not_fuel _ _ _ hcl
          | ok st1 =>
            rw [hcl] at h
            simp only [bind_ok] at h
            split at h
            · cases h
            · next hne =>
              have hle := closeTo_len_le hcl
              have hlt : st1.length < st.length := by
                simp only [beq_iff_eq] at hne; omega
              cases hn : negAt st1 1 with
              | error e =>
                rw [hn] at h
                have : e = .fuel := by simpa [bind, Except.bind] using h
                subst this
                exact negAt_not_fuel _ _ hn
              | ok top =>
                rw [hn] at h
                simp only [bind_ok] at h
                split at h
                · cases h
                · exact ih st1 (k + 1) (by omega) h
      · cases h

theorem closeRequiredLists_not_fuel (st : Stack) (allow : Bool) (col : Option Nat) :
    closeRequiredLists st allow col ≠ .error .fuel := by
  unfold closeRequiredLists
  cases col with
  | none => intro h; cases h
  | some c => exact closeLoop_not_fuel c allow st.length st 0 (Nat.le_refl _)

/-- the stack `close_required_lists` leaves is a prefix of the one it found -/
theorem closeLoop_prefix (c : Nat) (allow : Bool) : ∀ (n : Nat) (st : Stack) (k : Nat) (st' : Stack) (k' : Nat),
    closeLoop c allow n st k = .ok (st', k') → ∃ j, st' = st.take j := by
  intro n
  induction n with
  | zero =>
    intro st k st' k' h
    unfold closeLoop at h
    cases hc : closeCalc st with
    | error e => rw [hc] at h; cases h
    | ok p =>
      rw [hc] at h
      simp only [bind_ok] at h
      split at h
      · cases h
      · injection h with h; injection h with h1 h2
        exact ⟨st.length, by rw [← h1]; simp⟩
  | succ n ih =>
    intro st k st' k' h
    unfold closeLoop at h
    cases hc : closeCalc st with
    | error e => rw [hc] at h; cases h
    | ok p =>
      rw [hc] at h
      simp only [bind_ok] at h
      split at h
      · cases hd : downToList st (st.length - 2) with
        | error e => rw [hd] at h; cases h
        | ok si =>
          rw [hd] at h
          simp only [bind_ok] at h
          cases hcl : closeTo st (si + 1) with
          | error e => rw [hcl] at h; cases h
          | ok st1 =>
            rw [hcl] at h
            simp only [bind_ok] at h
            split at h
            · cases h
            · cases hn : negAt st1 1 with
              | error e => rw [hn] at h; cases h
              | ok top =>
                rw [hn] at h
                simp only [bind_ok] at h
                split at h
                · cases h
                · obtain ⟨j, hj⟩ := ih _ _ _ _ h
                  obtain ⟨j1, hj1⟩ := closeTo_prefix hcl
                  exact ⟨min j j1, by rw [hj, hj1, List.take_take]⟩
      · injection h with h; injection h with h1 h2
        exact ⟨st.length, by rw [← h1]; simp⟩

end Verif.Model.ListStarts
