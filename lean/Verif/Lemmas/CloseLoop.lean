/-
  The list-closing loop: termination under a variant, and the concrete state where no variant exists.
-/
import Verif.Model.CloseLoop
namespace Verif.Model.CloseLoop

/-- If every repeating iteration shrinks the stack, the loop ends within `stack size + 1` iterations. -/
theorem closeLoop_no_fuel (ctx : Ctx)
    (H : ∀ st lli rep emit lli' st', closeNextLevel ctx st lli = .ok (rep, emit, lli', st') → rep = true →
      st'.length < st.length) :
    ∀ fuel st lli, st.length < fuel → closeLoop ctx fuel st lli ≠ .error .fuel := by
  intro fuel
  induction fuel with
  | zero => intro st lli h; omega
  | succ fuel ih =>
    intro st lli h
    unfold closeLoop
    cases hc : closeNextLevel ctx st lli with
    | error e => simp
    | ok r =>
      obtain ⟨rep, emit, lli', st'⟩ := r
      simp only
      split
      · next hrep =>
        have := H st lli rep emit lli' st' hc hrep
        exact ih st' lli' (by omega)
      · intro he; cases he

/-- the recorded state of `'  - a\n- 1)'` is a fixed point of the iteration that asks for a repeat -/
theorem hang_fixed_point : closeNextLevel hangCtx hangStack 1 = .ok (true, false, 1, hangStack) := by rfl

theorem hang_diverges (fuel : Nat) : closeLoop hangCtx fuel hangStack 1 = .error .fuel := by
  induction fuel with
  | zero => rfl
  | succ fuel ih =>
    unfold closeLoop
    rw [hang_fixed_point]
    simpa using ih

/-- closing an open block never lengthens the stack -/
theorem closeUntilAux_length (u : Nat) (a b : Bool) (n : Nat) (st st' : Stack)
    (h : closeUntilAux u a b n st = .ok st') : st'.length ≤ st.length := by
  induction n generalizing st with
  | zero => unfold closeUntilAux at h; injection h with h; subst h; exact Nat.le_refl _
  | succ n ih =>
    unfold closeUntilAux at h
    split at h
    · cases h
    · repeat' split at h
      all_goals first
        | (injection h with h; subst h; exact Nat.le_refl _)
        | (have := ih _ h; simp only [List.length_dropLast] at this; omega)

end Verif.Model.CloseLoop
