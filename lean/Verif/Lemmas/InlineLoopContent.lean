/-
  Content conservation on one line: what the text tokens HOLD is an encoding (`Codec.encode`) of pieces whose sources, together with
  the ranges consumed by token-producing handlers, are the text.
-/
import Verif.Lemmas.InlineLoopReal
import Verif.Lemmas.Codec
namespace Verif.Model.InlineLoop
open Verif.Model.Recognisers (Str slice)
open Verif.Model
open Verif.Model.Codec (Piece)
open Verif.Lemmas.Codec (encode_append sourceOf_append escapeSpecial_single)

/-- the piece a copied character becomes under `InlineHelper.append_text` -/
def copyPiece (c : Char) : Piece :=
  if c == '<' then .replaced [c] ['&', 'l', 't', ';']
  else if c == '>' then .replaced [c] ['&', 'g', 't', ';']
  else if c == '&' then .replaced [c] ['&', 'a', 'm', 'p', ';']
  else if c == '"' then .replaced [c] ['&', 'q', 'u', 'o', 't', ';']
  else .lit c

theorem appendTextEscape_eq : ∀ (s : Str), (∀ c ∈ s, Codec.isSpecial c = false) →
    InlineRecog.appendTextEscape s = Codec.encode (s.map copyPiece) ∧ Codec.sourceOf (s.map copyPiece) = s
  | [], _ => ⟨rfl, rfl⟩
  | c :: s, h => by
    obtain ⟨ih1, ih2⟩ := appendTextEscape_eq s (fun x hx => h x (List.mem_cons_of_mem _ hx))
    have hc := h c (by simp)
    unfold InlineRecog.appendTextEscape at ih1 ⊢
    simp only [List.flatMap_cons, List.map_cons, Codec.encode, Codec.sourceOf]
    rw [ih1, ih2]
    unfold copyPiece
    refine ⟨?_, ?_⟩
    · congr 1
      split
      · rfl
      · split
        · rfl
        · split
          · rfl
          · split
            · rfl
            · simp only [Piece.encode]; exact (escapeSpecial_single hc).symm
    · congr 1
      repeat' split
      all_goals rfl

/-- the output as a sequence of segments: a pending text (pieces) or the tokens of a handler with the range they consumed -/
inductive Seg where
  | txt (ps : List Piece)
  | tok (ts : List Tok) (consumed : Str)

def Seg.src : Seg → Str
  | .txt ps => Codec.sourceOf ps
  | .tok _ c => c

/-- `Renders segs toks`: the token list is the rendering of the segments — a text segment becomes ONE text token holding the
encoding of its pieces (or nothing when that encoding is empty), a token segment its tokens -/
inductive Renders : List Seg → List Tok → Prop
  | nil : Renders [] []
  | txtSome {segs : List Seg} {toks : List Tok} (ps : List Piece) (w : Str) (e : Option Str) (l c : Int) :
      Renders segs toks → Renders (segs ++ [.txt ps]) (toks ++ [.text (Codec.encode ps) w e l c])
  | txtNone {segs : List Seg} {toks : List Tok} (ps : List Piece) :
      Renders segs toks → Codec.encode ps = [] → Renders (segs ++ [.txt ps]) toks
  | tok {segs : List Seg} {toks : List Tok} (ts : List Tok) (consumed : Str) :
      Renders segs toks → Renders (segs ++ [.tok ts consumed]) (toks ++ ts)

/-- what a handler answer contributes to the pending text -/
def contribution (r : Response) : Str :=
  match r.original with
  | some o => Codec.replacementMarkers o (appendText [] (r.newString.getD []))
  | none => InlineRecog.appendTextEscape (r.newString.getD [])

/-- a handler answer is FAITHFUL: without tokens its text contribution encodes pieces whose source is the consumed range; with tokens
it contributes no text (the tokens stand for the range); it keeps its hands off the pending text and the list -/
structure Faithful (src : Str) (q : Request) (r : Response) : Prop where
  noConsume : r.consumeRest = false
  untouched : r.blocks = q.blocks
  text : r.newTokens = [] → ∀ ni, r.newIndex = some ni → ∃ ps, contribution r = Codec.encode ps ∧ Codec.sourceOf ps = slice src q.next ni
  toks : r.newTokens ≠ [] → contribution r = []

/-! ## one turn -/

theorem finish_text_eq {T : Table} {env : Env} {src : Str} {st : St} {next : Nat} {c : Char} {m : Mid} {st' : St} {it : Iter}
    (h : finish T env src st next c m = .ok (st', it)) :
    st'.blocks = (cleanupCreate st m).blocks ∧ ∃ ns, (cleanupCreate st m).newString = some ns ∧
      completeCur (if (cleanupCreate st m).reset then [] else (cleanupCreate st m).cur) ns m.resp.original m.resp.newStringUnres =
        .ok st'.cur := by
  unfold finish at h
  simp only at h
  split at h
  · cases h
  · split at h
    · cases h
    · cases h
    · next ni ns hni hns =>
      split at h
      · cases h
      · next cur2 hc2 =>
        split at h
        · cases h
        · injection h with h
          injection h with h1 _
          subst h1
          exact ⟨rfl, ns, hns, hc2⟩

/-- `__cleanup_after_handling` + `__create_new_text_token` when the rest of the line is not consumed: the four cases -/
theorem cleanupCreate_cases (st : St) (m : Mid) (hc : m.resp.consumeRest = false) :
    let cc := cleanupCreate st m
    let cur1 := appendText m.cur m.remaining
    cc.newString = m.resp.newString ∧ cc.cur = cur1 ∧
    ((m.resp.newTokens = [] ∧ cc.blocks = m.resp.blocks ∧ cc.reset = false) ∨
     (m.resp.newTokens ≠ [] ∧ cur1 ≠ [] ∧ cc.reset = true ∧
        cc.blocks = m.resp.blocks ++ [.text cur1 st.startWs m.endStr st.lastLine st.lastCol] ++ m.resp.newTokens) ∨
     (m.resp.newTokens ≠ [] ∧ cur1 = [] ∧ cc.reset = false ∧
        (cc.blocks = m.resp.blocks ++ [.text [] (Codec.replaceWithNothing st.startWs) none st.lastLine st.lastCol] ++ m.resp.newTokens ∨
         cc.blocks = m.resp.blocks ++ m.resp.newTokens))) := by
  intro cc cur1
  have hcc : cc = cleanupCreate st m := rfl
  clear_value cc
  unfold cleanupCreate at hcc
  simp only [hc, Bool.false_eq_true, ↓reduceIte] at hcc
  by_cases h1 : m.resp.newTokens.isEmpty = true
  · rw [if_pos h1] at hcc; subst hcc
    exact ⟨rfl, rfl, Or.inl ⟨List.isEmpty_iff.mp h1, rfl, rfl⟩⟩
  · rw [if_neg h1] at hcc
    have hne : m.resp.newTokens ≠ [] := by intro h0; rw [h0] at h1; exact h1 rfl
    by_cases h2 : (!(appendText m.cur m.remaining).isEmpty) = true
    · rw [if_pos h2] at hcc; subst hcc
      have : cur1 ≠ [] := by intro h0; simp [cur1] at h0; simp [h0] at h2
      exact ⟨rfl, rfl, Or.inr (Or.inl ⟨hne, this, rfl, rfl⟩)⟩
    · rw [if_neg h2] at hcc
      have hemp : cur1 = [] := by
        have : (appendText m.cur m.remaining).isEmpty = true := by simpa using h2
        exact List.isEmpty_iff.mp this
      by_cases h3 : (!st.startWs.isEmpty) = true
      · rw [if_pos h3] at hcc; subst hcc
        exact ⟨rfl, rfl, Or.inr (Or.inr ⟨hne, hemp, rfl, Or.inl rfl⟩)⟩
      · rw [if_neg h3] at hcc; subst hcc
        exact ⟨rfl, rfl, Or.inr (Or.inr ⟨hne, hemp, rfl, Or.inr rfl⟩)⟩

theorem completeCur_eq {cur ns : Str} {orig unres : Option Str} {x : Str} (h : completeCur cur ns orig unres = .ok x) :
    (orig = none → x = cur ++ InlineRecog.appendTextEscape ns) ∧
    (∀ o, orig = some o → x = cur ++ Codec.replacementMarkers o (appendText [] ns)) := by
  unfold completeCur at h
  cases orig with
  | none => simp only at h; injection h with h; exact ⟨fun _ => h.symm, (by intro o ho; cases ho)⟩
  | some o =>
    simp only at h
    split at h
    · cases h
    · injection h with h
      exact ⟨(by intro ho; cases ho), (by intro o' ho'; injection ho' with ho'; subst ho'; exact h.symm)⟩

/-- the content invariant: the list renders the segments so far, the pending text encodes `ps`, and the sources add up to the text
read so far -/
structure CInv (src : Str) (st : St) (segs : List Seg) (ps : List Piece) : Prop where
  render : Renders segs st.blocks
  cur : st.cur = Codec.encode ps
  source : segs.flatMap Seg.src ++ Codec.sourceOf ps = src.take st.start

/-- what the content theorem asks (beside `TableOK`): every marker character of the text is a start character (so it never sits in a copied
piece), the text holds no line break (one line: ATX heading, one-line paragraph), every handler answer is faithful -/
structure ContentContract (T : Table) (src : Str) : Prop where
  specials : ∀ c ∈ src, Codec.isSpecial c = true → T.starts.contains c = true
  oneLine : NL ∉ src
  faithful : ∀ c h q r, T.handler c = some h → q.src = src → src[q.next]? = some c → ReqOK q → h q = .ok r → Faithful src q r

theorem flatMap_snoc (segs : List Seg) (x : Seg) : (segs ++ [x]).flatMap Seg.src = segs.flatMap Seg.src ++ x.src := by
  simp [List.flatMap_append]

theorem step_content {T : Table} {env : Env} {src : Str} {st : St} {next : Nat} {st' : St} {it : Iter} {segs : List Seg}
    {ps : List Piece} (hT : TableOK T src) (hC : ContentContract T src) (hI : Inv T env src st) (hn : st.next = some next)
    (hCI : CInv src st segs ps) (hs : step T env src st next = .ok (st', it)) : ∃ segs' ps', CInv src st' segs' ps' := by
  have hidx : indexAnyOf src T.starts st.start = some next := by rw [← hI.next]; exact hn
  obtain ⟨hge, ⟨hlt, hmem⟩, hfirst⟩ := indexAnyOf_some hidx
  have hc : src[next]? = some src[next] := List.getElem?_eq_getElem hlt
  have hnot : src[next] ≠ NL := by
    intro h0; exact hC.oneLine (by rw [← h0]; exact List.getElem_mem hlt)
  unfold step at hs
  rw [hc] at hs
  simp only at hs
  unfold dispatchChar at hs
  cases hh : T.handler src[next] with
  | none =>
    have := hT.nlOnly _ hmem hnot
    rw [hh] at this; cases this
  | some h =>
    rw [hh] at hs; simp only at hs
    cases hm : handled env st h (mkRequest env src st next) with
    | error e => rw [hm] at hs; cases hs
    | ok m =>
      rw [hm] at hs; simp only at hs
      obtain ⟨r, hr, _, hmeq⟩ := handled_ok hm
      have hR := hT.resp _ h _ r hh rfl hc (mkRequest_reqOK env src st next) hr
      have hF := hC.faithful _ h _ r hh rfl hc (mkRequest_reqOK env src st next) hr
      obtain ⟨ni, hni, hprog⟩ := hR.progress
      have hprog' : next < ni := hprog
      have hmr : m.resp = r := by rw [hmeq]
      have hmcur : m.cur = st.cur := by rw [hmeq]
      have hmrem : m.remaining = slice src st.start next := by rw [hmeq]; rfl
      obtain ⟨_, _, _, ni', _, hni', _, _, _, _, e5, _, _, _, _, _⟩ := finish_eq hs
      rw [hmr, hni] at hni'; injection hni' with hni'; subst hni'
      obtain ⟨hb, ns, hns, hcur⟩ := finish_text_eq hs
      obtain ⟨c1, c2, c3⟩ := cleanupCreate_cases st m (by rw [hmr]; exact hF.noConsume)
      -- the copied piece
      have hplain : ∀ c ∈ slice src st.start next, Codec.isSpecial c = false := by
        intro c hcm
        by_cases hsp : Codec.isSpecial c = true
        · have hin : c ∈ src := List.mem_of_mem_take (List.mem_of_mem_drop hcm)
          have := hfirst c hcm; rw [hC.specials c hin hsp] at this; cases this
        · simpa using hsp
      obtain ⟨p1, p2⟩ := appendTextEscape_eq _ hplain
      have hcur1 : appendText m.cur m.remaining = Codec.encode (ps ++ (slice src st.start next).map copyPiece) := by
        unfold appendText; rw [hmcur, hmrem, hCI.cur, p1, encode_append]
      -- what the handler's text adds
      have hns' : r.newString = some ns := by rw [← hmr, ← c1]; exact hns
      have hcontr : st'.cur = (if (cleanupCreate st m).reset then [] else (cleanupCreate st m).cur) ++ contribution r := by
        have ho : m.resp.original = r.original := by rw [hmr]
        rw [ho] at hcur
        obtain ⟨h1, h2⟩ := completeCur_eq hcur
        unfold contribution; rw [hns']
        cases hor : r.original with
        | none => simp only [Option.getD_some]; exact h1 hor
        | some o => simp only [Option.getD_some]; exact h2 o hor
      have hsrc1 : src.take ni = src.take st.start ++ slice src st.start next ++ slice src next ni := by
        rw [take_eq_take_append_slice src (Nat.le_of_lt hprog'), take_eq_take_append_slice src hge]
      rw [hmr] at c3
      rcases c3 with ⟨t0, b0, r0⟩ | ⟨t0, n0, r0, b0⟩ | ⟨t0, n0, r0, b0⟩
      · -- no tokens: the pending text grows
        obtain ⟨psr, q1, q2⟩ := hF.text t0 ni hni
        refine ⟨segs, ps ++ (slice src st.start next).map copyPiece ++ psr, ?_, ?_, ?_⟩
        · rw [hb, b0, hF.untouched]; exact hCI.render
        · rw [hcontr, r0, c2, hcur1, q1]; simp only [Bool.false_eq_true, ↓reduceIte]; rw [← encode_append]
        · rw [e5, hsrc1, sourceOf_append, sourceOf_append, p2, q2, ← hCI.source]
          simp only [List.append_assoc]
          rfl
      · -- tokens behind a non-empty pending text: it becomes a text token
        have q1 := hF.toks t0
        refine ⟨segs ++ [.txt (ps ++ (slice src st.start next).map copyPiece)] ++ [.tok r.newTokens (slice src next ni)], [], ?_, ?_, ?_⟩
        · rw [hb, b0, hF.untouched, hcur1]
          exact Renders.tok _ _ (Renders.txtSome _ _ _ _ _ hCI.render)
        · rw [hcontr, r0, q1]; rfl
        · rw [e5, hsrc1, flatMap_snoc, flatMap_snoc]
          simp only [Seg.src, sourceOf_append, p2, Codec.sourceOf, List.append_nil]
          rw [← hCI.source]; simp only [List.append_assoc]
      · -- tokens behind an empty pending text
        have q1 := hF.toks t0
        have hemp : Codec.encode (ps ++ (slice src st.start next).map copyPiece) = [] := by rw [← hcur1]; exact n0
        refine ⟨segs ++ [.txt (ps ++ (slice src st.start next).map copyPiece)] ++ [.tok r.newTokens (slice src next ni)], [], ?_, ?_, ?_⟩
        · rw [hb, hF.untouched] at *
          rcases b0 with b0 | b0
          · rw [b0, show ([] : Str) = Codec.encode (ps ++ (slice src st.start next).map copyPiece) from hemp.symm]
            exact Renders.tok _ _ (Renders.txtSome _ _ _ _ _ hCI.render)
          · rw [b0]
            exact Renders.tok _ _ (Renders.txtNone _ hCI.render hemp)
        · rw [hcontr, r0, c2, q1]; simp only [Bool.false_eq_true, ↓reduceIte, List.append_nil]; exact n0
        · rw [e5, hsrc1, flatMap_snoc, flatMap_snoc]
          simp only [Seg.src, sourceOf_append, p2, Codec.sourceOf, List.append_nil]
          rw [← hCI.source]; simp only [List.append_assoc]

/-! ## the loop, the final text, the call -/

theorem loop_content {T : Table} {env : Env} {src : Str} (hT : TableOK T src)
    (hrec : truthy env.recomb = true → env.isSetext = true) (hC : ContentContract T src) :
    ∀ (fuel : Nat) (st : St) (tr : List Iter) (st' : St) (tr' : List Iter) (segs : List Seg) (ps : List Piece),
      Inv T env src st → CInv src st segs ps → loop T env src fuel st tr = .ok (st', tr') →
      st'.next = none ∧ Inv T env src st' ∧ ∃ segs' ps', CInv src st' segs' ps'
  | 0, st, tr, st', tr', segs, ps, hI, hCI, hl => by
    rw [loop.eq_1] at hl
    split at hl
    · next hn => injection hl with hl; injection hl with a1 _; subst a1; exact ⟨hn, hI, segs, ps, hCI⟩
    · cases hl
  | fuel + 1, st, tr, st', tr', segs, ps, hI, hCI, hl => by
    rw [loop.eq_2] at hl
    split at hl
    · next hn => injection hl with hl; injection hl with a1 _; subst a1; exact ⟨hn, hI, segs, ps, hCI⟩
    · next next hn =>
      cases hs : step T env src st next with
      | error e => rw [hs] at hl; cases hl
      | ok p =>
        obtain ⟨st1, it⟩ := p
        rw [hs] at hl; simp only at hl
        obtain ⟨segs1, ps1, hCI1⟩ := step_content hT hC hI hn hCI hs
        have hI1 : Inv T env src st1 := by
          rcases step_ok hT hrec hI hn with ⟨st2, it2, hs2, hF⟩ | ⟨_, _, _, _, _, _, h4⟩
          · rw [hs] at hs2; injection hs2 with hs2; injection hs2 with h1 _; subst h1; exact hF.inv
          · rw [hs] at h4; cases h4
        exact loop_content hT hrec hC fuel st1 (tr ++ [it]) st' tr' segs1 ps1 hI1 hCI1 hl

theorem complete_content {T : Table} {env : Env} {src : Str} {st : St} {segs : List Seg} {ps : List Piece}
    (hC : ContentContract T src) (hse : env.isSetext = false) (hI : Inv T env src st) (hn : st.next = none)
    (hCI : CInv src st segs ps) : ∃ segs', Renders segs' (complete env src st) ∧ segs'.flatMap Seg.src = src := by
  have hnone : indexAnyOf src T.starts st.start = none := by rw [← hI.next]; exact hn
  have hplain : ∀ c ∈ src.drop st.start, Codec.isSpecial c = false := by
    intro c hc
    by_cases hsp : Codec.isSpecial c = true
    · have := indexAnyOf_none hnone c hc; rw [hC.specials c (List.mem_of_mem_drop hc) hsp] at this; cases this
    · simpa using hsp
  obtain ⟨p1, p2⟩ := appendTextEscape_eq _ hplain
  have hcur2 : (if st.start < src.length then appendText st.cur (src.drop st.start) else st.cur) =
      Codec.encode (ps ++ (src.drop st.start).map copyPiece) := by
    split
    · unfold appendText; rw [hCI.cur, p1, encode_append]
    · next hlt =>
      rw [List.drop_eq_nil_of_le (by omega)]; simp [hCI.cur]
  refine ⟨segs ++ [.txt (ps ++ (src.drop st.start).map copyPiece)], ?_, ?_⟩
  · unfold complete
    simp only [hse, Bool.false_and, Bool.false_eq_true, ↓reduceIte]
    rw [hcur2]
    split
    · exact Renders.txtSome _ _ _ _ _ hCI.render
    · next hno =>
      refine Renders.txtNone _ hCI.render ?_
      have : (Codec.encode (ps ++ (src.drop st.start).map copyPiece)).isEmpty = true := by
        simp only [Bool.or_eq_true, Bool.not_eq_eq_eq_not, Bool.not_true, not_or, Bool.not_eq_false] at hno
        simpa using hno.1
      exact List.isEmpty_iff.mp this
  · rw [flatMap_snoc]
    simp only [Seg.src, sourceOf_append, p2]
    rw [← List.append_assoc, hCI.source, List.take_append_drop]

theorem run_content {T : Table} {env : Env} {src : Str} {sp0 : Option (List Str)} (hE : envOK env = true)
    (hp : prepare env = .ok (src, sp0)) (hT : TableOK T src) (hC : ContentContract T src) (hse : env.isSetext = false)
    {r : Result} (hr : run T env = .ok r) : ∃ segs, Renders segs r.blocks ∧ segs.flatMap Seg.src = src := by
  obtain ⟨src', sp', hp', h1, h2, h3⟩ := envOK_facts hE
  rw [hp] at hp'; injection hp' with hp'; injection hp' with e1 e2; subst e1; subst e2
  have hI := initSt_inv (T := T) (env := env) h2 h3
  unfold run runFuel fuelOf at hr
  simp only [hp] at hr
  cases hl : loop T env src (src.length + 1) (initSt T env src sp0) [] with
  | error e => rw [hl] at hr; cases hr
  | ok p =>
    obtain ⟨st', tr'⟩ := p
    rw [hl] at hr; simp only at hr
    injection hr with hr; subst hr
    have hCI0 : CInv src (initSt T env src sp0) [] [] := ⟨Renders.nil, rfl, by simp [initSt, Codec.sourceOf]⟩
    obtain ⟨hn, hI', segs, ps, hCI⟩ := loop_content hT h1 hC _ _ _ _ _ _ _ hI hCI0 hl
    exact complete_content hC hse hI' hn hCI

/-! ## the handlers of inline_handler_helper.py are faithful -/

theorem getElem?_slice_one {src : Str} {n : Nat} {c : Char} (h : src[n]? = some c) : slice src n (n + 1) = [c] := by
  have hlt : n < src.length := by
    by_cases hl : n < src.length
    · exact hl
    · rw [List.getElem?_eq_none (by omega)] at h; cases h
  rw [slice_cons src hlt (Nat.lt_succ_self _), slice_self]
  rw [List.getElem?_eq_getElem hlt] at h; injection h with h; rw [h]

/-- the control-character handler: `\x05 c` is the encoding of the literal `c` -/
theorem control_faithful {q : Request} {r : Response} {c : Char} (hc : q.src[q.next]? = some c) (hsp : Codec.isSpecial c = true)
    (h : controlHandler q = .ok r) : Faithful q.src q r := by
  unfold controlHandler at h
  rw [hc] at h; simp only at h
  injection h with h; subst h
  refine ⟨rfl, rfl, ?_, (by intro h; exact absurd rfl h)⟩
  intro _ ni hni
  injection hni with hni; subst hni
  refine ⟨[.lit c], ?_, by rw [getElem?_slice_one hc]; rfl⟩
  show InlineRecog.appendTextEscape [Codec.ESC, c] = Codec.encode [Codec.Piece.lit c]
  have h1 : c ≠ '<' ∧ c ≠ '>' ∧ c ≠ '&' ∧ c ≠ '"' := by
    refine ⟨?_, ?_, ?_, ?_⟩ <;> (intro h0; subst h0; revert hsp; decide)
  simp only [InlineRecog.appendTextEscape, List.flatMap_cons, List.flatMap_nil, Codec.encode, Codec.Piece.encode,
    Codec.escapeSpecial, hsp, ↓reduceIte, List.append_nil]
  have e1 : (Codec.ESC == '<') = false := by decide
  have e2 : (Codec.ESC == '>') = false := by decide
  have e3 : (Codec.ESC == '&') = false := by decide
  have e4 : (Codec.ESC == '"') = false := by decide
  have f1 : (c == '<') = false := by simpa using h1.1
  have f2 : (c == '>') = false := by simpa using h1.2.1
  have f3 : (c == '&') = false := by simpa using h1.2.2.1
  have f4 : (c == '"') = false := by simpa using h1.2.2.2
  simp [e1, e2, e3, e4, f1, f2, f3, f4]

/-- `[`, `![`, emphasis runs: a special-text token stands for the consumed characters, no text is contributed -/
theorem bracket_faithful {q : Request} {r : Response} (len : Nat) (h : bracketHandler len q = .ok r) : Faithful q.src q r := by
  unfold bracketHandler at h
  injection h with h; subst h
  exact ⟨rfl, rfl, (by intro h; cases h), (by intro _; rfl)⟩

theorem emphasis_faithful {q : Request} {r : Response} {c : Char} (h : emphasisHandler c q = .ok r) : Faithful q.src q r := by
  unfold emphasisHandler at h
  split at h
  · cases h
  · injection h with h; subst h
    exact ⟨rfl, rfl, (by intro h; cases h), (by intro _; rfl)⟩

/-- `!` not followed by `[` is copied; `![` is a special-text token -/
theorem bang_faithful {q : Request} {r : Response} (hc : q.src[q.next]? = some '!') (h : bangHandler q = .ok r) :
    Faithful q.src q r := by
  unfold bangHandler at h
  split at h
  · exact bracket_faithful 2 h
  · injection h with h; subst h
    refine ⟨rfl, rfl, ?_, (by intro h; exact absurd rfl h)⟩
    intro _ ni hni
    injection hni with hni; subst hni
    exact ⟨[.lit '!'], (by show InlineRecog.appendTextEscape ['!'] = Codec.encode [Codec.Piece.lit '!']; decide),
      by rw [getElem?_slice_one hc]; rfl⟩

end Verif.Model.InlineLoop
