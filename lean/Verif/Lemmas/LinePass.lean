/- The line phase of a fix pass: which context the loop variable ends on decides whether the line is written. -/
import Verif.Model.FixSched
namespace Verif.Model.FixSched

/-- The context the loop variable `context` is bound to after the plug-in loop (true = fix context). -/
def endCtxFrom (k : Nat) (b : Bool) (rs : List XRule) : Bool :=
  rs.foldl (fun b r => if r.hasLine then
    (match bindOf k r with | none => b | some .fix => true | some .report => false) else b) b

def endCtx (k : Nat) (rs : List XRule) : Bool := endCtxFrom k true rs

theorem lineStep_ctx (k n : Nat) (st : LineSt) (r : XRule) :
    (lineStep k n st r).ctxFix =
      (if r.hasLine then (match bindOf k r with | none => st.ctxFix | some .fix => true | some .report => false)
       else st.ctxFix) := by
  unfold lineStep
  by_cases h : r.hasLine
  · simp only [h, Bool.not_true, Bool.false_eq_true, if_false, if_true]
    cases hb : bindOf k r with
    | none => rfl
    | some b =>
      cases b with
      | fix => simp only; split <;> rfl
      | report => simp only; split <;> rfl
  · simp [h]

theorem foldl_lineStep_ctx (k n : Nat) : ∀ (rs : List XRule) (st : LineSt),
    (rs.foldl (lineStep k n) st).ctxFix = endCtxFrom k st.ctxFix rs
  | [], _ => rfl
  | r :: rs, st => by
    simp only [List.foldl_cons, endCtxFrom]
    rw [foldl_lineStep_ctx k n rs, lineStep_ctx]
    rfl

/-- No rule bound to the fix context rewrites lines. -/
def NoLineFix (k : Nat) (rs : List XRule) : Prop :=
  ∀ r ∈ rs, bindOf k r = some .fix → ∀ l, r.lineFix l = none

theorem lineStep_line_id (k n : Nat) (st : LineSt) (r : XRule)
    (h : bindOf k r = some .fix → ∀ l, r.lineFix l = none) :
    (lineStep k n st r).line = st.line ∧ (lineStep k n st r).records = st.records := by
  unfold lineStep
  by_cases hh : r.hasLine
  · simp only [hh, Bool.not_true, Bool.false_eq_true, if_false]
    cases hb : bindOf k r with
    | none => exact ⟨rfl, rfl⟩
    | some b =>
      cases b with
      | fix => simp [h hb]
      | report => simp only; split <;> exact ⟨rfl, rfl⟩
  · simp [hh]

theorem foldl_lineStep_id (k n : Nat) : ∀ (rs : List XRule) (st : LineSt), NoLineFix k rs →
    (rs.foldl (lineStep k n) st).line = st.line ∧ (rs.foldl (lineStep k n) st).records = st.records
  | [], _, _ => ⟨rfl, rfl⟩
  | r :: rs, st, h => by
    simp only [List.foldl_cons]
    have h1 := lineStep_line_id k n st r (h r List.mem_cons_self)
    have h2 := foldl_lineStep_id k n rs (lineStep k n st r) (fun r' hr' => h r' (List.mem_cons_of_mem _ hr'))
    exact ⟨h2.1.trans h1.1, h2.2.trans h1.2⟩

/-- What one `next_line` writes when the loop ends on the fix context: the (possibly rewritten)
line, followed by a newline unless it is the last line. -/
theorem nextLine_written_fix (rb : Bool) (k : Nat) (rs : List XRule) (o : Out) (n : Nat) (line : String) (isLast : Bool)
    (h : rb = true → endCtx k rs = true) :
    (nextLineG rb k rs o n line isLast).written =
      o.written ++ (rs.foldl (lineStep k n) ⟨line, true, 0, [], []⟩).line ++ (if isLast then "" else "\n") := by
  unfold nextLineG lineEnd
  have hc : (if rb = true then (rs.foldl (lineStep k n) ⟨line, true, 0, [], []⟩).ctxFix else true) = true := by
    cases rb with
    | false => rfl
    | true => simp only [if_true]; rw [foldl_lineStep_ctx]; exact h rfl
  simp only [hc, Bool.not_true, Bool.false_eq_true, if_false]
  cases isLast <;> simp

/-- …and when it ends on the report context: nothing at all. -/
theorem nextLine_written_report (k : Nat) (rs : List XRule) (o : Out) (n : Nat) (line : String) (isLast : Bool)
    (h : endCtx k rs = false) :
    (nextLineG true k rs o n line isLast).written = o.written := by
  unfold nextLineG lineEnd
  have hc : (rs.foldl (lineStep k n) ⟨line, true, 0, [], []⟩).ctxFix = false := by
    rw [foldl_lineStep_ctx]; exact h
  simp [hc]

theorem linesLoop_written_report (k : Nat) (rs : List XRule) (h : endCtx k rs = false) :
    ∀ (ls : List String) (o : Out) (n : Nat), (linesLoopG true k rs o n ls).written = o.written
  | [], _, _ => rfl
  | [l], o, n => by simp only [linesLoopG]; exact nextLine_written_report k rs o n l true h
  | l :: l' :: ls, o, n => by
    simp only [linesLoopG]
    rw [linesLoop_written_report k rs h (l' :: ls), nextLine_written_report k rs o n l false h]

/-- Lines joined by newlines (what a file with these lines contains). -/
def joinLines : List String → String
  | [] => ""
  | [l] => l
  | l :: ls => l ++ "\n" ++ joinLines ls

theorem linesLoop_written_id (rb : Bool) (k : Nat) (rs : List XRule) (hc : rb = true → endCtx k rs = true) (hn : NoLineFix k rs) :
    ∀ (ls : List String) (o : Out) (n : Nat),
    (linesLoopG rb k rs o n ls).written = o.written ++ joinLines ls ∧
    (linesLoopG rb k rs o n ls).records = o.records
  | [], o, _ => by simp [linesLoopG, joinLines]
  | [l], o, n => by
    simp only [linesLoopG]
    have hw := nextLine_written_fix rb k rs o n l true hc
    have hid := foldl_lineStep_id k n rs ⟨l, true, 0, [], []⟩ hn
    refine ⟨by rw [hw, hid.1]; simp [joinLines], ?_⟩
    unfold nextLineG lineEnd
    simp only [hid.2]
    split <;> (try split) <;> simp
  | l :: l' :: ls, o, n => by
    simp only [linesLoopG]
    have ih := linesLoop_written_id rb k rs hc hn (l' :: ls) (nextLineG rb k rs o n l false) (n + 1)
    have hw := nextLine_written_fix rb k rs o n l false hc
    have hid := foldl_lineStep_id k n rs ⟨l, true, 0, [], []⟩ hn
    have hr : (nextLineG rb k rs o n l false).records = o.records := by
      unfold nextLineG lineEnd
      simp only [hid.2]
      split <;> (try split) <;> simp
    refine ⟨?_, ih.2.trans hr⟩
    rw [ih.1, hw, hid.1]
    simp [joinLines, String.append_assoc]

end Verif.Model.FixSched

namespace Verif.Model.FixSched

/-- The call a rule receives for one line of a fix pass: fix-list rules see the real line number in
fix mode; collect-list rules see the report context, whose `line_number` is still its initial 0. -/
def lineCall (k n : Nat) (text : String) (r : XRule) : Log :=
  if r.hasLine then
    (match bindOf k r with
     | none => []
     | some .fix => [(r.id, Call.line n text true)]
     | some .report => [(r.id, Call.line 0 text false)])
  else []

theorem lineStep_log (k n : Nat) (st : LineSt) (r : XRule) :
    (lineStep k n st r).log = st.log ++ lineCall k n st.line r := by
  unfold lineStep lineCall
  by_cases h : r.hasLine
  · simp only [h, Bool.not_true, Bool.false_eq_true, if_false, if_true]
    cases hb : bindOf k r with
    | none => simp
    | some b =>
      cases b with
      | fix => simp only; split <;> rfl
      | report => simp only; split <;> rfl
  · simp [h]

/-- Each rule is called at most once per line, in plug-in order: the log of one line is the
concatenation of the per-rule calls (with the text as rewritten so far). -/
theorem foldl_lineStep_log (k n : Nat) : ∀ (rs : List XRule) (st : LineSt),
    ∃ texts : List String, texts.length = rs.length ∧
      (rs.foldl (lineStep k n) st).log = st.log ++ (List.zipWith (fun t r => lineCall k n t r) texts rs).flatten
  | [], st => ⟨[], rfl, by simp⟩
  | r :: rs, st => by
    obtain ⟨ts, hl, he⟩ := foldl_lineStep_log k n rs (lineStep k n st r)
    refine ⟨st.line :: ts, by simp [hl], ?_⟩
    simp only [List.foldl_cons, he, lineStep_log, List.zipWith_cons_cons, List.flatten_cons, List.append_assoc]

end Verif.Model.FixSched
