/-
  Helper lemmas for Verif.Props.C06: trailing white space, `detab`, the line fixes.
-/
import Verif.Model.LineRules
namespace Verif.Model.LineRules

/-! ## countWhile / trailing white space -/
theorem countWhile_le (p : Char → Bool) (l : List Char) : countWhile p l ≤ l.length := by
  induction l with
  | nil => simp [countWhile]
  | cons c cs ih => simp only [countWhile]; split <;> simp <;> omega

theorem wsLen_le (l : Line) : wsLen l ≤ l.length := by
  have := countWhile_le isWs l.reverse
  simpa [wsLen] using this

theorem countWhile_all {p : Char → Bool} {l : List Char} (h : ∀ c ∈ l, p c = true) :
    countWhile p l = l.length := by
  induction l with
  | nil => rfl
  | cons c cs ih =>
    simp only [countWhile, h c (by simp), ↓reduceIte, List.length_cons]
    rw [ih (fun d hd => h d (by simp [hd]))]; omega

theorem countWhile_append_of_all {p : Char → Bool} {w r : List Char} (h : ∀ c ∈ w, p c = true) :
    countWhile p (w ++ r) = w.length + countWhile p r := by
  induction w with
  | nil => simp
  | cons c cs ih =>
    simp only [List.cons_append, countWhile, h c (by simp), ↓reduceIte, List.length_cons]
    rw [ih (fun d hd => h d (by simp [hd]))]; omega

theorem countWhile_head_false {p : Char → Bool} {c : Char} {r : List Char} (h : p c = false) :
    countWhile p (c :: r) = 0 := by simp [countWhile, h]

/-- the first `countWhile p l` elements satisfy `p` -/
theorem take_countWhile_all (p : Char → Bool) (l : List Char) : ∀ c ∈ l.take (countWhile p l), p c = true := by
  induction l with
  | nil => simp [countWhile]
  | cons c cs ih =>
    simp only [countWhile]
    split
    · rename_i h
      intro d hd
      rw [Nat.add_comm, List.take_succ_cons] at hd
      rcases List.mem_cons.mp hd with rfl | h2
      · exact h
      · exact ih d h2
    · simp

/-- what follows the counted prefix does not start with a `p` element -/
theorem drop_countWhile_head (p : Char → Bool) (l : List Char) :
    ∀ c, (l.drop (countWhile p l)).head? = some c → p c = false := by
  induction l with
  | nil => simp [countWhile]
  | cons c cs ih =>
    simp only [countWhile]
    split
    · rename_i h
      intro d hd
      rw [Nat.add_comm, List.drop_succ_cons] at hd
      exact ih d hd
    · rename_i h
      intro d hd
      simp at hd
      subst hd
      simpa using h

/-- decomposition of a line into body and trailing white space -/
theorem line_split (l : Line) : l = l.take (wsIdx l) ++ l.drop (wsIdx l) := (List.take_append_drop _ _).symm

theorem drop_wsIdx_eq (l : Line) : l.drop (wsIdx l) = (l.reverse.take (wsLen l)).reverse := by
  unfold wsIdx
  have h := wsLen_le l
  rw [List.reverse_take]
  simp [List.length_reverse]

theorem drop_wsIdx_all (l : Line) : ∀ c ∈ l.drop (wsIdx l), isWs c = true := by
  rw [drop_wsIdx_eq]
  intro c hc
  have := take_countWhile_all isWs l.reverse c
  simp only [List.mem_reverse] at hc
  exact this hc

theorem length_drop_wsIdx (l : Line) : (l.drop (wsIdx l)).length = wsLen l := by
  have h := wsLen_le l
  simp [wsIdx]; omega

theorem take_wsIdx_eq (l : Line) : l.take (wsIdx l) = (l.reverse.drop (wsLen l)).reverse := by
  unfold wsIdx
  have h := wsLen_le l
  rw [List.reverse_drop]
  simp [List.length_reverse]

/-- the body does not end with white space -/
theorem take_wsIdx_last (l : Line) : ∀ c, (l.take (wsIdx l)).getLast? = some c → isWs c = false := by
  intro c hc
  rw [take_wsIdx_eq, List.getLast?_reverse] at hc
  exact drop_countWhile_head isWs l.reverse c hc

/-- trailing white space of `body ++ w` when `w` is white space and `body` does not end with white space -/
theorem wsLen_append {body w : List Char} (hw : ∀ c ∈ w, isWs c = true)
    (hb : ∀ c, body.getLast? = some c → isWs c = false) : wsLen (body ++ w) = w.length := by
  unfold wsLen
  rw [List.reverse_append, countWhile_append_of_all (by simpa using hw)]
  cases hr : body.reverse with
  | nil => simp [countWhile]
  | cons c cs =>
    have : body.getLast? = some c := by
      rw [← List.head?_reverse, hr]; rfl
    rw [countWhile_head_false (hb c this)]; simp

theorem wsLen_take_wsIdx (l : Line) : wsLen (l.take (wsIdx l)) = 0 := by
  have := wsLen_append (body := l.take (wsIdx l)) (w := []) (by simp) (take_wsIdx_last l)
  simpa using this

theorem wsIdx_take_wsIdx (l : Line) : wsIdx (l.take (wsIdx l)) = (l.take (wsIdx l)).length := by
  have h := wsLen_take_wsIdx l
  generalize l.take (wsIdx l) = t at h
  unfold wsIdx; rw [h]; simp

theorem getLast?_take_wsIdx_ne_space (l : Line) : (l.take (wsIdx l)).getLast? ≠ some ' ' := by
  intro h
  have := take_wsIdx_last l ' ' h
  simp [isWs] at this

theorem wsLen_replicate (n : Nat) : wsLen (List.replicate n ' ') = n := by
  have := wsLen_append (body := []) (w := List.replicate n ' ')
    (by intro c hc; rw [List.mem_replicate] at hc; simp [hc.2, isWs]) (by simp)
  simpa using this

theorem wsIdx_replicate (n : Nat) : wsIdx (List.replicate n ' ') = 0 := by
  simp [wsIdx, wsLen_replicate]

theorem take_add_split (l : Line) (k : Nat) :
    l.take (wsIdx l + k) = l.take (wsIdx l) ++ (l.drop (wsIdx l)).take k := List.take_add

theorem wsLen_take_add (l : Line) (k : Nat) (hk : k ≤ wsLen l) : wsLen (l.take (wsIdx l + k)) = k := by
  rw [take_add_split]
  rw [wsLen_append (fun c hc => drop_wsIdx_all l c (List.mem_of_mem_take hc)) (take_wsIdx_last l)]
  rw [List.length_take, length_drop_wsIdx]; omega

theorem length_take_wsIdx (l : Line) : (l.take (wsIdx l)).length = wsIdx l := by
  have := wsLen_le l
  simp [wsIdx]

theorem wsIdx_take_add (l : Line) (k : Nat) (hk : k ≤ wsLen l) : wsIdx (l.take (wsIdx l + k)) = wsIdx l := by
  have h1 := wsLen_take_add l k hk
  have h2 : (l.take (wsIdx l + k)).length = wsIdx l + k := by
    have := wsLen_le l
    rw [List.length_take]; unfold wsIdx; omega
  unfold wsIdx at *
  omega

/-- H1 of C09 for MD009: the fixed line no longer makes the rule act -/
theorem trig009_fix009Line (c : C009) (x : LCtx) (l : Line) : trig009 c x (fix009Line c x l) = false := by
  unfold fix009Line
  by_cases ht : trig009 c x l = true
  · simp only [ht, ↓reduceIte]
    cases hlp : (listPart c x l).2 with
    | some n =>
      simp only
      -- the line is rewritten to `n` spaces, `n = indent + effBr`
      unfold listPart at hlp
      split at hlp
      · rename_i hc
        cases hli : x.listIndent with
        | none => simp [hli] at hlp
        | some ind =>
          simp only [hli] at hlp
          split at hlp
          · simp at hlp; subst hlp
            unfold trig009 listPart
            simp only [wsIdx_replicate, wsLen_replicate, hli]
            simp only [Bool.and_eq_true, beq_iff_eq] at hc
            simp [hc.1]
          · simp at hlp
      · simp at hlp
    | none =>
      simp only
      have hnl : (listPart c x l).1 = false := by
        unfold trig009 at ht
        simp only [hlp, Option.isSome_none, Bool.or_false, Bool.and_eq_true, Bool.not_eq_true'] at ht
        exact ht.2.1
      split
      · -- everything after the body is removed
        unfold trig009
        have := getLast?_take_wsIdx_ne_space l
        simp [this]
      · rename_i hcond
        simp only [Bool.or_eq_true, decide_eq_true_eq, not_or, Nat.not_lt, Bool.not_eq_true] at hcond
        obtain ⟨⟨hk, _⟩, hstrict⟩ := hcond
        have hw := wsLen_take_add l (effBr c) hk
        have hi := wsIdx_take_add l (effBr c) hk
        have hlp' : listPart c x (l.take (wsIdx l + effBr c)) = (false, none) := by
          unfold listPart at hnl hlp ⊢
          rw [hi, hw]
          split
          · rename_i hc
            simp only [hc, ↓reduceIte] at hnl hlp
            cases hli : x.listIndent with
            | none => rfl
            | some ind => simp [hli] at hnl
          · rfl
        unfold trig009
        rw [hlp', hw]
        simp [hstrict]
  · simp only [ht]
    simpa using ht

theorem fix009Line_of_not_trig (c : C009) (x : LCtx) (l : Line) (h : trig009 c x l = false) :
    fix009Line c x l = l := by simp [fix009Line, h]

theorem fix009Line_idem (c : C009) (x : LCtx) (l : Line) :
    fix009Line c x (fix009Line c x l) = fix009Line c x l :=
  fix009Line_of_not_trig c x _ (trig009_fix009Line c x l)

def nonWs (l : Line) : Line := l.filter (fun ch => !isWs ch)

theorem nonWs_of_all_ws {w : Line} (h : ∀ ch ∈ w, isWs ch = true) : nonWs w = [] := by
  simp only [nonWs, List.filter_eq_nil_iff]
  intro a ha; simp [h a ha]

theorem nonWs_take_wsIdx (l : Line) : nonWs (l.take (wsIdx l)) = nonWs l := by
  conv => rhs; rw [line_split l]
  simp only [nonWs, List.filter_append]
  have := nonWs_of_all_ws (drop_wsIdx_all l)
  simp only [nonWs] at this
  rw [this]; simp

theorem nonWs_take_add (l : Line) (k : Nat) : nonWs (l.take (wsIdx l + k)) = nonWs l := by
  rw [take_add_split]
  have h1 : nonWs ((l.drop (wsIdx l)).take k) = [] :=
    nonWs_of_all_ws (fun ch hc => drop_wsIdx_all l ch (List.mem_of_mem_take hc))
  have h2 := nonWs_take_wsIdx l
  simp only [nonWs, List.filter_append] at *
  rw [h1, h2]; simp

/-- C08 for MD009: the fix changes white space only -/
theorem fix009Line_nonWs (c : C009) (x : LCtx) (l : Line) : nonWs (fix009Line c x l) = nonWs l := by
  unfold fix009Line
  split
  · cases hlp : (listPart c x l).2 with
    | some n =>
      simp only
      -- only taken when the whole line is white space
      have hall : wsIdx l = 0 := by
        unfold listPart at hlp
        split at hlp
        · rename_i hc; simp only [Bool.and_eq_true, beq_iff_eq] at hc; exact hc.2
        · simp at hlp
      have hl : nonWs l = [] := by
        apply nonWs_of_all_ws
        have := drop_wsIdx_all l
        rwa [hall, List.drop_zero] at this
      rw [hl]
      apply nonWs_of_all_ws
      intro ch hc; rw [List.mem_replicate] at hc; simp [hc.2, isWs]
    | none =>
      simp only
      split
      · exact nonWs_take_wsIdx l
      · exact nonWs_take_add l _
  · rfl

/-! ## MD010 -/
theorem detabGo_no_tab (col : Nat) (l : Line) : '\t' ∉ detabGo col l := by
  induction l generalizing col with
  | nil => simp [detabGo]
  | cons c cs ih =>
    simp only [detabGo]
    split
    · simp only [List.mem_append, not_or]
      exact ⟨by intro h; rw [List.mem_replicate] at h; exact absurd h.2 (by decide), ih _⟩
    · rename_i h
      simp only [List.mem_cons, not_or]
      exact ⟨by intro e; apply h; simp [← e], ih _⟩

theorem trig010_fix010Line (c : C010) (x : LCtx) (l : Line) : trig010 c x (fix010Line c x l) = false := by
  unfold fix010Line
  by_cases ht : trig010 c x l = true
  · simp only [ht, ↓reduceIte]
    unfold trig010
    have := detabGo_no_tab 0 l
    simp [detab, this]
  · simp only [ht]
    simpa using ht

theorem fix010Line_idem (c : C010) (x : LCtx) (l : Line) :
    fix010Line c x (fix010Line c x l) = fix010Line c x l := by
  have := trig010_fix010Line c x l
  generalize fix010Line c x l = r at *
  unfold fix010Line
  simp [this]

theorem detabGo_nonWs (col : Nat) (l : Line) : nonWs (detabGo col l) = nonWs l := by
  induction l generalizing col with
  | nil => simp [detabGo]
  | cons c cs ih =>
    simp only [detabGo]
    split
    · rename_i h
      have hc : c = '\t' := by simpa using h
      subst hc
      have h1 : nonWs (List.replicate (4 - col % 4) ' ') = [] := by
        apply nonWs_of_all_ws
        intro ch hc; rw [List.mem_replicate] at hc; simp [hc.2, isWs]
      have := ih (col + (4 - col % 4))
      simp only [nonWs, List.filter_append] at *
      rw [h1, this]
      simp [isWs]
    · have := ih (col + 1)
      simp only [nonWs, List.filter_cons] at *
      rw [this]

theorem fix010Line_nonWs (c : C010) (x : LCtx) (l : Line) : nonWs (fix010Line c x l) = nonWs l := by
  unfold fix010Line
  split
  · exact detabGo_nonWs 0 l
  · rfl

/-! ## MD047 -/
theorem scan047_fix047 (ls : List Line) : scan047 (fix047 ls) = none := by
  unfold fix047
  split
  · simp [scan047]
  · simp [scan047]
  · cases h : ls.getLast? with
    | none => simp [scan047, h]
    | some l =>
      simp only
      split
      · simp [scan047, *]
      · simp [scan047]

theorem fix047_of_clean (ls : List Line) (hne : ls ≠ [[]]) (h : scan047 ls = none) : fix047 ls = ls := by
  unfold fix047
  split
  · rfl
  · exact absurd rfl hne
  · cases hl : ls.getLast? with
    | none => rfl
    | some l =>
      simp only
      split
      · rfl
      · rename_i hnot
        simp [scan047, hl, hnot] at h

theorem fix047_idem (ls : List Line) : fix047 (fix047 ls) = fix047 ls := by
  by_cases h : fix047 ls = [[]]
  · -- impossible: the fix never yields the one-empty-line document from anything but itself … which it maps to two lines
    unfold fix047 at h
    split at h
    · simp at h
    · simp at h
    · rename_i h1 h2
      cases hl : ls.getLast? with
      | none => simp [hl] at h; exact absurd h h2
      | some l =>
        simp only [hl] at h
        split at h
        · exact absurd h h2
        · have := congrArg List.length h
          simp at this
          exact absurd this h1
  · exact fix047_of_clean _ h (scan047_fix047 ls)

/-- the fix only ever appends one empty line (= one newline character) -/
theorem fix047_only_newline (ls : List Line) : fix047 ls = ls ∨ fix047 ls = ls ++ [[]] := by
  unfold fix047
  split
  · exact Or.inl rfl
  · exact Or.inr rfl
  · cases ls.getLast? with
    | none => exact Or.inl rfl
    | some l =>
      simp only
      split
      · exact Or.inl rfl
      · exact Or.inr rfl

/-! ## generic: mapping numbered lines -/
def mapLines (f : Nat → Line → Line) (n : Nat) (ls : List Line) : List Line :=
  (numberedFrom n ls).map (fun p => f p.1 p.2)

theorem mapLines_nil (f : Nat → Line → Line) (n : Nat) : mapLines f n [] = [] := rfl
theorem mapLines_cons (f : Nat → Line → Line) (n : Nat) (l : Line) (ls : List Line) :
    mapLines f n (l :: ls) = f n l :: mapLines f (n + 1) ls := rfl

theorem mapLines_append (f : Nat → Line → Line) (n : Nat) (ls ms : List Line) :
    mapLines f n (ls ++ ms) = mapLines f n ls ++ mapLines f (n + ls.length) ms := by
  induction ls generalizing n with
  | nil => simp [mapLines_nil]
  | cons l ls ih =>
    simp only [List.cons_append, mapLines_cons, ih, List.length_cons]
    have : n + 1 + ls.length = n + (ls.length + 1) := by omega
    rw [this]

theorem mapLines_getLast? (f : Nat → Line → Line) (n : Nat) (ls : List Line) :
    (mapLines f n ls).getLast? = match ls.getLast? with
      | some l => some (f (n + ls.length - 1) l)
      | none => none := by
  induction ls generalizing n with
  | nil => rfl
  | cons l ls ih =>
    cases ls with
    | nil => simp [mapLines_cons, mapLines_nil]
    | cons m ms =>
      rw [mapLines_cons, mapLines_cons, List.getLast?_cons_cons, ← mapLines_cons, ih, List.getLast?_cons_cons]
      cases h : (m :: ms).getLast? with
      | none => rfl
      | some x => simp only [List.length_cons]; congr 2; omega

theorem mapLines_length (f : Nat → Line → Line) (n : Nat) (ls : List Line) : (mapLines f n ls).length = ls.length := by
  induction ls generalizing n with
  | nil => rfl
  | cons l ls ih => simp [mapLines_cons, ih]

theorem mapLines_eq_singleton_nil (f : Nat → Line → Line) (hf : ∀ i l, f i l = [] ↔ l = []) (n : Nat) (ls : List Line) :
    mapLines f n ls = [[]] ↔ ls = [[]] := by
  cases ls with
  | nil => simp [mapLines_nil]
  | cons l ls =>
    cases ls with
    | nil => simp [mapLines_cons, mapLines_nil, hf]
    | cons m ms => simp [mapLines_cons]

/-- a line map that keeps empty lines empty and non-empty lines non-empty commutes with the MD047 fix -/
theorem fix047_mapLines (f : Nat → Line → Line) (hf : ∀ i l, f i l = [] ↔ l = []) (ls : List Line) :
    mapLines f 1 (fix047 ls) = fix047 (mapLines f 1 ls) := by
  by_cases h0 : ls = []
  · subst h0; rfl
  by_cases h1 : ls = [[]]
  · subst h1
    have : f 1 [] = [] := (hf 1 []).2 rfl
    have h2 : f 2 [] = [] := (hf 2 []).2 rfl
    simp [fix047, mapLines_cons, mapLines_nil, this, h2]
  have h1' : mapLines f 1 ls ≠ [[]] := fun e => h1 ((mapLines_eq_singleton_nil f hf 1 ls).1 e)
  have h0' : mapLines f 1 ls ≠ [] := by
    intro e; apply h0
    have := congrArg List.length e
    rw [mapLines_length] at this
    exact List.eq_nil_of_length_eq_zero this
  have e1 : fix047 ls = match ls.getLast? with
      | some l => if l.isEmpty then ls else ls ++ [[]]
      | none => ls := by
    unfold fix047
    split
    · exact absurd rfl h0
    · exact absurd rfl h1
    · rfl
  have e2 : fix047 (mapLines f 1 ls) = match (mapLines f 1 ls).getLast? with
      | some l => if l.isEmpty then mapLines f 1 ls else mapLines f 1 ls ++ [[]]
      | none => mapLines f 1 ls := by
    generalize mapLines f 1 ls = ms at h0' h1'
    unfold fix047
    split
    · exact absurd rfl h0'
    · exact absurd rfl h1'
    · rfl
  rw [e1, e2, mapLines_getLast?]
  cases hl : ls.getLast? with
  | none => rfl
  | some l =>
    simp only
    by_cases he : l = []
    · subst he
      have : f ls.length [] = [] := (hf _ []).2 rfl
      simp [this]
    · have : f (1 + ls.length - 1) l ≠ [] := fun e => he ((hf _ l).1 e)
      have hl1 : l.isEmpty = false := by simpa using he
      have hl2 : (f (1 + ls.length - 1) l).isEmpty = false := by simpa using this
      simp only [hl1, hl2, Bool.false_eq_true, ↓reduceIte]
      rw [mapLines_append]
      have : f (1 + ls.length) [] = [] := (hf _ []).2 rfl
      simp [mapLines_cons, mapLines_nil, this]

/-- a line map that keeps empty lines empty creates no MD047 trigger -/
theorem scan047_mapLines (f : Nat → Line → Line) (hf : ∀ i, f i [] = []) (ls : List Line)
    (h : scan047 ls = none) : scan047 (mapLines f 1 ls) = none := by
  unfold scan047 at *
  rw [mapLines_getLast?]
  cases hl : ls.getLast? with
  | none => rfl
  | some l =>
    simp only [hl] at h ⊢
    split at h
    · rename_i he
      have : l = [] := by simpa using he
      subst this
      simp [hf]
    · simp at h

theorem fix009_eq_mapLines (c : C009) (ctx : Nat → LCtx) (ls : List Line) :
    fix009 c ctx ls = mapLines (fun i l => fix009Line c (ctx i) l) 1 ls := rfl
theorem fix010_eq_mapLines (c : C010) (ctx : Nat → LCtx) (ls : List Line) :
    fix010 c ctx ls = mapLines (fun i l => fix010Line c (ctx i) l) 1 ls := rfl

theorem fix009Line_nil (c : C009) (x : LCtx) : fix009Line c x [] = [] := by
  simp [fix009Line, trig009]

theorem detabGo_eq_nil (col : Nat) (l : Line) : detabGo col l = [] ↔ l = [] := by
  cases l with
  | nil => simp [detabGo]
  | cons c cs =>
    simp only [detabGo]
    split
    · simp only [List.append_eq_nil_iff, List.replicate_eq_nil_iff, reduceCtorEq, iff_false, not_and]
      intro h; omega
    · simp

theorem fix010Line_eq_nil (c : C010) (x : LCtx) (l : Line) : fix010Line c x l = [] ↔ l = [] := by
  unfold fix010Line
  split
  · exact detabGo_eq_nil 0 l
  · rfl

/-- characters of the MD009-fixed line: those of the line, or spaces -/
theorem mem_fix009Line (c : C009) (x : LCtx) (l : Line) (ch : Char) (h : ch ∈ fix009Line c x l) : ch ∈ l ∨ ch = ' ' := by
  unfold fix009Line at h
  split at h
  · split at h
    · rw [List.mem_replicate] at h; exact Or.inr h.2
    · split at h
      · exact Or.inl (List.mem_of_mem_take h)
      · exact Or.inl (List.mem_of_mem_take h)
  · exact Or.inl h

/-! ## MD012: the scan state machine = maximal runs -/
/-- `k` further blank lines inside a run: only the counter and the last blank line move -/
theorem foldl_step012_run (max : Nat) (k : Nat) : ∀ (n c : Nat) (o : List Nat) (rest : List Bool),
    (toks012 (n + 1) (List.replicate k true ++ rest)).foldl (step012 max) ⟨c, some n, o⟩ =
      (toks012 (n + 1 + k) rest).foldl (step012 max) ⟨c + k, some (n + k), o⟩ := by
  induction k with
  | zero => intro n c o rest; simp
  | succ k ih =>
    intro n c o rest
    rw [List.replicate_succ, List.cons_append, toks012, List.foldl_cons]
    have hs : step012 max ⟨c, some n, o⟩ (.blank (n + 1)) = ⟨c + 1, some (n + 1), o⟩ := by
      simp [step012]
    rw [hs, ih (n + 1) (c + 1) o rest]
    rw [show n + 1 + 1 + k = n + 1 + (k + 1) by omega, show c + 1 + k = c + (k + 1) by omega,
      show n + 1 + k = n + (k + 1) by omega]

theorem takeWhile_split (fs : List Bool) :
    fs = List.replicate (fs.takeWhile id).length true ++ fs.drop (fs.takeWhile id).length := by
  induction fs with
  | nil => rfl
  | cons b bs ih =>
    cases b with
    | false => simp
    | true => simp only [List.takeWhile_cons, id, ↓reduceIte, List.length_cons, List.replicate_succ, List.cons_append, List.drop_succ_cons]; rw [← ih]

theorem drop_takeWhile_head (fs : List Bool) : (fs.drop (fs.takeWhile id).length).head? ≠ some true := by
  induction fs with
  | nil => simp
  | cons b bs ih =>
    cases b with
    | false => simp
    | true => simpa using ih

/-- the code-shaped scan (counter, last blank line, adjacency test on line numbers, check in
    `completed_file`) reports exactly the last lines of the maximal runs longer than `maximum`. -/
theorem scan012_eq_runs_aux (max : Nat) : ∀ (len : Nat) (fs : List Bool), fs.length ≤ len → ∀ (n : Nat) (l : Option Nat) (o : List Nat),
    (∀ m, l = some m → m + 1 < n) →
    (check012 max ((toks012 n fs).foldl (step012 max) ⟨0, l, o⟩)).out = o ++ runs012 max n fs := by
  intro len
  induction len with
  | zero =>
    intro fs hl n l o _
    have : fs = [] := List.eq_nil_of_length_eq_zero (by omega)
    subst this
    simp [toks012, runs012, check012]
  | succ len ih =>
    intro fs hl n l o hlast
    cases fs with
    | nil => simp [toks012, runs012, check012]
    | cons b bs =>
      cases b with
      | false =>
        rw [toks012, List.foldl_cons, runs012]
        have hs : step012 max ⟨0, l, o⟩ .other = ⟨0, l, o⟩ := by simp [step012]
        rw [hs]
        exact ih bs (by simpa using hl) (n + 1) l o (fun m hm => by have := hlast m hm; omega)
      | true =>
        rw [toks012, List.foldl_cons, runs012]
        -- first blank line of a run
        have hs : step012 max ⟨0, l, o⟩ (.blank n) = ⟨1, some n, o⟩ := by
          unfold step012
          cases l with
          | none => simp
          | some m =>
            have := hlast m rfl
            have hne : n ≠ m + 1 := by omega
            simp [hne, check012]
        rw [hs]
        generalize hk : (bs.takeWhile id).length = k
        have hsplit := takeWhile_split bs
        rw [hk] at hsplit
        have hrest_head := drop_takeWhile_head bs
        rw [hk] at hrest_head
        have hkle : k ≤ bs.length := by rw [← hk]; exact (List.takeWhile_sublist id).length_le
        generalize hrest : bs.drop k = rest at hsplit hrest_head
        have hlen : rest.length + k = bs.length := by
          rw [← hrest, List.length_drop]; omega
        conv => lhs; rw [hsplit]
        rw [foldl_step012_run max k n 1 o rest]
        -- after the run: end of document or another line
        cases rest with
        | nil =>
          simp only [toks012, List.foldl_nil, runs012, List.append_nil]
          unfold check012
          by_cases hgt : 1 + k > max
          · have h2 : k + 1 > max := by omega
            simp [hgt, h2]
          · have h2 : ¬ k + 1 > max := by omega
            simp [hgt, h2]
        | cons c cs =>
          cases c with
          | true => simp at hrest_head
          | false =>
            rw [toks012, List.foldl_cons]
            have hs2 : step012 max ⟨1 + k, some (n + k), o⟩ .other =
                ⟨0, some (n + k), o ++ (if k + 1 > max then [n + k] else [])⟩ := by
              unfold step012 check012
              by_cases hgt : 1 + k > max
              · have h2 : k + 1 > max := by omega
                simp [hgt, h2]
              · have h2 : ¬ k + 1 > max := by omega
                simp [hgt, h2]
            rw [hs2]
            have := ih cs (by simp at hl hlen; omega) (n + 1 + k + 1) (some (n + k))
              (o ++ (if k + 1 > max then [n + k] else [])) (fun m hm => by simp at hm; omega)
            rw [this]
            simp only [List.append_assoc]
            congr 2
            conv => rhs; rw [runs012]
            rw [show n + 1 + k + 1 = n + k + 1 + 1 by omega]

theorem scan012_eq_runs (max : Nat) (fs : List Bool) : scan012 max (toks012 1 fs) = runs012 max 1 fs := by
  have := scan012_eq_runs_aux max fs.length fs (Nat.le_refl _) 1 none [] (by intro m hm; simp at hm)
  simpa [scan012] using this

end Verif.Model.LineRules
