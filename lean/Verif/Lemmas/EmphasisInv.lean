/-
  Invariants of the emphasis loop for EVERY decision policy that pairs only active tokens:
  special ids stay sorted, active tokens are in the list, the nesting automaton (with the "stack empty in front of an
  active special token" side condition) accepts.  Core Lean only.
-/
import Verif.Lemmas.EmphasisStep
namespace Verif.Model.Emphasis

def isActive (stk : List Special) (i : Nat) : Bool := match stk[i]? with | some t => t.active | none => false

/-! ## the nesting automaton -/
theorem nestRun_append (act : Nat → Bool) (S : List Frame) (A B : List Block) :
    nestRun act S (A ++ B) = (nestRun act S A).bind fun T => nestRun act T B := by
  induction A generalizing S with
  | nil => simp [nestRun]
  | cons x A ih =>
    cases x with
    | plain t => simp [nestRun, ih]
    | sp i => simp only [List.cons_append, nestRun]; split <;> simp [ih]
    | es n c => simp [nestRun, ih]
    | ee n c =>
      simp only [List.cons_append, nestRun]
      cases S with
      | nil => simp
      | cons f S' => simp only []; split <;> simp [ih]

theorem nestRun_congr (act act' : Nat → Bool) (S : List Frame) (A : List Block)
    (h : ∀ i ∈ spIds A, act i = act' i) : nestRun act S A = nestRun act' S A := by
  induction A generalizing S with
  | nil => rfl
  | cons x A ih =>
    cases x with
    | plain t => simp only [nestRun]; exact ih _ (by simpa using h)
    | sp i =>
      have hi : act i = act' i := h i (by simp)
      simp only [nestRun, hi]
      rw [ih _ (fun j hj => h j (by simp [hj]))]
    | es n c => simp only [nestRun]; exact ih _ (by simpa using h)
    | ee n c =>
      simp only [nestRun]
      cases S with
      | nil => rfl
      | cons f S' => simp only []; rw [ih _ (by simpa using h)]

/-- a segment whose special tokens are all inactive runs the same way on top of any extra stack -/
theorem nestRun_frame (act act' : Nat → Bool) (S T X : List Frame) (A : List Block)
    (h : ∀ i ∈ spIds A, act' i = false) (hr : nestRun act S A = some T) :
    nestRun act' (S ++ X) A = some (T ++ X) := by
  induction A generalizing S with
  | nil => simp [nestRun] at hr ⊢; rw [hr]
  | cons x A ih =>
    cases x with
    | plain t => simp only [nestRun] at hr ⊢; exact ih _ (by simpa using h) hr
    | sp i =>
      have hi : act' i = false := h i (by simp)
      simp only [nestRun, hi] at hr ⊢
      split at hr
      · cases hr
      · simp; exact ih _ (fun j hj => h j (by simp [hj])) hr
    | es n c =>
      simp only [nestRun] at hr ⊢
      have := ih ((n, c) :: S) (by simpa using h) hr
      simpa using this
    | ee n c =>
      simp only [nestRun] at hr ⊢
      cases S with
      | nil => simp at hr
      | cons f S' =>
        simp only [List.cons_append] at hr ⊢
        split at hr
        · rename_i hf; simp only [hf, and_self, if_true]; exact ih _ (by simpa using h) hr
        · cases hr

/-- dropping the side condition: the plain nesting check accepts whatever the monitored one accepts -/
theorem nestRun_weaken (act : Nat → Bool) (S T : List Frame) (A : List Block) (hr : nestRun act S A = some T) :
    nestRun (fun _ => false) S A = some T := by
  induction A generalizing S with
  | nil => simpa [nestRun] using hr
  | cons x A ih =>
    cases x with
    | plain t => simp only [nestRun] at hr ⊢; exact ih _ hr
    | sp i =>
      simp only [nestRun] at hr ⊢
      split at hr
      · cases hr
      · simp; exact ih _ hr
    | es n c => simp only [nestRun] at hr ⊢; exact ih _ hr
    | ee n c =>
      simp only [nestRun] at hr ⊢
      cases S with
      | nil => simp at hr
      | cons f S' =>
        simp only [] at hr ⊢
        split at hr
        · rename_i hf; simp only [hf, and_self, if_true]; exact ih _ hr
        · cases hr

/-! ## the stack after one pairing, entry by entry -/
theorem getElem?_markStk (stk : List Special) (o c : Nat) (L : Int) (ko kc : Bool) (hne : o ≠ c) (j : Nat) :
    (markStk stk o c L ko kc)[j]? = stk[j]?.map fun t =>
      if j = c then { t with rep := t.rep - L, active := t.active && kc }
      else if j = o then { t with rep := t.rep - L, active := t.active && ko } else t := by
  have hne' : c ≠ o := fun e => hne e.symm
  unfold markStk
  cases ko <;> cases kc <;>
    simp only [deact, reduce, getElem?_upd, if_true, if_false, Bool.false_eq_true] <;>
    by_cases hjc : j = c <;> by_cases hjo : j = o <;>
    (try subst hjc) <;> (try subst hjo) <;> (try exact absurd rfl hne) <;>
    simp [*] <;> cases stk[j]? <;> simp

/-- the stack after a pairing step that deactivated the ids `ids` in between -/
theorem getElem?_step (stk : List Special) (o c : Nat) (L : Int) (ko kc : Bool) (ids : List Nat) (hne : o ≠ c) (j : Nat) :
    (deactAll ids (markStk stk o c L ko kc))[j]? = stk[j]?.map fun t =>
      { t with rep := if j = c ∨ j = o then t.rep - L else t.rep,
               active := t.active && !(decide (j ∈ ids)) && (decide (j = c → kc = true)) && (decide (j = o → ko = true)) } := by
  rw [getElem?_deactAll, getElem?_markStk _ _ _ _ _ _ hne]
  have hne' : c ≠ o := fun e => hne e.symm
  cases hs : stk[j]? with
  | none => simp
  | some t =>
    by_cases hm : j ∈ ids <;> by_cases hjc : j = c <;> by_cases hjo : j = o <;>
      (try subst hjc) <;> (try subst hjo) <;> (try exact absurd rfl hne) <;>
      simp [*]

/-! ## the structural invariant -/
structure Inv (blocks : List Block) (stk : List Special) : Prop where
  sorted : (spIds blocks).Pairwise (· < ·)
  activeIn : ∀ i, isActive stk i = true → i ∈ spIds blocks
  nest : nestRun (isActive stk) [] blocks = some []

theorem decompose (blocks : List Block) (o c : Nat) (hs : (spIds blocks).Pairwise (· < ·))
    (ho : o ∈ spIds blocks) (hc : c ∈ spIds blocks) (hlt : o < c) :
    ∃ P M R, blocks = P ++ .sp o :: M ++ .sp c :: R ∧
      (∀ i ∈ spIds P, i < o) ∧ (∀ i ∈ spIds M, o < i ∧ i < c) ∧ (∀ i ∈ spIds R, c < i) := by
  obtain ⟨P, T, hb⟩ := List.append_of_mem (mem_spIds.mp ho)
  subst hb
  simp only [spIds_append, spIds_cons_sp, List.pairwise_append, List.pairwise_cons, List.mem_cons] at hs
  obtain ⟨_, ⟨hoT, hT⟩, hPo⟩ := hs
  have hcT : c ∈ spIds T := by
    simp only [spIds_append, spIds_cons_sp, List.mem_append, List.mem_cons] at hc
    rcases hc with h | h | h
    · have := hPo c h o (Or.inl rfl); omega
    · omega
    · exact h
  obtain ⟨M, R, hT'⟩ := List.append_of_mem (mem_spIds.mp hcT)
  subst hT'
  simp only [spIds_append, spIds_cons_sp, List.pairwise_append, List.pairwise_cons, List.mem_cons, List.mem_append] at hT hoT
  obtain ⟨_, ⟨hcR, _⟩, hMc⟩ := hT
  refine ⟨P, M, R, by simp, ?_, ?_, ?_⟩
  · intro i hi; exact hPo i hi o (Or.inl rfl)
  · intro i hi; exact ⟨hoT i (Or.inl hi), hMc i hi c (Or.inl rfl)⟩
  · intro i hi; exact hcR i hi

/-- one pairing step in high-level form: what `processPair` does to blocks and stack -/
inductive PairStep (stk : List Special) (o c : Nat) : List Block → List Block → List Special → Prop
  | mk (P M R : List Block) (ot ct : Special) (ch : Char) (tl tl' : Str)
      (ho : stk[o]? = some ot) (hc : stk[c]? = some ct) (hch : ot.text = ch :: tl) (hcc : ct.text = ch :: tl')
      (hoa : ot.active = true) (hca : ct.active = true)
      (hP : ∀ i ∈ spIds P, i < o) (hM : ∀ i ∈ spIds M, o < i ∧ i < c) (hR : ∀ i ∈ spIds R, c < i) (hoc : o < c) :
      PairStep stk o c (P ++ .sp o :: M ++ .sp c :: R)
        (P ++ keepIf (decide (ot.rep - emphLen ot ct ≠ 0)) (.sp o) ++ .es (emphLen ot ct) ch :: M
              ++ .ee (emphLen ot ct) ch :: keepIf (decide (ct.rep - emphLen ot ct ≠ 0)) (.sp c) ++ R)
        (deactAll (spIds M) (markStk stk o c (emphLen ot ct)
              (decide (ot.rep - emphLen ot ct ≠ 0)) (decide (ct.rep - emphLen ot ct ≠ 0))))

theorem isActive_of_get {stk : List Special} {i : Nat} {t : Special} (h : stk[i]? = some t) :
    isActive stk i = t.active := by simp [isActive, h]

/-- `processPair` succeeds and performs a `PairStep` whenever opener and closer are active entries `o < c` with the
    same first character. -/
theorem pairStep_of (blocks : List Block) (stk : List Special) (o c cur : Nat) (ot ct : Special) (ch : Char) (tl tl' : Str)
    (hinv : Inv blocks stk) (hoc : o < c) (ho : stk[o]? = some ot) (hc : stk[c]? = some ct)
    (hoa : ot.active = true) (hca : ct.active = true) (hch : ot.text = ch :: tl) (hcc : ct.text = ch :: tl') :
    ∃ blocks' stk', processPair blocks stk o c cur =
        .ok ⟨blocks', stk', if ct.rep - emphLen ot ct ≠ 0 then cur - 1 else cur⟩ ∧
      PairStep stk o c blocks blocks' stk' := by
  have hoin : o ∈ spIds blocks := hinv.activeIn o (by rw [isActive_of_get ho]; exact hoa)
  have hcin : c ∈ spIds blocks := hinv.activeIn c (by rw [isActive_of_get hc]; exact hca)
  obtain ⟨P, M, R, hb, hP, hM, hR⟩ := decompose blocks o c hinv.sorted hoin hcin hoc
  subst hb
  have hoP : Block.sp o ∉ P := fun h => by have := hP o (mem_spIds.mpr h); omega
  have hcP : Block.sp c ∉ P := fun h => by have := hP c (mem_spIds.mpr h); omega
  have hcM : Block.sp c ∉ M := fun h => by have := hM c (mem_spIds.mpr h); omega
  exact ⟨_, _, processPair_spec P M R stk o c cur ot ct ch tl (by omega) ho hc hch hoP hcP hcM,
    PairStep.mk P M R ot ct ch tl tl' ho hc hch hcc hoa hca hP hM hR hoc⟩

theorem isActive_step (stk : List Special) (o c : Nat) (L : Int) (ko kc : Bool) (ids : List Nat) (hne : o ≠ c) (j : Nat) :
    isActive (deactAll ids (markStk stk o c L ko kc)) j =
      (isActive stk j && !(decide (j ∈ ids)) && decide (j = c → kc = true) && decide (j = o → ko = true)) := by
  simp only [isActive, getElem?_step _ _ _ _ _ _ _ hne]
  cases stk[j]? <;> simp

theorem spIds_keepIf (b : Bool) (i : Nat) : spIds (keepIf b (.sp i)) = if b then [i] else [] := by
  cases b <;> simp [keepIf]

theorem inv_step {stk : List Special} {o c : Nat} {blocks blocks' : List Block} {stk' : List Special}
    (hinv : Inv blocks stk) (h : PairStep stk o c blocks blocks' stk') : Inv blocks' stk' := by
  cases h with
  | mk P M R ot ct ch tl tl' ho hc hch hcc hoa hca hP hM hR hoc =>
  have hne : o ≠ c := by omega
  generalize emphLen ot ct = L at *
  generalize hko : decide (ot.rep - (L : Int) ≠ 0) = ko at *
  generalize hkc : decide (ct.rep - (L : Int) ≠ 0) = kc at *
  have hact := isActive_step stk o c L ko kc (spIds M) hne
  refine ⟨?_, ?_, ?_⟩
  · -- sorted: the new id list is a sublist of the old one
    have hsub : (spIds (P ++ keepIf ko (.sp o) ++ .es L ch :: M ++ .ee L ch :: keepIf kc (.sp c) ++ R)).Sublist
        (spIds (P ++ .sp o :: M ++ .sp c :: R)) := by
      simp only [spIds_append, spIds_cons_sp, spIds_cons_es, spIds_cons_ee, spIds_keepIf, List.append_assoc]
      apply List.Sublist.append (List.Sublist.refl _)
      cases ko <;> cases kc <;> simp
    exact hinv.sorted.sublist hsub
  · intro i hi
    rw [hact] at hi
    simp only [Bool.and_eq_true, Bool.not_eq_true', decide_eq_false_iff_not, decide_eq_true_eq] at hi
    obtain ⟨⟨⟨ha, hnm⟩, hic⟩, hio⟩ := hi
    have hold := hinv.activeIn i ha
    simp only [spIds_append, spIds_cons_sp, spIds_cons_es, spIds_cons_ee, spIds_keepIf, List.mem_append, List.mem_cons] at hold ⊢
    rcases hold with (hp | rfl | hm) | rfl | hr
    · simp [hp]
    · simp [hio rfl]
    · exact absurd hm hnm
    · simp [hic rfl]
    · simp [hr]
  · -- nesting
    have hn := hinv.nest
    have hao : isActive stk o = true := by rw [isActive_of_get ho]; exact hoa
    have hac : isActive stk c = true := by rw [isActive_of_get hc]; exact hca
    -- split the old run
    rw [nestRun_append, nestRun_append] at hn
    cases hp : nestRun (isActive stk) [] P with
    | none => simp [hp] at hn
    | some T1 =>
      simp only [hp, Option.bind_some, nestRun, hao, Bool.true_and] at hn
      cases T1 with
      | cons f T1 => simp at hn
      | nil =>
        simp only [List.isEmpty_nil, Bool.not_true, Bool.false_eq_true, if_false] at hn
        cases hm : nestRun (isActive stk) [] M with
        | none => simp [hm] at hn
        | some T2 =>
          simp only [hm, Option.bind_some, hac, Bool.true_and] at hn
          cases T2 with
          | cons f T2 => simp at hn
          | nil =>
            simp only [List.isEmpty_nil, Bool.not_true, Bool.false_eq_true, if_false] at hn
            -- the new run
            have hP' : nestRun (isActive (deactAll (spIds M) (markStk stk o c L ko kc))) [] P = some [] := by
              rw [← hp]; apply nestRun_congr
              intro i hi
              have := hP i hi
              have hnm : i ∉ spIds M := fun h => by have := hM i h; omega
              have hic : i ≠ c := by omega
              have hio : i ≠ o := by omega
              rw [hact]; simp [hnm, hic, hio]
            have hR' : nestRun (isActive (deactAll (spIds M) (markStk stk o c L ko kc))) [] R = some [] := by
              rw [← hn]; apply nestRun_congr
              intro i hi
              have := hR i hi
              have hnm : i ∉ spIds M := fun h => by have := hM i h; omega
              have hic : i ≠ c := by omega
              have hio : i ≠ o := by omega
              rw [hact]; simp [hnm, hic, hio]
            have hM' : nestRun (isActive (deactAll (spIds M) (markStk stk o c L ko kc))) [(L, ch)] M = some [(L, ch)] := by
              have := nestRun_frame (isActive stk) (isActive (deactAll (spIds M) (markStk stk o c L ko kc))) [] [] [(L, ch)] M
                (fun i hi => by rw [hact]; simp [hi]) hm
              simpa using this
            have hk : ∀ (b : Bool) (i : Nat) (act : Nat → Bool), nestRun act [] (keepIf b (.sp i)) = some [] := by
              intro b i act; cases b <;> simp [keepIf, nestRun]
            simp only [nestRun_append, hP', Option.bind_some, hk, nestRun, hM', and_self, if_true, hR']

end Verif.Model.Emphasis
