/-
  `__handle_list_nesting`: one iteration under the stack guard; the assertion "Container tokens cannot have been filled."
  is reached exactly when the loop runs a second time after a first iteration that closed something.
  `calculate_can_remove_list`: total when a list is on the stack.
-/
import Verif.Lemmas.ListStartsClose
namespace Verif.Model.ListStarts
open Verif.Model.Recognisers (Str)

theorem DocBottom.set {st : Stack} (h : DocBottom st) {i : Nat} (hi : i ≠ 0) (x : Entry) (hx : x.isDoc = false) :
    DocBottom (setAt st i x) := by
  obtain ⟨d, rest, hst, hd, hr⟩ := h
  subst hst
  obtain ⟨j, rfl⟩ : ∃ j, i = j + 1 := ⟨i - 1, by omega⟩
  refine ⟨d, rest.set j x, by simp [setAt], hd, ?_⟩
  intro e he
  rcases List.mem_or_eq_of_mem_set he with h | h
  · exact hr e h
  · rw [h]; exact hx

theorem setAt_length (st : Stack) (i : Nat) (x : Entry) : (setAt st i x).length = st.length := by
  simp [setAt]

/-- one iteration of the loop of `__handle_list_nesting` on a stack with the document at the bottom: it does not raise, the stack
keeps the document at the bottom, and something was closed iff the stack had more than the document on it -/
theorem nestLoop_step {st : Stack} (hD : DocBottom st) (pl cur f adjusted : Nat) (cl : List Str) (hlt : cur < adjusted) :
    ∃ st' cl', DocBottom st' ∧ st'.length ≤ st.length ∧ (st'.length < st.length ↔ 2 ≤ st.length) ∧
      nestLoop pl cur (f + 1) adjusted st false cl =
        nestLoop pl cur f (adjusted - 1) st' (decide (st'.length < st.length)) cl' := by
  obtain ⟨lbi, hlbi, hlt1⟩ := findLastBq_ok hD
  have hlen := hD.ne_nil
  have hst1 := closeTo_eq hD lbi
  have hD1 : DocBottom (st.take (max lbi 1)) := hD.take _ (by omega)
  have hl1 : (st.take (max lbi 1)).length = max lbi 1 := by rw [List.length_take]; omega
  obtain ⟨top, htop⟩ := negAt_one_ok (st := st.take (max lbi 1)) (by omega)
  obtain ⟨lbi2, hlbi2, hlt2⟩ := findLastBq_ok hD1
  have hclosed : (st.take (max lbi 1)).length < st.length ↔ 2 ≤ st.length := by rw [hl1]; omega
  by_cases hb : (lbi2 ≠ 0 && (top.isDoc || (!top.isDoc && pl == top.mtLine) || top.isBq)) = true
  · have hb' := hb
    simp only [Bool.and_eq_true, decide_eq_true_eq] at hb'
    have h20 : lbi2 ≠ 0 := by simpa using hb'.1
    have hlbi0 : lbi ≠ 0 := by rw [hl1] at hlt2; omega
    have hprev : st[lbi].isDoc = false := hD.notdoc hlbi0 (List.getElem?_eq_getElem hlt1)
    have hcur : ((st.take (max lbi 1))[lbi2]).isDoc = false := hD1.notdoc h20 (List.getElem?_eq_getElem hlt2)
    have key : ∃ x cl', nestLoop pl cur (f + 1) adjusted st false cl =
        nestLoop pl cur f (adjusted - 1) (setAt (st.take (max lbi 1)) lbi2 x)
          (decide ((st.take (max lbi 1)).length < st.length)) cl' ∧ x.isDoc = false := by
      exact ⟨{ (st.take (max lbi 1))[lbi2] with
          lead := addLead (if lbi2 == lbi && !decide ((st.take (max lbi 1)).length < st.length) then
              (removeLastLead st[lbi].lead).2 else (st.take (max lbi 1))[lbi2].lead) (removeLastLead st[lbi].lead).1 },
        _, by
          conv => lhs; unfold nestLoop
          rw [if_pos hlt]
          simp only [Bool.false_eq_true, ↓reduceIte, hlbi, bind_ok, stackAt_ok hlt1, hst1, htop, hlbi2]
          rw [if_pos hb, stackAt_ok hlt2]
          simp only [bind_ok, hprev, Bool.false_eq_true, ↓reduceIte]
          rfl, hcur⟩
    obtain ⟨x, cl', hkey, hx⟩ := key
    refine ⟨_, cl', hD1.set h20 x hx, ?_, ?_, ?_⟩
    · rw [setAt_length, hl1]; omega
    · rw [setAt_length]; exact hclosed
    · rw [setAt_length]; exact hkey
  · have key : ∃ cl', nestLoop pl cur (f + 1) adjusted st false cl =
        nestLoop pl cur f (adjusted - 1) (st.take (max lbi 1)) (decide ((st.take (max lbi 1)).length < st.length)) cl' := by
      exact ⟨_, by
        conv => lhs; unfold nestLoop
        rw [if_pos hlt]
        simp only [Bool.false_eq_true, ↓reduceIte, hlbi, bind_ok, stackAt_ok hlt1, hst1, htop, hlbi2]
        rw [if_neg hb]⟩
    obtain ⟨cl', hkey⟩ := key
    exact ⟨st.take (max lbi 1), cl', hD1, by rw [hl1]; omega, hclosed, hkey⟩

theorem nestLoop_zero (pl cur adjusted : Nat) (st : Stack) (b : Bool) (cl : List Str) :
    nestLoop pl cur 0 adjusted st b cl = .ok (adjusted, st, b, cl) := rfl

theorem nestLoop_done (pl cur f adjusted : Nat) (st : Stack) (b : Bool) (cl : List Str) (h : ¬ cur < adjusted) :
    nestLoop pl cur f adjusted st b cl = .ok (adjusted, st, b, cl) := by
  cases f with
  | zero => rfl
  | succ f => unfold nestLoop; rw [if_neg h]

theorem nestLoop_assert (pl cur f adjusted : Nat) (st : Stack) (cl : List Str) (h : cur < adjusted) :
    nestLoop pl cur (f + 1) adjusted st true cl = .error .assertion := by
  unfold nestLoop
  rw [if_pos h]
  rfl

/-- `__handle_list_nesting` does nothing when the counts agree -/
theorem handleListNesting_noop (st : Stack) (cur sc pl : Nat) (h : sc ≤ cur) :
    handleListNesting st cur sc pl = .ok ⟨st, false, cur, sc, []⟩ := by
  unfold handleListNesting
  rw [nestLoop_done _ _ _ _ _ _ _ (by omega)]
  rfl

/-- one block quote to drop: no exception -/
theorem handleListNesting_one {st : Stack} (hD : DocBottom st) (cur sc pl : Nat) (h : sc = cur + 1) :
    ∃ r, handleListNesting st cur sc pl = .ok r := by
  unfold handleListNesting
  have : sc - cur = 0 + 1 := by omega
  rw [this]
  obtain ⟨st', cl', -, -, -, hstep⟩ := nestLoop_step hD pl cur 0 sc [] (by omega)
  rw [hstep, nestLoop_zero]
  exact ⟨_, rfl⟩

/-- **two or more block quotes to drop: the assertion** — the second iteration finds the close tokens of the first -/
theorem handleListNesting_two {st : Stack} (hD : DocBottom st) (cur sc pl : Nat) (h : cur + 2 ≤ sc) (hl : 2 ≤ st.length) :
    handleListNesting st cur sc pl = .error .assertion := by
  unfold handleListNesting
  obtain ⟨k, hk⟩ : ∃ k, sc - cur = k + 1 + 1 := ⟨sc - cur - 2, by omega⟩
  rw [hk]
  obtain ⟨st', cl', -, -, hcl, hstep⟩ := nestLoop_step hD pl cur (k + 1) sc [] (by omega)
  rw [hstep, decide_eq_true (hcl.mpr hl), nestLoop_assert _ _ _ _ _ _ (by omega)]
  rfl

/-! ## `calculate_can_remove_list` -/

theorem downToList_ok (st : Stack) : ∀ (i : Nat), i < st.length →
    ∃ j, downToList st i = .ok j ∧ j ≤ i ∧ (j = 0 ∨ ∃ e, st[j]? = some e ∧ e.isList = true) := by
  intro i
  induction i with
  | zero => intro _; exact ⟨0, rfl, Nat.le_refl _, Or.inl rfl⟩
  | succ i ih =>
    intro hi
    unfold downToList
    rw [List.getElem?_eq_getElem hi]
    simp only
    split
    · next hl => exact ⟨i + 1, rfl, Nat.le_refl _, Or.inr ⟨_, List.getElem?_eq_getElem hi, hl⟩⟩
    · obtain ⟨j, hj, hle, hp⟩ := ih (by omega)
      exact ⟨j, hj, by omega, hp⟩

/-- a list at a positive index stops the downward search above 0 -/
theorem downToList_pos (st : Stack) (k : Nat) (e : Entry) (hk : st[k]? = some e) (hl : e.isList = true) (hk0 : k ≠ 0) :
    ∀ (i : Nat), k ≤ i → i < st.length → ∃ j, downToList st i = .ok j ∧ j ≠ 0 := by
  intro i
  induction i with
  | zero => intro h; omega
  | succ i ih =>
    intro hki hi
    unfold downToList
    rw [List.getElem?_eq_getElem hi]
    simp only
    split
    · exact ⟨i + 1, rfl, by omega⟩
    · next hnl =>
      by_cases hke : k = i + 1
      · subst hke
        rw [List.getElem?_eq_getElem hi] at hk
        injection hk with hk
        rw [hk] at hnl
        exact absurd hl hnl
      · exact ih (by omega) (by omega)

/-- **`calculate_can_remove_list` is total when a list token is on the stack above the document** (what
`__process_eligible_list_start` guarantees: it is called with the last list token in hand) -/
theorem canRemoveList_total (st : Stack) (k : Nat) (e : Entry) (hk : st[k]? = some e) (hl : e.isList = true) (hk0 : k ≠ 0)
    (cs : Nat) : ∃ b, canRemoveList st cs = .ok b := by
  have hklt : k < st.length := by
    by_cases h : k < st.length
    · exact h
    · rw [List.getElem?_eq_none (by omega)] at hk; cases hk
  unfold canRemoveList
  by_cases h2 : st.length ≤ 2
  · rw [if_pos h2]; exact ⟨_, rfl⟩
  · rw [if_neg h2]
    obtain ⟨si, hsi, hsi0⟩ := downToList_pos st k e hk hl hk0 (st.length - 1) (by omega) (by omega)
    obtain ⟨si', hsi', hle, hp⟩ := downToList_ok st (st.length - 1) (by omega)
    rw [hsi] at hsi'
    injection hsi' with hsi'
    subst hsi'
    rcases hp with hp | ⟨e1, he1, hl1⟩
    · exact absurd hp hsi0
    · have hsilt : si < st.length := by omega
      rw [hsi]
      simp only [bind_ok, beq_iff_eq, hsi0, ↓reduceIte, pure_eq]
      rw [stackAt_ok hsilt]
      rw [List.getElem?_eq_getElem hsilt] at he1
      injection he1 with he1
      simp only [bind_ok, he1, hl1, Bool.not_true, Bool.false_eq_true, ↓reduceIte]
      obtain ⟨s2, hs2, hle2, -⟩ := downToList_ok st (si - 1) (by omega)
      rw [hs2]
      simp only [bind_ok]
      by_cases hs20 : s2 = 0
      · subst hs20; exact ⟨_, rfl⟩
      · rw [if_neg hs20, stackAt_ok (by omega)]
        exact ⟨_, rfl⟩

/-! ## `pre_list` -/

theorem handleListNesting_total {st : Stack} (hD : DocBottom st) (cur sc pl : Nat) (h : sc ≤ cur + 1) :
    ∃ r, handleListNesting st cur sc pl = .ok r := by
  by_cases h0 : sc ≤ cur
  · exact ⟨_, handleListNesting_noop st cur sc pl h0⟩
  · exact handleListNesting_one hD cur sc pl (by omega)

/-- the values `pre_list` computes before it looks at the stack -/
def preIndents (line : Str) (me : Nat) (ews : Str) (mwm1 : Nat) (adjWs : Str) (depth : Nat) : Indents :=
  calcIndents (afterWs line (me + 1)) line.length mwm1
    (Recognisers.calcLength (Recognisers.slice line (me + 1) (afterWs line (me + 1))) (me + 1))
    (Recognisers.calcLength ews 0) adjWs depth

/-- **`pre_list` returns**, and what it returns: the computed indents, or `-1` ("BAIL!") when a fenced / HTML block is open and no
list is on the stack -/
theorem preList_total {st : Stack} (hD : DocBottom st) (line : Str) (me : Nat) (ews : Str) (mwm1 cur sc : Nat) (adjWs : Str)
    (pl depth : Nat) (hm : me < line.length) (hsc : sc ≤ cur + 1) :
    ∃ r, preList st line me ews mwm1 cur sc adjWs pl depth = .ok r ∧ r.wsBefore = Recognisers.calcLength ews 0 ∧
      r.remaining = (preIndents line me ews mwm1 adjWs depth).remaining ∧
      r.wsAfter = (preIndents line me ews mwm1 adjWs depth).wsAfter ∧
      ((r.indent = (preIndents line me ews mwm1 adjWs depth).indent ∧ r.afterIdx = ((afterWs line (me + 1) : Nat) : Int)) ∨
        (r.indent = -1 ∧ r.afterIdx = -1 ∧ (findLastList st).isNone = true ∧
          ∃ top, negAt st 1 = .ok top ∧ (top.kind == .html || top.kind == .fenced) = true)) := by
  obtain ⟨top, htop⟩ := negAt_one_ok hD.ne_nil
  obtain ⟨nr, hnr⟩ := handleListNesting_total hD cur sc pl hsc
  unfold preList
  rw [calcWsValues_eval hm]
  simp only [bind_ok]
  unfold checkForListNesting
  rw [htop]
  simp only [bind_ok]
  split
  · next hk =>
    rw [hnr]
    simp only [bind_ok]
    split
    · next hn => exact ⟨_, rfl, rfl, rfl, rfl, Or.inr ⟨rfl, rfl, hn, top, rfl, hk⟩⟩
    · exact ⟨_, rfl, rfl, rfl, rfl, Or.inl ⟨rfl, rfl⟩⟩
  · split
    · exact ⟨_, rfl, rfl, rfl, rfl, Or.inl ⟨rfl, rfl⟩⟩
    · rw [hnr]
      exact ⟨_, rfl, rfl, rfl, rfl, Or.inl ⟨rfl, rfl⟩⟩

theorem preList_outside (st : Stack) (line : Str) (me : Nat) (ews : Str) (mwm1 cur sc : Nat) (adjWs : Str) (pl depth : Nat)
    (hm : line.length ≤ me) : preList st line me ews mwm1 cur sc adjWs pl depth = .error .assertion := by
  unfold preList
  rw [calcWsValues_err hm]
  rfl

theorem preList_nesting_assert {st : Stack} (hD : DocBottom st) (hfree : findLastList st = none) (line : Str) (me : Nat) (ews : Str)
    (mwm1 cur sc : Nat) (adjWs : Str) (pl depth : Nat) (hm : me < line.length) (hsc : cur + 2 ≤ sc) (hl : 2 ≤ st.length) :
    preList st line me ews mwm1 cur sc adjWs pl depth = .error .assertion := by
  obtain ⟨top, htop⟩ := negAt_one_ok hD.ne_nil
  unfold preList
  rw [calcWsValues_eval hm]
  simp only [bind_ok]
  unfold checkForListNesting
  rw [htop, handleListNesting_two hD cur sc pl hsc hl, hfree]
  simp only [bind_ok]
  split <;> rfl

end Verif.Model.ListStarts
