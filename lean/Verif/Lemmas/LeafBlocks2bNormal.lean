/-
  Lemmas for `html_start_spec1_partial` / `html_start_spec6_partial` (Props/LeafBlocks2b): the tag name
  `__determine_html_block_type` cuts out of the line (`collect_until_one_of_characters(line, i, " >")`, lower-cased with
  `str.lower`) against the specification's "begins with the string NAME (case-insensitive) followed by …".
-/
import Verif.Lemmas.LeafBlocks2bSpecial
namespace Verif.Model.LeafBlocks2
open Verif.Model.Recognisers Verif.Model.InlineRecog
open Verif.Model.HtmlBlockSpec (cond1 cond2 cond3 cond4 cond5 cond6 gfm029 cm031 startOfText startOfLine indentOf beginsCI follow1 follow6 lower)

/-- the characters `collect_until_one_of_characters(…, " >")` runs over -/
def p1 (d : Char) : Bool := !([' ', '>'] : Str).contains d

/-- the text after the collected name: end of line, or one of the two stop characters -/
def stop1 : Str → Bool
  | [] => true
  | c :: _ => !p1 c

theorem p1_iff (c : Char) : p1 c = true ↔ c ≠ ' ' ∧ c ≠ '>' := by simp [p1]

/-- for a lower-case ASCII letter `x` other than `k`: "`c` is not a stop character and `str.lower` maps it to `x`" is "`c` is `x`
ASCII case-insensitively" (`k` is excluded because of U+212A) -/
theorem lower_iff (c x : Char) (hx : HtmlBlockSpec.isLower x = true) (hk : x ≠ 'k') :
    (p1 c = true ∧ pyLowerChar c = x) ↔ (lower c == x) = true := by
  have hxr : 97 ≤ x.toNat ∧ x.toNat ≤ 122 := by simpa [HtmlBlockSpec.isLower] using hx
  by_cases hu : 65 ≤ c.toNat ∧ c.toNat ≤ 90
  · have e1 : pyLowerChar c = Char.ofNat (c.toNat + 32) := by unfold pyLowerChar; rw [if_pos hu]
    have e2 : lower c = Char.ofNat (c.toNat + 32) := by
      unfold lower HtmlBlockSpec.isUpper; rw [if_pos (by simp [hu])]
    have hp : p1 c = true := by
      rw [p1_iff]; constructor <;> (intro h; subst h; exact absurd hu (by decide))
    rw [e1, e2]; simp [hp]
  · have e2 : lower c = c := by
      unfold lower HtmlBlockSpec.isUpper; rw [if_neg]
      simp only [Bool.and_eq_true, decide_eq_true_eq]; exact hu
    rw [e2]
    by_cases hK : c = KELVIN
    · subst hK
      have e1 : pyLowerChar KELVIN = 'k' := by decide
      rw [e1]
      constructor
      · rintro ⟨_, h⟩; exact absurd h.symm hk
      · intro h
        have := eq_of_beq h
        subst this
        exact absurd hxr (by decide)
    · have e1 : pyLowerChar c = c := by
        unfold pyLowerChar; rw [if_neg hu, if_neg]
        simpa using hK
      rw [e1]
      constructor
      · rintro ⟨_, h⟩; simp [h]
      · intro h
        have := eq_of_beq h
        subst this
        refine ⟨?_, rfl⟩
        rw [p1_iff]; constructor <;> (intro h; subst h; exact absurd hxr (by decide))

/-- the lower-cased collected name is `n` iff the text begins with `n` (ASCII case-insensitively) and the name ends there -/
theorem takeWhile_name (n : Str) (hn : ∀ x ∈ n, HtmlBlockSpec.isLower x = true ∧ x ≠ 'k') : ∀ r : Str,
    (pyLower (r.takeWhile p1) = n) ↔ (beginsCI n r = true ∧ stop1 (r.drop n.length) = true) := by
  induction n with
  | nil =>
    intro r
    cases r with
    | nil => simp [pyLower, beginsCI, stop1]
    | cons c cs =>
      simp only [List.takeWhile_cons, beginsCI, List.length_nil, List.drop_zero, stop1, true_and]
      by_cases hp : p1 c = true
      · simp [hp, pyLower]
      · simp [hp, pyLower]
  | cons x xs ih =>
    intro r
    cases r with
    | nil => simp [pyLower, beginsCI]
    | cons c cs =>
      have hx := hn x (List.mem_cons_self ..)
      have ih' := ih (fun y hy => hn y (List.mem_cons_of_mem _ hy)) cs
      have hc := lower_iff c x hx.1 hx.2
      simp only [List.takeWhile_cons, beginsCI, List.length_cons, List.drop_succ_cons, Bool.and_eq_true]
      by_cases hp : p1 c = true
      · rw [if_pos hp]
        simp only [pyLower, List.map_cons, List.cons.injEq]
        constructor
        · rintro ⟨h1, h2⟩
          obtain ⟨b, c'⟩ := ih'.mp h2
          exact ⟨⟨hc.mp ⟨hp, h1⟩, b⟩, c'⟩
        · rintro ⟨⟨h1, b⟩, c'⟩
          exact ⟨(hc.mpr h1).2, ih'.mpr ⟨b, c'⟩⟩
      · rw [if_neg hp]
        constructor
        · intro h; simp [pyLower] at h
        · rintro ⟨⟨h1, _⟩, _⟩; exact absurd (hc.mpr h1).1 hp

theorem follow1_stop1 (b : Str) (h : TAB ∉ b) : follow1 b = stop1 b := by
  cases b with
  | nil => rfl
  | cons c t =>
    have hc : c ≠ '\t' := by intro e; subst e; exact h (List.mem_cons_self ..)
    have : (c == '\t') = false := beq_eq_false_iff_ne.mpr hc
    simp [follow1, stop1, p1, HtmlBlockSpec.isSpTab, this]
    rfl

theorem notMem_drop {c : Char} {l : Str} (h : c ∉ l) (n : Nat) : c ∉ l.drop n :=
  fun hm => h (List.mem_of_mem_drop hm)

theorem block1_029 : gfm029.block1 = [['p', 'r', 'e'], ['s', 'c', 'r', 'i', 'p', 't'], ['s', 't', 'y', 'l', 'e']] := by decide

/-- **closed form of start condition 1 on a tab-free text**: the lower-cased name the code collects is in
`__html_block_1_start_tag_names` iff the specification's start condition 1 (0.29) holds -/
theorem cond1_closed (r : Str) (hnt : TAB ∉ r) :
    block1Names.contains (pyLower (r.takeWhile p1)) = cond1 gfm029 r := by
  rw [Bool.eq_iff_iff]
  have h1 := takeWhile_name ['p', 'r', 'e'] (by decide) r
  have h2 := takeWhile_name ['s', 'c', 'r', 'i', 'p', 't'] (by decide) r
  have h3 := takeWhile_name ['s', 't', 'y', 'l', 'e'] (by decide) r
  rw [← follow1_stop1 _ (notMem_drop hnt _)] at h1 h2 h3
  unfold cond1
  rw [block1_029]
  simp only [block1Names, List.contains_cons, List.contains_nil, Bool.or_false, Bool.or_eq_true, beq_iff_eq,
    List.any_cons, List.any_nil, Bool.and_eq_true]
  rw [h1, h2, h3]
  simp only [List.length_cons, List.length_nil]
  constructor
  · rintro (h | h | h)
    · exact Or.inr (Or.inl h)
    · exact Or.inl h
    · exact Or.inr (Or.inr h)
  · rintro (h | h | h)
    · exact Or.inr (Or.inl h)
    · exact Or.inl h
    · exact Or.inr (Or.inr h)

/-! ## the line-level recogniser when conditions 2–5 do not hold -/

theorem drop_line (k : Nat) (r : Str) : (List.replicate k SP ++ '<' :: r).drop (k + 1) = r := by
  have : List.replicate k SP ++ '<' :: r = (List.replicate k SP ++ ['<']) ++ r := by simp
  rw [this]; exact List.drop_left' (by simp)

/-- `collect_until_one_of_characters(line, start + 1, " >")` on a line indented by `k` spaces: the name and where it ends -/
theorem collect_line (k : Nat) (r : Str) :
    collectUntilOneOfVerified (List.replicate k SP ++ '<' :: r) (k + 1) [' ', '>'] =
      .ok (k + 1 + (r.takeWhile p1).length, r.takeWhile p1) := by
  rw [collectUntilOneOfVerified_eq _ _ _ (by simp)]
  rw [slice_scanTo]
  unfold scanTo
  rw [drop_line]
  rfl

theorem determineType_normal (k : Nat) (r : Str) (inPara : Bool) (h : checkSpecial r 0 = none) :
    determineType (List.replicate k SP ++ '<' :: r) k inPara =
      match checkNormal (pyLower (r.takeWhile p1)) (List.replicate k SP ++ '<' :: r) (k + 1 + (r.takeWhile p1).length) with
      | .error e => .error e
      | .ok none => .ok none
      | .ok (some t) => if t == 7 && inPara then .ok none else .ok (some (t, pyLower (r.takeWhile p1))) := by
  unfold determineType
  rw [checkSpecial_line, h, collect_line]
  rfl

theorem checkSpecial_range (r : Str) (t : Nat) (h : checkSpecial r 0 = some t) : 2 ≤ t ∧ t ≤ 5 := by
  rw [checkSpecial_closed] at h
  split at h
  · injection h with h; omega
  · split at h
    · injection h with h; omega
    · split at h
      · injection h with h; omega
      · split at h
        · injection h with h; omega
        · cases h

theorem checkNormal_block1 (tag line : Str) (ci : Nat) (h : block1Names.contains tag = true) :
    checkNormal tag line ci = .ok (some 1) := by
  unfold checkNormal; rw [if_pos h]

theorem checkNormal_not_block1 (tag line : Str) (ci : Nat) (t : Nat) (hb : block1Names.contains tag = false)
    (h : checkNormal tag line ci = .ok (some t)) : t = 6 ∨ t = 7 := by
  unfold checkNormal at h
  rw [if_neg (by rw [hb]; exact Bool.false_ne_true)] at h
  split at h
  · cases h
  · split at h
    · injection h with h; injection h with h; exact Or.inl h.symm
    · split at h
      · split at h
        · cases h
        · next idx _ =>
          injection h with h
          split at h
          · rcases sevenTail_cases line idx with h7 | h7 <;> rw [h7] at h
            · injection h with h; exact Or.inr h.symm
            · cases h
          · cases h
      · split at h
        · cases h
        · cases h
        · cases h
        · next idx _ =>
          injection h with h
          rcases sevenTail_cases line idx with h7 | h7 <;> rw [h7] at h
          · injection h with h; exact Or.inr h.symm
          · cases h

/-- `is_html_block` answers kind 1 on a line indented by `k` spaces iff conditions 2–5 fail and the collected name is in the
kind-1 table -/
theorem determineType_one (k : Nat) (r : Str) (inPara : Bool) :
    (determineType (List.replicate k SP ++ '<' :: r) k inPara).map (Option.map (·.1)) = .ok (some 1) ↔
      (checkSpecial r 0 = none ∧ block1Names.contains (pyLower (r.takeWhile p1)) = true) := by
  cases hcs : checkSpecial r 0 with
  | some t' =>
    rw [determineType_special _ _ _ t' (by rw [checkSpecial_line]; exact hcs)]
    have := checkSpecial_range r t' hcs
    simp [Except.map]; omega
  | none =>
    rw [determineType_normal k r inPara hcs]
    cases hb : block1Names.contains (pyLower (r.takeWhile p1)) with
    | true =>
      rw [checkNormal_block1 _ _ _ hb]
      simp [Except.map]
    | false =>
      simp only [Bool.false_eq_true, and_false, iff_false]
      intro h
      cases hn : checkNormal (pyLower (r.takeWhile p1)) (List.replicate k SP ++ '<' :: r) (k + 1 + (r.takeWhile p1).length) with
      | error e => rw [hn] at h; cases h
      | ok o =>
        rw [hn] at h
        cases o with
        | none => simp [Except.map] at h
        | some t =>
          have := checkNormal_not_block1 _ _ _ t hb hn
          simp only at h
          split at h
          · simp [Except.map] at h
          · simp [Except.map] at h; omega

theorem startOfText_one (v : HtmlBlockSpec.Version) (r : Str) (ip : Bool) :
    startOfText v ('<' :: r) ip = some 1 ↔ cond1 v r = true := by
  simp only [startOfText]
  cases cond1 v r
  · simp only [Bool.false_eq_true, if_false, iff_false]
    repeat' split
    all_goals simp
  · simp

theorem checkSpecial_none_of_cond1 (r : Str) (h : cond1 gfm029 r = true) : checkSpecial r 0 = none := by
  rw [checkSpecial_closed]
  have hx := cond1_excl r
  cases c2 : cond2 r <;> cases c3 : cond3 r <;> cases c4 : cond4 gfm029 r <;> cases c5 : cond5 r <;>
    simp only [c2, c3, c4, c5, Bool.or_self, Bool.or_true, Bool.or_false, forall_const] at hx <;>
    first | rfl | (rw [hx.1] at h; cases h)

end Verif.Model.LeafBlocks2
