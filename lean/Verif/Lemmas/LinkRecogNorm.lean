/-
  `normalize_link_label` (faithful model `normalizeLinkLabel`) is the specification's label normalisation
  (LeanMark `normLabel`: strip, collapse internal white space to one space, Unicode case fold), for every label.
-/
import Verif.Lemmas.LinkRecogConform
namespace Verif.Model.LinkRecog
open Verif.Model.Recognisers
open Verif.Model.LeanMark (normLabel collapseWs foldChar)
local notation "isWsL" => Verif.Model.LeanMark.isWsChar

theorem casefoldChar_eq_foldChar (c : Char) : casefoldChar c = foldChar c := by
  unfold casefoldChar foldChar Verif.Model.LeanMark.isUpper
  rfl

/-- `replace_any_of` + "is a space" = the specification's white space test -/
theorem ws_map (c : Char) : ((if nonSpaceWs.contains c then ' ' else c) == ' ') = isWsL c := by
  unfold Verif.Model.LeanMark.isWsChar nonSpaceWs
  simp only [List.contains_cons, List.contains_nil, Bool.or_false]
  by_cases h1 : c = '\t'
  · subst h1; decide
  by_cases h2 : c = '\n'
  · subst h2; decide
  by_cases h3 : c = '\x0b'
  · subst h3; decide
  by_cases h4 : c = '\x0c'
  · subst h4; decide
  by_cases h5 : c = '\r'
  · subst h5; decide
  have e1 : (c == '\t') = false := by simpa using h1
  have e2 : (c == '\n') = false := by simpa using h2
  have e3 : (c == '\x0b') = false := by simpa using h3
  have e4 : (c == '\x0c') = false := by simpa using h4
  have e5 : (c == '\r') = false := by simpa using h5
  simp [e1, e2, e3, e4, e5]

/-- maximal runs of non-white-space characters (`cur` = the run being read, reversed) -/
def wordsGo : Str → Str → List Str
  | [], cur => if cur.isEmpty then [] else [cur.reverse]
  | c :: r, cur =>
    if isWsL c then (if cur.isEmpty then wordsGo r [] else cur.reverse :: wordsGo r [])
    else wordsGo r (c :: cur)

theorem split_filter_eq_words : ∀ (l cur : Str),
    (splitSp (replaceAnyOfSp nonSpaceWs l) cur).filter (fun p => !p.isEmpty) = wordsGo l cur := by
  intro l
  induction l with
  | nil =>
    intro cur
    simp only [replaceAnyOfSp, List.map_nil, splitSp, wordsGo, List.filter_cons, List.filter_nil]
    cases cur <;> simp
  | cons c r ih =>
    intro cur
    unfold replaceAnyOfSp at ih ⊢
    rw [List.map_cons, splitSp, wordsGo, ws_map]
    by_cases hw : isWsL c = true
    · simp only [hw, ↓reduceIte, List.filter_cons, ih]
      cases cur <;> simp
    · simp only [hw, Bool.false_eq_true, ↓reduceIte, ih]
      have : (if nonSpaceWs.contains c = true then ' ' else c) = c := by
        split
        · next h =>
          exfalso; apply hw
          rw [← ws_map]; simp only [h, ↓reduceIte]; rfl
        · rfl
      rw [this]

theorem wordsGo_ne_nil : ∀ (l cur : Str), cur ≠ [] → wordsGo l cur ≠ [] := by
  intro l
  induction l with
  | nil => intro cur hc; have : cur.isEmpty = false := by cases cur <;> simp_all
           simp [wordsGo, this]
  | cons c r ih =>
    intro cur hc
    have : cur.isEmpty = false := by cases cur <;> simp_all
    rw [wordsGo]
    split
    · simp [this]
    · exact ih _ (by simp)

/-- words with a leading space each -/
def lead (ws : List Str) : Str := ws.flatMap (fun w => ' ' :: w)

theorem joinSp_cons (w : Str) (rest : List Str) : joinSp (w :: rest) = w ++ lead rest := by
  induction rest generalizing w with
  | nil => simp [joinSp, lead]
  | cons q ps ih =>
    show w ++ ' ' :: joinSp (q :: ps) = _
    rw [ih q]
    simp [lead]

theorem foldSp : foldChar ' ' = [' '] := by decide

theorem words_collapse : ∀ (l : Str),
    ((lead (wordsGo l [])).flatMap foldChar = collapseWs l true) ∧
    (∀ cur, cur ≠ [] → (joinSp (wordsGo l cur)).flatMap foldChar = cur.reverse.flatMap foldChar ++ collapseWs l false) := by
  intro l
  induction l with
  | nil =>
    refine ⟨by simp [wordsGo, lead, collapseWs], fun cur hc => ?_⟩
    have : cur.isEmpty = false := by cases cur <;> simp_all
    simp [wordsGo, this, joinSp, collapseWs]
  | cons c r ih =>
    obtain ⟨ih1, ih2⟩ := ih
    by_cases hw : isWsL c = true
    · refine ⟨?_, fun cur hc => ?_⟩
      · rw [wordsGo, collapseWs]; simp only [hw, ↓reduceIte, List.isEmpty_nil]; exact ih1
      · have : cur.isEmpty = false := by cases cur <;> simp_all
        rw [wordsGo, collapseWs]
        simp only [hw, ↓reduceIte, this, Bool.false_eq_true, joinSp_cons, List.flatMap_append, ih1]
    · refine ⟨?_, fun cur hc => ?_⟩
      · rw [wordsGo, collapseWs]
        simp only [hw, Bool.false_eq_true, ↓reduceIte]
        have h2 := ih2 [c] (by simp)
        cases hwd : wordsGo r [c] with
        | nil => exact absurd hwd (wordsGo_ne_nil r [c] (by simp))
        | cons w rest =>
          rw [hwd, joinSp_cons] at h2
          simp only [lead, List.flatMap_cons, List.flatMap_append, foldSp] at h2 ⊢
          simp only [List.reverse_cons, List.reverse_nil, List.nil_append, List.flatMap_cons, List.flatMap_nil,
            List.append_nil] at h2
          simp only [List.singleton_append, List.cons_append, List.nil_append, List.cons.injEq, true_and]
          simpa [lead] using h2
      · rw [wordsGo, collapseWs]
        simp only [hw, Bool.false_eq_true, ↓reduceIte]
        rw [ih2 (c :: cur) (by simp)]
        simp

theorem toNat_ofNat_lt (n : Nat) (h : n < 0xD800) : (Char.ofNat n).toNat = n := by
  unfold Char.ofNat
  have hv : n.isValidChar := Or.inl h
  simp only [hv, ↓reduceDIte]
  rfl

theorem isWsL_toNat (d : Char) (h : isWsL d = true) : d.toNat ≤ 32 := by
  unfold Verif.Model.LeanMark.isWsChar at h
  simp only [Bool.or_eq_true, beq_iff_eq] at h
  rcases h with ((((h | h) | h) | h) | h) | h <;> subst h <;> decide

theorem not_ws_ofNat (n : Nat) (h1 : 32 < n) (h2 : n < 0xD800) : isWsL (Char.ofNat n) = false := by
  cases h : isWsL (Char.ofNat n)
  · rfl
  · have := isWsL_toNat _ h; rw [toNat_ofNat_lt n h2] at this; omega

theorem upper_toNat (c : Char) (h : Verif.Model.LeanMark.isUpper c = true) : 65 ≤ c.toNat ∧ c.toNat ≤ 90 := by
  unfold Verif.Model.LeanMark.isUpper at h
  simp only [Bool.and_eq_true, decide_eq_true_eq] at h
  exact ⟨h.1, h.2⟩

/-- the fold of a character is never empty, and contains white space only if the character is white space -/
theorem foldChar_props (c : Char) :
    foldChar c ≠ [] ∧ (∀ d ∈ foldChar c, isWsL d = true → isWsL c = true) := by
  unfold foldChar
  simp only
  split
  · next h =>
    have := upper_toNat c h
    refine ⟨by simp, fun d hd hw => ?_⟩
    simp only [List.mem_singleton] at hd; subst hd
    rw [not_ws_ofNat _ (by omega) (by omega)] at hw; cases hw
  · split
    · split
      · refine ⟨by simp, fun d hd hw => ?_⟩
        simp only [List.mem_singleton] at hd; subst hd
        rw [not_ws_ofNat _ (by omega) (by omega)] at hw; cases hw
      · refine ⟨by simp, fun d hd hw => ?_⟩
        simp only [List.mem_singleton] at hd; subst hd; exact hw
    · split
      · refine ⟨by simp, fun d hd hw => ?_⟩
        simp only [List.mem_cons, List.not_mem_nil, or_false, or_self] at hd; subst hd
        exact absurd hw (by decide)
      · split
        · next h => 
          simp only [Bool.and_eq_true, decide_eq_true_eq] at h
          refine ⟨by simp, fun d hd hw => ?_⟩
          simp only [List.mem_singleton] at hd; subst hd
          rw [not_ws_ofNat _ (by omega) (by omega)] at hw; cases hw
        · split
          · next h =>
            simp only [Bool.and_eq_true, decide_eq_true_eq] at h
            refine ⟨by simp, fun d hd hw => ?_⟩
            simp only [List.mem_singleton] at hd; subst hd
            rw [not_ws_ofNat _ (by omega) (by omega)] at hw; cases hw
          · split
            · refine ⟨by simp, fun d hd hw => ?_⟩
              simp only [List.mem_singleton] at hd; subst hd
              rw [not_ws_ofNat _ (by omega) (by omega)] at hw; cases hw
            · split
              · next h =>
                simp only [Bool.and_eq_true, decide_eq_true_eq] at h
                refine ⟨by simp, fun d hd hw => ?_⟩
                simp only [List.mem_singleton] at hd; subst hd
                rw [not_ws_ofNat _ (by omega) (by omega)] at hw; cases hw
              · split
                · next h =>
                  simp only [Bool.and_eq_true, decide_eq_true_eq] at h
                  refine ⟨by simp, fun d hd hw => ?_⟩
                  simp only [List.mem_singleton] at hd; subst hd
                  rw [not_ws_ofNat _ (by omega) (by omega)] at hw; cases hw
                · refine ⟨by simp, fun d hd hw => ?_⟩
                  simp only [List.mem_singleton] at hd; subst hd; exact hw

theorem collapse_last : ∀ (l : Str) (pend : Bool) (d : Char), (collapseWs l pend).getLast? = some d → isWsL d = false := by
  intro l
  induction l with
  | nil => intro pend d h; simp [collapseWs] at h
  | cons c r ih =>
    intro pend d h
    rw [collapseWs] at h
    by_cases hw : isWsL c = true
    · simp only [hw, ↓reduceIte] at h; exact ih _ _ h
    · simp only [hw, Bool.false_eq_true, ↓reduceIte] at h
      rw [List.getLast?_append] at h
      cases hl : (collapseWs r false).getLast? with
      | some x =>
        rw [hl] at h; simp only [Option.some_or] at h
        injection h with h; subst h
        exact ih _ _ hl
      | none =>
        rw [hl] at h; simp only [Option.none_or] at h
        rw [List.getLast?_append] at h
        obtain ⟨f1, f2⟩ := foldChar_props c
        cases hf : (foldChar c).getLast? with
        | none => rw [List.getLast?_eq_none_iff] at hf; exact absurd hf f1
        | some y =>
          rw [hf] at h; simp only [Option.some_or] at h
          injection h with h; subst h
          have hm := List.mem_of_getLast? hf
          cases hy : isWsL y
          · rfl
          · exact absurd (f2 _ hm hy) hw

theorem dropWhile_id {α : Type} (p : α → Bool) (l : List α) (h : ∀ a, l.head? = some a → p a = false) : l.dropWhile p = l := by
  cases l with
  | nil => rfl
  | cons a t => simp [List.dropWhile_cons, h a rfl]

theorem stripSp_id (x : Str) (h1 : ∀ a, x.head? = some a → (a == ' ') = false)
    (h2 : ∀ a, x.getLast? = some a → (a == ' ') = false) : stripSp x = x := by
  unfold stripSp
  rw [dropWhile_id _ x h1, dropWhile_id _ x.reverse (by rw [List.head?_reverse]; exact h2), List.reverse_reverse]


theorem wordsGo_dropWhile : ∀ (l : Str), wordsGo l [] = wordsGo (l.dropWhile isWsL) [] := by
  intro l
  induction l with
  | nil => rfl
  | cons c r ih =>
    rw [List.dropWhile_cons]
    by_cases hw : isWsL c = true
    · simp only [hw, ↓reduceIte]
      rw [wordsGo]; simp only [hw, ↓reduceIte, List.isEmpty_nil]; exact ih
    · simp only [hw, Bool.false_eq_true, ↓reduceIte]

theorem dropWhile_head {α : Type} (p : α → Bool) (l : List α) (a : α) (t : List α) (h : l.dropWhile p = a :: t) : p a = false := by
  induction l with
  | nil => simp at h
  | cons b r ih =>
    rw [List.dropWhile_cons] at h
    by_cases hb : p b = true
    · simp only [hb, ↓reduceIte] at h; exact ih h
    · simp only [hb, Bool.false_eq_true, ↓reduceIte, List.cons.injEq] at h
      rw [← h.1]; simpa using hb

/-- **`normalize_link_label` = the specification's normalisation**, for every label. -/
theorem normalizeLinkLabel_eq_normLabel (l : Str) : normalizeLinkLabel l = normLabel l := by
  unfold normalizeLinkLabel normLabel
  simp only
  rw [split_filter_eq_words, wordsGo_dropWhile]
  have hfold : ∀ x : Str, x.flatMap casefoldChar = x.flatMap foldChar := by
    intro x; congr 1
  rw [hfold]
  cases hd : l.dropWhile isWsL with
  | nil => simp [wordsGo, joinSp, collapseWs, stripSp]
  | cons c r =>
    have hc : isWsL c = false := dropWhile_head _ l c r hd
    rw [wordsGo]
    simp only [hc, Bool.false_eq_true, ↓reduceIte]
    rw [(words_collapse r).2 [c] (by simp)]
    have e : collapseWs (c :: r) false = foldChar c ++ collapseWs r false := by
      rw [collapseWs]; simp [hc]
    simp only [List.reverse_cons, List.reverse_nil, List.nil_append, List.flatMap_cons, List.flatMap_nil, List.append_nil]
    rw [← e]
    apply stripSp_id
    · intro a ha
      rw [e] at ha
      obtain ⟨f1, f2⟩ := foldChar_props c
      cases hf : foldChar c with
      | nil => exact absurd hf f1
      | cons x xs =>
        rw [hf] at ha; simp only [List.cons_append, List.head?_cons, Option.some.injEq] at ha; subst ha
        cases hx : x == ' '
        · rfl
        · rw [beq_iff_eq] at hx
          have : isWsL x = true := by rw [hx]; decide
          have := f2 x (by rw [hf]; simp) this
          rw [hc] at this; cases this
    · intro a ha
      have := collapse_last _ _ _ ha
      cases hx : a == ' '
      · rfl
      · rw [beq_iff_eq] at hx; rw [hx] at this; exact absurd this (by decide)

/-! ## idempotence -/

theorem isUpper_iff (d : Char) : Verif.Model.LeanMark.isUpper d = true ↔ 65 ≤ d.toNat ∧ d.toNat ≤ 90 := by
  unfold Verif.Model.LeanMark.isUpper
  simp only [Bool.and_eq_true, decide_eq_true_eq]
  exact Iff.rfl

/-- code points that are not the source of any fold rule are fixed -/
theorem foldChar_fixed (m : Nat) (h0 : m < 0xD800) (h1 : ¬ (65 ≤ m ∧ m ≤ 90)) (h2 : m ≠ 0xB5) (h3 : m ≠ 0xDF) (h4 : m ≠ 0x1E9E)
    (h5 : ¬ (0xC0 ≤ m ∧ m ≤ 0xDE)) (h6 : ¬ (0x391 ≤ m ∧ m ≤ 0x3A9)) (h7 : m ≠ 0x3C2) (h8 : ¬ (0x400 ≤ m ∧ m ≤ 0x42F)) :
    foldChar (Char.ofNat m) = [Char.ofNat m] := by
  have ht := toNat_ofNat_lt m h0
  have hu : Verif.Model.LeanMark.isUpper (Char.ofNat m) = false := by
    cases h : Verif.Model.LeanMark.isUpper (Char.ofNat m)
    · rfl
    · rw [isUpper_iff, ht] at h; exact absurd h h1
  unfold foldChar
  simp only [hu, Bool.false_eq_true, ↓reduceIte, ht]
  have e2 : (m == 0xB5) = false := by simpa using h2
  have e3 : (m == 0xDF) = false := by simpa using h3
  have e4 : (m == 0x1E9E) = false := by simpa using h4
  have e7 : (m == 0x3C2) = false := by simpa using h7
  simp only [e2, e3, e4, e7, Bool.false_eq_true, ↓reduceIte, Bool.or_self]
  have c5 : (decide (0xC0 ≤ m) && decide (m ≤ 0xDE) && m != 0xD7) = false := by
    cases h : (decide (0xC0 ≤ m) && decide (m ≤ 0xDE) && m != 0xD7)
    · rfl
    · simp only [Bool.and_eq_true, decide_eq_true_eq] at h; exact absurd ⟨h.1.1, h.1.2⟩ h5
  have c6 : (decide (0x391 ≤ m) && decide (m ≤ 0x3A9) && m != 0x3A2) = false := by
    cases h : (decide (0x391 ≤ m) && decide (m ≤ 0x3A9) && m != 0x3A2)
    · rfl
    · simp only [Bool.and_eq_true, decide_eq_true_eq] at h; exact absurd ⟨h.1.1, h.1.2⟩ h6
  have c8 : (decide (0x410 ≤ m) && decide (m ≤ 0x42F)) = false := by
    cases h : (decide (0x410 ≤ m) && decide (m ≤ 0x42F))
    · rfl
    · simp only [Bool.and_eq_true, decide_eq_true_eq] at h; exact absurd ⟨by omega, h.2⟩ h8
  have c9 : (decide (0x400 ≤ m) && decide (m ≤ 0x40F)) = false := by
    cases h : (decide (0x400 ≤ m) && decide (m ≤ 0x40F))
    · rfl
    · simp only [Bool.and_eq_true, decide_eq_true_eq] at h; exact absurd ⟨h.1, by omega⟩ h8
  simp only [c5, c6, c8, c9, Bool.false_eq_true, ↓reduceIte]
  split <;> rfl

theorem fixed_s : foldChar 's' = ['s'] := by decide

/-- every character a fold produces is a fixed point of the fold -/
theorem foldChar_image (c : Char) : ∀ d ∈ foldChar c, foldChar d = [d] := by
  intro d hd
  have hcv : c.toNat < 0xD800 ∨ 0xD800 ≤ c.toNat := by omega
  unfold foldChar at hd
  simp only at hd
  split at hd
  · next h =>
    have := upper_toNat c h
    simp only [List.mem_singleton] at hd; subst hd
    exact foldChar_fixed _ (by omega) (by omega) (by omega) (by omega) (by omega) (by omega) (by omega) (by omega) (by omega)
  · next hu =>
    have hu' : ¬ (65 ≤ c.toNat ∧ c.toNat ≤ 90) := fun h => hu ((isUpper_iff c).2 h)
    split at hd
    · next hlt =>
      split at hd
      · simp only [List.mem_singleton] at hd; subst hd
        exact foldChar_fixed _ (by omega) (by omega) (by omega) (by omega) (by omega) (by omega) (by omega) (by omega) (by omega)
      · next hb5 =>
        simp only [List.mem_singleton] at hd; subst hd
        have := foldChar_fixed d.toNat (by omega) hu' (by simpa using hb5) (by omega) (by omega) (by omega) (by omega) (by omega) (by omega)
        rwa [Char.ofNat_toNat] at this
    · next hge =>
      split at hd
      · simp only [List.mem_cons, List.not_mem_nil, or_false, or_self] at hd; subst hd; exact fixed_s
      · next hss =>
        split at hd
        · next h =>
          simp only [Bool.and_eq_true, decide_eq_true_eq, bne_iff_ne, ne_eq] at h
          simp only [List.mem_singleton] at hd; subst hd
          exact foldChar_fixed _ (by omega) (by omega) (by omega) (by omega) (by omega) (by omega) (by omega) (by omega) (by omega)
        · next hc0 =>
          split at hd
          · next h =>
            simp only [Bool.and_eq_true, decide_eq_true_eq, bne_iff_ne, ne_eq] at h
            simp only [List.mem_singleton] at hd; subst hd
            exact foldChar_fixed _ (by omega) (by omega) (by omega) (by omega) (by omega) (by omega) (by omega) (by omega) (by omega)
          · next hgr =>
            split at hd
            · simp only [List.mem_singleton] at hd; subst hd
              exact foldChar_fixed _ (by omega) (by omega) (by omega) (by omega) (by omega) (by omega) (by omega) (by omega) (by omega)
            · next hsig =>
              split at hd
              · next h =>
                simp only [Bool.and_eq_true, decide_eq_true_eq] at h
                simp only [List.mem_singleton] at hd; subst hd
                exact foldChar_fixed _ (by omega) (by omega) (by omega) (by omega) (by omega) (by omega) (by omega) (by omega) (by omega)
              · next hcy =>
                split at hd
                · next h =>
                  simp only [Bool.and_eq_true, decide_eq_true_eq] at h
                  simp only [List.mem_singleton] at hd; subst hd
                  exact foldChar_fixed _ (by omega) (by omega) (by omega) (by omega) (by omega) (by omega) (by omega) (by omega) (by omega)
                · next hcy2 =>
                  simp only [List.mem_singleton] at hd; subst hd
                  -- none of the rules applies to `d` itself
                  unfold foldChar
                  simp only [hu, hge, hss, hc0, hgr, hsig, hcy, hcy2, Bool.false_eq_true, ↓reduceIte]

theorem flatMap_fixed (l : Str) (h : ∀ d ∈ l, foldChar d = [d]) : l.flatMap foldChar = l := by
  induction l with
  | nil => rfl
  | cons a t ih =>
    rw [List.flatMap_cons, h a (by simp), ih (fun d hd => h d (by simp [hd]))]; rfl

/-- folding a word -/
def fw (w : Str) : Str := w.flatMap foldChar

theorem fw_idem (w : Str) : fw (fw w) = fw w := by
  unfold fw
  rw [List.flatMap_assoc]
  congr 1; funext c
  exact flatMap_fixed _ (foldChar_image c)

/-- a word: non-empty, no white space -/
def Clean (w : Str) : Prop := w ≠ [] ∧ ∀ d ∈ w, isWsL d = false

theorem fw_clean (w : Str) (h : Clean w) : Clean (fw w) := by
  obtain ⟨h1, h2⟩ := h
  constructor
  · cases w with
    | nil => exact absurd rfl h1
    | cons a t =>
      unfold fw; rw [List.flatMap_cons]
      intro h0
      have := (foldChar_props a).1
      simp only [List.append_eq_nil_iff] at h0; exact this h0.1
  · intro d hd
    unfold fw at hd
    rw [List.mem_flatMap] at hd
    obtain ⟨a, ha, hda⟩ := hd
    cases hw : isWsL d
    · rfl
    · have := (foldChar_props a).2 d hda hw
      rw [h2 a ha] at this; cases this

theorem lead_map (ws : List Str) : (lead ws).flatMap foldChar = lead (ws.map fw) := by
  induction ws with
  | nil => rfl
  | cons w rest ih =>
    simp only [lead, List.flatMap_cons, List.map_cons] at ih ⊢
    rw [List.flatMap_append, List.flatMap_cons, ih, foldSp]
    rfl

theorem fold_join (ws : List Str) : (joinSp ws).flatMap foldChar = joinSp (ws.map fw) := by
  cases ws with
  | nil => rfl
  | cons w rest => rw [joinSp_cons, List.map_cons, joinSp_cons, List.flatMap_append, lead_map]; rfl

theorem wordsGo_append (w : Str) (hw : ∀ d ∈ w, isWsL d = false) : ∀ (x cur : Str),
    wordsGo (w ++ x) cur = wordsGo x (w.reverse ++ cur) := by
  induction w with
  | nil => intro x cur; rfl
  | cons a t ih =>
    intro x cur
    rw [List.cons_append, wordsGo]
    simp only [hw a (by simp), Bool.false_eq_true, ↓reduceIte]
    rw [ih (fun d hd => hw d (by simp [hd]))]
    simp

theorem wordsGo_join : ∀ (rest : List Str) (w : Str), Clean w → (∀ q ∈ rest, Clean q) →
    wordsGo (w ++ lead rest) [] = w :: rest := by
  intro rest
  induction rest with
  | nil =>
    intro w hw _
    rw [wordsGo_append w hw.2]
    have hne := hw.1
    simp [lead, wordsGo, hne]
  | cons q ps ih =>
    intro w hw hall
    rw [wordsGo_append w hw.2]
    have hwe : w.reverse.isEmpty = false := by
      cases w with
      | nil => exact absurd rfl hw.1
      | cons a t => simp
    have hsp : isWsL ' ' = true := by decide
    simp only [lead, List.flatMap_cons, List.cons_append]
    rw [wordsGo]
    simp only [hsp, ↓reduceIte, List.append_nil, List.reverse_reverse, hwe, Bool.false_eq_true]
    have := ih q (hall q (by simp)) (fun x hx => hall x (by simp [hx]))
    simp only [lead] at this
    rw [this]

theorem wordsGo_clean : ∀ (l cur : Str), (∀ d ∈ cur, isWsL d = false) → ∀ w ∈ wordsGo l cur, Clean w := by
  intro l
  induction l with
  | nil =>
    intro cur hc w hw
    rw [wordsGo] at hw
    cases cur with
    | nil => simp at hw
    | cons a t =>
      simp only [List.isEmpty_cons, Bool.false_eq_true, ↓reduceIte, List.mem_singleton] at hw
      subst hw
      exact ⟨by simp, fun d hd => hc d (by rcases (by simpa using hd : d ∈ t ∨ d = a) with h | h <;> simp [h])⟩
  | cons c r ih =>
    intro cur hc w hw
    rw [wordsGo] at hw
    by_cases hcw : isWsL c = true
    · simp only [hcw, ↓reduceIte] at hw
      cases cur with
      | nil => simp only [List.isEmpty_nil, ↓reduceIte] at hw; exact ih [] (by simp) w hw
      | cons a t =>
        simp only [List.isEmpty_cons, Bool.false_eq_true, ↓reduceIte, List.mem_cons] at hw
        rcases hw with hw | hw
        · subst hw; exact ⟨by simp, fun d hd => hc d (by rcases (by simpa using hd : d ∈ t ∨ d = a) with h | h <;> simp [h])⟩
        · exact ih [] (by simp) w hw
    · simp only [hcw, Bool.false_eq_true, ↓reduceIte] at hw
      refine ih (c :: cur) ?_ w hw
      intro d hd
      simp only [List.mem_cons] at hd
      rcases hd with hd | hd
      · subst hd; simpa using hcw
      · exact hc d hd

theorem normLabel_words (l : Str) : normLabel l = (joinSp (wordsGo l [])).flatMap foldChar := by
  unfold normLabel
  rw [wordsGo_dropWhile]
  cases hd : l.dropWhile isWsL with
  | nil => simp [wordsGo, joinSp, collapseWs]
  | cons c r =>
    have hc : isWsL c = false := dropWhile_head _ l c r hd
    rw [wordsGo]
    simp only [hc, Bool.false_eq_true, ↓reduceIte]
    rw [(words_collapse r).2 [c] (by simp), collapseWs]
    simp [hc]

theorem words_of_join (ws : List Str) (h : ∀ w ∈ ws, Clean w) : wordsGo (joinSp ws) [] = ws := by
  cases ws with
  | nil => rfl
  | cons w rest =>
    rw [joinSp_cons]
    exact wordsGo_join rest w (h w (by simp)) (fun q hq => h q (by simp [hq]))

/-- **normalisation is idempotent** -/
theorem normLabel_idem (l : Str) : normLabel (normLabel l) = normLabel l := by
  rw [normLabel_words (normLabel l), normLabel_words l, fold_join (wordsGo l [])]
  have hc : ∀ w ∈ (wordsGo l []).map fw, Clean w := by
    intro w hw
    rw [List.mem_map] at hw
    obtain ⟨v, hv, rfl⟩ := hw
    exact fw_clean v (wordsGo_clean l [] (by simp) v hv)
  rw [words_of_join _ hc, fold_join, List.map_map]
  congr 1
  apply List.map_congr_left
  intro w _
  exact fw_idem w

end Verif.Model.LinkRecog
