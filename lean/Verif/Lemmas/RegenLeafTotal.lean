/-
  Simulation between the guard of `RegenLeafSpec` (abstract state: open block, rehydrate index, link depth) and the
  regenerator model: every token the guard accepts is processed without an exception and the states stay related.
-/
import Verif.Lemmas.RegenLeafHandlers
import Verif.Model.RegenLeafSpec
namespace Verif.Lemmas.RegenLeaf
open Verif.Model Verif.Model.RegenLeaf Verif.Model.RegenLeafSpec
open Verif.Model.Codec (Str plain SENT_START SENT_END WSPLIT)
open Verif.Model.Lines (splitOn joinOn splitNL joinNL NL)

/-- the concrete context `c` is in the abstract state `a` -/
structure Sim (a : AState) (c : Ctx) : Prop where
  stack : c.stack = a.stack
  ri : ∀ id ew fin, a.blk = some (.para id ew fin) → ∀ d, c.getRi id d = a.used
  nolink : a.blk ≠ some .link

theorem stack_links {a : AState} (h : 0 < a.links) : a.stack = .link :: (List.replicate (a.links - 1) .link ++ a.blk.toList) := by
  unfold AState.stack
  obtain ⟨n, hn⟩ : ∃ n, a.links = n + 1 := ⟨a.links - 1, by omega⟩
  rw [hn]; simp [List.replicate_succ]

theorem stack_nolinks {a : AState} (h : a.links = 0) : a.stack = a.blk.toList := by
  unfold AState.stack; rw [h]; rfl

theorem empty_iff (a : AState) : a.empty = true ↔ a.blk = none ∧ a.links = 0 := by
  unfold AState.empty; cases a.blk <;> simp

theorem sim_empty_stack {a : AState} {c : Ctx} (hs : Sim a c) (he : a.empty = true) : c.stack = [] := by
  obtain ⟨hb, hl⟩ := (empty_iff a).mp he
  rw [hs.stack, stack_nolinks hl, hb]; rfl

theorem getRi_setRi' (c : Ctx) (id v : Nat) (d : Nat) : (c.setRi id v).getRi id d = v := by
  simp [Ctx.getRi, Ctx.setRi]

/-- a step that leaves context and state alone -/
theorem sim_same {a : AState} {c : Ctx} (hs : Sim a c) (s : Str) : ∃ s' c', (Except.ok (s, c) : R (Str × Ctx)) = .ok (s', c') ∧ Sim a c' :=
  ⟨s, c, rfl, hs⟩

/-- opening a leaf block that is not a paragraph -/
theorem sim_open {a : AState} {c : Ctx} (hs : Sim a c) (he : a.empty = true) (b : Blk) (hb : ∀ id ew fin, b ≠ .para id ew fin)
    (hl : b ≠ .link) : Sim { a with blk := some b } (c.push b) := by
  obtain ⟨hb0, hl0⟩ := (empty_iff a).mp he
  refine ⟨?_, ?_, ?_⟩
  · simp only [Ctx.push, sim_empty_stack hs he]
    rw [stack_nolinks (by exact hl0)]; rfl
  · intro id ew fin h; simp only [Option.some.injEq] at h; exact absurd h (hb id ew fin)
  · simp only [ne_eq, Option.some.injEq]; exact hl

/-- the empty state after a block has been closed -/
theorem sim_closed {c : Ctx} : Sim {} { c with stack := [] } :=
  ⟨rfl, fun _ _ _ h _ => (by cases h), fun h => (by cases h)⟩

theorem sim_stack_single {a : AState} {c : Ctx} (hs : Sim a c) (hl : a.links = 0) (b : Blk) (hb : a.blk = some b) : c.stack = [b] := by
  rw [hs.stack, stack_nolinks hl, hb]; rfl

/-- the guard's step is matched by the model: no exception, related states -/
def StepOK (c : Ctx) (prev : Option Tok) (hn : Bool) (t : Tok) (a' : AState) : Prop :=
  ∃ s c', process c prev hn t = .ok (s, c') ∧ Sim a' c'

theorem oneChar_iff (s : Str) : oneChar s = true ↔ ∃ x, s = [x] := by
  unfold oneChar
  constructor
  · intro h
    match s, h with
    | [x], _ => exact ⟨x, rfl⟩
  · rintro ⟨x, rfl⟩; rfl

theorem isLink_false_of_ne {b : Blk} (h : b ≠ .link) : b.isLink = false := by
  cases b <;> first | rfl | exact absurd rfl h

/-! ## tokens that do not touch the block stack -/

theorem step_tbreak {a : AState} {c : Ctx} (hs : Sim a c) (prev : Option Tok) (hn : Bool) (ew rest : Str) :
    StepOK c prev hn (.tbreak ew rest) a := ⟨_, c, rfl, hs⟩

theorem step_blank {a : AState} {c : Ctx} (hs : Sim a c) (prev : Option Tok) (hn : Bool) (ew : Str) :
    StepOK c prev hn (.blank ew) a := ⟨_, c, rfl, hs⟩

theorem step_eos {a : AState} {c : Ctx} (hs : Sim a c) (prev : Option Tok) (hn : Bool) :
    StepOK c prev hn .eos a := ⟨_, c, rfl, hs⟩

theorem step_frontmatter {a : AState} {c : Ctx} (hs : Sim a c) (prev : Option Tok) (hn : Bool) (x : Str) (ls : List Str) (y : Str) :
    StepOK c prev hn (.frontmatter x ls y) a := ⟨_, c, rfl, hs⟩

theorem step_pragma {a : AState} {c : Ctx} (hs : Sim a c) (prev : Option Tok) (hn : Bool) (ls : List (Nat × Str)) :
    StepOK c prev hn (.pragma ls) a := ⟨_, c, rfl, hs⟩

theorem hLrd_ok (f : LrdF) (h : lrdShape f = true) : ∃ s, hLrd f = .ok s := by
  unfold lrdShape at h
  simp only [Bool.and_eq_true, Option.isSome_iff_exists] at h
  obtain ⟨⟨⟨⟨⟨dw, h1⟩, ⟨d, h2⟩⟩, ⟨tw, h3⟩⟩, ⟨t, h4⟩⟩, ⟨e, h5⟩⟩ := h
  unfold hLrd
  rw [h1, h2, h3, h4, h5]
  exact ⟨_, rfl⟩

theorem step_lrd {a : AState} {c : Ctx} (hs : Sim a c) (prev : Option Tok) (hn : Bool) (f : LrdF) (h : lrdShape f = true) :
    StepOK c prev hn (.lrd f) a := by
  obtain ⟨s, hs'⟩ := hLrd_ok f h
  exact ⟨s, c, by simp only [process, hs'], hs⟩

/-! ## leaf block starts -/

theorem step_atx {a : AState} {c : Ctx} (hs : Sim a c) (prev : Option Tok) (hn : Bool) (ew : Str) (h t : Int) (he : a.empty = true) :
    StepOK c prev hn (.atx ew h t) { a with blk := some .atx } := by
  have : ∃ r, repeatString ['#'] h = .ok r := ⟨_, rfl⟩
  obtain ⟨r, hr⟩ := this
  exact ⟨ew ++ r, c.push .atx, by simp only [process, hAtx, hr], sim_open hs he .atx (fun _ _ _ h => by cases h) (fun h => by cases h)⟩

theorem step_setext {a : AState} {c : Ctx} (hs : Sim a c) (prev : Option Tok) (hn : Bool) (ew hc : Str) (n : Int) (fin : Str)
    (he : a.empty = true) : StepOK c prev hn (.setext ew hc n fin) { a with blk := some (.setext hc n fin) } :=
  ⟨ew, c.push (.setext hc n fin), rfl, sim_open hs he _ (fun _ _ _ h => by cases h) (fun h => by cases h)⟩

theorem step_fcode {a : AState} {c : Ctx} (hs : Sim a c) (prev : Option Tok) (hn : Bool) (ew fchar : Str) (n : Int)
    (w pi i pa af : Str) (he : a.empty = true) (h1 : oneChar fchar = true) :
    StepOK c prev hn (.fcode ew fchar n w pi i pa af) { a with blk := some .fcode } := by
  obtain ⟨x, rfl⟩ := (oneChar_iff fchar).mp h1
  exact ⟨_, c.push .fcode, by simp only [process, hFcode, repeatString]; rfl, sim_open hs he .fcode (fun _ _ _ h => by cases h) (fun h => by cases h)⟩

theorem step_icode {a : AState} {c : Ctx} (hs : Sim a c) (prev : Option Tok) (hn : Bool) (ew ind : Str) (he : a.empty = true) :
    StepOK c prev hn (.icode ew ind) { a with blk := some (.icode ew ind) } :=
  ⟨[], c.push (.icode ew ind), rfl, sim_open hs he _ (fun _ _ _ h => by cases h) (fun h => by cases h)⟩

theorem step_html {a : AState} {c : Ctx} (hs : Sim a c) (prev : Option Tok) (hn : Bool) (he : a.empty = true) :
    StepOK c prev hn .html { a with blk := some .html } :=
  ⟨[], c.push .html, rfl, sim_open hs he _ (fun _ _ _ h => by cases h) (fun h => by cases h)⟩

theorem step_para {a : AState} {c : Ctx} (hs : Sim a c) (prev : Option Tok) (hn : Bool) (id : Nat) (ew fin : Str)
    (he : a.empty = true) (hp : plain (ew.takeWhile (· != NL)) = true) :
    StepOK c prev hn (.para id ew fin) { blk := some (.para id ew fin), used := 0, links := 0 } := by
  refine ⟨_, (c.push (.para id ew fin)).setRi id 0, by simp only [process, hPara, liftC_resolveAll_plain _ hp]; rfl, ?_, ?_, ?_⟩
  · simp only [Ctx.push, Ctx.setRi, sim_empty_stack hs he]; rfl
  · intro id' ew' fin' h d
    simp only [Option.some.injEq, Blk.para.injEq] at h
    rw [← h.1]; exact getRi_setRi' _ _ _ _
  · intro h; cases h

/-! ## leaf block ends -/

theorem step_endAtx {a : AState} {c : Ctx} (hs : Sim a c) (prev : Option Tok) (hn : Bool) (ew : Str) (x : Str) (tr : Int)
    (hl : a.links = 0) (hb : a.blk = some .atx) : StepOK c prev hn (.endAtx ew (some x) tr) {} := by
  have hst := sim_stack_single hs hl _ hb
  have : ∃ r, (if tr ≠ 0 then repeatString ['#'] tr else .ok []) = .ok r := by
    by_cases h : tr ≠ 0
    · exact ⟨_, by rw [if_pos h]; rfl⟩
    · exact ⟨_, by rw [if_neg h]⟩
  obtain ⟨r, hr⟩ := this
  exact ⟨x ++ r ++ ew ++ [NL], { c with stack := [] }, by simp only [process, hEndAtx, pop_of_stack hst, hr], sim_closed⟩

theorem step_endSetext {a : AState} {c : Ctx} (hs : Sim a c) (prev : Option Tok) (hn : Bool) (ew x hc : Str) (n : Int) (fin : Str)
    (hl : a.links = 0) (hb : a.blk = some (.setext hc n fin)) (h1 : oneChar hc = true) :
    StepOK c prev hn (.endSetext ew (some x)) {} := by
  have hst := sim_stack_single hs hl _ hb
  obtain ⟨ch, rfl⟩ := (oneChar_iff hc).mp h1
  exact ⟨_, { c with stack := [] }, by simp only [process, hEndSetext, hst, repeatString]; rfl, sim_closed⟩

theorem step_endHtml {a : AState} {c : Ctx} (hs : Sim a c) (prev : Option Tok) (hn : Bool)
    (hl : a.links = 0) (hb : a.blk = some .html) : StepOK c prev hn .endHtml {} := by
  have hst := sim_stack_single hs hl _ hb
  exact ⟨[], { c with stack := [] }, by simp only [process, pop_of_stack hst], sim_closed⟩

theorem step_endIcode {a : AState} {c : Ctx} (hs : Sim a c) (prev : Option Tok) (hn : Bool) (ew ind : Str)
    (hl : a.links = 0) (hb : a.blk = some (.icode ew ind)) : StepOK c prev hn .endIcode {} := by
  have hst := sim_stack_single hs hl _ hb
  exact ⟨[], { c with stack := [] }, by simp only [process, pop_of_stack hst], sim_closed⟩

theorem step_endPara {a : AState} {c : Ctx} (hs : Sim a c) (prev : Option Tok) (hn : Bool) (id : Nat) (ew fin sew : Str) (ri0 : Nat)
    (hl : a.links = 0) (hb : a.blk = some (.para id ew fin)) (hu : a.used = countNl sew) :
    StepOK c prev hn (.endPara id sew ri0) {} := by
  have hst := sim_stack_single hs hl _ hb
  have hri : c.getRi id ri0 = countNl sew := by rw [hs.ri id ew fin hb ri0, hu]
  exact ⟨fin ++ [SENT_END, NL], { c with stack := [] }, by simp only [process, hEndPara, hst, hri, if_true, Blk.finalWs], sim_closed⟩

/-! ## `int()` on ASCII digits -/

def isD (c : Char) : Bool := "0123456789".toList.contains c

theorem isD_cases (c : Char) (h : isD c = true) :
    c = '0' ∨ c = '1' ∨ c = '2' ∨ c = '3' ∨ c = '4' ∨ c = '5' ∨ c = '6' ∨ c = '7' ∨ c = '8' ∨ c = '9' := by
  have : c ∈ "0123456789".toList := by simpa [isD] using h
  simpa using this

theorem isD_facts (c : Char) (h : isD c = true) :
    (c == '_') = false ∧ (digitVal c).isSome = true ∧ LinkRecog.pyIntSpace c = false ∧ c ≠ '-' ∧ c ≠ '+' := by
  rcases isD_cases c h with rfl | rfl | rfl | rfl | rfl | rfl | rfl | rfl | rfl | rfl <;>
    exact ⟨by decide, by decide, by decide, by decide, by decide⟩

theorem exists_digitVal (c : Char) (h : isD c = true) : ∃ d, digitVal c = some d := Option.isSome_iff_exists.mp (isD_facts c h).2.1

theorem intDigits_ascii : ∀ (s : Str) (acc : Nat) (pd : Bool), s.all isD = true → (s ≠ [] ∨ pd = true) →
    ∃ n, intDigits s acc pd = some n
  | [], acc, pd, _, h => by
    rcases h with h | h
    · exact absurd rfl h
    · exact ⟨acc, by simp [intDigits, h]⟩
  | c :: cs, acc, pd, ha, _ => by
    simp only [List.all_cons, Bool.and_eq_true] at ha
    obtain ⟨hu, _, _, _, _⟩ := isD_facts c ha.1
    obtain ⟨d, hd⟩ := exists_digitVal c ha.1
    rw [intDigits, hu]
    simp only [Bool.false_eq_true, if_false, hd]
    exact intDigits_ascii cs (acc * 10 + d) true ha.2 (Or.inr rfl)

theorem dropWhile_none {p : Char → Bool} : ∀ (s : Str), (∀ c ∈ s, p c = false) → s.dropWhile p = s
  | [], _ => rfl
  | c :: cs, h => by rw [List.dropWhile_cons, h c (by simp)]; rfl

theorem stripIntWs_digits (s : Str) (h : s.all isD = true) : stripIntWs s = s := by
  have hp : ∀ c ∈ s, LinkRecog.pyIntSpace c = false := fun c hc => (isD_facts c (List.all_eq_true.mp h c hc)).2.2.1
  unfold stripIntWs
  rw [dropWhile_none s hp, dropWhile_none s.reverse (fun c hc => hp c (List.mem_reverse.mp hc)), List.reverse_reverse]

theorem pyInt_asciiDigits (s : Str) (h : asciiDigits s = true) : ∃ n, pyInt s = .ok n := by
  unfold asciiDigits at h
  simp only [Bool.and_eq_true, Bool.not_eq_true', List.isEmpty_eq_false_iff] at h
  have hall : s.all isD = true := h.2
  obtain ⟨n, hn⟩ := intDigits_ascii s 0 false hall (Or.inl h.1)
  unfold pyInt
  rw [stripIntWs_digits s hall]
  split
  · have : isD '-' = true := by
      simp only [List.all_cons, Bool.and_eq_true] at hall; exact hall.1
    exact absurd this (by decide)
  · have : isD '+' = true := by
      simp only [List.all_cons, Bool.and_eq_true] at hall; exact hall.1
    exact absurd this (by decide)
  · rw [hn]; exact ⟨_, rfl⟩

/-! ## end of a fenced code block, end of a link -/

theorem step_endFcode {a : AState} {c : Ctx} (hs : Sim a c) (prev : Option Tok) (hn : Bool) (ew : Str) (xd : Option Str) (forced : Bool)
    (fchar : Str) (hl : a.links = 0) (hb : a.blk = some .fcode)
    (hsh : (if forced then prev.isSome else fenceEndShape xd && oneChar fchar) = true) :
    StepOK c prev hn (.endFcode ew xd forced fchar) {} := by
  have hst := sim_stack_single hs hl _ hb
  cases forced with
  | true =>
    simp only [if_true, Option.isSome_iff_exists] at hsh
    obtain ⟨p, rfl⟩ := hsh
    exact ⟨_, { c with stack := [] }, by simp only [process, hEndFcode, pop_of_stack hst]; rfl, sim_closed⟩
  | false =>
    simp only [Bool.false_eq_true, if_false, Bool.and_eq_true] at hsh
    obtain ⟨x, rfl⟩ := (oneChar_iff fchar).mp hsh.2
    have hshape := hsh.1
    unfold fenceEndShape at hshape
    cases xd with
    | none => cases hshape
    | some d =>
      simp only at hshape
      match hsp : splitOn ':' d, hshape with
      | _ :: sp :: cnt :: _, hshape =>
        simp only at hshape
        obtain ⟨n, hn'⟩ := pyInt_asciiDigits cnt hshape
        exact ⟨_, { c with stack := [] }, by
          simp only [process, hEndFcode, pop_of_stack hst, Bool.not_false, if_true, Option.map_some, hsp, hn', repeatString]
          rfl, sim_closed⟩
      | [], hshape => cases hshape
      | [_], hshape => cases hshape
      | [_, _], hshape => cases hshape

theorem step_endLink {a : AState} {c : Ctx} (hs : Sim a c) (prev : Option Tok) (hn : Bool) (hl : 0 < a.links) :
    StepOK c prev hn .endLink { a with links := a.links - 1 } := by
  have hst : c.stack = .link :: (List.replicate (a.links - 1) .link ++ a.blk.toList) := by rw [hs.stack, stack_links hl]
  refine ⟨[], { c with stack := List.replicate (a.links - 1) .link ++ a.blk.toList }, by simp only [process, pop_of_stack hst], ?_, ?_, hs.nolink⟩
  · simp only [AState.stack]
  · intro id ew fin h d; exact hs.ri id ew fin h d

/-! ## inline tokens under an open link: nothing is written -/

/-- the inline tokens whose handlers return `""` inside a link (the link start token has written the whole link text) -/
def quietInLink : Tok → Bool
  | .text .. => true
  | .emph .. => true
  | .endEmph .. => true
  | .codespan .. => true
  | .rawhtml .. => true
  | .uri .. => true
  | .email .. => true
  | .hardbreak .. => true
  | .image .. => true
  | _ => false

theorem step_under_link {a : AState} {c : Ctx} (hs : Sim a c) (prev : Option Tok) (hn : Bool) (hl : 0 < a.links) (t : Tok)
    (hq : quietInLink t = true) : StepOK c prev hn t a := by
  have hst : c.stack = .link :: (List.replicate (a.links - 1) .link ++ a.blk.toList) := by rw [hs.stack, stack_links hl]
  have htop := top_of_stack hst
  cases t <;> simp only [quietInLink, Bool.false_eq_true] at hq
  case text tt ew e => exact ⟨[], c, by simp only [process]; exact hText_link c _ hst tt ew e, hs⟩
  case emph ch len => exact ⟨[], c, by simp only [process, hEmph, htop, Blk.isLink, if_true], hs⟩
  case endEmph ch len => exact ⟨[], c, by simp only [process, hEmph, htop, Blk.isLink, if_true], hs⟩
  case codespan t1 t2 t3 t4 => exact ⟨[], c, by simp only [process, hCodeSpan, htop, Blk.isLink, if_true], hs⟩
  case rawhtml tag => exact ⟨[], c, by simp only [process, hRawHtml, htop, Blk.isLink, if_true], hs⟩
  case uri txt http angle =>
    cases http
    · exact ⟨[], c, by simp only [process, hUri, htop, Blk.isLink, if_true, Bool.false_eq_true, if_false], hs⟩
    · exact ⟨txt, c, by simp only [process, hUri, if_true], hs⟩
  case email txt angle => exact ⟨[], c, by simp only [process, hEmail, htop, Blk.isLink, if_true], hs⟩
  case hardbreak le => exact ⟨[], c, by simp only [process, hHardBreak, htop], hs⟩
  case image f => exact ⟨[], c, by simp only [process, hImage, htop, Blk.isLink, if_true], hs⟩

end Verif.Lemmas.RegenLeaf
