/-
  Lemmas about the front-matter model: what the scan loop returns on a decomposed document and,
  conversely, what a result of the scan loop says about the document.
-/
import Verif.Model.FrontMatter
namespace Verif.Model.FrontMatter

theorem thematic_ne_nil {l : Line} (h : (thematic l).isSome = true) : l ≠ [] := by
  intro hl; subst hl; simp [thematic] at h

theorem closes_nonBlank {start l : Line} (h : closes start l = true) : nonBlank l = true := by
  simp only [closes, Bool.and_eq_true] at h
  have := thematic_ne_nil h.1
  simp only [nonBlank, Bool.not_eq_true', List.isEmpty_eq_false_iff]
  exact this

/-- The lines of a front-matter body: none of them closes the block, and (unless blank lines are
allowed) none is blank. -/
def BodyOK (allowBlank : Bool) (start : Line) (body : Lines) : Prop :=
  ∀ l ∈ body, closes start l = false ∧ (allowBlank = true ∨ nonBlank l = true)

theorem scan_closed (allowBlank : Bool) (start : Line) (body : Lines) (close : Line) (rest : Lines)
    (hbody : BodyOK allowBlank start body) (hclose : closes start close = true) :
    scan allowBlank start (body ++ close :: rest) = .closed body close rest := by
  induction body with
  | nil => simp [scan, closes_nonBlank hclose, hclose]
  | cons l ls ih =>
    have hl := hbody l (by simp)
    have ih' := ih (fun x hx => hbody x (by simp [hx]))
    simp only [List.cons_append, scan, hl.1]
    rcases hl.2 with ha | hn
    · subst ha
      cases hnb : nonBlank l <;> simp [ih', Scan.push]
    · simp [hn, ih', Scan.push]

theorem scan_stopped (start : Line) (body : Lines) (b : Line) (rest : Lines)
    (hbody : BodyOK false start body) (hb : nonBlank b = false) :
    scan false start (body ++ b :: rest) = .stopped (body ++ [b]) rest := by
  induction body with
  | nil => simp [scan, hb]
  | cons l ls ih =>
    have hl := hbody l (by simp)
    have ih' := ih (fun x hx => hbody x (by simp [hx]))
    have hn : nonBlank l = true := by rcases hl.2 with h | h; exact absurd h (by simp); exact h
    simp [scan, hl.1, hn, ih', Scan.push]

theorem scan_eof (allowBlank : Bool) (start : Line) (body : Lines)
    (hbody : BodyOK allowBlank start body) :
    scan allowBlank start body = .eof body := by
  induction body with
  | nil => simp [scan]
  | cons l ls ih =>
    have hl := hbody l (by simp)
    have ih' := ih (fun x hx => hbody x (by simp [hx]))
    simp only [scan, hl.1]
    rcases hl.2 with ha | hn
    · subst ha
      cases hnb : nonBlank l <;> simp [ih', Scan.push]
    · simp [hn, ih', Scan.push]

/-- Converse of `scan_closed`. -/
theorem scan_closed_inv {allowBlank : Bool} {start : Line} {provider c : Lines} {cl : Line} {r : Lines}
    (h : scan allowBlank start provider = .closed c cl r) :
    provider = c ++ cl :: r ∧ closes start cl = true ∧ BodyOK allowBlank start c := by
  induction provider generalizing c with
  | nil => simp [scan] at h
  | cons l ls ih =>
    simp only [scan] at h
    by_cases hn : nonBlank l = true
    · by_cases hc : closes start l = true
      · simp only [hn, hc, if_true] at h
        injection h with h1 h2 h3
        subst h1 h2 h3
        exact ⟨by simp, hc, by intro x hx; simp at hx⟩
      · simp only [hn, hc, if_true] at h
        cases hs : scan allowBlank start ls with
        | closed c' cl' r' =>
          rw [hs] at h; simp only [Scan.push] at h
          injection h with h1 h2 h3
          subst h1 h2 h3
          obtain ⟨e, hcl, hb⟩ := ih hs
          refine ⟨by simp [e], hcl, ?_⟩
          intro x hx
          rcases List.mem_cons.mp hx with rfl | hx'
          · exact ⟨by simpa using hc, Or.inr hn⟩
          · exact hb x hx'
        | stopped c' r' => rw [hs] at h; simp [Scan.push] at h
        | eof c' => rw [hs] at h; simp [Scan.push] at h
    · have hn' : nonBlank l = false := by simpa using hn
      cases hab : allowBlank with
      | false => simp [hn', hab] at h
      | true =>
        simp only [hn', hab] at h
        cases hs : scan true start ls with
        | closed c' cl' r' =>
          subst hab
          rw [hs] at h; simp [Scan.push] at h
          obtain ⟨h1, h2, h3⟩ := h
          subst h1 h2 h3
          obtain ⟨e, hcl, hb⟩ := ih hs
          refine ⟨by simp [e], hcl, ?_⟩
          intro x hx
          rcases List.mem_cons.mp hx with rfl | hx'
          · refine ⟨?_, Or.inl rfl⟩
            cases hcx : closes start x with
            | false => rfl
            | true => have := closes_nonBlank hcx; rw [hn'] at this; exact absurd this (by simp)
          · exact hb x hx'
        | stopped c' r' => rw [hs] at h; simp [Scan.push] at h
        | eof c' => rw [hs] at h; simp [Scan.push] at h

/-- The main loop fed with `next = rest.head?`, empty requeue and the provider's tail parses `rest`. -/
theorem mainLoop_rest {τ : Type} (parse : Nat → Lines → List τ) (tok : Option FmTok) (n : Nat) (rest : Lines) :
    mainLoop parse { token := tok, next := rest.head?, lineNo := n, requeue := [], provider := rest.tail }
      = parse n rest := by
  cases rest <;> simp [mainLoop]

end Verif.Model.FrontMatter

namespace Verif.Model.FrontMatter

theorem takeWhile_length_all {α : Type} {p : α → Bool} {l : List α}
    (h : (l.takeWhile p).length = l.length) : ∀ x ∈ l, p x = true := by
  induction l with
  | nil => intro x hx; simp at hx
  | cons a t ih =>
    by_cases ha : p a = true
    · simp only [List.takeWhile_cons, ha, if_true, List.length_cons, Nat.add_right_cancel_iff] at h
      intro x hx
      rcases List.mem_cons.mp hx with rfl | hx'
      · exact ha
      · exact ih h x hx'
    · simp [ha] at h

/-- The start test accepts exactly the lines that are `---` once right-stripped of ASCII whitespace:
no leading space, exactly three dashes, any trailing space / tab / CR / FF / VT. -/
theorem thematic_dash3 (x : Line) : thematic x = some ('-', 3) ↔ x = ['-', '-', '-'] := by
  constructor
  · intro h
    match x, h with
    | c :: t, h =>
      simp only [thematic] at h
      split at h
      · split at h
        · rename_i hb hn
          injection h with h
          injection h with hc hn3
          subst hc
          rw [hn3] at hn
          have hall := takeWhile_length_all (p := fun y => y == '-') (l := '-' :: t) (by omega)
          have hlen : ('-' :: t).length = 3 := by omega
          match t, hlen, hall with
          | [a, b], _, hall =>
            have ha := hall a (by simp)
            have hb' := hall b (by simp)
            simp only [beq_iff_eq] at ha hb'
            subst ha hb'; rfl
        · simp at h
      · simp at h
  · intro h; subst h; decide

theorem isStart_iff (l : Line) : isStart l = true ↔ rstrip l = ['-', '-', '-'] := by
  simp only [isStart, beq_iff_eq]
  exact thematic_dash3 _

/-- For a start line, a line closes the block iff it, too, is `---` once right-stripped. -/
theorem closes_iff {start : Line} (hs : isStart start = true) (l : Line) :
    closes start l = true ↔ rstrip l = ['-', '-', '-'] := by
  have h3 := (isStart_iff start).mp hs
  simp only [closes, Bool.and_eq_true, beq_iff_eq, h3]
  constructor
  · intro h; exact h.2.symm
  · intro h; rw [h]; exact ⟨by decide, rfl⟩

end Verif.Model.FrontMatter
