/- Facts about the dispatch loops of the rule engine model. -/
import Verif.Model.Engine
namespace Verif.Model.Engine
variable {τ : Type}

/-- A rule none of whose callbacks raises. -/
def Rule.NoRaise (r : Rule τ) : Prop := ∀ s ev, (r.call s ev).2.isSome = true

def AllNoRaise : List (Rule τ) → Prop
  | [] => True
  | r :: rs => r.NoRaise ∧ AllNoRaise rs

/-- One call without the fault plumbing. -/
def stepPure (r : Rule τ) (c : Comp r) (ev : Event τ) : Comp r × List Rep :=
  if r.handles ev then
    let p := r.call c.st ev
    (⟨p.1, c.log ++ [ev]⟩, p.2.getD [])
  else (c, [])

theorem stepOne_pure (r : Rule τ) (h : r.NoRaise) (c : Comp r) (ev : Event τ) (reps : List Rep) :
    stepOne r c ev ⟨reps, none⟩ = ((stepPure r c ev).1, ⟨reps ++ (stepPure r c ev).2, none⟩) := by
  unfold stepOne stepPure
  by_cases hh : r.handles ev
  · have := h c.st ev
    simp only [Option.isSome_none, Bool.false_eq_true, if_false, hh, if_true]
    cases hc : (r.call c.st ev).2 with
    | none => rw [hc] at this; cases this
    | some out => simp
  · simp [hh]

def dispatchPure : (rs : List (Rule τ)) → States rs → Event τ → States rs × List Rep
  | [], _, _ => ((), [])
  | r :: rs, (c, cs), ev =>
    let p := stepPure r c ev
    let q := dispatchPure rs cs ev
    ((p.1, q.1), p.2 ++ q.2)

theorem dispatch_pure : (rs : List (Rule τ)) → AllNoRaise rs → (ss : States rs) → (ev : Event τ) →
    (reps : List Rep) →
    dispatch rs ss ev ⟨reps, none⟩ = ((dispatchPure rs ss ev).1, ⟨reps ++ (dispatchPure rs ss ev).2, none⟩)
  | [], _, (), _, reps => by simp [dispatch, dispatchPure]
  | r :: rs, h, (c, cs), ev, reps => by
    simp only [dispatch, dispatchPure]
    rw [stepOne_pure r h.1, dispatch_pure rs h.2]
    simp [List.append_assoc]

def runPure : (rs : List (Rule τ)) → States rs → List (Event τ) → States rs × List Rep
  | _, ss, [] => (ss, [])
  | rs, ss, ev :: evs =>
    let p := dispatchPure rs ss ev
    let q := runPure rs p.1 evs
    (q.1, p.2 ++ q.2)

theorem runEvents_pure (rs : List (Rule τ)) (h : AllNoRaise rs) :
    ∀ (evs : List (Event τ)) (ss : States rs) (reps : List Rep),
    runEvents rs ss evs ⟨reps, none⟩ = ((runPure rs ss evs).1, ⟨reps ++ (runPure rs ss evs).2, none⟩)
  | [], ss, reps => by simp [runEvents, runPure]
  | ev :: evs, ss, reps => by
    simp only [runEvents, runPure]
    rw [dispatch_pure rs h, runEvents_pure rs h evs]
    simp [List.append_assoc]

/-- A rule run alone, without fault plumbing. -/
def alonePure (r : Rule τ) : Comp r → List (Event τ) → Comp r × List Rep
  | c, [] => (c, [])
  | c, ev :: evs =>
    let p := stepPure r c ev
    let q := alonePure r p.1 evs
    (q.1, p.2 ++ q.2)

theorem runAlone_pure (r : Rule τ) (h : r.NoRaise) :
    ∀ (evs : List (Event τ)) (c : Comp r) (reps : List Rep),
    runAlone r c evs ⟨reps, none⟩ = ((alonePure r c evs).1, ⟨reps ++ (alonePure r c evs).2, none⟩)
  | [], c, reps => by simp [runAlone, alonePure]
  | ev :: evs, c, reps => by
    simp only [runAlone, alonePure]
    rw [stepOne_pure r h, runAlone_pure r h evs]
    simp [List.append_assoc]

/-- Rule-major execution: every rule run alone over the whole event list. -/
def eachPure : (rs : List (Rule τ)) → States rs → List (Event τ) → States rs × List Rep
  | [], _, _ => ((), [])
  | r :: rs, (c, cs), evs =>
    let p := alonePure r c evs
    let q := eachPure rs cs evs
    ((p.1, q.1), p.2 ++ q.2)

theorem eachPure_nil : (rs : List (Rule τ)) → (ss : States rs) → eachPure rs ss [] = (ss, [])
  | [], () => rfl
  | r :: rs, (c, cs) => by simp [eachPure, alonePure, eachPure_nil rs cs]

theorem eachPure_cons : (rs : List (Rule τ)) → (ss : States rs) → (ev : Event τ) →
    (evs : List (Event τ)) →
    (eachPure rs ss (ev :: evs)).1 = (eachPure rs (dispatchPure rs ss ev).1 evs).1 ∧
    ((eachPure rs ss (ev :: evs)).2).Perm
      ((dispatchPure rs ss ev).2 ++ (eachPure rs (dispatchPure rs ss ev).1 evs).2)
  | [], (), _, _ => ⟨rfl, by simp [eachPure, dispatchPure]⟩
  | r :: rs, (c, cs), ev, evs => by
    have ih := eachPure_cons rs cs ev evs
    simp only [eachPure, dispatchPure, alonePure]
    refine ⟨by rw [ih.1], ?_⟩
    simp only [List.append_assoc]
    refine List.Perm.append_left _ ?_
    refine (List.Perm.append_left _ ih.2).trans ?_
    simp only [← List.append_assoc]
    exact List.Perm.append_right _ List.perm_append_comm

/-- Event-major dispatch (what the engine does) and rule-major execution (each rule alone)
end in the same rule states and produce the same reports up to order. -/
theorem runPure_perm_each : (rs : List (Rule τ)) → (evs : List (Event τ)) → (ss : States rs) →
    (runPure rs ss evs).1 = (eachPure rs ss evs).1 ∧
    ((runPure rs ss evs).2).Perm (eachPure rs ss evs).2
  | rs, [], ss => by simp [runPure, eachPure_nil]
  | rs, ev :: evs, ss => by
    have ih := runPure_perm_each rs evs (dispatchPure rs ss ev).1
    have hc := eachPure_cons rs ss ev evs
    simp only [runPure]
    exact ⟨by rw [ih.1, hc.1], (List.Perm.append_left _ ih.2).trans hc.2.symm⟩

/-- Life-cycle of a rule run alone: it receives exactly the events it handles, in order. -/
theorem alonePure_log (r : Rule τ) : ∀ (evs : List (Event τ)) (c : Comp r),
    (alonePure r c evs).1.log = c.log ++ evs.filter r.handles
  | [], c => by simp [alonePure]
  | ev :: evs, c => by
    simp only [alonePure]
    rw [alonePure_log r evs]
    unfold stepPure
    by_cases h : r.handles ev <;> simp [h]

end Verif.Model.Engine

namespace Verif.Model.Engine
variable {τ : Type}

/-- The call logs of all rules, in rule order. -/
def logs : (rs : List (Rule τ)) → States rs → List (List (Event τ))
  | [], _ => []
  | _ :: rs, (c, cs) => c.log :: logs rs cs

/-- Reports each rule produces when run alone from its component state, in rule order. -/
def eachList : (rs : List (Rule τ)) → States rs → List (Event τ) → List (List Rep)
  | [], _, _ => []
  | r :: rs, (c, cs), evs => (alonePure r c evs).2 :: eachList rs cs evs

theorem eachPure_reps : (rs : List (Rule τ)) → (ss : States rs) → (evs : List (Event τ)) →
    (eachPure rs ss evs).2 = (eachList rs ss evs).flatten
  | [], _, _ => rfl
  | r :: rs, (c, cs), evs => by simp [eachPure, eachList, eachPure_reps rs cs evs]

/-- What each rule's log gains over an event list: exactly the events it handles. -/
def gains (rs : List (Rule τ)) (evs : List (Event τ)) : List (List (Event τ)) :=
  rs.map fun r => evs.filter r.handles

theorem eachPure_logs : (rs : List (Rule τ)) → (ss : States rs) → (evs : List (Event τ)) →
    logs rs (eachPure rs ss evs).1 = List.zipWith (· ++ ·) (logs rs ss) (gains rs evs)
  | [], _, _ => rfl
  | r :: rs, (c, cs), evs => by
    simp only [eachPure, logs, gains, List.map_cons, List.zipWith_cons_cons]
    rw [alonePure_log, eachPure_logs rs cs evs]; rfl

theorem lineEvents_length : ∀ (n : Nat) (ls : List String), (lineEvents (τ := τ) n ls).length = ls.length
  | _, [] => rfl
  | n, _ :: ls => by simp [lineEvents, lineEvents_length (n + 1) ls]

theorem lineEvents_get : ∀ (n : Nat) (ls : List String) (i : Nat) (h : i < ls.length),
    (lineEvents (τ := τ) n ls)[i]'(by rw [lineEvents_length]; exact h) = .line (n + i) ls[i]
  | n, l :: ls, 0, _ => by simp [lineEvents]
  | n, l :: ls, i + 1, h => by
    simp only [lineEvents, List.getElem_cons_succ]
    rw [lineEvents_get (n + 1) ls i (by simpa using h)]
    congr 1; omega

theorem filter_lineEvents (r : Rule τ) : ∀ (n : Nat) (ls : List String),
    (lineEvents (τ := τ) n ls).filter r.handles = if r.hasLine then lineEvents n ls else []
  | _, [] => by simp [lineEvents]
  | n, l :: ls => by
    simp only [lineEvents, List.filter_cons, Rule.handles]
    rw [filter_lineEvents r (n + 1) ls]
    by_cases h : r.hasLine = true <;> simp [h]

/-- The explicit shape of what a rule receives for one file. -/
theorem fileEvents_filter (r : Rule τ) (toks : List τ) (lines : List String) :
    (Event.start :: bodyEvents toks lines).filter r.handles =
      (if r.hasStart then [Event.start] else []) ++
      (if r.hasToken then toks.map Event.token else []) ++
      (if r.hasLine then lineEvents 1 lines else []) ++
      (if r.hasDone then [Event.done (lines.length + 1)] else []) := by
  have ht : (toks.map Event.token).filter r.handles = if r.hasToken then toks.map Event.token else [] := by
    induction toks with
    | nil => simp
    | cons t ts ih => simp only [List.map_cons, List.filter_cons, Rule.handles, ih]; by_cases h : r.hasToken = true <;> simp [h]
  simp only [bodyEvents, List.filter_cons, List.filter_append, ht, filter_lineEvents, List.filter_nil, Rule.handles]
  by_cases h1 : r.hasStart = true <;> by_cases h2 : r.hasDone = true <;> simp [h1, h2]

end Verif.Model.Engine
