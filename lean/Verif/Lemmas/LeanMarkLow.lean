/-
  LeanMark — every line number in the block event stream is at least 1 (complement of `L_pos_range`, which
  bounds positions and payload lines from below and everything from above): the end line of every `close`
  and `leaf` event is ≥ 1.  Needed to renumber a stream *downwards* (Props/C20LeanMark.lean).

  Invariant `LowOK` over the sink (events emitted so far, `lastLine` of the open containers); the buffered
  leaf's numbers are ≥ 1 by `Inv`.  Every primitive preserves it unconditionally, so the parser does.
-/
import Verif.Model.LeanMark.Block
namespace Verif.Model.LeanMark

/-- end line ≥ 1. -/
def EvLow : Ev → Prop
  | .open _ _ => True
  | .close _ e => 1 ≤ e
  | .leaf _ _ e _ => 1 ≤ e

structure LowOK (r : RawCore) : Prop where
  out : ∀ e ∈ r.outRev, EvLow e
  stk : ∀ o ∈ r.stack, 1 ≤ o.m.lastLine

theorem LowOK.emit {r : RawCore} (h : LowOK r) {e : Ev} {st : List OpenC} (lf : OpenLeaf) (he : EvLow e)
    (hst : ∀ o ∈ st, 1 ≤ o.m.lastLine) : LowOK (r.emit e st lf) := by
  refine ⟨?_, hst⟩
  intro x hx
  rcases List.mem_cons.mp hx with rfl | hx
  · exact he
  · exact h.out x hx

theorem LowOK.emitLeaf {r : RawCore} (h : LowOK r) (k : LeafKind) (p : Pos) {e : Nat} (pl : List PLine)
    (he : 1 ≤ e) : LowOK (r.emitLeaf k p e pl) := h.emit _ he h.stk

theorem lastLineOf_ge (ls : List PLine) (d : Nat) (hd : 1 ≤ d) (h : ∀ l ∈ ls, 1 ≤ l.line) :
    1 ≤ lastLineOf ls d := by
  cases ls with
  | nil => exact hd
  | cons a t => exact h a List.mem_cons_self

theorem peelEmit_low : ∀ (fuel : Nat) (r : RawCore) (ls : List PLine), LowOK r → (∀ l ∈ ls, 1 ≤ l.line) →
    LowOK (peelEmit fuel r ls).1 ∧ ∀ l ∈ (peelEmit fuel r ls).2, 1 ≤ l.line
  | 0, r, ls, h, hls => ⟨h, hls⟩
  | fuel + 1, r, ls, h, hls => by
    unfold peelEmit
    split
    · exact ⟨h, by simp⟩
    · next l0 tl =>
      split
      · exact ⟨h, hls⟩
      · simp only
        split
        · exact ⟨h, hls⟩
        · next lab dest title nchars _ =>
          have h0 := hls l0 List.mem_cons_self
          have ih := peelEmit_low fuel
            (r.emitLeaf (.lrd lab dest title) ⟨l0.line, l0.col0 + 1⟩
              (lastLineOf ((l0 :: tl).take (linesCovered (joinLines ((l0 :: tl).map (·.text))) nchars)).reverse l0.line)
              ((l0 :: tl).take (linesCovered (joinLines ((l0 :: tl).map (·.text))) nchars)))
            ((l0 :: tl).drop (linesCovered (joinLines ((l0 :: tl).map (·.text))) nchars))
            (h.emitLeaf _ _ _ (lastLineOf_ge _ _ h0 (fun l hl =>
              hls l (List.mem_of_mem_take (List.mem_reverse.mp hl)))))
            (fun l hl => hls l (List.mem_of_mem_drop hl))
          exact ih

theorem LowOK.clearLeaf {r : RawCore} (h : LowOK r) : LowOK { r with leaf := .none } := ⟨h.out, h.stk⟩

theorem LowOK.closeLeaf {n : Nat} {r : RawCore} (h : LowOK r) (hi : Inv n r) (fe : Option Nat) (sx : Option (Nat × Nat))
    (hfe : ∀ e, fe = some e → 1 ≤ e) (hsx : ∀ l e, sx = some (l, e) → 1 ≤ e) :
    LowOK (r.closeLeaf fe sx) := by
  have hL := hi.lf
  unfold RawCore.closeLeaf
  split
  · exact h
  · next ls hlf =>
    rw [hlf] at hL
    have hp := peelEmit_low ls.length { r with leaf := .none } ls.reverse h.clearLeaf
      (fun l hl => (hL.1 l (List.mem_reverse.mp hl)).1.1)
    generalize peelEmit ls.length { r with leaf := .none } ls.reverse = res at hp
    obtain ⟨r1, rest⟩ := res
    simp only at hp ⊢
    split
    · exact hp.1
    · next p0 tl hrest =>
      split
      · next lvl e => exact hp.1.emitLeaf _ _ _ (hsx lvl e rfl)
      · exact hp.1.emitLeaf _ _ _ (lastLineOf_ge _ _ (hp.2 _ List.mem_cons_self) (fun l hl => (hL.1 l hl).1.1))
  · next pos ch len ind info ls hlf =>
    rw [hlf] at hL
    refine h.emitLeaf _ _ _ ?_
    cases fe with
    | none => exact lastLineOf_ge _ _ hL.1 (fun l hl => (hL.2.2.2.2 l hl).1)
    | some e => exact hfe e rfl
  · next pos ls pend hlf =>
    rw [hlf] at hL
    exact h.emitLeaf _ _ _ (lastLineOf_ge _ _ hL.1 (fun l hl => (hL.2.2.2.2.1 l hl).1))
  · next pos kind ls hlf =>
    rw [hlf] at hL
    exact h.emitLeaf _ _ _ (lastLineOf_ge _ _ hL.1 (fun l hl => (hL.2.2.2.2 l hl).1))

theorem LowOK.closeLeaf0 {n : Nat} {r : RawCore} (h : LowOK r) (hi : Inv n r) : LowOK (r.closeLeaf none none) :=
  h.closeLeaf hi none none (by simp) (by simp)

theorem mapMetaGo_low (f : Nat → OpenC → Meta) (hf : ∀ i o, 1 ≤ o.m.lastLine → 1 ≤ (f i o).lastLine) :
    ∀ l : List OpenC, (∀ o ∈ l, 1 ≤ o.m.lastLine) → ∀ o ∈ mapMetaGo f l, 1 ≤ o.m.lastLine
  | [], _, o, ho => by simp [mapMetaGo] at ho
  | a :: r, h, o, ho => by
    simp only [mapMetaGo, List.mem_cons] at ho
    rcases ho with rfl | ho
    · exact hf _ _ (h a List.mem_cons_self)
    · exact mapMetaGo_low f hf r (fun o ho => h o (List.mem_cons_of_mem _ ho)) o ho

theorem LowOK.mapMeta {r : RawCore} (h : LowOK r) (f : Nat → OpenC → Meta)
    (hf : ∀ i o, 1 ≤ o.m.lastLine → 1 ≤ (f i o).lastLine) : LowOK (r.mapMeta f) :=
  ⟨h.out, mapMetaGo_low f hf r.stack h.stk⟩

theorem LowOK.markChild {r : RawCore} (h : LowOK r) : LowOK r.markChild :=
  h.mapMeta _ (by intro i o ho; split <;> simpa using ho)

theorem LowOK.dropList {r : RawCore} (h : LowOK r) : LowOK r.dropList := by
  unfold RawCore.dropList
  split
  · next t rest hst =>
    split
    · exact h.emit _ (h.stk t (by rw [hst]; exact List.mem_cons_self))
        (fun o ho => h.stk o (by rw [hst]; exact List.mem_cons_of_mem _ ho))
    · exact h
  · exact h

theorem LowOK.ready {n : Nat} {r : RawCore} (h : LowOK r) (hi : Inv n r) : LowOK r.ready :=
  ((h.closeLeaf0 hi).dropList).markChild

theorem cons_low {st : List OpenC} (h : ∀ o ∈ st, 1 ≤ o.m.lastLine) {t : OpenC} (ht : 1 ≤ t.m.lastLine) :
    ∀ o ∈ t :: st, 1 ≤ o.m.lastLine := by
  intro o ho
  rcases List.mem_cons.mp ho with rfl | ho
  · exact ht
  · exact h o ho

namespace Core
variable {n : Nat}

/-- the sink satisfies the lower-bound invariant. -/
def Low (c : Core n) : Prop := LowOK c.raw

theorem Low.initAt (k : Nat) : (Core.initAt k).Low := ⟨by simp [Core.initAt], by simp [Core.initAt]⟩
theorem Low.nextLine {c : Core n} (h : c.Low) : c.nextLine.Low := h
theorem Low.skip {c : Core n} (h : c.Low) (d : Nat) : (c.skip d).Low := h
theorem Low.closeLeaf {c : Core n} (h : c.Low) : c.closeLeaf.Low := LowOK.closeLeaf0 h c.inv

theorem Low.closeFence {c : Core (n + 1)} (h : c.Low) : c.closeFence.Low :=
  LowOK.closeLeaf h c.inv (some (n + 1)) none (by intro e he; simp at he; omega) (by simp)

theorem Low.closeSetext {c : Core (n + 1)} (h : c.Low) (lvl : Nat) : (c.closeSetext lvl).Low :=
  LowOK.closeLeaf h c.inv none (some (lvl, n + 1)) (by simp) (by intro l e he; simp at he; omega)

theorem Low.pushQuote {c : Core (n + 1)} (h : c.Low) (col0 : Nat) : (c.pushQuote col0).Low :=
  (LowOK.ready h c.inv).emit _ trivial (cons_low (LowOK.ready h c.inv).stk (by simp))

theorem Low.pushItem {c : Core (n + 1)} (h : c.Low) (ord : Bool) (delim : Char) (start col0 : Nat) (m : Meta) :
    (c.pushItem ord delim start col0 m).Low := by
  unfold Core.pushItem Core.Low
  simp only
  split
  · exact (LowOK.closeLeaf0 h c.inv).emit _ trivial (cons_low (LowOK.closeLeaf0 h c.inv).stk (by simp))
  · have h2 := (LowOK.ready h c.inv).emit (e := .open (.list ord delim start) ⟨n + 1, col0 + 1⟩) .none trivial
      (cons_low (t := ⟨.list ord delim start, { lastLine := n + 1 }⟩) (LowOK.ready h c.inv).stk (by simp))
    exact h2.emit _ trivial (cons_low h2.stk (by simp))

theorem Low.popC {c : Core n} (h : c.Low) : c.popC.Low := by
  unfold Core.popC Core.Low
  simp only
  have h1 := LowOK.closeLeaf0 h c.inv
  split
  · exact h1
  · next t rest hst =>
    exact h1.emit _ (h1.stk t (by rw [hst]; exact List.mem_cons_self))
      (fun o ho => h1.stk o (by rw [hst]; exact List.mem_cons_of_mem _ ho))

theorem Low.emitLeaf {c : Core (n + 1)} (h : c.Low) (k : LeafKind) (col0 : Nat) (payload : List (Nat × List Char)) :
    (c.emitLeaf k col0 payload).Low :=
  (LowOK.ready h c.inv).emitLeaf _ _ _ (by omega)

theorem Low.startWith {c : Core (n + 1)} (h : c.Low) (lf : OpenLeaf)
    (hlf : ∀ last, last ≤ n + 1 → LeafOK (n + 1) last lf) : (c.startWith lf hlf).Low :=
  ⟨(LowOK.ready h c.inv).out, (LowOK.ready h c.inv).stk⟩

theorem Low.startPara {c : Core (n + 1)} (h : c.Low) (col0 : Nat) (text : List Char) :
    (c.startPara col0 text).Low := Low.startWith h _ _

theorem Low.startFenced {c : Core (n + 1)} (h : c.Low) (col0 : Nat) (ch : Char) (len ind : Nat) (info : List Char) :
    (c.startFenced col0 ch len ind info).Low := Low.startWith h _ _

theorem Low.startIndented {c : Core (n + 1)} (h : c.Low) (col0 tcol0 : Nat) (text : List Char) :
    (c.startIndented col0 tcol0 text).Low := Low.startWith h _ _

theorem Low.startHtml {c : Core (n + 1)} (h : c.Low) (col0 kind : Nat) (text : List Char) :
    (c.startHtml col0 kind text).Low := Low.startWith h _ _

theorem Low.setLeaf {c : Core n} (h : c.Low) (lf : OpenLeaf) (h1 : LeafOK n c.raw.last lf)
    (hne : c.raw.leaf = .none → lf = .none) : (c.setLeaf lf h1 hne).Low := ⟨h.out, h.stk⟩

theorem Low.addLine {c : Core (n + 1)} (h : c.Low) (col0 : Nat) (text : List Char) : (c.addLine col0 text).Low := by
  unfold Core.addLine
  simp only
  split
  · exact h
  all_goals exact Low.setLeaf h _ _ _

theorem Low.addPending {c : Core (n + 1)} (h : c.Low) (col0 : Nat) (text : List Char) :
    (c.addPending col0 text).Low := by
  unfold Core.addPending
  simp only
  split
  · exact Low.setLeaf h _ _ _
  · exact h

theorem Low.touch {c : Core (n + 1)} (h : c.Low) (k : Nat) : (c.touch k).Low :=
  LowOK.mapMeta h _ (by intro i o ho; split <;> simp [ho])

theorem Low.touchAll {c : Core (n + 1)} (h : c.Low) : c.touchAll.Low := Low.touch h _

theorem Low.closeTo : ∀ (fuel : Nat) {c : Core n}, c.Low → ∀ d, (Core.closeTo fuel c d).Low
  | 0, _, h, _ => by unfold Core.closeTo; exact h
  | fuel + 1, c, h, d => by
    unfold Core.closeTo
    split
    · exact Low.closeTo fuel (Low.popC h) d
    · exact h

theorem Low.closeToDepth {c : Core n} (h : c.Low) (d : Nat) : (c.closeToDepth d).Low := Low.closeTo _ h d

theorem Low.dropDanglingList {c : Core n} (h : c.Low) : c.dropDanglingList.Low := by
  unfold Core.dropDanglingList
  split
  · split
    · exact Low.popC h
    · exact h
  · exact h

theorem Low.prep {c : Core (n + 1)} (h : c.Low) (k : Nat) : (c.prep k).Low :=
  Low.touchAll (Low.dropDanglingList (Low.closeToDepth h k))

end Core
open Core

/-- one backward-chaining step over the primitives. -/
macro "low_step" : tactic =>
  `(tactic| first
    | assumption
    | apply Low.touchAll | apply Low.touch | apply Low.closeLeaf | apply Low.closeFence | apply Low.closeSetext
    | apply Low.pushQuote | apply Low.pushItem | apply Low.emitLeaf | apply Low.startPara | apply Low.startFenced
    | apply Low.startIndented | apply Low.startHtml | apply Low.addLine | apply Low.addPending | apply Low.prep
    | apply Low.closeToDepth | apply Low.dropDanglingList | apply Low.popC
    | split)

theorem openBlocks_low (rd : Reading) {n : Nat} : ∀ (fuel : Nat) (s : Core (n + 1)) (cur : Cur) (k : Nat)
    (first : Bool), s.Low → (openBlocks rd fuel s cur k first).Low
  | 0, s, _, _, _, h => by unfold openBlocks; exact h
  | fuel + 1, s, cur, k, first, h => by
    have ih := openBlocks_low rd (n := n) fuel
    unfold openBlocks
    extract_lets ind indented c1 t allC sA sB isSetext s1 setextDone s2 maybeLazy contIsPara sQ c2 c3 lm0 lm c4
    have hsB : sB.Low := Low.touch (Low.closeToDepth h k) _
    have hs1 : s1.Low := by
      show Core.Low (if _ then _ else _)
      split
      · exact Low.closeSetext h _
      · exact h
    have hs2 : s2.Low := hs1
    have hsQ : sQ.Low := Low.pushQuote (Low.prep hs2 k) _
    clear_value sB s1 s2 sQ lm0 lm c4 c3 c2 maybeLazy contIsPara setextDone isSetext
    repeat' (first | apply ih | low_step | (dsimp only))

theorem stepLine_low (rd : Reading) {n : Nat} (s : Core (n + 1)) (l : Line) (h : s.Low) : (stepLine rd s l).Low := by
  have ho := openBlocks_low rd (n := n)
  unfold stepLine
  simp only
  repeat' (first | apply ho | low_step)

theorem stepNum_low (rd : Reading) (s : BState) (p : Nat × Line) (h : s.core.Low) : (stepNum rd s p).core.Low :=
  stepLine_low rd _ _ h

theorem foldl_stepNum_low (rd : Reading) : ∀ (nls : List (Nat × Line)) (s : BState), s.core.Low →
    (nls.foldl (stepNum rd) s).core.Low
  | [], _, h => h
  | p :: r, s, h => foldl_stepNum_low rd r _ (stepNum_low rd s p h)

theorem foldl_step_low (rd : Reading) : ∀ (ls : List Line) (s : BState), s.core.Low →
    (ls.foldl (step rd) s).core.Low
  | [], _, h => h
  | l :: r, _, h => foldl_step_low rd r _ (stepLine_low rd _ l h)

theorem finish_low (s : BState) (h : s.core.Low) : (finish s).core.Low :=
  Low.closeLeaf (Low.closeToDepth h 0)

/-- **L_endline_pos**: the end line of every `close` and `leaf` event is ≥ 1 (any starting line, any reading). -/
theorem L_endline_pos (rd : Reading) (start : Nat) (ls : List Line) : ∀ e ∈ eventsFromR rd start ls, EvLow e := by
  intro e he
  have h := finish_low _ (foldl_step_low rd ls (BState.initAt start) (Low.initAt start))
  unfold eventsFromR runFromR Core.out at he
  exact h.out e (List.mem_reverse.mp he)

theorem L_endline_pos_num (rd : Reading) (start : Nat) (nls : List (Nat × Line)) :
    ∀ e ∈ eventsNumR rd start nls, EvLow e := by
  intro e he
  have h := finish_low _ (foldl_stepNum_low rd nls (BState.initAt start) (Low.initAt start))
  unfold eventsNumR runNumR Core.out at he
  exact h.out e (List.mem_reverse.mp he)

example : ∀ e ∈ events ["> - a".toList, [], "# h".toList], EvLow e := L_endline_pos {} 0 _

end Verif.Model.LeanMark
