import Verif.Lemmas.ScanRules.MD024Maps
import Verif.Lemmas.ScanRules.MD026
/-!
  MD024: the state as a relation of the tokens seen (`R024`), the one-step lemma under the guard `G024`.
-/
namespace Verif.Model.ScanRules

/-- number of dictionaries -/
def nMaps (c : C024) : Nat := if c.siblingsOnly then 6 else 1
/-- the level a heading is filed under -/
def lvl024 (c : C024) (h : Tok) : Int := if c.siblingsOnly then h.hashCount else 1
/-- the level of the latest completed heading (0: none yet) -/
def lastOf : List (Int × Str) → Int
  | [] => 0
  | (l, _) :: _ => l

theorem innerText_snoc (inner : List Tok) (t : Tok) : innerText (inner ++ [t]) = innerText inner ++ t.dbg := by
  simp [innerText]

/-- what one more token adds to the completed headings -/
def newClosed (c : C024) (seen : List Tok) (t : Tok) : List (Int × Str) :=
  if t.isHeadingEnd then
    match openHeading seen with
    | some (h, inner) => [(lvl024 c h, innerText inner)]
    | none => []
  else []

theorem closed024_snoc_gen (c : C024) : ∀ (ts pre : List Tok) (t : Tok),
    closed024 c.siblingsOnly pre (ts ++ [t]) = newClosed c (pre ++ ts) t ++ closed024 c.siblingsOnly pre ts := by
  intro ts
  induction ts with
  | nil =>
    intro pre t
    simp only [List.nil_append, List.append_nil, closed024, newClosed, lvl024, innerText]
    by_cases he : t.isHeadingEnd = true
    · simp only [he, if_true]; cases openHeading pre <;> simp
    · simp [he]
  | cons u us ih =>
    intro pre t
    have e : pre ++ u :: us = (pre ++ [u]) ++ us := by simp
    simp only [List.cons_append, closed024]
    rw [ih (pre ++ [u]) t, e]
    by_cases he : u.isHeadingEnd = true
    · simp only [he, if_true]
      cases openHeading pre with
      | none => rfl
      | some p => simp [List.append_assoc]
    · simp [he]

theorem closed024_snoc (c : C024) (seen : List Tok) (t : Tok) :
    closed024 c.siblingsOnly [] (seen ++ [t]) = newClosed c seen t ++ closed024 c.siblingsOnly [] seen := by
  have := closed024_snoc_gen c seen [] t
  simpa using this

/-- a sibling search above the level of the latest heading finds nothing -/
theorem sibHas_above (k : Int) (x : Str) (closed : List (Int × Str)) (h : lastOf closed < k) : sibHas k x closed = false := by
  cases closed with
  | nil => rfl
  | cons p ps => obtain ⟨l, y⟩ := p; simp only [lastOf] at h; simp [sibHas, h]

structure R024 (c : C024) (seen : List Tok) (s : S024) : Prop where
  len : s.maps.length = nMaps c
  last : s.last = lastOf (closed024 c.siblingsOnly [] seen)
  lvls : ∀ p ∈ closed024 c.siblingsOnly [] seen, 1 ≤ p.1 ∧ p.1 ≤ (nMaps c : Int)
  maps : ∀ k : Nat, 1 ≤ k → k ≤ nMaps c → ∀ x, x ∈ s.maps.getD (k - 1) [] ↔ sibHas (k : Int) x (closed024 c.siblingsOnly [] seen) = true
  opn : match openHeading seen with
        | some (h, inner) => s.text = some (innerText inner) ∧ s.startTok = some h ∧ s.hc = lvl024 c h ∧ 1 ≤ s.hc ∧ s.hc ≤ (nMaps c : Int)
        | none => s.text = none

/-- the guard: heading levels 1–6 (only read under `siblings_only`), every heading end closes an open heading, a SetExt end a
    SetExt heading -/
def G024 (c : C024) (seen : List Tok) (t : Tok) : Prop :=
  (t.isHeading = true → c.siblingsOnly = true → 1 ≤ t.hashCount ∧ t.hashCount ≤ 6) ∧
  (t.isHeadingEnd = true → ∃ h inner, openHeading seen = some (h, inner) ∧ (t.kind = .setextEnd → h.kind = .setext))

theorem R024_init (c : C024) : R024 c [] (start024 c) := by
  refine ⟨?_, rfl, fun p hp => (by cases hp), fun k h1 h2 x => ?_, rfl⟩
  · unfold start024 nMaps; cases c.siblingsOnly <;> rfl
  · simp only [closed024, sibHas, Bool.false_eq_true, iff_false]
    unfold start024 nMaps at *
    cases hs : c.siblingsOnly
    · simp only [hs] at h2 ⊢
      have : k = 1 := by simp at h2; omega
      subst this; simp
    · simp only [hs] at h2 ⊢
      have h2' : k ≤ 6 := by simpa using h2
      have : k = 1 ∨ k = 2 ∨ k = 3 ∨ k = 4 ∨ k = 5 ∨ k = 6 := by omega
      rcases this with h | h | h | h | h | h <;> subst h <;> simp

/-- the dictionaries after the two loops, as sets -/
theorem md024_loops (c : C024) (seen : List Tok) (s : S024) (hR : R024 c seen s) (hc1 : 1 ≤ s.hc) (hc2 : s.hc ≤ (nMaps c : Int)) :
    ∃ m', loops024 s = Except.ok m' ∧ m'.length = nMaps c ∧
      ∀ k : Nat, 1 ≤ k → k ≤ nMaps c → ∀ x,
        x ∈ m'.getD (k - 1) [] ↔ (sibHas (k : Int) x (closed024 c.siblingsOnly [] seen) = true ∧ ¬ (s.hc < (k : Int))) := by
  by_cases h0 : s.last = 0
  · refine ⟨s.maps, by simp [loops024, h0], hR.len, fun k h1 h2 x => ?_⟩
    rw [hR.maps k h1 h2 x]
    have hcl : closed024 c.siblingsOnly [] seen = [] := by
      cases hcl : closed024 c.siblingsOnly [] seen with
      | nil => rfl
      | cons p ps =>
        have := hR.lvls p (by rw [hcl]; simp)
        have hl := hR.last; rw [hcl, h0] at hl
        obtain ⟨l, y⟩ := p; simp only [lastOf] at hl; simp only at this; omega
    rw [hcl]; simp [sibHas]
  · have hne : closed024 c.siblingsOnly [] seen ≠ [] := by
      intro hcl; have hl := hR.last; rw [hcl] at hl; exact h0 hl
    obtain ⟨p, ps, hcl⟩ := List.exists_cons_of_ne_nil hne
    have hb := hR.lvls p (by rw [hcl]; simp)
    have hl : s.last = p.1 := by have := hR.last; rw [hcl] at this; obtain ⟨l, y⟩ := p; exact this
    obtain ⟨m', e, len, g⟩ := loops024_spec s.maps s.last s.hc (by omega) (by rw [hR.len]; omega) hc1 (by rw [hR.len]; exact hc2)
    refine ⟨m', by unfold loops024; simp only [ne_eq, h0, not_false_eq_true, if_true]; exact e, by rw [len, hR.len], fun k h1 h2 x => ?_⟩
    rw [g (k - 1)]
    have hk : ((k - 1 : Nat) : Int) = (k : Int) - 1 := by omega
    by_cases hcl1 : (s.last ≤ ((k - 1 : Nat) : Int) ∧ ((k - 1 : Nat) : Int) < s.hc) ∨ (s.hc ≤ ((k - 1 : Nat) : Int) ∧ ((k - 1 : Nat) : Int) < s.last)
    · rw [if_pos hcl1]
      simp only [List.not_mem_nil, false_iff, not_and, Decidable.not_not]
      intro hsib
      rcases hcl1 with h | h
      · have : lastOf (closed024 c.siblingsOnly [] seen) < (k : Int) := by rw [← hR.last]; omega
        rw [sibHas_above _ _ _ this] at hsib; cases hsib
      · omega
    · rw [if_neg hcl1, hR.maps k h1 h2 x]
      constructor
      · intro hsib
        refine ⟨hsib, ?_⟩
        intro hlt
        have : lastOf (closed024 c.siblingsOnly [] seen) < (k : Int) := by
          rw [← hR.last]
          have : ¬ (s.hc ≤ ((k - 1 : Nat) : Int) ∧ ((k - 1 : Nat) : Int) < s.last) := fun h => hcl1 (.inr h)
          omega
        rw [sibHas_above _ _ _ this] at hsib; cases hsib
      · exact fun h => h.1

/-- the dictionaries after the heading (level `hc`, text `txt`) was filed -/
theorem md024_maps_after (closed : List (Int × Str)) (m' : List (List Str)) (hc : Int) (txt : Str) (n : Nat)
    (hc1 : 1 ≤ hc) (hc2 : hc ≤ (n : Int)) (hlen : m'.length = n)
    (hm : ∀ k : Nat, 1 ≤ k → k ≤ n → ∀ x, x ∈ m'.getD (k - 1) [] ↔ (sibHas (k : Int) x closed = true ∧ ¬ (hc < (k : Int)))) :
    ∀ k : Nat, 1 ≤ k → k ≤ n → ∀ x,
      x ∈ (if (m'.getD (hc - 1).toNat []).contains txt then m'
           else m'.set (hc - 1).toNat (m'.getD (hc - 1).toNat [] ++ [txt])).getD (k - 1) [] ↔
      sibHas (k : Int) x ((hc, txt) :: closed) = true := by
  intro k h1 h2 x
  have hpast : ∀ y, y ∈ m'.getD (hc - 1).toNat [] ↔ sibHas hc y closed = true := by
    intro y
    have := hm hc.toNat (by omega) (by omega) y
    have e1 : hc.toNat - 1 = (hc - 1).toNat := by omega
    have e2 : ((hc.toNat : Nat) : Int) = hc := by omega
    rw [e1, e2] at this
    rw [this]; simp
  have hsib : sibHas (k : Int) x ((hc, txt) :: closed) = (if hc < (k : Int) then false else (hc == (k : Int) && txt == x) || sibHas (k : Int) x closed) := rfl
  rw [hsib]
  by_cases hk : (k : Int) = hc
  · have hidx : (hc - 1).toNat = k - 1 := by omega
    have hlt : ¬ hc < (k : Int) := by omega
    rw [if_neg hlt]
    by_cases hd : (m'.getD (hc - 1).toNat []).contains txt = true
    · rw [if_pos hd, ← hidx, hpast x]
      have hd' : sibHas hc txt closed = true := by rw [← hpast txt]; simpa using hd
      rw [← hk] at hd' ⊢
      by_cases hx : txt = x
      · subst hx; simp [hd']
      · simp [hx]
    · rw [if_neg hd, getD_set, if_pos ⟨hidx, by omega⟩]
      simp only [List.mem_append, List.mem_singleton, hpast x]
      rw [← hk]
      by_cases hx : txt = x
      · subst hx; simp
      · have : ¬ x = txt := fun h => hx h.symm
        simp [hx, this]
  · have hidx : ¬ (hc - 1).toNat = k - 1 := by omega
    have hget : (if (m'.getD (hc - 1).toNat []).contains txt then m'
        else m'.set (hc - 1).toNat (m'.getD (hc - 1).toNat [] ++ [txt])).getD (k - 1) [] = m'.getD (k - 1) [] := by
      split
      · rfl
      · rw [getD_set, if_neg (fun h => hidx h.1)]
    rw [hget, hm k h1 h2 x]
    have hne : (hc == (k : Int)) = false := by simp; omega
    by_cases hlt : hc < (k : Int)
    · simp [hlt]
    · simp [hlt, hne]

theorem md024_step_start (c : C024) (seen : List Tok) (s : S024) (t : Tok) (hR : R024 c seen s) (hG : G024 c seen t)
    (hh : t.isHeading = true) :
    ∃ s', next024 c s t = .ok (s', cond024 c seen t) ∧ R024 c (seen ++ [t]) s' := by
  have he : t.isHeadingEnd = false := by
    unfold Tok.isHeading at hh; unfold Tok.isHeadingEnd; cases hk : t.kind <;> simp_all
  have hcl : closed024 c.siblingsOnly [] (seen ++ [t]) = closed024 c.siblingsOnly [] seen := by
    rw [closed024_snoc]; simp [newClosed, he]
  refine ⟨{ s with text := some [], startTok := some t, hc := if c.siblingsOnly then t.hashCount else 1 }, ?_, ?_⟩
  · unfold next024 cond024; simp [hh, he]
  · refine ⟨hR.len, by rw [hcl]; exact hR.last, by rw [hcl]; exact hR.lvls, by rw [hcl]; exact hR.maps, ?_⟩
    rw [openHeading_heading seen t hh]
    refine ⟨rfl, rfl, rfl, ?_⟩
    show 1 ≤ (if c.siblingsOnly then t.hashCount else 1) ∧ (if c.siblingsOnly then t.hashCount else 1) ≤ (nMaps c : Int)
    unfold nMaps
    cases hs : c.siblingsOnly
    · simp
    · have := hG.1 hh hs; simp only [if_true]; omega

theorem md024_step_other (c : C024) (seen : List Tok) (s : S024) (t : Tok) (hR : R024 c seen s)
    (hh : t.isHeading = false) (he : t.isHeadingEnd = false) :
    ∃ s', next024 c s t = .ok (s', cond024 c seen t) ∧ R024 c (seen ++ [t]) s' := by
  have hcl : closed024 c.siblingsOnly [] (seen ++ [t]) = closed024 c.siblingsOnly [] seen := by
    rw [closed024_snoc]; simp [newClosed, he]
  have hcond : cond024 c seen t = [] := by unfold cond024; simp [he]
  have hopen := openHeading_other seen t hh he
  have hopn := hR.opn
  cases ho : openHeading seen with
  | none =>
    rw [ho] at hopn
    refine ⟨s, ?_, ?_⟩
    · unfold next024; simp [hh, he, hopn, hcond]
    · refine ⟨hR.len, by rw [hcl]; exact hR.last, by rw [hcl]; exact hR.lvls, by rw [hcl]; exact hR.maps, ?_⟩
      rw [hopen, ho]; exact hopn
  | some p =>
    rw [ho] at hopn
    refine ⟨{ s with text := some (innerText p.2 ++ t.dbg) }, ?_, ?_⟩
    · unfold next024; simp [hh, he, hopn.1, hcond]
    · refine ⟨hR.len, by rw [hcl]; exact hR.last, by rw [hcl]; exact hR.lvls, by rw [hcl]; exact hR.maps, ?_⟩
      rw [hopen, ho]
      simp only [Option.map_some]
      exact ⟨by rw [innerText_snoc], hopn.2.1, hopn.2.2.1, hopn.2.2.2⟩

theorem md024_step_end (c : C024) (seen : List Tok) (s : S024) (t : Tok) (hR : R024 c seen s) (hG : G024 c seen t)
    (he : t.isHeadingEnd = true) :
    ∃ s', next024 c s t = .ok (s', cond024 c seen t) ∧ R024 c (seen ++ [t]) s' := by
  have hh : t.isHeading = false := by
    unfold Tok.isHeadingEnd at he; unfold Tok.isHeading; cases hk : t.kind <;> simp_all
  obtain ⟨h, inner, ho, hset⟩ := hG.2 he
  have hopn := hR.opn
  rw [ho] at hopn
  obtain ⟨htxt, hst, hhc, hc1, hc2⟩ := hopn
  obtain ⟨m', hm, hlen, hmem⟩ := md024_loops c seen s hR hc1 hc2
  have hcl : closed024 c.siblingsOnly [] (seen ++ [t]) = (s.hc, innerText inner) :: closed024 c.siblingsOnly [] seen := by
    rw [closed024_snoc]; simp [newClosed, he, ho, hhc]
  have hidx : pyIdx m'.length (s.hc - 1) = some (s.hc - 1).toNat := pyIdx_nonneg _ _ (by omega) (by rw [hlen]; omega)
  have hpast : ∀ y, y ∈ m'.getD (s.hc - 1).toNat [] ↔ sibHas s.hc y (closed024 c.siblingsOnly [] seen) = true := by
    intro y
    have := hmem s.hc.toNat (by omega) (by omega) y
    have e1 : s.hc.toNat - 1 = (s.hc - 1).toNat := by omega
    have e2 : ((s.hc.toNat : Nat) : Int) = s.hc := by omega
    rw [e1, e2] at this
    rw [this]; simp
  have hok : ∃ r, mkReport h (t.kind == .setextEnd) 0 0 none = .ok r := by
    unfold mkReport posOf
    by_cases hk : t.kind = .setextEnd
    · simp [hk, hset hk]
    · simp [hk]
  obtain ⟨r, hr⟩ := hok
  have hmaps := md024_maps_after (closed024 c.siblingsOnly [] seen) m' s.hc (innerText inner) (nMaps c) hc1 hc2 hlen hmem
  have hopen' : openHeading (seen ++ [t]) = none := openHeading_end seen t he
  have hlvls : ∀ p ∈ (s.hc, innerText inner) :: closed024 c.siblingsOnly [] seen, 1 ≤ p.1 ∧ p.1 ≤ (nMaps c : Int) := by
    intro p hp
    rcases List.mem_cons.mp hp with rfl | hp
    · exact ⟨hc1, hc2⟩
    · exact hR.lvls p hp
  have hcond : cond024 c seen t =
      if (m'.getD (s.hc - 1).toNat []).contains (innerText inner) then [r] else [] := by
    unfold cond024
    simp only [he, if_true, ho, ← hhc, lvl024, hr]
    have : ((m'.getD (s.hc - 1).toNat []).contains (innerText inner) = true) ↔
        sibHas s.hc (innerText inner) (closed024 c.siblingsOnly [] seen) = true := by
      rw [← hpast]; simp
    by_cases hd : sibHas s.hc (innerText inner) (closed024 c.siblingsOnly [] seen) = true
    · rw [if_pos (by simpa [lvl024, hhc] using hd), if_pos (this.mpr hd)]
    · rw [if_neg (by simpa [lvl024, hhc] using hd), if_neg (fun h => hd (this.mp h))]
  have hend : end024 s t = .ok
      ({ s with maps := (if (m'.getD (s.hc - 1).toNat []).contains (innerText inner) then m'
                         else m'.set (s.hc - 1).toNat (m'.getD (s.hc - 1).toNat [] ++ [innerText inner])),
                text := none, last := s.hc },
       if (m'.getD (s.hc - 1).toNat []).contains (innerText inner) then [r] else []) := by
    unfold end024
    simp only [hm, hidx, htxt, hst, hr]
    by_cases hd : (m'.getD (s.hc - 1).toNat []).contains (innerText inner) = true
    · have hd2 := hd; simp at hd2; simp [hd2]
    · have hd2 := hd; simp at hd2; simp [hd2]
  refine ⟨{ s with maps := (if (m'.getD (s.hc - 1).toNat []).contains (innerText inner) then m'
                         else m'.set (s.hc - 1).toNat (m'.getD (s.hc - 1).toNat [] ++ [innerText inner])),
                      text := none, last := s.hc }, ?_, ?_⟩
  · unfold next024
    simp only [hh, he, if_true, Bool.false_eq_true, if_false, hend, hcond]
  · refine ⟨?_, ?_, ?_, ?_, ?_⟩
    · show (if (m'.getD (s.hc - 1).toNat []).contains (innerText inner) then m'
           else m'.set (s.hc - 1).toNat (m'.getD (s.hc - 1).toNat [] ++ [innerText inner])).length = nMaps c
      split
      · exact hlen
      · rw [List.length_set]; exact hlen
    · rw [hcl]; rfl
    · rw [hcl]; exact hlvls
    · rw [hcl]; exact hmaps
    · rw [hopen']

theorem md024_step (c : C024) (seen : List Tok) (s : S024) (t : Tok) (hR : R024 c seen s) (hG : G024 c seen t) :
    ∃ s', next024 c s t = .ok (s', cond024 c seen t) ∧ R024 c (seen ++ [t]) s' := by
  by_cases hh : t.isHeading = true
  · exact md024_step_start c seen s t hR hG hh
  · by_cases he : t.isHeadingEnd = true
    · exact md024_step_end c seen s t hR hG he
    · exact md024_step_other c seen s t hR (by simpa using hh) (by simpa using he)

theorem md024_scanFrom (c : C024) (toks : List Tok) (hG : Guarded (G024 c) toks) :
    scanFrom md024 c (start024 c) toks = .ok (byPrefix (cond024 c) [] toks) :=
  scanFrom_eq_byPrefix md024 c (R024 c) (G024 c) (cond024 c) (md024_step c) toks [] _ (R024_init c)
    (guarded_splits (G024 c) toks hG)

end Verif.Model.ScanRules
