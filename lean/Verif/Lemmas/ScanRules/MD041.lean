import Verif.Lemmas.ScanRules.Basic
import Verif.Model.ScanRules.Spec
/-!
  MD041: after the first element was judged nothing is reported; the skipped tokens; the verdict on the first element.
-/
namespace Verif.Model.ScanRules

theorem md041_seen (c : C041) : ∀ (ts : List Tok) (s : S041), s.seen = true → scanFrom md041 c s ts = .ok [] := by
  intro ts
  induction ts with
  | nil => intro _ _; rfl
  | cons t ts ih =>
    intro s hs
    have hn : md041.next c s t = .ok (s, []) := by show next041 c s t = _; unfold next041; simp [hs]
    rw [scanFrom_cons_ok md041 c s s t ts [] hn, ih s hs]; rfl

theorem md041_skip (c : C041) (t : Tok) (h : skip041 c t = true) :
    next041 c {} t = .ok ({}, []) := by
  unfold skip041 at h
  unfold next041 Tok.isHeading
  simp only [Bool.or_eq_true, Bool.and_eq_true, beq_iff_eq, Bool.not_eq_true'] at h
  rcases h with h | ⟨⟨h1, h2⟩, h3⟩
  · simp [h]
  · have h3' : ¬ c.title ∈ t.keys := by simpa using h3
    simp [h1, h2, h3']

/-- the first element is not an HTML block -/
theorem md041_first (c : C041) (t : Tok) (ts : List Tok) (hs : skip041 c t = false) (hh : t.kind ≠ .html) :
    next041 c {} t = .ok ({ seen := true }, verdict041 c (t :: ts)) := by
  unfold skip041 at hs
  simp only [Bool.or_eq_false_iff, beq_eq_false_iff_ne, ne_eq, Bool.and_eq_false_iff, Bool.not_eq_eq_eq_not, Bool.not_true,
    Bool.not_false] at hs
  obtain ⟨hb, hf⟩ := hs
  unfold next041 verdict041
  by_cases h1 : t.isHeading = true
  · simp [h1]
  · have h1' : t.isHeading = false := by simpa using h1
    by_cases h2 : t.kind = .frontMatter
    · by_cases h3 : c.title.isEmpty = true
      · simp [h1', h2, h3]
      · have h3' : c.title.isEmpty = false := by simpa using h3
        have hk : c.title ∈ t.keys := by
          rcases hf with (hf | hf) | hf
          · exact absurd h2 hf
          · rw [h3'] at hf; cases hf
          · simpa using hf
        simp [h1', h2, h3', hk]
    · simp [h1', h2, hh, hb]

/-- the first element is an HTML block: it is remembered … -/
theorem md041_html_start (c : C041) (h : Tok) (hk : h.kind = .html) :
    next041 c {} h = .ok ({ html := some h }, []) := by
  unfold next041 Tok.isHeading; simp [hk]

/-- … and judged at the next token, its text -/
theorem md041_html_text (c : C041) (h x : Tok) (hx : x.kind = .text) :
    next041 c { html := some h } x = .ok ({ seen := true, html := some h }, if !startsH1 x.text then [reportAt h] else []) := by
  unfold next041 Tok.isHeading; simp [hx]

theorem verdict041_html (c : C041) (h : Tok) (rest : List Tok) (hk : h.kind = .html) :
    verdict041 c (h :: rest) = match rest with
      | x :: _ => if !startsH1 x.text then [reportAt h] else []
      | [] => [] := by
  unfold verdict041 Tok.isHeading; simp [hk]
  cases rest <;> rfl

theorem md041_scanFrom (c : C041) : ∀ (toks : List Tok),
    (∀ (a : List Tok) (h x : Tok) (b : List Tok), toks = a ++ h :: x :: b → h.kind = .html → x.kind = .text) →
    scanFrom md041 c {} toks = .ok (verdict041 c (toks.dropWhile (skip041 c))) := by
  intro toks
  induction toks with
  | nil => intro _; rfl
  | cons t ts ih =>
    intro hG
    by_cases hs : skip041 c t = true
    · rw [scanFrom_cons_ok md041 c {} {} t ts [] (md041_skip c t hs), List.dropWhile_cons_of_pos hs,
        ih (fun a h x b e => hG (t :: a) h x b (by rw [e]; rfl))]
      rfl
    · have hs' : skip041 c t = false := by simpa using hs
      rw [List.dropWhile_cons_of_neg hs]
      by_cases hh : t.kind = .html
      · have h0 := md041_html_start c t hh
        rw [scanFrom_cons_ok md041 c {} _ t ts [] h0, verdict041_html c t ts hh]
        cases ts with
        | nil => rfl
        | cons x xs =>
          have hx := hG [] t x xs rfl hh
          rw [scanFrom_cons_ok md041 c { html := some t } { seen := true, html := some t } x xs _ (md041_html_text c t x hx),
            md041_seen c xs _ rfl]
          simp [Except.map]
      · rw [scanFrom_cons_ok md041 c {} _ t ts _ (md041_first c t ts hs' hh), md041_seen c ts _ rfl]
        simp [Except.map]

end Verif.Model.ScanRules
