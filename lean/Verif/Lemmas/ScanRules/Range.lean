import Verif.Lemmas.ScanRules.Basic
import Verif.Model.ScanRules.Spec
/-!
  C07 for the rules that report a REMEMBERED token (MD022 MD024 MD026 MD036 MD041): the remembered token is a token of the
  stream seen so far (invariant), so the report's position is that token's (plus the stated delta).  For every stream, no guard.
-/
namespace Verif.Model.ScanRules

/-- the position a report about heading `h` can have: the token's own, or (SetExt only) the original one -/
def AtHeading (toks : List Tok) (x : Report) : Prop :=
  ∃ h ∈ toks, h.isHeading = true ∧
    ((x.line, x.col) = (h.line, h.col) ∨ (h.kind = .setext ∧ (x.line, x.col) = (h.oline, h.ocol)))

theorem AtHeading.mono (a b : List Tok) (x : Report) (h : AtHeading a x) : AtHeading (a ++ b) x := by
  obtain ⟨t, ht, h1, h2⟩ := h
  exact ⟨t, List.mem_append_left _ ht, h1, h2⟩

theorem mkReport_plain_pos (h : Tok) (orig : Bool) (r : Report) (e : mkReport h orig 0 0 none = .ok r) :
    (r.line, r.col) = (h.line, h.col) ∨ (h.kind = .setext ∧ (r.line, r.col) = (h.oline, h.ocol)) := by
  unfold mkReport posOf at e
  cases orig with
  | false => simp at e; subst e; left; simp
  | true =>
    by_cases hk : h.kind = .setext
    · simp [hk] at e; subst e; right; exact ⟨hk, by simp⟩
    · simp [hk] at e

/-! ## MD041 -/
def I041 (seen : List Tok) (s : S041) : Prop := ∀ h, s.html = some h → h ∈ seen ∧ h.kind = .html

theorem md041_range_step (c : C041) (seen : List Tok) (s : S041) (t : Tok) (s' : S041) (rp : List Report)
    (hI : I041 seen s) (hn : next041 c s t = .ok (s', rp)) :
    I041 (seen ++ [t]) s' ∧ ∀ x ∈ rp, ∃ u ∈ seen ++ [t], (x.line, x.col) = (u.line, u.col) := by
  unfold next041 at hn
  have hmono : ∀ s0 : S041, s0.html = s.html → I041 (seen ++ [t]) s0 := by
    intro s0 e h hh; rw [e] at hh
    exact ⟨List.mem_append_left _ (hI h hh).1, (hI h hh).2⟩
  have here : ∀ x ∈ [reportAt t], ∃ u ∈ seen ++ [t], (x.line, x.col) = (u.line, u.col) := by
    intro x hx; simp only [List.mem_singleton] at hx; subst hx; exact ⟨t, by simp, rfl⟩
  split at hn
  · cases hn; exact ⟨hmono _ rfl, by simp⟩
  · split at hn
    · cases hn
      refine ⟨hmono _ rfl, ?_⟩
      split
      · exact here
      · simp
    · split at hn
      · cases hn
        refine ⟨?_, by simp⟩
        split
        · exact hmono _ rfl
        · exact hmono _ rfl
      · split at hn
        · rename_i hk
          cases hn
          refine ⟨?_, by simp⟩
          intro h hh
          simp only [Option.some.injEq] at hh; subst hh
          exact ⟨by simp, by simpa using hk⟩
        · split at hn
          · rename_i h0 hh0
            split at hn
            · cases hn
              refine ⟨hmono _ rfl, ?_⟩
              split
              · intro x hx; simp only [List.mem_singleton] at hx; subst hx
                exact ⟨h0, List.mem_append_left _ (hI h0 hh0).1, rfl⟩
              · simp
            · cases hn
          · split at hn
            · cases hn; exact ⟨hmono _ rfl, here⟩
            · cases hn; exact ⟨hmono _ rfl, by simp⟩

/-! ## MD036 -/
def I036 (seen : List Tok) (s : S036) : Prop := ∀ p, s.startTok = some p → p ∈ seen ∧ p.kind = .para

theorem md036_range_step (c : C036) (seen : List Tok) (s : S036) (t : Tok) (s' : S036) (rp : List Report)
    (hI : I036 seen s) (hn : next036 c s t = .ok (s', rp)) :
    I036 (seen ++ [t]) s' ∧ ∀ x ∈ rp, ∃ u ∈ seen ++ [t], u.kind = .para ∧ (x.line, x.col) = (u.line, u.col) := by
  have hmono : ∀ s0 : S036, s0.startTok = s.startTok → I036 (seen ++ [t]) s0 := by
    intro s0 e h hh; rw [e] at hh
    exact ⟨List.mem_append_left _ (hI h hh).1, (hI h hh).2⟩
  unfold next036 at hn
  split at hn
  · split at hn
    · rename_i hk
      cases hn
      refine ⟨?_, by simp⟩
      intro p hp; simp only [Option.some.injEq] at hp; subst hp
      exact ⟨by simp, by simpa using hk⟩
    · cases hn; exact ⟨hmono _ rfl, by simp⟩
  · cases hn; exact ⟨hmono _ rfl, by simp⟩
  · split at hn
    · split at hn
      · split at hn
        · cases hn
        · cases hn; exact ⟨hmono _ rfl, by simp⟩
      · cases hn; exact ⟨hmono _ rfl, by simp⟩
    · cases hn; exact ⟨hmono _ rfl, by simp⟩
  · cases hn; exact ⟨hmono _ rfl, by simp⟩
  · split at hn
    · split at hn
      · cases hn
      · rename_i p hp
        cases hn
        refine ⟨hmono _ rfl, ?_⟩
        intro x hx; simp only [List.mem_singleton] at hx; subst hx
        exact ⟨p, List.mem_append_left _ (hI p hp).1, (hI p hp).2, rfl⟩
    · cases hn; exact ⟨hmono _ rfl, by simp⟩

/-! ## MD024 -/
def I024 (seen : List Tok) (s : S024) : Prop := ∀ h, s.startTok = some h → h ∈ seen ∧ h.isHeading = true

theorem end024_ok (s : S024) (t : Tok) (s1 : S024) (rp1 : List Report) (e : end024 s t = .ok (s1, rp1)) :
    s1.startTok = s.startTok ∧ ∀ x ∈ rp1, ∃ h, s.startTok = some h ∧ mkReport h (t.kind == .setextEnd) 0 0 none = .ok x := by
  unfold end024 at e
  split at e
  · cases e
  · split at e
    · cases e
    · split at e
      · cases e
      · split at e
        · split at e
          · cases e
          · rename_i h0 hs0
            split at e
            · cases e
            · rename_i r hr
              simp only [Except.ok.injEq, Prod.mk.injEq] at e
              obtain ⟨e1, e2⟩ := e
              subst e1; subst e2
              refine ⟨rfl, ?_⟩
              intro x hx; simp only [List.mem_singleton] at hx; subst hx
              exact ⟨h0, hs0, hr⟩
        · simp only [Except.ok.injEq, Prod.mk.injEq] at e
          obtain ⟨e1, e2⟩ := e
          subst e1; subst e2
          exact ⟨rfl, by simp⟩

theorem md024_range_step (c : C024) (seen : List Tok) (s : S024) (t : Tok) (s' : S024) (rp : List Report)
    (hI : I024 seen s) (hn : next024 c s t = .ok (s', rp)) :
    I024 (seen ++ [t]) s' ∧ ∀ x ∈ rp, AtHeading (seen ++ [t]) x := by
  have hmono : ∀ s0 : S024, s0.startTok = s.startTok → I024 (seen ++ [t]) s0 := by
    intro s0 e h hh; rw [e] at hh
    exact ⟨List.mem_append_left _ (hI h hh).1, (hI h hh).2⟩
  unfold next024 at hn
  split at hn
  · rename_i hh
    cases hn
    refine ⟨?_, by simp⟩
    intro h0 h1; simp only [Option.some.injEq] at h1; subst h1; exact ⟨by simp, hh⟩
  · have key : ∀ s1 rp1, (if t.isHeadingEnd = true then end024 s t else Except.ok (s, [])) = Except.ok (s1, rp1) →
        s1.startTok = s.startTok ∧ ∀ x ∈ rp1, AtHeading (seen ++ [t]) x := by
      intro s1 rp1 e
      split at e
      · obtain ⟨h1, h2⟩ := end024_ok s t s1 rp1 e
        refine ⟨h1, fun x hx => ?_⟩
        obtain ⟨h0, hs0, hr⟩ := h2 x hx
        exact ⟨h0, List.mem_append_left _ (hI h0 hs0).1, (hI h0 hs0).2, mkReport_plain_pos h0 _ x hr⟩
      · simp only [Except.ok.injEq, Prod.mk.injEq] at e
        obtain ⟨e1, e2⟩ := e
        subst e1; subst e2
        exact ⟨rfl, by simp⟩
    split at hn
    · cases hn
    · rename_i s1 rp1 e
      obtain ⟨h1, h2⟩ := key s1 rp1 e
      split at hn
      · simp only [Except.ok.injEq, Prod.mk.injEq] at hn
        obtain ⟨e1, e2⟩ := hn
        subst e1; subst e2
        exact ⟨hmono _ h1, h2⟩
      · simp only [Except.ok.injEq, Prod.mk.injEq] at hn
        obtain ⟨e1, e2⟩ := hn
        subst e1; subst e2
        exact ⟨hmono _ h1, h2⟩

/-! ## MD022 -/
def I022 (seen : List Tok) (s : S022) : Prop := ∀ h, s.startTok = some h → h ∈ seen ∧ h.isHeading = true

theorem reports022_at (c : C022) (s : S022) (h : Tok) (b : Bool) (toks : List Tok) (hm : h ∈ toks) (hh : h.isHeading = true) :
    ∀ x ∈ reports022 c s h b, AtHeading toks x := by
  intro x hx
  unfold reports022 at hx
  have pos : ∀ e : Option Str, AtHeading toks ⟨(if h.kind = .setext then (h.oline, h.ocol) else (h.line, h.col)).1,
      (if h.kind = .setext then (h.oline, h.ocol) else (h.line, h.col)).2, e, 0⟩ := by
    intro e
    refine ⟨h, hm, hh, ?_⟩
    by_cases hk : h.kind = .setext
    · right; simp [hk]
    · left; simp [hk]
  simp only [List.mem_append] at hx
  rcases hx with hx | hx
  · split at hx
    · simp only [List.mem_singleton] at hx; subst hx; exact pos _
    · cases hx
  · split at hx
    · simp only [List.mem_singleton] at hx; subst hx; exact pos _
    · cases hx

theorem close022_range (c : C022) (seen : List Tok) (s : S022) (t : Tok) (hI : I022 seen s) :
    ((close022 c s t).1.startTok = s.startTok ∨ (close022 c s t).1.startTok = none) ∧
    ∀ x ∈ (close022 c s t).2, AtHeading (seen ++ [t]) x := by
  unfold close022
  constructor
  · simp only
    by_cases hf : fires022 s t = true <;> by_cases hn : nonSimple022 s t = true <;> simp [hf, hn]
  · simp only
    cases hs : s.startTok with
    | none => simp
    | some h =>
      obtain ⟨hm, hh⟩ := hI h hs
      simp only
      split
      · exact reports022_at c s h _ _ (List.mem_append_left _ hm) hh
      · simp

theorem phase1_022_range (c : C022) (seen : List Tok) (s : S022) (t : Tok) (hI : I022 seen s) :
    ((phase1_022 c s t).1.startTok = s.startTok ∨ (phase1_022 c s t).1.startTok = none) ∧
    ∀ x ∈ (phase1_022 c s t).2, AtHeading (seen ++ [t]) x := by
  unfold phase1_022
  split
  · exact close022_range c seen s t hI
  · split
    · exact ⟨.inl rfl, by simp⟩
    · exact ⟨.inl rfl, by simp⟩

theorem phase2_022_startTok (s : S022) (t : Tok) : (phase2_022 s t).startTok = s.startTok := by
  unfold phase2_022; split <;> rfl

theorem phase3_022_startTok (c : C022) (s : S022) (t : Tok) :
    (phase3_022 c s t).startTok = if t.isHeading then some t else s.startTok := by
  unfold phase3_022
  by_cases hh : t.isHeading = true
  · simp [hh]
  · simp only [hh, Bool.false_eq_true, if_false]
    by_cases h1 : (t.kind == Kind.tbreak || t.kind == Kind.lrd) = true
    · simp [h1]
    · simp only [h1, Bool.false_eq_true, if_false]
      by_cases h2 : t.isEnd = true
      · simp only [h2, if_true]
        by_cases h3 : (t.kind != Kind.listEnd && t.kind != Kind.bquoteEnd) = true <;>
          by_cases h4 : t.isHeadingEnd = true <;> simp [h3, h4]
      · simp [h2]

theorem md022_range_step (c : C022) (seen : List Tok) (s : S022) (t : Tok) (s' : S022) (rp : List Report)
    (hI : I022 seen s) (hn : next022 c s t = .ok (s', rp)) :
    I022 (seen ++ [t]) s' ∧ ∀ x ∈ rp, AtHeading (seen ++ [t]) x := by
  obtain ⟨hc1, hc2⟩ := phase1_022_range c seen s t hI
  unfold next022 at hn
  simp only [Except.ok.injEq, Prod.mk.injEq] at hn
  obtain ⟨e1, e2⟩ := hn
  subst e2
  refine ⟨?_, hc2⟩
  rw [← e1]
  intro h hh
  simp only [phase3_022_startTok, phase2_022_startTok] at hh
  by_cases hhd : t.isHeading = true
  · simp only [hhd, if_true, Option.some.injEq] at hh; subst hh
    exact ⟨by simp, hhd⟩
  · simp only [hhd, Bool.false_eq_true, if_false] at hh
    rcases hc1 with e | e
    · rw [e] at hh; exact ⟨List.mem_append_left _ (hI h hh).1, (hI h hh).2⟩
    · rw [e] at hh; cases hh

/-! ## MD026 -/
def I026 (seen : List Tok) (s : S026) : Prop := ∀ h, s.startTok = some h → h ∈ seen ∧ h.isHeading = true

/-- a report of MD026: the position `deltas026` computes from a heading start of the stream and a non-empty text -/
def At026 (toks : List Tok) (x : Report) : Prop :=
  ∃ h ∈ toks, h.isHeading = true ∧ ∃ (atx : Bool) (txt : Str), txt ≠ [] ∧
    mkReport h (deltas026 atx txt).1 (deltas026 atx txt).2.1 (deltas026 atx txt).2.2 none = .ok x

theorem md026_range_step (c : C026) (seen : List Tok) (s : S026) (t : Tok) (s' : S026) (rp : List Report)
    (hI : I026 seen s) (hn : next026 c s t = .ok (s', rp)) :
    I026 (seen ++ [t]) s' ∧ ∀ x ∈ rp, At026 (seen ++ [t]) x := by
  have hmono : ∀ s0 : S026, (s0.startTok = s.startTok ∨ s0.startTok = none) → I026 (seen ++ [t]) s0 := by
    intro s0 e h hh
    rcases e with e | e
    · rw [e] at hh; exact ⟨List.mem_append_left _ (hI h hh).1, (hI h hh).2⟩
    · rw [e] at hh; cases hh
  unfold next026 at hn
  split at hn
  · rename_i hh
    simp only [Except.ok.injEq, Prod.mk.injEq] at hn
    obtain ⟨e1, e2⟩ := hn; subst e1; subst e2
    refine ⟨?_, by simp⟩
    intro h0 h1; simp only [Option.some.injEq] at h1; subst h1; exact ⟨by simp, hh⟩
  · split at hn
    · split at hn
      · split at hn
        · simp only [Except.ok.injEq, Prod.mk.injEq] at hn
          obtain ⟨e1, e2⟩ := hn; subst e1; subst e2
          exact ⟨hmono _ (.inr rfl), by simp⟩
        · rename_i ch hl
          split at hn
          · split at hn
            · cases hn
            · rename_i h0 hs0
              split at hn
              · cases hn
              · rename_i r hr
                simp only [Except.ok.injEq, Prod.mk.injEq] at hn
                obtain ⟨e1, e2⟩ := hn; subst e1; subst e2
                refine ⟨hmono _ (.inr rfl), ?_⟩
                intro x hx; simp only [List.mem_singleton] at hx; subst hx
                have hne : s.text ≠ [] := by intro e; rw [e] at hl; cases hl
                exact ⟨h0, List.mem_append_left _ (hI h0 hs0).1, (hI h0 hs0).2, (t.kind == .atxEnd), s.text, hne, hr⟩
          · simp only [Except.ok.injEq, Prod.mk.injEq] at hn
            obtain ⟨e1, e2⟩ := hn; subst e1; subst e2
            exact ⟨hmono _ (.inr rfl), by simp⟩
      · simp only [Except.ok.injEq, Prod.mk.injEq] at hn
        obtain ⟨e1, e2⟩ := hn; subst e1; subst e2
        exact ⟨hmono _ (.inl rfl), by simp⟩
    · split at hn
      · simp only [Except.ok.injEq, Prod.mk.injEq] at hn
        obtain ⟨e1, e2⟩ := hn; subst e1; subst e2
        exact ⟨hmono _ (.inl rfl), by simp⟩
      · simp only [Except.ok.injEq, Prod.mk.injEq] at hn
        obtain ⟨e1, e2⟩ := hn; subst e1; subst e2
        exact ⟨hmono _ (.inl rfl), by simp⟩

/-- what `deltas026` computes stays inside the heading text: 0 ≤ line delta ≤ number of characters; the column delta is the
    index of the last character of the last line (−1 exactly when the text ends with a newline: the report then goes to column 1) -/
theorem deltas026_bounds (atx : Bool) (txt : Str) (hne : txt ≠ []) :
    0 ≤ (deltas026 atx txt).2.1 ∧ (deltas026 atx txt).2.1 ≤ txt.length ∧
    -1 ≤ (deltas026 atx txt).2.2 ∧ (deltas026 atx txt).2.2 < txt.length ∧
    ((deltas026 atx txt).2.2 = -1 → txt.getLast? = some '\n') ∧
    (atx = true → (deltas026 atx txt).1 = false ∧ (deltas026 atx txt).2.1 = 0) := by
  have hlen : 0 < txt.length := List.length_pos_iff.mpr hne
  unfold deltas026
  cases atx with
  | true => simp only [if_true]; refine ⟨by omega, by omega, by omega, by omega, fun h => by omega, fun _ => ⟨trivial, trivial⟩⟩
  | false =>
    simp only [Bool.false_eq_true, if_false]
    have hc : txt.count '\n' ≤ txt.length := List.count_le_length
    have hs : (lastSegment txt).length ≤ txt.length := by
      unfold lastSegment; rw [List.length_reverse]
      have := List.Sublist.length_le (List.takeWhile_sublist (l := txt.reverse) (fun x => x != '\n'))
      rw [List.length_reverse] at this; exact this
    refine ⟨by omega, by omega, ?_, ?_, ?_, fun h => by cases h⟩
    · split <;> omega
    · split <;> omega
    · intro h
      split at h
      · have h0 : (lastSegment txt).length = 0 := by omega
        have hnil : lastSegment txt = [] := List.eq_nil_of_length_eq_zero h0
        unfold lastSegment at hnil
        rw [List.reverse_eq_nil_iff] at hnil
        rw [List.getLast?_eq_head?_reverse]
        cases hr : txt.reverse with
        | nil => rw [List.reverse_eq_nil_iff] at hr; exact absurd hr hne
        | cons a as =>
          rw [hr, List.takeWhile_cons] at hnil
          by_cases ha : a = '\n'
          · simp [ha]
          · simp [ha] at hnil
      · omega

end Verif.Model.ScanRules
