import Verif.Lemmas.ScanRules.MD022
/-!
  MD022, C06: the six-field state is three functions of the tokens seen (`cnt022`, `ended022`, `pend022`); the verdict is `cond022`.
-/
namespace Verif.Model.ScanRules

theorem cnt022_cons (t : Tok) (before : List Tok) : cnt022 (t :: before) =
    (if t.kind == .tbreak || t.kind == .lrd then 0
     else if t.isEnd then
       (if t.kind == .listEnd || t.kind == .bquoteEnd then cnt022 before else if t.isLeafEnd then 0 else -1)
     else if t.kind == .blank then
       (if nonSimpleRev t before then 1 else if cnt022 before ≥ 0 then cnt022 before + 1 else cnt022 before)
     else cnt022 before) := rfl

theorem cnt022_ge (rev : List Tok) : cnt022 rev ≥ -1 := by
  induction rev with
  | nil => simp [cnt022]
  | cons t before ih =>
    unfold cnt022
    split
    · omega
    · split
      · split
        · exact ih
        · split <;> omega
      · split
        · split
          · omega
          · split <;> omega
        · exact ih

/-- a heading that has ended and still waits has a known count: its end set it to 0 and only transparent tokens followed -/
theorem pend022_ended_cnt (rev : List Tok) : ∀ hp, pend022 rev = some hp → ended022 rev = true → cnt022 rev ≥ 0 := by
  induction rev with
  | nil => intro hp h; cases h
  | cons t before ih =>
    intro hp hpend hended
    unfold ended022 at hended
    unfold pend022 at hpend
    by_cases hh : t.isHeading = true
    · simp [hh] at hended
    · have hh' : t.isHeading = false := by simpa using hh
      simp only [hh', Bool.false_eq_true, if_false] at hended hpend
      cases hpb : pend022 before with
      | none => rw [hpb] at hpend; cases hpend
      | some hp0 =>
        rw [hpb] at hpend
        simp only at hpend
        by_cases he : t.isHeadingEnd = true
        · -- the heading's own end: a leaf end
          have hk : t.kind = .atxEnd ∨ t.kind = .setextEnd := by
            unfold Tok.isHeadingEnd at he; simpa using he
          unfold cnt022
          rcases hk with hk | hk <;> simp [hk, Tok.isEnd, Tok.isLeafEnd]
        · have he' : t.isHeadingEnd = false := by simpa using he
          simp only [he', Bool.false_eq_true, if_false] at hended
          rw [hended] at hpend
          by_cases htr : transparent022 t before = true
          · have ihb := ih hp0 hpb hended
            unfold transparent022 at htr
            unfold cnt022
            simp only [Bool.or_eq_true, Bool.and_eq_true, beq_iff_eq, Bool.not_eq_true'] at htr
            rcases htr with hk | ⟨hk, hns⟩
            · simp [hk, Tok.isEnd]; exact ihb
            · simp [hk, Tok.isEnd, hns, ihb]; omega
          · simp [htr] at hpend

/-- `__last_blank_line` as a function of the tokens seen (latest first) -/
def lastBlankRev : List Tok → Option Int
  | [] => none
  | b :: _ => if b.kind == .blank then some b.line else none

/-- the state of the rule after the tokens `seen` -/
structure R022 (c : C022) (seen : List Tok) (s : S022) : Prop where
  blc : s.blc = cnt022 seen.reverse
  lastBlank : s.lastBlank = lastBlankRev seen.reverse
  ended : s.ended = ended022 seen.reverse
  pend : match pend022 seen.reverse with
    | some (h, bh) => s.startTok = some h ∧ s.shbc = cnt022 bh ∧ s.aboveOk = decide (cnt022 bh = -1 ∨ cnt022 bh = c.above)
    | none => s.startTok = none

theorem nonSimple022_rev (s : S022) (t : Tok) (rev : List Tok) (h : s.lastBlank = lastBlankRev rev) :
    nonSimple022 s t = nonSimpleRev t rev := by
  unfold nonSimple022 nonSimpleRev
  rw [h]
  cases rev with
  | nil => rfl
  | cons b bs =>
    unfold lastBlankRev
    by_cases hb : b.kind = .blank <;> simp [hb]

/-- the first phase, field by field (count ≥ −1) -/
theorem phase1_022_fields (c : C022) (s : S022) (t : Tok) (hb : s.blc ≥ -1) :
    (phase1_022 c s t).1.blc = (if nonSimple022 s t then 0 else s.blc) ∧
    (phase1_022 c s t).1.startTok = (if s.blc ≥ 0 ∧ fires022 s t = true then none else s.startTok) ∧
    (phase1_022 c s t).1.aboveOk = s.aboveOk ∧ (phase1_022 c s t).1.ended = s.ended ∧
    (phase1_022 c s t).1.shbc = s.shbc ∧ (phase1_022 c s t).1.lastBlank = s.lastBlank ∧
    (phase1_022 c s t).2 = (if s.blc ≥ 0 ∧ fires022 s t = true then
        (match s.startTok with
         | some h => reports022 c s h (decide (s.blc = c.below))
         | none => []) else []) := by
  unfold phase1_022 close022
  by_cases h0 : s.blc ≥ 0
  · have h1 : s.blc ≠ -1 ∧ s.blc ≥ 0 := ⟨by omega, h0⟩
    rw [if_pos h1]
    by_cases hf : fires022 s t = true <;> by_cases hn : nonSimple022 s t = true <;>
      cases hs : s.startTok <;> simp [hf, hn, h0, hs]
  · have h1 : ¬ (s.blc ≠ -1 ∧ s.blc ≥ 0) := fun h => h0 h.2
    have hm : s.blc = -1 := by omega
    rw [if_neg h1]
    by_cases hn : nonSimple022 s t = true
    · simp [hm, hn]
    · simp [hm, hn]

theorem fires022_eq (s : S022) (t : Tok) (rev : List Tok) (hl : s.lastBlank = lastBlankRev rev) :
    fires022 s t = (s.startTok.isSome && s.ended && !transparent022 t rev) := by
  unfold fires022 transparent022
  rw [nonSimple022_rev s t rev hl]
  cases s.startTok.isSome <;> cases s.ended <;> cases (t.kind == Kind.blank) <;> cases nonSimpleRev t rev <;>
    by_cases hk : t.kind = Kind.bquoteEnd <;> simp [hk, bne]

/-- kinds: what the third phase needs to know about a token -/
theorem kind_facts (t : Tok) :
    (t.isHeading = true → t.kind ≠ .blank ∧ t.isEnd = false ∧ t.isHeadingEnd = false ∧ (t.kind == Kind.tbreak || t.kind == Kind.lrd) = false) ∧
    (t.isHeadingEnd = true → t.isEnd = true ∧ t.isLeafEnd = true ∧ t.kind ≠ .listEnd ∧ t.kind ≠ .bquoteEnd ∧ t.kind ≠ .blank ∧
      t.isHeading = false ∧ (t.kind == Kind.tbreak || t.kind == Kind.lrd) = false) ∧
    (t.kind = .blank → t.isEnd = false ∧ t.isHeading = false ∧ t.isHeadingEnd = false ∧ (t.kind == Kind.tbreak || t.kind == Kind.lrd) = false) ∧
    ((t.kind == Kind.tbreak || t.kind == Kind.lrd) = true → t.isEnd = false ∧ t.kind ≠ .blank) := by
  unfold Tok.isHeading Tok.isHeadingEnd Tok.isEnd Tok.isLeafEnd
  cases t.kind <;> simp

theorem reports022_congr (c : C022) (s s' : S022) (h : Tok) (e : Bool)
    (h1 : s'.aboveOk = s.aboveOk) (h2 : s'.shbc = s.shbc) (h3 : s'.blc = s.blc) :
    reports022 c s' h e = reports022 c s h e := by
  unfold reports022; rw [h1, h2, h3]

/-- the count after one more token -/
theorem md022_blc_step (c : C022) (s : S022) (t : Tok) (rev : List Tok) (hb : s.blc = cnt022 rev)
    (hl : s.lastBlank = lastBlankRev rev) :
    (phase3_022 c (phase2_022 (phase1_022 c s t).1 t) t).blc = cnt022 (t :: rev) := by
  have hge : s.blc ≥ -1 := by rw [hb]; exact cnt022_ge rev
  obtain ⟨p1, _, _, _, _, _, _⟩ := phase1_022_fields c s t hge
  have hns := nonSimple022_rev s t rev hl
  obtain ⟨k1, k2, k3, k4⟩ := kind_facts t
  rw [hns, hb] at p1
  generalize (phase1_022 c s t).1 = s1 at p1 ⊢
  obtain ⟨b1, ao1, st1, en1, sh1, lb1⟩ := s1
  simp only at p1
  subst p1
  rw [cnt022_cons]
  unfold phase3_022 phase2_022
  by_cases hbk : t.kind = .blank
  · obtain ⟨e1, e2, e3, e4⟩ := k3 hbk
    simp only [hbk, beq_self_eq_true, true_and, e1, e2, e4, Bool.false_eq_true, if_false]
    by_cases hn : nonSimpleRev t rev = true
    · simp [hn]
    · simp only [hn, Bool.false_eq_true, if_false]
      by_cases h0 : cnt022 rev ≥ 0
      · have : cnt022 rev ≠ -1 ∧ cnt022 rev ≥ 0 := ⟨by omega, h0⟩
        simp [this, h0]
      · have : ¬ (cnt022 rev ≠ -1 ∧ cnt022 rev ≥ 0) := fun h => h0 h.2
        simp [this, h0]
  · have hn : nonSimpleRev t rev = false := by unfold nonSimpleRev; simp [hbk]
    have hbk' : (t.kind == Kind.blank) = false := by simpa using hbk
    simp only [hn, hbk', Bool.false_eq_true, false_and, if_false]
    by_cases hh : t.isHeading = true
    · obtain ⟨_, e1, _, e2⟩ := k1 hh
      simp [hh, e1, e2]
    · have hh' : t.isHeading = false := by simpa using hh
      simp only [hh', Bool.false_eq_true, if_false]
      by_cases htb : (t.kind == Kind.tbreak || t.kind == Kind.lrd) = true
      · simp [htb]
      · simp only [htb, Bool.false_eq_true, if_false]
        by_cases hend : t.isEnd = true
        · simp only [hend, if_true]
          by_cases hlq : t.kind = .listEnd ∨ t.kind = .bquoteEnd
          · have a1 : (t.kind != Kind.listEnd && t.kind != Kind.bquoteEnd) = false := by
              rcases hlq with h | h <;> simp [h]
            have a2 : (t.kind == Kind.listEnd || t.kind == Kind.bquoteEnd) = true := by
              rcases hlq with h | h <;> simp [h]
            have a3 : t.isHeadingEnd = false := by
              unfold Tok.isHeadingEnd; rcases hlq with h | h <;> simp [h]
            simp [a1, a2, a3]
          · have a1 : (t.kind != Kind.listEnd && t.kind != Kind.bquoteEnd) = true := by
              simp only [not_or] at hlq; simp [hlq.1, hlq.2]
            have a2 : (t.kind == Kind.listEnd || t.kind == Kind.bquoteEnd) = false := by
              simp only [not_or] at hlq; simp [hlq.1, hlq.2]
            by_cases hhe : t.isHeadingEnd = true <;> by_cases hle : t.isLeafEnd = true <;> simp [a1, a2, hhe, hle]
        · simp [hend]

theorem phase2_022_proj (s : S022) (t : Tok) :
    (phase2_022 s t).ended = s.ended ∧ (phase2_022 s t).startTok = s.startTok ∧ (phase2_022 s t).shbc = s.shbc ∧
    (phase2_022 s t).aboveOk = s.aboveOk ∧ (t.kind ≠ .blank → (phase2_022 s t).blc = s.blc) := by
  unfold phase2_022
  split
  · rename_i h; exact ⟨rfl, rfl, rfl, rfl, fun hk => absurd (by simpa using h.1) hk⟩
  · exact ⟨rfl, rfl, rfl, rfl, fun _ => rfl⟩

theorem phase3_022_proj (c : C022) (s : S022) (t : Tok) :
    (phase3_022 c s t).ended = (if t.isHeading then false else if t.isHeadingEnd then true else s.ended) ∧
    (phase3_022 c s t).startTok = (if t.isHeading then some t else s.startTok) ∧
    (phase3_022 c s t).shbc = (if t.isHeading then s.blc else s.shbc) ∧
    (phase3_022 c s t).aboveOk = (if t.isHeading then decide (s.blc = -1 ∨ s.blc = c.above) else s.aboveOk) := by
  obtain ⟨k1, k2, k3, k4⟩ := kind_facts t
  unfold phase3_022
  by_cases hh : t.isHeading = true
  · simp [hh]
  · have hh' : t.isHeading = false := by simpa using hh
    simp only [hh', Bool.false_eq_true, if_false]
    by_cases htb : (t.kind == Kind.tbreak || t.kind == Kind.lrd) = true
    · have he : t.isHeadingEnd = false := by
        cases hhe : t.isHeadingEnd with
        | false => rfl
        | true => have := (k2 hhe).2.2.2.2.2.2; rw [htb] at this; cases this
      simp [htb, he]
    · simp only [htb, Bool.false_eq_true, if_false]
      by_cases hend : t.isEnd = true
      · simp only [hend, if_true]
        by_cases a1 : (t.kind != Kind.listEnd && t.kind != Kind.bquoteEnd) = true <;>
          by_cases hhe : t.isHeadingEnd = true <;> simp [a1, hhe]
      · have he : t.isHeadingEnd = false := by
          cases hhe : t.isHeadingEnd with
          | false => rfl
          | true => have := (k2 hhe).1; rw [this] at hend; exact absurd rfl hend
        simp [hend, he]

/-- the tracker fields after one more token -/
theorem md022_track_step (c : C022) (s : S022) (t : Tok) (hge : s.blc ≥ -1) :
    (phase3_022 c (phase2_022 (phase1_022 c s t).1 t) t).ended =
      (if t.isHeading then false else if t.isHeadingEnd then true else s.ended) ∧
    (phase3_022 c (phase2_022 (phase1_022 c s t).1 t) t).startTok =
      (if t.isHeading then some t else if s.blc ≥ 0 ∧ fires022 s t = true then none else s.startTok) ∧
    (phase3_022 c (phase2_022 (phase1_022 c s t).1 t) t).shbc = (if t.isHeading then s.blc else s.shbc) ∧
    (phase3_022 c (phase2_022 (phase1_022 c s t).1 t) t).aboveOk =
      (if t.isHeading then decide (s.blc = -1 ∨ s.blc = c.above) else s.aboveOk) := by
  obtain ⟨p1, p2, p3, p4, p5, p6, _⟩ := phase1_022_fields c s t hge
  obtain ⟨q1, q2, q3, q4, q5⟩ := phase2_022_proj (phase1_022 c s t).1 t
  obtain ⟨r1, r2, r3, r4⟩ := phase3_022_proj c (phase2_022 (phase1_022 c s t).1 t) t
  obtain ⟨k1, _, _, _⟩ := kind_facts t
  rw [r1, r2, r3, r4, q1, q2, q3, q4, p2, p3, p4, p5]
  refine ⟨rfl, rfl, ?_, ?_⟩
  · by_cases hh : t.isHeading = true
    · have hnb := (k1 hh).1
      have hn : nonSimple022 s t = false := by unfold nonSimple022; simp [hnb]
      simp only [hh, if_true, q5 hnb, p1, hn, Bool.false_eq_true, if_false]
    · simp [hh]
  · by_cases hh : t.isHeading = true
    · have hnb := (k1 hh).1
      have hn : nonSimple022 s t = false := by unfold nonSimple022; simp [hnb]
      simp only [hh, if_true, q5 hnb, p1, hn, Bool.false_eq_true, if_false]
    · simp [hh]

theorem md022_step (c : C022) (seen : List Tok) (s : S022) (t : Tok) (hR : R022 c seen s) :
    ∃ s', next022 c s t = .ok (s', cond022 c seen t) ∧ R022 c (seen ++ [t]) s' := by
  obtain ⟨rb, rl, re, rp⟩ := hR
  have hge : s.blc ≥ -1 := by rw [rb]; exact cnt022_ge _
  have hblc := md022_blc_step c s t seen.reverse rb rl
  obtain ⟨t1, t2, t3, t4⟩ := md022_track_step c s t hge
  obtain ⟨_, _, _, _, _, _, p7⟩ := phase1_022_fields c s t hge
  have hf := fires022_eq s t seen.reverse rl
  obtain ⟨k1, k2, k3, k4⟩ := kind_facts t
  -- the reports
  have hrep : (phase1_022 c s t).2 = cond022 c seen t := by
    rw [p7]
    unfold cond022
    cases hp : pend022 seen.reverse with
    | none =>
      rw [hp] at rp
      simp only at rp
      simp [hf, rp]
    | some hp0 =>
      obtain ⟨h, bh⟩ := hp0
      rw [hp] at rp
      simp only at rp
      obtain ⟨r1, r2, r3⟩ := rp
      simp only [hf, r1, Option.isSome_some, Bool.true_and, re]
      by_cases hfire : (ended022 seen.reverse && !transparent022 t seen.reverse) = true
      · have hend : ended022 seen.reverse = true := by
          simp only [Bool.and_eq_true] at hfire; exact hfire.1
        have hc0 := pend022_ended_cnt seen.reverse (h, bh) hp hend
        have hb0 : s.blc ≥ 0 := by rw [rb]; exact hc0
        simp only [hfire, hb0, and_self, if_true]
        have e : decide (s.blc = c.below) = decide (cnt022 seen.reverse = c.below) := by rw [rb]
        rw [e]
        exact reports022_congr c _ s h _ r3 r2 rb
      · simp [hfire]
  refine ⟨_, by unfold next022; rw [hrep], ?_⟩
  have hrev : (seen ++ [t]).reverse = t :: seen.reverse := by simp
  refine ⟨?_, ?_, ?_, ?_⟩
  · rw [hrev]; exact hblc
  · rw [hrev]; rfl
  · rw [hrev]
    show (phase3_022 c (phase2_022 (phase1_022 c s t).1 t) t).ended = ended022 (t :: seen.reverse)
    rw [t1, re]; rfl
  · rw [hrev]
    show (match pend022 (t :: seen.reverse) with
      | some (h, bh) => (phase3_022 c (phase2_022 (phase1_022 c s t).1 t) t).startTok = some h ∧
          (phase3_022 c (phase2_022 (phase1_022 c s t).1 t) t).shbc = cnt022 bh ∧
          (phase3_022 c (phase2_022 (phase1_022 c s t).1 t) t).aboveOk = decide (cnt022 bh = -1 ∨ cnt022 bh = c.above)
      | none => (phase3_022 c (phase2_022 (phase1_022 c s t).1 t) t).startTok = none)
    rw [t2, t3, t4]
    unfold pend022
    by_cases hh : t.isHeading = true
    · simp only [hh, if_true]
      refine ⟨?_, rb, by rw [rb]⟩
      first | rfl | trivial
    · have hh' : t.isHeading = false := by simpa using hh
      simp only [hh', Bool.false_eq_true, if_false]
      cases hp : pend022 seen.reverse with
      | none =>
        rw [hp] at rp
        simp only at rp
        simp only
        split
        · rfl
        · exact rp
      | some hp0 =>
        obtain ⟨h, bh⟩ := hp0
        rw [hp] at rp
        simp only at rp
        obtain ⟨r1, r2, r3⟩ := rp
        simp only
        by_cases hfire : (ended022 seen.reverse && !transparent022 t seen.reverse) = true
        · have hend : ended022 seen.reverse = true := by
            simp only [Bool.and_eq_true] at hfire; exact hfire.1
          have hc0 := pend022_ended_cnt seen.reverse (h, bh) hp hend
          have hb0 : s.blc ≥ 0 := by rw [rb]; exact hc0
          have hf' : fires022 s t = true := by rw [hf, r1, re]; simpa using hfire
          simp only [hfire, if_true, hb0, hf', and_self]
        · have hf' : ¬ (s.blc ≥ 0 ∧ fires022 s t = true) := by
            intro hcon
            apply hfire
            have := hcon.2
            rw [hf, r1, re] at this
            simpa using this
          simp only [hfire, Bool.false_eq_true, if_false, hf']
          exact ⟨r1, r2, r3⟩

theorem R022_init (c : C022) : R022 c [] (md022.start c md022.fresh) := ⟨rfl, rfl, rfl, rfl⟩

theorem md022_scanFrom (c : C022) (toks : List Tok) :
    scanFrom md022 c (md022.start c md022.fresh) toks = .ok (byPrefix (cond022 c) [] toks) :=
  scanFrom_eq_byPrefix md022 c (R022 c) (fun _ _ => True) (cond022 c) (fun seen s t hR _ => md022_step c seen s t hR)
    toks [] _ (R022_init c) (fun _ _ => trivial)

/-- every token of `gap` (latest first, on top of `base`) is transparent where it stands -/
def AllTransparent : List Tok → List Tok → Prop
  | [], _ => True
  | x :: b, base => transparent022 x (b ++ base) = true ∧ AllTransparent b base

/-- over a run of transparent tokens a known count grows by the number of blank lines in the run -/
theorem cnt022_gap : ∀ (gap base : List Tok), cnt022 base ≥ 0 → AllTransparent gap base →
    cnt022 (gap ++ base) = cnt022 base + ((gap.filter (fun x => x.kind == .blank)).length : Int) := by
  intro gap
  induction gap with
  | nil => intro base _ _; simp
  | cons x b ih =>
    intro base hb hall
    obtain ⟨hx, hrest⟩ := hall
    have ihb := ih base hb hrest
    have hge : cnt022 (b ++ base) ≥ 0 := by rw [ihb]; omega
    rw [List.cons_append, cnt022_cons]
    unfold transparent022 at hx
    simp only [Bool.or_eq_true, Bool.and_eq_true, beq_iff_eq, Bool.not_eq_true'] at hx
    rcases hx with hk | ⟨hk, hns⟩
    · simp [hk, Tok.isEnd, List.filter_cons, ihb]
    · simp only [hk, Tok.isEnd, hns, hge, List.filter_cons, ihb]
      simp
      omega

end Verif.Model.ScanRules
