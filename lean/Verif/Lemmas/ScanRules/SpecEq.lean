import Verif.Lemmas.ScanRules.Basic
import Verif.Lemmas.ScanRules.MD003
import Verif.Model.ScanRules.Spec
import Verif.Model.RuleSpec.Headings
import Verif.Model.RuleSpec.Blocks
/-!
  Faithful model = reference condition (`Model/RuleSpec`): the list lemmas behind the `mdX_faithful_eq_spec` theorems.
  The reference conditions are written over LeanMark's block / inline events, the faithful ones over pymarkdown's tokens; a theorem
  takes the CORRESPONDENCE of the two element lists (same elements, in order, with the stated attributes) as hypothesis and concludes
  that the reported lines are the same.
-/
namespace Verif.Model.ScanRules
open Verif.Model

/-! ## generic -/
/-- corresponding lists, a decision that agrees on corresponding elements, an anchor that agrees: the same selected anchors -/
theorem filter_corr {α β γ : Type} (R : α → β → Prop) (p : α → Bool) (q : β → Bool) (g : α → γ) (k : β → γ)
    (h : ∀ a b, R a b → p a = q b ∧ g a = k b) :
    ∀ (as : List α) (bs : List β), All₂ R as bs → (as.filter p).map g = (bs.filter q).map k := by
  intro as bs hc
  induction hc with
  | nil => rfl
  | @cons a b as bs hab _ ih =>
    obtain ⟨h1, h2⟩ := h a b hab
    simp only [List.filter_cons, h1]
    cases q b <;> simp [ih, h2]

theorem dropWhile_eq_nil (p : Char → Bool) : ∀ l : Str, l.dropWhile p = [] ↔ l.all p = true := by
  intro l
  induction l with
  | nil => simp
  | cons x xs ih =>
    by_cases hx : p x = true
    · simp [List.dropWhile_cons, hx, ih]
    · simp [List.dropWhile_cons, hx]

theorem dropWhile_head_not (p : Char → Bool) : ∀ (l : Str) (x : Char) (r : Str), l.dropWhile p = x :: r → p x = false := by
  intro l
  induction l with
  | nil => intro x r h; cases h
  | cons y ys ih =>
    intro x r h
    by_cases hy : p y = true
    · rw [List.dropWhile_cons_of_pos hy] at h; exact ih x r h
    · rw [List.dropWhile_cons_of_neg hy] at h
      simp only [List.cons.injEq] at h
      rw [← h.1]; simpa using hy

/-- `s.strip(chars)` is empty iff every character of `s` is one of `chars` -/
theorem stripBy_isEmpty (p : Char → Bool) (l : Str) : (stripBy p l).isEmpty = l.all p := by
  unfold stripBy
  cases hd : l.dropWhile p with
  | nil =>
    have := (dropWhile_eq_nil p l).mp hd
    simp [this]
  | cons x r =>
    have hx := dropWhile_head_not p l x r hd
    have hall : l.all p = false := by
      cases ha : l.all p with
      | false => rfl
      | true => rw [(dropWhile_eq_nil p l).mpr ha] at hd; cases hd
    rw [hall]
    have : ¬ ((x :: r).reverse.dropWhile p = []) := by
      rw [dropWhile_eq_nil]
      simp only [List.all_reverse, List.all_cons, hx, Bool.false_and, Bool.false_eq_true, not_false_eq_true]
    cases hr : (x :: r).reverse.dropWhile p with
    | nil => exact absurd hr this
    | cons y ys => simp

/-! ## MD040 -/
/-- the info word pymarkdown stores as `extracted_text`: the info string up to its first white space, leading white space removed -/
def firstWord (info : Str) : Str := (info.dropWhile isAsciiWs).takeWhile (fun c => !isAsciiWs c)

theorem isAsciiWs_eq_isWsChar (c : Char) : isAsciiWs c = LeanMark.isWsChar c := rfl

theorem firstWord_isEmpty : ∀ info : Str, (firstWord info).isEmpty = (info.filter (fun c => !isAsciiWs c)).isEmpty := by
  intro info
  induction info with
  | nil => rfl
  | cons x xs ih =>
    unfold firstWord at ih ⊢
    by_cases hx : isAsciiWs x = true
    · simp only [List.dropWhile_cons_of_pos hx, List.filter_cons, hx, Bool.not_true, Bool.false_eq_true, if_false]; exact ih
    · simp [List.dropWhile_cons_of_neg hx, List.takeWhile_cons, hx]

theorem firstWord_no_ws (info : Str) : (firstWord info).all isAsciiWs = (firstWord info).isEmpty := by
  unfold firstWord
  generalize info.dropWhile isAsciiWs = l
  cases l with
  | nil => rfl
  | cons x xs =>
    by_cases hx : isAsciiWs x = true
    · simp [List.takeWhile_cons, hx]
    · simp [List.takeWhile_cons, hx]

/-- MD040's verdict on the stored info word = the reference's verdict on the info string -/
theorem md040_pred (info : Str) :
    (stripBy isAsciiWs (firstWord info)).isEmpty = (info.filter (fun c => !LeanMark.isWsChar c)).isEmpty := by
  rw [stripBy_isEmpty, firstWord_no_ws, firstWord_isEmpty]; rfl

/-! ## MD045 -/
theorem beq_char_toNat (c d : Char) : (c == d) = (c.toNat == d.toNat) := by
  by_cases h : c = d
  · subst h; rw [beq_self_eq_true, beq_self_eq_true]
  · have : c.toNat ≠ d.toNat := fun e => h (Char.toNat_inj.mp e)
    rw [beq_eq_false_iff_ne.mpr h, beq_eq_false_iff_ne.mpr this]

/-- pymarkdown's Unicode white space = LeanMark's, except for the vertical tab (which LeanMark counts and pymarkdown does not) -/
theorem isUnicodeWs_eq (c : Char) (h : c ≠ '\x0b') : isUnicodeWs c = LeanMark.isUniWs c := by
  have hv : c.toNat ≠ 11 := fun e => h (Char.toNat_inj.mp e)
  unfold isUnicodeWs LeanMark.isUniWs LeanMark.isWsChar unicodeWsChars
  simp only [beq_char_toNat, List.contains_cons, List.contains_nil, Bool.or_false]
  generalize c.toNat = n at hv
  simp only [show (' ' : Char).toNat = 32 from rfl, show ('\t' : Char).toNat = 9 from rfl, show ('\n' : Char).toNat = 10 from rfl,
    show ('\x0b' : Char).toNat = 11 from rfl, show ('\x0c' : Char).toNat = 12 from rfl, show ('\r' : Char).toNat = 13 from rfl]
  rw [Bool.eq_iff_iff]
  simp only [Bool.or_eq_true, beq_iff_eq, Bool.and_eq_true, decide_eq_true_eq]
  omega

theorem md045_pred (alt : Str) (h : ∀ c ∈ alt, c ≠ '\x0b') :
    (stripBy isUnicodeWs alt).isEmpty = alt.all LeanMark.isUniWs := by
  rw [stripBy_isEmpty]
  induction alt with
  | nil => rfl
  | cons x xs ih =>
    simp only [List.all_cons]
    rw [isUnicodeWs_eq x (h x (by simp)), ih (fun c hc => h c (List.mem_cons_of_mem _ hc))]

/-! ## MD025 -/
/-- `byPrefix (cond025 c)` as a recursion on "the top-level heading was established" -/
def go025 (c : C025) : Bool → List Tok → List Report
  | _, [] => []
  | b, t :: ts =>
    (if t.isHeading && decide (t.hashCount = c.level) && b then [reportAt t] else []) ++ go025 c (b || top025 c t) ts

theorem byPrefix025 (c : C025) : ∀ (ts seen : List Tok), byPrefix (cond025 c) seen ts = go025 c (seen.any (top025 c)) ts := by
  intro ts
  induction ts with
  | nil => intro _; rfl
  | cons t ts ih =>
    intro seen
    rw [byPrefix_cons, ih (seen ++ [t])]
    simp only [go025, cond025, List.any_append, List.any_cons, List.any_nil, Bool.or_false]

theorem go025_ref (c : C025) (lvl : Nat) (hc : c.level = (lvl : Int)) : ∀ (ts : List Tok) (hs : List RuleSpec.Heading) (b : Bool),
    (∀ t ∈ ts, t.kind ≠ .frontMatter) →
    All₂ (fun (t : Tok) (h : RuleSpec.Heading) => t.hashCount = (h.level : Int) ∧ t.line = (h.markLine : Int))
      (ts.filter (·.isHeading)) hs →
    (go025 c b ts).map (·.line) =
      ((if b then hs.filter (·.level == lvl) else (hs.filter (·.level == lvl)).drop 1).map (fun h => (h.markLine : Int))) := by
  intro ts
  induction ts with
  | nil =>
    intro hs b _ hc2
    simp only [List.filter_nil] at hc2
    cases hc2
    cases b <;> rfl
  | cons t ts ih =>
    intro hs b hfm hc2
    have hfm' : ∀ u ∈ ts, u.kind ≠ .frontMatter := fun u hu => hfm u (List.mem_cons_of_mem _ hu)
    have htf : (t.kind == Kind.frontMatter) = false := by simpa using hfm t (by simp)
    by_cases hh : t.isHeading = true
    · simp only [List.filter_cons, hh, if_true] at hc2
      cases hc2 with
      | @cons _ h _ hs' hth hrest =>
        obtain ⟨h1, h2⟩ := hth
        have hlv : (t.hashCount = c.level) ↔ (h.level == lvl) = true := by
          rw [h1, hc]; simp only [beq_iff_eq]; omega
        by_cases hl : (h.level == lvl) = true
        · have hl' : t.hashCount = c.level := hlv.mpr hl
          have htop : top025 c t = true := by unfold top025; simp [hh, hl']
          simp only [go025, hh, hl', decide_true, Bool.true_and, htop, Bool.or_true, List.filter_cons, hl, if_true]
          rw [List.map_append, ih hs' true hfm' hrest]
          cases b
          · simp
          · simp [reportAt, h2]
        · have hl' : ¬ t.hashCount = c.level := fun e => hl (hlv.mp e)
          have htop : top025 c t = false := by unfold top025; simp [hh, hl', htf]
          simp only [go025, hh, hl', decide_false, Bool.and_false, Bool.false_and, Bool.false_eq_true, if_false, htop, Bool.or_false,
            List.filter_cons, hl, List.nil_append]
          exact ih hs' b hfm' hrest
    · have hh' : t.isHeading = false := by simpa using hh
      simp only [List.filter_cons, hh', Bool.false_eq_true, if_false] at hc2
      have htop : top025 c t = false := by unfold top025; simp [hh', htf]
      simp only [go025, hh', Bool.false_and, Bool.false_eq_true, if_false, htop, Bool.or_false, List.nil_append]
      exact ih hs b hfm' hc2

/-! ## MD003 -/
def styRef : Sty003 → RuleSpec.S003
  | .consistent => .consistent | .atx => .atx | .atxClosed => .atxClosed | .setext => .setext
  | .setextWithAtx => .setextWithAtx | .setextWithAtxClosed => .setextWithAtxClosed

def hstyRef : Sty003 → RuleSpec.HStyle
  | .atxClosed => .atxClosed | .setext => .setext | _ => .atx

/-- token heading ↔ reference heading -/
def R003 (t : Tok) (h : RuleSpec.Heading) : Prop :=
  ∃ st l12, headingProps003 t = some (st, l12) ∧ h.style = hstyRef st ∧ l12 = decide (h.level ≤ 2) ∧ t.line = (h.markLine : Int)

theorem upd003_ref (al : Bool) (a st : Sty003) (lvl : Nat) (hst : st = .atx ∨ st = .atxClosed ∨ st = .setext) :
    styRef (upd003 al a st (decide (lvl ≤ 2))) =
      if (al && styRef a == RuleSpec.S003.setext && decide (lvl ≥ 3) && hstyRef st == RuleSpec.HStyle.atx) = true
      then RuleSpec.S003.setextWithAtx else styRef a := by
  have h3 : decide (lvl ≥ 3) = !decide (lvl ≤ 2) := by
    by_cases h : lvl ≤ 2
    · have : ¬ lvl ≥ 3 := by omega
      simp [h, this]
    · have : lvl ≥ 3 := by omega
      simp [h, this]
  rw [h3]
  rcases hst with e | e | e <;> subst e <;> cases a <;> cases al <;> cases decide (lvl ≤ 2) <;> rfl

theorem conforms003_ref (a st : Sty003) (h : RuleSpec.Heading) (hst : st = .atx ∨ st = .atxClosed ∨ st = .setext)
    (hsty : h.style = hstyRef st) :
    conforms003 a st (decide (h.level ≤ 2)) = RuleSpec.okStyle (styRef a) h := by
  unfold RuleSpec.okStyle conforms003
  rw [hsty]
  by_cases h2 : h.level ≤ 2
  · simp only [h2, decide_true, if_true]
    rcases hst with e | e | e <;> subst e <;> cases a <;> rfl
  · simp only [h2, decide_false, Bool.false_eq_true, if_false]
    rcases hst with e | e | e <;> subst e <;> cases a <;> rfl

/-- `byPrefix (cond003 c)` from a style in force `a` (never `consistent`), as a recursion that mirrors `RuleSpec.md003Go` -/
theorem cond003_ref (c : C003) : ∀ (ts seen : List Tok) (hs : List RuleSpec.Heading) (a : Sty003),
    inForce003 c seen = some a →
    All₂ R003 (ts.filter (·.isHeading)) hs →
    (byPrefix (cond003 c) seen ts).map (·.line) =
      (RuleSpec.md003Go c.allowUpdate (styRef a) hs).map (fun x => (x.1 : Int)) := by
  intro ts
  induction ts with
  | nil =>
    intro seen hs a _ hc
    simp only [List.filter_nil] at hc
    cases hc; rfl
  | cons t ts ih =>
    intro seen hs a ha hc
    rw [byPrefix_cons]
    by_cases hh : t.isHeading = true
    · simp only [List.filter_cons, hh, if_true] at hc
      cases hc with
      | @cons _ h _ hs' hth hrest =>
        obtain ⟨st, l12, hp, hsty, hl, hline⟩ := hth
        obtain ⟨hst, hset⟩ := headingProps003_style t st l12 hp
        have hsn := inForce003_snoc c seen t st l12 hp
        rw [ha] at hsn
        simp only at hsn
        rw [List.map_append, ih (seen ++ [t]) hs' _ hsn hrest]
        have hc003 : cond003 c seen t =
            if conforms003 (upd003 c.allowUpdate a st l12) st l12 then []
            else [reportAt t (some (extra003 (expected003 (upd003 c.allowUpdate a st l12) l12) st))] := by
          unfold cond003; rw [hp, ha, hsn]
        rw [hc003]
        subst hl
        have hupd := upd003_ref c.allowUpdate a st h.level hst
        have hok := conforms003_ref (upd003 c.allowUpdate a st (decide (h.level ≤ 2))) st h hst hsty
        simp only [RuleSpec.md003Go, List.map_append]
        rw [hsty, ← hupd, ← hok]
        by_cases hcf : conforms003 (upd003 c.allowUpdate a st (decide (h.level ≤ 2))) st (decide (h.level ≤ 2)) = true
        · simp [hcf]
        · simp [hcf, reportAt, hline]
    · have hh' : t.isHeading = false := by simpa using hh
      simp only [List.filter_cons, hh', Bool.false_eq_true, if_false] at hc
      have hp : headingProps003 t = none := by
        unfold Tok.isHeading at hh'; unfold headingProps003; cases hk : t.kind <;> simp_all
      rw [List.map_append, ih (seen ++ [t]) hs a (by rw [inForce003_not_heading c seen t hp]; exact ha) hc]
      unfold cond003; rw [hp]; rfl

/-- `consistent`: the tokens before the first heading, then `cond003_ref` from the first heading's style -/
theorem cond003_ref_consistent (c : C003) : ∀ (ts seen : List Tok) (hs : List RuleSpec.Heading),
    inForce003 c seen = none →
    All₂ R003 (ts.filter (·.isHeading)) hs →
    (byPrefix (cond003 c) seen ts).map (·.line) =
      (match hs with
       | h :: rest => RuleSpec.md003Go c.allowUpdate (RuleSpec.styleOfFirst h) rest
       | [] => []).map (fun (x : RuleSpec.Hit) => (x.1 : Int)) := by
  intro ts
  induction ts with
  | nil =>
    intro seen hs _ hc
    simp only [List.filter_nil] at hc
    cases hc; rfl
  | cons t ts ih =>
    intro seen hs ha hc
    rw [byPrefix_cons]
    have hc0 : cond003 c seen t = [] := by
      unfold cond003; rw [ha]; cases headingProps003 t <;> rfl
    rw [hc0, List.nil_append]
    by_cases hh : t.isHeading = true
    · simp only [List.filter_cons, hh, if_true] at hc
      cases hc with
      | @cons _ h _ hs' hth hrest =>
        obtain ⟨st, l12, hp, hsty, hl, hline⟩ := hth
        obtain ⟨hst, _⟩ := headingProps003_style t st l12 hp
        have hsn := inForce003_snoc c seen t st l12 hp
        rw [ha] at hsn
        simp only at hsn
        rw [cond003_ref c ts (seen ++ [t]) hs' st hsn hrest]
        have : styRef st = RuleSpec.styleOfFirst h := by
          unfold RuleSpec.styleOfFirst; rw [hsty]
          rcases hst with e | e | e <;> subst e <;> rfl
        rw [this]
    · have hh' : t.isHeading = false := by simpa using hh
      simp only [List.filter_cons, hh', Bool.false_eq_true, if_false] at hc
      have hp : headingProps003 t = none := by
        unfold Tok.isHeading at hh'; unfold headingProps003; cases hk : t.kind <;> simp_all
      exact ih (seen ++ [t]) hs (by rw [inForce003_not_heading c seen t hp]; exact ha) hc

theorem inForce003_nil (c : C003) (h : c.style ≠ .consistent → c.allowUpdate = false) :
    inForce003 c [] = if c.style = .consistent then none else some c.style := by
  unfold inForce003 headStyles start003
  by_cases hs : c.style = .consistent
  · simp [hs]
  · simp [hs, h hs]

/-! ## MD024 -/
/-- the sibling search over the completed headings of the stream = the reference's `isDupOf` over the reference headings, when
    the two lists correspond (levels; text equality with the heading in question coincides) -/
theorem sibHas_ref (sib : Bool) (h : RuleSpec.Heading) (txt : Str) :
    ∀ (closed : List (Int × Str)) (seenRef : List RuleSpec.Heading),
    All₂ (fun (p : Int × Str) (g : RuleSpec.Heading) =>
      p.1 = (if sib then (g.level : Int) else 1) ∧ (p.2 = txt ↔ g.text = h.text)) closed seenRef →
    sibHas (if sib then (h.level : Int) else 1) txt closed = RuleSpec.isDupOf sib h seenRef := by
  intro closed seenRef hc
  induction hc with
  | nil => rfl
  | @cons p g ps gs hpg _ ih =>
    obtain ⟨l, x⟩ := p
    obtain ⟨h1, h2⟩ := hpg
    simp only at h1 h2
    unfold sibHas RuleSpec.isDupOf
    rw [ih]
    have hx : (x == txt) = (g.text == h.text) := by
      by_cases e : x = txt
      · have := h2.mp e; rw [beq_iff_eq.mpr e, beq_iff_eq.mpr this]
      · have : ¬ g.text = h.text := fun e' => e (h2.mpr e')
        rw [beq_eq_false_iff_ne.mpr e, beq_eq_false_iff_ne.mpr this]
    cases sib with
    | false =>
      simp only [Bool.false_eq_true, if_false] at h1 ⊢
      subst h1
      simp [hx]
    | true =>
      simp only [if_true] at h1 ⊢
      subst h1
      by_cases hlt : g.level < h.level
      · have : (g.level : Int) < (h.level : Int) := by omega
        simp [hlt, this]
      · have : ¬ (g.level : Int) < (h.level : Int) := by omega
        have he : ((g.level : Int) == (h.level : Int)) = (g.level == h.level) := by
          by_cases e : g.level = h.level
          · rw [e]; simp
          · have : ¬ (g.level : Int) = (h.level : Int) := by omega
            rw [beq_eq_false_iff_ne.mpr e, beq_eq_false_iff_ne.mpr this]
        simp [hlt, this, he, hx]

/-! ## MD042 -/
theorem dropWhile_snoc_not (p : Char → Bool) (x : Char) (hx : p x = false) : ∀ l : Str,
    (l ++ [x]).dropWhile p = l.dropWhile p ++ [x] := by
  intro l
  induction l with
  | nil => simp [List.dropWhile_cons, hx]
  | cons y ys ih =>
    by_cases hy : p y = true
    · simp [List.dropWhile_cons, hy, ih]
    · simp [List.dropWhile_cons, hy]

/-- right-stripping keeps a leading character that is not stripped -/
theorem rstrip_cons_not (p : Char → Bool) (x : Char) (r : Str) (hx : p x = false) :
    ((x :: r).reverse.dropWhile p).reverse = x :: (r.reverse.dropWhile p).reverse := by
  rw [List.reverse_cons, dropWhile_snoc_not p x hx, List.reverse_append]; rfl

/-- `strip` gives the one character `#` iff removing every white-space character does — when the white space of the string is
    ASCII white space (pymarkdown strips the six ASCII characters, the reference removes Unicode white space) -/
theorem md042_pred (d : Str) (h : ∀ ch ∈ d, LeanMark.isUniWs ch = isAsciiWs ch) :
    ((stripBy isAsciiWs d).isEmpty || stripBy isAsciiWs d == ['#']) = RuleSpec.emptyDest d := by
  have hf : d.filter (fun c => !LeanMark.isUniWs c) = d.filter (fun c => !isAsciiWs c) :=
    List.filter_congr (fun c hc => by rw [h c hc])
  unfold RuleSpec.emptyDest
  simp only [hf]
  clear hf h
  unfold stripBy
  induction d with
  | nil => rfl
  | cons x xs ih =>
    by_cases hx : isAsciiWs x = true
    · simp only [List.dropWhile_cons_of_pos hx, List.filter_cons, hx, Bool.not_true, Bool.false_eq_true, if_false]
      exact ih
    · have hx' : isAsciiWs x = false := by simpa using hx
      rw [List.dropWhile_cons_of_neg hx, rstrip_cons_not isAsciiWs x xs hx']
      simp only [List.filter_cons, hx', Bool.not_false, if_true, List.isEmpty_cons, Bool.false_or]
      have key : ((xs.reverse.dropWhile isAsciiWs).reverse = []) ↔ (xs.filter (fun c => !isAsciiWs c) = []) := by
        rw [List.reverse_eq_nil_iff, dropWhile_eq_nil]
        simp only [List.all_reverse, List.all_eq_true, List.filter_eq_nil_iff, Bool.not_eq_true', Bool.not_eq_false]
      by_cases hh : x = '#'
      · subst hh
        by_cases hk : xs.filter (fun c => !isAsciiWs c) = []
        · rw [hk, key.mpr hk]
        · have hk2 : ¬ (xs.reverse.dropWhile isAsciiWs).reverse = [] := fun e => hk (key.mp e)
          have e1 : (('#' :: (xs.reverse.dropWhile isAsciiWs).reverse) == ['#']) = false := by
            cases hr : (xs.reverse.dropWhile isAsciiWs).reverse with
            | nil => exact absurd hr hk2
            | cons a as => simp
          have e2 : (('#' :: xs.filter (fun c => !isAsciiWs c)) == ['#']) = false := by
            cases hr : xs.filter (fun c => !isAsciiWs c) with
            | nil => exact absurd hr hk
            | cons a as => simp
          rw [e1, e2]
      · have e1 : ((x :: (xs.reverse.dropWhile isAsciiWs).reverse) == ['#']) = false := by simp [hh]
        have e2 : ((x :: xs.filter (fun c => !isAsciiWs c)) == ['#']) = false := by simp [hh]
        rw [e1, e2]

end Verif.Model.ScanRules
